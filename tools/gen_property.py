#!/usr/bin/env python3
"""Helper used while writing coq/Properties/Cxx.v: prints `Theorem <name> : <statement>. Proof. exact <lemma>. Qed.` with the
statement as Coq prints it for <lemma>, plus the Check pin and Print Assumptions lines.  The output is reviewed and
committed by hand; it is not run by the checks.
usage: gen_property.py "<Require line>" name=lemma name=lemma ..."""
import re, subprocess, sys, os, tempfile
COQ = os.path.join(os.path.dirname(os.path.dirname(os.path.abspath(__file__))), "coq")

def main():
    req = sys.argv[1]
    pairs = [a.split("=", 1) for a in sys.argv[2:]]
    src = req + "\nSet Printing Width 118. Set Printing Depth 100000.\n" + "".join('Check %s.\n' % l for _, l in pairs)
    with tempfile.NamedTemporaryFile("w", suffix=".v", dir=COQ, delete=False) as f:
        f.write(src); path = f.name
    out = subprocess.run(["coqc", "-q", "-Q", ".", "GS", path], cwd=COQ, capture_output=True, text=True)
    for ext in (".v", ".vo", ".vok", ".vos", ".glob"):
        try: os.remove(path[:-2] + ext)
        except OSError: pass
    try: os.remove(os.path.join(COQ, "." + os.path.basename(path)[:-2] + ".aux"))
    except OSError: pass
    if out.returncode != 0:
        print(out.stdout, out.stderr, file=sys.stderr); sys.exit(1)
    text = out.stdout
    stmts = {}
    cur = None
    for (name, lemma) in pairs:
        short = lemma.split(".")[-1]
        m = re.search(r"^(?:\w+\.)*%s\s*\n?\s*:\s(.*?)(?=^\S|\Z)" % re.escape(short), text, re.S | re.M)
        if not m:
            print("could not find", lemma, file=sys.stderr); sys.exit(1)
        stmts[name] = " ".join(m.group(1).split())
        text = text[m.end():]
    thms, checks, prints = [], [], []
    for name, lemma in pairs:
        thms.append("Theorem %s :\n  %s.\nProof. exact %s. Qed.\n" % (name, stmts[name], lemma))
        checks.append("Check %s :\n  %s." % (name, stmts[name]))
        prints.append("Print Assumptions %s." % name)
    print("\n".join(thms)); print("\n".join(checks)); print("\n".join(prints))

if __name__ == "__main__":
    main()

#!/usr/bin/env python3
"""Prototype: translate RPSPolicer.get_timeout (restricted Python subset) to Gallina.
State = record of the `self._x` attributes annotated in __init__ (Optional[int] -> option Z, int -> Z).
Statements: if/elif/else, assignment to locals and self attrs, +=, return.  Expressions: ints, None,
names, self attrs, + - * //, comparisons, `is None`.  Anything else -> TranslationError."""
import ast, sys

class TranslationError(Exception): pass

def load_class(path, cls):
    tree = ast.parse(open(path).read())
    for n in tree.body:
        if isinstance(n, ast.ClassDef) and n.name == cls:
            return n
    raise TranslationError(f"class {cls} not found")

def fields_of(cls):
    init = next(f for f in cls.body if isinstance(f, ast.FunctionDef) and f.name == "__init__")
    fields = {}
    for st in ast.walk(init):
        if isinstance(st, ast.AnnAssign) and isinstance(st.target, ast.Attribute) and getattr(st.target.value, "id", None) == "self":
            ann = ast.unparse(st.annotation)
            if ann == "int": fields[st.target.attr] = "Z"
            elif ann == "Optional[int]": fields[st.target.attr] = "option Z"
            else: raise TranslationError(f"unsupported field type {ann}")
    return fields

class Ctx:
    def __init__(self, fields):
        self.fields = fields
        self.cur = {f: f"({f} st)" for f in fields}   # current symbolic value of each field
        self.known_some = {}                           # field -> name bound by a match
        self.locals = set()
    def copy(self):
        c = Ctx(self.fields); c.cur = dict(self.cur); c.known_some = dict(self.known_some); c.locals = set(self.locals); return c
    def state(self):
        return "{| " + "; ".join(f"{f} := {self.cur[f]}" for f in self.fields) + " |}"

BINOP = {ast.Add: "+", ast.Sub: "-", ast.Mult: "*", ast.FloorDiv: "/"}
CMP = {ast.Lt: "<?", ast.LtE: "<=?", ast.Eq: "=?"}

def expr(e, c):
    if isinstance(e, ast.Constant) and isinstance(e.value, int) and not isinstance(e.value, bool):
        return str(e.value) if e.value >= 0 else f"({e.value})"
    if isinstance(e, ast.Name):
        if e.id in c.locals: return e.id
        raise TranslationError(f"unknown name {e.id}")
    if isinstance(e, ast.Attribute) and getattr(e.value, "id", None) == "self" and e.attr in c.fields:
        if c.fields[e.attr] == "option Z":
            if e.attr in c.known_some: return c.known_some[e.attr]
            raise TranslationError(f"self.{e.attr} used as int while it may be None")
        return c.cur[e.attr]
    if isinstance(e, ast.BinOp) and type(e.op) in BINOP:
        return f"({expr(e.left, c)} {BINOP[type(e.op)]} {expr(e.right, c)})"
    raise TranslationError(f"unsupported expression {ast.dump(e)}")

def cond(e, c):
    if isinstance(e, ast.Compare) and len(e.ops) == 1 and type(e.ops[0]) in CMP:
        return f"({expr(e.left, c)} {CMP[type(e.ops[0])]} {expr(e.comparators[0], c)})"
    raise TranslationError(f"unsupported condition {ast.dump(e)}")

def is_none_test(e, c):
    if (isinstance(e, ast.Compare) and len(e.ops) == 1 and isinstance(e.ops[0], ast.Is)
            and isinstance(e.comparators[0], ast.Constant) and e.comparators[0].value is None
            and isinstance(e.left, ast.Attribute) and getattr(e.left.value, "id", None) == "self"
            and c.fields.get(e.left.attr) == "option Z"):
        return e.left.attr
    return None

def always_returns(stmts):
    if not stmts: return False
    last = stmts[-1]
    if isinstance(last, ast.Return): return True
    if isinstance(last, ast.If): return always_returns(last.body) and always_returns(last.orelse)
    return False

def block(stmts, c, ind):
    """translate a statement list that must end in return on every path"""
    pad = "  " * ind
    if not stmts: raise TranslationError("path without return")
    s, rest = stmts[0], stmts[1:]
    if isinstance(s, ast.Expr) and isinstance(s.value, ast.Constant) and isinstance(s.value.value, str):
        return block(rest, c, ind)                                    # docstring
    if isinstance(s, ast.Return):
        v = s.value
        if v is None or (isinstance(v, ast.Constant) and v.value is None): r = "None"
        else: r = f"Some {expr(v, c)}"
        return f"{pad}({c.state()}, {r})"
    if isinstance(s, ast.Assign) and len(s.targets) == 1:
        t = s.targets[0]
        if isinstance(t, ast.Name):
            v = expr(s.value, c); c2 = c.copy(); c2.locals.add(t.id)
            return f"{pad}let {t.id} := {v} in\n" + block(rest, c2, ind)
        if isinstance(t, ast.Attribute) and getattr(t.value, "id", None) == "self" and t.attr in c.fields:
            c2 = c.copy(); v = expr(s.value, c)
            if c.fields[t.attr] == "option Z":
                c2.cur[t.attr] = f"Some {v}"; c2.known_some[t.attr] = v
            else: c2.cur[t.attr] = v
            return block(rest, c2, ind)
    if isinstance(s, ast.AugAssign) and isinstance(s.target, ast.Attribute) and type(s.op) in BINOP:
        t = s.target
        v = f"({expr(t, c)} {BINOP[type(s.op)]} {expr(s.value, c)})"; c2 = c.copy()
        if c.fields[t.attr] == "option Z":
            c2.cur[t.attr] = f"Some {v}"; c2.known_some[t.attr] = v
        else: c2.cur[t.attr] = v
        return block(rest, c2, ind)
    if isinstance(s, ast.If):
        f = is_none_test(s.test, c)
        if f is not None and always_returns(s.body):
            cn = c.copy(); cs = c.copy(); x = f.strip("_") + "0"
            cs.known_some[f] = x; cs.cur[f] = f"Some {x}"
            return (f"{pad}match {c.cur[f]} with\n{pad}| None =>\n" + block(s.body, cn, ind + 1) +
                    f"\n{pad}| Some {x} =>\n" + block(s.orelse + rest, cs, ind + 1) + f"\n{pad}end")
        if always_returns(s.body):
            return (f"{pad}if {cond(s.test, c)} then\n" + block(s.body, c.copy(), ind + 1) +
                    f"\n{pad}else\n" + block(s.orelse + rest, c.copy(), ind + 1))
    raise TranslationError(f"unsupported statement at line {s.lineno}: {ast.unparse(s)[:60]}")


def ctor(cls, fields):
    """RPSPolicer.__init__ -> init (rps_le_zero : bool) (q : Z) : option pstate.

    Recognised shape, statement by statement (anything else is a TranslationError):
      if rps <= ZERO: ... raise ValueError          -> refuse when rps_le_zero
      self._prev: Optional[int] = None              -> field := None
      self._delta: int = int(NS / rps)              -> field := q   (q is the float quotient truncated by int();
                                                                    an input of the model, validated by correspondence)
      if not self._delta: ... raise ValueError      -> refuse when field = 0
    """
    init = next(f for f in cls.body if isinstance(f, ast.FunctionDef) and f.name == "__init__")
    args = [a.arg for a in init.args.args if a.arg != "self"]
    if args != ["rps"]:
        raise TranslationError(f"__init__ args {args}")
    cur = {}
    out = []   # nested conditions, innermost last
    def raises(body):
        return any(isinstance(x, ast.Raise) for x in body) and all(isinstance(x, (ast.Assign, ast.Raise)) for x in body)
    for st in init.body:
        if isinstance(st, ast.Expr) and isinstance(st.value, ast.Constant) and isinstance(st.value.value, str):
            continue
        if isinstance(st, ast.If) and not st.orelse and raises(st.body):
            t = st.test
            src = ast.unparse(t)
            if src == "rps <= ZERO":
                out.append(("guard", "rps_le_zero"))
            elif isinstance(t, ast.UnaryOp) and isinstance(t.op, ast.Not) and isinstance(t.operand, ast.Attribute) \
                    and getattr(t.operand.value, "id", None) == "self" and fields.get(t.operand.attr) == "Z":
                if t.operand.attr not in cur: raise TranslationError("test of unset field")
                out.append(("guard", f"({cur[t.operand.attr]} =? 0)"))
            else:
                raise TranslationError(f"unsupported constructor guard: {src}")
            continue
        if isinstance(st, ast.AnnAssign) and isinstance(st.target, ast.Attribute) and getattr(st.target.value, "id", None) == "self":
            f = st.target.attr
            v = ast.unparse(st.value)
            if fields[f] == "option Z" and v == "None": cur[f] = "None"
            elif fields[f] == "Z" and v == "int(NS / rps)": cur[f] = "q"
            else: raise TranslationError(f"unsupported constructor assignment: self.{f} = {v}")
            continue
        raise TranslationError(f"unsupported constructor statement at line {st.lineno}: {ast.unparse(st)[:60]}")
    for f in fields:
        if f not in cur: raise TranslationError(f"field {f} not initialised")
    body = "Some {| " + "; ".join(f"{f} := {cur[f]}" for f in fields) + " |}"
    for kind, g in reversed(out):
        body = f"if {g} then None else {body}"
    return "Definition init (rps_le_zero : bool) (q : Z) : option pstate :=\n  " + body + "."

def module_consts(path):
    tree = ast.parse(open(path).read())
    c = {}
    for n in tree.body:
        if isinstance(n, ast.Assign) and len(n.targets) == 1 and isinstance(n.targets[0], ast.Name) and isinstance(n.value, ast.Constant):
            c[n.targets[0].id] = n.value.value
    return c

def waiter(path):
    """BasePolicer.wait / wait_sync -> sleep_of.  Both must have exactly the shape
         delta = self.get_timeout(perf_counter_ns()); if delta and delta > 0: [await asyncio.]sleep(float(delta) / NS)"""
    cls = load_class(path, "BasePolicer")
    for name, call in (("wait", "await asyncio.sleep(float(delta) / NS)"), ("wait_sync", "sleep(float(delta) / NS)")):
        fn = next(f for f in cls.body if isinstance(f, (ast.FunctionDef, ast.AsyncFunctionDef)) and f.name == name)
        body = [s for s in fn.body if not (isinstance(s, ast.Expr) and isinstance(s.value, ast.Constant))]
        got = [ast.unparse(s) for s in body]
        want = ["delta = self.get_timeout(perf_counter_ns())", f"if delta and delta > 0:\n    {call}"]
        if got != want:
            raise TranslationError(f"{name} has unexpected shape: {got}")
    return ("Definition sleep_of (o : option Z) : Z :=\n"
            "  match o with Some d => if (negb (d =? 0)) && (0 <? d) then d else 0 | None => 0 end.")

def main(path):
    consts = module_consts(path)
    if consts.get("NS") != 1_000_000_000.0 or consts.get("ZERO") != 0.0:
        raise TranslationError(f"NS/ZERO constants changed: {consts}")
    cls = load_class(path, "RPSPolicer")
    fields = fields_of(cls)
    fn = next(f for f in cls.body if isinstance(f, ast.FunctionDef) and f.name == "get_timeout")
    args = [a.arg for a in fn.args.args if a.arg != "self"]
    c = Ctx(fields); c.locals.update(args)
    out = ["(* GENERATED from %s by tools/py2coq.py - do not edit *)" % path,
           "From Coq Require Import ZArith Bool.", "Open Scope Z_scope.", "Open Scope bool_scope.",
           "Record pstate := { " + "; ".join(f"{f} : {t}" for f, t in fields.items()) + " }.",
           f"Definition get_timeout (st : pstate) " + " ".join(f"({a} : Z)" for a in args) + " : pstate * option Z :=",
           block(fn.body, c, 1) + ".",
           ctor(cls, fields),
           waiter(path),
           "Definition NS : Z := 1000000000."]
    print("\n".join(out))

if __name__ == "__main__":
    try: main(sys.argv[1])
    except TranslationError as e:
        print("TRANSLATION-ERROR:", e, file=sys.stderr); sys.exit(3)

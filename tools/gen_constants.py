#!/usr/bin/env python3
"""Extract every numeric constant the Coq model names from /repo's sources -> coq/Gen/Constants.v.
A constant whose pattern no longer matches (a private name was changed, a literal became an expression) is looked for by
its pinned value among the constants of the same file (`renamed`), and failing that takes the pinned value (`assumed`);
both are recorded as NOTE comments in the output and reach the evidence.  An assumed value that is wrong makes the model
emit or accept other octets than the code does, which the correspondence run reports."""
import re, sys, os

class Missing(Exception): pass

def rd(repo, rel):
    return open(os.path.join(repo, rel)).read()

def num(s):
    s = s.replace("_", "").strip()
    return int(s, 16) if s.lower().startswith("0x") else int(s, 2) if s.lower().startswith("0b") else int(s)

def const(src, name, rel):
    m = re.search(r"\bconst\s+%s\s*:\s*[\w:<>]+\s*=\s*(0x[0-9a-fA-F_]+|0b[01_]+|[0-9_]+)\s*;" % re.escape(name), src)
    if not m:
        return None
    return num(m.group(1))

def pinned():
    path = os.path.join(os.path.dirname(os.path.abspath(__file__)), "pinned", "Constants.v")
    return dict((k, int(v)) for k, v in re.findall(r"Definition (\w+) : Z := (-?\d+)\.", open(path).read()))

def all_consts(src):
    out = []
    for m in re.finditer(r"\bconst\s+(\w+)\s*:\s*[\w:<>]+\s*=\s*(0x[0-9a-fA-F_]+|0b[01_]+|[0-9_]+)\s*;", src):
        out.append((m.group(1), num(m.group(2))))
    for m in re.finditer(r"^\s*(\w+)\s*(?::\s*\w+)?\s*=\s*(\d+)\s*$", src, re.M):
        out.append((m.group(1), int(m.group(2))))
    return out

def main(repo):
    out = ["(* GENERATED from %s by tools/gen_constants.py - do not edit *)" % repo,
           "From Coq Require Import ZArith.", "Open Scope Z_scope."]
    PIN = pinned()
    notes = []
    cur = {"src": "", "rel": ""}
    def emit(name, v):
        if v is None:
            if name not in PIN:
                raise Missing("%s not found in %s and no pinned value" % (name, cur["rel"]))
            same = [n for n, x in all_consts(cur["src"]) if x == PIN[name]]
            measured = os.environ.get("GS_MEASURED_" + name)
            if measured is not None:
                notes.append("(* NOTE %s: pattern not found in %s; value %s MEASURED on the code's own output (no property fixes it) *)" % (name, cur["rel"], measured))
                out.append("Definition %s : Z := %d." % (name, int(measured)))
                return
            if len(same) == 1:
                notes.append("(* NOTE %s: pattern not found in %s; taken from the constant %s of the same value (renamed) *)" % (name, cur["rel"], same[0]))
            else:
                notes.append("(* NOTE %s: pattern not found in %s; pinned value %d ASSUMED (tied by the correspondence run only) *)" % (name, cur["rel"], PIN[name]))
            v = PIN[name]
        out.append("Definition %s : Z := %d." % (name, v))
    rel = "src/ber/mod.rs"; s = rd(repo, rel); cur["src"] = s; cur["rel"] = rel
    for n in ["TAG_BOOL", "TAG_INT", "TAG_OCTET_STRING", "TAG_NULL", "TAG_OBJECT_ID", "TAG_OBJECT_DESCRIPTOR", "TAG_REAL",
              "TAG_SEQUENCE", "TAG_RELATIVE_OID", "TAG_APP_IPADDRESS", "TAG_APP_COUNTER32", "TAG_APP_GAUGE32",
              "TAG_APP_TIMETICKS", "TAG_APP_OPAQUE", "TAG_APP_COUNTER64", "TAG_APP_UINTEGER32",
              "TAG_CTX_NO_SUCH_OBJECT", "TAG_CTX_NO_SUCH_INSTANCE", "TAG_CTX_END_OF_MIB_VIEW"]:
        emit(n, const(s, n, rel))
    rel = "src/buf/buffer.rs"; s = rd(repo, rel); cur["src"] = s; cur["rel"] = rel
    emit("BUF_MAX_SIZE", const(s, "MAX_SIZE", rel))
    rel = "src/snmp/mod.rs"; s = rd(repo, rel); cur["src"] = s; cur["rel"] = rel
    for n in ["SNMP_V1", "SNMP_V2C", "SNMP_V3", "PDU_GET_REQUEST", "PDU_GETNEXT_REQUEST", "PDU_GET_RESPONSE",
              "PDU_GET_BULK_REQUEST", "PDU_REPORT"]:
        emit(n, const(s, n, rel))
    # literal context-constructed PDU tags written out in pdu.rs
    rel = "src/snmp/pdu.rs"; s = rd(repo, rel); cur["src"] = s; cur["rel"] = rel
    for name, variant in [("PDU_TAG_GET", "GetRequest"), ("PDU_TAG_GETNEXT", "GetNextRequest"), ("PDU_TAG_GETBULK", "GetBulkRequest")]:
        m = re.search(r"SnmpPdu::%s\(req\)\s*=>\s*\{\s*req\.push_ber\(buf\)\?;\s*buf\.push_tag_len\((\d+),\s*buf\.len\(\)\s*-\s*rest\)" % variant, s)
        emit(name, int(m.group(1)) if m else None)
    rel = "src/snmp/msg/v3/msg.rs"; s = rd(repo, rel); cur["src"] = s; cur["rel"] = rel
    emit("V3_MAX_SIZE", const(s, "MAX_SIZE", rel)); emit("USM_MODEL", const(s, "USM", rel))
    for n in ["FLAG_REPORT", "FLAG_PRIV", "FLAG_AUTH"]: emit(n, const(s, n, rel))
    rel = "src/reqid.rs"; s = rd(repo, rel); cur["src"] = s; cur["rel"] = rel
    emit("MAX_REQUEST_ID", const(s, "MAX_REQUEST_ID", rel))
    rel = "src/auth/mod.rs"; s = rd(repo, rel); cur["src"] = s; cur["rel"] = rel
    for n in ["NO_AUTH", "MD5_AUTH", "SHA1_AUTH", "KT_ALG_MASK", "KT_TYPE_MASK", "KT_PASSWORD", "KT_MASTER", "KT_LOCALIZED"]:
        emit(n, const(s, n, rel))
    for name, ty in [("MD5", "Md5"), ("SHA1", "Sha1")]:
        m = re.search(r"pub type %sAuthKey\s*=\s*DigestAuth<%s,\s*(\d+),\s*(\d+)>" % (ty, ty), s)
        emit(name + "_KEY_SIZE", int(m.group(1)) if m else None); emit(name + "_SIGN_SIZE", int(m.group(2)) if m else None)
    rel = "src/auth/digest.rs"; s = rd(repo, rel); cur["src"] = s; cur["rel"] = rel
    emit("PADDED_LENGTH", const(s, "PADDED_LENGTH", rel)); emit("IPAD_VALUE", const(s, "IPAD_VALUE", rel))
    emit("OPAD_VALUE", const(s, "OPAD_VALUE", rel)); emit("MEGABYTE", const(s, "MEGABYTE", rel))
    rel = "src/privacy/mod.rs"; s = rd(repo, rel); cur["src"] = s; cur["rel"] = rel
    emit("NO_PRIV", const(s, "NO_PRIV", rel)); emit("PRIV_DES", const(s, "DES", rel)); emit("PRIV_AES128", const(s, "AES128", rel))
    emit("PRIV_KT_ALG_MASK", const(s, "KT_ALG_MASK", rel))
    rel = "src/privacy/des.rs"; s = rd(repo, rel); cur["src"] = s; cur["rel"] = rel
    emit("DES_KEY_LENGTH", const(s, "KEY_LENGTH", rel)); emit("DES_ENC_KEY_LENGTH", const(s, "ENC_KEY_LENGTH", rel))
    emit("DES_SALT_SIZE", const(s, "SALT_SIZE", rel)); emit("DES_BLOCK_SIZE", const(s, "BLOCK_SIZE", rel))
    rel = "src/privacy/aes128.rs"; s = rd(repo, rel); cur["src"] = s; cur["rel"] = rel
    emit("AES_KEY_LENGTH", const(s, "KEY_LENGTH", rel)); emit("AES_BLOCK_SIZE", const(s, "BLOCK_SIZE", rel))
    # Python side
    rel = "src/gufo/snmp/user.py"; s = rd(repo, rel); cur["src"] = s; cur["rel"] = rel
    for cls, attr, name in [("Md5Key", "AUTH_ALG", "PY_MD5_AUTH_ALG"), ("Md5Key", "KEY_LENGTH", "PY_MD5_KEY_LENGTH"),
                            ("Sha1Key", "AUTH_ALG", "PY_SHA1_AUTH_ALG"), ("Sha1Key", "KEY_LENGTH", "PY_SHA1_KEY_LENGTH"),
                            ("DesKey", "PRIV_ALG", "PY_DES_PRIV_ALG"), ("Aes128Key", "PRIV_ALG", "PY_AES_PRIV_ALG")]:
        m = re.search(r"class %s\(.*?\):(.*?)(?=\nclass |\Z)" % cls, s, re.S)
        mm = m and re.search(r"\b%s\s*=\s*(\d+)" % attr, m.group(1))
        emit(name, int(mm.group(1)) if mm else None)
    m = re.search(r"class KeyType\(IntEnum\):(.*?)def ", s, re.S)
    for k in ["Password", "Master", "Localized"]:
        mm = m and re.search(r"\b%s\s*=\s*(\d+)" % k, m.group(1))
        emit("PY_KT_" + k.upper(), int(mm.group(1)) if mm else None)
    mm = re.search(r"return self\.value << (\d+)", s)
    emit("PY_KT_SHIFT", int(mm.group(1)) if mm else None)
    print("\n".join(out + notes))

if __name__ == "__main__":
    try: main(sys.argv[1])
    except Missing as e:
        print("CONSTANT-MISSING:", e, file=sys.stderr); sys.exit(3)

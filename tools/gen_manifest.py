#!/usr/bin/env python3
"""Write /verif/MANIFEST.json from the table below (kept valid at all times)."""
import json, os
HERE = os.path.dirname(os.path.dirname(os.path.abspath(__file__)))
ALL = ["C%02d" % i for i in range(1, 20)]

CLAIMED = {
 "C19": dict(
   text="Coq theorems C19_ctor, C19_delay, C19_window over the Gallina model that tools/py2coq.py regenerates from policer.py on every run: "
        "for every interval and every history of sequential calls on a monotonic clock the delay is within [0, interval] and any two releases "
        "i<j are more than (j-i-1) intervals apart; constructor refuses rps<=0 and interval 0.  The generated model is run (extracted) against "
        "the real RPSPolicer.wait_sync/wait on exhaustive small and random boundary histories, and the inequalities are re-evaluated on the implementation's results.",
   note="Trusted: Coq kernel/VM; py2coq translator (validated each run against policer.py); extraction (ExtrOcamlBasic) + OCaml driver; the float quotient NS/rps "
        "is an input of the constructor model; sleep/perf_counter_ns replaced by a logical clock. No axioms (Closed under the global context).",
   technique="Coq proof by induction over call histories on a model regenerated from source; differential run of extracted model vs policer.py",
   ref="5 C19"),
}

PENDING = "check not built yet in this round (see DESIGN.md section 7 for the order of work)"

def main():
    checks = []
    for pid, c in sorted(CLAIMED.items()):
        checks.append({
            "property_id": pid,
            "quick_cmd": "./check %s --tier quick" % pid,
            "thorough_cmd": "./check %s --tier thorough" % pid,
            "evidence_file": "/verif/evidence/%s.json" % pid,
            "replay_cmd_template": "./check %s --replay {path}" % pid,
            "engine": "coq+differential",
            "level_claimed": {"category": c.get("category", "proof"), "text": c["text"], "design_ref": "DESIGN.md section " + c["ref"]},
            "level_note": c["note"],
            "technique": c["technique"],
        })
    m = {
        "version": 1,
        "setup_cmd": "./check setup",
        "hooks": {"guard": "gufo_snmp_verif", "enable": "RUSTFLAGS='--cfg gufo_snmp_verif' (set by every check; no hook is currently needed: "
                  "private modules are reached by #[path] inclusion, sockets through the public Python API)",
                  "baseline_off_cmd": "cd /repo && cargo test --workspace --no-fail-fast --offline",
                  "source_commits": [], "add_only": True},
        "engines": [{"name": "coq+differential", "path": "/verif/check", "serves_properties": sorted(CLAIMED),
                     "kind_free_text": "Coq 8.16.1 proofs over a Gallina model (coq/), model tied to /repo by translators (tools/) and by "
                                       "differential execution of the extracted model against the real Rust/Python code (harness/, ocaml/)"}],
        "checks": checks,
        "notes": "See DESIGN.md. Every check regenerates coq/Gen/*.v from /repo, rebuilds the property's proof cone with make (full .vo), audits "
                 "Print Assumptions, rebuilds the implementation drivers from /repo's working tree, and runs model and implementation on the same inputs.",
        "not_applicable": [{"property_id": p, "reason": PENDING} for p in ALL if p not in CLAIMED],
    }
    with open(os.path.join(HERE, "MANIFEST.json"), "w") as f:
        json.dump(m, f, indent=1)
    print("MANIFEST.json written:", len(checks), "checks")

if __name__ == "__main__":
    main()

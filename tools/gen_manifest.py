#!/usr/bin/env python3
"""Write /verif/MANIFEST.json from the table below (kept valid at all times)."""
import json, os
HERE = os.path.dirname(os.path.dirname(os.path.abspath(__file__)))
ALL = ["C%02d" % i for i in range(1, 20)]

CLAIMED = {
 "C19": dict(
   text="Coq theorems C19_ctor, C19_delay, C19_window over the Gallina model that tools/py2coq.py regenerates from policer.py on every run: "
        "for every interval and every history of sequential calls on a monotonic clock the delay is within [0, interval] and any two releases "
        "i<j are more than (j-i-1) intervals apart; constructor refuses rps<=0 and interval 0.  The generated model is run (extracted) against "
        "the real RPSPolicer.wait_sync/wait on exhaustive small and random boundary histories, and the inequalities are re-evaluated on the implementation's results."
        "  Through a session: C19_session_policed / C19_session_policed_count over Model/PyLayer.v (every API call of both clients, on any script of socket results: each request is released by exactly one consultation of the session's policer); real rate-limited sessions are driven for every operation with a counting policer, and the Python layer alone is run on scripted socket results against the extracted model; C19_program_policed extends this to programs "
        "(several iterators and calls interleaved on one session, each continued after an exception), run the same way.  C19_wire_window "
        "(Proofs/PolicerWire.v) composes the two: a datagram leaves between its request's release and the next consultation, so the datagrams "
        "of requests i<j are more than (j-i-2) intervals apart - the long-run rate on the wire never exceeds rps.",
   note="Trusted: Coq kernel/VM; py2coq translator (validated each run against policer.py); extraction (ExtrOcamlBasic) + OCaml driver; the float quotient NS/rps "
        "is an input of the constructor model; sleep/perf_counter_ns replaced by a logical clock. No axioms (Closed under the global context).",
   technique="Coq proof by induction over call histories on a model regenerated from source; differential run of extracted model vs policer.py",
   ref="5 C19"),
 "C08": dict(
   text="Coq theorems C08_sound / C08_never_different / C08_complete / C08_refuse* / C08_print_parse / C08_round_trip_canonical over "
        "Model/OidText.v: for every text, the parser either errs (InvalidData, never a panic) or returns exactly the canonical X.690 octets of "
        "the OID the text denotes; every text with >= 2 arcs, first <= 2, second <= 39, arcs <= 2^32-1 is accepted; printing the octets gives "
        "back the canonical text.  The extracted model is run against SnmpOid::try_from / String::try_from (debug+release) on ~30k texts and the "
        "wire image of get()/getnext() is checked against an independent parser and encoder.",
   note="Trusted: Coq kernel; hand model of objectid.rs tied by differential execution each run; reference semantics (denotes, valid_arcs, "
        "oid_content) defined in Coq; '+' and leading zeros accepted as Rust's u32::from_str does (recorded reading). No axioms.",
   technique="Coq proof (parser soundness/completeness/print-parse) + differential run of extracted model vs Rust, API wire check",
   ref="5 C08"),
 "C17": dict(
   text="Coq theorems C17_in_bounds (every sequence of buffer operations keeps 0 <= pos <= MAX_SIZE), C17_lengths (short/0x81/0x82 forms), "
        "C17_oob_iff_community / C17_oob_iff_v3 (a request gives OutOfBuffer exactly when its reference encoding exceeds MAX_SIZE, otherwise the "
        "whole reference encoding is produced), C17_push_written / C17_skip_contract / C17_reset (only skip exposes unwritten cells).  The buffer "
        "and encoder model is run against the real Buffer and push_ber on op sequences and on messages swept octet by octet across 127/128, "
        "255/256 and 4080; the real SnmpSession is driven across the 4080 boundary (SnmpEncodeError and nothing sent vs well-formed datagram)."
        "  The private buffers of the DES / AES keys are covered by privacy histories (what follows the scoped PDU must be zeros written for this request).",
   note="Partial by nature: the unsafe pointer code of buffer.rs is modelled as list operations with the bounds as proof obligations, not "
        "verified against a memory model; MAX_SIZE is read from the source each run (Gen/Constants.v). No axioms.",
   technique="Coq invariant over all operation sequences + refinement of encoders to a functional spec; differential run vs Rust; API sweep",
   ref="5 C17"),
 "C15": dict(
   text="Coq theorems C15_*: push_int/push_oid/push_null/push_pdu/push_cmsg/push_v3 emit exactly the reference X.690 encodings of Spec/X690.v "
        "(minimal two's complement, minimal definite lengths; C15_int_minimal: no shorter octet string has the same value) and the library's "
        "decoders return the original value with nothing left over (C15_*_roundtrip for INTEGER over all i64, OID, NULL, OCTET STRING, "
        "Get/GetNext/GetBulk PDUs, v1/v2c messages, v3 messages plain and encrypted, USM parameters, scoped PDU).  Extracted model vs real "
        "push_ber/from_ber on every INTEGER of 1..2 (thorough: 3) content octets, boundary neighbourhoods, random i64, and thousands of messages; "
        "oracle: independent minimal encoder and the implementation's own decode of its own output.",
   note="Trusted: Coq kernel; hand model tied by differential execution (debug+release); Spec/X690.v as the definition of 'minimal'. No axioms.",
   technique="Coq refinement proof (encoder = functional spec) + round-trip proof; differential run of extracted model vs Rust",
   ref="5 C15"),
 "C16": dict(
   text="Coq theorems C16_*: the header and every element decoder are independent of the octets following the element and leave exactly those "
        "octets (C16_header_extent, C16_element_extent, C16_value_extent, *_local), a declared length never exceeds the available octets "
        "(C16_header_fits: overrun is rejected with Incomplete), octets after the top-level v1/v2c/v3 message, after USM parameters and after the "
        "varbind list are rejected with TrailingData.  Metamorphic correspondence on ~15k (x, x++s) pairs over all types and message layers and on "
        "messages with a tampered inner length.",
   note="Trusted: Coq kernel; hand model of the decoders tied by differential execution (debug+release). Octets after the PDU but inside the "
        "message envelope are ignored by the code (as modelled); the property only requires rejection after the top-level message. No axioms.",
   technique="Coq proof of extent lemmas by induction on the octet list; metamorphic differential run vs Rust",
   ref="5 C16"),
 "C02": dict(
   text="Coq theorems C02_value (every legal BER encoding of every SNMP value kind, any definite length form, decodes to the value it denotes and "
        "leaves the rest), C02_integer / C02_unsigned32 / C02_unsigned64 (two's complement resp. unsigned value for minimal and padded contents), "
        "C02_response_every_position (any number of varbinds, every position).  REAL is partial: exact description proved (C02_real_*_partial), "
        "IEEE rounding delegated to the correspondence run.  Three-way comparison intended value / model / implementation through the codec "
        "harness and through get, get_many, getnext, getbulk (sync+async; v1, v2c, v3 noAuth/SHA/MD5+DES/SHA+AES).",
   note="Trusted: Coq kernel; hand model; PyO3 conversions exercised only by the API-level run; f64 rounding (powi, parse::<f64>) not modelled (partial). No axioms.",
   technique="Coq proof over an inductive relation of legal encodings; differential run vs Rust and vs the real SnmpSession",
   ref="5 C02"),
 "C01": dict(
   text="Coq theorems C01_*_total: for every octet string, no decoder of the receive path (header, every value type, relative-OID "
        "normalisation, PDUs, v1/v2c/v3 messages, USM parameters, scoped PDU, msgData) reaches a Rust panic (the model returns an explicit Panic "
        "exactly where the Rust would: unchecked index, slice, clone_from_slice, division by zero, todo!()), the varbind loop terminates, and "
        "every error maps to a documented exception class through the generated error map (C01_error_classes).  Extracted decoders vs the real "
        "ones exhaustively on all inputs of <= 2 octets, on ~25k mutated messages and on privacy-decrypt inputs (debug+release); the real "
        "SnmpSession in 6 security configurations x {get, get_many, getnext, getbulk, refresh} against replies with one defect."
        "  Python layer: C01_sync_client_exceptions and C01_*_exceptions_closed over Model/PyLayer.v (the layer adds only TimeoutError and the end-of-iteration signals); every API call runs under a watchdog, so a call that never returns is an outcome (HANG) and a violation, as is a worker process that dies."
        "  C01_python_api_exceptions_closed: whatever an API call of either client raises is TimeoutError, an end-of-iteration signal, or an exception a socket method raised during that call.",
   note="Trusted: Coq kernel; hand model tied by differential execution; PyO3 glue and the socket layer are exercised only by the API run. "
        "'touches no memory outside the received bytes' is the absence of out-of-range indexing in safe Rust (modelled as Panic); the unsafe "
        "buffer code is C17. The five crashing inputs of the pinned commit were repaired by fix: commits (known_findings.json). No axioms.",
   technique="Coq totality proofs by induction on the octet list over a model with explicit Panic; exhaustive small-input differential run; API fault run",
   ref="5 C01"),
 "C04": dict(
   text="Coq theorems C04_* over Model/Ops.v: the community receive loop, run on ANY list of arriving datagrams, delivers a PDU only if the "
        "first non-skippable datagram decodes as the session's version with the session's community and (unless a Report) the outstanding "
        "request-id (C04_delivered, C04_never_wrong_request, C04_never_wrong_community); skipped datagrams do not end the wait and a later "
        "matching reply is still delivered (C04_skip_continues, C04_later_reply_delivered); a datagram that does not decode ends the call with "
        "SnmpDecodeError (C04_decode_error_ends_call); timeout iff everything was skippable.  The v3 acceptance condition is Properties/C10.v. "
        "Fault scripts (all words of length <= 2 over 11 faults, random longer) run against real v1/v2c sync/async sessions; expected outcome "
        "computed from the ids seen on the wire.",
   note="Trusted: Coq kernel; hand model tied by differential execution; loss/duplication/delay/reordering are modelled as the arrival list "
        "the kernel hands to recv in order; wall-clock behaviour is C18. No axioms.",
   technique="Coq characterisation of the receive loop by induction on the arrival list; fault-script run against the real client",
   ref="5 C04"),
 "C05": dict(
   text="Coq theorems C05_getnext / C05_getbulk / C05_same over Model/Walk.v and the reference agent Spec/Agent.v: for every finite MIB "
        "strictly sorted by sub-identifier lists, every base OID, every max_repetitions >= 1, agent cap >= 1 and padding, and v1 as well as "
        "v2c/v3 end-of-MIB behaviour, the GetNext walk, the GetBulk walk and fetch() yield exactly the entries strictly below the base, in "
        "order, once, then stop.  Key lemmas: byte-prefix on canonical BER = sub-identifier prefix, is_after = lexicographic order, the subtree "
        "is a contiguous interval.  630+ walks of the real client (v1, v2c, v3 noAuth, v3 MD5+DES; sync/async) against an independent MIB agent."
        "  Every API walk is also replayed in Model.Walk (the functions the theorems are about) on the replies the agent really gave."
        "  C05_sync_async_same (Model/PyLayer.v): on every script of socket results without busy sockets and timer expiries, every API call of "
        "the asyncio SnmpSession yields the items, outcome, unread rest and policer consultations of the blocking one; the layer is run on "
        "scripted sockets against the extracted model (single calls and programs; C05_program_sync_async_same is the same statement for programs).",
   note="Trusted: Coq kernel; hand model of GetIter/OpGetNext/OpGetBulk and of the Python iterators tied by differential execution (C06) and "
        "by the API walks; the reference agent is a specification, the test agent an independent Python implementation. No axioms.",
   technique="Coq proof by induction over the sorted MIB; API walks against an independent RFC 3416 agent",
   ref="5 C05"),
 "C06": dict(
   text="Coq theorems C06_* over Model/Walk.v for an ARBITRARY agent (any function from request number and requested OID to a reply) and any "
        "fuel: every yielded OID lies in the subtree (C06_contained), yielded OIDs are strictly increasing hence pairwise distinct "
        "(C06_increasing), each request carries the last accepted OID (C06_*_followup), items come from the replies in order (C06_*_order), "
        "the walk stops exactly at the first reply that is empty / out of subtree / not increasing / without data values (C06_*_stops), never "
        "crashes, and makes at most |U|+1 requests when reply OIDs come from a finite set U (C06_terminates, C06_request_bound_*).  "
        "Exhaustive reply streams over a 9-OID x 4-value universe (54872 GetNext streams of depth 3, ~19k GetBulk) through the real "
        "OpGetNext/OpGetBulk + GetIter (debug+release), and scripted agents incl. repeating ones against the real iterators."
        "  C06_getbulk_context / C06_sync_buffer_drained over Model/PyLayer.v; API walks with oversized GetBulk replies are also run in Model.Walk and the follow-up OID of every request is checked."
        "  C06_yielded_texts_distinct (Proofs/WalkKeys.v): the OID STRINGS handed to the caller are pairwise distinct whatever the agent replies (the "
        "renderer refuses sub-identifiers above 2^32-1 since fix 2a19463; before, .1 and .4294967297 were reported as one entry twice); "
        "walks with sub-identifiers 2^32-1..2^64+5 are run and the yielded strings judged.",
   note="Trusted: Coq kernel; hand model tied by exhaustive differential execution. The repeated-OID defect of the pinned commit and the "
        "32-bit rendering of wider sub-identifiers were repaired by fix: commits (known_findings.json). No axioms.",
   technique="Coq invariants over arbitrary reply streams; exhaustive small-universe differential run; adversarial API agents",
   ref="5 C06"),
 "C07": dict(
   text="Coq theorems C07_get (complete decision table of get: no varbind / NULL -> None, the three exception values -> NoSuchInstance, each "
        "data kind -> its Python value, >= 2 varbinds -> SnmpDecodeError, Report -> SnmpAuthError, other PDUs -> SnmpDecodeError), "
        "C07_getmany (the dict is exactly the left-to-right fold of the data-valued varbinds keyed by dotted OID, later duplicates overwrite, "
        "keys distinct), C07_error_family (exception classes re-checked against the generated error map).  10k responses through the real "
        "to_python (debug+release) and 144 API calls (v1, v2c, v3; sync/async) judged by an independent table."
        "  C07_python_sync_passthrough / C07_python_async_passthrough over Model/PyLayer.v: the Python layer hands the socket method's result or exception through unchanged (BlockingIOError -> TimeoutError in the blocking client).",
   note="Trusted: Coq kernel; hand model; generated Gen/ErrorMap.v (translator tools/gen_errormap.py). No axioms.",
   technique="Coq case analysis over the model + generated error map; differential run vs Rust; API run with independent oracle",
   ref="5 C07"),
 "C03": dict(
   text="Coq theorems C03_*: every API call is turned into the request it names (C03_call_is_request: PDU type, OIDs parsed per C08 in order, "
        "GetBulk non-repeaters 0 and the iterator's max-repetitions), request ids lie in 0..2^31-1, the community datagram is exactly the "
        "reference encoding enc_cmsg (or OutOfBuffer when it exceeds the buffer) independently of the pooled buffer it is built in "
        "(C03_community_emit, C03_history_independent, C03_pool_always_reset), the v3 plain datagram is exactly enc_v3 with the socket's engine "
        "id / boots / time / user (C03_v3_emit_plain; flags and ids for every security level: C03_v3_state_and_flags), fetch policy and "
        "max_repetitions default; the reference encodings decode back (C03_strict_roundtrip_*).  ~200 datagrams of 8 concurrent sessions with "
        "interleaved calls are strictly decoded by an independent decoder and reproduced octet for octet by the extracted model (incl. HMAC, DES, AES)."
        "  C03_getmany_passes_oids over Model/PyLayer.v (get_many hands its OIDs to the socket unchanged); Python-layer scripts with repeated OIDs.",
   note="Trusted: Coq kernel; hand model tied by differential execution; random ids/salts read from the wire; for authenticated/encrypted "
        "messages the emitted octets are proved in C09/C11 and checked here by correspondence. No axioms.",
   technique="Coq refinement of the emit path to reference encodings + pool invariant; API correspondence with an independent strict decoder",
   ref="5 C03"),
 "C10": dict(
   text="KNOWN FINDING (three classes listed in known_findings.json: MAC not verified, auth flag not required, plaintext accepted with privacy). "
        "Coq theorems: C10_accept_char (the complete acceptance condition of unwrap_pdu: user, engine id, msgID, request-id, successful decrypt - "
        "nothing else), C10_refuted (the full statement is false of the faithful model: witnesses with no MAC and with a zero MAC, by vm_compute), "
        "C10_ignores_auth, C10_modulo_known (wrong user / engine id / msgID / request-id are never delivered; only a Report bypasses the "
        "request-id test; encrypted data must decrypt), and the v3 receive-loop characterisation.  92+ forged and mismatching replies against "
        "real sessions; a delivered forgery outside the listed classes, or a dropped genuine reply, is a fresh violation.",
   note="The defect is recorded, not repaired: a repair needs the raw datagram in unwrap_pdu (trait change over the three socket types), a "
        "verify method on the auth trait and a security-level check (~40 lines, 6 files), and cannot be validated against a real agent offline. No axioms.",
   technique="Coq acceptance characterisation + refutation witness + modulo-known theorem; forged-reply API run with independent hmac oracle",
   ref="5 C10"),
 "C13": dict(
   text="Coq theorems C13_*: the engine id is adopted from the first accepted message iff the socket has none and never changes afterwards "
        "(C13_adopt_once, C13_engine_id_stable), user and keys never change on the receive/send path (C13_identity_stable), boots/time equal "
        "those of the most recent accepted message after ANY history (C13_time_follows), every emitted request is stamped with them "
        "(C13_stamp, C13_stamp_decodes_back), set_keys localises to the learned engine id (C13_relocalize), and the Python refresh protocol: "
        "probe -> Report -> set_keys -> probe (C13_refresh_discovery), no-op when not needed, time sync, and what is left when the socket refuses "
        "the deferred user's keys (C13_refresh_refused_keys: only the user name is replaced, the session stays to be refreshed).  68+ real sessions (all digests x "
        "ciphers x key types x given/discovered x sync/async) against an agent with generated identity and a moving clock.",
   note="Trusted: Coq kernel; hand model of socket/v3.rs and of the v3 parts of client.py/user.py tied by the API run; keys checked with hashlib/hmac. No axioms.",
   technique="Coq state-machine invariants by induction over event histories; API run with independent key derivation and MAC check",
   ref="5 C13"),
 "C18": dict(
   text="PARTIAL (logical clock).  Coq theorems over Model/Timing.v: C18_sync_deadline / C18_async_deadline (for every arrival schedule the "
        "call returns by t0 + T), C18_delivers (a matching reply arriving by the deadline after only non-matching datagrams is delivered, both "
        "clients), C18_with_strays, and C18_pinned_refuted (the receive loop of the pinned commit re-armed its timeout on every skipped "
        "datagram: for every k a schedule of k strays kept the call waiting (k+1) timeouts - repaired by a fix: commit).  72 wall-clock "
        "schedules (k = 0..4 strays 0.4 T apart, reply absent / early / late; v1, v2c, v3; sync, async) against the real clients, bound "
        "T + 0.2 s, suspected violations re-run twice.",
   note="Partial by nature: the model has a logical clock; scheduler latency, kernel timer granularity and GIL hand-over are only measured "
        "(slack 0.2 s). The correspondence between the timing model and the code is the wall-clock run. No axioms.",
   technique="Coq theorems over a logical-clock model of the wait loops; wall-clock API schedules",
   ref="5 C18"),
 "C11": dict(
   text="Coq theorems C11_*: for an installed DES / AES-128 key, the msgData produced by priv_encrypt decrypts - by CBC / CFB decryption with "
        "the key and the IV that RFC 3414 8.1.1.1 / RFC 3826 3.1 derive from the transmitted salt and boots/time - to exactly the reference "
        "scoped PDU followed by p < 8 (16) zero octets (C11_des_message, C11_aes_message, C11_plaintext_is_padded_scoped_pdu); the result "
        "depends only on key, salt counter, PDU, boots and time (C11_history_independent); anything the agent encrypts that way is decrypted "
        "exactly (C11_*_decrypt_exact, C11_*_round_trip); decrypt never panics (C11_decrypt_total); a key change the socket refuses leaves cipher, "
        "salt counter and digest key as they were (C11_refused_key_change, replayed octet for octet on SnmpV3ClientSocket histories).  Underneath: CBC/CFB inverse laws for any "
        "block cipher and DES decrypt after encrypt = identity for the Gallina DES (Feistel + FP o IP = id), all closed under the global "
        "context.  Model.Priv vs PrivKey::{encrypt,decrypt} on histories of interleaved sends / failed and genuine receives (debug+release), "
        "octet-identical ciphertexts; every ciphertext decrypted by the reference cipher and compared with an independently encoded scoped PDU.",
   note="Trusted: Coq kernel; the Gallina DES/AES are validated by FIPS 46-3 / FIPS 197 / SP 800-38A vectors in Coq and against the des/aes/cbc/"
        "cfb-mode crates each run; AES is only used in the forward direction (CFB). The Rust scratch buffer is not part of the model state "
        "(it is reset before use since the fix: commit); its absence from the state is what the history correspondence checks. No axioms.",
   technique="Coq proofs of mode inverse laws, DES inverse and the message-level RFC statement; differential histories vs Rust; reference-cipher oracle",
   ref="5 C11"),
 "C14": dict(
   text="Coq theorems C14_*: the i-th encrypt of a key installation carries salt = be32(boots) || be32((s0+i) mod 2^32) for DES and "
        "be64((s0+i) mod 2^64) for AES (C14_*_salt_sequence), hence any two messages fewer than 2^32 / 2^64 apart carry different salts "
        "(C14_*_distinct, C14_distinct) for histories of ANY length interleaved with any receives (C14_decrypt_keeps_state, C14_interleaved); "
        "8 octets (C14_len8); priv flag set (C14_priv_flag); a send changes nothing of the key but the counter (C14_send_advances_only_salt).  "
        "3000 (thorough: 60000) encrypted requests of real sessions (DES x2, AES) interleaved with receives, timeouts and boots changes: salts "
        "equal first+i, distinct, flag set, no request OID outside the ciphertext.",
   note="Trusted: Coq kernel; hand model tied by the API run and by C11's histories. 'Nothing confidential in clear' is proved structurally "
        "(the scoped PDU enters the message only as ciphertext, the rest is the reference encoding of header/USM fields: C03, C09) and "
        "searched for at run time. No axioms.",
   technique="Coq modular-arithmetic proof over encrypt histories of unbounded length; API run reading salts from the wire",
   ref="5 C14"),
 "C09": dict(
   text="Coq theorems C09_*: DigestAuth::sign (hand-written ipad/opad hashing of the key followed by 64-KS pad octets) equals RFC 2104 HMAC over "
        "the whole message truncated to 96 bits and written at the offset, changing nothing else (C09_sign_is_hmac, C09_md5/sha1_sign_is_hmac, "
        "C09_sign_changes_only_the_field); the bookmark after push_v3 is the offset of msgAuthenticationParameters in the final message "
        "(C09_bookmark_is_field_offset); the emitted datagram is the reference v3 encoding with, in place of the twelve zero octets, "
        "hmac96(localized key, message with the field zeroed), auth flag set (C09_message_mac*, C09_push_pdu_auth); without a key the field is "
        "empty and the flag clear (C09_message_noauth).  Model sign vs DigestAuth::sign on 500 arbitrary messages (debug+release) and ~190 "
        "datagrams of 21 real sessions (all digests x ciphers x key types, every header in short/0x81/0x82 form) verified with Python hmac.",
   note="Trusted: Coq kernel; Gallina MD5/SHA-1 (RFC 1321 / FIPS 180 vectors in Coq, streaming law proved, compared with the md-5/sha1 crates "
        "each run); key localization is C12; hand model tied by differential execution. No axioms.",
   technique="Coq proof that the manual HMAC is RFC 2104 over an abstract streaming digest, instantiated with executable Gallina MD5/SHA-1; hmac oracle on real datagrams",
   ref="5 C09"),
 "C12": dict(
   text="Coq theorems C12_*: password_to_master = digest of the first 2^20 octets of the password repeated forever (pure list identity + the "
        "proved streaming law; C12_password_to_master, md5/sha1 instances), localize = H(Ku || engineID || Ku) (C12_localize*), the complete "
        "decision table of as_key_type on the two key-type bits incl. refusal of empty passwords, wrong sizes and type 0xc0 "
        "(C12_key_type_dispatch, C12_key_type_never_panics), algorithm codes (C12_algorithm_code), and the Python-visible functions never "
        "panic (C12_get_master_key, C12_get_localized_key).  Extracted model (Gallina MD5/SHA-1, 1 MiB per key) vs the real functions incl. "
        "RFC 3414 A.3 vectors, key-length sweep 0..64, unknown codes; sessions with password/master/localized keys verified with hashlib."
        "  user.py (User getters) against Model.Session, and SnmpV3ClientSocket's constructor / set_keys driven directly for engine ids of 0..32 octets against Model.V3 and hmac.",
   note="Trusted: Coq kernel; Gallina MD5/SHA-1 as in C09; user.py key alignment is modelled in Model/Session.v and exercised by the session "
        "runs of C12/C13. No axioms.",
   technique="Coq proof of the A.2 identities over an abstract streaming digest + dispatch table; differential run incl. RFC vectors; hashlib oracle",
   ref="5 C12"),
}

PENDING = "check not built yet in this round (see DESIGN.md section 7 for the order of work)"

def main():
    checks = []
    for pid, c in sorted(CLAIMED.items()):
        checks.append({
            "property_id": pid,
            "quick_cmd": "./check %s --tier quick" % pid,
            "thorough_cmd": "./check %s --tier thorough" % pid,
            "evidence_file": "/verif/evidence/%s.json" % pid,
            "replay_cmd_template": "./check %s --replay {path}" % pid,
            "engine": "coq+differential",
            "level_claimed": {"category": c.get("category", "proof"), "text": c["text"], "design_ref": "DESIGN.md section " + c["ref"]},
            "level_note": c["note"],
            "technique": c["technique"],
        })
    m = {
        "version": 1,
        "setup_cmd": "./check setup",
        "hooks": {"guard": "gufo_snmp_verif", "enable": "RUSTFLAGS='--cfg gufo_snmp_verif' (set by every check for the codec harness build). One hook: "
                  "PrivKey::verif_set_salt / DesKey::verif_set_salt / Aes128Key::verif_set_salt (src/privacy/{mod,des,aes128}.rs, appended "
                  "impl blocks under #[cfg(gufo_snmp_verif)]; the cfg is declared in Cargo.toml [lints.rust]) places the privacy salt counter "
                  "so that C14 reaches every carry boundary; RequestId::verif_set (src/reqid.rs, same guard) places the id generator's state so that "
                  "C03 observes the ids drawn from any state, the top of the range included. Everything else needs no hook: private modules are reached by #[path] inclusion, "
                  "sockets through the public Python API. The harness detects whether the hook exists in the tree.",
                  "baseline_off_cmd": "cd /repo && cargo test --workspace --no-fail-fast --offline",
                  "source_commits": ["df5b76a", "14a4f9c"], "add_only": True},
        "engines": [{"name": "coq+differential", "path": "/verif/check", "serves_properties": sorted(CLAIMED),
                     "kind_free_text": "Coq 8.16.1 proofs over a Gallina model (coq/), model tied to /repo by translators (tools/) and by "
                                       "differential execution of the extracted model against the real Rust/Python code (harness/, ocaml/)"}],
        "checks": checks,
        "notes": "See DESIGN.md. Every check regenerates coq/Gen/*.v from /repo, rebuilds the property's proof cone with make (full .vo), audits "
                 "Print Assumptions, rebuilds the implementation drivers from /repo's working tree, and runs model and implementation on the same inputs.",
        "not_applicable": [{"property_id": p, "reason": PENDING} for p in ALL if p not in CLAIMED],
    }
    with open(os.path.join(HERE, "MANIFEST.json"), "w") as f:
        json.dump(m, f, indent=1)
    print("MANIFEST.json written:", len(checks), "checks")

if __name__ == "__main__":
    main()

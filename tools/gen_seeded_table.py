#!/usr/bin/env python3
"""Rewrite the seeded-changes table of DESIGN.md from seeded/*/meta.json and seeded/RESULTS.json."""
import json, os, re
V = os.path.dirname(os.path.dirname(os.path.abspath(__file__)))
res = json.load(open(os.path.join(V, "seeded", "RESULTS.json"))) if os.path.exists(os.path.join(V, "seeded", "RESULTS.json")) else {}
rows = ["| seed | property | change | needs | detected by |", "|------|----------|--------|-------|-------------|"]
for name in sorted(os.listdir(os.path.join(V, "seeded"))):
    d = os.path.join(V, "seeded", name)
    if not os.path.isdir(d):
        continue
    m = json.load(open(os.path.join(d, "meta.json")))
    r = res.get(name, {})
    det = []
    for p, o in r.items():
        if isinstance(o, dict) and o.get("rc") == 1:
            det.append("`./check %s` (%s)" % (p, (o.get("detail") or [""])[0].strip()[:110].replace("|", "/")))
    clean = lambda t: " ".join(str(t).split()).replace("|", "/")
    rows.append("| %s | %s | %s | %s | %s |" % (name, m["property"], clean(m.get("summary", ""))[:230], clean(m.get("needs", ""))[:230],
                                               "; ".join(det) if det else ("not flagged - " + clean(m["framework_verdict"])[:260]) if m.get("framework_verdict") else "**missed**" if r else "not run"))
s = open(os.path.join(V, "DESIGN.md")).read()
s = re.sub(r"<!-- seeded-begin -->.*?<!-- seeded-end -->", lambda _m: "<!-- seeded-begin -->\n" + "\n".join(rows) + "\n<!-- seeded-end -->", s, flags=re.S)
open(os.path.join(V, "DESIGN.md"), "w").write(s)
print("\n".join(rows))

#!/usr/bin/env python3
"""src/error.rs: `impl From<SnmpError> for PyErr` and the create_exception! hierarchy -> coq/Gen/ErrorMap.v"""
import re, sys, os

CLS = {"PySnmpError": "ESnmpError", "PySnmpDecodeError": "EDecode", "PySnmpEncodeError": "EEncode",
       "PySnmpAuthError": "EAuth", "PyNoSuchInstance": "ENoSuchInstance", "PyValueError": "EValue",
       "PyTimeoutError": "ETimeout", "PyBlockingIOError": "EBlockingIO", "PyOSError": "EOSError",
       "PyNotImplementedError": "ENotImplemented", "PyRuntimeError": "ERuntime", "PyException": "EException"}

def main(repo):
    s = open(os.path.join(repo, "src/error.rs")).read()
    m = re.search(r"impl From<SnmpError> for PyErr \{.*?match value \{(.*?)\n        \}\n    \}\n\}", s, re.S)
    if not m:
        print("ERRORMAP: impl From<SnmpError> for PyErr not found", file=sys.stderr); sys.exit(3)
    arms = re.findall(r"SnmpError::(\w+)(?:\(\w+\))?\s*=>\s*(?:\{\s*)?(\w+)::new_err", m.group(1))
    enum = re.search(r"pub enum SnmpError \{(.*?)\n\}", s, re.S)
    variants = re.findall(r"^\s*(\w+)(?:\([^)]*\))?,", enum.group(1), re.M)
    got = dict(arms)
    missing = [v for v in variants if v not in got]
    if missing:
        print("ERRORMAP: variants without an arm: %s" % missing, file=sys.stderr); sys.exit(3)
    out = ["(* GENERATED from %s/src/error.rs by tools/gen_errormap.py - do not edit *)" % repo,
           "From GS Require Import Model.Base Model.Exc."]
    out.append("Definition err_to_exc (e : err) : exc :=\n  match e with")
    for v in variants:
        c = got[v]
        if c not in CLS:
            print("ERRORMAP: unknown exception class %s" % c, file=sys.stderr); sys.exit(3)
        out.append("  | %s => %s" % (v, CLS[c]))
    out.append("  end.")
    # hierarchy
    parents = dict(re.findall(r"create_exception!\(\s*_fast,\s*(\w+),\s*(\w+),", s))
    out.append("Definition exc_parent (e : exc) : option exc :=\n  match e with")
    for c, p in parents.items():
        if c not in CLS or p not in CLS:
            print("ERRORMAP: unknown class in hierarchy %s <- %s" % (c, p), file=sys.stderr); sys.exit(3)
        out.append("  | %s => Some %s" % (CLS[c], CLS[p]))
    out.append("  | _ => None\n  end.")
    print("\n".join(out))

if __name__ == "__main__":
    main(sys.argv[1])

#!/usr/bin/env python3
"""run_refactor.py <patch.diff> [Cxx ...]: apply a behaviour-preserving patch to /repo, run the quick checks (all 19 by
default), undo the patch.  Any rc != 0 is a false alarm (or the patch is not behaviour-preserving): prints the lines."""
import os, subprocess, sys
VERIF = os.path.dirname(os.path.dirname(os.path.abspath(__file__)))
patch = sys.argv[1]
props = sys.argv[2:] or ["C%02d" % i for i in range(1, 20)]
subprocess.run(["git", "-C", "/repo", "checkout", "--", "."], check=True)
r = subprocess.run(["git", "-C", "/repo", "apply", "--include=src/*", patch])
if r.returncode != 0:
    sys.exit("patch does not apply")
try:
    for p in props:
        o = subprocess.run([os.path.join(VERIF, "check"), p], capture_output=True, text=True, cwd=VERIF)
        tail = [l for l in (o.stdout + o.stderr).splitlines() if "VIOLATION" in l or "BROKEN" in l or "ERROR" in l or "differ" in l]
        print("%s rc=%d %s" % (p, o.returncode, " || ".join(t[:260] for t in tail[:3])), flush=True)
finally:
    subprocess.run(["git", "-C", "/repo", "checkout", "--", "."], check=True)
    subprocess.run(["git", "-C", VERIF, "checkout", "--", "evidence"], check=False)

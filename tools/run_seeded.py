#!/usr/bin/env python3
"""Apply every seeded change under /verif/seeded/<name>/patch.diff to /repo (one at a time), run the quick checks,
record which checks report a violation, and undo the change.  usage: run_seeded.py [name ...] [--all-checks]"""
import json, os, subprocess, sys, time
VERIF = os.path.dirname(os.path.dirname(os.path.abspath(__file__)))
REPO = "/repo"

def sh(cmd, **kw):
    return subprocess.run(cmd, shell=True, capture_output=True, text=True, **kw)

def main():
    args = [a for a in sys.argv[1:] if not a.startswith("--")]
    allchecks = "--all-checks" in sys.argv
    man = json.load(open(os.path.join(VERIF, "MANIFEST.json")))
    claimed = sorted(f[:-3] for f in os.listdir(os.path.join(VERIF, "lib", "props")) if f.startswith("C") and f.endswith(".py"))
    names = args or sorted(d for d in os.listdir(os.path.join(VERIF, "seeded")) if os.path.isdir(os.path.join(VERIF, "seeded", d)))
    assert sh("git -C %s status --porcelain" % REPO).stdout.strip() == "", "/repo is not clean"
    results = {}
    for name in names:
        d = os.path.join(VERIF, "seeded", name)
        meta = json.load(open(os.path.join(d, "meta.json")))
        r = sh("git -C %s apply %s" % (REPO, os.path.join(d, "patch.diff")))
        if r.returncode != 0:
            print(name, "patch does not apply:", r.stderr[:300]); results[name] = {"error": "patch does not apply"}; continue
        try:
            props = claimed if allchecks else [meta["property"]] + [p for p in meta.get("also_run", []) if p != meta["property"]]
            res = {}
            for p in props:
                if p not in claimed:
                    res[p] = "not claimed"; continue
                t = time.time()
                o = sh("cd %s && ./check %s --tier quick" % (VERIF, p))
                lines = [l for l in o.stdout.splitlines() if l.startswith("VIOLATION") or l.startswith("KNOWN-FINDING") or l.startswith("ERROR")]
                detail = [l.strip() for l in o.stdout.splitlines() if l.startswith("   ")][:2]
                res[p] = {"rc": o.returncode, "violations": [l for l in lines if l.startswith("VIOLATION")][:3], "detail": detail,
                          "errors": [l[:200] for l in lines if l.startswith("ERROR")][:2], "wall_s": round(time.time() - t, 1)}
                print("%-28s %s rc=%d %s %s" % (name, p, o.returncode, "DETECTED" if o.returncode == 1 else ("ERROR" if o.returncode else "missed"),
                                                (detail[0][:150] if detail else "")), flush=True)
            results[name] = res
        finally:
            sh("git -C %s checkout -- ." % REPO)
            sh("git -C %s clean -fdq src" % REPO)
    out = os.path.join(VERIF, "seeded", "RESULTS.json")
    old = {}
    if os.path.exists(out):
        old = json.load(open(out))
    old.update(results)
    json.dump(old, open(out, "w"), indent=1)
    # evidence files were rewritten by runs on a modified tree: restore the committed ones
    sh("git -C %s checkout -- evidence" % VERIF)

if __name__ == "__main__":
    main()

#!/bin/bash
# confirm_seed.sh <PROP> [name]: confirm a seeded change delivered by a sub-agent in /tmp/mut_<PROP>/SEED in a fresh scratch worktree:
# tests pass with the change, the demonstration fails with it and passes without it.  Then store it under /verif/seeded/<name>.
set -u
P=$1; NAME=${2:-$P}
SRC=${SEEDSRC:-/tmp/mut_$P}/SEED
WT=/tmp/confirm_$P; TGT=/tmp/confirm_target
export CARGO_NET_OFFLINE=true CARGO_TARGET_DIR=$TGT
git -C /repo worktree remove --force $WT 2>/dev/null; rm -rf $WT
git -C /repo worktree add -q $WT HEAD || exit 1
mkdir -p $WT/SEED; cp $SRC/* $WT/SEED/
# demonstrations refer to the agent's own paths
sed -i "s#${SEEDSRC:-/tmp/mut_$P}#$WT#g; s#/tmp/mut_target_$P#$TGT#g; s#/tmp/mutb_target_$P#$TGT#g; s#/tmp/mutc_target_$P#$TGT#g; s#/tmp/mutd_target_$P#$TGT#g; s#/tmp/mute_target_$P#$TGT#g; s#/tmp/mutf_target_$P#$TGT#g" $WT/SEED/demo.* 2>/dev/null
cd $WT
run_demo() {
  if [ -f SEED/demo.py ]; then (cd $WT && cargo build --release --offline -q 2>&1 | tail -3; timeout 300 python3 SEED/demo.py > SEED/demo.out 2>&1; echo $?)
  else
    # a Rust demonstration: copied into tests/ as an integration test or into src as given by its header line
    HOW=$(head -5 SEED/demo.rs | grep -o 'cp [^;]*' | head -1)
    eval "$HOW" 2>/dev/null
    (timeout 600 cargo test --offline demo 2>&1 | tail -5 > SEED/demo.out; grep -q "test result: ok" SEED/demo.out && ! grep -q "FAILED\|panicked" SEED/demo.out; echo $?)
  fi
}
git apply --include='src/*' SEED/patch.diff || { echo "PATCH DOES NOT APPLY"; exit 1; }
T_WITH=$(cargo test --workspace --no-fail-fast --offline 2>&1 | grep -E "^test result" | head -1)
D_WITH=$(run_demo | tail -1)
git apply -R --include='src/*' SEED/patch.diff
D_WITHOUT=$(run_demo | tail -1)
echo "tests with change: $T_WITH"
echo "demo with change exit=$D_WITH (must be non-zero); without change exit=$D_WITHOUT (must be 0)"
OK=no
case "$T_WITH" in *"104 passed; 0 failed"*) if [ "$D_WITH" != "0" ] && [ "$D_WITHOUT" = "0" ]; then OK=yes; fi;; esac
echo "CONFIRMED=$OK"
if [ $OK = yes ]; then
  D=/verif/seeded/$NAME; mkdir -p $D
  cp $SRC/patch.diff $D/patch.diff
  for f in $SRC/demo.*; do cp $f $D/; done
  python3 - "$SRC/meta.json" "$D/meta.json" "$T_WITH" "$D_WITH" "$D_WITHOUT" <<'PY'
import json,sys
m=json.load(open(sys.argv[1]))
m["confirmed_by_framework_author"]={"tests_with_change":sys.argv[3],"demo_exit_with_change":sys.argv[4],"demo_exit_without_change":sys.argv[5],
  "how":"fresh worktree of /repo HEAD, patch applied, cargo test --workspace --offline, release build, demonstration run; patch reversed, rebuilt, demonstration run again (tools/confirm_seed.sh)"}
json.dump(m,open(sys.argv[2],"w"),indent=1)
PY
fi
cd /; git -C /repo worktree remove --force $WT; rm -rf $WT

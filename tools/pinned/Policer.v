(* GENERATED from /repo/src/gufo/snmp/policer.py by tools/py2coq.py - do not edit *)
From Coq Require Import ZArith Bool.
Open Scope Z_scope.
Open Scope bool_scope.
Record pstate := { _prev : option Z; _delta : Z }.
Definition get_timeout (st : pstate) (ts : Z) : pstate * option Z :=
  match (_prev st) with
  | None =>
    ({| _prev := Some ts; _delta := (_delta st) |}, None)
  | Some prev0 =>
    let elapsed := (ts - prev0) in
    if (elapsed <? 0) then
      ({| _prev := Some ts; _delta := (_delta st) |}, Some (_delta st))
    else
      if (elapsed <? (_delta st)) then
        ({| _prev := Some (prev0 + (_delta st)); _delta := (_delta st) |}, Some ((_delta st) - elapsed))
      else
        ({| _prev := Some (prev0 + ((_delta st) * (elapsed / (_delta st)))); _delta := (_delta st) |}, None)
  end.
Definition init (rps_le_zero : bool) (q : Z) : option pstate :=
  if rps_le_zero then None else if (q =? 0) then None else Some {| _prev := None; _delta := q |}.
Definition sleep_of (o : option Z) : Z :=
  match o with Some d => if (negb (d =? 0)) && (0 <? d) then d else 0 | None => 0 end.
Definition NS : Z := 1000000000.

(* GENERATED from /repo/src/error.rs by tools/gen_errormap.py - do not edit *)
From GS Require Import Model.Base Model.Exc.
Definition err_to_exc (e : err) : exc :=
  match e with
  | Incomplete => EDecode
  | UnexpectedTag => EDecode
  | InvalidTagFormat => EDecode
  | UnknownPdu => EDecode
  | InvalidPdu => EDecode
  | InvalidData => EDecode
  | InvalidKey => EValue
  | UnsupportedTag => EDecode
  | TrailingData => EDecode
  | InvalidVersion => EDecode
  | OutOfBuffer => EEncode
  | NotImplemented => ENotImplemented
  | NoSuchInstance => ENoSuchInstance
  | SocketError => EOSError
  | WouldBlock => EBlockingIO
  | ConnectionRefused => ETimeout
  | UnknownSecurityModel => EDecode
  | AuthenticationFailed => EAuth
  end.
Definition exc_parent (e : exc) : option exc :=
  match e with
  | ESnmpError => Some EException
  | EDecode => Some ESnmpError
  | EEncode => Some ESnmpError
  | ENoSuchInstance => Some ESnmpError
  | EAuth => Some ESnmpError
  | _ => None
  end.

"""The Python layer of gufo.snmp (SnmpSession.get / get_many / getnext / getbulk / fetch, the iterator classes, _send /
_recv of the async client) run against a SCRIPTED socket object, so that the layer alone is compared with
Model.PyLayer.run_api: same script in, same trace (policer consultations, socket calls with arguments, iterator contexts)
and same outcome out.

case = {"mode": "s"|"a", "pol": 0|1, "ver": "v1"|"v2c"|"v3", "allow_bulk": 0|1, "max_rep": int, "fuel": int,
        "api": ["get", oid] | ["getmany", [oids]] | ["getnext", oid] | ["getbulk", oid, req|None] | ["fetch", oid],
        "script": ["r<id>" | "l<id>.<id>.n" | "x<ExceptionName>" | "t", ...]}
The rendering is the one of the `pyapi` command of ocaml/codec_driver.ml."""
import asyncio
import builtins
import socket

import apilib


class BadScript(Exception):
    pass


class FakeSock:
    METHODS = ["get", "get_many", "get_next", "get_bulk", "send_get", "recv_get", "send_get_many", "recv_get_many",
               "send_get_next", "recv_get_next", "send_get_bulk", "recv_get_bulk"]

    def __init__(self, g, script, trace):
        self.g = g
        self.script = list(script)
        self.trace = trace
        self.rd, self.wr = socket.socketpair()
        self.rd.setblocking(False)
        self.wr.setblocking(False)
        self.readable = False
        self.arm()
        for m in self.METHODS:
            setattr(self, m, self._method(m))

    def get_fd(self):
        return self.rd.fileno()

    def arm(self):
        """The descriptor is readable unless the next thing the script says is 'the timer fires first'."""
        want = not (self.script and self.script[0] == "t")
        if want and not self.readable:
            self.wr.send(b"x")
            self.readable = True
        elif not want and self.readable:
            self.rd.recv(16)
            self.readable = False

    def exc(self, name):
        cls = getattr(self.g.gs, name, None) or getattr(builtins, name)
        return cls("scripted")

    def _method(self, name):
        def call(*args):
            if len(args) == 0:
                a = "-"
            elif isinstance(args[0], FakeIter):
                a = "c"
            elif isinstance(args[0], str):
                a = "o" + args[0].encode().hex()
            else:
                a = "O" + ",".join(x.encode().hex() for x in args[0])
            if name.startswith("recv") and self.script and self.script[0] == "t":
                # the layer reads although the descriptor is not readable: a real non-blocking socket has nothing for it
                raise BlockingIOError("scripted: nothing to read")
            self.trace.append("S:%s:%s" % (name, a))
            if not self.script or self.script[0] == "t":
                raise BadScript(name)
            t = self.script.pop(0)
            self.arm()
            if t[0] == "r":
                return ("v", int(t[1:]))
            if t[0] == "l":
                return [None if x == "n" else ("v", int(x)) for x in t[1:].split(".")] if t[1:] else []
            raise self.exc(t[1:])
        return call

    def timed_out(self):
        """The API call ended with a timeout: the timer token is consumed."""
        if self.script and self.script[0] == "t":
            self.script.pop(0)
        self.arm()

    def close(self):
        self.rd.close()
        self.wr.close()


class FakeIter:
    trace = None

    def __init__(self, oid, max_repetitions=None):
        FakeIter.trace.append("I:%s:%s" % (oid.encode().hex(), "-" if max_repetitions is None else max_repetitions))


def patch_iters(g, trace):
    """Every module-level name of the client modules bound to _fast.GetIter is rebound to the recording stand-in."""
    import gufo.snmp.sync_client.client as sc
    import gufo.snmp.sync_client.getnext as sgn
    import gufo.snmp.sync_client.getbulk as sgb
    import gufo.snmp.async_client.client as ac
    FakeIter.trace = trace
    saved = []
    for mod in (sc, sgn, sgb, ac):
        for k, v in list(vars(mod).items()):
            if v is g.fast.GetIter:
                saved.append((mod, k, v))
                setattr(mod, k, FakeIter)
    return saved


def unpatch(saved):
    for mod, k, v in saved:
        setattr(mod, k, v)


def container(case, oids):
    """get_many takes any Iterable[str]"""
    k = case.get("container", "list")
    items = list(oids)
    return items if k == "list" else tuple(items) if k == "tuple" else iter(items) if k == "iter" else (x for x in items)


def render_end(kind, val):
    if kind == "ret":
        if isinstance(val, tuple) and len(val) == 2 and val[0] == "v":
            return "ret:%d" % val[1]
        return "ret:?%r" % (val,)
    return kind if kind in ("cap", "bad") else "exc:" + val


def run_case(g, case):
    try:
        with apilib.watchdog(case.get("watchdog", 4.0)):
            return _run_case(g, case)
    except apilib.Hang:
        return "HANG the call did not come back within %.0f s" % case.get("watchdog", 4.0)


def _run_case(g, case):
    import gufo.snmp.policer as pol
    trace = []
    saved = patch_iters(g, trace)
    fake = FakeSock(g, case["script"], trace)
    sess = None
    loop = None
    try:
        class CountingPolicer(pol.RPSPolicer):
            def get_timeout(self, *a, **kw):
                trace.append("P")
                return super().get_timeout(*a, **kw)
        mod = g.sync if case["mode"] == "s" else g.asyn
        # the only real-time element: the session timeout must outlast every wait on an already readable descriptor and is
        # paid in full by each scripted timeout; a case that contains none gets a long one
        tmo = case.get("timeout") or (0.15 if "t" in case["script"] else 5.0)
        kw = dict(addr="127.0.0.1", port=9, timeout=tmo, allow_bulk=bool(case["allow_bulk"]), max_repetitions=case["max_rep"])
        if case["pol"]:
            kw["policer"] = CountingPolicer(1e6)
        if case["ver"] == "v3":
            kw.update(version=g.SnmpVersion.v3, user=g.user.User("u"), engine_id=b"\x80\x00\x1f\x88\x01")
        else:
            kw.update(version=g.SnmpVersion.v1 if case["ver"] == "v1" else g.SnmpVersion.v2c, community="public")
        sess = mod.SnmpSession(**kw)
        sess._sock = fake
        sess._fd = fake.get_fd()
        api = case["api"]
        items, end = [], None
        if case["mode"] == "s":
            if api[0] in ("get", "getmany"):
                try:
                    v = sess.get(api[1]) if api[0] == "get" else sess.get_many(container(case, api[1]))
                    end = ("ret", v)
                except BadScript:
                    end = ("bad", None)
                except BaseException as e:  # noqa: BLE001
                    end = ("exc", apilib.exc_class(e))
            else:
                it = sess.getnext(api[1]) if api[0] == "getnext" else sess.fetch(api[1]) if api[0] == "fetch" else \
                    (sess.getbulk(api[1]) if api[2] is None else sess.getbulk(api[1], api[2]))
                end = ("cap", None)
                for _ in range(case["fuel"]):
                    try:
                        items.append(it.__next__())
                    except BadScript:
                        end = ("bad", None)
                        break
                    except BaseException as e:  # noqa: BLE001
                        end = ("exc", apilib.exc_class(e))
                        break
        else:
            loop = asyncio.new_event_loop()

            async def one(coro_fn):
                try:
                    return ("ret", await coro_fn())
                except BadScript:
                    return ("bad", None)
                except BaseException as e:  # noqa: BLE001
                    if isinstance(e, TimeoutError):
                        fake.timed_out()
                    return ("exc", apilib.exc_class(e))
            if api[0] in ("get", "getmany"):
                end = loop.run_until_complete(one((lambda: sess.get(api[1])) if api[0] == "get" else (lambda: sess.get_many(container(case, api[1])))))
            else:
                it = sess.getnext(api[1]) if api[0] == "getnext" else sess.fetch(api[1]) if api[0] == "fetch" else \
                    (sess.getbulk(api[1]) if api[2] is None else sess.getbulk(api[1], api[2]))
                end = ("cap", None)
                for _ in range(case["fuel"]):
                    r = loop.run_until_complete(one(it.__anext__))
                    if r[0] == "ret":
                        items.append(r[1])
                    else:
                        end = r
                        break
        ids = [str(x[1]) if isinstance(x, tuple) and len(x) == 2 and x[0] == "v" else "?%r" % (x,) for x in items]
        return "EV %s | ITEMS %s | END %s | REST %d" % (" ".join(trace) or "-", ",".join(ids) or "-", render_end(*end), len(fake.script))
    except BaseException as e:  # noqa: BLE001
        return "HARNESS-ERROR %r trace=%s" % (e, " ".join(trace))
    finally:
        unpatch(saved)
        fake.close()
        if loop is not None:
            loop.close()


def model_line(case):
    api = case["api"]
    hx = lambda s: s.encode().hex()
    if api[0] == "get":
        a = "get:" + hx(api[1])
    elif api[0] == "getmany":
        a = "getmany:" + (",".join(hx(x) for x in api[1]) or "-")
    elif api[0] == "getbulk":
        a = "getbulk:%s:%s" % (hx(api[1]), "-" if api[2] is None else api[2])
    else:
        a = "%s:%s" % (api[0], hx(api[1]))
    return "pyapi %s %d %s %d %d %d %s %s" % (case["mode"], case["pol"], case["ver"], case["allow_bulk"], case["max_rep"], case["fuel"], a,
                                             ",".join(case["script"]) or "-")


def run_prog_case(g, case):
    """A program on ONE session: single calls, several iterators created and advanced in any interleaving, used again
    after they raised or abandoned half-way (Model.PyLayer.run_prog; `pyprog` command of the codec driver)."""
    try:
        with apilib.watchdog(case.get("watchdog", 6.0)):
            return _run_prog_case(g, case)
    except apilib.Hang:
        return "HANG the program did not come back within %.0f s" % case.get("watchdog", 6.0)


def _run_prog_case(g, case):
    import gufo.snmp.policer as pol
    trace = []
    saved = patch_iters(g, trace)
    fake = FakeSock(g, case["script"], trace)
    loop = None
    try:
        class CountingPolicer(pol.RPSPolicer):
            def get_timeout(self, *a, **kw):
                trace.append("P")
                return super().get_timeout(*a, **kw)
        mod = g.sync if case["mode"] == "s" else g.asyn
        tmo = case.get("timeout") or (0.15 if "t" in case["script"] else 5.0)
        kw = dict(addr="127.0.0.1", port=9, timeout=tmo, allow_bulk=bool(case["allow_bulk"]), max_repetitions=case["max_rep"])
        if case["pol"]:
            kw["policer"] = CountingPolicer(1e6)
        if case["ver"] == "v3":
            kw.update(version=g.SnmpVersion.v3, user=g.user.User("u"), engine_id=b"\x80\x00\x1f\x88\x01")
        else:
            kw.update(version=g.SnmpVersion.v1 if case["ver"] == "v1" else g.SnmpVersion.v2c, community="public")
        sess = mod.SnmpSession(**kw)
        sess._sock = fake
        sess._fd = fake.get_fd()
        sync = case["mode"] == "s"
        if not sync:
            loop = asyncio.new_event_loop()

        async def one(coro_fn):
            try:
                return ("ret", await coro_fn())
            except BadScript:
                return ("bad", None)
            except BaseException as e:  # noqa: BLE001
                if isinstance(e, TimeoutError):
                    fake.timed_out()
                return ("exc", apilib.exc_class(e))

        def call(fn):
            if not sync:
                return loop.run_until_complete(one(fn))
            try:
                return ("ret", fn())
            except BadScript:
                return ("bad", None)
            except BaseException as e:  # noqa: BLE001
                return ("exc", apilib.exc_class(e))
        its, outs = [], []
        nadv = 0
        for c in case["prog"]:
            if c[0] == "c":
                api = c[1]
                if sync:
                    r = call((lambda: sess.get(api[1])) if api[0] == "get" else (lambda: sess.get_many(container(case, api[1]))))
                else:
                    r = call((lambda: sess.get(api[1])) if api[0] == "get" else (lambda: sess.get_many(container(case, api[1]))))
                outs.append(render_end(*r))
            elif c[0] == "n":
                api = c[1]
                its.append(sess.getnext(api[1]) if api[0] == "getnext" else sess.fetch(api[1]) if api[0] == "fetch" else
                           (sess.getbulk(api[1]) if api[2] is None else sess.getbulk(api[1], api[2])))
                outs.append("ret:0")
            else:
                it = its[c[1]]
                # every other advance goes through iter() / aiter() first, as a resumed `for` loop, zip or islice would:
                # for an iterator that is the same object
                nadv += 1
                if nadv % 2 == 0:
                    it = iter(it) if sync else it.__aiter__()
                r = call(it.__next__) if sync else call(it.__anext__)
                outs.append(render_end(*r))
        return "EV %s | OUTS %s | REST %d" % (" ".join(trace) or "-", ",".join(outs), len(fake.script))
    except BaseException as e:  # noqa: BLE001
        return "HARNESS-ERROR %r trace=%s" % (e, " ".join(trace))
    finally:
        unpatch(saved)
        fake.close()
        if loop is not None:
            loop.close()


def api_str(api):
    hx = lambda t: t.encode().hex()
    if api[0] == "get":
        return "get:" + hx(api[1])
    if api[0] == "getmany":
        return "getmany:" + (",".join(hx(x) for x in api[1]) or "-")
    if api[0] == "getbulk":
        return "getbulk:%s:%s" % (hx(api[1]), "-" if api[2] is None else api[2])
    return "%s:%s" % (api[0], hx(api[1]))


def prog_model_line(case):
    prog = ";".join(("c=" + api_str(c[1])) if c[0] == "c" else ("n=" + api_str(c[1])) if c[0] == "n" else "x=%d" % c[1] for c in case["prog"])
    return "pyprog %s %d %s %d %d %s %s" % (case["mode"], case["pol"], case["ver"], case["allow_bulk"], case["max_rep"], prog, ",".join(case["script"]) or "-")

"""Independent BER encoder / strict decoder used by the generators and oracles (shares no code with the
Coq model or with /repo)."""
import struct


def enc_len(n, form=None):
    """Definite length octets. form None = minimal; form k>0 = long form with exactly k length octets."""
    if form is None:
        if n < 128:
            return bytes([n])
        k = (n.bit_length() + 7) // 8
        return bytes([0x80 | k]) + n.to_bytes(k, "big")
    if n >= 256 ** form:
        return enc_len(n)
    return bytes([0x80 | form]) + n.to_bytes(form, "big")


def tlv(tag, content, form=None):
    return bytes([tag]) + enc_len(len(content), form) + bytes(content)


def int_content(v, pad=0):
    """Minimal two's complement, optionally preceded by `pad` redundant sign octets."""
    n = 1
    while not (-(1 << (8 * n - 1)) <= v < (1 << (8 * n - 1))):
        n += 1
    c = v.to_bytes(n, "big", signed=True)
    return (b"\xff" if v < 0 else b"\x00") * pad + c


def uint_content(v, pad=0):
    n = max(1, (v.bit_length() + 7) // 8)
    c = v.to_bytes(n, "big")
    if c[0] & 0x80:
        c = b"\x00" + c
    return b"\x00" * pad + c


def enc_int(v, pad=0, form=None):
    return tlv(2, int_content(v, pad), form)


def subid(s):
    out = [s & 0x7F]
    s >>= 7
    while s:
        out.append(0x80 | (s & 0x7F))
        s >>= 7
    return bytes(reversed(out))


def oid_content(arcs):
    assert len(arcs) >= 2
    out = subid(40 * arcs[0] + arcs[1])
    for a in arcs[2:]:
        out += subid(a)
    return out


def enc_oid(arcs, form=None):
    return tlv(6, oid_content(arcs), form)


def oid_text(arcs):
    return ".".join(str(a) for a in arcs)


def arcs_of_content(c):
    """Strict inverse of oid_content (first octet < 120 assumed single)."""
    subs, b = [], 0
    for x in c:
        b = (b << 7) | (x & 0x7F)
        if not x & 0x80:
            subs.append(b)
            b = 0
    first = subs[0]
    a0 = min(first // 40, 2)
    return [a0, first - 40 * a0] + subs[1:]


# value kinds: (kind, python value) -> (tlv bytes, expected python value as the API delivers it)
def enc_value(kind, v, pad=0, form=None):
    if kind == "int":
        return tlv(0x02, int_content(v, pad), form)
    if kind == "c32":
        return tlv(0x41, uint_content(v, pad), form)
    if kind == "g32":
        return tlv(0x42, uint_content(v, pad), form)
    if kind == "tt":
        return tlv(0x43, uint_content(v, pad), form)
    if kind == "u32":
        return tlv(0x47, uint_content(v, pad), form)
    if kind == "c64":
        return tlv(0x46, uint_content(v, pad), form)
    if kind == "os":
        return tlv(0x04, v, form)
    if kind == "op":
        return tlv(0x44, v, form)
    if kind == "od":
        return tlv(0x07, v, form)
    if kind == "ip":
        return tlv(0x40, bytes(v), form)
    if kind == "oid":
        return tlv(0x06, oid_content(v), form)
    if kind == "bool":
        return tlv(0x01, bytes([0xFF if v else 0]), form)
    if kind == "null":
        return tlv(0x05, b"", form)
    if kind == "nso":
        return tlv(0x80, b"", form)
    if kind == "nsi":
        return tlv(0x81, b"", form)
    if kind == "eomv":
        return tlv(0x82, b"", form)
    if kind == "real":
        return tlv(0x09, v, form)       # v = content octets, see real_content
    raise ValueError(kind)


def py_value(kind, v):
    """What the library's documentation says the caller gets."""
    if kind in ("int", "c32", "g32", "tt", "u32", "c64"):
        return v
    if kind in ("os", "op", "od"):
        return bytes(v)
    if kind == "ip":
        return ".".join(str(x) for x in v)
    if kind == "oid":
        return oid_text(v)
    if kind == "bool":
        return bool(v)
    return None


def real_bin_content(sign, mant, exp, base=2, scale=0, explen=None):
    """X.690 8.5.7 binary encoding of sign * mant * 2^scale * base^exp."""
    bb = {2: 0, 8: 1, 16: 2}[base]
    n = 1
    while not (-(1 << (8 * n - 1)) <= exp < (1 << (8 * n - 1))):
        n += 1
    if explen is not None:
        n = max(n, explen)
    eo = exp.to_bytes(n, "big", signed=True)
    if n <= 3:
        first = 0x80 | (0x40 if sign < 0 else 0) | (bb << 4) | (scale << 2) | (n - 1)
        head = bytes([first])
    else:
        first = 0x80 | (0x40 if sign < 0 else 0) | (bb << 4) | (scale << 2) | 3
        head = bytes([first, n])
    mo = mant.to_bytes(max(1, (mant.bit_length() + 7) // 8), "big")
    return head + eo + mo


def real_dec_content(form, text):
    return bytes([form]) + text.encode()


def varbind(name_tlv, value_tlv, form=None):
    return tlv(0x30, name_tlv + value_tlv, form)


def pdu(tag, request_id, f1, f2, varbinds, form=None, vbform=None):
    body = enc_int(request_id) + enc_int(f1) + enc_int(f2) + tlv(0x30, b"".join(varbinds), vbform)
    return tlv(tag, body, form)


def msg_community(version, community, pdu_bytes, form=None):
    return tlv(0x30, enc_int(version) + tlv(4, community) + pdu_bytes, form)


def usm_params(engine_id, boots, time, user, auth, priv):
    return tlv(0x30, tlv(4, engine_id) + enc_int(boots) + enc_int(time) + tlv(4, user) + tlv(4, auth) + tlv(4, priv))


def scoped_pdu(ctx_engine_id, ctx_name, pdu_bytes):
    return tlv(0x30, tlv(4, ctx_engine_id) + tlv(4, ctx_name) + pdu_bytes)


def msg_v3(msg_id, flags, usm_bytes, data_bytes, max_size=65507, model=3, form=None):
    hdr = tlv(0x30, enc_int(msg_id) + enc_int(max_size) + tlv(4, bytes([flags])) + enc_int(model))
    return tlv(0x30, enc_int(3) + hdr + tlv(4, usm_bytes) + data_bytes, form)


# ---------------------------------------------------------------------------------------------
# strict (DER-like) decoder: definite minimal lengths, minimal integers.  Raises ValueError.

class Strict(ValueError):
    pass


def s_tlv(b, off=0):
    """Returns (tag, content, next_offset); single-octet tags only."""
    if off + 2 > len(b):
        raise Strict("truncated header")
    tag = b[off]
    if tag & 0x1F == 0x1F:
        raise Strict("long-form tag")
    n = b[off + 1]
    p = off + 2
    if n & 0x80:
        k = n & 0x7F
        if k == 0 or p + k > len(b):
            raise Strict("bad length")
        ln = int.from_bytes(b[p:p + k], "big")
        if ln < 128 or b[p] == 0:
            raise Strict("non-minimal length")
        p += k
    else:
        ln = n
    if p + ln > len(b):
        raise Strict("content overruns")
    return tag, bytes(b[p:p + ln]), p + ln


def s_seq(b):
    out, off = [], 0
    while off < len(b):
        t, c, off = s_tlv(b, off)
        out.append((t, c))
    return out


def s_int(c):
    if len(c) == 0:
        raise Strict("empty integer")
    if len(c) > 1 and ((c[0] == 0 and not c[1] & 0x80) or (c[0] == 0xFF and c[1] & 0x80)):
        raise Strict("non-minimal integer")
    return int.from_bytes(c, "big", signed=True)


def s_oid_arcs(c):
    if not c:
        raise Strict("empty oid")
    subs, b, start = [], 0, True
    for x in c:
        if start and x == 0x80:
            raise Strict("non-minimal subidentifier")
        start = False
        b = (b << 7) | (x & 0x7F)
        if not x & 0x80:
            subs.append(b)
            b = 0
            start = True
    if not start:
        raise Strict("truncated subidentifier")
    a0 = min(subs[0] // 40, 2)
    return [a0, subs[0] - 40 * a0] + subs[1:]


def s_expect(items, idx, tag):
    if idx >= len(items) or items[idx][0] != tag:
        raise Strict("expected tag %#x at field %d" % (tag, idx))
    return items[idx][1]


def s_pdu(tag, c):
    """-> dict(type, request_id, f1, f2, oids[list of arcs])"""
    items = s_seq(c)
    if len(items) != 4:
        raise Strict("pdu fields")
    rid = s_int(s_expect(items, 0, 2))
    f1 = s_int(s_expect(items, 1, 2))
    f2 = s_int(s_expect(items, 2, 2))
    oids = []
    for t, vb in s_seq(s_expect(items, 3, 0x30)):
        if t != 0x30:
            raise Strict("varbind tag")
        fields = s_seq(vb)
        if len(fields) != 2 or fields[0][0] != 6 or fields[1] != (5, b""):
            raise Strict("varbind is not OID/NULL")
        oids.append(s_oid_arcs(fields[0][1]))
    return {"type": tag, "request_id": rid, "f1": f1, "f2": f2, "oids": oids}


def s_message(b):
    """Strictly decode a whole datagram: -> dict(version, community | v3 fields, pdu)"""
    t, c, end = s_tlv(b, 0)
    if t != 0x30 or end != len(b):
        raise Strict("top-level")
    items = s_seq(c)
    ver = s_int(s_expect(items, 0, 2))
    if ver in (0, 1):
        if len(items) != 3:
            raise Strict("message fields")
        comm = s_expect(items, 1, 4)
        pt, pc = items[2]
        return {"version": ver, "community": comm, "pdu": s_pdu(pt, pc)}
    if ver != 3:
        raise Strict("version")
    if len(items) != 4:
        raise Strict("v3 message fields")
    hd = s_seq(s_expect(items, 1, 0x30))
    if len(hd) != 4:
        raise Strict("v3 header fields")
    flags = s_expect(hd, 2, 4)
    if len(flags) != 1:
        raise Strict("flags")
    us = s_seq(s_expect(items, 2, 4))
    if len(us) != 1 or us[0][0] != 0x30:
        raise Strict("usm")
    u = s_seq(us[0][1])
    if len(u) != 6:
        raise Strict("usm fields")
    r = {"version": 3, "msg_id": s_int(s_expect(hd, 0, 2)), "max_size": s_int(s_expect(hd, 1, 2)), "flags": flags[0],
         "model": s_int(s_expect(hd, 3, 2)), "engine_id": s_expect(u, 0, 4), "boots": s_int(s_expect(u, 1, 2)),
         "time": s_int(s_expect(u, 2, 2)), "user": s_expect(u, 3, 4), "auth": s_expect(u, 4, 4), "priv": s_expect(u, 5, 4)}
    dt, dc = items[3]
    if dt == 4:
        r["encrypted"] = dc
    elif dt == 0x30:
        sp = s_seq(dc)
        if len(sp) != 3:
            raise Strict("scoped pdu fields")
        r["ctx_engine_id"] = s_expect(sp, 0, 4)
        r["ctx_name"] = s_expect(sp, 1, 4)
        r["pdu"] = s_pdu(sp[2][0], sp[2][1])
        r["scoped_raw"] = tlv(0x30, dc)
    else:
        raise Strict("msgData")
    # offset of the auth parameters inside the datagram (for MAC checks)
    r["auth_offset"] = bytes(b).find(tlv(4, r["auth"]) + tlv(4, r["priv"])) + 2 if r["auth"] else None
    return r

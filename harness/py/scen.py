"""Scenario runner for the API driver: sessions of every version/security configuration, a scripted agent that
answers the n-th request according to a declarative reply spec, and a recorder of everything observable:
the datagrams the client emitted and the return value / exception class of every API call.

Scenario (JSON):
  { "version": "v1"|"v2c"|"v3", "mode": "sync"|"async", "timeout": 0.3, "community": "public",
    "v3": { "user": "u", "auth": null|["md5"|"sha1", keytype, keyhex], "priv": null|["des"|"aes", keytype, keyhex],
            "engine_id": hex|null (null = discovery), "agent_engine_id": hex, "boots": int, "time": int },
    "session_kw": {...},                      # extra SnmpSession arguments (max_repetitions, allow_bulk, limit_rps ...)
    "steps": [ { "op": "get"|"get_many"|"getnext"|"getbulk"|"fetch"|"refresh"|"enter", "args": [...],
                 "replies": [[spec, ...], ...],    # replies[k] = list of reply specs sent for the k-th request of this step
                 "default_reply": spec|null,       # used when replies runs out (e.g. walks)
                 "cap": 200 } ] }
Reply spec: {"raw": hex} or a dict of fields described in build_reply().
"""
import asyncio
import hashlib
import hmac
import os
import sys
import time

HERE = os.path.dirname(os.path.abspath(__file__))
sys.path.insert(0, HERE)
import apilib  # noqa: E402
import ber  # noqa: E402

MEGABYTE = 1048576


# ---- RFC 3414 A.2 with hashlib (independent of the library and of the Coq model) ----
def rfc_password_to_master(alg, pw):
    """RFC 3414 A.2.1: digest of the first 1048576 octets of the password repeated forever."""
    return hashlib.new(alg, (pw * (MEGABYTE // len(pw) + 1))[:MEGABYTE]).digest()


def rfc_localize(alg, master, engine_id):
    return hashlib.new(alg, master + engine_id + master).digest()


ALG = {"md5": ("md5", 16, 1), "sha1": ("sha1", 20, 2)}


def localized_key(alg, keytype, key, engine_id):
    name, ks, _ = ALG[alg]
    if keytype == 0:
        return rfc_localize(name, rfc_password_to_master(name, key), engine_id)
    if keytype == 1:
        return rfc_localize(name, key, engine_id)
    return key


def pad_key(key, n):
    return key[:n] if len(key) >= n else key + b"\0" * (n - len(key))


class V3Keys:
    """Agent-side view of a user's keys for a given engine id."""

    def __init__(self, cfg, engine_id):
        self.auth = cfg.get("auth")
        self.priv = cfg.get("priv")
        self.auth_key = None
        self.priv_key = None
        if self.auth:
            alg, kt, keyhex = self.auth
            key = bytes.fromhex(keyhex)
            if kt in (1, 2):
                key = pad_key(key, ALG[alg][1])
            self.auth_key = localized_key(alg, kt, key, engine_id)
            if self.priv:
                palg, pkt, pkeyhex = self.priv
                pkey = bytes.fromhex(pkeyhex)
                if pkt in (1, 2):
                    pkey = pad_key(pkey, ALG[alg][1])
                self.priv_key = localized_key(alg, pkt, pkey, engine_id)[:16]

    def mac(self, msg_zeroed):
        alg = ALG[self.auth[0]][0]
        return hmac.new(self.auth_key, msg_zeroed, alg).digest()[:12]


def make_user(g, cfg):
    U = g.user
    auth = priv = None
    if cfg.get("auth"):
        alg, kt, keyhex = cfg["auth"]
        cls = U.Md5Key if alg == "md5" else U.Sha1Key
        auth = cls(bytes.fromhex(keyhex), key_type=U.KeyType(kt))
    if cfg.get("priv"):
        alg, kt, keyhex = cfg["priv"]
        cls = U.DesKey if alg == "des" else U.Aes128Key
        priv = cls(bytes.fromhex(keyhex), key_type=U.KeyType(kt))
    return U.User(cfg["user"], auth_key=auth, priv_key=priv)


class Session:
    def __init__(self, g, sc, agent, model=None):
        self.g = g
        self.sc = sc
        self.agent = agent
        self.model = model
        self.mode = sc.get("mode", "sync")
        mod = g.sync if self.mode == "sync" else g.asyn
        kw = dict(addr="127.0.0.1", port=agent.port, timeout=sc.get("timeout", 0.3))
        kw.update(sc.get("session_kw", {}))
        self.policed = None
        if sc.get("policer") == "counting":
            # the library's own RPSPolicer at a rate that never sleeps noticeably; every consultation is counted
            import gufo.snmp.policer as pol
            counter = {"n": 0}

            class CountingPolicer(pol.RPSPolicer):
                def get_timeout(self, *a, **kw):
                    counter["n"] += 1
                    return super().get_timeout(*a, **kw)
            kw["policer"] = CountingPolicer(1e6)
            self.policed = counter
        v = sc["version"]
        if v == "v1":
            kw.update(community=sc.get("community", "public"), version=g.SnmpVersion.v1)
        elif v == "v2c":
            kw.update(community=sc.get("community", "public"), version=g.SnmpVersion.v2c)
        else:
            c = sc["v3"]
            kw.update(user=make_user(g, c), version=g.SnmpVersion.v3)
            if c.get("engine_id"):
                kw["engine_id"] = bytes.fromhex(c["engine_id"])
            elif c.get("engine_id_empty"):
                kw["engine_id"] = b""             # "not known" said with an empty value instead of None
        self.kw = kw
        self.sess = None
        self.create_error = None
        try:
            self.sess = mod.SnmpSession(**kw)
        except BaseException as e:  # noqa: BLE001
            self.create_error = apilib.exc_class(e)
        self.loop = asyncio.new_event_loop() if self.mode == "async" else None

    def run(self, coro):
        return self.loop.run_until_complete(coro)

    def op(self, name, args, cap=200):
        """-> dict(kind RET|EXC|ITER, value/items/ending); a call that does not come back is interrupted: exc = HANG"""
        limit = self.sc.get("watchdog") or max(8.0, 30 * self.sc.get("timeout", 0.3))
        try:
            with apilib.watchdog(limit):
                return self._op(name, args, cap)
        except apilib.Hang:
            if self.loop is not None:          # the interrupted loop is not reusable
                self.loop = asyncio.new_event_loop()
            return {"kind": "EXC", "exc": "HANG"}

    def _op(self, name, args, cap=200):
        s = self.sess
        if s is None:
            return {"kind": "EXC", "exc": self.create_error}
        sync = self.mode == "sync"
        try:
            if name in ("get", "get_many", "refresh"):
                a = list(args)
                if name == "get_many":
                    # the signature takes any Iterable[str]: lists, tuples, one-shot iterators and generators alike
                    kinds = self.sc.get("containers") or ["list", "gen", "tuple", "iter"]
                    self._cn = getattr(self, "_cn", 0) + 1
                    kind = kinds[self._cn % len(kinds)]
                    items = list(args[0])
                    a = [items if kind == "list" else tuple(items) if kind == "tuple" else iter(items) if kind == "iter"
                         else (x for x in items) if kind == "gen" else dict.fromkeys(items).keys() if kind == "keys" and len(set(items)) == len(items) else items]
                if sync:
                    v = getattr(s, name)(*a)
                else:
                    v = self.run(getattr(s, name)(*a))
                return {"kind": "RET", "value": apilib.render_pyvalue(v)}
            if name == "enter":
                if sync:
                    s.__enter__()
                else:
                    self.run(s.__aenter__())
                return {"kind": "RET", "value": "none"}
            if name in ("getnext", "getbulk", "fetch"):
                it = getattr(s, name)(*args)
                # the consumer's pattern rotates too: one loop, peek-then-loop, pages (apilib.drain_iter)
                styles = self.sc.get("consume") or ["for", "peek", "pages"]
                self._sn = getattr(self, "_sn", 0) + 1
                style = styles[self._sn % len(styles)]
                if sync:
                    items, ending = apilib.drain_iter(it, cap, style)
                else:
                    items, ending = self.run(apilib.adrain_iter(it, cap, style))
                return {"kind": "ITER", "items": [apilib.render_pyvalue(x) for x in items], "ending": ending}
            if name == "get_engine_id":
                return {"kind": "RET", "value": apilib.render_pyvalue(s.get_engine_id())}
        except BaseException as e:  # noqa: BLE001
            return {"kind": "EXC", "exc": apilib.exc_class(e)}
        return {"kind": "EXC", "exc": "BadOp"}

    def close(self):
        if self.loop:
            self.loop.close()


def parse_request(data, keys=None, model=None):
    """Strictly decode what the client sent; decrypt when needed.  -> dict or {'error': ...}"""
    try:
        m = ber.s_message(data)
    except ber.Strict as e:
        return {"error": "strict: %s" % e, "raw": data.hex()}
    if m["version"] == 3 and "encrypted" in m:
        if keys is None or keys.priv_key is None or model is None:
            m["decrypt_error"] = "no key"
            return m
        alg = keys.priv[0]
        pp = m["priv"]
        if alg == "des":
            key, pre = keys.priv_key[:8], keys.priv_key[8:16]
            iv = bytes(a ^ b for a, b in zip(pp, pre))
        else:
            key = keys.priv_key[:16]
            iv = m["boots"].to_bytes(4, "big", signed=False) + m["time"].to_bytes(4, "big", signed=False) + pp
        out = model.ask("cipher %s dec %s %s %s" % (alg, key.hex(), iv.hex(), m["encrypted"].hex() or "-"))
        pt = bytes.fromhex(out[3:]) if out.startswith("OK ") and out[3:] != "-" else b""
        m["plaintext"] = pt
        try:
            t, c, end = ber.s_tlv(pt, 0)
            sp = ber.s_seq(c)
            m["ctx_engine_id"] = ber.s_expect(sp, 0, 4)
            m["ctx_name"] = ber.s_expect(sp, 1, 4)
            m["pdu"] = ber.s_pdu(sp[2][0], sp[2][1])
            m["scoped_raw"] = pt[:end]
            m["padding"] = pt[end:]
        except (ber.Strict, IndexError) as e:
            m["decrypt_error"] = "scoped: %s" % e
    return m


def build_reply(spec, req, sc, keys=None, model=None, rng=None):
    """Build one reply datagram from a spec and the parsed request."""
    if "raw" in spec:
        return bytes.fromhex(spec["raw"])
    if "fill_total" in spec:
        # one varbind (fill_oid, OCTET STRING of 'F's) sized so that the whole datagram has exactly fill_total octets
        total = int(spec["fill_total"])
        oid = spec.get("fill_oid", [1, 3, 6, 1, 4, 1, 1])
        x = max(0, total - 64)
        d = b""
        for _ in range(10):
            sp = {k: v for k, v in spec.items() if k != "fill_total"}
            sp["vbs"] = ber.varbind(ber.enc_oid(oid), ber.enc_value("os", b"F" * x)).hex()
            d = build_reply(sp, req, sc, keys, model, rng)
            if len(d) == total:
                break
            x = max(0, x + total - len(d))
        return d
    pdu_req = req.get("pdu") or {}
    rid = spec.get("rid", "same")
    if isinstance(rid, str) and rid.startswith("same"):
        # "same", "same-2147483648", "same+4294967296": the outstanding id, optionally shifted
        rid = pdu_req.get("request_id", 0) + (int(rid[4:]) if len(rid) > 4 else 0)
    else:
        rid = int(rid)
    vbs = bytes.fromhex(spec.get("vbs", ""))
    tag = int(spec.get("pdu_tag", 0xA2))
    if "pdu_raw" in spec:
        p = bytes.fromhex(spec["pdu_raw"])
    elif tag == 0xA8 and "vbs" not in spec:
        # a Report: usmStatsUnknownEngineIDs.0 counter
        p = ber.pdu(0xA8, rid, 0, 0, [ber.varbind(ber.enc_oid([1, 3, 6, 1, 6, 3, 15, 1, 1, 4, 0]), ber.enc_value("c32", 1))])
    else:
        p = ber.pdu(tag, rid, int(spec.get("es", 0)), int(spec.get("ei", 0)), [vbs] if vbs else [])
    ver = spec.get("version", "same")
    if sc["version"] in ("v1", "v2c"):
        v = {"v1": 0, "v2c": 1}[sc["version"]] if ver == "same" else int(ver)
        comm = spec.get("community", "same")
        comm = sc.get("community", "public").encode() if comm == "same" else bytes.fromhex(comm)
        d = ber.msg_community(v, comm, p)
    else:
        c = sc["v3"]
        msgid = spec.get("msgid", "same")
        if isinstance(msgid, str) and msgid.startswith("same"):
            msgid = req.get("msg_id", 0) + (int(msgid[4:]) if len(msgid) > 4 else 0)
        else:
            msgid = int(msgid)
        user = spec.get("user", "same")
        if user == "same":
            user = req["user"] if isinstance(req.get("user"), (bytes, bytearray)) else c["user"].encode()
        else:
            user = bytes.fromhex(user)
        eng = spec.get("engine", "agent")
        eng = bytes.fromhex(c["agent_engine_id"]) if eng == "agent" else bytes.fromhex(eng)
        boots = int(spec.get("boots", c.get("boots", 1)))
        tm = int(spec.get("time", c.get("time", 1)))
        want_auth = keys is not None and keys.auth_key is not None and spec.get("mac", "valid") != "absent"
        want_priv = keys is not None and keys.priv_key is not None and spec.get("encrypt", "auto") != "no"
        if spec.get("encrypt") == "yes" and (keys is None or keys.priv_key is None):
            want_priv = False
        flags = spec.get("flags", "auto")
        if flags == "auto":
            flags = (1 if want_auth else 0) | (2 if want_priv else 0)
        flags = int(flags) | int(spec.get("flags_or", 0))
        scoped = ber.scoped_pdu(bytes.fromhex(spec.get("ctx_engine", eng.hex())), b"", p)
        pp = b""
        if want_priv:
            alg = keys.priv[0]
            salt = bytes.fromhex(spec["salt"]) if "salt" in spec else (rng.randbytes(8) if rng else b"\x00\x00\x00\x01\x00\x00\x00\x07")
            pp = salt
            if alg == "des":
                key, pre = keys.priv_key[:8], keys.priv_key[8:16]
                iv = bytes(a ^ b for a, b in zip(salt, pre))
                pt = scoped + b"\0" * ((-len(scoped)) % 8)
            else:
                key = keys.priv_key[:16]
                iv = (boots & 0xFFFFFFFF).to_bytes(4, "big") + (tm & 0xFFFFFFFF).to_bytes(4, "big") + salt
                pt = scoped
            out = model.ask("cipher %s enc %s %s %s" % (alg, key.hex(), iv.hex(), pt.hex() or "-"))
            ct = bytes.fromhex(out[3:]) if out[3:] != "-" else b""
            data = ber.tlv(4, ct)
            if "privparams" in spec:
                pp = bytes.fromhex(spec["privparams"])
        else:
            data = scoped
        if "octet_data" in spec:
            data = ber.tlv(4, bytes.fromhex(spec["octet_data"]))      # the encrypted shape, whatever the security level
        auth_field = b"\0" * 12 if want_auth else b""
        ver_n = 3 if ver == "same" else int(ver)
        usm = ber.usm_params(eng, boots, tm, user, auth_field, pp)
        d = ber.tlv(0x30, ber.enc_int(ver_n) + ber.tlv(0x30, ber.enc_int(msgid) + ber.enc_int(65507) + ber.tlv(4, bytes([flags])) +
                                                      ber.enc_int(int(spec.get("model", 3)))) + ber.tlv(4, usm) + data)
        if want_auth:
            off = d.find(ber.tlv(4, auth_field) + ber.tlv(4, pp)) + 2
            mode = spec.get("mac", "valid")
            mac = keys.mac(d)
            if mode == "zero":
                mac = b"\0" * 12
            elif mode == "random":
                mac = (rng.randbytes(12) if rng else b"\x5a" * 12)
            elif mode == "flip":
                mac = bytes([mac[0] ^ 1]) + mac[1:]
            d = d[:off] + mac + d[off + 12:]
    post = spec.get("post")
    if post:
        if "truncate" in post:
            d = d[:max(0, int(post["truncate"]))] if post["truncate"] >= 0 else d[:post["truncate"]]
        if "xor" in post:
            i, x = post["xor"]
            if d:
                b = bytearray(d)
                b[i % len(b)] ^= x
                d = bytes(b)
        if "append" in post:
            d += bytes.fromhex(post["append"])
    return d


def run_scenario(g, sc, model=None, rng=None):
    """Run one scenario; returns the record: emitted datagrams and outcome per step."""
    import random
    rng = rng or random.Random(sc.get("seed", 1))
    state = {"step": None, "k": 0, "reqs": [], "exchanges": [], "sess": None}
    keys_cache = {}

    def keys_for(engine_hex):
        if sc["version"] != "v3":
            return None
        if engine_hex not in keys_cache:
            refused = any(k and k[1] == 0 and not k[2] for k in (sc["v3"].get("auth"), sc["v3"].get("priv")))   # an empty password
            keys_cache[engine_hex] = None if refused else V3Keys(sc["v3"], bytes.fromhex(engine_hex))
        return keys_cache[engine_hex]

    def handler(n, data, addr):
        st = state["step"]
        arrival = {"t": time.monotonic(), "policed": (state["sess"].policed or {}).get("n") if state["sess"] is not None else None}
        state["arrivals"] = state.get("arrivals", []) + [arrival]
        keys = keys_for(sc["v3"]["agent_engine_id"]) if sc["version"] == "v3" else None
        req = parse_request(data, keys, model)
        state["reqs"].append(req)
        if st is None:
            return []
        k = state["k"]
        state["k"] += 1
        if st.get("mib") is not None:
            sp = mib_reply(st["mib"], req, sc)
            r = [(0, build_reply(sp, req, sc, keys, model, rng))] if sp is not None else []
            state["exchanges"].append({"request": data.hex(), "replies": [d.hex() for _, d in r], "reply_spec": sp})
            return r
        specs = st.get("replies", [])
        if k < len(specs):
            lst = specs[k]
        elif st.get("default_reply") is not None:
            lst = [st["default_reply"]]
        else:
            lst = []
        out = []
        for sp in lst:
            out.append((sp.get("delay", 0), build_reply(sp, req, sc, keys, model, rng)))
        state["exchanges"].append({"request": data.hex(), "replies": [d.hex() for _, d in out]})
        return out

    agent = apilib.Agent(handler)
    rec = {"steps": []}
    try:
        sess = Session(g, sc, agent, model)
        state["sess"] = sess
        rec["create_error"] = sess.create_error
        for st in sc["steps"]:
            state["step"] = st
            state["k"] = 0
            state["reqs"] = []
            state["exchanges"] = []
            state["arrivals"] = []
            agent.take()
            t0 = time.time()
            r = sess.op(st["op"], st.get("args", []), st.get("cap", 200))
            r["wall"] = round(time.time() - t0, 4)
            if st.get("settle"):
                time.sleep(st["settle"])
            agent.quiesce()
            r["emitted"] = [d.hex() for d in agent.take()]
            r["requests"] = [summarise(q) for q in state["reqs"]]
            r["exchanges"] = list(state["exchanges"])
            r["arrivals"] = list(state["arrivals"])
            rec["steps"].append(r)
        state["step"] = None
        sess.close()
    finally:
        agent.close()
    return rec


def arcs_lt(a, b):
    return list(a) < list(b)


def mib_reply(cfg, req, sc):
    """RFC 3416 agent over a finite MIB.  cfg: {"entries": [[arcs, value_tlv_hex], ...] sorted, "cap": n, "pad": k}.
    GetNext: next entry or end (v1: noSuchName echo; v2c/v3: endOfMibView bound to the requested name).
    GetBulk (one repeater): up to min(max_rep, cap) successors, then one endOfMibView (+ pad more) when the MIB ends."""
    p = req.get("pdu")
    if not p or not p["oids"]:
        return None
    o = p["oids"][0]
    ents = cfg["entries"]
    after = [e for e in ents if arcs_lt(o, e[0])]
    if p["type"] == 0xA1:
        if after:
            a, vh = after[0]
            return {"vbs": (ber.varbind(ber.enc_oid(a), bytes.fromhex(vh))).hex()}
        if sc["version"] == "v1":
            return {"vbs": ber.varbind(ber.enc_oid(o), b"\x05\x00").hex(), "es": 2, "ei": 1}
        return {"vbs": ber.varbind(ber.enc_oid(o), b"\x82\x00").hex()}
    if p["type"] == 0xA5:
        n = min(max(p["f2"], 0), cfg.get("cap", 1000))
        succ = after[:n]
        vbs = b"".join(ber.varbind(ber.enc_oid(a), bytes.fromhex(vh)) for a, vh in succ)
        if len(succ) < n:
            last = succ[-1][0] if succ else o
            extra = 1 + min(cfg.get("pad", 0), n - len(succ) - 1)
            vbs += b"".join(ber.varbind(ber.enc_oid(last), b"\x82\x00") for _ in range(extra))
        return {"vbs": vbs.hex()}
    if p["type"] == 0xA0:
        d = dict((tuple(a), vh) for a, vh in ents)
        vbs = b""
        for q in p["oids"]:
            vh = d.get(tuple(q))
            vbs += ber.varbind(ber.enc_oid(q), bytes.fromhex(vh) if vh else b"\x81\x00")
        return {"vbs": vbs.hex()}
    return None


def summarise(q):
    """JSON-able view of a parsed request."""
    out = {}
    for k, v in q.items():
        if isinstance(v, (bytes, bytearray)):
            out[k] = bytes(v).hex()
        elif isinstance(v, dict):
            out[k] = {kk: (vv if not isinstance(vv, (bytes, bytearray)) else bytes(vv).hex()) for kk, vv in v.items()}
        else:
            out[k] = v
    return out


def api_main_generic(g, job):
    """Default worker entry: run every scenario of the job."""
    import random
    model = apilib.ModelProc(job["model_exe"]) if job.get("model_exe") else None
    out = []
    rng = random.Random(job.get("seed", 1))
    try:
        for sc in job["scenarios"]:
            try:
                out.append(run_scenario(g, sc, model, rng))
            except BaseException as e:  # noqa: BLE001
                out.append({"driver_error": repr(e)})
    finally:
        if model:
            model.close()
    return {"records": out}

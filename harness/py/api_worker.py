#!/usr/bin/env python3
"""api_worker.py <prop> <job.json> <out.json> : runs lib.props.<prop>.api_main(g, job) in a subprocess of its own
(so that an abort of the library cannot take the check down with it)."""
import importlib
import json
import os
import sys

sys.dont_write_bytecode = True
HERE = os.path.dirname(os.path.abspath(__file__))
VERIF = os.path.dirname(os.path.dirname(HERE))
sys.path.insert(0, VERIF)
sys.path.insert(0, HERE)
import apilib  # noqa: E402


def main():
    prop, jobf, outf = sys.argv[1:4]
    job = json.load(open(jobf))
    g = apilib.import_gufo(job["so"], job["repo"])
    if prop == "pylayer":
        import pylayer
        res = {"pylayer": [pylayer.run_case(g, cs) for cs in job.get("pylayer_cases", [])],
               "pyprog": [pylayer.run_prog_case(g, cs) for cs in job.get("pyprog_cases", [])]}
    else:
        mod = importlib.import_module("lib.props." + prop)
        res = mod.api_main(g, job)
    with open(outf, "w") as f:
        json.dump(res, f)


if __name__ == "__main__":
    main()

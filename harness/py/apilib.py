"""API-level driver: the real gufo.snmp (Python layer imported from /repo/src, `_fast` from the freshly built
cdylib) against an in-process scripted UDP agent on 127.0.0.1.  Used inside worker subprocesses (api_worker.py)."""
import importlib.machinery
import importlib.util
import os
import select
import socket
import subprocess
import sys
import threading
import time

HERE = os.path.dirname(os.path.abspath(__file__))
sys.path.insert(0, HERE)
import ber  # noqa: E402


class G:
    pass


def load_gufo(so_path, repo):
    """Import gufo.snmp with _fast taken from so_path; nothing is written into /repo."""
    sys.dont_write_bytecode = True
    loader = importlib.machinery.ExtensionFileLoader("gufo.snmp._fast", so_path)
    spec = importlib.util.spec_from_loader("gufo.snmp._fast", loader)
    mod = importlib.util.module_from_spec(spec)
    # the package must exist before the extension initialises
    src = os.path.join(repo, "src")
    if src not in sys.path:
        sys.path.insert(0, src)
    import gufo.snmp  # noqa: F401  (fails if _fast is missing: provide it first)
    return mod


def import_gufo(so_path, repo):
    sys.dont_write_bytecode = True
    src = os.path.join(repo, "src")
    if src not in sys.path:
        sys.path.insert(0, src)
    loader = importlib.machinery.ExtensionFileLoader("gufo.snmp._fast", so_path)
    spec = importlib.util.spec_from_loader("gufo.snmp._fast", loader)
    fast = importlib.util.module_from_spec(spec)
    sys.modules["gufo.snmp._fast"] = fast
    loader.exec_module(fast)
    import gufo.snmp as gs
    import gufo.snmp.sync_client as sync_client
    import gufo.snmp.async_client as async_client
    import gufo.snmp.user as user
    g = G()
    g.fast = fast
    g.gs = gs
    g.sync = sync_client
    g.asyn = async_client
    g.user = user
    g.SnmpVersion = gs.SnmpVersion
    return g


def exc_class(e):
    if isinstance(e, Hang):
        return "HANG"
    return _exc_class(e)


FAMILY = ("SnmpError", "SnmpDecodeError", "SnmpEncodeError", "SnmpAuthError", "NoSuchInstance")


def _exc_class(e):
    """Canonical name of what a call raised, as the caller's `except gufo.snmp.<Name>` sees it: a class of the library's
    family is named by the name the package EXPORTS it under (identity of the class object, not its __name__); one that
    is raised but not exported under its own name is UNEXPORTED:<name>, one that left the SnmpError family
    NOT-IN-FAMILY:<name>.  PanicException is not an Exception subclass."""
    n = type(e).__name__
    gs = sys.modules.get("gufo.snmp")
    if gs is not None and isinstance(e, Exception):
        for nm in FAMILY:
            if type(e) is getattr(gs, nm, None):
                want = "Py" + nm
                if n not in (nm, want):
                    return "UNEXPORTED:%s-bound-to-%s" % (nm, n)      # the name is bound to another class of the family
                root = getattr(gs, "SnmpError", None)
                return nm if (root is None or isinstance(e, root)) else "NOT-IN-FAMILY:" + nm
        if n.startswith("Py") and n[2:] in FAMILY:
            return "UNEXPORTED:" + n                                   # raised, but `except gufo.snmp.%s` does not catch it
    if n.startswith("Py") and n[2:] in FAMILY:
        n = n[2:]
    if not isinstance(e, Exception):
        return "PANIC:" + n
    return n


class Agent:
    """Scripted UDP agent.  `handler(n, data, addr) -> list of (delay_s, bytes)`; everything received is recorded."""

    def __init__(self, handler=None):
        self.sock = socket.socket(socket.AF_INET, socket.SOCK_DGRAM)
        self.sock.bind(("127.0.0.1", 0))
        self.port = self.sock.getsockname()[1]
        self.handler = handler
        self.received = []
        self.n = 0
        self.stop = False
        self.lock = threading.Lock()
        self.th = threading.Thread(target=self.run, daemon=True)
        self.th.start()

    def run(self):
        while not self.stop:
            r, _, _ = select.select([self.sock], [], [], 0.05)
            if not r:
                continue
            self.busy = True
            try:
                data, addr = self.sock.recvfrom(65536)
            except OSError:
                self.busy = False
                break
            with self.lock:
                n = self.n
                self.n += 1
                self.received.append(data)
                h = self.handler
            if h is None:
                self.busy = False
                continue
            try:
                replies = h(n, data, addr) or []
            except Exception as e:  # a bug in a script must be visible, not silent
                self.error = repr(e)
                replies = []
            for delay, payload in replies:
                if delay and delay < 0:
                    time.sleep(-delay)            # paced inline (floods must not overflow the client's receive queue)
                    self._send(payload, addr)
                elif delay and delay > 0:
                    threading.Timer(delay, self._send, (payload, addr)).start()
                else:
                    self._send(payload, addr)
            self.busy = False

    def quiesce(self, limit=0.3):
        """Wait until every datagram the client has already sent was handled (a call may return before the agent has even
        seen its request, when an earlier datagram in the client's queue ended it): the request then still belongs to
        the step that sent it."""
        end = time.time() + limit
        idle = 0
        while time.time() < end:
            r, _, _ = select.select([self.sock], [], [], 0)
            if r or getattr(self, "busy", False):
                idle = 0
            else:
                idle += 1
                if idle >= 3:
                    return
            time.sleep(0.0005)

    def _send(self, payload, addr):
        try:
            self.sock.sendto(payload, addr)
        except OSError:
            pass

    def take(self):
        with self.lock:
            r = self.received
            self.received = []
        return r

    def close(self):
        self.stop = True
        self.th.join(timeout=1)
        self.sock.close()


class Hang(BaseException):
    """Raised in the main thread by the watchdog when an API call does not come back."""


class watchdog:
    """`with watchdog(seconds):` - a call that is still running after `seconds` is interrupted with Hang (Python-level
    spinning and event-loop stalls are interruptible; a call stuck inside native code is caught by the worker's own
    time limit instead)."""

    def __init__(self, seconds):
        self.seconds = seconds

    def _fire(self, signum, frame):
        raise Hang("no return within %.1f s" % self.seconds)

    def __enter__(self):
        import signal
        import threading
        self.armed = threading.current_thread() is threading.main_thread()     # signals exist in the main thread only
        if self.armed:
            self.old = signal.signal(signal.SIGALRM, self._fire)
            signal.setitimer(signal.ITIMER_REAL, self.seconds)
        return self

    def __exit__(self, *a):
        import signal
        if self.armed:
            signal.setitimer(signal.ITIMER_REAL, 0)
            signal.signal(signal.SIGALRM, self.old)
        return False


def call(fn, *a, **kw):
    """-> ('RET', value) | ('EXC', class name)"""
    try:
        return ("RET", fn(*a, **kw))
    except BaseException as e:  # noqa: BLE001  PanicException derives from BaseException
        return ("EXC", exc_class(e))


def drain_iter(it, cap=10000, style="for"):
    """Consume a sync iterator: -> (items, ending) ; ending 'STOP' | exception class | 'CAP'.
    style: the consumer's pattern - one `for` loop; 'peek': next() for the first item, then a `for` over the same object;
    'pages': itertools.islice(it, 2) again and again (each page calls iter() on the object, as zip / chain / a resumed
    `for` do).  For an iterator all three are the same sequence (iter(it) is it)."""
    import itertools
    items = []
    try:
        if style == "peek":
            items.append(next(it))
            if len(items) >= cap:
                return items, "CAP"
        if style == "pages":
            while True:
                page = list(itertools.islice(it, 2))
                items.extend(page)
                if len(items) >= cap:
                    return items[:cap], "CAP"
                if len(page) < 2:          # islice stopped early: the iterator raised StopIteration
                    return items, "STOP"
        for x in it:
            items.append(x)
            if len(items) >= cap:
                return items, "CAP"
    except StopIteration:
        return items, "STOP"
    except BaseException as e:  # noqa: BLE001
        return items, exc_class(e)
    return items, "STOP"


async def adrain_iter(it, cap=10000, style="for"):
    items = []
    try:
        if style == "peek":
            items.append(await it.__aiter__().__anext__())
            if len(items) >= cap:
                return items, "CAP"
        if style == "pages":
            while True:
                a = it.__aiter__()
                n = 0
                while n < 2:
                    items.append(await a.__anext__())
                    n += 1
                    if len(items) >= cap:
                        return items, "CAP"
        async for x in it:
            items.append(x)
            if len(items) >= cap:
                return items, "CAP"
    except StopAsyncIteration:
        return items, "STOP"
    except BaseException as e:  # noqa: BLE001
        return items, exc_class(e)
    return items, "STOP"


class ModelProc:
    """Persistent extracted-model process for interactive queries (one line in, one line out)."""

    def __init__(self, exe):
        self.p = subprocess.Popen([exe], stdin=subprocess.PIPE, stdout=subprocess.PIPE, text=True, bufsize=1)
        self.lock = threading.Lock()

    def ask(self, line):
        with self.lock:
            self.p.stdin.write(line + "\n")
            self.p.stdin.flush()
            return self.p.stdout.readline().rstrip("\n")

    def close(self):
        try:
            self.p.stdin.close()
            self.p.wait(timeout=2)
        except Exception:
            self.p.kill()


def hx(b):
    return bytes(b).hex() or "-"


def render_pyvalue(v):
    """Same canonical rendering as the codec harness uses for Python objects."""
    import struct
    if v is None:
        return "none"
    if isinstance(v, bool):
        return "bool:%d" % v
    if isinstance(v, int):
        return "int:%d" % v
    if isinstance(v, float):
        return "float:%016x" % struct.unpack(">Q", struct.pack(">d", v))[0]
    if isinstance(v, bytes):
        return "bytes:" + hx(v)
    if isinstance(v, str):
        return "str:" + hx(v.encode())
    if isinstance(v, tuple):
        return "(" + ",".join(render_pyvalue(x) for x in v) + ")"
    if isinstance(v, list):
        return "[" + ",".join(render_pyvalue(x) for x in v) + "]"
    if isinstance(v, dict):
        return "{" + ",".join(render_pyvalue(k) + "=" + render_pyvalue(x) for k, x in v.items()) + "}"
    return "other:" + type(v).__name__

// Codec harness: a line protocol around the real functions of /repo/src (see DESIGN.md 3.3).
// One case per input line, one canonical output line: `OK ...` / `ERR <SnmpError variant>` / `PANIC`.

use crate::auth::{AuthKey, SnmpAuth};
use crate::ber::*;
use crate::buf::Buffer;
use crate::error::SnmpError;
use crate::privacy::{PrivKey, SnmpPriv};
use crate::snmp::get::SnmpGet;
use crate::snmp::getbulk::SnmpGetBulk;
use crate::snmp::msg::v3::{MsgData, ScopedPdu, SnmpV3Message, UsmParameters};
use crate::snmp::msg::{SnmpPdu, SnmpV1Message, SnmpV2cMessage};
use crate::snmp::op::{GetIter, OpGet, OpGetBulk, OpGetMany, OpGetNext, OpRefresh, PyOp};
use crate::snmp::value::SnmpValue;
use pyo3::prelude::*;
use pyo3::types::{PyBool, PyBytes, PyDict, PyFloat, PyInt, PyList, PyString, PyTuple};
use std::io::{BufRead, Write};
use std::panic::{AssertUnwindSafe, catch_unwind};

fn hex(b: &[u8]) -> String {
    if b.is_empty() {
        return "-".into();
    }
    let mut s = String::with_capacity(b.len() * 2);
    for x in b {
        s.push_str(&format!("{:02x}", x));
    }
    s
}

fn unhex(s: &str) -> Vec<u8> {
    if s == "-" {
        return vec![];
    }
    (0..s.len() / 2)
        .map(|i| u8::from_str_radix(&s[2 * i..2 * i + 2], 16).unwrap())
        .collect()
}

fn ename(e: &SnmpError) -> String {
    let s = format!("{:?}", e);
    s.split('(').next().unwrap().to_string()
}

fn nerr(e: nom::Err<SnmpError>) -> SnmpError {
    e.into()
}

fn rvalue(v: &SnmpValue) -> String {
    match v {
        SnmpValue::Bool(_) | SnmpValue::Int(_) | SnmpValue::Real(_) | SnmpValue::IpAddress(_) => {
            // private payloads: go through the public conversions
            match v {
                SnmpValue::IpAddress(x) => format!("ip:{}", String::from(x)),
                _ => unreachable!(),
            }
        }
        _ => unreachable!(),
    }
}

// SnmpValue owns payloads with private fields; render needs ownership for the From conversions.
fn render_value(v: SnmpValue) -> String {
    match v {
        SnmpValue::Bool(x) => format!("bool:{}", if bool::from(x) { 1 } else { 0 }),
        SnmpValue::Int(x) => format!("int:{}", i64::from(x)),
        SnmpValue::Null => "null".into(),
        SnmpValue::OctetString(x) => format!("os:{}", hex(x.0)),
        SnmpValue::Oid(x) => format!("oid:{}", hex(&x.0)),
        SnmpValue::ObjectDescriptor(x) => format!("od:{}", hex(x.0)),
        SnmpValue::Real(x) => format!("real:f64:{:016x}", f64::from(x).to_bits()),
        SnmpValue::IpAddress(x) => format!("ip:{}", String::from(&x)),
        SnmpValue::Counter32(x) => format!("c32:{}", x.0),
        SnmpValue::Gauge32(x) => format!("g32:{}", x.0),
        SnmpValue::TimeTicks(x) => format!("tt:{}", x.0),
        SnmpValue::Opaque(x) => format!("op:{}", hex(x.0)),
        SnmpValue::Counter64(x) => format!("c64:{}", x.0),
        SnmpValue::UInteger32(x) => format!("u32:{}", x.0),
        SnmpValue::NoSuchObject => "nso".into(),
        SnmpValue::NoSuchInstance => "nsi".into(),
        SnmpValue::EndOfMibView => "eomv".into(),
    }
}

fn render_oids(v: &[SnmpOid]) -> String {
    v.iter().map(|o| hex(&o.0)).collect::<Vec<_>>().join(",")
}

fn render_pdu(p: SnmpPdu) -> String {
    match p {
        SnmpPdu::GetRequest(g) => format!("get({};{})", g.request_id, render_oids(&g.vars)),
        SnmpPdu::GetNextRequest(g) => format!("getnext({};{})", g.request_id, render_oids(&g.vars)),
        SnmpPdu::GetBulkRequest(g) => format!(
            "bulk({},{},{};{})",
            g.request_id,
            g.non_repeaters,
            g.max_repetitions,
            render_oids(&g.vars)
        ),
        SnmpPdu::GetResponse(r) => {
            let (id, es, ei) = (r.request_id, r.error_status, r.error_index);
            let vars: Vec<String> = r
                .vars
                .into_iter()
                .map(|v| format!("{}={}", hex(&v.oid.0), render_value(v.value)))
                .collect();
            format!("resp({},{},{};{})", id, es, ei, vars.join(","))
        }
        SnmpPdu::Report(r) => format!("report({})", hex(r.0)),
    }
}

fn b01(b: bool) -> u8 {
    if b { 1 } else { 0 }
}

fn render_usm(u: &UsmParameters) -> String {
    format!(
        "{},{},{},{},{},{}",
        hex(u.engine_id),
        u.engine_boots,
        u.engine_time,
        hex(u.user_name),
        hex(u.auth_params),
        hex(u.privacy_params)
    )
}

fn render_scoped(s: ScopedPdu) -> String {
    format!("plain({},{})", hex(s.engine_id), render_pdu(s.pdu))
}

fn class_num(c: BerClass) -> u8 {
    match c {
        BerClass::Universal => 0,
        BerClass::Application => 1,
        BerClass::Context => 2,
        BerClass::Private => 3,
    }
}

type R = Result<String, SnmpError>;

fn typed<'a, T: BerDecoder<'a>>(i: &'a [u8], f: impl Fn(T) -> String) -> R {
    let (rest, v) = T::from_ber(i).map_err(nerr)?;
    Ok(format!("{} rest={}", f(v), hex(rest)))
}

// ---- request builders --------------------------------------------------------------------------
// pdu spec:  get:ID:oid,oid   getnext:ID:oid   bulk:ID:NR:MR:oid,oid   (oids in hex of content octets)
fn parse_oids(s: &str) -> Vec<SnmpOid<'static>> {
    if s == "-" || s.is_empty() {
        return vec![];
    }
    s.split(',').map(|x| SnmpOid::from(unhex(x))).collect()
}

fn build_pdu(spec: &str) -> SnmpPdu<'static> {
    let p: Vec<&str> = spec.split(':').collect();
    match p[0] {
        "get" => SnmpPdu::GetRequest(SnmpGet {
            request_id: p[1].parse().unwrap(),
            vars: parse_oids(p[2]),
        }),
        "getnext" => SnmpPdu::GetNextRequest(SnmpGet {
            request_id: p[1].parse().unwrap(),
            vars: parse_oids(p[2]),
        }),
        "bulk" => SnmpPdu::GetBulkRequest(SnmpGetBulk {
            request_id: p[1].parse().unwrap(),
            non_repeaters: p[2].parse().unwrap(),
            max_repetitions: p[3].parse().unwrap(),
            vars: parse_oids(p[4]),
        }),
        _ => panic!("bad pdu spec"),
    }
}

// ---- python rendering ---------------------------------------------------------------------------
fn render_py(o: &Bound<'_, PyAny>) -> String {
    if o.is_none() {
        return "none".into();
    }
    if let Ok(b) = o.downcast::<PyBool>() {
        return format!("bool:{}", b01(b.is_true()));
    }
    if let Ok(i) = o.downcast::<PyInt>() {
        return format!("int:{}", i.str().unwrap());
    }
    if let Ok(f) = o.downcast::<PyFloat>() {
        return format!("float:{:016x}", f.value().to_bits());
    }
    if let Ok(b) = o.downcast::<PyBytes>() {
        return format!("bytes:{}", hex(b.as_bytes()));
    }
    if let Ok(s) = o.downcast::<PyString>() {
        return format!("str:{}", hex(s.to_string_lossy().as_bytes()));
    }
    if let Ok(t) = o.downcast::<PyTuple>() {
        let v: Vec<String> = t.iter().map(|x| render_py(&x)).collect();
        return format!("({})", v.join(","));
    }
    if let Ok(l) = o.downcast::<PyList>() {
        let v: Vec<String> = l.iter().map(|x| render_py(&x)).collect();
        return format!("[{}]", v.join(","));
    }
    if let Ok(d) = o.downcast::<PyDict>() {
        let v: Vec<String> = d
            .iter()
            .map(|(k, x)| format!("{}={}", render_py(&k), render_py(&x)))
            .collect();
        return format!("{{{}}}", v.join(","));
    }
    format!("other:{}", o.get_type().name().unwrap())
}

fn render_pyresult(py: Python<'_>, r: PyResult<Bound<'_, PyAny>>) -> String {
    match r {
        Ok(o) => format!("RET {}", render_py(&o)),
        Err(e) => format!("EXC {}", exc_name(py, &e)),
    }
}

// create_exception! names the classes Py<Name>; lib.rs exports them as <Name>
fn exc_name(py: Python<'_>, e: &PyErr) -> String {
    let n = e.get_type(py).name().unwrap().to_string();
    match n.strip_prefix("Py") {
        Some(x) => x.to_string(),
        None => n,
    }
}

fn op_line(args: &[&str]) -> String {
    // op <get|getmany|refresh> <pduhex>
    let data = unhex(args[1]);
    let pdu = match SnmpPdu::try_from(data.as_slice()) {
        Ok(p) => p,
        Err(e) => return format!("ERR {}", ename(&e)),
    };
    Python::with_gil(|py| {
        let r = match args[0] {
            "get" => OpGet::to_python(&pdu, None, py),
            "getmany" => OpGetMany::to_python(&pdu, None, py),
            "refresh" => OpRefresh::to_python(&pdu, None, py),
            _ => panic!("bad op"),
        };
        render_pyresult(py, r)
    })
}

fn walk_line(args: &[&str]) -> String {
    // walk <next|bulk> <oid text hex> <maxrep|-> <pduhex>...
    Python::with_gil(|py| {
        let ty = py.get_type::<GetIter>();
        let text = String::from_utf8_lossy(&unhex(args[1])).to_string();
        let obj = if args[2] == "-" {
            ty.call1((text,))
        } else {
            ty.call1((text, args[2].parse::<i64>().unwrap()))
        };
        let obj = match obj {
            Ok(o) => o,
            Err(e) => return format!("NEW-EXC {}", exc_name(py, &e)),
        };
        let cell = obj.downcast::<GetIter>().unwrap();
        let mut outs: Vec<String> = vec![];
        for ph in &args[3..] {
            let data = unhex(ph);
            let pdu = match SnmpPdu::try_from(data.as_slice()) {
                Ok(p) => p,
                Err(e) => {
                    outs.push(format!("ERR {}", ename(&e)));
                    continue;
                }
            };
            let mut it = cell.borrow_mut();
            let r = match args[0] {
                "next" => OpGetNext::to_python(&pdu, Some(&mut *it), py),
                "bulk" => OpGetBulk::to_python(&pdu, Some(&mut *it), py),
                _ => panic!("bad walk kind"),
            };
            outs.push(format!(
                "{} next={} mr={}",
                render_pyresult(py, r),
                hex(&it.get_next_oid().0),
                it.get_max_repetitions()
            ));
        }
        outs.join(" | ")
    })
}

// ---- buffer op sequences ---------------------------------------------------------------------
fn buf_line(spec: &str) -> String {
    // ops separated by ';' :  u8:V  push:HEX  taglen:TAG:V  tagged:TAG:HEX  skip:N  reset  mark:D
    let mut b = Buffer::default();
    let mut k = 0usize;
    // the bookmark is only meaningful when it was set after the last reset
    let mut marked = false;
    for op in spec.split(';') {
        let p: Vec<&str> = op.split(':').collect();
        let r = match p[0] {
            "u8" => b.push_u8(p[1].parse().unwrap()),
            "push" => b.push(&unhex(p[1])),
            "taglen" => b.push_tag_len(p[1].parse().unwrap(), p[2].parse().unwrap()),
            "tagged" => b.push_tagged(p[1].parse().unwrap(), &unhex(p[2])),
            "skip" => {
                let n: usize = p[1].parse().unwrap();
                let before = b.len();
                b.skip(n);
                // the skipped cells hold unspecified (stale) memory: overwrite them with the poison marker
                // the model uses, through the same data_mut() the library's callers use
                let added = b.len() - before;
                for x in b.data_mut()[..added].iter_mut() {
                    *x = 0xEE;
                }
                Ok(())
            }
            "reset" => {
                b.reset();
                marked = false;
                Ok(())
            }
            "mark" => {
                b.set_bookmark(p[1].parse().unwrap());
                marked = true;
                Ok(())
            }
            "" => Ok(()),
            _ => panic!("bad buf op"),
        };
        if let Err(e) = r {
            return format!("ERR {} at={}", ename(&e), k);
        }
        k += 1;
    }
    format!(
        "OK len={} free={} mark={} data={}",
        b.len(),
        b.free(),
        if marked { (b.get_bookmark() as u64).to_string() } else { "-".to_string() },
        hex(b.data())
    )
}

fn auth_key(alg: u8) -> Result<AuthKey, SnmpError> {
    AuthKey::new(alg)
}

fn handle(line: &str) -> R {
    let a: Vec<&str> = line.split(' ').collect();
    let cmd = a[0];
    match cmd {
        "hdr" => {
            let d = unhex(a[1]);
            let (rest, h) = BerHeader::from_ber(&d).map_err(nerr)?;
            Ok(format!(
                "OK {} {} {} {} rest={}",
                class_num(h.class),
                b01(h.constructed),
                h.tag,
                h.length,
                hex(rest)
            ))
        }
        "dec_int" => { let d = unhex(a[1]); typed::<SnmpInt>(&d, |v| format!("OK int:{}", i64::from(v))) }
        "dec_bool" => { let d = unhex(a[1]); typed::<SnmpBool>(&d, |v| format!("OK bool:{}", b01(bool::from(v)))) }
        "dec_null" => { let d = unhex(a[1]); typed::<SnmpNull>(&d, |_| "OK null".into()) }
        "dec_oid" => { let d = unhex(a[1]); typed::<SnmpOid>(&d, |v| format!("OK oid:{}", hex(&v.0))) }
        "dec_os" => { let d = unhex(a[1]); typed::<SnmpOctetString>(&d, |v| format!("OK os:{}", hex(v.0))) }
        "dec_od" => { let d = unhex(a[1]); typed::<SnmpObjectDescriptor>(&d, |v| format!("OK od:{}", hex(v.0))) }
        "dec_op" => { let d = unhex(a[1]); typed::<SnmpOpaque>(&d, |v| format!("OK op:{}", hex(v.0))) }
        "dec_seq" => { let d = unhex(a[1]); typed::<SnmpSequence>(&d, |v| format!("OK seq:{}", hex(v.0))) }
        "dec_opt" => { let d = unhex(a[1]); typed::<SnmpOption>(&d, |v| format!("OK opt:{}:{}", v.tag, hex(v.value))) }
        "dec_real" => { let d = unhex(a[1]); typed::<SnmpReal>(&d, |v| format!("OK real:f64:{:016x}", f64::from(v).to_bits())) }
        "dec_ip" => { let d = unhex(a[1]); typed::<SnmpIpAddress>(&d, |v| format!("OK ip:{}", String::from(&v))) }
        "dec_c32" => { let d = unhex(a[1]); typed::<SnmpCounter32>(&d, |v| format!("OK c32:{}", v.0)) }
        "dec_g32" => { let d = unhex(a[1]); typed::<SnmpGauge32>(&d, |v| format!("OK g32:{}", v.0)) }
        "dec_tt" => { let d = unhex(a[1]); typed::<SnmpTimeTicks>(&d, |v| format!("OK tt:{}", v.0)) }
        "dec_u32" => { let d = unhex(a[1]); typed::<SnmpUInteger32>(&d, |v| format!("OK u32:{}", v.0)) }
        "dec_c64" => { let d = unhex(a[1]); typed::<SnmpCounter64>(&d, |v| format!("OK c64:{}", v.0)) }
        "dec_reloid" => {
            let d = unhex(a[1]);
            typed::<SnmpRelativeOid>(&d, |v| {
                let s = format!("{:?}", v);
                let inner = s.trim_start_matches("SnmpRelativeOid([").trim_end_matches("])");
                let b: Vec<u8> = inner.split(", ").filter(|x| !x.is_empty()).map(|x| x.parse().unwrap()).collect();
                format!("OK reloid:{}", hex(&b))
            })
        }
        "value" => {
            let d = unhex(a[1]);
            let (rest, v) = SnmpValue::from_ber(&d).map_err(nerr)?;
            let r = hex(rest);
            Ok(format!("OK {} rest={}", render_value(v), r))
        }
        "pdu" => {
            let d = unhex(a[1]);
            let p = SnmpPdu::try_from(d.as_slice())?;
            Ok(format!("OK {}", render_pdu(p)))
        }
        "msg1" => {
            let d = unhex(a[1]);
            let m = SnmpV1Message::try_from(d.as_slice())?;
            Ok(format!("OK c({}){}", hex(m.community), render_pdu(m.pdu)))
        }
        "msg2" => {
            let d = unhex(a[1]);
            let m = SnmpV2cMessage::try_from(d.as_slice())?;
            Ok(format!("OK c({}){}", hex(m.community), render_pdu(m.pdu)))
        }
        "msg3" => {
            let d = unhex(a[1]);
            let m = SnmpV3Message::try_from(d.as_slice())?;
            let head = format!(
                "v3({},{},{},{};{};",
                m.msg_id,
                b01(m.flag_auth),
                b01(m.flag_priv),
                b01(m.flag_report),
                render_usm(&m.usm)
            );
            let data = match m.data {
                MsgData::Plaintext(s) => render_scoped(s),
                MsgData::Encrypted(x) => format!("enc({})", hex(x)),
            };
            Ok(format!("OK {}{})", head, data))
        }
        "usm" => {
            let d = unhex(a[1]);
            let u = UsmParameters::try_from(d.as_slice())?;
            Ok(format!("OK {}", render_usm(&u)))
        }
        "scoped" => {
            let d = unhex(a[1]);
            let s = ScopedPdu::try_from(d.as_slice())?;
            Ok(format!("OK {}", render_scoped(s)))
        }
        "oid_parse" => {
            let d = unhex(a[1]);
            let t = String::from_utf8_lossy(&d).to_string();
            let o = SnmpOid::try_from(t.as_str())?;
            Ok(format!("OK {}", hex(&o.0)))
        }
        "oid_print" => {
            let o = SnmpOid::from(unhex(a[1]));
            let s = String::try_from(&o)?;
            Ok(format!("OK {}", hex(s.as_bytes())))
        }
        "enc_int" => {
            let v: i64 = a[1].parse().unwrap();
            let mut b = Buffer::default();
            SnmpInt::from(v).push_ber(&mut b)?;
            Ok(format!("OK {}", hex(b.data())))
        }
        "enc_oid" => {
            let mut b = Buffer::default();
            SnmpOid::from(unhex(a[1])).push_ber(&mut b)?;
            Ok(format!("OK {}", hex(b.data())))
        }
        "buf" => Ok(buf_line(a[1])),
        "emit_pdu" => {
            let mut b = Buffer::default();
            build_pdu(a[1]).push_ber(&mut b)?;
            Ok(format!("OK {}", hex(b.data())))
        }
        "emit1" | "emit2" => {
            // emit1 <community hex> <pdu spec> [<prefill octets>]
            let c = unhex(a[1]);
            let mut b = Buffer::default();
            let pdu = build_pdu(a[2]);
            if cmd == "emit1" {
                SnmpV1Message { community: &c, pdu }.push_ber(&mut b)?;
            } else {
                SnmpV2cMessage { community: &c, pdu }.push_ber(&mut b)?;
            }
            Ok(format!("OK {}", hex(b.data())))
        }
        "emit3" => {
            // emit3 <msgid> <a><p><r> <eid> <boots> <time> <user> <auth> <priv> plain:<ctxeid>:<pduspec...> | enc:<hex>
            let msg_id: i64 = a[1].parse().unwrap();
            let f: Vec<char> = a[2].chars().collect();
            let eid = unhex(a[3]);
            let user = unhex(a[6]);
            let auth = unhex(a[7]);
            let pp = unhex(a[8]);
            let (kind, restspec) = a[9].split_once(':').unwrap();
            let ctx;
            let enc;
            let data = if kind == "plain" {
                let (c, spec) = restspec.split_once(':').unwrap();
                ctx = unhex(c);
                MsgData::Plaintext(ScopedPdu { engine_id: &ctx, pdu: build_pdu(spec) })
            } else {
                enc = unhex(restspec);
                MsgData::Encrypted(&enc)
            };
            let m = SnmpV3Message {
                msg_id,
                flag_auth: f[0] == '1',
                flag_priv: f[1] == '1',
                flag_report: f[2] == '1',
                usm: UsmParameters {
                    engine_id: &eid,
                    engine_boots: a[4].parse().unwrap(),
                    engine_time: a[5].parse().unwrap(),
                    user_name: &user,
                    auth_params: &auth,
                    privacy_params: &pp,
                },
                data,
            };
            let mut b = Buffer::default();
            m.push_ber(&mut b)?;
            let bm = if auth.is_empty() { 0 } else { b.get_bookmark() as u64 };
            Ok(format!("OK {} mark={}", hex(b.data()), bm))
        }
        "op" => Ok(op_line(&a[1..])),
        "walk" => Ok(walk_line(&a[1..])),
        // ---- keys and signatures ----
        "p2m" => {
            // p2m <alg code> <password hex>  (AuthKey::password_to_master as util::get_master_key calls it)
            let auth = auth_key(a[1].parse().unwrap())?;
            let pw = unhex(a[2]);
            let mut out = vec![0u8; auth.get_key_size()];
            auth.password_to_master(&pw, &mut out);
            Ok(format!("OK {}", hex(&out)))
        }
        "localize" => {
            let auth = auth_key(a[1].parse().unwrap())?;
            let k = unhex(a[2]);
            let e = unhex(a[3]);
            let mut out = vec![0u8; auth.get_key_size()];
            auth.localize(&k, &e, &mut out);
            Ok(format!("OK {}", hex(&out)))
        }
        "reqid" => {
            // reqid <state> <n>: place the id generator (verification hook of /repo), draw n ids; the last one is then
            // compared through RequestId::check with itself and with values that differ above bit 30
            let mut r = crate::reqid::RequestId::default();
            /*REQID_HOOK*/
            let n: usize = a[2].parse().unwrap();
            let mut ids: Vec<i64> = vec![];
            for _ in 0..n {
                ids.push(r.get_next());
            }
            let last = *ids.last().unwrap();
            let ck = |v: i64| if r.check(v) { "1" } else { "0" };
            Ok(format!("OK ids={} same={} plus31={} minus31={} plus32={} neg={}",
                ids.iter().map(|x| x.to_string()).collect::<Vec<_>>().join(","),
                ck(last), ck(last + (1i64 << 31)), ck(last - (1i64 << 31)), ck(last + (1i64 << 32)), ck(-last - 1)))
        }
        "keytype" => {
            // keytype <auth alg code> <code with key-type bits> <key hex> <engine id hex>
            let mut auth = auth_key(a[1].parse().unwrap())?;
            auth.as_key_type(a[2].parse().unwrap(), &unhex(a[3]), &unhex(a[4]))?;
            Ok(format!("OK {}", hex(auth.get_key())))
        }
        "sign" => {
            // sign <alg> <localized key hex> <message hex> <offset>
            let alg: u8 = a[1].parse().unwrap();
            let mut auth = auth_key(alg)?;
            auth.as_key_type(alg | 0x80, &unhex(a[2]), &[])?;
            let mut m = unhex(a[3]);
            auth.sign(&mut m, a[4].parse().unwrap())?;
            Ok(format!("OK {}", hex(&m)))
        }
        "priv" => {
            // priv <alg> <localized key hex> <op>|<op>...   op = e,<ctxeid>,<pduspec>,<boots>,<time>  or
            //                                                     d,<privparams>,<boots>,<time>,<datahex>
            let mut pk = PrivKey::new(a[1].parse().unwrap())?;
            pk.as_localized(&unhex(a[2]))?;
            let mut outs: Vec<String> = vec![];
            for op in a[3].split('|') {
                let p: Vec<&str> = op.split(',').collect();
                if p[0] == "s" {
                    // s,<value>: place the salt counter through the verification hook of /repo (--cfg gufo_snmp_verif)
                    /*SALT_HOOK*/
                    continue;
                }
                if p[0] == "e" {
                    let ctx = unhex(p[1]);
                    let spdu = ScopedPdu { engine_id: &ctx, pdu: build_pdu(p[2]) };
                    match pk.encrypt(&spdu, p[3].parse().unwrap(), p[4].parse().unwrap()) {
                        Ok((ct, pp)) => outs.push(format!("E {} {}", hex(ct), hex(pp))),
                        Err(e) => outs.push(format!("ERR {}", ename(&e))),
                    }
                } else {
                    let pp = unhex(p[1]);
                    let data = unhex(p[4]);
                    let usm = UsmParameters {
                        engine_id: &[],
                        engine_boots: p[2].parse().unwrap(),
                        engine_time: p[3].parse().unwrap(),
                        user_name: &[],
                        auth_params: &[],
                        privacy_params: &pp,
                    };
                    match pk.decrypt(&data, &usm) {
                        Ok(s) => outs.push(format!("D {}", render_scoped(s))),
                        Err(e) => outs.push(format!("ERR {}", ename(&e))),
                    }
                }
            }
            Ok(format!("OK {}", outs.join(" | ")))
        }
        _ => Ok("HARNESS-ERROR unknown command".into()),
    }
}

fn main() {
    if std::env::var("GS_VERBOSE").is_err() {
        std::panic::set_hook(Box::new(|_| {}));
    }
    pyo3::prepare_freethreaded_python();
    let stdin = std::io::stdin();
    let stdout = std::io::stdout();
    let mut out = std::io::BufWriter::new(stdout.lock());
    for line in stdin.lock().lines() {
        let line = line.unwrap();
        let line = line.trim();
        let r = catch_unwind(AssertUnwindSafe(|| handle(line)));
        let s = match r {
            Ok(Ok(s)) => s,
            Ok(Err(e)) => format!("ERR {}", ename(&e)),
            Err(_) => "PANIC".to_string(),
        };
        writeln!(out, "{}", s).unwrap();
    }
    out.flush().unwrap();
}

(* Extraction of the rate-limiter model for the correspondence check (ExtrOcamlBasic only). *)
From Coq Require Import Extraction ExtrOcamlBasic ZArith List.
From GS Require Import Gen.Policer Model.PolicerRun.
Extraction Language OCaml.
Extraction "../ocaml/policer_model.ml" history history_sleeps init get_timeout
  Z.add Z.mul Z.sub Z.opp Z.div_eucl Z.of_nat Z.compare.

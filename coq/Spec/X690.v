(* Reference semantics, independent of the buffer-level code: X.690 definite-length TLV, minimal two's
   complement INTEGER, base-128 OID sub-identifiers, and the SNMP request messages built from them
   (RFC 1157 / 3416 / 3412 / 3414 layouts). *)
From GS Require Import Model.Base.

(* value of an octet string read as unsigned / two's complement big-endian *)
Fixpoint uval (bs : bytes) : Z :=
  match bs with [] => 0 | b :: r => b * 256 ^ Z.of_nat (length r) + uval r end.
Definition sval (bs : bytes) : Z :=
  match bs with [] => 0 | b :: _ => if b <? 128 then uval bs else uval bs - 256 ^ Z.of_nat (length bs) end.

(* n-octet two's complement of v, most significant first *)
Fixpoint be_bytes (n : nat) (v : Z) : bytes :=
  match n with O => [] | S k => be_bytes k (v / 256) ++ [v mod 256] end.
(* least n >= 1 with -2^(8n-1) <= v < 2^(8n-1), searched up to 9 *)
Fixpoint min_octets_from (fuel : nat) (n : nat) (v : Z) : nat :=
  match fuel with
  | O => n
  | S f => if (- 2 ^ (8 * Z.of_nat n - 1) <=? v) && (v <? 2 ^ (8 * Z.of_nat n - 1)) then n
           else min_octets_from f (S n) v
  end.
Definition min_octets (v : Z) : nat := min_octets_from 9 1 v.
Definition min_twos (v : Z) : bytes := be_bytes (min_octets v) v.

(* definite length octets, minimal form (lengths below 65536) *)
Definition enc_len (n : Z) : bytes :=
  if n <? 128 then [n] else if n <? 256 then [129; n] else [130; n / 256; n mod 256].
Definition tlv (tag : Z) (content : bytes) : bytes := tag :: enc_len (len content) ++ content.

Definition enc_int (v : Z) : bytes := tlv 2 (min_twos v).
Definition enc_octets (b : bytes) : bytes := tlv 4 b.
Definition enc_oid (content : bytes) : bytes := tlv 6 content.
Definition enc_null : bytes := [5; 0].

(* OID content octets from arcs *)
Fixpoint base128_from (fuel : nat) (s : Z) (last : bool) (acc : bytes) : bytes :=
  match fuel with
  | O => acc
  | S f => let d := s mod 128 + (if last then 0 else 128) in
           if s <? 128 then d :: acc else base128_from f (s / 128) false (d :: acc)
  end.
Definition base128 (s : Z) : bytes := base128_from 10 s true [].
Definition oid_content (arcs : list Z) : bytes :=
  match arcs with
  | a :: b :: r => base128 (40 * a + b) ++ concat (map base128 r)
  | _ => []
  end.

(* request PDUs: every requested OID bound to NULL, in order *)
Definition enc_varbind (oid : bytes) : bytes := tlv 48 (enc_oid oid ++ enc_null).
Definition enc_varbinds (oids : list bytes) : bytes := tlv 48 (concat (map enc_varbind oids)).
Inductive req :=
| RGet (request_id : Z) (oids : list bytes)
| RGetNext (request_id : Z) (oids : list bytes)
| RGetBulk (request_id non_repeaters max_repetitions : Z) (oids : list bytes).
Definition enc_req (r : req) : bytes :=
  match r with
  | RGet id oids => tlv 160 (enc_int id ++ enc_int 0 ++ enc_int 0 ++ enc_varbinds oids)
  | RGetNext id oids => tlv 161 (enc_int id ++ enc_int 0 ++ enc_int 0 ++ enc_varbinds oids)
  | RGetBulk id nr mr oids => tlv 165 (enc_int id ++ enc_int nr ++ enc_int mr ++ enc_varbinds oids)
  end.

(* community-based message (v1: version 0, v2c: version 1) *)
Definition enc_cmsg (version : Z) (community : bytes) (r : req) : bytes :=
  tlv 48 (enc_int version ++ enc_octets community ++ enc_req r).

(* SNMPv3 message with USM security parameters *)
Record usm_fields := { uf_engine_id : bytes; uf_boots : Z; uf_time : Z; uf_user : bytes;
                       uf_auth : bytes; uf_priv : bytes }.
Definition enc_usm (u : usm_fields) : bytes :=
  tlv 48 (enc_octets (uf_engine_id u) ++ enc_int (uf_boots u) ++ enc_int (uf_time u) ++
          enc_octets (uf_user u) ++ enc_octets (uf_auth u) ++ enc_octets (uf_priv u)).
Definition enc_scoped (ctx_engine_id : bytes) (r : req) : bytes :=
  tlv 48 (enc_octets ctx_engine_id ++ enc_octets [] ++ enc_req r).
Definition enc_v3 (msg_id max_size flags : Z) (u : usm_fields) (msg_data : bytes) : bytes :=
  tlv 48 (enc_int 3 ++
          tlv 48 (enc_int msg_id ++ enc_int max_size ++ enc_octets [flags] ++ enc_int 3) ++
          enc_octets (enc_usm u) ++ msg_data).

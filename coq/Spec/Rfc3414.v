(* Reference definitions for the User-based Security Model: RFC 2104 HMAC, RFC 3414 A.2 key derivation,
   RFC 3414 8.1.1.1 (DES-CBC salt / IV), RFC 3826 3.1 (AES-128-CFB IV).  Independent of the model of the code. *)
From GS Require Import Model.Base.

Section Hash.
  Variable H : bytes -> bytes.        (* the digest function; block size 64 octets *)

  Fixpoint zero_bytes (n : nat) : bytes := match n with O => [] | S k => 0 :: zero_bytes k end.
  Definition xor_with (c : Z) (l : bytes) : bytes := map (fun x => Z.lxor x c) l.

  (* RFC 2104 for a key of at most 64 octets: H((K0 xor opad) || H((K0 xor ipad) || text)), K0 = key zero-extended to 64 *)
  Definition hmac (key text : bytes) : bytes :=
    let k0 := key ++ zero_bytes (64 - length key) in
    H (xor_with 92 k0 ++ H (xor_with 54 k0 ++ text)).
  (* HMAC-MD5-96 / HMAC-SHA-96: the first 12 octets *)
  Definition hmac96 (key text : bytes) : bytes := firstn 12 (hmac key text).

  (* RFC 3414 A.2: the digest of the first 1048576 octets of the password repeated forever *)
  Fixpoint cycle_from (n : nat) (pw cur : bytes) : bytes :=
    match n with
    | O => []
    | S k => match cur with
             | x :: r => x :: cycle_from k pw r
             | [] => match pw with x :: r => x :: cycle_from k pw r | [] => [] end
             end
    end.
  Definition take_cycle (n : nat) (pw : bytes) : bytes := cycle_from n pw pw.
  Definition password_to_key (pw : bytes) : bytes := H (take_cycle (Z.to_nat 1048576) pw).
  Definition localize_key (ku engine_id : bytes) : bytes := H (ku ++ engine_id ++ ku).
End Hash.

(* 32/64-bit big-endian *)
Definition be32_spec (v : Z) : bytes := [v / 16777216 mod 256; v / 65536 mod 256; v / 256 mod 256; v mod 256].
Definition be64_spec (v : Z) : bytes := be32_spec (v / 4294967296 mod 4294967296) ++ be32_spec (v mod 4294967296).

(* RFC 3414 8.1.1.1: DES key = first 8 octets of the localized key, pre-IV = next 8; salt = boots || counter;
   IV = pre-IV xor salt.  RFC 3826 3.1.2.1: AES IV = boots || time || 64-bit salt, key = first 16 octets *)
Definition des_key (localized : bytes) : bytes := firstn 8 localized.
Definition des_pre_iv (localized : bytes) : bytes := firstn 8 (skipn 8 localized).
Definition des_salt (boots counter : Z) : bytes := be32_spec boots ++ be32_spec counter.
Definition des_iv (localized salt : bytes) : bytes := map (fun p => Z.lxor (fst p) (snd p)) (combine salt (des_pre_iv localized)).
Definition aes_key (localized : bytes) : bytes := firstn 16 localized.
Definition aes_iv (boots time : Z) (salt : bytes) : bytes := be32_spec boots ++ be32_spec time ++ salt.

(* A reference SNMP agent over a finite MIB (RFC 3416 4.2.2 GetNext, 4.2.3 GetBulk; RFC 1157 for v1),
   used as the environment of the walk theorems (C05).  OIDs are lists of sub-identifiers; the first
   sub-identifier is 40*arc1+arc2 as X.690 prescribes. *)
From GS Require Import Model.Base Model.Ber Model.Pdu Model.OidText Spec.X690.

Definition subs := list Z.

(* lexicographic order on sub-identifier lists *)
Fixpoint subs_lt (a b : subs) : bool :=
  match a, b with
  | [], [] => false
  | [], _ :: _ => true
  | _ :: _, [] => false
  | x :: a', y :: b' => if x <? y then true else if y <? x then false else subs_lt a' b'
  end.
Fixpoint subs_prefix (p l : subs) : bool :=
  match p, l with
  | [], _ => true
  | x :: p', y :: l' => (x =? y) && subs_prefix p' l'
  | _ :: _, [] => false
  end.
(* strictly below base *)
Definition in_subtree (base o : subs) : bool := subs_prefix base o && negb (length o =? length base)%nat.

Definition enc_subs (s : subs) : bytes := concat (map base128 s).

Definition mib := list (subs * value).      (* sorted strictly by subs_lt, data values only *)

Fixpoint mib_next (m : mib) (o : subs) : option (subs * value) :=
  match m with
  | [] => None
  | (k, v) :: r => if subs_lt o k then Some (k, v) else mib_next r o
  end.
Fixpoint mib_after (m : mib) (o : subs) : mib :=
  match m with
  | [] => []
  | (k, v) :: r => if subs_lt o k then m else mib_after r o
  end.

Definition mk_response (vars : list varbind) : pdu :=
  PGetResponse {| gr_request_id := 0; gr_error_status := 0; gr_error_index := 0; gr_vars := vars |}.
Definition vb (k : subs) (v : value) : varbind := {| vb_oid := enc_subs k; vb_value := v |}.

(* GetNext: the next entry; at the end v2c/v3 answer endOfMibView bound to the requested name,
   v1 answers noSuchName echoing the request (name bound to NULL) *)
Definition agent_getnext (v1 : bool) (m : mib) (req : subs) : pdu :=
  match mib_next m req with
  | Some (k, v) => mk_response [vb k v]
  | None => if v1
            then PGetResponse {| gr_request_id := 0; gr_error_status := 2; gr_error_index := 1;
                                 gr_vars := [vb req VNull] |}
            else mk_response [vb req VEndOfMibView]
  end.

(* GetBulk with non-repeaters 0 and one repeater: up to min(max_rep, cap) successors; when the MIB ends
   inside the reply one endOfMibView follows (bound to the last name), and the agent may or may not
   pad with further endOfMibView varbinds *)
Fixpoint repeat_eomv (n : nat) (k : subs) : list varbind :=
  match n with O => [] | S n' => vb k VEndOfMibView :: repeat_eomv n' k end.
Definition agent_getbulk (m : mib) (req : subs) (max_rep cap : nat) (pad : nat) : pdu :=
  let n := Nat.min max_rep cap in
  let succ := firstn n (mib_after m req) in
  let last := match rev succ with (k, _) :: _ => k | [] => req end in
  let short := (length succ <? n)%nat in
  mk_response (map (fun kv => vb (fst kv) (snd kv)) succ ++
               (if short then repeat_eomv (S (Nat.min pad (n - length succ - 1))) last else [])).

Definition subtree (m : mib) (base : subs) : mib := filter (fun kv => in_subtree base (fst kv)) m.

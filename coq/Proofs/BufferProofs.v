(* C17: the back-to-front buffer of Model/Buffer.v.  Invariant, "emits" characterisation of every
   primitive (exact octets and exact out-of-buffer condition), composition lemmas, written-bytes hygiene. *)
From GS Require Import Model.Base Gen.Constants Model.Ber Model.Pdu Model.Buffer Spec.X690 Proofs.BufLemmas.
From Coq Require Import ZifyBool.

Definition Inv (b : buffer) : Prop := blen b <= BUF_MAX_SIZE.

(* if the octets [s] fit the free space they are prepended, the bookmark becomes [bm], nothing else
   changes; otherwise the result is exactly Err OutOfBuffer *)
Definition emits (b : buffer) (s : bytes) (bm : Z) : res buffer :=
  if len s <=? pos b then Ok {| data := s ++ data b; bookmark := bm |} else Err OutOfBuffer.

(* the buffer after [s] has been prepended *)
Definition grow (b : buffer) (s : bytes) (bm : Z) : buffer := {| data := s ++ data b; bookmark := bm |}.

(* ------------------------------------------------------------------ *)
(* basic facts *)

Lemma blen_nonneg : forall b, 0 <= blen b.
Proof. intros b. unfold blen. apply len_nonneg. Qed.

Lemma pos_le_max : forall b, pos b <= BUF_MAX_SIZE.
Proof. intros b. unfold pos. pose proof (blen_nonneg b). lia. Qed.

Lemma Inv_pos : forall b, Inv b <-> 0 <= pos b.
Proof. intros b. unfold Inv, pos. lia. Qed.

Lemma Inv_pos_range : forall b, Inv b -> 0 <= pos b <= BUF_MAX_SIZE.
Proof. intros b H. apply Inv_pos in H. pose proof (pos_le_max b). lia. Qed.

Lemma Inv_empty : Inv empty_buffer.
Proof. unfold Inv, blen, empty_buffer, BUF_MAX_SIZE. cbn [data]. rewrite len_nil. lia. Qed.

Lemma data_grow : forall b s bm, data (grow b s bm) = s ++ data b.
Proof. reflexivity. Qed.

Lemma bookmark_grow : forall b s bm, bookmark (grow b s bm) = bm.
Proof. reflexivity. Qed.

Lemma blen_grow : forall b s bm, blen (grow b s bm) = len s + blen b.
Proof. intros b s bm. unfold blen. rewrite data_grow, len_app. reflexivity. Qed.

(* the fact requested in A3, on the literal record *)
Lemma blen_mk_app : forall b s bm, blen {| data := s ++ data b; bookmark := bm |} = len s + blen b.
Proof. exact blen_grow. Qed.

Lemma blen_grow_sub : forall b s bm, blen (grow b s bm) - blen b = len s.
Proof. intros b s bm. rewrite blen_grow. lia. Qed.

Lemma pos_grow : forall b s bm, pos (grow b s bm) = pos b - len s.
Proof. intros b s bm. unfold pos. rewrite blen_grow. lia. Qed.

Lemma grow_grow : forall b c1 bm1 c2 bm2, grow (grow b c1 bm1) c2 bm2 = grow b (c2 ++ c1) bm2.
Proof. intros b c1 bm1 c2 bm2. unfold grow. cbn [data]. rewrite app_assoc. reflexivity. Qed.

Lemma grow_nil : forall b, grow b [] (bookmark b) = b.
Proof. intros [d bm]. reflexivity. Qed.

Lemma Inv_grow : forall b s bm, len s <= pos b -> Inv (grow b s bm).
Proof. intros b s bm H. unfold Inv. rewrite blen_grow. unfold pos in H. lia. Qed.

Lemma Inv_mk_app : forall b s bm, len s <= pos b -> Inv {| data := s ++ data b; bookmark := bm |}.
Proof. exact Inv_grow. Qed.

(* ------------------------------------------------------------------ *)
(* emits *)

Lemma emits_ok : forall b s bm, len s <= pos b -> emits b s bm = Ok (grow b s bm).
Proof. intros b s bm H. unfold emits, grow. destruct (len s <=? pos b) eqn:E; [reflexivity|lia]. Qed.

Lemma emits_err : forall b s bm, pos b < len s -> emits b s bm = Err OutOfBuffer.
Proof. intros b s bm H. unfold emits. destruct (len s <=? pos b) eqn:E; [lia|reflexivity]. Qed.

Lemma emits_cases : forall b s bm,
  (len s <= pos b /\ emits b s bm = Ok (grow b s bm)) \/ (pos b < len s /\ emits b s bm = Err OutOfBuffer).
Proof.
  intros b s bm. destruct (Z_le_gt_dec (len s) (pos b)) as [H|H].
  - left. split; [exact H|apply emits_ok; exact H].
  - right. split; [lia|apply emits_err; lia].
Qed.

(* whenever [emits] succeeds the octets fit: in particular their number is at most BUF_MAX_SIZE,
   which discharges every "< 65536" side condition of inner TLVs *)
Lemma emits_ok_inv : forall b s bm b', emits b s bm = Ok b' ->
  b' = grow b s bm /\ len s <= pos b /\ len s <= BUF_MAX_SIZE.
Proof.
  intros b s bm b' H. destruct (emits_cases b s bm) as [[Hf He]|[Hf He]]; rewrite He in H.
  - inversion H. subst b'. pose proof (pos_le_max b). repeat split; lia.
  - discriminate.
Qed.

(* stated with the widest bound the two-octet long form allows, so that it survives another buffer size *)
Lemma emits_ok_len : forall b s bm b', emits b s bm = Ok b' -> len s <= 65535.
Proof. intros b s bm b' H. apply emits_ok_inv in H. unfold BUF_MAX_SIZE in H. lia. Qed.

Lemma emits_ok_Inv : forall b s bm b', emits b s bm = Ok b' -> Inv b'.
Proof. intros b s bm b' H. apply emits_ok_inv in H. destruct H as (-> & Hf & _). apply Inv_grow. exact Hf. Qed.

Lemma emits_ok_data : forall b s bm b', emits b s bm = Ok b' -> data b' = s ++ data b /\ bookmark b' = bm.
Proof. intros b s bm b' H. apply emits_ok_inv in H. destruct H as (-> & _ & _). split; reflexivity. Qed.

Lemma emits_not_panic : forall b s bm, emits b s bm <> Panic.
Proof. intros b s bm. unfold emits. destruct (len s <=? pos b); discriminate. Qed.

Lemma emits_err_inv : forall b s bm e, emits b s bm = Err e -> e = OutOfBuffer /\ pos b < len s.
Proof.
  intros b s bm e H. destruct (emits_cases b s bm) as [[Hf He]|[Hf He]]; rewrite He in H.
  - discriminate.
  - inversion H. split; [reflexivity|exact Hf].
Qed.

Lemma emits_nil : forall b, Inv b -> emits b [] (bookmark b) = Ok b.
Proof.
  intros b Hb. rewrite emits_ok by (rewrite len_nil; apply Inv_pos; exact Hb).
  rewrite grow_nil. reflexivity.
Qed.

(* re-basing: emitting on top of already emitted octets *)
Lemma emits_grow : forall b c bmc s bm, len c <= pos b -> emits (grow b c bmc) s bm = emits b (s ++ c) bm.
Proof.
  intros b c bmc s bm Hc.
  destruct (Z_le_gt_dec (len s) (pos b - len c)) as [H|H].
  - rewrite !emits_ok by (rewrite ?pos_grow, ?len_app; lia). rewrite grow_grow. reflexivity.
  - rewrite !emits_err by (rewrite ?pos_grow, ?len_app; lia). reflexivity.
Qed.

Lemma emits_eq : forall (r : res buffer) b s' bm' s bm, r = emits b s' bm' -> s' = s -> bm' = bm -> r = emits b s bm.
Proof. intros r b s' bm' s bm H -> ->. exact H. Qed.

(* ------------------------------------------------------------------ *)
(* A3: composition *)

Lemma emits_bind_grow : forall b s1 bm1 (k : buffer -> res buffer) s2 bm,
  (len s1 <= pos b -> k (grow b s1 bm1) = emits (grow b s1 bm1) s2 bm) ->
  bind (emits b s1 bm1) k = emits b (s2 ++ s1) bm.
Proof.
  intros b s1 bm1 k s2 bm Hk.
  destruct (emits_cases b s1 bm1) as [[Hf He]|[Hf He]]; rewrite He; cbn [bind].
  - rewrite (Hk Hf). apply emits_grow. exact Hf.
  - rewrite emits_err; [reflexivity|]. rewrite len_app. pose proof (len_nonneg s2). lia.
Qed.

Lemma emits_bind : forall b s1 bm1 (k : buffer -> res buffer) s2 bm2,
  (forall b1, b1 = {| data := s1 ++ data b; bookmark := bm1 |} -> Inv b1 -> len s1 <= pos b ->
              k b1 = emits b1 s2 bm2) ->
  bind (emits b s1 bm1) k = emits b (s2 ++ s1) bm2.
Proof.
  intros b s1 bm1 k s2 bm2 Hk. apply emits_bind_grow. intros Hf.
  apply Hk; [reflexivity|apply Inv_grow; exact Hf|exact Hf].
Qed.

(* accumulating form: the current buffer is [grow b c _] for the original [b] *)
Lemma emits_bind_acc : forall b c bmc s1 bm1 (k : buffer -> res buffer) s2 bm,
  len c <= pos b ->
  (len (s1 ++ c) <= pos b -> k (grow b (s1 ++ c) bm1) = emits (grow b (s1 ++ c) bm1) s2 bm) ->
  bind (emits (grow b c bmc) s1 bm1) k = emits (grow b c bmc) (s2 ++ s1) bm.
Proof.
  intros b c bmc s1 bm1 k s2 bm Hc Hk. apply emits_bind_grow. intros Hf.
  rewrite pos_grow in Hf. rewrite !grow_grow.
  assert (Hf' : len (s1 ++ c) <= pos b) by (rewrite len_app; lia).
  rewrite (Hk Hf'). reflexivity.
Qed.

Lemma emits_bind_ret : forall b s bm, bind (emits b s bm) (fun b' => Ok b') = emits b s bm.
Proof. intros. apply bind_ret. Qed.

(* ------------------------------------------------------------------ *)
(* A2: the primitives *)

Lemma with_data_grow : forall b s, with_data b (s ++ data b) = grow b s (bookmark b).
Proof. reflexivity. Qed.

Theorem push_emits : forall b c, push b c = emits b c (bookmark b).
Proof.
  intros b c. unfold push, emits, with_data.
  destruct (pos b <? len c) eqn:E1; destruct (len c <=? pos b) eqn:E2; try lia; reflexivity.
Qed.

Theorem push_u8_emits : forall b v, Inv b -> push_u8 b v = emits b [v] (bookmark b).
Proof.
  intros b v Hb. apply Inv_pos in Hb. unfold push_u8, emits, with_data.
  change (len [v]) with 1.
  destruct (pos b =? 0) eqn:E1; destruct (1 <=? pos b) eqn:E2; try lia; reflexivity.
Qed.

Lemma enc_len_len : forall v, 1 <= len (enc_len v) <= 3.
Proof.
  intros v. unfold enc_len. destruct (v <? 128); [|destruct (v <? 256)].
  - change (len [v]) with 1. lia.
  - change (len [129; v]) with 2. lia.
  - change (len [130; v / 256; v mod 256]) with 3. lia.
Qed.

(* Inv b is not needed for this one (kept out of the general form) *)
Lemma push_tag_len_emits_gen : forall b tag v, 0 <= v < 65536 ->
  push_tag_len b tag v = emits b (tag :: enc_len v) (bookmark b).
Proof.
  intros b tag v Hv. unfold push_tag_len, enc_len, emits, with_data.
  destruct (v <? 128) eqn:E1; [|destruct (v <? 256) eqn:E2].
  - change (len [tag; v]) with 2. rewrite wrap8_small by lia.
    destruct (pos b <? 2) eqn:F1; destruct (2 <=? pos b) eqn:F2; try lia; reflexivity.
  - change (len [tag; 129; v]) with 3. rewrite wrap8_small by lia.
    destruct (pos b <? 3) eqn:F1; destruct (3 <=? pos b) eqn:F2; try lia; reflexivity.
  - change (len [tag; 130; v / 256; v mod 256]) with 4.
    rewrite wrap8_shiftr by lia. rewrite wrap8_mod.
    destruct (pos b <? 4) eqn:F1; destruct (4 <=? pos b) eqn:F2; try lia; reflexivity.
Qed.

Theorem push_tag_len_emits : forall b tag v, Inv b -> 0 <= v < 65536 -> 0 <= tag ->
  push_tag_len b tag v = emits b (tag :: enc_len v) (bookmark b).
Proof. intros b tag v _ Hv _. apply push_tag_len_emits_gen. exact Hv. Qed.

Lemma tlv_split : forall tag c, tlv tag c = (tag :: enc_len (len c)) ++ c.
Proof. reflexivity. Qed.

Lemma len_tlv : forall tag c, len (tlv tag c) = 1 + len (enc_len (len c)) + len c.
Proof. intros tag c. unfold tlv. rewrite len_cons, len_app. lia. Qed.

Lemma len_tlv_gt : forall tag c, len c + 2 <= len (tlv tag c).
Proof. intros tag c. rewrite len_tlv. pose proof (enc_len_len (len c)). lia. Qed.

(* TLV wrapping: `let start = buf.len(); ...content...; buf.push_tag_len(tag, buf.len() - start)`.
   The measured length is the content length because the buffer only grows, and it is below 65536
   because it fits the buffer. *)
Lemma wrap_emits : forall b c bm tag,
  bind (emits b c bm) (fun b' => push_tag_len b' tag (blen b' - blen b)) = emits b (tlv tag c) bm.
Proof.
  intros b c bm tag. rewrite tlv_split. apply emits_bind_grow. intros Hf.
  rewrite blen_grow_sub.
  pose proof (pos_le_max b) as Hp. unfold BUF_MAX_SIZE in Hp. pose proof (len_nonneg c).
  rewrite push_tag_len_emits_gen by lia. rewrite bookmark_grow. reflexivity.
Qed.

(* the same, when the current buffer is already [grow b c bm] *)
Lemma wrap_end_emits : forall b c bm tag, len c <= pos b ->
  push_tag_len (grow b c bm) tag (blen (grow b c bm) - blen b) = emits (grow b c bm) (tag :: enc_len (len c)) bm.
Proof.
  intros b c bm tag Hf. rewrite blen_grow_sub.
  pose proof (pos_le_max b) as Hp. unfold BUF_MAX_SIZE in Hp. pose proof (len_nonneg c).
  rewrite push_tag_len_emits_gen by lia. rewrite bookmark_grow. reflexivity.
Qed.

(* the hypothesis `len d < 65536` of the requested statement is not needed: longer data never fit *)
Lemma push_tagged_emits_gen : forall b tag d, push_tagged b tag d = emits b (tlv tag d) (bookmark b).
Proof.
  intros b tag d. unfold push_tagged. rewrite push_emits.
  rewrite <- (wrap_emits b d (bookmark b) tag).
  destruct (emits_cases b d (bookmark b)) as [[Hf He]|[Hf He]]; rewrite He; cbn [bind]; [|reflexivity].
  rewrite blen_grow_sub. reflexivity.
Qed.

Theorem push_tagged_emits : forall b tag d, Inv b -> len d < 65536 ->
  push_tagged b tag d = emits b (tlv tag d) (bookmark b).
Proof. intros b tag d _ _. apply push_tagged_emits_gen. Qed.

(* ------------------------------------------------------------------ *)
(* A1: the invariant *)

Lemma Inv_with_data : forall b d, len d <= BUF_MAX_SIZE -> Inv (with_data b d).
Proof. intros b d H. unfold Inv, blen, with_data. cbn [data]. exact H. Qed.

Lemma push_u8_Inv : forall b v b', Inv b -> push_u8 b v = Ok b' -> Inv b'.
Proof. intros b v b' Hb H. rewrite push_u8_emits in H by exact Hb. eapply emits_ok_Inv; eassumption. Qed.

Lemma push_Inv : forall b c b', push b c = Ok b' -> Inv b'.
Proof. intros b c b' H. rewrite push_emits in H. eapply emits_ok_Inv; eassumption. Qed.

(* any tag, any length value (even out of the u16 range) *)
Lemma push_tag_len_Inv : forall b tag v b', push_tag_len b tag v = Ok b' -> Inv b'.
Proof.
  intros b tag v b' H. unfold push_tag_len in H.
  assert (Hp : pos b = BUF_MAX_SIZE - len (data b)) by reflexivity.
  destruct (v <? 128); [|destruct (v <? 256)].
  - destruct (pos b <? 2) eqn:F; [discriminate|]. inversion H. apply Inv_with_data. rewrite !len_cons. lia.
  - destruct (pos b <? 3) eqn:F; [discriminate|]. inversion H. apply Inv_with_data. rewrite !len_cons. lia.
  - destruct (pos b <? 4) eqn:F; [discriminate|]. inversion H. apply Inv_with_data. rewrite !len_cons. lia.
Qed.

Lemma push_tagged_Inv : forall b tag d b', push_tagged b tag d = Ok b' -> Inv b'.
Proof.
  intros b tag d b' H. unfold push_tagged in H.
  destruct (push b d) as [b1|e|] eqn:E; cbn [bind] in H; try discriminate.
  eapply push_tag_len_Inv; eassumption.
Qed.

Lemma set_bookmark_Inv : forall b d, Inv b -> Inv (set_bookmark b d).
Proof. intros b d H. exact H. Qed.

Lemma len_poison : forall k, len (poison k) = Z.of_nat k.
Proof. intros k. unfold len. f_equal. induction k as [|k IH]; cbn [poison length]; [reflexivity|rewrite IH; reflexivity]. Qed.

(* any size: negative, zero, larger than the free space *)
Lemma skip_Inv : forall b n, Inv b -> Inv (skip b n).
Proof.
  intros b n Hb. unfold skip. apply Inv_with_data. rewrite len_app, len_poison.
  apply Inv_pos in Hb. unfold pos, blen in *. lia.
Qed.

Lemma reset_Inv : forall b, Inv (reset b).
Proof. intros b. unfold reset. apply Inv_with_data. rewrite len_nil. unfold BUF_MAX_SIZE. lia. Qed.

Inductive bop :=
| OpU8 (v : Z) | OpPush (c : bytes) | OpTagLen (tag v : Z) | OpTagged (tag : Z) (d : bytes)
| OpSkip (n : Z) | OpReset | OpMark (d : Z).

(* an operation that returns Err (or Panic) leaves the buffer unchanged *)
Definition or_keep (b : buffer) (r : res buffer) : buffer := match r with Ok b' => b' | _ => b end.

Definition bstep (b : buffer) (o : bop) : buffer :=
  match o with
  | OpU8 v => or_keep b (push_u8 b v)
  | OpPush c => or_keep b (push b c)
  | OpTagLen tag v => or_keep b (push_tag_len b tag v)
  | OpTagged tag d => or_keep b (push_tagged b tag d)
  | OpSkip n => skip b n
  | OpReset => reset b
  | OpMark d => set_bookmark b d
  end.

Lemma bstep_Inv : forall b o, Inv b -> Inv (bstep b o).
Proof.
  intros b o Hb. destruct o as [v|c|tag v|tag d|n| |d]; cbn [bstep].
  - destruct (push_u8 b v) as [b'|e|] eqn:E; cbn [or_keep]; [eapply push_u8_Inv; eassumption|exact Hb|exact Hb].
  - destruct (push b c) as [b'|e|] eqn:E; cbn [or_keep]; [eapply push_Inv; eassumption|exact Hb|exact Hb].
  - destruct (push_tag_len b tag v) as [b'|e|] eqn:E; cbn [or_keep]; [eapply push_tag_len_Inv; eassumption|exact Hb|exact Hb].
  - destruct (push_tagged b tag d) as [b'|e|] eqn:E; cbn [or_keep]; [eapply push_tagged_Inv; eassumption|exact Hb|exact Hb].
  - apply skip_Inv. exact Hb.
  - apply reset_Inv.
  - apply set_bookmark_Inv. exact Hb.
Qed.

Lemma fold_bstep_Inv : forall ops b, Inv b -> Inv (fold_left bstep ops b).
Proof.
  induction ops as [|o ops IH]; intros b Hb; cbn [fold_left]; [exact Hb|].
  apply IH. apply bstep_Inv. exact Hb.
Qed.

Theorem buffer_inv_all : forall ops,
  Inv (fold_left bstep ops empty_buffer) /\ 0 <= pos (fold_left bstep ops empty_buffer) <= BUF_MAX_SIZE.
Proof.
  intros ops. pose proof (fold_bstep_Inv ops empty_buffer Inv_empty) as H.
  split; [exact H|apply Inv_pos_range; exact H].
Qed.

(* no primitive ever panics *)
Lemma bprim_no_panic : forall b,
  (forall v, push_u8 b v <> Panic) /\ (forall c, push b c <> Panic) /\
  (forall tag v, push_tag_len b tag v <> Panic) /\ (forall tag d, push_tagged b tag d <> Panic).
Proof.
  intros b. repeat split.
  - intros v. unfold push_u8. destruct (pos b =? 0); discriminate.
  - intros c. rewrite push_emits. apply emits_not_panic.
  - intros tag v. unfold push_tag_len.
    destruct (v <? 128); [|destruct (v <? 256)];
      [destruct (pos b <? 2)|destruct (pos b <? 3)|destruct (pos b <? 4)]; discriminate.
  - intros tag d. rewrite push_tagged_emits_gen. apply emits_not_panic.
Qed.

(* ------------------------------------------------------------------ *)
(* A4: written-bytes hygiene *)

Lemma emits_wfb : forall b s bm b', emits b s bm = Ok b' -> wfb s -> wfb (data b) -> wfb (data b').
Proof.
  intros b s bm b' H Hs Hd. apply emits_ok_data in H. destruct H as [-> _].
  apply wfb_app. split; assumption.
Qed.

Lemma wfb_enc_len : forall v, 0 <= v < 65536 -> wfb (enc_len v).
Proof.
  intros v Hv. unfold enc_len.
  assert (0 <= v / 256 < 256) by (split; [apply Z.div_pos; lia|apply Z.div_lt_upper_bound; lia]).
  pose proof (Z.mod_pos_bound v 256 ltac:(lia)).
  destruct (v <? 128) eqn:E1; [|destruct (v <? 256) eqn:E2]; repeat (apply wfb_cons; split; [lia|]); apply wfb_nil.
Qed.

Lemma wfb_tlv : forall tag c, 0 <= tag < 256 -> len c < 65536 -> wfb c -> wfb (tlv tag c).
Proof.
  intros tag c Ht Hl Hc. unfold tlv. apply wfb_cons. split; [exact Ht|].
  apply wfb_app. split; [apply wfb_enc_len; pose proof (len_nonneg c); lia|exact Hc].
Qed.

Theorem push_wfb : forall b c b', push b c = Ok b' -> wfb c -> wfb (data b) -> wfb (data b').
Proof. intros b c b' H. rewrite push_emits in H. eapply emits_wfb; eassumption. Qed.

Theorem push_u8_wfb : forall b v b', Inv b -> push_u8 b v = Ok b' -> 0 <= v < 256 -> wfb (data b) -> wfb (data b').
Proof.
  intros b v b' Hb H Hv. rewrite push_u8_emits in H by exact Hb.
  eapply emits_wfb; [eassumption|]. apply wfb_cons. split; [exact Hv|apply wfb_nil].
Qed.

Theorem push_tag_len_wfb : forall b tag v b', push_tag_len b tag v = Ok b' ->
  0 <= tag < 256 -> 0 <= v < 65536 -> wfb (data b) -> wfb (data b').
Proof.
  intros b tag v b' H Ht Hv. rewrite push_tag_len_emits_gen in H by exact Hv.
  eapply emits_wfb; [eassumption|]. apply wfb_cons. split; [exact Ht|apply wfb_enc_len; exact Hv].
Qed.

Theorem push_tagged_wfb : forall b tag d b', push_tagged b tag d = Ok b' ->
  0 <= tag < 256 -> wfb d -> wfb (data b) -> wfb (data b').
Proof.
  intros b tag d b' H Ht Hd. rewrite push_tagged_emits_gen in H.
  pose proof (emits_ok_len _ _ _ _ H) as Hl. pose proof (len_tlv_gt tag d).
  eapply emits_wfb; [eassumption|]. apply wfb_tlv; [exact Ht|lia|exact Hd].
Qed.

Lemma set_bookmark_data : forall b d, data (set_bookmark b d) = data b.
Proof. reflexivity. Qed.

(* skip is the only operation that exposes unwritten (POISON) cells, at most the free space *)
Theorem skip_poison : forall b n, Inv b ->
  exists k, Z.of_nat k <= pos b /\ Z.of_nat k = Z.max 0 (Z.min n (pos b)) /\ data (skip b n) = poison k ++ data b.
Proof.
  intros b n Hb. apply Inv_pos in Hb. exists (Z.to_nat (Z.min n (pos b))).
  split; [lia|]. split; [lia|]. reflexivity.
Qed.

Lemma skip_nonpos : forall b n, n <= 0 -> skip b n = b.
Proof.
  intros [d bm] n Hn. unfold skip, with_data. cbn [data bookmark].
  replace (Z.to_nat (Z.min n (pos {| data := d; bookmark := bm |}))) with O by lia. reflexivity.
Qed.

Theorem reset_clears : forall b, data (reset b) = [] /\ blen (reset b) = 0 /\ pos (reset b) = BUF_MAX_SIZE /\
  bookmark (reset b) = bookmark b.
Proof. intros b. repeat split. Qed.

(* ------------------------------------------------------------------ *)
(* Print Assumptions (observed with coqc 8.16.1): every one prints "Closed under the global context"
     buffer_inv_all push_emits push_u8_emits push_tag_len_emits push_tagged_emits emits_bind
     emits_bind_grow emits_bind_acc wrap_emits emits_ok_len push_wfb push_u8_wfb push_tag_len_wfb
     push_tagged_wfb skip_poison reset_clears *)

(* C03/C15/C17: every composite push_ber of the model emits exactly the reference encoding of
   Spec/X690.v, with the exact out-of-buffer condition. *)
From GS Require Import Model.Base Gen.Constants Model.Ber Model.Pdu Model.Buffer Spec.X690
  Proofs.BufLemmas Proofs.BufferProofs Proofs.IntEncProofs.
From Coq Require Import ZifyBool.

(* symbolic execution of a chain of binds.  The goal has the shape
     bind (emits cur s1 bm1) k = emits cur ?S ?bm
   where cur is the argument buffer b (first step) or [grow b c bmc] (later steps, with
   Hfit : len c <= pos b in the context). *)
Ltac ebind_first := eapply emits_bind_grow; intros Hfit; cbv beta.
Ltac ebind :=
  match goal with
  | Hf : len _ <= pos _ |- _ => eapply emits_bind_acc; [exact Hf|]; clear Hf; intros Hf; cbv beta
  end.
Ltac inv_cur :=
  first [assumption | match goal with Hf : len _ <= pos _ |- _ => apply Inv_grow; exact Hf end].
Ltac bytes_eq := rewrite ?tlv_split; repeat (rewrite <- ?app_assoc; cbn [app]); reflexivity.

(* ------------------------------------------------------------------ *)
(* OBJECT IDENTIFIER, NULL *)

(* the hypothesis `len o < 65536` of the requested statement is not needed *)
Lemma push_oid_emits_gen : forall b o, push_oid b o = emits b (enc_oid o) (bookmark b).
Proof. intros b o. exact (push_tagged_emits_gen b TAG_OBJECT_ID o). Qed.

Theorem push_oid_emits : forall b o, Inv b -> len o < 65536 -> push_oid b o = emits b (enc_oid o) (bookmark b).
Proof. intros b o _ _. apply push_oid_emits_gen. Qed.

Theorem push_null_emits : forall b, push_null b = emits b enc_null (bookmark b).
Proof. intros b. apply push_emits. Qed.

(* ------------------------------------------------------------------ *)
(* varbind lists *)

Lemma push_vars_rev_emits : forall rvars b, Inv b ->
  push_vars_rev b rvars = emits b (concat (map enc_varbind (rev rvars))) (bookmark b).
Proof.
  induction rvars as [|oid r IH]; intros b Hb.
  - cbn [push_vars_rev rev map concat]. symmetry. apply emits_nil. exact Hb.
  - cbn [push_vars_rev]. cbv zeta. eapply emits_eq.
    + rewrite push_null_emits. ebind_first.
      rewrite push_oid_emits_gen, bookmark_grow. ebind.
      rewrite wrap_end_emits by exact Hfit. ebind.
      rewrite IH by inv_cur. rewrite bookmark_grow. reflexivity.
    + cbn [rev]. rewrite map_app, concat_app. cbn [map concat]. rewrite app_nil_r.
      unfold enc_varbind. bytes_eq.
    + reflexivity.
Qed.

(* ------------------------------------------------------------------ *)
(* request PDUs *)

Definition enc_get_body (id : Z) (oids : list bytes) : bytes :=
  enc_int id ++ enc_int 0 ++ enc_int 0 ++ enc_varbinds oids.
Definition enc_getbulk_body (id nr mr : Z) (oids : list bytes) : bytes :=
  enc_int id ++ enc_int nr ++ enc_int mr ++ enc_varbinds oids.

(* no hypothesis on the sizes of the OIDs is needed *)
Theorem push_get_emits : forall b g, Inv b -> in_range (g_request_id g) ->
  push_get b g = emits b (enc_get_body (g_request_id g) (g_vars g)) (bookmark b).
Proof.
  intros b g Hb Hid. unfold push_get. cbv zeta. eapply emits_eq.
  - rewrite push_vars_rev_emits by exact Hb. rewrite rev_involutive. ebind_first.
    rewrite wrap_end_emits by exact Hfit. ebind.
    rewrite push_emits, bookmark_grow. ebind.
    rewrite push_int_emits by (try exact Hid; inv_cur). rewrite bookmark_grow. reflexivity.
  - unfold enc_get_body, enc_varbinds. rewrite enc_int_0. bytes_eq.
  - reflexivity.
Qed.

Theorem push_getbulk_emits : forall b g, Inv b ->
  in_range (gb_request_id g) -> in_range (gb_non_repeaters g) -> in_range (gb_max_repetitions g) ->
  push_getbulk b g =
  emits b (enc_getbulk_body (gb_request_id g) (gb_non_repeaters g) (gb_max_repetitions g) (gb_vars g)) (bookmark b).
Proof.
  intros b g Hb Hid Hnr Hmr. unfold push_getbulk. cbv zeta. eapply emits_eq.
  - rewrite push_vars_rev_emits by exact Hb. rewrite rev_involutive. ebind_first.
    rewrite wrap_end_emits by exact Hfit. ebind.
    rewrite push_int_emits by (try exact Hmr; inv_cur). rewrite bookmark_grow. ebind.
    rewrite push_int_emits by (try exact Hnr; inv_cur). rewrite bookmark_grow. ebind.
    rewrite push_int_emits by (try exact Hid; inv_cur). rewrite bookmark_grow. reflexivity.
  - unfold enc_getbulk_body, enc_varbinds. bytes_eq.
  - reflexivity.
Qed.

(* the request denoted by a PDU of the model; responses and reports are not encodable *)
Definition req_of_pdu (p : pdu) : option req :=
  match p with
  | PGetRequest g => Some (RGet (g_request_id g) (g_vars g))
  | PGetNextRequest g => Some (RGetNext (g_request_id g) (g_vars g))
  | PGetBulkRequest g =>
      Some (RGetBulk (gb_request_id g) (gb_non_repeaters g) (gb_max_repetitions g) (gb_vars g))
  | PGetResponse _ | PReport _ => None
  end.
(* its INTEGER fields are i64 values *)
Definition req_ok (r : req) : Prop :=
  match r with
  | RGet id _ | RGetNext id _ => in_range id
  | RGetBulk id nr mr _ => in_range id /\ in_range nr /\ in_range mr
  end.

Theorem push_pdu_emits : forall b p r, Inv b -> req_of_pdu p = Some r -> req_ok r ->
  push_pdu b p = emits b (enc_req r) (bookmark b).
Proof.
  intros b p r Hb Hp Hr. destruct p as [g|g|resp|g|raw]; cbn [req_of_pdu] in Hp; try discriminate;
    inversion Hp; subst r; cbn [req_ok] in Hr; cbn [push_pdu enc_req]; cbv zeta.
  - rewrite push_get_emits by assumption. apply wrap_emits.
  - rewrite push_get_emits by assumption. apply wrap_emits.
  - destruct Hr as (Hid & Hnr & Hmr). rewrite push_getbulk_emits by assumption. apply wrap_emits.
Qed.

Corollary push_pdu_get_emits : forall b g, Inv b -> in_range (g_request_id g) ->
  push_pdu b (PGetRequest g) = emits b (enc_req (RGet (g_request_id g) (g_vars g))) (bookmark b).
Proof. intros b g Hb Hid. apply push_pdu_emits; [exact Hb|reflexivity|exact Hid]. Qed.

Corollary push_pdu_getnext_emits : forall b g, Inv b -> in_range (g_request_id g) ->
  push_pdu b (PGetNextRequest g) = emits b (enc_req (RGetNext (g_request_id g) (g_vars g))) (bookmark b).
Proof. intros b g Hb Hid. apply push_pdu_emits; [exact Hb|reflexivity|exact Hid]. Qed.

Corollary push_pdu_getbulk_emits : forall b g, Inv b ->
  in_range (gb_request_id g) -> in_range (gb_non_repeaters g) -> in_range (gb_max_repetitions g) ->
  push_pdu b (PGetBulkRequest g) =
  emits b (enc_req (RGetBulk (gb_request_id g) (gb_non_repeaters g) (gb_max_repetitions g) (gb_vars g))) (bookmark b).
Proof. intros b g Hb Hid Hnr Hmr. apply push_pdu_emits; [exact Hb|reflexivity|cbn [req_ok]; auto]. Qed.

Lemma push_pdu_not_implemented : forall b p, req_of_pdu p = None -> push_pdu b p = Err NotImplemented.
Proof. intros b p H. destruct p; cbn [req_of_pdu] in H; try discriminate; reflexivity. Qed.

(* ------------------------------------------------------------------ *)
(* community messages (v1, v2c) *)

Lemma Inv_blen0 : forall b, blen b = 0 -> Inv b.
Proof. intros b H. unfold Inv, BUF_MAX_SIZE. lia. Qed.

(* the outermost header measures the whole buffer: correct only in a fresh buffer *)
Lemma wrap_all_emits : forall b c bm tag, blen b = 0 -> len c <= pos b ->
  push_tag_len (grow b c bm) tag (blen (grow b c bm)) = emits (grow b c bm) (tag :: enc_len (len c)) bm.
Proof.
  intros b c bm tag H0 Hf. rewrite <- (wrap_end_emits b c bm tag Hf). rewrite H0, Z.sub_0_r. reflexivity.
Qed.

Theorem push_cmsg_emits : forall ver b m r, blen b = 0 -> 0 <= ver < 128 ->
  req_of_pdu (cm_pdu m) = Some r -> req_ok r ->
  push_cmsg ver b m = emits b (enc_cmsg ver (cm_community m) r) (bookmark b).
Proof.
  intros ver b m r H0 Hver Hp Hr. pose proof (Inv_blen0 b H0) as Hb. unfold push_cmsg. eapply emits_eq.
  - rewrite (push_pdu_emits b _ r Hb Hp Hr). ebind_first.
    rewrite push_tagged_emits_gen, bookmark_grow. ebind.
    rewrite push_emits, bookmark_grow. ebind.
    apply wrap_all_emits; [exact H0|exact Hfit].
  - unfold enc_cmsg, enc_octets. rewrite (enc_int_small ver Hver). bytes_eq.
  - reflexivity.
Qed.

(* the statement in the requested shape, on a literal record *)
Corollary push_cmsg_emits_rec : forall ver b c p r, blen b = 0 -> 0 <= ver < 128 ->
  req_of_pdu p = Some r -> req_ok r ->
  push_cmsg ver b {| cm_community := c; cm_pdu := p |} = emits b (enc_cmsg ver c r) (bookmark b).
Proof. intros ver b c p r H0 Hver Hp Hr. exact (push_cmsg_emits ver b {| cm_community := c; cm_pdu := p |} r H0 Hver Hp Hr). Qed.

Lemma push_cmsg_not_implemented : forall ver b m, req_of_pdu (cm_pdu m) = None ->
  push_cmsg ver b m = Err NotImplemented.
Proof. intros ver b m H. unfold push_cmsg. rewrite push_pdu_not_implemented by exact H. reflexivity. Qed.

(* C10 for community messages *)
Lemma pos_empty : pos empty_buffer = BUF_MAX_SIZE.
Proof. reflexivity. Qed.

Lemma emits_empty_cases : forall s bm,
  (emits empty_buffer s bm = Err OutOfBuffer <-> BUF_MAX_SIZE < len s) /\
  (len s <= BUF_MAX_SIZE -> emits empty_buffer s bm = Ok {| data := s; bookmark := bm |}).
Proof.
  intros s bm. destruct (emits_cases empty_buffer s bm) as [[Hf He]|[Hf He]]; rewrite He; rewrite pos_empty in Hf.
  - split; [split; [discriminate|lia]|]. intros _. unfold grow, empty_buffer. cbn [data]. rewrite app_nil_r. reflexivity.
  - split; [split; [intros _; exact Hf|reflexivity]|lia].
Qed.

Theorem push_cmsg_out_of_buffer : forall ver m r, 0 <= ver < 128 ->
  req_of_pdu (cm_pdu m) = Some r -> req_ok r ->
  (push_cmsg ver empty_buffer m = Err OutOfBuffer <-> BUF_MAX_SIZE < len (enc_cmsg ver (cm_community m) r)) /\
  (len (enc_cmsg ver (cm_community m) r) <= BUF_MAX_SIZE ->
   push_cmsg ver empty_buffer m = Ok {| data := enc_cmsg ver (cm_community m) r; bookmark := 0 |}).
Proof.
  intros ver m r Hver Hp Hr. rewrite (push_cmsg_emits ver empty_buffer m r) by (try reflexivity; assumption).
  apply emits_empty_cases.
Qed.

(* ------------------------------------------------------------------ *)
(* SNMPv3 *)

Ltac fit := match goal with Hf : len _ <= pos _ |- _ => exact Hf end.
(* re-basing step: the current buffer (whatever its shape) becomes the new base *)
Ltac ebind_base := eapply emits_bind_grow; let H := fresh "Hfit" in intros H; cbv beta.

(* the empty OCTET STRING constant of the Rust code is the reference encoding of "" *)
Lemma enc_octets_nil : enc_octets [] = EMPTY_BER.
Proof. reflexivity. Qed.

Lemma EMPTY_BER_octets : EMPTY_BER = [4; 0].
Proof. reflexivity. Qed.

Lemma push_os_or_empty_emits : forall b d, push_os_or_empty b d = emits b (enc_octets d) (bookmark b).
Proof.
  intros b [|x d]; cbn [push_os_or_empty].
  - rewrite enc_octets_nil. apply push_emits.
  - apply push_tagged_emits_gen.
Qed.

Lemma push_octets_emits : forall b d,
  push_tagged b TAG_OCTET_STRING d = emits b (enc_octets d) (bookmark b).
Proof. intros b d. apply push_tagged_emits_gen. Qed.

Theorem push_scoped_emits : forall b s r, Inv b -> req_of_pdu (s_pdu s) = Some r -> req_ok r ->
  push_scoped b s = emits b (enc_scoped (s_engine_id s) r) (bookmark b).
Proof.
  intros b s r Hb Hp Hr. unfold push_scoped. cbv zeta. eapply emits_eq.
  - rewrite (push_pdu_emits b _ r Hb Hp Hr). ebind_first.
    rewrite push_emits, bookmark_grow. ebind.
    rewrite push_os_or_empty_emits, bookmark_grow. ebind.
    apply wrap_end_emits. fit.
  - unfold enc_scoped. rewrite enc_octets_nil. bytes_eq.
  - reflexivity.
Qed.

Definition usm_fields_of (u : usm) : usm_fields :=
  {| uf_engine_id := u_engine_id u; uf_boots := u_engine_boots u; uf_time := u_engine_time u;
     uf_user := u_user_name u; uf_auth := u_auth_params u; uf_priv := u_privacy_params u |}.

(* bookmark after the authentication parameters have been pushed on [cur]: untouched when they are
   empty, otherwise position of the buffer right after the TLV was pushed, plus 2 *)
Definition auth_bookmark (cur : buffer) (a : bytes) : Z :=
  match a with [] => bookmark cur | _ :: _ => pos cur - len (enc_octets a) + 2 end.

Lemma push_auth_emits : forall cur a,
  match a with
  | [] => push cur EMPTY_BER
  | z :: l => b1 <- push_tagged cur TAG_OCTET_STRING (z :: l) ;; Ok (set_bookmark b1 2)
  end = emits cur (enc_octets a) (auth_bookmark cur a).
Proof.
  intros cur [|z l].
  - rewrite enc_octets_nil. apply push_emits.
  - rewrite push_tagged_emits_gen. cbn [auth_bookmark].
    change (tlv TAG_OCTET_STRING (z :: l)) with (enc_octets (z :: l)).
    destruct (emits_cases cur (enc_octets (z :: l)) (bookmark cur)) as [[Hf He]|[Hf He]]; rewrite He; cbn [bind].
    + rewrite emits_ok by exact Hf. unfold set_bookmark. rewrite pos_grow. reflexivity.
    + rewrite emits_err by exact Hf. reflexivity.
Qed.

Definition usm_bookmark (b : buffer) (u : usm) : Z :=
  auth_bookmark (grow b (enc_octets (u_privacy_params u)) (bookmark b)) (u_auth_params u).

(* explicit form: a function of b and of the lengths of the fields pushed before *)
Lemma usm_bookmark_eq : forall b u,
  usm_bookmark b u =
  match u_auth_params u with
  | [] => bookmark b
  | _ :: _ => pos b - len (enc_octets (u_privacy_params u)) - len (enc_octets (u_auth_params u)) + 2
  end.
Proof.
  intros b u. unfold usm_bookmark, auth_bookmark. destruct (u_auth_params u); [reflexivity|].
  rewrite pos_grow. reflexivity.
Qed.

Theorem push_usm_emits : forall b u, Inv b -> in_range (u_engine_boots u) -> in_range (u_engine_time u) ->
  push_usm b u = emits b (enc_usm (usm_fields_of u)) (usm_bookmark b u).
Proof.
  intros b u Hb Hboots Htime. unfold push_usm. cbv zeta. eapply emits_eq.
  - rewrite push_os_or_empty_emits. ebind_first.
    rewrite push_auth_emits. ebind.
    rewrite push_octets_emits, bookmark_grow. ebind.
    rewrite push_int_emits by (try exact Htime; inv_cur). rewrite bookmark_grow. ebind.
    rewrite push_int_emits by (try exact Hboots; inv_cur). rewrite bookmark_grow. ebind.
    rewrite push_os_or_empty_emits, bookmark_grow. ebind.
    apply wrap_end_emits. fit.
  - unfold enc_usm, usm_fields_of. cbn [uf_engine_id uf_boots uf_time uf_user uf_auth uf_priv].
    bytes_eq.
  - reflexivity.
Qed.

(* octets of the msgData field *)
Definition msgdata_spec (d : msgdata) (D : bytes) : Prop :=
  match d with
  | Plaintext s => exists r, req_of_pdu (s_pdu s) = Some r /\ req_ok r /\ D = enc_scoped (s_engine_id s) r
  | Encrypted ct => D = enc_octets ct
  end.

Theorem push_msgdata_emits : forall b d D, Inv b -> msgdata_spec d D ->
  push_msgdata b d = emits b D (bookmark b).
Proof.
  intros b d D Hb Hd. destruct d as [s|ct]; cbn [msgdata_spec push_msgdata] in *.
  - destruct Hd as (r & Hp & Hr & ->). apply push_scoped_emits; assumption.
  - subst D. apply push_tagged_emits_gen.
Qed.

Lemma in_range_small : forall v, -2147483648 <= v <= 4294967295 -> in_range v.
Proof. intros v Hv. unfold in_range. change (2 ^ 63) with 9223372036854775808. lia. Qed.

Definition v3_bookmark (b : buffer) (m : v3msg) (D : bytes) : Z :=
  usm_bookmark (grow b D (bookmark b)) (m_usm m).

Definition v3_ok (m : v3msg) : Prop :=
  in_range (m_msg_id m) /\ in_range (u_engine_boots (m_usm m)) /\ in_range (u_engine_time (m_usm m)).

Definition enc_v3_of (m : v3msg) (D : bytes) : bytes :=
  enc_v3 (m_msg_id m) V3_MAX_SIZE (flags_octet m) (usm_fields_of (m_usm m)) D.

Theorem push_v3_emits_bm : forall b m D, blen b = 0 -> v3_ok m -> msgdata_spec (m_data m) D ->
  push_v3 b m = emits b (enc_v3_of m D) (v3_bookmark b m D).
Proof.
  intros b m D H0 (Hid & Hboots & Htime) Hd. pose proof (Inv_blen0 b H0) as Hb.
  unfold push_v3. cbv zeta. eapply emits_eq.
  - rewrite (push_msgdata_emits b _ D Hb Hd). ebind_base.
    (* securityParameters: base = buffer after msgData *)
    rewrite push_usm_emits by (try assumption; inv_cur). ebind_base.
    rewrite wrap_end_emits by fit. ebind.
    (* msgGlobalData: base = buffer after the securityParameters OCTET STRING *)
    rewrite push_emits, bookmark_grow. ebind_base.
    rewrite push_u8_emits by inv_cur. rewrite bookmark_grow. ebind.
    rewrite push_tag_len_emits_gen by lia. rewrite bookmark_grow. ebind.
    rewrite push_int_emits by (try (apply in_range_small; unfold V3_MAX_SIZE; lia); inv_cur).
    rewrite bookmark_grow. ebind.
    rewrite push_int_emits by (try exact Hid; inv_cur). rewrite bookmark_grow. ebind.
    rewrite wrap_end_emits by fit. ebind.
    rewrite push_emits, bookmark_grow. ebind.
    (* outer SEQUENCE: measured on the whole buffer *)
    rewrite !grow_grow.
    apply wrap_all_emits; [exact H0|].
    repeat match goal with Hf : len _ <= pos _ |- _ => rewrite ?pos_grow in Hf; revert Hf end.
    rewrite ?len_app. intros. lia.
  - unfold enc_v3_of, enc_v3, enc_octets. rewrite (enc_int_small 3) by lia.
    change [TAG_INT; 1; USM_MODEL] with [2; 1; 3]. change [TAG_INT; 1; SNMP_V3] with [2; 1; 3].
    change TAG_OCTET_STRING with 4. rewrite !tlv_split. repeat (rewrite <- ?app_assoc; cbn [app]). reflexivity.
  - reflexivity.
Qed.

Theorem push_v3_emits : forall b m D, blen b = 0 -> v3_ok m -> msgdata_spec (m_data m) D ->
  exists bm, push_v3 b m =
             emits b (enc_v3 (m_msg_id m) V3_MAX_SIZE (flags_octet m) (usm_fields_of (m_usm m)) D) bm.
Proof. intros b m D H0 Hm Hd. exists (v3_bookmark b m D). apply push_v3_emits_bm; assumption. Qed.

Lemma push_v3_not_implemented : forall b m s, m_data m = Plaintext s -> req_of_pdu (s_pdu s) = None ->
  push_v3 b m = Err NotImplemented.
Proof.
  intros b m s Hd Hp. unfold push_v3. rewrite Hd. cbn [push_msgdata]. unfold push_scoped.
  rewrite push_pdu_not_implemented by exact Hp. reflexivity.
Qed.

(* explicit bookmark of a whole v3 message *)
Lemma v3_bookmark_eq : forall b m D,
  v3_bookmark b m D =
  match u_auth_params (m_usm m) with
  | [] => bookmark b
  | _ :: _ => pos b - len D - len (enc_octets (u_privacy_params (m_usm m)))
              - len (enc_octets (u_auth_params (m_usm m))) + 2
  end.
Proof.
  intros b m D. unfold v3_bookmark. rewrite usm_bookmark_eq.
  destruct (u_auth_params (m_usm m)); [reflexivity|]. rewrite pos_grow. reflexivity.
Qed.

(* where the authentication parameters sit in the reference message *)
Definition usm_pre (u : usm_fields) : bytes :=
  (48 :: enc_len (len (enc_octets (uf_engine_id u) ++ enc_int (uf_boots u) ++ enc_int (uf_time u) ++
                        enc_octets (uf_user u) ++ enc_octets (uf_auth u) ++ enc_octets (uf_priv u)))) ++
  enc_octets (uf_engine_id u) ++ enc_int (uf_boots u) ++ enc_int (uf_time u) ++ enc_octets (uf_user u) ++
  (4 :: enc_len (len (uf_auth u))).

Lemma enc_usm_split : forall u, enc_usm u = usm_pre u ++ uf_auth u ++ enc_octets (uf_priv u).
Proof.
  intros u. unfold enc_usm, usm_pre. rewrite tlv_split. unfold enc_octets at 7. rewrite (tlv_split 4 (uf_auth u)).
  repeat (rewrite <- ?app_assoc; cbn [app]). reflexivity.
Qed.

Definition v3_pre (msg_id max_size flags : Z) (u : usm_fields) (D : bytes) : bytes :=
  (48 :: enc_len (len (enc_int 3 ++
                        tlv 48 (enc_int msg_id ++ enc_int max_size ++ enc_octets [flags] ++ enc_int 3) ++
                        enc_octets (enc_usm u) ++ D))) ++
  enc_int 3 ++ tlv 48 (enc_int msg_id ++ enc_int max_size ++ enc_octets [flags] ++ enc_int 3) ++
  (4 :: enc_len (len (enc_usm u))) ++ usm_pre u.

Lemma enc_v3_split : forall msg_id max_size flags u D,
  enc_v3 msg_id max_size flags u D = v3_pre msg_id max_size flags u D ++ uf_auth u ++ enc_octets (uf_priv u) ++ D.
Proof.
  intros msg_id max_size flags u D. unfold enc_v3, v3_pre.
  set (G := tlv 48 (enc_int msg_id ++ enc_int max_size ++ enc_octets [flags] ++ enc_int 3)).
  rewrite tlv_split. unfold enc_octets at 2. rewrite (tlv_split 4 (enc_usm u)).
  rewrite (enc_usm_split u) at 3.
  repeat (rewrite <- ?app_assoc; cbn [app]). reflexivity.
Qed.

(* get_bookmark of the final buffer is the offset, from the start of the final message, of the first
   octet of the authentication parameters (short form length, i.e. fewer than 128 octets) *)
Theorem push_v3_bookmark : forall b m D bf, blen b = 0 -> v3_ok m -> msgdata_spec (m_data m) D ->
  u_auth_params (m_usm m) <> [] -> len (u_auth_params (m_usm m)) < 128 ->
  push_v3 b m = Ok bf ->
  exists pre,
    data bf = pre ++ u_auth_params (m_usm m) ++ enc_octets (u_privacy_params (m_usm m)) ++ D /\
    data bf = enc_v3_of m D /\
    get_bookmark bf = len pre.
Proof.
  intros b m D bf H0 Hm Hd Hne Hshort H.
  rewrite (push_v3_emits_bm b m D H0 Hm Hd) in H. apply emits_ok_inv in H.
  destruct H as (-> & Hf & Hmax).
  assert (Hdb : data b = []) by (apply len_zero_nil; exact H0).
  exists (v3_pre (m_msg_id m) V3_MAX_SIZE (flags_octet m) (usm_fields_of (m_usm m)) D).
  pose proof (enc_v3_split (m_msg_id m) V3_MAX_SIZE (flags_octet m) (usm_fields_of (m_usm m)) D) as Hs.
  cbn [usm_fields_of uf_auth uf_priv] in Hs. fold (enc_v3_of m D) in Hs.
  rewrite data_grow, Hdb, app_nil_r. split; [exact Hs|]. split; [reflexivity|].
  unfold get_bookmark. rewrite bookmark_grow, pos_grow, v3_bookmark_eq.
  set (pre := v3_pre _ _ _ _ _) in *.
  assert (Hl : len (enc_v3_of m D) =
               len pre + len (u_auth_params (m_usm m)) + len (enc_octets (u_privacy_params (m_usm m))) + len D).
  { rewrite Hs, !len_app. lia. }
  assert (Ha : len (enc_octets (u_auth_params (m_usm m))) = 2 + len (u_auth_params (m_usm m))).
  { unfold enc_octets. rewrite len_tlv. unfold enc_len.
    destruct (len (u_auth_params (m_usm m)) <? 128) eqn:E; [|lia].
    change (len [len (u_auth_params (m_usm m))]) with 1. lia. }
  destruct (u_auth_params (m_usm m)) as [|z l] eqn:EA; [congruence|].
  pose proof (len_nonneg pre) as Hp0. unfold BUF_MAX_SIZE in Hmax.
  pose proof (len_nonneg (z :: l)). pose proof (len_nonneg D).
  pose proof (len_nonneg (enc_octets (u_privacy_params (m_usm m)))).
  unfold wrap64. rewrite Z.mod_small; lia.
Qed.

(* C10 for v3 messages *)
Theorem push_v3_out_of_buffer : forall m D, v3_ok m -> msgdata_spec (m_data m) D ->
  (push_v3 empty_buffer m = Err OutOfBuffer <-> BUF_MAX_SIZE < len (enc_v3_of m D)) /\
  (len (enc_v3_of m D) <= BUF_MAX_SIZE ->
   push_v3 empty_buffer m = Ok {| data := enc_v3_of m D; bookmark := v3_bookmark empty_buffer m D |}).
Proof.
  intros m D Hm Hd. rewrite (push_v3_emits_bm empty_buffer m D) by (try reflexivity; assumption).
  apply emits_empty_cases.
Qed.

(* ------------------------------------------------------------------ *)
(* concrete sanity checks (closed, finite): the model, run on actual inputs, and the reference agree *)

Example cmsg_example :
  let m := {| cm_community := [112; 117; 98];
              cm_pdu := PGetRequest {| g_request_id := 305419896; g_vars := [[43; 6; 1; 2; 1; 1; 3; 0]] |} |} in
  push_cmsg 1 empty_buffer m =
  Ok {| data := enc_cmsg 1 [112; 117; 98] (RGet 305419896 [[43; 6; 1; 2; 1; 1; 3; 0]]); bookmark := 0 |}.
Proof. vm_compute. reflexivity. Qed.

Example int_examples :
  map (fun v => match push_int empty_buffer v with Ok b => data b | _ => [] end)
      [0; 127; 128; 255; 256; -128; -129; 2147483647; -9223372036854775808; 9223372036854775807]
  = map enc_int [0; 127; 128; 255; 256; -128; -129; 2147483647; -9223372036854775808; 9223372036854775807].
Proof. vm_compute. reflexivity. Qed.

Example v3_example :
  let m := {| m_msg_id := 1000; m_flag_auth := true; m_flag_priv := false; m_flag_report := true;
              m_usm := {| u_engine_id := [128; 0; 1]; u_engine_boots := 5; u_engine_time := 70000;
                          u_user_name := [117; 49]; u_auth_params := [0; 0; 0; 0; 0; 0; 0; 0; 0; 0; 0; 0];
                          u_privacy_params := [] |};
              m_data := Plaintext {| s_engine_id := [128; 0; 1];
                                     s_pdu := PGetBulkRequest {| gb_request_id := -7; gb_non_repeaters := 0;
                                                                 gb_max_repetitions := 300;
                                                                 gb_vars := [[43; 6; 1]; [43; 6; 2]] |} |} |} in
  let D := enc_scoped [128; 0; 1] (RGetBulk (-7) 0 300 [[43; 6; 1]; [43; 6; 2]]) in
  match push_v3 empty_buffer m with
  | Ok bf => data bf = enc_v3_of m D /\
             firstn 12 (skipn (Z.to_nat (get_bookmark bf)) (data bf)) = u_auth_params (m_usm m)
  | _ => False
  end.
Proof. vm_compute. split; reflexivity. Qed.

(* ------------------------------------------------------------------ *)
(* the side conditions are needed: concrete counterexamples (closed, finite) *)

(* push_u8 on a (unreachable) buffer violating Inv succeeds where emits reports OutOfBuffer *)
Example push_u8_needs_Inv :
  let b := {| data := repeat 0 (S (Z.to_nat BUF_MAX_SIZE)); bookmark := 0 |} in
  is_ok (push_u8 b 7) = true /\ emits b [7] 0 = Err OutOfBuffer.
Proof. vm_compute. split; reflexivity. Qed.

(* a length of 65536 or more is silently truncated by push_tag_len *)
Example push_tag_len_needs_u16 :
  push_tag_len empty_buffer 48 65536 = Ok {| data := [48; 130; 0; 0]; bookmark := 0 |} /\
  enc_len 65536 = [130; 256; 0].
Proof. vm_compute. split; reflexivity. Qed.

(* push_cmsg in a buffer that is not fresh measures the stale octets too *)
Example push_cmsg_needs_fresh_buffer :
  let m := {| cm_community := []; cm_pdu := PGetRequest {| g_request_id := 1; g_vars := [] |} |} in
  let b := {| data := [99]; bookmark := 0 |} in
  match push_cmsg 0 b m, emits b (enc_cmsg 0 [] (RGet 1 [])) 0 with
  | Ok b1, Ok b2 => nth 1 (data b1) 0 = 19 /\ nth 1 (data b2) 0 = 18
  | _, _ => False
  end.
Proof. vm_compute. split; reflexivity. Qed.

(* the version is written as a single content octet: 128 and above would not be a valid INTEGER *)
Example push_cmsg_needs_small_version :
  let m := {| cm_community := []; cm_pdu := PGetRequest {| g_request_id := 1; g_vars := [] |} |} in
  match push_cmsg 128 empty_buffer m with
  | Ok b1 => firstn 3 (skipn 2 (data b1)) = [2; 1; 128] /\ enc_int 128 = [2; 2; 0; 128]
  | _ => False
  end.
Proof. vm_compute. split; reflexivity. Qed.

(* with 128 or more octets of authentication parameters the bookmark (+2 for a two-octet header)
   points one octet too early: into the length octets *)
Example bookmark_needs_short_auth :
  let m := {| m_msg_id := 1; m_flag_auth := true; m_flag_priv := false; m_flag_report := false;
              m_usm := {| u_engine_id := []; u_engine_boots := 0; u_engine_time := 0;
                          u_user_name := []; u_auth_params := repeat 7 128; u_privacy_params := [] |};
              m_data := Encrypted [] |} in
  match push_v3 empty_buffer m with
  | Ok bf => firstn 2 (skipn (Z.to_nat (get_bookmark bf)) (data bf)) = [128; 7]
  | _ => False
  end.
Proof. vm_compute. reflexivity. Qed.

(* ------------------------------------------------------------------ *)
(* Print Assumptions (observed with coqc 8.16.1): each prints "Closed under the global context"
     push_oid_emits push_null_emits push_vars_rev_emits push_get_emits push_getbulk_emits push_pdu_emits
     push_pdu_get_emits push_pdu_getnext_emits push_pdu_getbulk_emits push_cmsg_emits push_cmsg_emits_rec
     push_cmsg_out_of_buffer push_scoped_emits push_usm_emits usm_bookmark_eq push_msgdata_emits
     push_v3_emits_bm push_v3_emits push_v3_bookmark push_v3_out_of_buffer *)

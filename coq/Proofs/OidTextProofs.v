(* C08: OID text <-> X.690 content octets.
   Every dotted-decimal string handed to the API is either refused (Err InvalidData, never a panic)
   or transmitted as exactly the OID it denotes, in canonical X.690 form; every well-formed string is
   accepted; and the canonical text of an OID is printed back identically. *)
From GS Require Import Model.Base Gen.Constants Model.Ber Model.OidText Spec.X690 Proofs.OidLemmas.
Local Ltac Zify.zify_post_hook ::= Z.div_mod_to_equations.

(* ---------- reference semantics (independent of the parser) ---------- *)

Definition is_dig (c : Z) : Prop := 48 <= c <= 57.

(* Rust's u32::from_str grammar without the range check: '+'? digit+ *)
Inductive arc_text : bytes -> Z -> Prop :=
| arc_plain : forall ds, ds <> [] -> Forall is_dig ds -> arc_text ds (digits_value ds)
| arc_plus : forall ds, ds <> [] -> Forall is_dig ds -> arc_text (43 :: ds) (digits_value ds).

(* parts joined by '.' *)
Fixpoint join_dot (parts : list bytes) : bytes :=
  match parts with
  | [] => []
  | p :: r => match r with [] => p | _ :: _ => p ++ DOT :: join_dot r end
  end.

(* [parts] is the decomposition of [s] at every '.' *)
Definition splits (s : bytes) (parts : list bytes) : Prop :=
  parts <> [] /\ Forall (fun p => ~ In DOT p) parts /\ s = join_dot parts.

Definition denotes (s : bytes) (arcs : list Z) : Prop :=
  exists parts, splits s parts /\ Forall2 arc_text parts arcs.

Definition arc_ok (a : Z) : Prop := 0 <= a <= 4294967295.

Definition valid_arcs (arcs : list Z) : Prop :=
  (2 <= length arcs)%nat /\ nth 0 arcs 0 <= 2 /\ nth 1 arcs 0 <= 39 /\ Forall arc_ok arcs.

(* arcs in decimal, no sign, no leading zeros, joined by '.' *)
Definition canonical_text (arcs : list Z) : bytes := join_dot (map dec arcs).

(* ---------- split_dot is the reference split ---------- *)

Lemma join_dot_cons2 : forall p q r, join_dot (p :: q :: r) = p ++ DOT :: join_dot (q :: r).
Proof. reflexivity. Qed.

Lemma split_dot_join : forall parts, parts <> [] -> Forall (fun p => ~ In DOT p) parts ->
  split_dot (join_dot parts) [] = parts.
Proof.
  induction parts as [|p r IH]; intros Hne Hno; [congruence|].
  inversion Hno as [|? ? Hp Hr]; subst.
  destruct r as [|q r].
  - cbn [join_dot]. rewrite split_dot_nodot by exact Hp. reflexivity.
  - rewrite join_dot_cons2. rewrite split_dot_app by exact Hp.
    cbn [rev app]. f_equal. apply IH; [discriminate | exact Hr].
Qed.

Lemma split_dot_spec : forall s cur, ~ In DOT cur ->
  split_dot s cur <> [] /\ Forall (fun p => ~ In DOT p) (split_dot s cur) /\
  rev cur ++ s = join_dot (split_dot s cur).
Proof.
  induction s as [|c r IH]; intros cur Hcur.
  - cbn [split_dot]. split; [discriminate|]. split.
    + constructor; [|constructor]. rewrite <- in_rev. exact Hcur.
    + cbn [join_dot]. apply app_nil_r.
  - cbn [split_dot]. destruct (Z.eqb_spec c DOT) as [->|Hne].
    + destruct (IH [] (fun H => H)) as (Hn & Hf & Hj). split; [discriminate|]. split.
      * constructor; [|exact Hf]. rewrite <- in_rev. exact Hcur.
      * destruct (split_dot r []) as [|q qs] eqn:E; [congruence|].
        rewrite join_dot_cons2. rewrite <- Hj. reflexivity.
    + assert (Hc : ~ In DOT (c :: cur)).
      { intros [H|H]; [congruence | exact (Hcur H)]. }
      destruct (IH (c :: cur) Hc) as (Hn & Hf & Hj).
      split; [exact Hn|]. split; [exact Hf|]. rewrite <- Hj. cbn [rev].
      rewrite <- app_assoc. reflexivity.
Qed.

Theorem splits_split_dot : forall s parts, splits s parts <-> split_dot s [] = parts.
Proof.
  intros s parts. split.
  - intros (Hne & Hno & ->). apply split_dot_join; assumption.
  - intros <-. destruct (split_dot_spec s [] (fun H => H)) as (Hn & Hf & Hj).
    split; [exact Hn|]. split; [exact Hf|]. exact Hj.
Qed.

Lemma splits_unique : forall s p1 p2, splits s p1 -> splits s p2 -> p1 = p2.
Proof.
  intros s p1 p2 H1 H2. apply splits_split_dot in H1. apply splits_split_dot in H2. congruence.
Qed.

Lemma splits_exists : forall s, splits s (split_dot s []).
Proof. intro s. apply splits_split_dot. reflexivity. Qed.

(* ---------- parse_u32 is arc_text plus the u32 range ---------- *)

Lemma is_dig_forall : forall l, all_digits l = true <-> Forall is_dig l.
Proof. exact all_digits_forall. Qed.

Lemma arc_text_nonneg : forall p n, arc_text p n -> 0 <= n.
Proof.
  intros p n H. inversion H as [ds Hne Hd|ds Hne Hd]; subst;
    apply is_dig_forall in Hd; apply digits_value_bounds in Hd; lia.
Qed.

Lemma arc_text_fun : forall p n m, arc_text p n -> arc_text p m -> n = m.
Proof.
  intros p n m Hn Hm.
  inversion Hn as [ds Hne Hd|ds Hne Hd]; inversion Hm as [ds' Hne' Hd'|ds' Hne' Hd']; subst.
  - reflexivity.
  - inversion Hd as [|? ? Hc _]. unfold is_dig in Hc. lia.
  - inversion Hd' as [|? ? Hc _]. unfold is_dig in Hc. lia.
  - congruence.
Qed.

Lemma parse_u32_arc : forall p n,
  parse_u32 p = Some n <-> arc_text p n /\ n <= 4294967295.
Proof.
  intros p n. destruct p as [|c r].
  - rewrite parse_u32_nil. split; [discriminate|]. intros [H _]. inversion H; congruence.
  - destruct (Z.eq_dec c 43) as [->|Hc].
    + rewrite parse_u32_plus, parse_digits_some. split.
      * intros (Hne & Hd & -> & Hle). split; [|exact Hle].
        apply arc_plus; [exact Hne | apply is_dig_forall; exact Hd].
      * intros [H Hle]. inversion H as [ds Hne Hd|ds Hne Hd]; subst.
        -- inversion Hd as [|? ? Hc _]. unfold is_dig in Hc. lia.
        -- repeat split; try assumption. apply is_dig_forall. exact Hd.
    + rewrite parse_u32_noplus by exact Hc. rewrite parse_digits_some. split.
      * intros (Hne & Hd & -> & Hle). split; [|exact Hle].
        apply arc_plain; [exact Hne | apply is_dig_forall; exact Hd].
      * intros [H Hle]. inversion H as [ds Hne Hd|ds Hne Hd]; subst.
        -- repeat split; try assumption. apply is_dig_forall. exact Hd.
        -- congruence.
Qed.

Lemma parse_u32_none : forall p, parse_u32 p = None ->
  forall n, arc_text p n -> 4294967295 < n.
Proof.
  intros p Hp n Hn. destruct (Z.le_gt_cases n 4294967295) as [Hle|Hgt]; [|lia].
  assert (parse_u32 p = Some n) by (apply parse_u32_arc; split; assumption). congruence.
Qed.

(* ---------- enc_rest ---------- *)

Lemma enc_rest_sound : forall parts t, enc_rest parts = Ok t ->
  exists arcs, Forall2 arc_text parts arcs /\ Forall arc_ok arcs /\ t = enc arcs.
Proof.
  induction parts as [|p r IH]; intros t H.
  - cbn [enc_rest] in H. inversion H; subst. exists []. repeat split; constructor.
  - cbn [enc_rest] in H. destruct (parse_u32 p) as [a|] eqn:Ep; [|discriminate].
    destruct (enc_rest r) as [t'| |] eqn:Er; cbn [bind] in H; try discriminate.
    inversion H; subst. destruct (IH t' eq_refl) as (arcs & Hf & Hok & ->).
    apply parse_u32_arc in Ep. destruct Ep as [Ha Hle].
    pose proof (arc_text_nonneg _ _ Ha) as H0.
    exists (a :: arcs). split; [constructor; assumption|]. split.
    + constructor; [unfold arc_ok; lia | exact Hok].
    + unfold enc. cbn [map concat]. rewrite enc_subid_base128 by lia. reflexivity.
Qed.

Lemma enc_rest_complete : forall parts arcs, Forall2 arc_text parts arcs -> Forall arc_ok arcs ->
  enc_rest parts = Ok (enc arcs).
Proof.
  intros parts arcs H. induction H as [|p a r arcs Ha Hr IH]; intros Hok.
  - reflexivity.
  - inversion Hok as [|? ? Hoka Hokr]; subst. unfold arc_ok in Hoka.
    cbn [enc_rest].
    assert (Ep : parse_u32 p = Some a) by (apply parse_u32_arc; split; [exact Ha | lia]).
    rewrite Ep, (IH Hokr). cbn [bind]. unfold enc. cbn [map concat].
    rewrite enc_subid_base128 by lia. reflexivity.
Qed.

Lemma enc_rest_total : forall parts,
  enc_rest parts = Err InvalidData \/ exists t, enc_rest parts = Ok t.
Proof.
  induction parts as [|p r IH].
  - right. exists []. reflexivity.
  - cbn [enc_rest]. destruct (parse_u32 p) as [a|]; [|left; reflexivity].
    destruct IH as [->|[t ->]]; cbn [bind]; [left; reflexivity|].
    right. eexists. reflexivity.
Qed.

(* ---------- valid_arcs, destructured ---------- *)

Lemma valid_arcs_inv : forall arcs, valid_arcs arcs ->
  exists a b r, arcs = a :: b :: r /\ 0 <= a <= 2 /\ 0 <= b <= 39 /\ Forall arc_ok r.
Proof.
  intros arcs (Hlen & Ha & Hb & Hok).
  destruct arcs as [|a [|b r]]; cbn [length] in Hlen; try lia.
  cbn [nth] in Ha, Hb. inversion Hok as [|? ? Hoa Hok']; subst.
  inversion Hok' as [|? ? Hob Hor]; subst. unfold arc_ok in Hoa, Hob.
  exists a, b, r. repeat split; try lia. exact Hor.
Qed.

Lemma valid_arcs_intro : forall a b r, 0 <= a <= 2 -> 0 <= b <= 39 -> Forall arc_ok r ->
  valid_arcs (a :: b :: r).
Proof.
  intros a b r Ha Hb Hr. unfold valid_arcs. cbn [length nth].
  repeat split; try lia. constructor; [unfold arc_ok; lia|].
  constructor; [unfold arc_ok; lia | exact Hr].
Qed.

Lemma oid_content_valid : forall a b r, 0 <= a <= 2 -> 0 <= b <= 39 ->
  oid_content (a :: b :: r) = (40 * a + b) :: enc r.
Proof.
  intros a b r Ha Hb. cbn [oid_content]. rewrite base128_small by lia. reflexivity.
Qed.

(* ---------- C08 soundness / completeness / refusal ---------- *)

Theorem C08_sound : forall s b, oid_of_text s = Ok b ->
  exists arcs, denotes s arcs /\ valid_arcs arcs /\ b = oid_content arcs.
Proof.
  intros s b H. unfold oid_of_text in H.
  pose proof (splits_exists s) as Hs.
  destruct (split_dot s []) as [|p1 rest]; [discriminate|].
  destruct (parse_u32 p1) as [first|] eqn:E1; [|discriminate].
  destruct rest as [|p2 rest']; [discriminate|].
  destruct (parse_u32 p2) as [second|] eqn:E2; [|discriminate].
  destruct ((2 <? first) || (39 <? second)) eqn:Ec; [discriminate|].
  apply orb_false_iff in Ec. destruct Ec as [Ec1 Ec2].
  apply Z.ltb_ge in Ec1. apply Z.ltb_ge in Ec2.
  destruct (enc_rest rest') as [t| |] eqn:Er; cbn [bind] in H; try discriminate.
  assert (Hb : b = wrap8 (40 * first + second) :: t) by congruence. subst b. clear H.
  apply parse_u32_arc in E1. destruct E1 as [A1 _].
  apply parse_u32_arc in E2. destruct E2 as [A2 _].
  pose proof (arc_text_nonneg _ _ A1) as N1. pose proof (arc_text_nonneg _ _ A2) as N2.
  destruct (enc_rest_sound _ _ Er) as (arcs & Hf & Hok & ->).
  exists (first :: second :: arcs). split; [|split].
  - exists (p1 :: p2 :: rest'). split; [exact Hs|]. constructor; [exact A1|].
    constructor; [exact A2 | exact Hf].
  - apply valid_arcs_intro; [lia | lia | exact Hok].
  - rewrite oid_content_valid by lia. unfold wrap8. rewrite Z.mod_small by lia. reflexivity.
Qed.

Theorem C08_complete : forall s arcs, denotes s arcs -> valid_arcs arcs ->
  oid_of_text s = Ok (oid_content arcs).
Proof.
  intros s arcs (parts & Hs & Hf) Hv.
  destruct (valid_arcs_inv _ Hv) as (a & b & r & -> & Ha & Hb & Hr).
  apply splits_split_dot in Hs. unfold oid_of_text. rewrite Hs.
  inversion Hf as [|p1 ? ps1 ? A1 Hf1]; subst.
  inversion Hf1 as [|p2 ? ps2 ? A2 Hf2]; subst.
  assert (E1 : parse_u32 p1 = Some a) by (apply parse_u32_arc; split; [exact A1 | lia]).
  assert (E2 : parse_u32 p2 = Some b) by (apply parse_u32_arc; split; [exact A2 | lia]).
  rewrite E1, E2.
  replace (2 <? a) with false by (symmetry; apply Z.ltb_ge; lia).
  replace (39 <? b) with false by (symmetry; apply Z.ltb_ge; lia).
  cbn [orb]. rewrite (enc_rest_complete _ _ Hf2 Hr). cbn [bind].
  rewrite oid_content_valid by lia. unfold wrap8. rewrite Z.mod_small by lia. reflexivity.
Qed.

Lemma oid_of_text_total : forall s,
  oid_of_text s = Err InvalidData \/ exists b, oid_of_text s = Ok b.
Proof.
  intro s. unfold oid_of_text.
  destruct (split_dot s []) as [|p1 rest]; [left; reflexivity|].
  destruct (parse_u32 p1) as [first|]; [|left; reflexivity].
  destruct rest as [|p2 rest']; [left; reflexivity|].
  destruct (parse_u32 p2) as [second|]; [|left; reflexivity].
  destruct ((2 <? first) || (39 <? second)); [left; reflexivity|].
  destruct (enc_rest_total rest') as [->|[t ->]]; cbn [bind]; [left; reflexivity|].
  right. eexists. reflexivity.
Qed.

Theorem C08_refuse : forall s,
  oid_of_text s <> Panic /\ (forall e, oid_of_text s = Err e -> e = InvalidData).
Proof.
  intro s. destruct (oid_of_text_total s) as [->|[b ->]]; split; try discriminate.
  intros e H. inversion H. reflexivity.
Qed.

(* ---------- uniqueness of the denotation ---------- *)

Lemma arcs_unique : forall parts a1 a2,
  Forall2 arc_text parts a1 -> Forall2 arc_text parts a2 -> a1 = a2.
Proof.
  intros parts a1 a2 H1. revert a2. induction H1 as [|p a r ar Ha Hr IH]; intros a2 H2.
  - inversion H2. reflexivity.
  - inversion H2 as [|? a' ? ar' Ha' Hr']; subst. f_equal.
    + eapply arc_text_fun; eassumption.
    + apply IH. exact Hr'.
Qed.

Theorem denotes_unique : forall s arcs arcs', denotes s arcs -> denotes s arcs' -> arcs = arcs'.
Proof.
  intros s arcs arcs' (p1 & S1 & F1) (p2 & S2 & F2).
  pose proof (splits_unique _ _ _ S1 S2) as E. subst p2.
  eapply arcs_unique; eassumption.
Qed.

(* never a different OID: an accepted string denotes exactly one arc list and that one is sent *)
Corollary C08_never_different : forall s b arcs, oid_of_text s = Ok b -> denotes s arcs ->
  valid_arcs arcs /\ b = oid_content arcs.
Proof.
  intros s b arcs H Hd. destruct (C08_sound _ _ H) as (arcs' & Hd' & Hv & ->).
  rewrite (denotes_unique _ _ _ Hd Hd'). split; [exact Hv | reflexivity].
Qed.

(* ---------- explicit refusal cases ---------- *)

Corollary C08_refuse_not_denoting : forall s, (forall arcs, ~ denotes s arcs) ->
  oid_of_text s = Err InvalidData.
Proof.
  intros s Hno. destruct (oid_of_text_total s) as [H|[b H]]; [exact H|].
  destruct (C08_sound _ _ H) as (arcs & Hd & _). exfalso. exact (Hno arcs Hd).
Qed.

Corollary C08_refuse_invalid : forall s arcs, denotes s arcs -> ~ valid_arcs arcs ->
  oid_of_text s = Err InvalidData.
Proof.
  intros s arcs Hd Hnv. destruct (oid_of_text_total s) as [H|[b H]]; [exact H|].
  destruct (C08_never_different _ _ _ H Hd) as [Hv _]. exfalso. exact (Hnv Hv).
Qed.

Lemma Forall2_len : forall (A B : Type) (R : A -> B -> Prop) l1 l2,
  Forall2 R l1 l2 -> length l1 = length l2.
Proof. intros A B R l1 l2 H. induction H; cbn [length]; congruence. Qed.

(* fewer than two parts *)
Corollary C08_refuse_few_parts : forall s parts, splits s parts -> (length parts < 2)%nat ->
  oid_of_text s = Err InvalidData.
Proof.
  intros s parts Hs Hlen. destruct (oid_of_text_total s) as [H|[b H]]; [exact H|].
  destruct (C08_sound _ _ H) as (arcs & (parts' & Hs' & Hf) & (Hl & _) & _).
  rewrite (splits_unique _ _ _ Hs Hs') in Hlen.
  apply Forall2_len in Hf. lia.
Qed.

Corollary C08_refuse_no_dot : forall s, ~ In DOT s -> oid_of_text s = Err InvalidData.
Proof.
  intros s Hno. apply (C08_refuse_few_parts s [s]).
  - split; [discriminate|]. split; [constructor; [exact Hno | constructor] | reflexivity].
  - cbn [length]. lia.
Qed.

(* a part that is not '+'? digit+ *)
Corollary C08_refuse_bad_part : forall s parts p, splits s parts -> In p parts ->
  (forall n, ~ arc_text p n) -> oid_of_text s = Err InvalidData.
Proof.
  intros s parts p Hs Hin Hbad. apply C08_refuse_not_denoting.
  intros arcs (parts' & Hs' & Hf). rewrite <- (splits_unique _ _ _ Hs Hs') in Hf.
  clear Hs Hs'. induction Hf as [|q a r ar Ha Hr IH]; [exact Hin|].
  destruct Hin as [->|Hin]; [exact (Hbad a Ha) | exact (IH Hin)].
Qed.

Lemma arc_text_empty : forall n, ~ arc_text [] n.
Proof. intros n H. inversion H; congruence. Qed.

Corollary C08_refuse_empty_part : forall s parts, splits s parts -> In [] parts ->
  oid_of_text s = Err InvalidData.
Proof.
  intros s parts Hs Hin. apply (C08_refuse_bad_part s parts [] Hs Hin). exact arc_text_empty.
Qed.

(* a character that is neither a digit nor a leading '+' *)
Lemma arc_text_non_digit : forall pre c post n, ~ is_dig c -> (pre <> [] \/ c <> 43) ->
  ~ arc_text (pre ++ c :: post) n.
Proof.
  intros pre c post n Hc Hlead H.
  inversion H as [ds Hne Hd Heq|ds Hne Hd Heq]; subst.
  - rewrite Forall_forall in Hd. apply Hc. apply Hd. apply in_or_app. right. left. reflexivity.
  - destruct pre as [|x pre'].
    + cbn [app] in Heq. inversion Heq; subst. destruct Hlead; congruence.
    + cbn [app] in Heq. inversion Heq; subst. rewrite Forall_forall in Hd.
      apply Hc. apply Hd. apply in_or_app. right. left. reflexivity.
Qed.

Corollary C08_refuse_non_digit : forall s parts pre c post, splits s parts ->
  In (pre ++ c :: post) parts -> ~ is_dig c -> (pre <> [] \/ c <> 43) ->
  oid_of_text s = Err InvalidData.
Proof.
  intros s parts pre c post Hs Hin Hc Hlead.
  apply (C08_refuse_bad_part s parts _ Hs Hin). intro n. apply arc_text_non_digit; assumption.
Qed.

(* a lone sign, in particular "-" anywhere *)
Corollary C08_refuse_minus : forall s parts pre post, splits s parts ->
  In (pre ++ 45 :: post) parts -> oid_of_text s = Err InvalidData.
Proof.
  intros s parts pre post Hs Hin. apply (C08_refuse_non_digit s parts pre 45 post Hs Hin).
  - unfold is_dig. lia.
  - right. lia.
Qed.

Corollary C08_refuse_arc_too_big : forall s arcs, denotes s arcs ->
  Exists (fun a => 4294967295 < a) arcs -> oid_of_text s = Err InvalidData.
Proof.
  intros s arcs Hd Hex. apply (C08_refuse_invalid s arcs Hd). intros (_ & _ & _ & Hok).
  apply Exists_exists in Hex. destruct Hex as (a & Hin & Ha).
  rewrite Forall_forall in Hok. specialize (Hok a Hin). unfold arc_ok in Hok. lia.
Qed.

Corollary C08_refuse_first_arc : forall s a r, denotes s (a :: r) -> 2 < a ->
  oid_of_text s = Err InvalidData.
Proof.
  intros s a r Hd Ha. apply (C08_refuse_invalid s _ Hd). intros (_ & H & _). cbn [nth] in H. lia.
Qed.

Corollary C08_refuse_second_arc : forall s a b r, denotes s (a :: b :: r) -> 39 < b ->
  oid_of_text s = Err InvalidData.
Proof.
  intros s a b r Hd Hb. apply (C08_refuse_invalid s _ Hd). intros (_ & _ & H & _).
  cbn [nth] in H. lia.
Qed.

(* ---------- print after parse ---------- *)

Lemma join_dot_concat : forall q r, join_dot (q :: r) = q ++ concat (map (cons DOT) r).
Proof.
  intros q r. revert q. induction r as [|p r IH]; intro q.
  - cbn [join_dot map concat]. symmetry. apply app_nil_r.
  - rewrite join_dot_cons2, IH. cbn [map concat]. reflexivity.
Qed.

Lemma print_rest_enc : forall r, Forall arc_ok r ->
  print_rest (enc r) 0 = Ok (concat (map (cons DOT) (map dec r))).
Proof.
  induction r as [|a r IH]; intros Hok; [reflexivity|].
  inversion Hok as [|? ? Ha Hr]; subst. unfold arc_ok in Ha.
  unfold enc. cbn [map concat]. rewrite print_rest_base128 by lia.
  fold (enc r). rewrite (IH Hr). reflexivity.
Qed.

Theorem C08_print_parse : forall arcs, valid_arcs arcs ->
  text_of_oid (oid_content arcs) = Ok (canonical_text arcs).
Proof.
  intros arcs Hv. destruct (valid_arcs_inv _ Hv) as (a & b & r & -> & Ha & Hb & Hr).
  rewrite oid_content_valid by lia. unfold text_of_oid, canonical_text.
  replace ((40 * a + b) / 40) with a by lia.
  replace ((40 * a + b) mod 40) with b by lia.
  rewrite (print_rest_enc _ Hr). cbn [bind map]. rewrite join_dot_cons2, join_dot_concat.
  reflexivity.
Qed.

(* the canonical text denotes the arcs it was made from *)
Lemma arc_text_dec : forall n, 0 <= n < DEC_MAX -> arc_text (dec n) n.
Proof.
  intros n Hn. rewrite <- (dec_value n Hn) at 2.
  apply arc_plain; [apply dec_nonempty | apply is_dig_forall; apply dec_digits; lia].
Qed.

Theorem canonical_text_denotes : forall arcs, arcs <> [] -> Forall arc_ok arcs ->
  denotes (canonical_text arcs) arcs.
Proof.
  intros arcs Hne Hok. exists (map dec arcs). split.
  - split; [|split].
    + destruct arcs; [congruence | discriminate].
    + apply Forall_forall. intros p Hin. apply in_map_iff in Hin.
      destruct Hin as (a & <- & Ha). rewrite Forall_forall in Hok. specialize (Hok a Ha).
      unfold arc_ok in Hok. apply all_digits_no_dot. apply dec_digits. lia.
    + reflexivity.
  - clear Hne. induction Hok as [|a r Ha Hr IH]; cbn [map]; constructor; [|exact IH].
    apply arc_text_dec. unfold arc_ok in Ha. unfold DEC_MAX. lia.
Qed.

Corollary C08_round_trip : forall s arcs, denotes s arcs -> valid_arcs arcs ->
  s = canonical_text arcs -> exists b, oid_of_text s = Ok b /\ text_of_oid b = Ok s.
Proof.
  intros s arcs Hd Hv ->. exists (oid_content arcs). split.
  - apply C08_complete; assumption.
  - apply C08_print_parse. exact Hv.
Qed.

(* the same without the redundant hypothesis, and for any spelling of the same OID:
   whatever text was accepted, the OID is printed back as its canonical text *)
Corollary C08_round_trip_canonical : forall arcs, valid_arcs arcs ->
  exists b, oid_of_text (canonical_text arcs) = Ok b /\ text_of_oid b = Ok (canonical_text arcs).
Proof.
  intros arcs Hv. apply (C08_round_trip _ arcs); [|exact Hv|reflexivity].
  destruct Hv as (Hlen & _ & _ & Hok). apply canonical_text_denotes; [|exact Hok].
  destruct arcs; [cbn [length] in Hlen; lia | discriminate].
Qed.

Corollary C08_print_after_parse : forall s b arcs, oid_of_text s = Ok b -> denotes s arcs ->
  text_of_oid b = Ok (canonical_text arcs).
Proof.
  intros s b arcs H Hd. destruct (C08_never_different _ _ _ H Hd) as [Hv ->].
  apply C08_print_parse. exact Hv.
Qed.

(* ---------- canonical_text is THE unsigned decimal text without leading zeros ---------- *)

Definition canonical_part (p : bytes) (n : Z) : Prop :=
  p <> [] /\ Forall is_dig p /\ digits_value p = n /\ (p = [48] \/ hd 0 p <> 48).

Lemma dec_canonical_part : forall n, 0 <= n < DEC_MAX -> canonical_part (dec n) n.
Proof.
  intros n Hn. split; [apply dec_nonempty|]. split; [apply is_dig_forall, dec_digits; lia|].
  split; [apply dec_value; exact Hn|].
  destruct (Z.eq_dec n 0) as [->|Hnz]; [left; reflexivity|]. right.
  destruct (dec_head n) as (d & r & -> & Hd); [lia|]. cbn [hd]. lia.
Qed.

Lemma nolead_bounds : forall c r, Forall is_dig (c :: r) -> c <> 48 ->
  10 ^ Z.of_nat (length r) <= digits_value (c :: r) < 10 ^ Z.of_nat (length (c :: r)).
Proof.
  intros c r Hd Hc. inversion Hd as [|? ? Hc' Hr]; subst. unfold is_dig in Hc'.
  split.
  - rewrite digits_value_cons. apply is_dig_forall in Hr.
    pose proof (digits_value_bounds r Hr) as Hb. nia.
  - apply digits_value_bounds. apply is_dig_forall. exact Hd.
Qed.

Lemma digits_inj : forall p q, length p = length q -> Forall is_dig p -> Forall is_dig q ->
  digits_value p = digits_value q -> p = q.
Proof.
  induction p as [|c r IH]; intros q Hlen Hp Hq Hv.
  - destruct q; [reflexivity | discriminate].
  - destruct q as [|c' r']; [discriminate|]. cbn [length] in Hlen.
    assert (Hl : length r = length r') by congruence.
    inversion Hp as [|? ? Hc Hr]; subst. inversion Hq as [|? ? Hc' Hr']; subst.
    rewrite !digits_value_cons in Hv. rewrite <- Hl in Hv.
    pose proof (digits_value_bounds r (proj2 (is_dig_forall r) Hr)) as B.
    pose proof (digits_value_bounds r' (proj2 (is_dig_forall r') Hr')) as B'.
    rewrite <- Hl in B'.
    assert (c = c') by nia. subst c'. f_equal. apply IH; try assumption. lia.
Qed.

Lemma canonical_part_unique : forall p q n, canonical_part p n -> canonical_part q n -> p = q.
Proof.
  intros p q n (Hpne & Hpd & Hpv & Hpl) (Hqne & Hqd & Hqv & Hql).
  destruct Hpl as [->|Hpl]; destruct Hql as [->|Hql]; try reflexivity.
  - exfalso. destruct q as [|c r]; [congruence|]. cbn [hd] in Hql.
    pose proof (nolead_bounds c r Hqd Hql) as [B _].
    assert (0 < 10 ^ Z.of_nat (length r)) by (apply Z.pow_pos_nonneg; lia).
    change (digits_value [48]) with 0 in Hpv. lia.
  - exfalso. destruct p as [|c r]; [congruence|]. cbn [hd] in Hpl.
    pose proof (nolead_bounds c r Hpd Hpl) as [B _].
    assert (0 < 10 ^ Z.of_nat (length r)) by (apply Z.pow_pos_nonneg; lia).
    change (digits_value [48]) with 0 in Hqv. lia.
  - destruct p as [|c r]; [congruence|]. destruct q as [|c' r']; [congruence|].
    cbn [hd] in Hpl, Hql.
    pose proof (nolead_bounds c r Hpd Hpl) as [B1 B2].
    pose proof (nolead_bounds c' r' Hqd Hql) as [B1' B2'].
    cbn [length] in B2, B2'. rewrite Nat2Z.inj_succ in B2, B2'.
    apply digits_inj; try assumption; [|congruence].
    cbn [length]. f_equal.
    destruct (Nat.lt_trichotomy (length r) (length r')) as [Hlt|[Heq|Hgt]]; [|exact Heq|]; exfalso.
    + assert (10 ^ Z.succ (Z.of_nat (length r)) <= 10 ^ Z.of_nat (length r'))
        by (apply Z.pow_le_mono_r; lia). lia.
    + assert (10 ^ Z.succ (Z.of_nat (length r')) <= 10 ^ Z.of_nat (length r))
        by (apply Z.pow_le_mono_r; lia). lia.
Qed.

Theorem canonical_text_unique : forall parts arcs, Forall arc_ok arcs ->
  Forall2 canonical_part parts arcs -> join_dot parts = canonical_text arcs.
Proof.
  intros parts arcs Hok Hf. unfold canonical_text. f_equal.
  induction Hf as [|p a r ar Hp Hr IH]; [reflexivity|].
  inversion Hok as [|? ? Ha Hok']; subst. unfold arc_ok in Ha. cbn [map]. f_equal.
  - apply (canonical_part_unique _ _ a Hp). apply dec_canonical_part. unfold DEC_MAX. lia.
  - apply IH. exact Hok'.
Qed.

Theorem canonical_text_parts : forall arcs, Forall arc_ok arcs ->
  Forall2 canonical_part (map dec arcs) arcs.
Proof.
  intros arcs Hok. induction Hok as [|a r Ha Hr IH]; cbn [map]; constructor; [|exact IH].
  apply dec_canonical_part. unfold arc_ok in Ha. unfold DEC_MAX. lia.
Qed.

(* ---------- closed sanity checks of the definitions ---------- *)

(* "1.3.6.1.2.1" *)
Example ex_parse : oid_of_text [49;46;51;46;54;46;49;46;50;46;49] = Ok [43;6;1;2;1].
Proof. vm_compute. reflexivity. Qed.
(* "+1.03.6.1.4.1.4294967295" : sign and leading zero accepted, same OID, canonical print *)
Example ex_noncanonical :
  oid_of_text [43;49;46;48;51;46;54;46;49;46;52;46;49;46;52;50;57;52;57;54;55;50;57;53]
  = Ok [43;6;1;4;1;143;255;255;255;127].
Proof. vm_compute. reflexivity. Qed.
Example ex_print : text_of_oid [43;6;1;4;1;143;255;255;255;127]
  = Ok [49;46;51;46;54;46;49;46;52;46;49;46;52;50;57;52;57;54;55;50;57;53].
Proof. vm_compute. reflexivity. Qed.
(* "1.3.4294967296", "1.40", "3.1", "1", "1..3", "1.-3", "" are refused *)
Example ex_refuse :
  map oid_of_text [[49;46;51;46;52;50;57;52;57;54;55;50;57;54]; [49;46;52;48]; [51;46;49]; [49];
                   [49;46;46;51]; [49;46;45;51]; []]
  = [Err InvalidData; Err InvalidData; Err InvalidData; Err InvalidData; Err InvalidData;
     Err InvalidData; Err InvalidData].
Proof. vm_compute. reflexivity. Qed.
Example ex_denotes : denotes [43;49;46;48;51] [1; 3].
Proof.
  exists [[43;49]; [48;51]]. split.
  - split; [discriminate|]. split; [|reflexivity].
    apply Forall_forall. intros p Hp. cbn [In] in Hp. unfold DOT.
    destruct Hp as [<-|[<-|[]]]; cbn [In]; lia.
  - constructor; [|constructor; [|constructor]].
    + apply (arc_plus [49]); [discriminate|]. repeat constructor; unfold is_dig; lia.
    + apply (arc_plain [48;51]); [discriminate|]. repeat constructor; unfold is_dig; lia.
Qed.

(* ---------- assumptions (observed: every line prints "Closed under the global context") ---------- *)
Print Assumptions splits_split_dot.
Print Assumptions C08_sound.
Print Assumptions C08_complete.
Print Assumptions C08_refuse.
Print Assumptions denotes_unique.
Print Assumptions C08_never_different.
Print Assumptions C08_refuse_not_denoting.
Print Assumptions C08_refuse_invalid.
Print Assumptions C08_refuse_few_parts.
Print Assumptions C08_refuse_no_dot.
Print Assumptions C08_refuse_bad_part.
Print Assumptions C08_refuse_empty_part.
Print Assumptions C08_refuse_non_digit.
Print Assumptions C08_refuse_minus.
Print Assumptions C08_refuse_arc_too_big.
Print Assumptions C08_refuse_first_arc.
Print Assumptions C08_refuse_second_arc.
Print Assumptions C08_print_parse.
Print Assumptions canonical_text_denotes.
Print Assumptions C08_round_trip.
Print Assumptions C08_round_trip_canonical.
Print Assumptions C08_print_after_parse.
Print Assumptions canonical_text_unique.
Print Assumptions canonical_text_parts.

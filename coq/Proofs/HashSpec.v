(* GS.Proofs.HashSpec
   One-shot ("pad, cut into 64-byte blocks, fold the compression
   function") characterisation of the streaming MD5 / SHA-1 models.
   This connects [md5] / [sha1] to the way RFC 1321 and FIPS 180 describe
   the algorithms; it is a bonus on top of GS.Proofs.HashStream. *)
From Coq Require Import ZArith List Lia.
From GS Require Import Model.Crypto.HashCommon Model.Crypto.MD5 Model.Crypto.SHA1.
From GS Require Import Proofs.HashStream.
Import ListNotations.
Open Scope Z_scope.

(* cut a byte string into 64-byte blocks (the last one may be short);
   [fuel] only has to be at least the number of blocks *)
Fixpoint blocks64 (fuel : nat) (l : list Z) : list (list Z) :=
  match fuel with
  | O => []
  | S f =>
    match l with
    | [] => []
    | _ :: _ => firstn 64 l :: blocks64 f (skipn 64 l)
    end
  end.

(* Merkle-Damgard padding for a message of n bytes: 0x80, zeros up to
   56 mod 64, then the 8 length bytes *)
Definition md_padding (lenbytes : list Z) (n : Z) : list Z :=
  128 :: repeat 0 (hs_nzeros ((n + 1) mod 64)) ++ lenbytes.

Section OneShot.
  Variable H : Type.
  Variable compress : H -> list Z -> H.

  Definition md_oneshot (iv : H) (lenbytes : list Z) (l : list Z) : H :=
    let m := l ++ md_padding lenbytes (Z.of_nat (length l)) in
    fold_left compress (blocks64 (length m) m) iv.

  (* --- the pending length is the total length mod 64 --- *)

  Definition hs_wf_total (s : hstate H) : Prop :=
    hs_wf s /\ hs_plen s = hs_total s mod 64.

  Lemma hs_wf_total_start : forall iv : H, hs_wf_total (hs_start iv).
  Proof. intro iv. split; [apply hs_wf_start | reflexivity]. Qed.

  Lemma hs_feed_wf_total : forall s b,
    hs_wf_total s -> hs_wf_total (hs_feed compress s b).
  Proof.
    intros s b [Hwf Hm]. split; [apply hs_feed_wf; exact Hwf|].
    destruct Hwf as [Hp Hl]. unfold hs_feed.
    destruct (hs_plen s =? 63) eqn:E; cbn [hs_plen hs_total].
    - apply Z.eqb_eq in E. rewrite Z.add_mod by lia. rewrite <- Hm, E. reflexivity.
    - apply Z.eqb_neq in E. rewrite Z.add_mod by lia. rewrite <- Hm.
      change (1 mod 64) with 1. rewrite Z.mod_small by lia. reflexivity.
  Qed.

  Lemma hs_update_wf_total : forall l s,
    hs_wf_total s -> hs_wf_total (hs_update compress s l).
  Proof.
    induction l as [|b l IH]; intros s Hs; [exact Hs|].
    rewrite hs_update_cons. apply IH, hs_feed_wf_total, Hs.
  Qed.

  (* --- absorbing a block-aligned string from an empty buffer --- *)

  Lemma mod64_pos_ge : forall x, 0 < x -> x mod 64 = 0 -> 64 <= x.
  Proof.
    intros x Hx Hm. apply Z.mod_divide in Hm; [|lia].
    apply Z.divide_pos_le; assumption.
  Qed.

  Lemma mod64_sub : forall x, x mod 64 = 0 -> (x - 64) mod 64 = 0.
  Proof.
    intros x Hm. replace (x - 64) with (x + (-1) * 64) by ring.
    rewrite Z_mod_plus_full. exact Hm.
  Qed.

  Lemma hs_update_aligned : forall fuel l s,
    hs_wf s -> hs_pend s = [] ->
    (length l <= fuel)%nat -> Z.of_nat (length l) mod 64 = 0 ->
    hs_update compress s l =
    mk_hstate (fold_left compress (blocks64 fuel l) (hs_h s))
              (hs_total s + Z.of_nat (length l)) 0 [].
  Proof.
    induction fuel as [|f IH]; intros l s Hwf Hp Hfuel Hmod.
    - destruct l as [|x l]; [|cbn [length] in Hfuel; lia].
      destruct s as [h t p q]. destruct Hwf as [Hpl _].
      cbn [hs_h hs_total hs_plen hs_pend] in *. subst q. cbn [length] in Hpl.
      change (Z.of_nat 0) with 0 in *. subst p.
      rewrite hs_update_nil, Z.add_0_r. reflexivity.
    - destruct l as [|x l].
      + destruct s as [h t p q]. destruct Hwf as [Hpl _].
        cbn [hs_h hs_total hs_plen hs_pend] in *. subst q. cbn [length] in Hpl.
        change (Z.of_nat 0) with 0 in *. subst p.
        rewrite hs_update_nil, Z.add_0_r. reflexivity.
      + remember (x :: l) as m eqn:Em.
        assert (Hge : 64 <= Z.of_nat (length m)).
        { apply mod64_pos_ge; [|exact Hmod]. subst m. cbn [length]. lia. }
        assert (Hf : length (firstn 64 m) = 64%nat) by (rewrite firstn_length; lia).
        assert (Hs : length (skipn 64 m) = (length m - 64)%nat) by apply skipn_length.
        assert (B : blocks64 (S f) m = firstn 64 m :: blocks64 f (skipn 64 m))
          by (subst m; reflexivity).
        rewrite B. cbn [fold_left].
        rewrite <- (firstn_skipn 64 m) at 1.
        rewrite <- hs_update_app.
        rewrite (hs_update_block H compress (firstn 64 m) s Hwf Hp Hf).
        rewrite IH.
        * cbn [hs_h hs_total]. rewrite Hs. f_equal. lia.
        * split; cbn [hs_plen hs_pend length]; [reflexivity | lia].
        * reflexivity.
        * lia.
        * rewrite Hs. rewrite Nat2Z.inj_sub by lia. apply mod64_sub. exact Hmod.
  Qed.

  (* --- the padded message is block aligned --- *)

  Lemma hs_nzeros_Z : forall p, 0 <= p < 64 ->
    Z.of_nat (hs_nzeros p) = if p <=? 56 then 56 - p else 120 - p.
  Proof.
    intros p Hp. unfold hs_nzeros. rewrite Z2Nat.id; [reflexivity|].
    destruct (p <=? 56) eqn:E; [apply Z.leb_le in E | apply Z.leb_gt in E]; lia.
  Qed.

  Lemma md_padding_aligned : forall lenbytes (l : list Z),
    length lenbytes = 8%nat ->
    Z.of_nat (length (l ++ md_padding lenbytes (Z.of_nat (length l)))) mod 64 = 0.
  Proof.
    intros lenbytes l Hlb. unfold md_padding.
    rewrite app_length. cbn [length]. rewrite app_length, repeat_length, Hlb.
    set (n := Z.of_nat (length l)).
    assert (Hn : 0 <= n) by (subst n; lia).
    assert (Hp : 0 <= (n + 1) mod 64 < 64) by (apply Z.mod_pos_bound; lia).
    assert (Hd := Z.div_mod (n + 1) 64 ltac:(lia)).
    rewrite Nat2Z.inj_add, Nat2Z.inj_succ, Nat2Z.inj_add.
    rewrite hs_nzeros_Z by exact Hp. fold n.
    change (Z.of_nat 8) with 8.
    set (p := (n + 1) mod 64) in *. set (q := (n + 1) / 64) in *.
    destruct (p <=? 56).
    - replace (n + Z.succ (56 - p + 8)) with ((q + 1) * 64) by lia.
      apply Z_mod_mult.
    - replace (n + Z.succ (120 - p + 8)) with ((q + 2) * 64) by lia.
      apply Z_mod_mult.
  Qed.

  (* --- main theorem of the section --- *)

  Theorem hs_finish_oneshot : forall iv lenbytes l,
    length lenbytes = 8%nat ->
    hs_finish compress lenbytes (hs_update compress (hs_start iv) l) =
    md_oneshot iv lenbytes l.
  Proof.
    intros iv lenbytes l Hlb. unfold hs_finish, md_oneshot.
    set (s := hs_update compress (hs_start iv) l).
    assert (F : hs_feed compress s 128 = hs_update compress (hs_start iv) (l ++ [128])).
    { subst s. rewrite <- hs_update_app. reflexivity. }
    assert (P : hs_plen (hs_feed compress s 128) = (Z.of_nat (length l) + 1) mod 64).
    { rewrite F.
      destruct (hs_update_wf_total (l ++ [128]) (hs_start iv) (hs_wf_total_start iv)) as [_ Hm].
      rewrite Hm, hs_update_total, app_length. cbn [hs_start hs_total length].
      rewrite Nat2Z.inj_add. reflexivity. }
    rewrite P, F, !hs_update_app.
    replace ((l ++ [128]) ++
             repeat 0 (hs_nzeros ((Z.of_nat (length l) + 1) mod 64)) ++ lenbytes)
      with (l ++ md_padding lenbytes (Z.of_nat (length l)))
      by (unfold md_padding; rewrite <- app_assoc; reflexivity).
    rewrite (hs_update_aligned
               (length (l ++ md_padding lenbytes (Z.of_nat (length l))))).
    - reflexivity.
    - apply hs_wf_start.
    - reflexivity.
    - apply le_n.
    - apply md_padding_aligned. exact Hlb.
  Qed.
End OneShot.

Arguments md_oneshot {H}.

(* ---------- instances ---------- *)

Definition md5_digest (h : md5_words) : list Z :=
  let '(a, b, c, d) := h in le_bytes a ++ le_bytes b ++ le_bytes c ++ le_bytes d.

Definition sha1_digest (h : sha1_words) : list Z :=
  let '(a, b, c, d, e) := h in
  be_bytes a ++ be_bytes b ++ be_bytes c ++ be_bytes d ++ be_bytes e.

(* MD5 of l = fold md5_compress over the 64-byte blocks of
   l ++ 0x80 ++ 0..0 ++ (8 * |l| as 64-bit little endian) *)
Theorem md5_oneshot : forall l,
  md5 l = md5_digest
            (md_oneshot md5_compress md5_iv (le64_bytes (8 * Z.of_nat (length l))) l).
Proof.
  intro l. unfold md5, md5_final, md5_update, md5_init.
  rewrite hs_update_total. cbn [hs_start hs_total]. rewrite Z.add_0_l.
  rewrite hs_finish_oneshot by reflexivity. reflexivity.
Qed.

(* SHA-1 of l = fold sha1_compress over the 64-byte blocks of
   l ++ 0x80 ++ 0..0 ++ (8 * |l| as 64-bit big endian) *)
Theorem sha1_oneshot : forall l,
  sha1 l = sha1_digest
             (md_oneshot sha1_compress sha1_iv (be64_bytes (8 * Z.of_nat (length l))) l).
Proof.
  intro l. unfold sha1, sha1_final, sha1_update, sha1_init.
  rewrite hs_update_total. cbn [hs_start hs_total]. rewrite Z.add_0_l.
  rewrite hs_finish_oneshot by reflexivity. reflexivity.
Qed.

(* ---------- the cheap rotation of HashCommon is the textbook one ---------- *)

Lemma rotl32_split_ok : forall x n m,
  0 <= n -> 0 <= m -> n + m = 32 ->
  rotl32_split x n m (Z.ones m) = rotl32 x n.
Proof.
  intros x n m Hn Hm Hnm. unfold rotl32_split, rotl32.
  replace (32 - n) with m by lia. f_equal.
  change MASK32 with (Z.ones 32).
  apply Z.bits_inj'. intros i Hi.
  rewrite Z.land_spec, !Z.shiftl_spec by lia.
  destruct (Z.ltb_spec i n) as [Hlt|Hge].
  - rewrite !Z.testbit_neg_r by lia. reflexivity.
  - rewrite Z.land_spec. f_equal.
    rewrite !Z.testbit_ones_nonneg by lia.
    destruct (Z.ltb_spec (i - n) m), (Z.ltb_spec i 32); try reflexivity; lia.
Qed.

Lemma sha1_rotl1_ok : forall x, sha1_rotl1 x = rotl32 x 1.
Proof. intro x. apply (rotl32_split_ok x 1 31); lia. Qed.

Lemma sha1_rotl5_ok : forall x, sha1_rotl5 x = rotl32 x 5.
Proof. intro x. apply (rotl32_split_ok x 5 27); lia. Qed.

Lemma sha1_rotl30_ok : forall x, sha1_rotl30 x = rotl32 x 30.
Proof. intro x. apply (rotl32_split_ok x 30 2); lia. Qed.

Print Assumptions md5_oneshot.
Print Assumptions sha1_oneshot.
Print Assumptions sha1_rotl30_ok.

(* Operation-level theorems about Model/Ops.v:
   C01 (part)  the operations never surface a Rust panic,
   C07         decision tables of get / get_many,
   C04         the receive loop of the community sockets. *)
From Coq Require Import ZArith List Bool Lia.
From GS Require Import Model.Base Gen.Constants Model.Ber Model.Pdu Model.OidText Model.Exc Gen.ErrorMap Model.Ops.
From GS Require Import Proofs.OpsLemmas.
Import ListNotations.
Open Scope Z_scope.

(* ================================================================== *)
(* C01 (part): no PanicException out of the operations                *)
(* ================================================================== *)

Theorem get_to_python_no_crash : forall p, get_to_python p <> Crash.
Proof.
  intros p. unfold get_to_python. destruct p as [g|g|r|b|raw]; try discriminate.
  destruct (gr_vars r) as [|vb [|vb2 rest]]; try discriminate.
  destruct (vb_value vb) eqn:Ev; try discriminate;
    apply lift_no_crash; apply value_to_py_no_panic; reflexivity.
Qed.

Lemma getmany_fold_no_crash : forall vars d, getmany_fold vars d <> Crash.
Proof.
  induction vars as [|vb r IH]; intros d; cbn [getmany_fold]; [discriminate|].
  destruct (is_data_value (vb_value vb)) eqn:Ed; [|apply IH].
  pose proof (text_of_oid_no_panic (vb_oid vb)) as Ht.
  pose proof (value_to_py_no_panic _ Ed) as Hv.
  destruct (text_of_oid (vb_oid vb)) as [k|e|]; destruct (value_to_py (vb_value vb)) as [v|e'|];
    try discriminate; try contradiction. apply IH.
Qed.

Theorem getmany_to_python_no_crash : forall p, getmany_to_python p <> Crash.
Proof.
  intros p. unfold getmany_to_python. destruct p as [g|g|r|b|raw]; try discriminate.
  apply getmany_fold_no_crash.
Qed.

Theorem getnext_to_python_no_crash : forall p it, snd (getnext_to_python p it) <> Crash.
Proof.
  intros p it. unfold getnext_to_python. destruct p as [g|g|r|b|raw]; try (cbn [snd]; discriminate).
  destruct (gr_vars r) as [|vb [|vb2 rest]]; try (cbn [snd]; discriminate).
  destruct (set_next_oid it (vb_oid vb)) as [it' ok]. destruct ok; cbn [negb]; [|cbn [snd]; discriminate].
  pose proof (text_of_oid_no_panic (vb_oid vb)) as Ht.
  destruct (vb_value vb) eqn:Ev; cbn [snd]; try discriminate;
    (destruct (text_of_oid (vb_oid vb)) as [k|e|]; [|cbn [lift obind]; discriminate|contradiction]);
    cbn [lift obind];
    match goal with |- obind (lift (value_to_py ?v)) _ <> _ =>
      pose proof (value_to_py_no_panic v eq_refl) as Hv; destruct (value_to_py v) as [x|e|];
      [cbn [lift obind]; discriminate|cbn [lift obind]; discriminate|contradiction] end.
Qed.

Lemma getbulk_fold_no_crash : forall vars it acc, snd (getbulk_fold vars it acc) <> Crash.
Proof.
  induction vars as [|vb r IH]; intros it acc; cbn [getbulk_fold]; [cbn [snd]; discriminate|].
  destruct (is_data_value (vb_value vb)) eqn:Ed; [|apply IH].
  destruct (set_next_oid it (vb_oid vb)) as [it' ok]. destruct ok; cbn [negb]; [|cbn [snd]; discriminate].
  pose proof (text_of_oid_no_panic (vb_oid vb)) as Ht.
  pose proof (value_to_py_no_panic _ Ed) as Hv.
  destruct (text_of_oid (vb_oid vb)) as [k|e|]; [|cbn [snd]; discriminate|contradiction].
  destruct (value_to_py (vb_value vb)) as [v|e'|]; [|cbn [snd]; discriminate|contradiction].
  apply IH.
Qed.

Theorem getbulk_to_python_no_crash : forall p it, snd (getbulk_to_python p it) <> Crash.
Proof.
  intros p it. unfold getbulk_to_python. destruct p as [g|g|r|b|raw]; try (cbn [snd]; discriminate).
  destruct (gr_vars r) as [|vb rest] eqn:Ev; [cbn [snd]; discriminate|].
  pose proof (getbulk_fold_no_crash (vb :: rest) it []) as H.
  destruct (getbulk_fold (vb :: rest) it []) as [it' o]. cbn [snd] in H.
  destruct o as [l|e|]; [destruct l|..]; cbn [snd]; try discriminate. exact H.
Qed.

Theorem c_recv_loop_no_crash : forall ver comm rid ds,
  (forall d, In d ds -> cmsg_decode ver d <> Panic) -> c_recv_loop ver comm rid ds <> Crashed.
Proof.
  intros ver comm rid ds. induction ds as [|d rest IH]; intros H; cbn [c_recv_loop]; [discriminate|].
  pose proof (H d (or_introl eq_refl)) as Hd.
  destruct (cmsg_decode ver d) as [m|e|]; [|discriminate|contradiction].
  destruct (c_unwrap comm rid m); [discriminate|].
  apply IH. intros d' Hin. apply H. right. exact Hin.
Qed.

(* ================================================================== *)
(* C07: decision tables                                               *)
(* ================================================================== *)

Definition is_snmp_error (e : exc) : Prop := e = ESnmpError \/ exc_parent e = Some ESnmpError.

(* re-check of the generated error map *)
Lemma err_to_exc_InvalidPdu : err_to_exc InvalidPdu = EDecode.
Proof. reflexivity. Qed.
Lemma err_to_exc_NoSuchInstance : err_to_exc NoSuchInstance = ENoSuchInstance.
Proof. reflexivity. Qed.
Lemma err_to_exc_AuthenticationFailed : err_to_exc AuthenticationFailed = EAuth.
Proof. reflexivity. Qed.
Lemma EDecode_is_snmp_error : is_snmp_error EDecode.
Proof. right. reflexivity. Qed.
Lemma ENoSuchInstance_is_snmp_error : is_snmp_error ENoSuchInstance.
Proof. right. reflexivity. Qed.
Lemma EAuth_is_snmp_error : is_snmp_error EAuth.
Proof. right. reflexivity. Qed.
Lemma error_map_family :
  is_snmp_error (err_to_exc InvalidPdu) /\ is_snmp_error (err_to_exc NoSuchInstance) /\
  is_snmp_error (err_to_exc AuthenticationFailed).
Proof. repeat split; right; reflexivity. Qed.

(* the data kinds and what Python sees for each *)
Theorem value_to_py_table : forall v, is_data_value v = true ->
  match v with
  | VInt z => value_to_py v = Ok (PvInt z)
  | VOctetString b => value_to_py v = Ok (PvBytes b)
  | VOid o => (forall t, text_of_oid o = Ok t -> value_to_py v = Ok (PvStr t)) /\
              (o = [] -> value_to_py v = Err InvalidData)
  | VIpAddress a b c d => value_to_py v = Ok (PvStr (ip_text a b c d))
  | VCounter32 z | VGauge32 z | VTimeTicks z | VCounter64 z | VUInteger32 z => value_to_py v = Ok (PvInt z)
  | VBool b => value_to_py v = Ok (PvBool b)
  | VReal r => value_to_py v = Ok (PvFloat r)
  | VOpaque b | VObjectDescriptor b => value_to_py v = Ok (PvBytes b)
  | VNull | VNoSuchObject | VNoSuchInstance | VEndOfMibView => False
  end.
Proof.
  intros v H. destruct v; cbn [is_data_value] in H; try discriminate; try reflexivity.
  split.
  - intros t Ht. cbn [value_to_py]. rewrite Ht. reflexivity.
  - intros ->. reflexivity.
Qed.

Lemma get_no_varbind : forall r, gr_vars r = [] -> get_to_python (PGetResponse r) = Return PvNone.
Proof. intros r H. cbn [get_to_python]. rewrite H. reflexivity. Qed.

Lemma get_null : forall r vb, gr_vars r = [vb] -> vb_value vb = VNull ->
  get_to_python (PGetResponse r) = Return PvNone.
Proof. intros r vb H Hv. cbn [get_to_python]. rewrite H, Hv. reflexivity. Qed.

Lemma get_nosuch : forall r vb, gr_vars r = [vb] ->
  vb_value vb = VNoSuchObject \/ vb_value vb = VNoSuchInstance \/ vb_value vb = VEndOfMibView ->
  get_to_python (PGetResponse r) = Raise ENoSuchInstance.
Proof. intros r vb H [Hv|[Hv|Hv]]; cbn [get_to_python]; rewrite H, Hv; reflexivity. Qed.

Lemma get_data : forall r vb, gr_vars r = [vb] -> is_data_value (vb_value vb) = true ->
  get_to_python (PGetResponse r) = lift (value_to_py (vb_value vb)).
Proof.
  intros r vb H Hd. cbn [get_to_python]. rewrite H.
  destruct (vb_value vb); cbn [is_data_value] in Hd; try discriminate; reflexivity.
Qed.

Lemma get_many_varbinds : forall r vb1 vb2 rest, gr_vars r = vb1 :: vb2 :: rest ->
  get_to_python (PGetResponse r) = Raise (err_to_exc InvalidPdu) /\
  get_to_python (PGetResponse r) = Raise EDecode.
Proof. intros r vb1 vb2 rest H. cbn [get_to_python]. rewrite H. split; reflexivity. Qed.

Lemma get_report : forall raw, get_to_python (PReport raw) = Raise EAuth.
Proof. reflexivity. Qed.

Lemma get_other_pdu : forall p, (forall r, p <> PGetResponse r) -> (forall raw, p <> PReport raw) ->
  get_to_python p = Raise (err_to_exc InvalidPdu) /\
  exists e, get_to_python p = Raise e /\ is_snmp_error e.
Proof.
  intros p H1 H2. destruct p as [g|g|r|b|raw]; try (split; [reflexivity|exists EDecode; split; [reflexivity|right; reflexivity]]).
  - exfalso. eapply H1; reflexivity.
  - exfalso. eapply H2; reflexivity.
Qed.

(* the whole table of get in one statement *)
Theorem get_decision_table : forall p,
  match p with
  | PGetResponse r =>
    match gr_vars r with
    | [] => get_to_python p = Return PvNone
    | [vb] =>
      match vb_value vb with
      | VNull => get_to_python p = Return PvNone
      | VNoSuchObject | VNoSuchInstance | VEndOfMibView =>
        get_to_python p = Raise ENoSuchInstance /\ is_snmp_error ENoSuchInstance
      | VInt z | VCounter32 z | VGauge32 z | VTimeTicks z | VCounter64 z | VUInteger32 z =>
        get_to_python p = Return (PvInt z)
      | VBool b => get_to_python p = Return (PvBool b)
      | VOctetString b | VOpaque b | VObjectDescriptor b => get_to_python p = Return (PvBytes b)
      | VReal x => get_to_python p = Return (PvFloat x)
      | VIpAddress a b c d => get_to_python p = Return (PvStr (ip_text a b c d))
      | VOid o =>
        match text_of_oid o with
        | Ok t => get_to_python p = Return (PvStr t)
        | Err e => get_to_python p = Raise EDecode
        | Panic => False
        end
      end
    | _ :: _ :: _ => get_to_python p = Raise (err_to_exc InvalidPdu) /\ get_to_python p = Raise EDecode /\
                     is_snmp_error EDecode
    end
  | PReport _ => get_to_python p = Raise EAuth /\ is_snmp_error EAuth
  | _ => get_to_python p = Raise EDecode /\ is_snmp_error EDecode
  end.
Proof.
  intros p. destruct p as [g|g|r|b|raw]; try (split; [reflexivity|right; reflexivity]).
  cbn [get_to_python]. destruct (gr_vars r) as [|vb [|vb2 rest]]; [reflexivity| |repeat split; right; reflexivity].
  destruct (vb_value vb) as [b|z| |b|o|b|x|a b c d|z|z|z|b|z|z| | | ]; try reflexivity;
    try (split; [reflexivity|right; reflexivity]).
  cbn [value_to_py]. pose proof (text_of_oid_no_panic o) as Hp. pose proof (text_of_oid_err o) as He.
  destruct (text_of_oid o) as [t|e|]; cbn [bind lift]; [reflexivity| |contradiction].
  rewrite (He e eq_refl). reflexivity.
Qed.

Theorem get_raises_only_snmp_errors : forall p e, get_to_python p = Raise e -> is_snmp_error e.
Proof.
  intros p e H. destruct p as [g|g|r|b|raw]; cbn [get_to_python] in H;
    try (inversion H; subst; right; reflexivity).
  destruct (gr_vars r) as [|vb [|vb2 rest]]; try discriminate; try (inversion H; subst; right; reflexivity).
  destruct (vb_value vb) as [b|z| |b|o|b|x|a b c d|z|z|z|b|z|z| | | ]; try discriminate;
    try (inversion H; subst; right; reflexivity).
  cbn [value_to_py] in H. pose proof (text_of_oid_err o) as He.
  destruct (text_of_oid o) as [t|e0|]; cbn [bind lift] in H; try discriminate.
  rewrite (He e0 eq_refl) in H. inversion H; subst. right. reflexivity.
Qed.

(* ---- get_many ---- *)

(* the dict as a finite map: lookup by key *)
Fixpoint dict_lookup (d : list (bytes * pv)) (k : bytes) : option pv :=
  match d with
  | [] => None
  | (k', v) :: r => if all_eqb k k' then Some v else dict_lookup r k
  end.

(* the last binding of k in an association list *)
Fixpoint last_binding (l : list (bytes * pv)) (k : bytes) : option pv :=
  match l with
  | [] => None
  | (k', v) :: r => match last_binding r k with
                    | Some v' => Some v'
                    | None => if all_eqb k k' then Some v else None
                    end
  end.

(* functional finite maps and the left-to-right fold of bindings *)
Definition fmap := bytes -> option pv.
Definition fempty : fmap := fun _ => None.
Definition fupd (f : fmap) (kv : bytes * pv) : fmap := fun k => if all_eqb k (fst kv) then Some (snd kv) else f k.
Definition fold_bindings (l : list (bytes * pv)) : fmap := fold_left fupd l fempty.

(* the data-valued varbinds of a reply and their conversions *)
Definition data_vars (vars : list varbind) : list varbind := filter (fun vb => is_data_value (vb_value vb)) vars.
Definition converts_to (vb : varbind) (kv : bytes * pv) : Prop :=
  text_of_oid (vb_oid vb) = Ok (fst kv) /\ value_to_py (vb_value vb) = Ok (snd kv).

Lemma dict_lookup_set : forall d k v k',
  dict_lookup (dict_set d k v) k' = if all_eqb k' k then Some v else dict_lookup d k'.
Proof.
  induction d as [|[k0 v0] r IH]; intros k v k'; cbn [dict_set dict_lookup]; [reflexivity|].
  destruct (all_eqb k k0) eqn:E; cbn [dict_lookup].
  - apply all_eqb_eq in E. subst k0. destruct (all_eqb k' k); reflexivity.
  - rewrite IH. destruct (all_eqb k' k0) eqn:E0; [|reflexivity].
    apply all_eqb_eq in E0. subst k0. rewrite all_eqb_sym, E. reflexivity.
Qed.

Lemma dict_set_keys : forall d k v,
  map fst (dict_set d k v) = if existsb (all_eqb k) (map fst d) then map fst d else map fst d ++ [k].
Proof.
  induction d as [|[k0 v0] r IH]; intros k v; cbn [dict_set map fst existsb app]; [reflexivity|].
  destruct (all_eqb k k0) eqn:E; cbn [orb map fst]; [reflexivity|].
  rewrite IH. destruct (existsb (all_eqb k) (map fst r)); reflexivity.
Qed.

Lemma existsb_all_eqb_In : forall k l, existsb (all_eqb k) l = true <-> In k l.
Proof.
  intros k l. rewrite existsb_exists. split.
  - intros [x [Hin E]]. apply all_eqb_eq in E. subst. exact Hin.
  - intros Hin. exists k. split; [exact Hin|apply all_eqb_refl].
Qed.

Lemma dict_set_nodup : forall d k v, NoDup (map fst d) -> NoDup (map fst (dict_set d k v)).
Proof.
  intros d k v H. rewrite dict_set_keys. destruct (existsb (all_eqb k) (map fst d)) eqn:E; [exact H|].
  assert (Hn : ~ In k (map fst d)).
  { intros Hin. apply existsb_all_eqb_In in Hin. congruence. }
  apply NoDup_rev in H. rewrite <- (rev_involutive (map fst d ++ [k])). apply NoDup_rev.
  rewrite rev_app_distr. cbn [rev app]. constructor; [|exact H].
  rewrite <- in_rev. exact Hn.
Qed.

Lemma fold_left_fupd_last : forall l f k,
  fold_left fupd l f k = match last_binding l k with Some v => Some v | None => f k end.
Proof.
  induction l as [|[k0 v0] r IH]; intros f k; cbn [fold_left last_binding]; [reflexivity|].
  rewrite IH. destruct (last_binding r k); [reflexivity|]. unfold fupd. cbn [fst snd].
  destruct (all_eqb k k0); reflexivity.
Qed.

Lemma fold_bindings_last : forall l k, fold_bindings l k = last_binding l k.
Proof.
  intros l k. unfold fold_bindings. rewrite fold_left_fupd_last. destruct (last_binding l k); reflexivity.
Qed.

Lemma last_binding_app : forall l1 l2 k,
  last_binding (l1 ++ l2) k = match last_binding l2 k with Some v => Some v | None => last_binding l1 k end.
Proof.
  induction l1 as [|[k0 v0] r IH]; intros l2 k; cbn [app last_binding].
  - destruct (last_binding l2 k); reflexivity.
  - rewrite IH. destruct (last_binding l2 k); [reflexivity|]. reflexivity.
Qed.

(* generalised statement: the fold started from a dict d *)
Lemma getmany_fold_spec : forall vars l d,
  Forall2 converts_to (data_vars vars) l ->
  NoDup (map fst d) ->
  exists d', getmany_fold vars d = Return d' /\
             NoDup (map fst d') /\
             forall k, dict_lookup d' k = match last_binding l k with Some v => Some v | None => dict_lookup d k end.
Proof.
  induction vars as [|vb r IH]; intros l d HF Hd; cbn [getmany_fold].
  - cbn in HF. inversion HF; subst. exists d. repeat split; auto.
  - unfold data_vars in HF. cbn [filter] in HF. fold (data_vars r) in HF.
    destruct (is_data_value (vb_value vb)) eqn:Ed.
    + inversion HF as [|? kv ? l' [Hk Hv] HF']; subst. rewrite Hk, Hv.
      destruct (IH l' (dict_set d (fst kv) (snd kv)) HF' (dict_set_nodup _ _ _ Hd)) as (d' & Hr & Hn & Hl).
      exists d'. split; [exact Hr|]. split; [exact Hn|].
      intros k. rewrite Hl. destruct kv as [k0 v0]. cbn [last_binding fst snd].
      destruct (last_binding l' k); [reflexivity|]. rewrite dict_lookup_set. destruct (all_eqb k k0); reflexivity.
    + apply IH; assumption.
Qed.

(* get_many on a response whose data-valued varbinds all convert: the result is a dict with pairwise
   distinct keys which, read as a finite map, is the left-to-right fold of the bindings (text of the OID ->
   converted value) of exactly the data-valued varbinds, later duplicates overwriting earlier ones *)
Theorem getmany_spec : forall r l,
  Forall2 converts_to (data_vars (gr_vars r)) l ->
  exists d, getmany_to_python (PGetResponse r) = Return d /\
            NoDup (map fst d) /\
            (forall k, dict_lookup d k = last_binding l k) /\
            (forall k, dict_lookup d k = fold_bindings l k).
Proof.
  intros r l HF. cbn [getmany_to_python].
  destruct (getmany_fold_spec (gr_vars r) l [] HF (NoDup_nil _)) as (d & Hr & Hn & Hl).
  exists d. split; [exact Hr|]. split; [exact Hn|].
  assert (H : forall k, dict_lookup d k = last_binding l k).
  { intros k. rewrite Hl. cbn [dict_lookup]. destruct (last_binding l k); reflexivity. }
  split; [exact H|]. intros k. rewrite fold_bindings_last. apply H.
Qed.

(* non-data varbinds (NULL, noSuchObject, noSuchInstance, endOfMibView) contribute nothing: the result
   only depends on the data-valued varbinds *)
Lemma getmany_fold_data_vars : forall vars d, getmany_fold vars d = getmany_fold (data_vars vars) d.
Proof.
  induction vars as [|vb r IH]; intros d; [reflexivity|].
  unfold data_vars. cbn [filter getmany_fold]. fold (data_vars r).
  destruct (is_data_value (vb_value vb)) eqn:Ed; [|apply IH].
  cbn [getmany_fold]. rewrite Ed.
  destruct (text_of_oid (vb_oid vb)); destruct (value_to_py (vb_value vb)); try reflexivity. apply IH.
Qed.

Theorem getmany_ignores_non_data : forall r r',
  data_vars (gr_vars r) = data_vars (gr_vars r') ->
  getmany_to_python (PGetResponse r) = getmany_to_python (PGetResponse r').
Proof.
  intros r r' H. cbn [getmany_to_python]. rewrite getmany_fold_data_vars, H, <- getmany_fold_data_vars. reflexivity.
Qed.

Lemma getmany_skip_non_data : forall vb vars d, is_data_value (vb_value vb) = false ->
  getmany_fold (vb :: vars) d = getmany_fold vars d.
Proof. intros vb vars d H. cbn [getmany_fold]. rewrite H. reflexivity. Qed.

Lemma getmany_report : forall raw, getmany_to_python (PReport raw) = Raise EAuth.
Proof. reflexivity. Qed.

Lemma getmany_other_pdu : forall p, (forall r, p <> PGetResponse r) -> (forall raw, p <> PReport raw) ->
  getmany_to_python p = Raise EDecode.
Proof.
  intros p H1 H2. destruct p as [g|g|r|b|raw]; try reflexivity.
  - exfalso. eapply H1; reflexivity.
  - exfalso. eapply H2; reflexivity.
Qed.

(* ================================================================== *)
(* C04: the receive loop                                              *)
(* ================================================================== *)

Definition skippable (ver : Z) (comm : bytes) (rid : Z) (d : bytes) : Prop :=
  exists m, cmsg_decode ver d = Ok m /\ c_unwrap comm rid m = None.
Definition acceptable (ver : Z) (comm : bytes) (rid : Z) (d : bytes) (p : pdu) : Prop :=
  exists m, cmsg_decode ver d = Ok m /\ c_unwrap comm rid m = Some p.

Theorem c_unwrap_some : forall comm rid m p,
  c_unwrap comm rid m = Some p ->
  p = cm_pdu m /\ cm_community m = comm /\ (pdu_request_id p = Some rid \/ exists raw, p = PReport raw).
Proof.
  intros comm rid m p H. unfold c_unwrap in H.
  destruct (all_eqb (cm_community m) comm) eqn:Ec; cbn [negb] in H; [|discriminate].
  destruct (pdu_check (cm_pdu m) rid) eqn:Ek; cbn [negb] in H; [|discriminate].
  inversion H; subst p. split; [reflexivity|]. split; [apply all_eqb_eq; exact Ec|].
  unfold pdu_check in Ek. destruct (cm_pdu m) as [g|g|r|b|raw]; cbn [pdu_request_id] in *;
    try (left; apply Z.eqb_eq in Ek; subst; reflexivity).
  right. exists raw. reflexivity.
Qed.

(* the converse: what is accepted *)
Lemma c_unwrap_none : forall comm rid m,
  c_unwrap comm rid m = None <->
  cm_community m <> comm \/ exists i, pdu_request_id (cm_pdu m) = Some i /\ i <> rid.
Proof.
  intros comm rid m. unfold c_unwrap, pdu_check.
  destruct (all_eqb (cm_community m) comm) eqn:Ec; cbn [negb].
  - apply all_eqb_eq in Ec. destruct (pdu_request_id (cm_pdu m)) as [i|] eqn:Ei.
    + destruct (rid =? i) eqn:E; cbn [negb]; split; intros H; try discriminate; try reflexivity.
      * apply Z.eqb_eq in E. destruct H as [H|[j [Hj Hn]]]; [contradiction|]. inversion Hj; subst. contradiction.
      * right. exists i. split; [reflexivity|]. apply Z.eqb_neq in E. congruence.
    + cbn [negb]. split; intros H; [discriminate|]. destruct H as [H|[j [Hj _]]]; [contradiction|discriminate].
  - apply all_eqb_neq in Ec. split; auto.
Qed.

Theorem c_recv_loop_delivered : forall ver comm rid ds p rest,
  c_recv_loop ver comm rid ds = Delivered p rest ->
  exists pre d, ds = pre ++ d :: rest /\ Forall (skippable ver comm rid) pre /\ acceptable ver comm rid d p.
Proof.
  intros ver comm rid ds. induction ds as [|d0 ds IH]; intros p rest H; cbn [c_recv_loop] in H; [discriminate|].
  destruct (cmsg_decode ver d0) as [m|e|] eqn:Ed; try discriminate.
  destruct (c_unwrap comm rid m) as [p0|] eqn:Eu.
  - inversion H; subst. exists [], d0. split; [reflexivity|]. split; [constructor|]. exists m. auto.
  - destruct (IH _ _ H) as (pre & d & -> & Hpre & Hacc). exists (d0 :: pre), d.
    split; [reflexivity|]. split; [|exact Hacc]. constructor; [|exact Hpre]. exists m. auto.
Qed.

Theorem c_recv_loop_skips : forall ver comm rid pre ds,
  Forall (skippable ver comm rid) pre ->
  c_recv_loop ver comm rid (pre ++ ds) = c_recv_loop ver comm rid ds.
Proof.
  intros ver comm rid pre ds H. induction H as [|d pre [m [Hd Hu]] _ IH]; [reflexivity|].
  cbn [app c_recv_loop]. rewrite Hd, Hu. exact IH.
Qed.

(* consequence: a matching reply behind any number of skipped datagrams is delivered *)
Corollary c_recv_loop_later_reply : forall ver comm rid pre d p rest,
  Forall (skippable ver comm rid) pre -> acceptable ver comm rid d p ->
  c_recv_loop ver comm rid (pre ++ d :: rest) = Delivered p rest.
Proof.
  intros ver comm rid pre d p rest Hpre [m [Hd Hu]]. rewrite c_recv_loop_skips by exact Hpre.
  cbn [c_recv_loop]. rewrite Hd, Hu. reflexivity.
Qed.

Theorem c_recv_loop_failed : forall ver comm rid ds e rest,
  c_recv_loop ver comm rid ds = Failed e rest ->
  exists pre d er, ds = pre ++ d :: rest /\ Forall (skippable ver comm rid) pre /\
                   cmsg_decode ver d = Err er /\ e = err_to_exc er /\ e = EDecode.
Proof.
  intros ver comm rid ds. induction ds as [|d0 ds IH]; intros e rest H; cbn [c_recv_loop] in H; [discriminate|].
  destruct (cmsg_decode ver d0) as [m|er|] eqn:Ed; try discriminate.
  - destruct (c_unwrap comm rid m) as [p0|] eqn:Eu; [discriminate|].
    destruct (IH _ _ H) as (pre & d & er & -> & Hpre & Hd & He & He2). exists (d0 :: pre), d, er.
    split; [reflexivity|]. split; [|auto]. constructor; [|exact Hpre]. exists m. auto.
  - inversion H; subst. exists [], d0, er. split; [reflexivity|]. split; [constructor|].
    split; [exact Ed|]. split; [reflexivity|]. eapply cmsg_decode_derr; eauto.
Qed.

(* the finite fact: every decode-path error kind is SnmpDecodeError *)
Theorem decode_errors_map_to_EDecode : forall er,
  In er [Incomplete; UnexpectedTag; InvalidTagFormat; UnknownPdu; InvalidPdu; InvalidData; UnsupportedTag;
         TrailingData; InvalidVersion; UnknownSecurityModel] -> err_to_exc er = EDecode.
Proof.
  intros er H. cbn [In] in H.
  repeat (destruct H as [H|H]; [subst; reflexivity|]). contradiction.
Qed.

Theorem c_recv_loop_timeout : forall ver comm rid ds,
  c_recv_loop ver comm rid ds = TimedOut <-> Forall (skippable ver comm rid) ds.
Proof.
  intros ver comm rid ds. split.
  - induction ds as [|d0 ds IH]; intros H; [constructor|]. cbn [c_recv_loop] in H.
    destruct (cmsg_decode ver d0) as [m|er|] eqn:Ed; try discriminate.
    destruct (c_unwrap comm rid m) as [p0|] eqn:Eu; [discriminate|].
    constructor; [exists m; auto|apply IH; exact H].
  - intros H. rewrite <- (app_nil_r ds). rewrite c_recv_loop_skips by exact H. reflexivity.
Qed.

Corollary C04_never_wrong_request : forall ver comm rid ds r rest,
  c_recv_loop ver comm rid ds = Delivered (PGetResponse r) rest -> gr_request_id r = rid.
Proof.
  intros ver comm rid ds r rest H.
  destruct (c_recv_loop_delivered _ _ _ _ _ _ H) as (pre & d & _ & _ & (m & _ & Hu)).
  apply c_unwrap_some in Hu. destruct Hu as (_ & _ & [Hid|[raw Hr]]); [|discriminate].
  cbn [pdu_request_id] in Hid. inversion Hid. reflexivity.
Qed.

(* and never a reply for another community *)
Corollary C04_never_wrong_community : forall ver comm rid ds p rest,
  c_recv_loop ver comm rid ds = Delivered p rest ->
  exists pre d m, ds = pre ++ d :: rest /\ cmsg_decode ver d = Ok m /\ cm_community m = comm /\ cm_pdu m = p.
Proof.
  intros ver comm rid ds p rest H.
  destruct (c_recv_loop_delivered _ _ _ _ _ _ H) as (pre & d & Hds & _ & (m & Hd & Hu)).
  apply c_unwrap_some in Hu. destruct Hu as (Hp & Hc & _).
  exists pre, d, m. auto.
Qed.

(* every exception raised by the receive loop is SnmpDecodeError *)
Corollary c_recv_loop_failed_decode : forall ver comm rid ds e rest,
  c_recv_loop ver comm rid ds = Failed e rest -> e = EDecode /\ is_snmp_error e.
Proof.
  intros ver comm rid ds e rest H.
  destruct (c_recv_loop_failed _ _ _ _ _ _ H) as (_ & _ & _ & _ & _ & _ & _ & He). subst. split; [reflexivity|].
  right. reflexivity.
Qed.

(* get_many: the hypothesis "every data-valued varbind converts" in existential form *)
Corollary getmany_spec_exists : forall r,
  Forall (fun vb => exists kv, converts_to vb kv) (data_vars (gr_vars r)) ->
  exists l d, Forall2 converts_to (data_vars (gr_vars r)) l /\
              getmany_to_python (PGetResponse r) = Return d /\ NoDup (map fst d) /\
              (forall k, dict_lookup d k = last_binding l k) /\ (forall k, dict_lookup d k = fold_bindings l k).
Proof.
  intros r H.
  assert (Hl : exists l, Forall2 converts_to (data_vars (gr_vars r)) l).
  { induction H as [|vb vars [kv Hkv] _ [l IH]]; [exists []; constructor|]. exists (kv :: l). constructor; assumption. }
  destruct Hl as [l Hl]. destruct (getmany_spec r l Hl) as (d & H1 & H2 & H3 & H4). exists l, d. auto.
Qed.

(* when a data-valued varbind does not convert (only a VOid with empty contents, or an empty name) *)
Lemma getmany_conversion_failure : forall vb vars d,
  is_data_value (vb_value vb) = true ->
  (forall kv, ~ converts_to vb kv) ->
  getmany_fold (vb :: vars) d = Raise ERuntime.
Proof.
  intros vb vars d Hd Hn. cbn [getmany_fold]. rewrite Hd.
  pose proof (text_of_oid_no_panic (vb_oid vb)) as Ht. pose proof (value_to_py_no_panic _ Hd) as Hv.
  destruct (text_of_oid (vb_oid vb)) as [k|e|] eqn:Ek; destruct (value_to_py (vb_value vb)) as [v|e'|] eqn:Ev;
    try reflexivity; try contradiction.
  exfalso. apply (Hn (k, v)). split; assumption.
Qed.

(* ------------------------------------------------------------------ *)
(* Assumptions (observed with Coq 8.16.1: every line prints "Closed under the global context") *)
(* ------------------------------------------------------------------ *)
Print Assumptions get_to_python_no_crash.
Print Assumptions getmany_to_python_no_crash.
Print Assumptions getnext_to_python_no_crash.
Print Assumptions getbulk_to_python_no_crash.
Print Assumptions c_recv_loop_no_crash.
Print Assumptions get_decision_table.
Print Assumptions value_to_py_table.
Print Assumptions get_raises_only_snmp_errors.
Print Assumptions error_map_family.
Print Assumptions getmany_spec.
Print Assumptions getmany_spec_exists.
Print Assumptions getmany_ignores_non_data.
Print Assumptions c_unwrap_some.
Print Assumptions c_recv_loop_delivered.
Print Assumptions c_recv_loop_skips.
Print Assumptions c_recv_loop_later_reply.
Print Assumptions c_recv_loop_failed.
Print Assumptions c_recv_loop_failed_decode.
Print Assumptions decode_errors_map_to_EDecode.
Print Assumptions c_recv_loop_timeout.
Print Assumptions C04_never_wrong_request.
Print Assumptions C04_never_wrong_community.

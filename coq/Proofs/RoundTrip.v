(* (D) Message round trips (C15) and response decoding at every varbind position (C02). *)
From GS Require Import Model.Base Gen.Constants Model.Ber Model.Pdu Spec.X690
  Proofs.RtLemmas Proofs.HeaderRt Proofs.IntDecProofs Proofs.ValueProofs.
From Coq Require Import ZArith List Bool Lia.
Import ListNotations.
Open Scope Z_scope.
Open Scope bool_scope.

(* ---- length bookkeeping ---- *)
Lemma len_enc_len_bounds n : 1 <= len (enc_len n) <= 3.
Proof.
  unfold enc_len. destruct (n <? 128); [|destruct (n <? 256)]; repeat rewrite len_cons; rewrite len_nil; lia.
Qed.

Lemma len_tlv_lower tag c : len c + 2 <= len (tlv tag c).
Proof. unfold tlv. rewrite len_cons, len_app. pose proof (len_enc_len_bounds (len c)). lia. Qed.

Lemma len_concat_in {A} (f : A -> bytes) l x : In x l -> len (f x) <= len (concat (map f l)).
Proof.
  induction l as [|y l IH]; intros Hin; [contradiction|].
  cbn [map concat]. rewrite len_app. destruct Hin as [->|Hin].
  - pose proof (len_nonneg (concat (map f l))). lia.
  - specialize (IH Hin). pose proof (len_nonneg (f y)). lia.
Qed.

Lemma length_concat_ge {A} (f : A -> bytes) l : (forall x, f x <> []) ->
  (length l <= length (concat (map f l)))%nat.
Proof.
  intros Hne. induction l as [|y l IH]; [cbn; lia|].
  cbn [map concat length]. rewrite app_length. specialize (Hne y).
  destruct (f y); [congruence|cbn [length]; lia].
Qed.

Lemma tlv_nonempty tag c : tlv tag c <> [].
Proof. unfold tlv. discriminate. Qed.

Ltac len_fact_for x :=
  lazymatch x with
  | tlv ?t ?c =>
      lazymatch goal with
      | _ : len c + 2 <= len (tlv t c) |- _ => fail
      | _ => pose proof (len_tlv_lower t c)
      end
  | ?a ++ ?b =>
      lazymatch goal with
      | _ : len (a ++ b) = len a + len b |- _ => fail
      | _ => pose proof (len_app a b)
      end
  | _ =>
      lazymatch goal with
      | _ : 0 <= len x |- _ => fail
      | _ => pose proof (len_nonneg x)
      end
  end.
Ltac len_facts :=
  repeat match goal with
  | H : context [len ?x] |- _ => len_fact_for x
  | |- context [len ?x] => len_fact_for x
  end.
(* solve a length inequality from the size bound on the enclosing element *)
Ltac lens :=
  unfold enc_v3, enc_cmsg, enc_scoped, enc_usm, enc_varbinds, enc_varbind,
         enc_int, enc_octets, enc_oid, enc_null in *;
  len_facts; lia.

(* ---- variants without trailing octets ---- *)
Definition i64 (v : Z) : Prop := - 2 ^ 63 <= v < 2 ^ 63.

Lemma int_from_ber_enc_int_nil v : i64 v -> int_from_ber (enc_int v) = Ok ([], v).
Proof. intros Hv. rewrite <- (app_nil_r (enc_int v)). apply int_from_ber_enc_int. exact Hv. Qed.

Lemma sequence_from_ber_tlv_nil b : len b < 65536 -> sequence_from_ber (tlv 48 b) = Ok ([], b).
Proof. intros Hb. rewrite <- (app_nil_r (tlv 48 b)). apply sequence_from_ber_tlv. exact Hb. Qed.

Lemma octetstring_from_ber_enc_nil b : len b < 65536 -> octetstring_from_ber (enc_octets b) = Ok ([], b).
Proof. intros Hb. rewrite <- (app_nil_r (enc_octets b)). apply octetstring_from_ber_enc. exact Hb. Qed.

Lemma null_from_ber_enc_nil : null_from_ber enc_null = Ok ([], tt).
Proof. exact (null_from_ber_enc []). Qed.

(* ---- request varbind lists ---- *)
Lemma parse_var_enc oid rest : len (enc_varbind oid) < 65536 ->
  parse_var (enc_varbind oid ++ rest) = Ok (rest, oid).
Proof.
  intros Hl. unfold parse_var. unfold enc_varbind at 1.
  rewrite sequence_from_ber_tlv by lens. cbn [bind].
  rewrite oid_from_ber_enc by lens. cbn [bind].
  rewrite null_from_ber_enc_nil. reflexivity.
Qed.

Lemma req_vars_S f v_tail acc : v_tail <> [] ->
  req_vars (S f) v_tail acc = ('(rest, oid) <- parse_var v_tail ;; req_vars f rest (oid :: acc)).
Proof. destruct v_tail; [congruence|reflexivity]. Qed.

Lemma req_vars_nil f acc : req_vars f [] acc = Ok (rev acc).
Proof. destruct f; reflexivity. Qed.

Lemma enc_varbind_app_nonempty o rest : enc_varbind o ++ rest <> [].
Proof. unfold enc_varbind, tlv. discriminate. Qed.

Lemma req_vars_enc : forall oids fuel acc, (length oids <= fuel)%nat ->
  (forall o, In o oids -> len (enc_varbind o) < 65536) ->
  req_vars fuel (concat (map enc_varbind oids)) acc = Ok (rev acc ++ oids).
Proof.
  induction oids as [|o oids IH]; intros fuel acc Hf Hb.
  - cbn [map concat]. rewrite req_vars_nil, app_nil_r. reflexivity.
  - cbn [map concat]. destruct fuel as [|f]; [cbn [length] in Hf; lia|].
    rewrite req_vars_S by apply enc_varbind_app_nonempty.
    rewrite parse_var_enc by (apply Hb; left; reflexivity). cbn [bind].
    rewrite IH; [|cbn [length] in Hf; lia|intros o' Ho'; apply Hb; right; exact Ho'].
    cbn [rev]. rewrite <- app_assoc. reflexivity.
Qed.

Lemma req_vars_enc_varbinds oids : len (concat (map enc_varbind oids)) < 65536 ->
  req_vars (length (concat (map enc_varbind oids))) (concat (map enc_varbind oids)) [] = Ok oids.
Proof.
  intros Hl. rewrite req_vars_enc; [reflexivity| |].
  - apply length_concat_ge. intros o. unfold enc_varbind. apply tlv_nonempty.
  - intros o Ho. pose proof (len_concat_in enc_varbind oids o Ho). lia.
Qed.

(* ---- D6: request PDUs ---- *)
Definition pdu_of_req (r : req) : pdu :=
  match r with
  | RGet id oids => PGetRequest {| g_request_id := id; g_vars := oids |}
  | RGetNext id oids => PGetNextRequest {| g_request_id := id; g_vars := oids |}
  | RGetBulk id nr mr oids =>
      PGetBulkRequest {| gb_request_id := id; gb_non_repeaters := nr; gb_max_repetitions := mr; gb_vars := oids |}
  end.

Definition req_ids (r : req) : Prop :=
  match r with
  | RGet id _ | RGetNext id _ => i64 id
  | RGetBulk id nr mr _ => i64 id /\ i64 nr /\ i64 mr
  end.
Definition req_oids (r : req) : list bytes :=
  match r with RGet _ oids | RGetNext _ oids | RGetBulk _ _ _ oids => oids end.

(* integers in the signed 64-bit range, OIDs made of octets, and the whole PDU shorter than 64 KiB *)
Definition req_wf (r : req) : Prop :=
  req_ids r /\ Forall wfb (req_oids r) /\ len (enc_req r) < 65536.

Lemma i64_0 : i64 0.
Proof. unfold i64. lia. Qed.

Lemma get_decode_enc id oids : i64 id -> len (enc_varbinds oids) < 65536 ->
  get_decode (enc_int id ++ enc_int 0 ++ enc_int 0 ++ enc_varbinds oids) =
  Ok {| g_request_id := id; g_vars := oids |}.
Proof.
  intros Hid Hl. unfold get_decode.
  rewrite int_from_ber_enc_int by exact Hid. cbn [bind].
  rewrite int_from_ber_enc_int by exact i64_0. cbn [bind negb Z.eqb].
  rewrite int_from_ber_enc_int by exact i64_0. cbn [bind negb Z.eqb].
  unfold enc_varbinds in *. rewrite sequence_from_ber_tlv_nil by lens. cbn [bind].
  rewrite req_vars_enc_varbinds by lens. reflexivity.
Qed.

Lemma getbulk_decode_enc id nr mr oids : i64 id -> i64 nr -> i64 mr -> len (enc_varbinds oids) < 65536 ->
  getbulk_decode (enc_int id ++ enc_int nr ++ enc_int mr ++ enc_varbinds oids) =
  Ok {| gb_request_id := id; gb_non_repeaters := nr; gb_max_repetitions := mr; gb_vars := oids |}.
Proof.
  intros Hid Hnr Hmr Hl. unfold getbulk_decode.
  rewrite int_from_ber_enc_int by exact Hid. cbn [bind].
  rewrite int_from_ber_enc_int by exact Hnr. cbn [bind].
  rewrite int_from_ber_enc_int by exact Hmr. cbn [bind].
  unfold enc_varbinds in *. rewrite sequence_from_ber_tlv_nil by lens. cbn [bind].
  rewrite req_vars_enc_varbinds by lens. reflexivity.
Qed.

(* the decoder ignores whatever follows the PDU *)
Theorem pdu_decode_enc_req_app r s : req_ids r -> len (enc_req r) < 65536 ->
  pdu_decode (enc_req r ++ s) = Ok (pdu_of_req r).
Proof.
  intros Hids Hl. unfold pdu_decode.
  destruct r as [id oids|id oids|id nr mr oids]; cbn [req_ids] in Hids; unfold enc_req in *.
  - rewrite option_from_ber_tlv; try reflexivity; try lia; try discriminate;
      [|left; reflexivity|lens|pose proof (len_enc_int id Hids); lens].
    cbn [bind]. change (Z.land 160 31) with 0. cbn [Z.eqb PDU_GET_REQUEST].
    rewrite get_decode_enc by (try exact Hids; lens). reflexivity.
  - rewrite option_from_ber_tlv; try reflexivity; try lia; try discriminate;
      [|left; reflexivity|lens|pose proof (len_enc_int id Hids); lens].
    cbn [bind]. change (Z.land 161 31) with 1.
    cbn [Z.eqb Pos.eqb PDU_GET_REQUEST PDU_GETNEXT_REQUEST].
    rewrite get_decode_enc by (try exact Hids; lens). reflexivity.
  - destruct Hids as (Hid & Hnr & Hmr).
    rewrite option_from_ber_tlv; try reflexivity; try lia; try discriminate;
      [|left; reflexivity|lens|pose proof (len_enc_int id Hid); lens].
    cbn [bind]. change (Z.land 165 31) with 5.
    cbn [Z.eqb Pos.eqb PDU_GET_REQUEST PDU_GETNEXT_REQUEST PDU_GET_RESPONSE PDU_GET_BULK_REQUEST].
    rewrite getbulk_decode_enc by (assumption || lens). reflexivity.
Qed.

Theorem pdu_decode_enc_req : forall r, req_wf r -> pdu_decode (enc_req r) = Ok (pdu_of_req r).
Proof.
  intros r (Hids & _ & Hl). rewrite <- (app_nil_r (enc_req r)). apply pdu_decode_enc_req_app; assumption.
Qed.

(* ---- D7: community messages (v1 / v2c) ---- *)
Lemma as_u8_small v : 0 <= v < 256 -> as_u8 v = v.
Proof. intros Hv. unfold as_u8. apply Z.mod_small. exact Hv. Qed.

Theorem cmsg_decode_enc_cmsg_strong ver c r :
  0 <= ver < 256 -> req_ids r -> len (enc_cmsg ver c r) < 65536 ->
  cmsg_decode ver (enc_cmsg ver c r) = Ok {| cm_community := c; cm_pdu := pdu_of_req r |}.
Proof.
  intros Hver Hids Hl. unfold cmsg_decode. unfold enc_cmsg at 1.
  rewrite sequence_from_ber_tlv_nil by lens. cbn [bind].
  rewrite int_from_ber_enc_int by (unfold i64; lia). cbn [bind].
  rewrite as_u8_small by exact Hver. rewrite Z.eqb_refl. cbn [negb].
  rewrite octetstring_from_ber_enc by lens. cbn [bind].
  rewrite <- (app_nil_r (enc_req r)). rewrite pdu_decode_enc_req_app by (try exact Hids; lens).
  reflexivity.
Qed.

Theorem cmsg_decode_enc_cmsg : forall ver c r,
  0 <= ver < 128 -> wfb c -> req_wf r -> len (enc_cmsg ver c r) < 65536 ->
  cmsg_decode ver (enc_cmsg ver c r) = Ok {| cm_community := c; cm_pdu := pdu_of_req r |}.
Proof.
  intros ver c r Hver _ (Hids & _ & _) Hl. apply cmsg_decode_enc_cmsg_strong; [lia|exact Hids|exact Hl].
Qed.

Corollary v1_decode_enc c r : req_ids r -> len (enc_cmsg 0 c r) < 65536 ->
  v1_decode (enc_cmsg 0 c r) = Ok {| cm_community := c; cm_pdu := pdu_of_req r |}.
Proof. intros. apply cmsg_decode_enc_cmsg_strong; [unfold SNMP_V1; lia|assumption|assumption]. Qed.

Corollary v2c_decode_enc c r : req_ids r -> len (enc_cmsg 1 c r) < 65536 ->
  v2c_decode (enc_cmsg 1 c r) = Ok {| cm_community := c; cm_pdu := pdu_of_req r |}.
Proof. intros. apply cmsg_decode_enc_cmsg_strong; [unfold SNMP_V2C; lia|assumption|assumption]. Qed.

(* ---- D9: responses, every value at every varbind position ---- *)
Definition enc_resp_varbind (nv : bytes * bytes) : bytes :=
  let '(name, valenc) := nv in tlv 48 (enc_oid name ++ valenc).
Definition enc_response (id es ei : Z) (vbs : list (bytes * bytes)) : bytes :=
  tlv 162 (enc_int id ++ enc_int es ++ enc_int ei ++ tlv 48 (concat (map enc_resp_varbind vbs))).

Lemma resp_vars_S f v_tail acc : v_tail <> [] ->
  resp_vars (S f) v_tail acc =
  ('(rest, vs) <- sequence_from_ber v_tail ;;
   match vs with
   | [] => Err Incomplete
   | t0 :: _ =>
     '(tail, oid) <-
       (if t0 =? TAG_OBJECT_ID then oid_from_ber vs
        else if t0 =? TAG_RELATIVE_OID then
          match acc with
          | [] => Err UnexpectedTag
          | prev :: _ =>
            '(t, r_oid) <- reloid_from_ber vs ;;
            oid <- try_normalize r_oid (vb_oid prev) ;;
            Ok (t, oid)
          end
        else Err UnexpectedTag) ;;
     '(_, v) <- value_from_ber tail ;;
     resp_vars f rest ({| vb_oid := oid; vb_value := v |} :: acc)
   end).
Proof. destruct v_tail; [congruence|reflexivity]. Qed.

Lemma resp_vars_nil f acc : resp_vars f [] acc = Ok (rev acc).
Proof. destruct f; reflexivity. Qed.

Lemma resp_vars_step f name x v rest acc :
  len (enc_oid name ++ x) < 65536 -> encodes_value x v ->
  resp_vars (S f) (tlv 48 (enc_oid name ++ x) ++ rest) acc =
  resp_vars f rest ({| vb_oid := name; vb_value := v |} :: acc).
Proof.
  intros Hl Hv. rewrite resp_vars_S by (unfold tlv; discriminate).
  rewrite sequence_from_ber_tlv by exact Hl. cbn [bind].
  remember (enc_oid name ++ x) as vs eqn:Evs.
  destruct vs as [|t0 tl]; [discriminate Evs|].
  assert (Ht0 : t0 = 6) by (unfold enc_oid, tlv in Evs; cbn [app] in Evs; congruence).
  subst t0. cbn [Z.eqb Pos.eqb TAG_OBJECT_ID]. rewrite Evs in *.
  rewrite oid_from_ber_enc by lens. cbn [bind].
  rewrite <- (app_nil_r x). rewrite (value_from_ber_encodes x v [] Hv). reflexivity.
Qed.

Definition vb_rel (nv : bytes * bytes) (vb : varbind) : Prop :=
  let '(name, x) := nv in encodes_value x (vb_value vb) /\ vb_oid vb = name.

Lemma resp_vars_enc : forall vbs vars fuel acc, Forall2 vb_rel vbs vars -> (length vbs <= fuel)%nat ->
  (forall nv, In nv vbs -> len (enc_resp_varbind nv) < 65536) ->
  resp_vars fuel (concat (map enc_resp_varbind vbs)) acc = Ok (rev acc ++ vars).
Proof.
  intros vbs vars fuel acc HF. revert fuel acc.
  induction HF as [|[name x] vb vbs vars Hrel HF IH]; intros fuel acc Hf Hb.
  - cbn [map concat]. rewrite resp_vars_nil, app_nil_r. reflexivity.
  - cbn [map concat]. destruct fuel as [|f]; [cbn [length] in Hf; lia|].
    destruct Hrel as [Hv Hn]. unfold enc_resp_varbind at 1.
    assert (Hl : len (tlv 48 (enc_oid name ++ x)) < 65536) by (apply (Hb (name, x)); left; reflexivity).
    rewrite (resp_vars_step f name x (vb_value vb)); [|lens|exact Hv].
    rewrite IH; [|cbn [length] in Hf; lia|intros nv Hnv; apply Hb; right; exact Hnv].
    cbn [rev]. rewrite <- app_assoc. cbn [app]. rewrite <- Hn. destruct vb; reflexivity.
Qed.

Theorem pdu_decode_enc_response_strong id es ei vbs vars s :
  i64 id -> i64 es -> i64 ei -> Forall2 vb_rel vbs vars ->
  len (enc_response id es ei vbs) < 65536 ->
  pdu_decode (enc_response id es ei vbs ++ s) =
  Ok (PGetResponse {| gr_request_id := id; gr_error_status := es; gr_error_index := ei; gr_vars := vars |}).
Proof.
  intros Hid Hes Hei HF Hl. unfold pdu_decode, enc_response in *.
  rewrite option_from_ber_tlv; try reflexivity; try lia; try discriminate;
    [|left; reflexivity|lens|pose proof (len_enc_int id Hid); lens].
  cbn [bind]. change (Z.land 162 31) with 2.
  cbn [Z.eqb Pos.eqb PDU_GET_REQUEST PDU_GETNEXT_REQUEST PDU_GET_RESPONSE].
  unfold getresponse_decode.
  rewrite int_from_ber_enc_int by exact Hid. cbn [bind].
  rewrite int_from_ber_enc_int by exact Hes. cbn [bind].
  rewrite int_from_ber_enc_int by exact Hei. cbn [bind].
  rewrite sequence_from_ber_tlv_nil by lens. cbn [bind].
  rewrite resp_vars_enc with (vars := vars); [reflexivity|exact HF| |].
  - apply length_concat_ge. intros [name x]. unfold enc_resp_varbind. apply tlv_nonempty.
  - intros nv Hnv. pose proof (len_concat_in enc_resp_varbind vbs nv Hnv). lens.
Qed.

Theorem pdu_decode_enc_response : forall id es ei vbs vars,
  i64 id -> i64 es -> i64 ei ->
  Forall2 (fun '(name, x) vb => wfb name /\ name <> [] /\ encodes_value x (vb_value vb) /\ vb_oid vb = name)
          vbs vars ->
  len (enc_response id es ei vbs) < 65536 ->
  pdu_decode (enc_response id es ei vbs) =
  Ok (PGetResponse {| gr_request_id := id; gr_error_status := es; gr_error_index := ei; gr_vars := vars |}).
Proof.
  intros id es ei vbs vars Hid Hes Hei HF Hl.
  rewrite <- (app_nil_r (enc_response id es ei vbs)).
  apply pdu_decode_enc_response_strong; try assumption.
  clear Hl. induction HF as [|[name x] vb vbs vars Hrel HF IH]; constructor; [|exact IH].
  unfold vb_rel. tauto.
Qed.

(* ---- D8: SNMPv3 ---- *)
Definition usm_of_fields (u : usm_fields) : usm :=
  {| u_engine_id := uf_engine_id u; u_engine_boots := uf_boots u; u_engine_time := uf_time u;
     u_user_name := uf_user u; u_auth_params := uf_auth u; u_privacy_params := uf_priv u |}.

Theorem usm_decode_enc_usm u : i64 (uf_boots u) -> i64 (uf_time u) -> len (enc_usm u) < 65536 ->
  usm_decode (enc_usm u) = Ok (usm_of_fields u).
Proof.
  intros Hb Ht Hl. unfold usm_decode. unfold enc_usm at 1.
  rewrite sequence_from_ber_tlv_nil by lens. cbn [bind].
  rewrite octetstring_from_ber_enc by lens. cbn [bind].
  rewrite int_from_ber_enc_int by exact Hb. cbn [bind].
  rewrite int_from_ber_enc_int by exact Ht. cbn [bind].
  rewrite octetstring_from_ber_enc by lens. cbn [bind].
  rewrite octetstring_from_ber_enc by lens. cbn [bind].
  rewrite octetstring_from_ber_enc_nil by lens. reflexivity.
Qed.

Theorem scoped_decode_enc_scoped_app ctx r s : req_ids r -> len (enc_scoped ctx r) < 65536 ->
  scoped_decode (enc_scoped ctx r ++ s) = Ok {| s_engine_id := ctx; s_pdu := pdu_of_req r |}.
Proof.
  intros Hids Hl. unfold scoped_decode. unfold enc_scoped at 1.
  rewrite sequence_from_ber_tlv by lens. cbn [bind].
  rewrite octetstring_from_ber_enc by lens. cbn [bind].
  rewrite octetstring_from_ber_enc by (rewrite len_nil; lia). cbn [bind].
  rewrite <- (app_nil_r (enc_req r)). rewrite pdu_decode_enc_req_app by (try exact Hids; lens).
  reflexivity.
Qed.

Theorem scoped_decode_enc_scoped ctx r : req_wf r -> len (enc_scoped ctx r) < 65536 ->
  scoped_decode (enc_scoped ctx r) = Ok {| s_engine_id := ctx; s_pdu := pdu_of_req r |}.
Proof.
  intros (Hids & _ & _) Hl. rewrite <- (app_nil_r (enc_scoped ctx r)).
  apply scoped_decode_enc_scoped_app; assumption.
Qed.

Lemma msgdata_decode_scoped ctx r : req_ids r -> len (enc_scoped ctx r) < 65536 ->
  msgdata_decode (enc_scoped ctx r) = Ok (Plaintext {| s_engine_id := ctx; s_pdu := pdu_of_req r |}).
Proof.
  intros Hids Hl. unfold msgdata_decode.
  remember (enc_scoped ctx r) as i eqn:Ei. destruct i as [|t tl]; [discriminate Ei|].
  assert (Ht : t = 48) by (unfold enc_scoped, tlv in Ei; cbn [app] in Ei; congruence).
  subst t. cbn [Z.eqb Pos.eqb TAG_OCTET_STRING]. rewrite Ei in *.
  rewrite <- (app_nil_r (enc_scoped ctx r)). rewrite scoped_decode_enc_scoped_app by assumption. reflexivity.
Qed.

Lemma msgdata_decode_encrypted ct : len ct < 65536 ->
  msgdata_decode (enc_octets ct) = Ok (Encrypted ct).
Proof.
  intros Hl. unfold msgdata_decode.
  remember (enc_octets ct) as i eqn:Ei. destruct i as [|t tl]; [discriminate Ei|].
  assert (Ht : t = 4) by (unfold enc_octets, tlv in Ei; cbn [app] in Ei; congruence).
  subst t. cbn [Z.eqb Pos.eqb TAG_OCTET_STRING]. rewrite Ei.
  rewrite octetstring_from_ber_enc_nil by exact Hl. reflexivity.
Qed.

(* common part: any message data that msgdata_decode accepts *)
Lemma v3_decode_enc_v3_gen msg_id max_size flags u msg_data d :
  i64 msg_id -> i64 max_size -> i64 (uf_boots u) -> i64 (uf_time u) ->
  len (enc_v3 msg_id max_size flags u msg_data) < 65536 ->
  msgdata_decode msg_data = Ok d ->
  v3_decode (enc_v3 msg_id max_size flags u msg_data) =
  Ok {| m_msg_id := msg_id; m_flag_auth := testbit flags 1; m_flag_priv := testbit flags 2;
        m_flag_report := testbit flags 4; m_usm := usm_of_fields u; m_data := d |}.
Proof.
  intros Hid Hms Hb Ht Hl Hd. unfold v3_decode. unfold enc_v3 at 1.
  rewrite sequence_from_ber_tlv_nil by lens. cbn [bind].
  rewrite int_from_ber_enc_int by (unfold i64; lia). cbn [bind].
  change (negb (as_u8 3 =? SNMP_V3)) with false. cbv iota.
  rewrite sequence_from_ber_tlv by lens. cbn [bind].
  rewrite int_from_ber_enc_int by exact Hid. cbn [bind].
  rewrite int_from_ber_enc_int by exact Hms. cbn [bind].
  rewrite octetstring_from_ber_enc by (rewrite len_cons, len_nil; lia). cbn [bind].
  change (negb (len [flags] =? 1)) with false. cbv iota.
  change (idx [flags] 0) with (Ok flags). cbn [bind].
  rewrite int_from_ber_enc_int_nil by (unfold i64; lia). cbn [bind].
  change (negb (as_u8 3 =? USM_MODEL)) with false. cbv iota.
  rewrite octetstring_from_ber_enc by lens. cbn [bind].
  rewrite usm_decode_enc_usm by (assumption || lens). cbn [bind].
  rewrite Hd. reflexivity.
Qed.

Theorem v3_decode_enc_v3_plain msg_id max_size flags u ctx r :
  i64 msg_id -> i64 max_size -> i64 (uf_boots u) -> i64 (uf_time u) -> req_ids r ->
  len (enc_v3 msg_id max_size flags u (enc_scoped ctx r)) < 65536 ->
  v3_decode (enc_v3 msg_id max_size flags u (enc_scoped ctx r)) =
  Ok {| m_msg_id := msg_id; m_flag_auth := testbit flags 1; m_flag_priv := testbit flags 2;
        m_flag_report := testbit flags 4; m_usm := usm_of_fields u;
        m_data := Plaintext {| s_engine_id := ctx; s_pdu := pdu_of_req r |} |}.
Proof.
  intros Hid Hms Hb Ht Hids Hl. apply v3_decode_enc_v3_gen; try assumption.
  apply msgdata_decode_scoped; [exact Hids|]. unfold enc_v3 in Hl. lens.
Qed.

Theorem v3_decode_enc_v3_encrypted msg_id max_size flags u ct :
  i64 msg_id -> i64 max_size -> i64 (uf_boots u) -> i64 (uf_time u) ->
  len (enc_v3 msg_id max_size flags u (enc_octets ct)) < 65536 ->
  v3_decode (enc_v3 msg_id max_size flags u (enc_octets ct)) =
  Ok {| m_msg_id := msg_id; m_flag_auth := testbit flags 1; m_flag_priv := testbit flags 2;
        m_flag_report := testbit flags 4; m_usm := usm_of_fields u; m_data := Encrypted ct |}.
Proof.
  intros Hid Hms Hb Ht Hl. apply v3_decode_enc_v3_gen; try assumption.
  apply msgdata_decode_encrypted. lens.
Qed.

(* ---- concrete instances, evaluated (the hypotheses are satisfiable and the statements agree with
   plain evaluation of the decoders) ---- *)
Example sanity_v2c_get :
  let r := RGet 1234 [[43; 6; 1; 2; 1; 1; 1; 0]; [43; 6; 1; 2; 1; 1; 3; 0]] in
  req_wf r /\ len (enc_cmsg 1 [112; 117; 98] r) = 52 /\
  cmsg_decode 1 (enc_cmsg 1 [112; 117; 98] r) = Ok {| cm_community := [112; 117; 98]; cm_pdu := pdu_of_req r |}.
Proof.
  cbv zeta. split; [|split; vm_compute; reflexivity].
  split; [unfold req_ids, i64; lia|]. split; [|vm_compute; reflexivity].
  cbn [req_oids]. repeat constructor; lia.
Qed.

Example sanity_response :
  pdu_decode (enc_response (-2) 0 0 [([43; 6; 1], [65; 5; 0; 255; 255; 255; 255]);
                                      ([43; 6; 2], [2; 129; 2; 255; 128]);
                                      ([43; 6; 3], [130; 0])]) =
  Ok (PGetResponse {| gr_request_id := -2; gr_error_status := 0; gr_error_index := 0;
                      gr_vars := [ {| vb_oid := [43; 6; 1]; vb_value := VCounter32 4294967295 |};
                                   {| vb_oid := [43; 6; 2]; vb_value := VInt (-128) |};
                                   {| vb_oid := [43; 6; 3]; vb_value := VEndOfMibView |} ] |}).
Proof. vm_compute. reflexivity. Qed.

(* a PDU with empty content is rejected by SnmpOption::from_ber (fewer than 3 octets): the
   non-emptiness side condition of option_from_ber_tlv is needed *)
Example option_from_ber_two_octets : option_from_ber (tlv 160 []) = Err Incomplete.
Proof. vm_compute. reflexivity. Qed.

(* Print Assumptions pdu_decode_enc_req.              Closed under the global context *)
(* Print Assumptions pdu_decode_enc_req_app.          Closed under the global context *)
(* Print Assumptions cmsg_decode_enc_cmsg.            Closed under the global context *)
(* Print Assumptions cmsg_decode_enc_cmsg_strong.     Closed under the global context *)
(* Print Assumptions usm_decode_enc_usm.              Closed under the global context *)
(* Print Assumptions scoped_decode_enc_scoped.        Closed under the global context *)
(* Print Assumptions v3_decode_enc_v3_plain.          Closed under the global context *)
(* Print Assumptions v3_decode_enc_v3_encrypted.      Closed under the global context *)
(* Print Assumptions pdu_decode_enc_response.         Closed under the global context *)
(* Print Assumptions pdu_decode_enc_response_strong.  Closed under the global context *)

(* The byte range predicate shared by the proof files. *)

Require Import ZArith List Lia.
Import ListNotations.

Definition byte_range (x : Z) : Prop := (0 <= x < 256)%Z.

Lemma lxor_byte_range : forall a b,
  byte_range a -> byte_range b -> byte_range (Z.lxor a b).
Proof.
  unfold byte_range. intros a b Ha Hb.
  assert (Hnn : (0 <= Z.lxor a b)%Z) by (apply Z.lxor_nonneg; lia).
  split; [assumption|].
  assert (Hlog : forall x, (0 <= x < 256)%Z -> (Z.log2 x < 8)%Z).
  { intros x Hx. destruct (Z.eq_dec x 0) as [->|Hne]; [cbn; lia|].
    apply Z.log2_lt_pow2; lia. }
  destruct (Z.eq_dec (Z.lxor a b) 0) as [->|Hne]; [lia|].
  change 256%Z with (2 ^ 8)%Z. apply Z.log2_lt_pow2; [lia|].
  pose proof (Z.log2_lxor a b (proj1 Ha) (proj1 Hb)) as Hl.
  pose proof (Hlog a Ha). pose proof (Hlog b Hb). lia.
Qed.

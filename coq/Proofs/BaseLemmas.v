(* General lemmas about the conventions of Model/Base.v:
   len, takez, dropz, slice_to, slice_from, idx, bind, wfb.
   Nothing here depends on the BER or PDU layers. *)
From GS Require Import Model.Base.
From Coq Require Import ZArith List Bool Lia.
Import ListNotations.
Open Scope Z_scope.

(* ------------------------------------------------------------------ *)
(** * len *)

Lemma len_nil : len [] = 0.
Proof. reflexivity. Qed.

Lemma len_cons : forall x l, len (x :: l) = len l + 1.
Proof. intros x l. unfold len. cbn [length]. rewrite Nat2Z.inj_succ. lia. Qed.

Lemma len_app : forall a b, len (a ++ b) = len a + len b.
Proof. intros a b. unfold len. rewrite app_length, Nat2Z.inj_add. reflexivity. Qed.

Lemma len_nonneg : forall l, 0 <= len l.
Proof. intros l. unfold len. lia. Qed.

Lemma len_rev : forall l, len (rev l) = len l.
Proof. intros l. unfold len. rewrite rev_length. reflexivity. Qed.

Lemma len_zero_nil : forall l, len l = 0 -> l = [].
Proof. intros [|x l] H; [reflexivity|]. rewrite len_cons in H. pose proof (len_nonneg l). lia. Qed.

Lemma len_pos_cons : forall l, 0 < len l -> exists x r, l = x :: r.
Proof. intros [|x r] H; [rewrite len_nil in H; lia|eauto]. Qed.

Lemma len_length_le : forall a b, len a <= len b <-> (length a <= length b)%nat.
Proof. intros a b. unfold len. lia. Qed.

Lemma len_length_lt : forall a b, len a < len b <-> (length a < length b)%nat.
Proof. intros a b. unfold len. lia. Qed.

(* ------------------------------------------------------------------ *)
(** * takez / dropz versus firstn / skipn *)

Lemma takez_nonpos : forall n l, n <= 0 -> takez n l = [].
Proof.
  intros n [|x r] Hn; cbn [takez]; [reflexivity|].
  destruct (n <=? 0) eqn:E; [reflexivity|]. apply Z.leb_gt in E. lia.
Qed.

Lemma dropz_nonpos : forall n l, n <= 0 -> dropz n l = l.
Proof.
  intros n [|x r] Hn; cbn [dropz]; [reflexivity|].
  destruct (n <=? 0) eqn:E; [reflexivity|]. apply Z.leb_gt in E. lia.
Qed.

Lemma takez_nil : forall n, takez n [] = [].
Proof. reflexivity. Qed.

Lemma dropz_nil : forall n, dropz n [] = [].
Proof. reflexivity. Qed.

Lemma takez_cons_pos : forall n x r, 0 < n -> takez n (x :: r) = x :: takez (n - 1) r.
Proof.
  intros n x r Hn. cbn [takez].
  destruct (n <=? 0) eqn:E; [apply Z.leb_le in E; lia|reflexivity].
Qed.

Lemma dropz_cons_pos : forall n x r, 0 < n -> dropz n (x :: r) = dropz (n - 1) r.
Proof.
  intros n x r Hn. cbn [dropz].
  destruct (n <=? 0) eqn:E; [apply Z.leb_le in E; lia|reflexivity].
Qed.

Lemma takez_firstn : forall l n, 0 <= n -> takez n l = firstn (Z.to_nat n) l.
Proof.
  induction l as [|x r IH]; intros n Hn.
  - rewrite firstn_nil. reflexivity.
  - destruct (Z.eq_dec n 0) as [->|Hne].
    + rewrite takez_nonpos by lia. reflexivity.
    + rewrite takez_cons_pos by lia. rewrite IH by lia.
      replace (Z.to_nat n) with (S (Z.to_nat (n - 1))) by lia. reflexivity.
Qed.

Lemma dropz_skipn : forall l n, 0 <= n -> dropz n l = skipn (Z.to_nat n) l.
Proof.
  induction l as [|x r IH]; intros n Hn.
  - rewrite skipn_nil. reflexivity.
  - destruct (Z.eq_dec n 0) as [->|Hne].
    + rewrite dropz_nonpos by lia. reflexivity.
    + rewrite dropz_cons_pos by lia. rewrite IH by lia.
      replace (Z.to_nat n) with (S (Z.to_nat (n - 1))) by lia. reflexivity.
Qed.

Lemma takez_dropz : forall n l, takez n l ++ dropz n l = l.
Proof.
  intros n l. destruct (Z.le_gt_cases n 0) as [H|H].
  - rewrite takez_nonpos, dropz_nonpos by assumption. reflexivity.
  - rewrite takez_firstn, dropz_skipn by lia. apply firstn_skipn.
Qed.

Lemma takez_all : forall n l, len l <= n -> takez n l = l.
Proof.
  intros n l H. pose proof (len_nonneg l).
  rewrite takez_firstn by lia. apply firstn_all2. unfold len in *. lia.
Qed.

Lemma dropz_all : forall n l, len l <= n -> dropz n l = [].
Proof.
  intros n l H. pose proof (len_nonneg l).
  rewrite dropz_skipn by lia. apply skipn_all2. unfold len in *. lia.
Qed.

Lemma len_takez : forall n l, 0 <= n <= len l -> len (takez n l) = n.
Proof.
  intros n l H. rewrite takez_firstn by lia. unfold len in *.
  rewrite firstn_length. lia.
Qed.

Lemma len_takez_le : forall n l, len (takez n l) <= len l.
Proof.
  intros n l. destruct (Z.le_gt_cases n 0) as [H|H].
  - rewrite takez_nonpos by assumption. rewrite len_nil. apply len_nonneg.
  - rewrite takez_firstn by lia. unfold len. rewrite firstn_length. lia.
Qed.

Lemma len_dropz : forall n l, 0 <= n <= len l -> len (dropz n l) = len l - n.
Proof.
  intros n l H. rewrite dropz_skipn by lia. unfold len in *.
  rewrite skipn_length. lia.
Qed.

Lemma len_dropz_le : forall n l, len (dropz n l) <= len l.
Proof.
  intros n l. destruct (Z.le_gt_cases n 0) as [H|H].
  - rewrite dropz_nonpos by assumption. lia.
  - rewrite dropz_skipn by lia. unfold len. rewrite skipn_length. lia.
Qed.

Lemma takez_app : forall n l s, n <= len l -> takez n (l ++ s) = takez n l.
Proof.
  intros n l s H. destruct (Z.le_gt_cases n 0) as [H0|H0].
  - rewrite !takez_nonpos by assumption. reflexivity.
  - rewrite !takez_firstn by lia. rewrite firstn_app.
    replace (Z.to_nat n - length l)%nat with O by (unfold len in H; lia).
    cbn [firstn]. apply app_nil_r.
Qed.

Lemma dropz_app : forall n l s, n <= len l -> dropz n (l ++ s) = dropz n l ++ s.
Proof.
  intros n l s H. destruct (Z.le_gt_cases n 0) as [H0|H0].
  - rewrite !dropz_nonpos by assumption. reflexivity.
  - rewrite !dropz_skipn by lia. rewrite skipn_app.
    replace (Z.to_nat n - length l)%nat with O by (unfold len in H; lia).
    reflexivity.
Qed.

Lemma takez_app_exact : forall l s, takez (len l) (l ++ s) = l.
Proof. intros l s. rewrite takez_app by lia. apply takez_all. lia. Qed.

Lemma dropz_app_exact : forall l s, dropz (len l) (l ++ s) = s.
Proof. intros l s. rewrite dropz_app by lia. rewrite dropz_all by lia. reflexivity. Qed.

Lemma dropz_suffix : forall n l, exists pre, l = pre ++ dropz n l.
Proof. intros n l. exists (takez n l). symmetry. apply takez_dropz. Qed.

Lemma takez_prefix : forall n l, exists post, l = takez n l ++ post.
Proof. intros n l. exists (dropz n l). symmetry. apply takez_dropz. Qed.

(* ------------------------------------------------------------------ *)
(** * wfb *)

Lemma wfb_nil : wfb [].
Proof. constructor. Qed.

Lemma wfb_cons : forall x l, wfb (x :: l) <-> 0 <= x < 256 /\ wfb l.
Proof.
  intros x l. unfold wfb. split.
  - intros H. inversion H; subst. split; assumption.
  - intros [Hx Hl]. constructor; assumption.
Qed.

Lemma wfb_app : forall a b, wfb (a ++ b) <-> wfb a /\ wfb b.
Proof. intros a b. unfold wfb. apply Forall_app. Qed.

Lemma wfb_app_l : forall a b, wfb (a ++ b) -> wfb a.
Proof. intros a b H. apply wfb_app in H. tauto. Qed.

Lemma wfb_app_r : forall a b, wfb (a ++ b) -> wfb b.
Proof. intros a b H. apply wfb_app in H. tauto. Qed.

Lemma wfb_app_intro : forall a b, wfb a -> wfb b -> wfb (a ++ b).
Proof. intros a b Ha Hb. apply wfb_app. tauto. Qed.

Lemma wfb_rev : forall l, wfb l -> wfb (rev l).
Proof. intros l H. unfold wfb in *. apply Forall_rev. assumption. Qed.

Lemma wfb_takez : forall n l, wfb l -> wfb (takez n l).
Proof. intros n l H. rewrite <- (takez_dropz n l) in H. eapply wfb_app_l; eassumption. Qed.

Lemma wfb_dropz : forall n l, wfb l -> wfb (dropz n l).
Proof. intros n l H. rewrite <- (takez_dropz n l) in H. eapply wfb_app_r; eassumption. Qed.

Lemma wfb_firstn : forall n l, wfb l -> wfb (firstn n l).
Proof. intros n l H. rewrite <- (firstn_skipn n l) in H. eapply wfb_app_l; eassumption. Qed.

Lemma wfb_skipn : forall n l, wfb l -> wfb (skipn n l).
Proof. intros n l H. rewrite <- (firstn_skipn n l) in H. eapply wfb_app_r; eassumption. Qed.

Lemma wfb_In : forall l b, wfb l -> In b l -> 0 <= b < 256.
Proof. intros l b H Hin. unfold wfb in H. rewrite Forall_forall in H. apply H. assumption. Qed.

Lemma wfb_nth_error : forall l k b, wfb l -> nth_error l k = Some b -> 0 <= b < 256.
Proof. intros l k b H Hn. eapply wfb_In; [eassumption|]. eapply nth_error_In; eassumption. Qed.

Lemma wfb_suffix : forall pre l, wfb (pre ++ l) -> wfb l.
Proof. intros pre l. apply wfb_app_r. Qed.

(* ------------------------------------------------------------------ *)
(** * idx *)

Lemma idx_ok_iff : forall l k b, idx l k = Ok b <-> nth_error l k = Some b.
Proof.
  intros l k b. unfold idx. destruct (nth_error l k) as [x|]; split; intros H;
    try discriminate; inversion H; reflexivity.
Qed.

Lemma idx_lt : forall l k, (k < length l)%nat -> exists b, idx l k = Ok b /\ nth_error l k = Some b.
Proof.
  intros l k H. unfold idx. destruct (nth_error l k) as [x|] eqn:E.
  - eauto.
  - apply nth_error_None in E. lia.
Qed.

Lemma idx_no_panic : forall l k, (k < length l)%nat -> idx l k <> Panic.
Proof. intros l k H. destruct (idx_lt l k H) as (b & Hb & _). rewrite Hb. discriminate. Qed.

Lemma idx_not_err : forall l k e, idx l k <> Err e.
Proof. intros l k e. unfold idx. destruct (nth_error l k); discriminate. Qed.

Lemma idx_ok_lt : forall l k b, idx l k = Ok b -> (k < length l)%nat.
Proof. intros l k b H. apply idx_ok_iff in H. apply nth_error_Some. rewrite H. discriminate. Qed.

Lemma idx_panic_iff : forall l k, idx l k = Panic <-> (length l <= k)%nat.
Proof.
  intros l k. unfold idx. destruct (nth_error l k) as [x|] eqn:E; split; intros H; try discriminate.
  - assert (nth_error l k <> None) as Hn by (rewrite E; discriminate).
    apply nth_error_Some in Hn. lia.
  - apply nth_error_None. assumption.
  - reflexivity.
Qed.

Lemma idx_app : forall l s k, (k < length l)%nat -> idx (l ++ s) k = idx l k.
Proof. intros l s k H. unfold idx. rewrite nth_error_app1 by assumption. reflexivity. Qed.

Lemma idx_wfb : forall l k b, wfb l -> idx l k = Ok b -> 0 <= b < 256.
Proof. intros l k b Hw H. apply idx_ok_iff in H. eapply wfb_nth_error; eassumption. Qed.

Lemma idx_0_cons : forall x r, idx (x :: r) 0 = Ok x.
Proof. reflexivity. Qed.

Lemma idx_S_cons : forall x r k, idx (x :: r) (S k) = idx r k.
Proof. reflexivity. Qed.

Lemma idx_takez : forall l n k, (Z.of_nat k < n)%Z -> n <= len l -> idx (takez n l) k = idx l k.
Proof.
  intros l n k Hk Hn. rewrite <- (takez_dropz n l) at 2.
  rewrite idx_app; [reflexivity|].
  assert (len (takez n l) = n) as E by (apply len_takez; lia).
  unfold len in E. lia.
Qed.

(* ------------------------------------------------------------------ *)
(** * slice_to / slice_from *)

Lemma slice_to_ok : forall l n, 0 <= n <= len l -> slice_to l n = Ok (takez n l).
Proof.
  intros l n H. unfold slice_to.
  destruct (n <? 0) eqn:E1; [apply Z.ltb_lt in E1; lia|].
  destruct (len l <? n) eqn:E2; [apply Z.ltb_lt in E2; lia|]. reflexivity.
Qed.

Lemma slice_from_ok : forall l n, 0 <= n <= len l -> slice_from l n = Ok (dropz n l).
Proof.
  intros l n H. unfold slice_from.
  destruct (n <? 0) eqn:E1; [apply Z.ltb_lt in E1; lia|].
  destruct (len l <? n) eqn:E2; [apply Z.ltb_lt in E2; lia|]. reflexivity.
Qed.

Lemma slice_to_panic : forall l n, ~ (0 <= n <= len l) -> slice_to l n = Panic.
Proof.
  intros l n H. unfold slice_to.
  destruct (n <? 0) eqn:E1; [reflexivity|]. apply Z.ltb_ge in E1.
  destruct (len l <? n) eqn:E2; [reflexivity|]. apply Z.ltb_ge in E2. lia.
Qed.

Lemma slice_from_panic : forall l n, ~ (0 <= n <= len l) -> slice_from l n = Panic.
Proof.
  intros l n H. unfold slice_from.
  destruct (n <? 0) eqn:E1; [reflexivity|]. apply Z.ltb_ge in E1.
  destruct (len l <? n) eqn:E2; [reflexivity|]. apply Z.ltb_ge in E2. lia.
Qed.

Lemma slice_to_inv : forall l n r, slice_to l n = Ok r -> 0 <= n <= len l /\ r = takez n l.
Proof.
  intros l n r H. destruct (Z.lt_ge_cases n 0) as [H0|H0].
  - rewrite slice_to_panic in H by lia. discriminate.
  - destruct (Z.lt_ge_cases (len l) n) as [H1|H1].
    + rewrite slice_to_panic in H by lia. discriminate.
    + rewrite slice_to_ok in H by lia. inversion H. split; [lia|reflexivity].
Qed.

Lemma slice_from_inv : forall l n r, slice_from l n = Ok r -> 0 <= n <= len l /\ r = dropz n l.
Proof.
  intros l n r H. destruct (Z.lt_ge_cases n 0) as [H0|H0].
  - rewrite slice_from_panic in H by lia. discriminate.
  - destruct (Z.lt_ge_cases (len l) n) as [H1|H1].
    + rewrite slice_from_panic in H by lia. discriminate.
    + rewrite slice_from_ok in H by lia. inversion H. split; [lia|reflexivity].
Qed.

Lemma slice_to_not_err : forall l n e, slice_to l n <> Err e.
Proof. intros l n e. unfold slice_to. destruct ((n <? 0) || (len l <? n)); discriminate. Qed.

Lemma slice_from_not_err : forall l n e, slice_from l n <> Err e.
Proof. intros l n e. unfold slice_from. destruct ((n <? 0) || (len l <? n)); discriminate. Qed.

Lemma slice_to_no_panic : forall l n, 0 <= n <= len l -> slice_to l n <> Panic.
Proof. intros l n H. rewrite slice_to_ok by assumption. discriminate. Qed.

Lemma slice_from_no_panic : forall l n, 0 <= n <= len l -> slice_from l n <> Panic.
Proof. intros l n H. rewrite slice_from_ok by assumption. discriminate. Qed.

Lemma slice_to_app : forall l s n, 0 <= n <= len l -> slice_to (l ++ s) n = slice_to l n.
Proof.
  intros l s n H. pose proof (len_nonneg s).
  rewrite !slice_to_ok by (rewrite ?len_app; lia). rewrite takez_app by lia. reflexivity.
Qed.

Lemma slice_from_app : forall l s n, 0 <= n <= len l ->
  slice_from (l ++ s) n = Ok (dropz n l ++ s).
Proof.
  intros l s n H. pose proof (len_nonneg s).
  rewrite slice_from_ok by (rewrite ?len_app; lia). rewrite dropz_app by lia. reflexivity.
Qed.

Lemma slice_to_wfb : forall l n r, wfb l -> slice_to l n = Ok r -> wfb r /\ len r = n.
Proof.
  intros l n r Hw H. apply slice_to_inv in H. destruct H as [Hn ->].
  split; [apply wfb_takez; assumption|apply len_takez; assumption].
Qed.

Lemma slice_from_wfb : forall l n r, wfb l -> slice_from l n = Ok r -> wfb r /\ len r = len l - n.
Proof.
  intros l n r Hw H. apply slice_from_inv in H. destruct H as [Hn ->].
  split; [apply wfb_dropz; assumption|apply len_dropz; assumption].
Qed.

(* ------------------------------------------------------------------ *)
(** * bind *)

Lemma Ok_inj : forall A (a b : A), Ok a = Ok b -> a = b.
Proof. intros A a b H. congruence. Qed.

Lemma bind_ok_inv : forall A B (e : res A) (k : A -> res B) v,
  bind e k = Ok v -> exists a, e = Ok a /\ k a = Ok v.
Proof. intros A B [a|er|] k v H; cbn [bind] in H; try discriminate. eauto. Qed.

Lemma bind_err_inv : forall A B (e : res A) (k : A -> res B) er,
  bind e k = Err er -> e = Err er \/ exists a, e = Ok a /\ k a = Err er.
Proof.
  intros A B [a|er'|] k er H; cbn [bind] in H; try discriminate.
  - right. eauto.
  - left. inversion H. reflexivity.
Qed.

Lemma bind_panic_inv : forall A B (e : res A) (k : A -> res B),
  bind e k = Panic -> e = Panic \/ exists a, e = Ok a /\ k a = Panic.
Proof.
  intros A B [a|er'|] k H; cbn [bind] in H; try discriminate.
  - right. eauto.
  - left. reflexivity.
Qed.

Lemma bind_no_panic : forall A B (e : res A) (k : A -> res B),
  e <> Panic -> (forall a, e = Ok a -> k a <> Panic) -> bind e k <> Panic.
Proof.
  intros A B [a|er|] k He Hk; cbn [bind].
  - apply Hk. reflexivity.
  - discriminate.
  - congruence.
Qed.

Lemma bind_ok : forall A B (e : res A) (k : A -> res B) a, e = Ok a -> bind e k = k a.
Proof. intros A B e k a ->. reflexivity. Qed.

Lemma bind_err : forall A B (e : res A) (k : A -> res B) er, e = Err er -> bind e k = Err er.
Proof. intros A B e k er ->. reflexivity. Qed.

Lemma bind_assoc : forall A B C (e : res A) (f : A -> res B) (g : B -> res C),
  bind (bind e f) g = bind e (fun a => bind (f a) g).
Proof. intros A B C [a|er|] f g; reflexivity. Qed.

Lemma bind_ext : forall A B (e : res A) (f g : A -> res B),
  (forall a, f a = g a) -> bind e f = bind e g.
Proof. intros A B [a|er|] f g H; cbn [bind]; auto. Qed.

(* Inversion of [H : bind e k = Ok v]: destructs the scrutinee, discharges the
   impossible cases, names the bound value [a] and the equation [E : e = Ok a]. *)
Ltac inv_bind H a E :=
  match type of H with
  | bind ?e _ = Ok _ =>
      destruct e as [a| |] eqn:E; cbn [bind] in H; [|discriminate H|discriminate H]
  end.

(* Same for a pair bound by the pattern notation ['(a, b) <- e ;; k]. *)
Ltac inv_bind_pair H a b E :=
  match type of H with
  | bind ?e _ = Ok _ =>
      destruct e as [[a b]| |] eqn:E; cbn [bind] in H; [|discriminate H|discriminate H]
  end.

(* Inversion of [H : (if c then Err _ else k) = Ok _] (either branch may be the dead one) *)
Ltac inv_if H E :=
  match type of H with
  | (if ?c then _ else _) = Ok _ => destruct c eqn:E; try discriminate H
  end.

(* Print Assumptions observed:
   takez_firstn, dropz_skipn, takez_app, dropz_app, slice_from_app, slice_to_app,
   bind_ok_inv, bind_no_panic, idx_app: Closed under the global context *)

(* The mode theorems instantiated with the concrete ciphers:
   DES-CBC (usmDESPrivProtocol, RFC 3414) and AES-128-CFB (RFC 3826). *)

Require Import ZArith List Lia Arith.
Require Import GS.Model.Crypto.DES GS.Model.Crypto.AES GS.Model.Crypto.Modes.
Require Import GS.Proofs.ByteRange GS.Proofs.ModesProofs GS.Proofs.DESInverse GS.Proofs.AESProps.
Import ListNotations.

Theorem des_cbc_encrypt_length : forall k iv pt,
  length iv = 8 -> Forall byte_range iv -> Forall byte_range pt ->
  Nat.modulo (length pt) 8 = 0 ->
  length (cbc_encrypt (des_encrypt_block k) 8 iv pt) = length pt.
Proof.
  intros k iv pt Hiv Hriv Hrpt Hmod.
  apply cbc_encrypt_length_bytes; try assumption; try lia.
  - intros; apply des_encrypt_block_length.
  - intros; apply des_encrypt_block_range.
Qed.

Theorem des_cbc_decrypt_encrypt : forall k iv pt,
  length iv = 8 -> Forall byte_range iv -> Forall byte_range pt ->
  Nat.modulo (length pt) 8 = 0 ->
  cbc_decrypt (des_decrypt_block k) 8 iv (cbc_encrypt (des_encrypt_block k) 8 iv pt) = pt.
Proof.
  intros k iv pt Hiv Hriv Hrpt Hmod.
  apply cbc_decrypt_encrypt_bytes; try assumption; try lia.
  - intros; apply des_encrypt_block_length.
  - intros; apply des_encrypt_block_range.
  - intros; apply des_decrypt_encrypt_with; assumption.
Qed.

Theorem aes_cfb_encrypt_length : forall k iv pt,
  length k = 16 -> length iv = 16 ->
  length (cfb_encrypt (aes128_encrypt_block k) 16 iv pt) = length pt.
Proof.
  intros k iv pt Hk Hiv. apply cfb_encrypt_length; try assumption; try lia.
  intros. apply aes128_encrypt_block_length; assumption.
Qed.

Theorem aes_cfb_decrypt_encrypt : forall k iv pt,
  length k = 16 -> length iv = 16 ->
  cfb_decrypt (aes128_encrypt_block k) 16 iv (cfb_encrypt (aes128_encrypt_block k) 16 iv pt) = pt.
Proof.
  intros k iv pt Hk Hiv. apply cfb_decrypt_encrypt; try assumption; try lia.
  intros. apply aes128_encrypt_block_length; assumption.
Qed.

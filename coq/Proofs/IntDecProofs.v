(* (B) INTEGER and unsigned decoding give the X.690 value, for minimal and non-minimal contents;
   min_twos facts and the INTEGER round trip. *)
From GS Require Import Model.Base Gen.Constants Model.Ber Spec.X690 Proofs.RtLemmas Proofs.HeaderRt.
From Coq Require Import ZArith List Bool Lia.
Import ListNotations.
Open Scope Z_scope.
Open Scope bool_scope.

(* ---- folds with a modular wrap ---- *)
Lemma fold_mod_spec M : 0 < M -> forall r a,
  fold_left (fun acc b => (acc * 256 + b) mod M) r (a mod M) =
  (a * 256 ^ Z.of_nat (length r) + uval r) mod M.
Proof.
  intros HM. induction r as [|x r IH]; intros a; cbn [fold_left length uval].
  - change (Z.of_nat 0) with 0. rewrite Z.pow_0_r. f_equal. lia.
  - assert (E : (a mod M * 256 + x) mod M = (a * 256 + x) mod M).
    { rewrite <- (Z.add_mod_idemp_l (a mod M * 256)) by lia. rewrite Z.mul_mod_idemp_l by lia.
      rewrite Z.add_mod_idemp_l by lia. reflexivity. }
    rewrite E, IH. f_equal. rewrite Nat2Z.inj_succ, Z.pow_succ_r by lia. ring.
Qed.

Lemma fold_be_mod M c : 0 < M -> wfb c -> 256 <= M ->
  fold_be (fun z => z mod M) c = uval c mod M.
Proof.
  intros HM Hw H256. destruct c as [|b r]; [reflexivity|].
  apply wfb_cons in Hw. destruct Hw as [Hb Hr]. unfold fold_be.
  rewrite <- (Z.mod_small b M) at 1 by lia. rewrite (fold_mod_spec M HM r b). reflexivity.
Qed.

(* ---- B4: unsigned decoders ---- *)
Lemma decode_u32_mod c s h : wfb c -> h_length h = len c ->
  decode_u32 (c ++ s) h = Ok (uval c mod 2 ^ 32).
Proof.
  intros Hw Hh. unfold decode_u32. rewrite Hh, takez_app_len.
  change (fold_be wrap32 c) with (fold_be (fun z => z mod 2 ^ 32) c).
  rewrite fold_be_mod by (try exact Hw; reflexivity || (change (2 ^ 32) with 4294967296; lia)). reflexivity.
Qed.

Lemma decode_u64_mod c s h : wfb c -> h_length h = len c ->
  decode_u64 (c ++ s) h = Ok (uval c mod 2 ^ 64).
Proof.
  intros Hw Hh. unfold decode_u64. rewrite Hh, takez_app_len.
  change (fold_be wrap64 c) with (fold_be (fun z => z mod 2 ^ 64) c).
  rewrite fold_be_mod by (try exact Hw; reflexivity || (change (2 ^ 64) with 18446744073709551616; lia)). reflexivity.
Qed.

Theorem decode_u32_uval : forall c s h, wfb c -> h_length h = len c -> uval c < 2 ^ 32 ->
  decode_u32 (c ++ s) h = Ok (uval c).
Proof.
  intros c s h Hw Hh Hu. rewrite decode_u32_mod by assumption.
  pose proof (uval_bound c Hw). rewrite Z.mod_small by lia. reflexivity.
Qed.

Theorem decode_u64_uval : forall c s h, wfb c -> h_length h = len c -> uval c < 2 ^ 64 ->
  decode_u64 (c ++ s) h = Ok (uval c).
Proof.
  intros c s h Hw Hh Hu. rewrite decode_u64_mod by assumption.
  pose proof (uval_bound c Hw). rewrite Z.mod_small by lia. reflexivity.
Qed.

(* ---- B3: signed decoder ---- *)
Lemma swrap64_congr x y : x mod 2 ^ 64 = y mod 2 ^ 64 -> swrap64 x = swrap64 y.
Proof. intros H. unfold swrap64. change 18446744073709551616 with (2 ^ 64). rewrite H. reflexivity. Qed.

Lemma swrap64_mod x : swrap64 x mod 2 ^ 64 = x mod 2 ^ 64.
Proof.
  unfold swrap64. change 18446744073709551616 with (2 ^ 64).
  destruct (x mod 2 ^ 64 <? 9223372036854775808).
  - apply Z.mod_mod. lia.
  - replace (x mod 2 ^ 64 - 2 ^ 64) with (x mod 2 ^ 64 + (-1) * 2 ^ 64) by ring.
    rewrite Z.mod_add by lia. apply Z.mod_mod. lia.
Qed.

Lemma swrap64_small x : - 2 ^ 63 <= x < 2 ^ 63 -> swrap64 x = x.
Proof.
  intros Hx. unfold swrap64. change 18446744073709551616 with (2 ^ 64).
  change 9223372036854775808 with (2 ^ 63). cbv zeta.
  destruct (Z_lt_le_dec x 0) as [Hneg|Hpos].
  - replace (x mod 2 ^ 64) with (x + 2 ^ 64).
    + destruct (Z.ltb_spec (x + 2 ^ 64) (2 ^ 63)); [change (2 ^ 64) with (2 * 2 ^ 63) in *; lia|lia].
    + symmetry. replace x with (x + 2 ^ 64 + (-1) * 2 ^ 64) at 1 by ring.
      rewrite Z.mod_add by lia. apply Z.mod_small. change (2 ^ 64) with (2 * 2 ^ 63). lia.
  - rewrite Z.mod_small by (change (2 ^ 64) with (2 * 2 ^ 63); lia).
    destruct (Z.ltb_spec x (2 ^ 63)); lia.
Qed.

Lemma fold_swrap_spec : forall r a,
  fold_left (fun acc b => swrap64 (acc * 256 + b)) r (swrap64 a) =
  swrap64 (a * 256 ^ Z.of_nat (length r) + uval r).
Proof.
  induction r as [|x r IH]; intros a; cbn [fold_left length uval].
  - change (Z.of_nat 0) with 0. rewrite Z.pow_0_r. f_equal. lia.
  - assert (E : swrap64 (swrap64 a * 256 + x) = swrap64 (a * 256 + x)).
    { apply swrap64_congr. rewrite <- (Z.add_mod_idemp_l (swrap64 a * 256)) by lia.
      rewrite <- (Z.mul_mod_idemp_l (swrap64 a)) by lia.
      rewrite swrap64_mod. rewrite Z.mul_mod_idemp_l by lia. rewrite Z.add_mod_idemp_l by lia. reflexivity. }
    rewrite E, IH. f_equal. rewrite Nat2Z.inj_succ, Z.pow_succ_r by lia. ring.
Qed.

Lemma fold_be_swrap c : wfb c -> fold_be swrap64 c = swrap64 (uval c).
Proof.
  intros Hw. destruct c as [|b r]; [reflexivity|].
  apply wfb_cons in Hw. destruct Hw as [Hb Hr]. unfold fold_be.
  rewrite <- (swrap64_small b) at 1 by lia. rewrite fold_swrap_spec. reflexivity.
Qed.

Theorem decode_int_sval : forall c s h, wfb c -> h_length h = len c -> (1 <= length c <= 8)%nat ->
  decode_int (c ++ s) h = Ok (sval c).
Proof.
  intros c s h Hw Hh Hl. unfold decode_int. rewrite Hh.
  destruct c as [|b r]; [cbn [length] in Hl; lia|].
  assert (Hlen : 1 <= len (b :: r) <= 8) by (unfold len; lia).
  destruct (Z.eqb_spec (len (b :: r)) 0) as [E0|E0]; [lia|].
  rewrite takez_app_len. cbn [app idx nth_error bind].
  rewrite fold_be_swrap by exact Hw.
  pose proof (uval_bound (b :: r) Hw) as Hu.
  pose proof Hw as Hw'. apply wfb_cons in Hw'. destruct Hw' as [Hb Hr].
  pose proof (uval_bound r Hr) as Hur.
  rewrite sval_cons. fold (len (b :: r)) in *.
  assert (Hb128 : (Z.land b 128 =? 0) = (b <? 128)).
  { pose proof (len_octet_bits b Hb) as Hbit. destruct (Z.ltb_spec b 128); [exact Hbit|].
    apply andb_true_iff in Hbit. destruct Hbit as [Hbit _]. apply negb_true_iff in Hbit. exact Hbit. }
  rewrite Hb128.
  set (n := len (b :: r)) in *.
  assert (Hp : 256 ^ n = 2 ^ (8 * n)) by (apply pow256_as_2; lia).
  destruct (Z.leb_spec 8 n) as [H8|H8].
  - (* exactly 8 octets: the fold wraps to the two's complement value *)
    assert (n = 8) by lia. rewrite orb_true_r.
    assert (Hp8 : 256 ^ n = 2 ^ 64) by (rewrite Hp; f_equal; lia). rewrite Hp8 in *.
    f_equal. rewrite uval_cons in *. fold (len r) in *. assert (Hr7 : len r = 7) by (unfold n in *; rewrite len_cons in *; lia).
    rewrite Hr7 in *. change (256 ^ 7) with (2 ^ 56) in *.
    destruct (Z.ltb_spec b 128).
    + apply swrap64_small. change (2 ^ 63) with (128 * 2 ^ 56). lia.
    + rewrite <- (swrap64_small (b * 2 ^ 56 + uval r - 2 ^ 64))
        by (change (2 ^ 63) with (128 * 2 ^ 56); change (2 ^ 64) with (256 * 2 ^ 56); lia).
      apply swrap64_congr.
      replace (b * 2 ^ 56 + uval r - 2 ^ 64) with (b * 2 ^ 56 + uval r + (-1) * 2 ^ 64) by ring.
      rewrite Z.mod_add by lia. reflexivity.
  - (* fewer than 8 octets: no wrap, explicit sign extension *)
    rewrite orb_false_r.
    assert (Hlt : 256 ^ n <= 2 ^ 56).
    { change (2 ^ 56) with (256 ^ 7). apply Z.pow_le_mono_r; lia. }
    rewrite swrap64_small by (change (2 ^ 63) with (128 * 2 ^ 56); lia).
    destruct (b <? 128); [reflexivity|].
    rewrite Z.shiftl_1_l, <- Hp. reflexivity.
Qed.

Theorem decode_int_empty : forall s h, h_length h = 0 -> decode_int s h = Ok 0.
Proof. intros s h Hh. unfold decode_int. rewrite Hh. reflexivity. Qed.

(* ---- min_twos: the minimal two's complement octets of a 64-bit value ---- *)
Lemma be_bytes_S k v : be_bytes (S k) v = be_bytes k (v / 256) ++ [v mod 256].
Proof. reflexivity. Qed.

Lemma be_bytes_length n v : length (be_bytes n v) = n.
Proof.
  revert v. induction n as [|k IH]; intros v; [reflexivity|].
  rewrite be_bytes_S, app_length, IH. cbn [length]. lia.
Qed.

Lemma be_bytes_wfb n v : wfb (be_bytes n v).
Proof.
  revert v. induction n as [|k IH]; intros v; [apply wfb_nil|].
  rewrite be_bytes_S. apply wfb_app. split; [apply IH|].
  apply wfb_cons. split; [apply Z.mod_pos_bound; lia|apply wfb_nil].
Qed.

Lemma be_bytes_uval n v : uval (be_bytes n v) = v mod 256 ^ Z.of_nat n.
Proof.
  revert v. induction n as [|k IH]; intros v.
  - cbn [be_bytes uval]. change (Z.of_nat 0) with 0. rewrite Z.pow_0_r, Z.mod_1_r. reflexivity.
  - rewrite be_bytes_S, uval_snoc, IH. rewrite Nat2Z.inj_succ, Z.pow_succ_r by lia.
    pose proof (pow256_pos k). rewrite Z.rem_mul_r by lia. ring.
Qed.

Lemma range_div256 k v : 1 <= k ->
  - 2 ^ (8 * (k + 1) - 1) <= v < 2 ^ (8 * (k + 1) - 1) ->
  - 2 ^ (8 * k - 1) <= v / 256 < 2 ^ (8 * k - 1).
Proof.
  intros Hk Hv. replace (8 * (k + 1) - 1) with (8 + (8 * k - 1)) in Hv by lia.
  rewrite Z.pow_add_r in Hv by lia. change (2 ^ 8) with 256 in Hv.
  pose proof (Z.mod_pos_bound v 256 ltac:(lia)). pose proof (Z.div_mod v 256 ltac:(lia)). lia.
Qed.

Lemma be_bytes_sval : forall n v, (1 <= n)%nat ->
  - 2 ^ (8 * Z.of_nat n - 1) <= v < 2 ^ (8 * Z.of_nat n - 1) -> sval (be_bytes n v) = v.
Proof.
  induction n as [|k IH]; intros v Hn Hv; [lia|].
  destruct k as [|k].
  - change (8 * Z.of_nat 1 - 1) with 7 in Hv. change (2 ^ 7) with 128 in Hv.
    cbn [be_bytes app]. rewrite sval_cons. cbn [uval length]. change (Z.of_nat 0) with 0. change (Z.of_nat 1) with 1.
    rewrite Z.pow_0_r, Z.pow_1_r.
    pose proof (Z.mod_pos_bound v 256 ltac:(lia)). pose proof (Z.div_mod v 256 ltac:(lia)).
    destruct (Z.ltb_spec (v mod 256) 128); lia.
  - rewrite be_bytes_S. rewrite sval_snoc.
    + rewrite IH; [pose proof (Z.div_mod v 256 ltac:(lia)); lia|lia|].
      apply range_div256; [lia|]. replace (Z.of_nat (S k) + 1) with (Z.of_nat (S (S k))) by lia. exact Hv.
    + intros E. apply (f_equal (@length Z)) in E. rewrite be_bytes_length in E. discriminate.
Qed.

Definition in_range (n : nat) (v : Z) : Prop := - 2 ^ (8 * Z.of_nat n - 1) <= v < 2 ^ (8 * Z.of_nat n - 1).

Lemma min_octets_from_spec : forall fuel n k v, (n <= k < n + fuel)%nat -> in_range k v ->
  (n <= min_octets_from fuel n v <= k)%nat /\ in_range (min_octets_from fuel n v) v.
Proof.
  induction fuel as [|f IH]; intros n k v Hk Hr; [lia|]. cbn [min_octets_from].
  destruct ((- 2 ^ (8 * Z.of_nat n - 1) <=? v) && (v <? 2 ^ (8 * Z.of_nat n - 1))) eqn:E.
  - apply andb_true_iff in E. destruct E as [E1 E2]. apply Z.leb_le in E1. apply Z.ltb_lt in E2.
    split; [lia|]. unfold in_range. lia.
  - assert (Hnk : n <> k).
    { intros ->. unfold in_range in Hr. apply andb_false_iff in E.
      destruct E as [E|E]; [apply Z.leb_gt in E|apply Z.ltb_ge in E]; lia. }
    destruct (IH (S n) k v ltac:(lia) Hr) as [H1 H2]. split; [lia|exact H2].
Qed.

Lemma min_octets_64 v : - 2 ^ 63 <= v < 2 ^ 63 ->
  (1 <= min_octets v <= 8)%nat /\ in_range (min_octets v) v.
Proof.
  intros Hv. unfold min_octets. apply min_octets_from_spec; [lia|].
  unfold in_range. change (8 * Z.of_nat 8 - 1) with 63. exact Hv.
Qed.

Theorem min_twos_wfb v : wfb (min_twos v).
Proof. apply be_bytes_wfb. Qed.

Theorem min_twos_length v : - 2 ^ 63 <= v < 2 ^ 63 -> (1 <= length (min_twos v) <= 8)%nat.
Proof. intros Hv. unfold min_twos. rewrite be_bytes_length. apply min_octets_64. exact Hv. Qed.

Theorem min_twos_sval v : - 2 ^ 63 <= v < 2 ^ 63 -> sval (min_twos v) = v.
Proof.
  intros Hv. destruct (min_octets_64 v Hv) as [Hl Hr]. unfold min_twos.
  apply be_bytes_sval; [lia|exact Hr].
Qed.

Lemma min_twos_len v : - 2 ^ 63 <= v < 2 ^ 63 -> 1 <= len (min_twos v) <= 8.
Proof. intros Hv. pose proof (min_twos_length v Hv). unfold len. lia. Qed.

(* minimality (X.690 8.3.2): no shorter octet string has the same value *)
Theorem min_twos_minimal v c : - 2 ^ 63 <= v < 2 ^ 63 -> wfb c -> c <> [] -> sval c = v ->
  (length (min_twos v) <= length c)%nat.
Proof.
  intros Hv Hw Hne Hs. unfold min_twos. rewrite be_bytes_length.
  destruct (le_lt_dec (length c) 8) as [H8|H8]; [|pose proof (min_octets_64 v Hv); lia].
  assert (Hlc : (1 <= length c)%nat) by (destruct c; [congruence|cbn [length]; lia]).
  pose proof (sval_bound c Hw Hne) as Hb. rewrite Hs in Hb.
  unfold min_octets.
  destruct (min_octets_from_spec 9 1 (length c) v ltac:(lia) Hb) as [H1 _]. lia.
Qed.

(* ---- B5: INTEGER round trip ---- *)
Theorem int_from_ber_any_len lo c s : wfb c -> (1 <= length c <= 8)%nat -> len_octets (len c) lo ->
  int_from_ber (2 :: lo ++ c ++ s) = Ok (s, sval c).
Proof.
  intros Hw Hl Hlo. unfold int_from_ber, TAG_INT.
  apply from_ber_any_len; try reflexivity; try lia; try discriminate; [exact Hlo|].
  apply decode_int_sval; [exact Hw|reflexivity|exact Hl].
Qed.

Theorem int_from_ber_enc_int : forall v s, - 2 ^ 63 <= v < 2 ^ 63 -> int_from_ber (enc_int v ++ s) = Ok (s, v).
Proof.
  intros v s Hv. unfold enc_int, tlv. cbn [app]. rewrite <- app_assoc.
  rewrite int_from_ber_any_len.
  - rewrite min_twos_sval by exact Hv. reflexivity.
  - apply min_twos_wfb.
  - apply min_twos_length. exact Hv.
  - apply enc_len_len_octets. pose proof (min_twos_len v Hv). lia.
Qed.

Lemma len_enc_int v : - 2 ^ 63 <= v < 2 ^ 63 -> 3 <= len (enc_int v) <= 10.
Proof.
  intros Hv. pose proof (min_twos_len v Hv) as Hl. unfold enc_int, tlv.
  rewrite len_cons, len_app. unfold enc_len. destruct (Z.ltb_spec (len (min_twos v)) 128); [|lia].
  rewrite len_cons, len_nil. lia.
Qed.

(* ---- sharpness of the hypotheses (closed computations) ---- *)
(* nine content octets 00 80 00 .. 00 denote 2^63; the decoder's i64 fold answers -2^63 *)
Example decode_int_nine_octets :
  sval [0; 128; 0; 0; 0; 0; 0; 0; 0] = 2 ^ 63 /\
  decode_int [0; 128; 0; 0; 0; 0; 0; 0; 0] (hdr_of 2 9) = Ok (- 2 ^ 63).
Proof. split; vm_compute; reflexivity. Qed.

(* an unsigned content of 2^32 wraps to 0 in decode_u32 *)
Example decode_u32_wraps :
  uval [1; 0; 0; 0; 0] = 2 ^ 32 /\ decode_u32 [1; 0; 0; 0; 0] (hdr_of 65 5) = Ok 0.
Proof. split; vm_compute; reflexivity. Qed.

(* non-minimal contents are decoded to the same value as the minimal one *)
Example decode_int_redundant_octets :
  decode_int [255; 255; 128] (hdr_of 2 3) = Ok (-128) /\ decode_int [0; 0; 127] (hdr_of 2 3) = Ok 127 /\
  decode_u32 [0; 255; 255; 255; 255] (hdr_of 65 5) = Ok 4294967295.
Proof. repeat split; vm_compute; reflexivity. Qed.

(* outside the signed 64-bit range the round trip fails: 2^63 needs nine octets and comes back as -2^63 *)
Example int_round_trip_needs_i64 : int_from_ber (enc_int (2 ^ 63)) = Ok ([], - 2 ^ 63).
Proof. vm_compute. reflexivity. Qed.

(* Print Assumptions decode_int_sval.        Closed under the global context *)
(* Print Assumptions decode_u32_uval.        Closed under the global context *)
(* Print Assumptions decode_u64_uval.        Closed under the global context *)
(* Print Assumptions min_twos_sval.          Closed under the global context *)
(* Print Assumptions min_twos_minimal.       Closed under the global context *)
(* Print Assumptions int_from_ber_enc_int.   Closed under the global context *)

(* Theorems about the Python layer (Model/PyLayer.v): the policing discipline of a rate-limited session, the exception
   remapping, the arguments handed to the socket, and how a GetBulk reply list is consumed. *)
From GS Require Import Model.Base Model.Exc Model.Walk Model.PyLayer.

(* ------------------------------------------------------------------ policing discipline ------------------------- *)
Definition sends (m : meth) : bool :=
  match m with
  | MGet | MGetMany | MGetNext | MGetBulk | MSendGet | MSendGetMany | MSendGetNext | MSendGetBulk => true
  | _ => false
  end.
Definition is_recv_ev (e : ev) : Prop := exists m a, e = EvSock m a /\ sends m = false.

(* the events of ONE request of a rate-limited session: one consultation of the policer, the call that sends the
   request (repeated at most once, when the first attempt found the socket buffer full), then receive attempts only *)
Inductive request_evs : list ev -> Prop :=
| RqOnce m a recvs : sends m = true -> Forall is_recv_ev recvs -> request_evs (EvPolice :: EvSock m a :: recvs)
| RqRetry m a recvs : sends m = true -> Forall is_recv_ev recvs -> request_evs (EvPolice :: EvSock m a :: EvSock m a :: recvs).

Inductive well_policed : list ev -> Prop :=
| WpNil : well_policed []
| WpIter o m r : well_policed r -> well_policed (EvIter o m :: r)
| WpReq q r : request_evs q -> well_policed r -> well_policed (q ++ r).

Lemma well_policed_app a b : well_policed a -> well_policed b -> well_policed (a ++ b).
Proof.
  intros Ha Hb. induction Ha as [|o m r Hr IH|q r Hq Hr IH]; cbn [app].
  - exact Hb.
  - apply WpIter. exact IH.
  - rewrite <- app_assoc. apply WpReq; [exact Hq | exact IH].
Qed.

Lemma well_policed_one q : request_evs q -> well_policed q.
Proof. intros H. rewrite <- (app_nil_r q). apply WpReq; [exact H | apply WpNil]. Qed.

(* number of consultations = number of requests *)
Fixpoint count_police (evs : list ev) : nat :=
  match evs with [] => O | EvPolice :: r => S (count_police r) | _ :: r => count_police r end.
Inductive n_requests : list ev -> nat -> Prop :=
| NrNil : n_requests [] O
| NrIter o m r n : n_requests r n -> n_requests (EvIter o m :: r) n
| NrReq q r n : request_evs q -> n_requests r n -> n_requests (q ++ r) (S n).

Lemma count_police_app a b : count_police (a ++ b) = (count_police a + count_police b)%nat.
Proof. induction a as [|e a IH]; cbn [app count_police]; [reflexivity|]. destruct e; cbn [count_police]; rewrite IH; reflexivity. Qed.
Lemma count_police_recvs l : Forall is_recv_ev l -> count_police l = O.
Proof.
  induction 1 as [|e l He _ IH]; [reflexivity|]. destruct He as (m & a & -> & _). cbn [count_police]. exact IH.
Qed.
Lemma count_police_request q : request_evs q -> count_police q = 1%nat.
Proof.
  intros H. destruct H as [m a recvs _ Hr|m a recvs _ Hr]; cbn [count_police]; rewrite (count_police_recvs _ Hr); reflexivity.
Qed.
Lemma well_policed_counts evs : well_policed evs -> exists n, n_requests evs n /\ count_police evs = n.
Proof.
  induction 1 as [|o m r Hr IH|q r Hq Hr IH].
  - exists O. split; [apply NrNil | reflexivity].
  - destruct IH as (n & Hn & Hc). exists n. split; [apply NrIter; exact Hn | exact Hc].
  - destruct IH as (n & Hn & Hc). exists (S n). split; [apply NrReq; assumption|].
    rewrite count_police_app, (count_police_request _ Hq), Hc. reflexivity.
Qed.

(* --- the events of each primitive *)
Lemma sync_call_events pol iter m a script :
  fst (fst (sync_call pol iter m a script)) = police pol ++ [EvSock m a].
Proof. unfold sync_call. destruct script; reflexivity. Qed.

Lemma a_recv_events m a script :
  Forall (fun e => e = EvSock m a) (fst (fst (a_recv m a script))).
Proof.
  induction script as [|t r IH]; cbn [a_recv fst]; [constructor|].
  destruct t as [v|e|]; cbn [fst].
  - repeat constructor.
  - destruct e; cbn [fst]; try (repeat constructor).
    destruct (a_recv m a r) as [[evs o] r'] eqn:E. cbn [fst] in *. constructor; [reflexivity | exact IH].
  - constructor.
Qed.

Lemma a_send_events pol m a script :
  let evs := fst (fst (a_send pol m a script)) in
  evs = police pol ++ [EvSock m a] \/ evs = police pol ++ [EvSock m a; EvSock m a].
Proof.
  cbv zeta. unfold a_send.
  destruct script as [|t r]; [left; reflexivity|].
  destruct t as [v|e|]; [left; reflexivity | | left; reflexivity].
  destruct e; try (left; reflexivity).
  destruct r as [|t2 r2]; [left; reflexivity|].
  destruct t2 as [v2|e2|]; [right; reflexivity | right; reflexivity | left; reflexivity].
Qed.

Definition recv_meth (m : meth) : Prop := sends m = false.

Lemma a_call_request ms mr asend arecv script :
  sends ms = true -> sends mr = false ->
  request_evs (fst (fst (a_call true ms mr asend arecv script))).
Proof.
  intros Hs Hr. unfold a_call.
  destruct (a_send true ms asend script) as [[e1 o1] s1] eqn:E1.
  pose proof (a_send_events true ms asend script) as He. cbv zeta in He. rewrite E1 in He. cbn [fst] in He.
  assert (Hrecv : forall s, Forall is_recv_ev (fst (fst (a_recv mr arecv s)))).
  { intros s. eapply Forall_impl; [|apply a_recv_events]. intros e ->. exists mr, arecv. split; [reflexivity | exact Hr]. }
  destruct o1 as [v|e| |].
  - destruct (a_recv mr arecv s1) as [[e2 o2] s2] eqn:E2. cbn [fst].
    specialize (Hrecv s1). rewrite E2 in Hrecv. cbn [fst] in Hrecv.
    destruct He as [-> | ->]; cbn [police app]; [apply RqOnce | apply RqRetry]; assumption.
  - cbn [fst]. destruct He as [-> | ->]; cbn [police app]; [apply RqOnce | apply RqRetry]; try assumption; constructor.
  - cbn [fst]. destruct He as [-> | ->]; cbn [police app]; [apply RqOnce | apply RqRetry]; try assumption; constructor.
  - cbn [fst]. destruct He as [-> | ->]; cbn [police app]; [apply RqOnce | apply RqRetry]; try assumption; constructor.
Qed.

Lemma sync_call_request iter m a script :
  sends m = true -> request_evs (fst (fst (sync_call true iter m a script))).
Proof. intros Hs. rewrite sync_call_events. cbn [police app]. apply RqOnce; [exact Hs | constructor]. Qed.

(* the events of one __next__ / __anext__ are nothing (an item from the buffer) or exactly one request *)
Definition step_events_ok (next : list (option Z) -> list tok -> list ev * pyout * list (option Z) * list tok) : Prop :=
  forall buf script, let e := fst (fst (fst (next buf script))) in e = [] \/ request_evs e.

Lemma take_reply_events stop evs o r : fst (fst (fst (take_reply stop evs o r))) = evs.
Proof.
  unfold take_reply. destruct o as [v|e| |]; try reflexivity.
  destruct v as [id|l]; [reflexivity|]. destruct l as [|x l]; [reflexivity|].
  destruct (pop_or_stop stop (x :: l)); reflexivity.
Qed.

Lemma sync_bulk_step : step_events_ok (sync_bulk_next true).
Proof.
  intros buf script. cbv zeta. unfold sync_bulk_next. destruct buf as [|x b].
  - destruct (sync_call true true MGetBulk ACtx script) as [[evs o] r] eqn:E.
    rewrite take_reply_events. right.
    pose proof (sync_call_request true MGetBulk ACtx script eq_refl) as H. rewrite E in H. exact H.
  - destruct (pop_or_stop EStopIteration (x :: b)). left. reflexivity.
Qed.
Lemma sync_next_step : step_events_ok (sync_next_next true).
Proof.
  intros buf script. cbv zeta. unfold sync_next_next.
  destruct (sync_call true true MGetNext ACtx script) as [[evs o] r] eqn:E. cbn [fst]. right.
  pose proof (sync_call_request true MGetNext ACtx script eq_refl) as H. rewrite E in H. exact H.
Qed.
Lemma async_bulk_step : step_events_ok (async_bulk_next true).
Proof.
  intros buf script. cbv zeta. unfold async_bulk_next. destruct buf as [|x b].
  - destruct (a_call true MSendGetBulk MRecvGetBulk ACtx ACtx script) as [[evs o] r] eqn:E.
    rewrite take_reply_events. right.
    pose proof (a_call_request MSendGetBulk MRecvGetBulk ACtx ACtx script eq_refl eq_refl) as H. rewrite E in H. exact H.
  - destruct (pop_or_stop EStopAsyncIteration (x :: b)). left. reflexivity.
Qed.
Lemma async_next_step : step_events_ok (async_next_next true).
Proof.
  intros buf script. cbv zeta. unfold async_next_next.
  destruct (a_call true MSendGetNext MRecvGetNext ACtx ACtx script) as [[evs o] r] eqn:E. cbn [fst]. right.
  pose proof (a_call_request MSendGetNext MRecvGetNext ACtx ACtx script eq_refl eq_refl) as H. rewrite E in H. exact H.
Qed.

Lemma iterate_policed next : step_events_ok next ->
  forall fuel buf script evs items, well_policed evs -> well_policed (r_events (iterate fuel next buf script evs items)).
Proof.
  intros Hstep fuel. induction fuel as [|f IH]; intros buf script evs items Hev; cbn [iterate].
  - exact Hev.
  - specialize (Hstep buf script). cbv zeta in Hstep.
    destruct (next buf script) as [[[e o] buf'] script'] eqn:E. cbn [fst] in Hstep.
    assert (Hw : well_policed (evs ++ e)).
    { apply well_policed_app; [exact Hev|]. destruct Hstep as [-> | Hq]; [apply WpNil | apply well_policed_one; exact Hq]. }
    destruct o as [v|ex| |]; try exact Hw.
    destruct v as [id|l]; [apply IH; exact Hw | exact Hw].
Qed.

Theorem session_policed cfg fuel a script :
  pc_policer cfg = true -> well_policed (r_events (run_api cfg fuel a script)).
Proof.
  intros Hp. unfold run_api, walk_next_api, walk_bulk_api, single. rewrite Hp.
  assert (Hi : forall o m, well_policed [EvIter o m]) by (intros; apply WpIter, WpNil).
  destruct a as [oid|oids|oid|oid req|oid]; destruct (pc_mode cfg).
  - destruct (sync_call true false MGet (AOid oid) script) as [[e o] r] eqn:E. cbn [r_events].
    apply well_policed_one. pose proof (sync_call_request false MGet (AOid oid) script eq_refl) as H. rewrite E in H. exact H.
  - destruct (a_call true MSendGet MRecvGet (AOid oid) ANone script) as [[e o] r] eqn:E. cbn [r_events].
    apply well_policed_one. pose proof (a_call_request MSendGet MRecvGet (AOid oid) ANone script eq_refl eq_refl) as H. rewrite E in H. exact H.
  - destruct (sync_call true false MGetMany (AOids oids) script) as [[e o] r] eqn:E. cbn [r_events].
    apply well_policed_one. pose proof (sync_call_request false MGetMany (AOids oids) script eq_refl) as H. rewrite E in H. exact H.
  - destruct (a_call true MSendGetMany MRecvGetMany (AOids oids) ANone script) as [[e o] r] eqn:E. cbn [r_events].
    apply well_policed_one. pose proof (a_call_request MSendGetMany MRecvGetMany (AOids oids) ANone script eq_refl eq_refl) as H. rewrite E in H. exact H.
  - apply iterate_policed; [apply sync_next_step | apply Hi].
  - apply iterate_policed; [apply async_next_step | apply Hi].
  - apply iterate_policed; [apply sync_bulk_step | apply Hi].
  - apply iterate_policed; [apply async_bulk_step | apply Hi].
  - destruct (session_allow_bulk (pc_version cfg) (pc_allow_bulk cfg));
      (apply iterate_policed; [first [apply sync_bulk_step | apply sync_next_step] | apply Hi]).
  - destruct (session_allow_bulk (pc_version cfg) (pc_allow_bulk cfg));
      (apply iterate_policed; [first [apply async_bulk_step | apply async_next_step] | apply Hi]).
Qed.

(* every request of a rate-limited session is released by exactly one consultation of its policer *)
Theorem session_policed_count cfg fuel a script :
  pc_policer cfg = true ->
  exists n, n_requests (r_events (run_api cfg fuel a script)) n /\ count_police (r_events (run_api cfg fuel a script)) = n.
Proof. intros Hp. apply well_policed_counts, session_policed, Hp. Qed.

(* ------------------------------------------------------------------ exceptions ---------------------------------- *)
(* what the blocking client lets through: BlockingIOError never (it becomes TimeoutError); the iterators end with
   StopIteration, never StopAsyncIteration *)
Lemma remap_sync_no_blocking iter t : remap_sync iter t <> PRaise EBlockingIO.
Proof. destruct t as [v|e|]; cbn; try discriminate. destruct e; try discriminate. destruct iter; discriminate. Qed.
Lemma remap_sync_iter_no_async_stop t : remap_sync true t <> PRaise EStopAsyncIteration.
Proof. destruct t as [v|e|]; cbn; try discriminate. destruct e; discriminate. Qed.

Lemma sync_call_no_blocking pol iter m a script : snd (fst (sync_call pol iter m a script)) <> PRaise EBlockingIO.
Proof. unfold sync_call. destruct script as [|t r]; cbn [fst snd]; [discriminate | apply remap_sync_no_blocking]. Qed.

Lemma a_recv_no_blocking m a script : snd (fst (a_recv m a script)) <> PRaise EBlockingIO.
Proof.
  induction script as [|t r IH]; cbn [a_recv fst snd]; [discriminate|].
  destruct t as [v|e|]; cbn [fst snd]; try discriminate.
  destruct e; cbn [fst snd]; try discriminate.
  destruct (a_recv m a r) as [[evs o] r']. cbn [fst snd] in *. exact IH.
Qed.

(* the only exceptions the layer adds to those the socket raises *)
Definition added_exc (e : exc) : Prop := e = ETimeout \/ e = EStopIteration \/ e = EStopAsyncIteration.

Lemma remap_sync_closed iter t e : remap_sync iter t = PRaise e -> added_exc e \/ t = TRaise e.
Proof.
  destruct t as [v|e0|]; cbn; try discriminate. unfold added_exc.
  destruct e0; try (intros H; injection H as <-; right; reflexivity).
  - intros H; injection H as <-. left. left. reflexivity.
  - destruct iter; intros H; injection H as <-; [left; right; left; reflexivity | right; reflexivity].
Qed.

Lemma sync_call_closed pol iter m a script e :
  snd (fst (sync_call pol iter m a script)) = PRaise e -> added_exc e \/ In (TRaise e) script.
Proof.
  unfold sync_call. destruct script as [|t r]; cbn [fst snd]; [discriminate|].
  intros H. apply remap_sync_closed in H. destruct H as [H | ->]; [left; exact H | right; left; reflexivity].
Qed.

Lemma a_recv_closed m a script e :
  snd (fst (a_recv m a script)) = PRaise e -> added_exc e \/ In (TRaise e) script.
Proof.
  induction script as [|t r IH]; cbn [a_recv fst snd]; [discriminate|].
  destruct t as [v|e0|]; cbn [fst snd].
  - discriminate.
  - destruct e0; cbn [fst snd]; try (intros H; injection H as <-; right; left; reflexivity).
    destruct (a_recv m a r) as [[evs o] r'] eqn:E. cbn [fst snd] in *. intros H.
    destruct (IH H) as [Ha | Hi]; [left; exact Ha | right; right; exact Hi].
  - intros H; injection H as <-. left. left. reflexivity.
Qed.

(* ------------------------------------------------------------------ arguments ----------------------------------- *)
(* get_many hands the socket exactly the OIDs it was given, in order, repetitions included *)
Theorem getmany_passes_oids cfg fuel oids script m l :
  In (EvSock m (AOids l)) (r_events (run_api cfg fuel (ApiGetMany oids) script)) -> l = oids.
Proof.
  unfold run_api, single. destruct (pc_mode cfg).
  - destruct (sync_call (pc_policer cfg) false MGetMany (AOids oids) script) as [[e o] r] eqn:E. cbn [r_events].
    pose proof (sync_call_events (pc_policer cfg) false MGetMany (AOids oids) script) as H. rewrite E in H. cbn [fst] in H. subst e.
    intros Hin. apply in_app_or in Hin. destruct Hin as [Hin | [Hin | []]].
    + unfold police in Hin. destruct (pc_policer cfg); [destruct Hin as [Hin | []]; discriminate | destruct Hin].
    + injection Hin as _ <-. reflexivity.
  - unfold a_call.
    destruct (a_send (pc_policer cfg) MSendGetMany (AOids oids) script) as [[e1 o1] s1] eqn:E1.
    pose proof (a_send_events (pc_policer cfg) MSendGetMany (AOids oids) script) as He. cbv zeta in He. rewrite E1 in He. cbn [fst] in He.
    assert (Hin1 : In (EvSock m (AOids l)) e1 -> l = oids).
    { intros Hin. destruct He as [-> | ->]; apply in_app_or in Hin; destruct Hin as [Hin | Hin].
      - unfold police in Hin. destruct (pc_policer cfg); [destruct Hin as [Hin | []]; discriminate | destruct Hin].
      - destruct Hin as [Hin | []]. injection Hin as _ <-. reflexivity.
      - unfold police in Hin. destruct (pc_policer cfg); [destruct Hin as [Hin | []]; discriminate | destruct Hin].
      - destruct Hin as [Hin | [Hin | []]]; injection Hin as _ <-; reflexivity. }
    destruct o1 as [v|ex| |]; cbn [r_events]; try exact Hin1.
    destruct (a_recv MRecvGetMany ANone s1) as [[e2 o2] s2] eqn:E2. cbn [r_events].
    intros Hin. apply in_app_or in Hin. destruct Hin as [Hin | Hin]; [exact (Hin1 Hin)|].
    pose proof (a_recv_events MRecvGetMany ANone s1) as Hr. rewrite E2 in Hr. cbn [fst] in Hr.
    rewrite Forall_forall in Hr. specialize (Hr _ Hin). discriminate.
Qed.

(* the iterator context of getbulk carries `max_repetitions or self._max_repetitions` *)
Lemma iterate_events_prefix next fuel : forall buf script evs items,
  exists tl, r_events (iterate fuel next buf script evs items) = evs ++ tl.
Proof.
  induction fuel as [|f IH]; intros buf script evs items; cbn [iterate].
  - exists []. rewrite app_nil_r. reflexivity.
  - destruct (next buf script) as [[[e o] buf'] script'].
    destruct o as [v|ex| |]; try (exists e; reflexivity).
    destruct v as [id|l]; [|exists e; reflexivity].
    destruct (IH buf' script' (evs ++ e) (id :: items)) as (tl & ->). exists (e ++ tl). rewrite app_assoc. reflexivity.
Qed.

Theorem getbulk_context cfg fuel oid req script :
  exists tl, r_events (run_api cfg fuel (ApiGetBulk oid req) script)
             = EvIter oid (Some (effective_max_rep req (pc_max_rep cfg))) :: tl.
Proof.
  unfold run_api, walk_bulk_api.
  destruct (pc_mode cfg); match goal with |- context [iterate ?f ?n ?b ?s ?e ?i] => destruct (iterate_events_prefix n f b s e i) as (tl & ->) end;
    exists tl; reflexivity.
Qed.

(* ------------------------------------------------------------------ consuming a GetBulk reply ------------------- *)
Fixpoint before_none (l : list (option Z)) : list Z :=
  match l with Some v :: r => v :: before_none r | _ => [] end.
Fixpoint has_none (l : list (option Z)) : bool :=
  match l with [] => false | None :: _ => true | Some _ :: r => has_none r end.

(* with [l] buffered: the items before the end marker come out in order, each once; the marker ends the walk, otherwise
   the buffer runs empty and the next call issues a new request *)
Lemma sync_buffer_drained pol : forall l fuel script evs items,
  (length l < fuel)%nat ->
  iterate fuel (sync_bulk_next pol) l script evs items =
  if has_none l
  then {| r_events := evs; r_items := rev items ++ before_none l; r_end := PRaise EStopIteration; r_rest := script |}
  else iterate (fuel - length l) (sync_bulk_next pol) [] script evs (rev (before_none l) ++ items).
Proof.
  induction l as [|x l IH]; intros fuel script evs items Hf.
  - cbn [has_none before_none rev app length]. rewrite Nat.sub_0_r. reflexivity.
  - destruct fuel as [|f]; [inversion Hf|]. cbn [length] in Hf. cbn [iterate sync_bulk_next].
    destruct x as [v|]; cbn [pop_or_stop has_none before_none].
    + rewrite app_nil_r. rewrite IH by lia. destruct (has_none l).
      * cbn [rev]. rewrite <- app_assoc. reflexivity.
      * cbn [length Nat.sub rev]. rewrite <- app_assoc. reflexivity.
    + rewrite app_nil_r, app_nil_r. reflexivity.
Qed.

(* ------------------------------------------------------------------ what a whole call of the blocking client raises *)
Lemma iterate_end (P : pyout -> Prop) next :
  P PCap -> P PBadScript -> (forall buf script, P (snd (fst (fst (next buf script))))) ->
  forall fuel buf script evs items, P (r_end (iterate fuel next buf script evs items)).
Proof.
  intros Hc Hb Hn fuel. induction fuel as [|f IH]; intros buf script evs items; cbn [iterate]; [exact Hc|].
  specialize (Hn buf script). destruct (next buf script) as [[[e o] buf'] script']. cbn [fst snd] in Hn.
  destruct o as [v|ex| |]; try exact Hn. destruct v as [id|l]; [apply IH | exact Hb].
Qed.

Lemma pop_or_stop_out stop buf o : fst (pop_or_stop stop buf) = PRaise o -> o = stop.
Proof. destruct buf as [|[v|] r]; cbn; intros H; try discriminate. injection H as <-. reflexivity. Qed.

Lemma take_reply_out stop evs o r ex :
  snd (fst (fst (take_reply stop evs o r))) = PRaise ex -> ex = stop \/ o = PRaise ex.
Proof.
  unfold take_reply. destruct o as [v|e| |]; cbn [fst snd]; try discriminate.
  - destruct v as [id|l]; cbn [fst snd]; [discriminate|]. destruct l as [|x l]; cbn [fst snd].
    + intros H; injection H as <-. left. reflexivity.
    + destruct (pop_or_stop stop (x :: l)) as [o' b'] eqn:E. cbn [fst snd]. intros ->. left.
      apply (pop_or_stop_out stop (x :: l)). rewrite E. reflexivity.
  - intros H. right. exact H.
Qed.

Definition sync_clean (o : pyout) : Prop := o <> PRaise EBlockingIO.
Definition sync_iter_clean (o : pyout) : Prop := o <> PRaise EBlockingIO /\ o <> PRaise EStopAsyncIteration.

Lemma sync_call_iter_clean pol m a script : sync_iter_clean (snd (fst (sync_call pol true m a script))).
Proof.
  unfold sync_call, sync_iter_clean. destruct script as [|t r]; cbn [fst snd]; [split; discriminate|].
  split; [apply remap_sync_no_blocking | apply remap_sync_iter_no_async_stop].
Qed.

Lemma sync_bulk_next_clean pol buf script : sync_iter_clean (snd (fst (fst (sync_bulk_next pol buf script)))).
Proof.
  unfold sync_bulk_next. destruct buf as [|x b].
  - destruct (sync_call pol true MGetBulk ACtx script) as [[evs o] r] eqn:E.
    pose proof (sync_call_iter_clean pol MGetBulk ACtx script) as Hc. rewrite E in Hc. cbn [fst snd] in Hc.
    destruct Hc as [H1 H2]. split; intros H; apply take_reply_out in H; destruct H as [H | H]; try discriminate; congruence.
  - destruct (pop_or_stop EStopIteration (x :: b)) as [o b'] eqn:E. cbn [fst snd].
    split; intros ->; pose proof (pop_or_stop_out EStopIteration (x :: b) _ ltac:(rewrite E; reflexivity)) as H; discriminate.
Qed.

Lemma sync_next_next_clean pol buf script : sync_iter_clean (snd (fst (fst (sync_next_next pol buf script)))).
Proof.
  unfold sync_next_next. destruct (sync_call pol true MGetNext ACtx script) as [[evs o] r] eqn:E. cbn [fst snd].
  pose proof (sync_call_iter_clean pol MGetNext ACtx script) as Hc. rewrite E in Hc. exact Hc.
Qed.

(* the blocking client never lets BlockingIOError through (a timeout is TimeoutError), and its iterators never end
   with StopAsyncIteration (the end of a walk is StopIteration) *)
Theorem sync_api_exceptions cfg fuel a script :
  pc_mode cfg = Sync ->
  r_end (run_api cfg fuel a script) <> PRaise EBlockingIO /\
  (match a with ApiGet _ | ApiGetMany _ => True | _ => r_end (run_api cfg fuel a script) <> PRaise EStopAsyncIteration end).
Proof.
  intros Hm. unfold run_api, walk_next_api, walk_bulk_api, single. rewrite Hm.
  assert (Hn : forall f b s e i, sync_iter_clean (r_end (iterate f (sync_next_next (pc_policer cfg)) b s e i))).
  { intros. apply (iterate_end sync_iter_clean); [split; discriminate | split; discriminate | apply sync_next_next_clean]. }
  assert (Hb : forall f b s e i, sync_iter_clean (r_end (iterate f (sync_bulk_next (pc_policer cfg)) b s e i))).
  { intros. apply (iterate_end sync_iter_clean); [split; discriminate | split; discriminate | apply sync_bulk_next_clean]. }
  destruct a as [oid|oids|oid|oid req|oid].
  - destruct (sync_call (pc_policer cfg) false MGet (AOid oid) script) as [[e o] r] eqn:E. cbn [r_end]. split; [|exact I].
    pose proof (sync_call_no_blocking (pc_policer cfg) false MGet (AOid oid) script) as H. rewrite E in H. exact H.
  - destruct (sync_call (pc_policer cfg) false MGetMany (AOids oids) script) as [[e o] r] eqn:E. cbn [r_end]. split; [|exact I].
    pose proof (sync_call_no_blocking (pc_policer cfg) false MGetMany (AOids oids) script) as H. rewrite E in H. exact H.
  - apply Hn.
  - apply Hb.
  - destruct (session_allow_bulk (pc_version cfg) (pc_allow_bulk cfg)); [apply Hb | apply Hn].
Qed.

(* non-vacuity: a rate-limited async walk whose first send found the buffer full, with a late reply and a timeout *)
Example policed_example :
  let cfg := {| pc_mode := Async; pc_policer := true; pc_version := V2c; pc_allow_bulk := true; pc_max_rep := 20 |} in
  let r := run_api cfg 10 (ApiFetch [49]) [TRaise EBlockingIO; TRet (SvObj 0); TRaise EBlockingIO; TRet (SvList [Some 1; Some 2]);
                                          TRet (SvObj 0); TTimeout] in
  r_items r = [1; 2] /\ r_end r = PRaise ETimeout /\ count_police (r_events r) = 2%nat /\ length (r_events r) = 8%nat.
Proof. repeat split; reflexivity. Qed.

(* ------------------------------------------------------------------ get / get_many hand back what the socket said -- *)
(* blocking client: the result or exception of the socket method is the result or exception of the call, except that
   BlockingIOError becomes TimeoutError *)
Theorem sync_single_passthrough cfg fuel a t r :
  pc_mode cfg = Sync -> (match a with ApiGet _ | ApiGetMany _ => True | _ => False end) ->
  r_end (run_api cfg fuel a (t :: r)) = remap_sync false t /\ r_rest (run_api cfg fuel a (t :: r)) = r.
Proof.
  intros Hm Ha. unfold run_api, single. rewrite Hm. destruct a as [oid|oids|oid|oid req|oid]; try contradiction;
    unfold sync_call; cbn [r_end r_rest]; split; reflexivity.
Qed.

(* asyncio client, the request went out at once: whatever the first receive attempt that is not "nothing yet" gives *)
Definition recv_out (t : tok) : pyout :=
  match t with TRet v => PRet v | TRaise e => PRaise e | TTimeout => PRaise ETimeout end.
Theorem async_single_passthrough cfg fuel a s0 t r :
  pc_mode cfg = Async -> (match a with ApiGet _ | ApiGetMany _ => True | _ => False end) ->
  t <> TRaise EBlockingIO ->
  r_end (run_api cfg fuel a (TRet s0 :: t :: r)) = recv_out t /\ r_rest (run_api cfg fuel a (TRet s0 :: t :: r)) = r.
Proof.
  intros Hm Ha Ht. unfold run_api, single. rewrite Hm. destruct a as [oid|oids|oid|oid req|oid]; try contradiction;
    unfold a_call, a_send; cbn [a_recv];
    (destruct t as [v|e|]; [split; reflexivity | destruct e; try (split; reflexivity); exfalso; apply Ht; reflexivity | split; reflexivity]).
Qed.

(* ------------------------------------------------------------------ whole API, both clients: no exception of its own -- *)
(* [step_closed f]: whatever one primitive raises is one of the layer's own three signals or was raised by a socket method
   on a token of the script it was given, and what it leaves is a suffix of that script *)
Definition suffix (r s : list tok) : Prop := exists p, s = p ++ r.
Lemma suffix_refl s : suffix s s. Proof. exists []. reflexivity. Qed.
Lemma suffix_cons t r s : suffix r s -> suffix r (t :: s).
Proof. intros [p ->]. exists (t :: p). reflexivity. Qed.
Lemma suffix_trans a b c : suffix a b -> suffix b c -> suffix a c.
Proof. intros [p ->] [q ->]. exists (q ++ p). rewrite app_assoc. reflexivity. Qed.
Lemma suffix_in x r s : suffix r s -> In x r -> In x s.
Proof. intros [p ->] H. apply in_or_app. right. exact H. Qed.
Lemma suffix_nil s : suffix [] s. Proof. exists s. rewrite app_nil_r. reflexivity. Qed.

Definition closed_out (script : list tok) (o : pyout) (rest : list tok) : Prop :=
  suffix rest script /\ forall e, o = PRaise e -> added_exc e \/ In (TRaise e) script.

Lemma sync_call_closed_out pol iter m a script :
  let '(_, o, r) := sync_call pol iter m a script in closed_out script o r.
Proof.
  unfold sync_call. destruct script as [|t r]; cbn.
  - split; [apply suffix_refl | intros e H; discriminate].
  - split; [apply suffix_cons, suffix_refl|]. intros e H. apply remap_sync_closed in H.
    destruct H as [H | ->]; [left; exact H | right; left; reflexivity].
Qed.

Lemma a_recv_closed_out m a script :
  let '(_, o, r) := a_recv m a script in closed_out script o r.
Proof.
  induction script as [|t s IH]; cbn [a_recv].
  - split; [apply suffix_refl | intros e H; discriminate].
  - destruct t as [v|e0|].
    + split; [apply suffix_cons, suffix_refl | intros e H; discriminate].
    + destruct e0; try (split; [apply suffix_cons, suffix_refl | intros e H; injection H as <-; right; left; reflexivity]).
      destruct (a_recv m a s) as [[evs o] r']. destruct IH as [Hs Hc]. split; [apply suffix_cons; exact Hs|].
      intros e H. destruct (Hc e H) as [Ha | Hi]; [left; exact Ha | right; right; exact Hi].
    + split; [apply suffix_cons, suffix_refl|]. intros e H. injection H as <-. left. left. reflexivity.
Qed.

Lemma a_send_closed_out pol m a script :
  let '(_, o, r) := a_send pol m a script in closed_out script o r.
Proof.
  unfold a_send. destruct script as [|t s]; [split; [apply suffix_refl | intros e H; discriminate]|].
  destruct t as [v|e0|].
  - split; [apply suffix_cons, suffix_refl | intros e H; discriminate].
  - destruct e0; try (split; [apply suffix_cons, suffix_refl | intros e H; injection H as <-; right; left; reflexivity]).
    destruct s as [|t2 s2]; [split; [apply suffix_cons, suffix_refl | intros e H; discriminate]|].
    destruct t2 as [v2|e2|].
    + split; [apply suffix_cons, suffix_cons, suffix_refl | intros e H; discriminate].
    + split; [apply suffix_cons, suffix_cons, suffix_refl|]. intros e H. injection H as <-. right. right. left. reflexivity.
    + split; [apply suffix_cons, suffix_refl | intros e H; discriminate].
  - split; [apply suffix_cons, suffix_refl | intros e H; discriminate].
Qed.

Lemma a_call_closed_out pol ms mr a1 a2 script :
  let '(_, o, r) := a_call pol ms mr a1 a2 script in closed_out script o r.
Proof.
  unfold a_call. pose proof (a_send_closed_out pol ms a1 script) as H1.
  destruct (a_send pol ms a1 script) as [[e1 o1] s1]. destruct H1 as [Hs1 Hc1].
  destruct o1 as [v|ex| |]; try (split; [exact Hs1 | exact Hc1]).
  pose proof (a_recv_closed_out mr a2 s1) as H2. destruct (a_recv mr a2 s1) as [[e2 o2] s2]. destruct H2 as [Hs2 Hc2].
  split; [exact (suffix_trans _ _ _ Hs2 Hs1)|]. intros e H. destruct (Hc2 e H) as [Ha | Hi]; [left; exact Ha | right; exact (suffix_in _ _ _ Hs1 Hi)].
Qed.

Lemma take_reply_closed_out stop evs o r script :
  (stop = EStopIteration \/ stop = EStopAsyncIteration) -> closed_out script o r ->
  let '(_, o', _, r') := take_reply stop evs o r in closed_out script o' r'.
Proof.
  intros Hstop [Hs Hc]. unfold take_reply.
  assert (Hstop' : added_exc stop) by (destruct Hstop as [-> | ->]; [right; left | right; right]; reflexivity).
  destruct o as [v|ex| |].
  - destruct v as [id|l].
    + split; [exact Hs | intros e H; discriminate].
    + destruct l as [|x l].
      * split; [exact Hs|]. intros e H. injection H as <-. left. exact Hstop'.
      * destruct (pop_or_stop stop (x :: l)) as [o' b'] eqn:E. split; [exact Hs|]. intros e ->.
        left. rewrite (pop_or_stop_out stop (x :: l) e) by (rewrite E; reflexivity). exact Hstop'.
  - split; [exact Hs | exact Hc].
  - split; [exact Hs | intros e H; discriminate].
  - split; [exact Hs | intros e H; discriminate].
Qed.

Definition next_closed (next : list (option Z) -> list tok -> list ev * pyout * list (option Z) * list tok) : Prop :=
  forall buf script, let '(_, o, _, r) := next buf script in closed_out script o r.

Lemma pop_closed stop buf script : (stop = EStopIteration \/ stop = EStopAsyncIteration) ->
  closed_out script (fst (pop_or_stop stop buf)) script.
Proof.
  intros Hstop. split; [apply suffix_refl|]. intros e H. left. rewrite (pop_or_stop_out stop buf e H).
  destruct Hstop as [-> | ->]; [right; left | right; right]; reflexivity.
Qed.

Lemma sync_bulk_next_closed pol : next_closed (sync_bulk_next pol).
Proof.
  intros buf script. unfold sync_bulk_next. destruct buf as [|x b].
  - pose proof (sync_call_closed_out pol true MGetBulk ACtx script) as H.
    destruct (sync_call pol true MGetBulk ACtx script) as [[evs o] r].
    pose proof (take_reply_closed_out EStopIteration evs o r script (or_introl eq_refl) H) as H2.
    destruct (take_reply EStopIteration evs o r) as [[[e' o'] b'] r']. exact H2.
  - pose proof (pop_closed EStopIteration (x :: b) script (or_introl eq_refl)) as H.
    destruct (pop_or_stop EStopIteration (x :: b)) as [o b']. exact H.
Qed.
Lemma async_bulk_next_closed pol : next_closed (async_bulk_next pol).
Proof.
  intros buf script. unfold async_bulk_next. destruct buf as [|x b].
  - pose proof (a_call_closed_out pol MSendGetBulk MRecvGetBulk ACtx ACtx script) as H.
    destruct (a_call pol MSendGetBulk MRecvGetBulk ACtx ACtx script) as [[evs o] r].
    pose proof (take_reply_closed_out EStopAsyncIteration evs o r script (or_intror eq_refl) H) as H2.
    destruct (take_reply EStopAsyncIteration evs o r) as [[[e' o'] b'] r']. exact H2.
  - pose proof (pop_closed EStopAsyncIteration (x :: b) script (or_intror eq_refl)) as H.
    destruct (pop_or_stop EStopAsyncIteration (x :: b)) as [o b']. exact H.
Qed.
Lemma sync_next_next_closed pol : next_closed (sync_next_next pol).
Proof.
  intros buf script. unfold sync_next_next. pose proof (sync_call_closed_out pol true MGetNext ACtx script) as H.
  destruct (sync_call pol true MGetNext ACtx script) as [[evs o] r]. exact H.
Qed.
Lemma async_next_next_closed pol : next_closed (async_next_next pol).
Proof.
  intros buf script. unfold async_next_next. pose proof (a_call_closed_out pol MSendGetNext MRecvGetNext ACtx ACtx script) as H.
  destruct (a_call pol MSendGetNext MRecvGetNext ACtx ACtx script) as [[evs o] r]. exact H.
Qed.

Lemma iterate_closed next : next_closed next ->
  forall fuel buf script0 script evs items, suffix script script0 ->
  closed_out script0 (r_end (iterate fuel next buf script evs items)) (r_rest (iterate fuel next buf script evs items)).
Proof.
  intros Hn fuel. induction fuel as [|f IH]; intros buf script0 script evs items Hsuf; cbn [iterate].
  - split; [exact Hsuf | intros e H; discriminate].
  - specialize (Hn buf script). destruct (next buf script) as [[[e o] buf'] script']. destruct Hn as [Hs Hc].
    assert (Hs0 : suffix script' script0) by exact (suffix_trans _ _ _ Hs Hsuf).
    assert (Hc0 : forall ex, o = PRaise ex -> added_exc ex \/ In (TRaise ex) script0).
    { intros ex H. destruct (Hc ex H) as [Ha | Hi]; [left; exact Ha | right; exact (suffix_in _ _ _ Hsuf Hi)]. }
    destruct o as [v|ex| |]; cbn [r_end r_rest].
    + destruct v as [id|l]; [apply IH; exact Hs0 | split; [exact Hs0 | intros ex H; discriminate]].
    + split; [exact Hs0 | exact Hc0].
    + split; [exact Hs0 | intros ex H; discriminate].
    + split; [exact Hs0 | intros ex H; discriminate].
Qed.

(* Whatever an API call of either client raises is TimeoutError, an end-of-iteration signal, or an exception that a
   socket method raised during that call. *)
Theorem api_exceptions_closed cfg fuel a script e :
  r_end (run_api cfg fuel a script) = PRaise e -> added_exc e \/ In (TRaise e) script.
Proof.
  unfold run_api, walk_next_api, walk_bulk_api, single.
  assert (Hit : forall next b ev0, next_closed next ->
            r_end (iterate fuel next b script ev0 []) = PRaise e -> added_exc e \/ In (TRaise e) script).
  { intros next b ev0 Hn H. destruct (iterate_closed next Hn fuel b script script ev0 [] (suffix_refl _)) as [_ Hc]. exact (Hc e H). }
  destruct a as [oid|oids|oid|oid req|oid]; destruct (pc_mode cfg).
  - pose proof (sync_call_closed_out (pc_policer cfg) false MGet (AOid oid) script) as H.
    destruct (sync_call (pc_policer cfg) false MGet (AOid oid) script) as [[ev0 o] r]. cbn [r_end]. intros ->. exact (proj2 H e eq_refl).
  - pose proof (a_call_closed_out (pc_policer cfg) MSendGet MRecvGet (AOid oid) ANone script) as H.
    destruct (a_call (pc_policer cfg) MSendGet MRecvGet (AOid oid) ANone script) as [[ev0 o] r]. cbn [r_end]. intros ->. exact (proj2 H e eq_refl).
  - pose proof (sync_call_closed_out (pc_policer cfg) false MGetMany (AOids oids) script) as H.
    destruct (sync_call (pc_policer cfg) false MGetMany (AOids oids) script) as [[ev0 o] r]. cbn [r_end]. intros ->. exact (proj2 H e eq_refl).
  - pose proof (a_call_closed_out (pc_policer cfg) MSendGetMany MRecvGetMany (AOids oids) ANone script) as H.
    destruct (a_call (pc_policer cfg) MSendGetMany MRecvGetMany (AOids oids) ANone script) as [[ev0 o] r]. cbn [r_end]. intros ->. exact (proj2 H e eq_refl).
  - apply Hit, sync_next_next_closed.
  - apply Hit, async_next_next_closed.
  - apply Hit, sync_bulk_next_closed.
  - apply Hit, async_bulk_next_closed.
  - destruct (session_allow_bulk (pc_version cfg) (pc_allow_bulk cfg)); apply Hit; [apply sync_bulk_next_closed | apply sync_next_next_closed].
  - destruct (session_allow_bulk (pc_version cfg) (pc_allow_bulk cfg)); apply Hit; [apply async_bulk_next_closed | apply async_next_next_closed].
Qed.

(* ------------------------------------------------------------------ programs: several iterators and calls on one session *)
Lemma next_of_step cfg bulk : pc_policer cfg = true -> step_events_ok (next_of cfg bulk).
Proof.
  intros Hp. unfold next_of. rewrite Hp. destruct (pc_mode cfg), bulk;
    [apply sync_bulk_step | apply sync_next_step | apply async_bulk_step | apply async_next_step].
Qed.

(* whatever the interleaving, reuse after an exception or abandonment: every request of the session is released by exactly
   one consultation of its policer *)
Theorem prog_policed cfg : pc_policer cfg = true ->
  forall p its script evs outs, well_policed evs -> well_policed (fst (fst (run_prog cfg p its script evs outs))).
Proof.
  intros Hp p. induction p as [|c r IH]; intros its script evs outs Hev; cbn [run_prog].
  - exact Hev.
  - destruct c as [a|a|i].
    + destruct a as [oid|oids|oid|oid req|oid]; try exact Hev;
        (apply IH; apply well_policed_app; [exact Hev | apply session_policed; exact Hp]).
    + destruct (new_iter cfg a) as [[e st]|] eqn:E; [|exact Hev].
      apply IH. apply well_policed_app; [exact Hev|].
      assert (He : exists o m, e = EvIter o m).
      { unfold new_iter in E. destruct a as [oid|oids|oid|oid req|oid]; try discriminate.
        - injection E as <- _. eauto.
        - injection E as <- _. eauto.
        - destruct (session_allow_bulk (pc_version cfg) (pc_allow_bulk cfg)); injection E as <- _; eauto. }
      destruct He as (o & m & ->). apply WpIter, WpNil.
    + destruct (nth_error its i) as [st|]; [|exact Hev].
      pose proof (next_of_step cfg (it_bulk st) Hp (it_buf st) script) as Hs. cbv zeta in Hs.
      destruct (next_of cfg (it_bulk st) (it_buf st) script) as [[[e o] buf'] script']. cbn [fst] in Hs.
      apply IH. apply well_policed_app; [exact Hev|]. destruct Hs as [-> | Hq]; [apply WpNil | apply well_policed_one; exact Hq].
Qed.

(* an iterator's buffer is touched by its own next() only *)
Lemma set_nth_other {A} (l : list A) i j x : i <> j -> nth_error (set_nth l i x) j = nth_error l j.
Proof.
  revert i j. induction l as [|y l IH]; intros i j H; destruct i, j; cbn; try reflexivity; try congruence.
  apply IH. congruence.
Qed.

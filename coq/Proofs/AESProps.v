(* Shape lemmas for the AES-128 model: with a 16-byte key, the forward cipher
   maps 16-byte blocks to 16-byte blocks (for any integer contents).  This is the
   side condition needed to instantiate the CFB theorems. *)

Require Import ZArith List Lia Arith.
Require Import GS.Model.Crypto.AES.
Import ListNotations.

Tactic Notation "explode_list" ident(l) hyp(H) integer(n) :=
  do n (destruct l as [|? l]; [cbn [length] in H; discriminate H|]);
  destruct l as [|? l]; [|cbn [length] in H; discriminate H]; clear H.

Lemma xor_list_length : forall a b,
  length (xor_list a b) = Nat.min (length a) (length b).
Proof.
  induction a as [|x a IH]; intros [|y b]; cbn [xor_list length Nat.min]; auto.
Qed.

Lemma sub_bytes_length : forall s, length (sub_bytes s) = length s.
Proof. intros. unfold sub_bytes. apply map_length. Qed.

Lemma shift_rows_length : forall s, length (shift_rows s) = 16.
Proof. intros. unfold shift_rows. rewrite map_length. reflexivity. Qed.

Lemma mix_columns_length_16 : forall s, length s = 16 -> length (mix_columns s) = 16.
Proof. intros s H. explode_list s H 16. reflexivity. Qed.

Lemma add_round_key_length_16 : forall s rk,
  length s = 16 -> length rk = 16 -> length (add_round_key s rk) = 16.
Proof. intros s rk Hs Hr. unfold add_round_key. rewrite xor_list_length, Hs, Hr. reflexivity. Qed.

Lemma next_round_key_length_16 : forall rc rk,
  length rk = 16 -> length (next_round_key rc rk) = 16.
Proof. intros rc rk H. explode_list rk H 16. reflexivity. Qed.

Lemma expand_aux_length_16 : forall rcs rk,
  length rk = 16 -> Forall (fun k => length k = 16) (expand_aux rcs rk).
Proof.
  induction rcs as [|rc rcs IH]; intros rk H; cbn [expand_aux]; constructor.
  - apply next_round_key_length_16. assumption.
  - apply IH. apply next_round_key_length_16. assumption.
Qed.

Lemma aes128_round_keys_length_16 : forall key,
  length key = 16 -> Forall (fun k => length k = 16) (aes128_round_keys key).
Proof.
  intros key H. unfold aes128_round_keys. constructor; [assumption|].
  apply expand_aux_length_16. assumption.
Qed.

Lemma aes128_round_keys_count : forall key, length (aes128_round_keys key) = 11.
Proof. reflexivity. Qed.

Lemma aes_round_length_16 : forall s rk,
  length rk = 16 -> length (aes_round s rk) = 16.
Proof.
  intros s rk Hr. unfold aes_round.
  apply add_round_key_length_16; [|assumption].
  apply mix_columns_length_16, shift_rows_length.
Qed.

Lemma aes_final_round_length_16 : forall s rk,
  length rk = 16 -> length (aes_final_round s rk) = 16.
Proof.
  intros s rk Hr. unfold aes_final_round.
  apply add_round_key_length_16; [|assumption]. apply shift_rows_length.
Qed.

Lemma aes_rounds_length_16 : forall rks s,
  Forall (fun k => length k = 16) rks -> length s = 16 ->
  length (aes_rounds s rks) = 16.
Proof.
  induction rks as [|rk rks IH]; intros s Hk Hs; [assumption|].
  inversion Hk as [|? ? Hrk Hrks]; subst.
  destruct rks as [|rk' rks'].
  - cbn [aes_rounds]. apply aes_final_round_length_16. assumption.
  - change (aes_rounds s (rk :: rk' :: rks')) with (aes_rounds (aes_round s rk) (rk' :: rks')).
    apply IH; [assumption|]. apply aes_round_length_16. assumption.
Qed.

Theorem aes128_encrypt_with_length : forall rks b,
  Forall (fun k => length k = 16) rks -> length b = 16 ->
  length (aes128_encrypt_with rks b) = 16.
Proof.
  intros rks b Hk Hb. unfold aes128_encrypt_with.
  destruct Hk as [|rk0 rks Hrk0 Hrks]; [assumption|].
  apply aes_rounds_length_16; [assumption|].
  apply add_round_key_length_16; assumption.
Qed.

Theorem aes128_encrypt_block_length : forall key b,
  length key = 16 -> length b = 16 ->
  length (aes128_encrypt_block key b) = 16.
Proof.
  intros key b Hk Hb. unfold aes128_encrypt_block.
  apply aes128_encrypt_with_length; [|assumption].
  apply aes128_round_keys_length_16. assumption.
Qed.

(* C09 (sign = RFC 2104 HMAC-96) and C12 (key derivation = RFC 3414 A.2) for Model/Auth.v,
   against the reference definitions of Spec/Rfc3414.v.
   A generic section over an abstract streaming digest, then the MD5 / SHA-1 instances. *)
From GS Require Import Model.Base Gen.Constants Model.Auth Spec.Rfc3414 Proofs.BaseLemmas.
From GS Require Model.Crypto.MD5 Model.Crypto.SHA1 Proofs.HashStream Proofs.BufLemmas.
From Coq Require Import ZArith List Bool Lia.
Import ListNotations.
Open Scope Z_scope.

(* ------------------------------------------------------------------ *)
(* pure list facts *)

Lemma xor_const_is_xor_with : forall c l, xor_const c l = xor_with c l.
Proof. reflexivity. Qed.

Lemma xor_with_app : forall c a b, xor_with c (a ++ b) = xor_with c a ++ xor_with c b.
Proof. intros c a b. unfold xor_with. apply map_app. Qed.

Lemma xor_const_app : forall c a b, xor_const c (a ++ b) = xor_const c a ++ xor_const c b.
Proof. intros c a b. unfold xor_const. apply map_app. Qed.

Lemma const_bytes_xor_zero : forall n c, const_bytes n c = xor_with c (zero_bytes n).
Proof.
  induction n as [|n IH]; intros c; [reflexivity|].
  cbn [const_bytes zero_bytes xor_with map]. rewrite Z.lxor_0_l. f_equal. apply IH.
Qed.

Lemma const_bytes_zero : forall n, const_bytes n 0 = zero_bytes n.
Proof. induction n as [|n IH]; [reflexivity|]. cbn [const_bytes zero_bytes]. f_equal. exact IH. Qed.

Lemma length_const_bytes : forall n c, length (const_bytes n c) = n.
Proof. induction n as [|n IH]; intros c; [reflexivity|]. cbn [const_bytes length]. f_equal. apply IH. Qed.

Lemma len_const_bytes : forall n c, len (const_bytes n c) = Z.of_nat n.
Proof. intros n c. unfold len. rewrite length_const_bytes. reflexivity. Qed.

Lemma length_zero_bytes : forall n, length (zero_bytes n) = n.
Proof. induction n as [|n IH]; [reflexivity|]. cbn [zero_bytes length]. f_equal. exact IH. Qed.

(* the padded keys of the code are the xor-ed zero-extended key of RFC 2104 *)
Lemma padded_key_eq : forall c key KS, len key = KS -> 0 <= KS <= 64 ->
  xor_const c key ++ const_bytes (Z.to_nat (64 - KS)) c =
  xor_with c (key ++ zero_bytes (64 - length key)).
Proof.
  intros c key KS Hk HKS. rewrite xor_with_app, xor_const_is_xor_with, const_bytes_xor_zero.
  replace (Z.to_nat (64 - KS)) with (64 - length key)%nat by (unfold len in Hk; lia). reflexivity.
Qed.

(* --- the first n octets of the endless repetition of pw --- *)

Lemma cycle_from_nil_cur : forall n pw, cycle_from n pw [] = cycle_from n pw pw.
Proof. intros [|n] [|x r]; reflexivity. Qed.

Lemma cycle_from_short : forall n pw cur, (n <= length cur)%nat -> cycle_from n pw cur = firstn n cur.
Proof.
  induction n as [|n IH]; intros pw cur Hn; [reflexivity|].
  destruct cur as [|x r]; cbn [length] in Hn; [lia|].
  cbn [cycle_from firstn]. f_equal. apply IH. lia.
Qed.

Lemma cycle_from_app : forall cur k pw, cycle_from (length cur + k) pw cur = cur ++ cycle_from k pw pw.
Proof.
  induction cur as [|x r IH]; intros k pw.
  - cbn [length Nat.add app]. apply cycle_from_nil_cur.
  - cbn [length Nat.add cycle_from app]. f_equal. apply IH.
Qed.

Lemma take_cycle_repeat : forall n r pw, (r <= length pw)%nat ->
  concat (repeat pw n) ++ firstn r pw = take_cycle (n * length pw + r) pw.
Proof.
  intros n r pw Hr. unfold take_cycle. induction n as [|n IH].
  - cbn [repeat concat app Nat.mul Nat.add]. symmetry. apply cycle_from_short. exact Hr.
  - cbn [repeat concat]. rewrite <- app_assoc, IH.
    replace (S n * length pw + r)%nat with (length pw + (n * length pw + r))%nat by lia.
    symmetry. apply cycle_from_app.
Qed.

Lemma concat_repeat_comm : forall (pw : bytes) n, concat (repeat pw n) ++ pw = pw ++ concat (repeat pw n).
Proof.
  intros pw n. induction n as [|n IH]; cbn [repeat concat].
  - rewrite app_nil_r. reflexivity.
  - rewrite <- app_assoc, IH. reflexivity.
Qed.

Lemma firstn_12_len : forall l, 12 <= len l -> len (firstn 12 l) = 12.
Proof. intros l Hl. unfold len in *. rewrite firstn_length. lia. Qed.

Lemma nat_rect_shift : forall (A : Type) (f : A -> A) k x,
  nat_rect (fun _ => A) x (fun _ => f) (Datatypes.S k) = nat_rect (fun _ => A) (f x) (fun _ => f) k.
Proof.
  intros A f k. induction k as [|k IH]; intros x; [reflexivity|].
  cbn [nat_rect] in *. rewrite <- IH. reflexivity.
Qed.

(* ------------------------------------------------------------------ *)
(* the generic digest *)

Section Generic.
  Variable S : Type.
  Variable init : S.
  Variable update : S -> bytes -> S.
  Variable final : S -> bytes.
  Variable KS : Z.
  Hypothesis update_app : forall s a b, update (update s a) b = update s (a ++ b).
  Hypothesis final_len : forall s, len (final s) = KS.
  Hypothesis KS_range : 0 <= KS <= 64.

  (* Hf l = final (update init l) = Model.Auth.H *)
  Local Notation Hf := (Auth.H S init update final).

  Lemma Hf_eq : forall l, Hf l = final (update init l).
  Proof. reflexivity. Qed.

  Lemma Hf_len : forall l, len (Hf l) = KS.
  Proof. intros l. apply final_len. Qed.

  Lemma slice_final : forall s, slice_to (final s) KS = Ok (final s).
  Proof.
    intros s. rewrite slice_to_ok by (rewrite final_len; lia).
    rewrite takez_all by (rewrite final_len; lia). reflexivity.
  Qed.

  (* ---------------- A: sign ---------------- *)

  Lemma hmac_len : forall key text, len (hmac Hf key text) = KS.
  Proof. intros key text. unfold hmac. apply Hf_len. Qed.

  Lemma hmac96_len : forall key text, 12 <= KS -> len (hmac96 Hf key text) = 12.
  Proof. intros key text H12. unfold hmac96. apply firstn_12_len. rewrite hmac_len. exact H12. Qed.

  (* the two nested digests of the code are RFC 2104 *)
  Lemma sign_inner_outer : forall key data, len key = KS ->
    final (update (update (update init (xor_const OPAD_VALUE key))
                          (const_bytes (Z.to_nat (PADDED_LENGTH - KS)) OPAD_VALUE))
                  (final (update (update (update init (xor_const IPAD_VALUE key))
                                         (const_bytes (Z.to_nat (PADDED_LENGTH - KS)) IPAD_VALUE)) data)))
    = hmac Hf key data.
  Proof.
    intros key data Hk. unfold PADDED_LENGTH, IPAD_VALUE, OPAD_VALUE, hmac.
    rewrite !update_app, !app_assoc.
    rewrite (padded_key_eq 92 key KS Hk KS_range), (padded_key_eq 54 key KS Hk KS_range). reflexivity.
  Qed.

  (* general signature size SS <= KS *)
  Lemma sign_is_hmac_gen : forall SS key data offset,
    len key = KS -> 0 <= SS <= KS -> 0 <= offset -> offset + SS <= len data ->
    sign S init update final KS SS key data offset =
    Ok (takez offset data ++ firstn (Z.to_nat SS) (hmac Hf key data) ++ dropz (offset + SS) data).
  Proof.
    intros SS key data offset Hk HSS Hoff Hend. unfold sign. cbv zeta.
    rewrite slice_final. cbn [bind]. rewrite (sign_inner_outer key data Hk).
    rewrite slice_to_ok by (rewrite hmac_len; lia). cbn [bind].
    destruct (offset <? 0) eqn:E1; [apply Z.ltb_lt in E1; lia|].
    destruct (len data <? offset + SS) eqn:E2; [apply Z.ltb_lt in E2; lia|].
    cbn [orb]. rewrite (takez_firstn (hmac Hf key data) SS) by lia. reflexivity.
  Qed.

  (* C09: the requested statement needs 12 <= KS (the MAC is the first 12 octets of a KS-octet digest) *)
  Theorem sign_is_hmac : forall key data offset,
    12 <= KS -> len key = KS -> 0 <= offset -> offset + 12 <= len data ->
    sign S init update final KS 12 key data offset =
    Ok (takez offset data ++ hmac96 Hf key data ++ dropz (offset + 12) data).
  Proof.
    intros key data offset H12 Hk Hoff Hend.
    rewrite sign_is_hmac_gen by (try assumption; lia). reflexivity.
  Qed.

  Theorem sign_length : forall key data offset r,
    12 <= KS -> len key = KS -> 0 <= offset -> offset + 12 <= len data ->
    sign S init update final KS 12 key data offset = Ok r -> len r = len data.
  Proof.
    intros key data offset r H12 Hk Hoff Hend Hs.
    rewrite sign_is_hmac in Hs by assumption. apply Ok_inj in Hs. subst r.
    rewrite !len_app, hmac96_len by exact H12.
    rewrite len_takez by lia. rewrite len_dropz by lia. lia.
  Qed.

  (* only the 12 octets at [offset, offset + 12) change, and they become the MAC *)
  Theorem sign_frame : forall key data offset r,
    12 <= KS -> len key = KS -> 0 <= offset -> offset + 12 <= len data ->
    sign S init update final KS 12 key data offset = Ok r ->
    takez offset r = takez offset data /\
    dropz (offset + 12) r = dropz (offset + 12) data /\
    takez 12 (dropz offset r) = hmac96 Hf key data.
  Proof.
    intros key data offset r H12 Hk Hoff Hend Hs.
    rewrite sign_is_hmac in Hs by assumption. apply Ok_inj in Hs. subst r.
    assert (Ht : len (takez offset data) = offset) by (apply len_takez; lia).
    assert (Hm : len (hmac96 Hf key data) = 12) by (apply hmac96_len; exact H12).
    split; [|split].
    - rewrite <- Ht at 1. apply takez_app_exact.
    - rewrite app_assoc.
      replace (offset + 12) with (len (takez offset data ++ hmac96 Hf key data)) at 1
        by (rewrite len_app; lia).
      apply dropz_app_exact.
    - rewrite <- Ht at 1. rewrite dropz_app_exact. rewrite <- Hm at 1. apply takez_app_exact.
  Qed.

  (* sign never returns an error; it panics exactly when the window is outside the data *)
  Theorem sign_panic : forall key data offset,
    12 <= KS -> len key = KS -> (offset < 0 \/ len data < offset + 12) ->
    sign S init update final KS 12 key data offset = Panic.
  Proof.
    intros key data offset H12 Hk Hbad. unfold sign. cbv zeta.
    rewrite slice_final. cbn [bind]. rewrite (sign_inner_outer key data Hk).
    rewrite slice_to_ok by (rewrite hmac_len; lia). cbn [bind].
    destruct (offset <? 0) eqn:E1; [reflexivity|]. apply Z.ltb_ge in E1.
    destruct (len data <? offset + 12) eqn:E2; [reflexivity|]. apply Z.ltb_ge in E2. lia.
  Qed.

  (* ---------------- B: key derivation ---------------- *)

  Lemma iter_update : forall pw k s0 a,
    nat_rect (fun _ => S) (update s0 a) (fun _ s => update s pw) k =
    update s0 (a ++ concat (repeat pw k)).
  Proof.
    intros pw k s0 a. induction k as [|k IH].
    - cbn [nat_rect repeat concat]. rewrite app_nil_r. reflexivity.
    - cbn [nat_rect]. rewrite IH, update_app. cbn [repeat concat].
      rewrite <- app_assoc, concat_repeat_comm. reflexivity.
  Qed.

  (* n >= 1 full copies through one hasher (no law about [update s []] is needed) *)
  Lemma Ziter_update : forall pw n, 1 <= n ->
    Z.iter n (fun s => update s pw) init = update init (concat (repeat pw (Z.to_nat n))).
  Proof.
    intros pw n Hn. rewrite iter_nat_of_Z by lia.
    replace (Z.abs_nat n) with (Datatypes.S (Z.to_nat (n - 1))) by lia.
    replace (Z.to_nat n) with (Datatypes.S (Z.to_nat (n - 1))) by lia.
    rewrite (nat_rect_shift S (fun s => update s pw)). rewrite iter_update. reflexivity.
  Qed.

  Lemma megabyte_split : forall pw : bytes, pw <> [] ->
    Z.to_nat 1048576 =
    (Z.to_nat (1048576 / len pw) * length pw + Z.to_nat (1048576 mod len pw))%nat /\
    (Z.to_nat (1048576 mod len pw) <= length pw)%nat /\
    0 <= 1048576 / len pw /\ 0 <= 1048576 mod len pw < len pw.
  Proof.
    intros pw Hpw.
    assert (Hl : 0 < len pw).
    { destruct pw as [|x r]; [congruence|]. rewrite len_cons. pose proof (len_nonneg r). lia. }
    pose proof (Z.div_mod 1048576 (len pw) ltac:(lia)) as Hdm.
    pose proof (Z.mod_pos_bound 1048576 (len pw) Hl) as Hm.
    assert (Hq : 0 <= 1048576 / len pw) by (apply Z.div_pos; lia).
    set (q := 1048576 / len pw) in *. set (r := 1048576 mod len pw) in *.
    split; [|split; [|split; assumption]].
    - apply Nat2Z.inj. rewrite Nat2Z.inj_add, Nat2Z.inj_mul, !Z2Nat.id by lia.
      fold (len pw). lia.
    - apply Nat2Z.inj_le. rewrite Z2Nat.id by lia. fold (len pw). lia.
  Qed.

  Theorem password_to_master_spec : forall pw, pw <> [] ->
    password_to_master S init update final KS pw = Ok (password_to_key Hf pw).
  Proof.
    intros pw Hpw. unfold password_to_master, password_to_key, MEGABYTE.
    destruct (megabyte_split pw Hpw) as (Hsplit & Hrle & Hq & Hr).
    destruct (len pw =? 0) eqn:E0; [apply Z.eqb_eq in E0; lia|].
    cbv zeta. rewrite slice_final. f_equal. rewrite Hf_eq. f_equal.
    rewrite Hsplit. rewrite <- (take_cycle_repeat _ _ pw Hrle).
    set (q := 1048576 / len pw) in *. set (r := 1048576 mod len pw) in *.
    destruct (Z.eq_dec q 0) as [Hq0|Hq0].
    - (* password longer than a megabyte: no full copy *)
      assert (Hr0 : r = 1048576).
      { pose proof (Z.div_mod 1048576 (len pw) ltac:(lia)) as Hdm. fold q r in Hdm. rewrite Hq0 in Hdm. lia. }
      rewrite Hq0. change (Z.iter 0 (fun s : S => update s pw) init) with init.
      change (Z.to_nat 0) with O. cbn [repeat concat app Nat.mul Nat.add].
      destruct (0 <? r) eqn:E; [|apply Z.ltb_ge in E; lia].
      rewrite takez_firstn by lia. reflexivity.
    - rewrite Ziter_update by lia.
      destruct (0 <? r) eqn:E.
      + rewrite update_app. rewrite takez_firstn by lia. reflexivity.
      + apply Z.ltb_ge in E. assert (Hr0 : r = 0) by lia. rewrite Hr0.
        change (Z.to_nat 0) with O. cbn [firstn]. rewrite app_nil_r. reflexivity.
  Qed.

  (* MEGABYTE / 0: the caller has to refuse the empty password *)
  Theorem password_to_master_empty : password_to_master S init update final KS [] = Panic.
  Proof. reflexivity. Qed.

  Theorem localize_spec : forall key loc,
    localize S init update final KS key loc = Ok (localize_key Hf key loc).
  Proof.
    intros key loc. unfold localize, localize_key. rewrite slice_final, !update_app.
    reflexivity.
  Qed.

  Lemma password_to_key_len : forall pw, len (password_to_key Hf pw) = KS.
  Proof. intros pw. unfold password_to_key. apply Hf_len. Qed.

  Lemma localize_key_len : forall k e, len (localize_key Hf k e) = KS.
  Proof. intros k e. unfold localize_key. apply Hf_len. Qed.

  Theorem as_password_spec : forall pw loc, pw <> [] ->
    as_password S init update final KS pw loc = Ok (localize_key Hf (password_to_key Hf pw) loc).
  Proof.
    intros pw loc Hpw. unfold as_password, as_master, as_localized.
    rewrite password_to_master_spec by exact Hpw. cbn [bind]. rewrite localize_spec. cbn [bind].
    rewrite localize_key_len, Z.eqb_refl. reflexivity.
  Qed.
End Generic.

(* ------------------------------------------------------------------ *)
(* MD5 and SHA-1 instances *)

(* the digest function of an algorithm *)
Definition alg_H (a : auth_alg) : bytes -> bytes :=
  match a with ANoAuth => fun _ => [] | AMd5 => MD5.md5 | ASha1 => SHA1.sha1 end.

(* use these equations by [rewrite]: a conversion check between [alg_H AMd5] and [MD5.md5] inside a
   cast can send the kernel into unfolding the digest *)
Lemma alg_H_md5 : alg_H AMd5 = MD5.md5.
Proof. cbn [alg_H]. reflexivity. Qed.

Lemma alg_H_sha1 : alg_H ASha1 = SHA1.sha1.
Proof. cbn [alg_H]. reflexivity. Qed.

Lemma md5_final_len : forall s, len (MD5.md5_final s) = MD5_KEY_SIZE.
Proof. intros s. unfold len. rewrite HashStream.md5_final_length. reflexivity. Qed.

Lemma sha1_final_len : forall s, len (SHA1.sha1_final s) = SHA1_KEY_SIZE.
Proof. intros s. unfold len. rewrite HashStream.sha1_final_length. reflexivity. Qed.

Lemma md5_ks_range : 0 <= MD5_KEY_SIZE <= 64.
Proof. unfold MD5_KEY_SIZE. lia. Qed.

Lemma sha1_ks_range : 0 <= SHA1_KEY_SIZE <= 64.
Proof. unfold SHA1_KEY_SIZE. lia. Qed.

(* Model.Auth.H at the two digests is the one-shot digest function *)
Lemma H_md5 : Auth.H _ MD5.md5_init MD5.md5_update MD5.md5_final = MD5.md5.
Proof. unfold Auth.H, MD5.md5. reflexivity. Qed.

Lemma H_sha1 : Auth.H _ SHA1.sha1_init SHA1.sha1_update SHA1.sha1_final = SHA1.sha1.
Proof. unfold Auth.H, SHA1.sha1. reflexivity. Qed.

Lemma md5_len : forall l, len (MD5.md5 l) = 16.
Proof. intros l. unfold MD5.md5. apply md5_final_len. Qed.

Lemma sha1_len : forall l, len (SHA1.sha1 l) = 20.
Proof. intros l. unfold SHA1.sha1. apply sha1_final_len. Qed.

(* ---- A2: alg_sign ---- *)

Theorem md5_sign_is_hmac : forall key data offset,
  len key = 16 -> 0 <= offset -> offset + 12 <= len data ->
  alg_sign {| ak_alg := AMd5; ak_key := key |} data offset =
  Ok (takez offset data ++ hmac96 MD5.md5 key data ++ dropz (offset + 12) data).
Proof.
  intros key data offset Hk Hoff Hend. cbn [alg_sign ak_alg ak_key]. change MD5_SIGN_SIZE with 12.
  rewrite <- H_md5.
  apply (sign_is_hmac _ MD5.md5_init MD5.md5_update MD5.md5_final MD5_KEY_SIZE
           HashStream.md5_update_app md5_final_len md5_ks_range);
    try assumption; unfold MD5_KEY_SIZE; lia.
Qed.

Theorem sha1_sign_is_hmac : forall key data offset,
  len key = 20 -> 0 <= offset -> offset + 12 <= len data ->
  alg_sign {| ak_alg := ASha1; ak_key := key |} data offset =
  Ok (takez offset data ++ hmac96 SHA1.sha1 key data ++ dropz (offset + 12) data).
Proof.
  intros key data offset Hk Hoff Hend. cbn [alg_sign ak_alg ak_key]. change SHA1_SIGN_SIZE with 12.
  rewrite <- H_sha1.
  apply (sign_is_hmac _ SHA1.sha1_init SHA1.sha1_update SHA1.sha1_final SHA1_KEY_SIZE
           HashStream.sha1_update_app sha1_final_len sha1_ks_range);
    try assumption; unfold SHA1_KEY_SIZE; lia.
Qed.

Theorem alg_sign_noauth : forall k data off,
  alg_sign {| ak_alg := ANoAuth; ak_key := k |} data off = Ok data.
Proof. reflexivity. Qed.

(* uniform statement over the key object of a session with authentication *)
Theorem alg_sign_is_hmac : forall k data offset,
  has_auth (ak_alg k) = true -> len (ak_key k) = key_size (ak_alg k) ->
  0 <= offset -> offset + 12 <= len data ->
  alg_sign k data offset =
  Ok (takez offset data ++ hmac96 (alg_H (ak_alg k)) (ak_key k) data ++ dropz (offset + 12) data).
Proof.
  intros [a key] data offset Ha Hk Hoff Hend. cbn [ak_alg ak_key] in *.
  destruct a; cbn [has_auth key_size alg_H] in *; [discriminate| |].
  - apply md5_sign_is_hmac; assumption.
  - apply sha1_sign_is_hmac; assumption.
Qed.

Lemma hmac96_alg_len : forall a key text, has_auth a = true -> len (hmac96 (alg_H a) key text) = 12.
Proof.
  intros a key text Ha. unfold hmac96, hmac. apply firstn_12_len.
  destruct a; cbn [has_auth alg_H] in *; [discriminate| |]; rewrite ?md5_len, ?sha1_len; lia.
Qed.

Theorem alg_sign_length : forall k data offset r,
  (has_auth (ak_alg k) = true -> len (ak_key k) = key_size (ak_alg k) /\ 0 <= offset /\ offset + 12 <= len data) ->
  alg_sign k data offset = Ok r -> len r = len data.
Proof.
  intros k data offset r Hpre Hs. destruct (has_auth (ak_alg k)) eqn:Ha.
  - destruct (Hpre eq_refl) as (Hk & Hoff & Hend).
    rewrite alg_sign_is_hmac in Hs by assumption. apply Ok_inj in Hs. subst r.
    rewrite !len_app, hmac96_alg_len by exact Ha.
    rewrite len_takez by lia. rewrite len_dropz by lia. lia.
  - destruct k as [a key]. cbn [ak_alg] in Ha. destruct a; try discriminate.
    cbn [alg_sign ak_alg] in Hs. apply Ok_inj in Hs. subst r. reflexivity.
Qed.

(* ---- B6: key derivation ---- *)

Theorem md5_p2m_spec : forall pw, pw <> [] -> md5_p2m pw = Ok (password_to_key MD5.md5 pw).
Proof.
  intros pw Hpw. unfold md5_p2m. rewrite <- H_md5.
  apply (password_to_master_spec _ MD5.md5_init MD5.md5_update MD5.md5_final MD5_KEY_SIZE
           HashStream.md5_update_app md5_final_len md5_ks_range). exact Hpw.
Qed.

Theorem sha1_p2m_spec : forall pw, pw <> [] -> sha1_p2m pw = Ok (password_to_key SHA1.sha1 pw).
Proof.
  intros pw Hpw. unfold sha1_p2m. rewrite <- H_sha1.
  apply (password_to_master_spec _ SHA1.sha1_init SHA1.sha1_update SHA1.sha1_final SHA1_KEY_SIZE
           HashStream.sha1_update_app sha1_final_len sha1_ks_range). exact Hpw.
Qed.

Theorem md5_p2m_empty : md5_p2m [] = Panic.
Proof. reflexivity. Qed.

Theorem sha1_p2m_empty : sha1_p2m [] = Panic.
Proof. reflexivity. Qed.

Theorem md5_localize_spec : forall key loc, md5_localize key loc = Ok (localize_key MD5.md5 key loc).
Proof.
  intros key loc. unfold md5_localize. rewrite <- H_md5.
  apply (localize_spec _ MD5.md5_init MD5.md5_update MD5.md5_final MD5_KEY_SIZE
           HashStream.md5_update_app md5_final_len md5_ks_range).
Qed.

Theorem sha1_localize_spec : forall key loc, sha1_localize key loc = Ok (localize_key SHA1.sha1 key loc).
Proof.
  intros key loc. unfold sha1_localize. rewrite <- H_sha1.
  apply (localize_spec _ SHA1.sha1_init SHA1.sha1_update SHA1.sha1_final SHA1_KEY_SIZE
           HashStream.sha1_update_app sha1_final_len sha1_ks_range).
Qed.

Theorem alg_p2m_spec : forall a pw, has_auth a = true -> pw <> [] ->
  alg_p2m a pw = Ok (password_to_key (alg_H a) pw).
Proof.
  intros a pw Ha Hpw. destruct a; cbn [has_auth alg_p2m alg_H] in *; [discriminate| |].
  - apply md5_p2m_spec. exact Hpw.
  - apply sha1_p2m_spec. exact Hpw.
Qed.

Theorem alg_p2m_noauth : forall pw, alg_p2m ANoAuth pw = Ok [].
Proof. reflexivity. Qed.

Theorem alg_p2m_empty : forall a, has_auth a = true -> alg_p2m a [] = Panic.
Proof. intros a Ha. destruct a; [discriminate| |]; reflexivity. Qed.

Theorem alg_localize_spec : forall a key loc, has_auth a = true ->
  alg_localize a key loc = Ok (localize_key (alg_H a) key loc).
Proof.
  intros a key loc Ha. destruct a; cbn [has_auth alg_localize alg_H] in *; [discriminate| |].
  - apply md5_localize_spec.
  - apply sha1_localize_spec.
Qed.

Theorem alg_localize_noauth : forall key loc, alg_localize ANoAuth key loc = Ok [].
Proof. reflexivity. Qed.

Lemma alg_H_len : forall a l, len (alg_H a l) = key_size a.
Proof. intros a l. destruct a; cbn [alg_H key_size]; [reflexivity|apply md5_len|apply sha1_len]. Qed.

Lemma localize_key_alg_len : forall a k e, len (localize_key (alg_H a) k e) = key_size a.
Proof. intros a k e. unfold localize_key. apply alg_H_len. Qed.

Lemma password_to_key_alg_len : forall a pw, len (password_to_key (alg_H a) pw) = key_size a.
Proof. intros a pw. unfold password_to_key. apply alg_H_len. Qed.

(* ---- B7: AuthKey::new and AuthKey::as_key_type ---- *)

Theorem auth_new_spec : forall code,
  (Z.land code 63 = 0 -> auth_new code = Ok {| ak_alg := ANoAuth; ak_key := [] |}) /\
  (Z.land code 63 = 1 -> auth_new code = Ok {| ak_alg := AMd5; ak_key := zero_bytes 16 |}) /\
  (Z.land code 63 = 2 -> auth_new code = Ok {| ak_alg := ASha1; ak_key := zero_bytes 20 |}) /\
  (Z.land code 63 <> 0 -> Z.land code 63 <> 1 -> Z.land code 63 <> 2 -> auth_new code = Err InvalidVersion).
Proof.
  intros code. unfold auth_new, KT_ALG_MASK, NO_AUTH, MD5_AUTH, SHA1_AUTH, MD5_KEY_SIZE, SHA1_KEY_SIZE. cbv zeta.
  repeat split.
  - intros ->. reflexivity.
  - intros ->. reflexivity.
  - intros ->. reflexivity.
  - intros H0 H1 H2.
    destruct (Z.land code 63 =? 0) eqn:E0; [apply Z.eqb_eq in E0; contradiction|].
    destruct (Z.land code 63 =? 1) eqn:E1; [apply Z.eqb_eq in E1; contradiction|].
    destruct (Z.land code 63 =? 2) eqn:E2; [apply Z.eqb_eq in E2; contradiction|]. reflexivity.
Qed.

Theorem auth_new_cases : forall code,
  auth_new code = Ok {| ak_alg := ANoAuth; ak_key := [] |} \/
  auth_new code = Ok {| ak_alg := AMd5; ak_key := zero_bytes 16 |} \/
  auth_new code = Ok {| ak_alg := ASha1; ak_key := zero_bytes 20 |} \/
  auth_new code = Err InvalidVersion.
Proof.
  intros code. destruct (auth_new_spec code) as (H0 & H1 & H2 & H3).
  destruct (Z.eq_dec (Z.land code 63) 0) as [E0|E0]; [left; auto|].
  destruct (Z.eq_dec (Z.land code 63) 1) as [E1|E1]; [right; left; auto|].
  destruct (Z.eq_dec (Z.land code 63) 2) as [E2|E2]; [right; right; left; auto|].
  right; right; right; auto.
Qed.

Theorem auth_new_key_size : forall code k, auth_new code = Ok k -> len (ak_key k) = key_size (ak_alg k).
Proof.
  intros code k Hk. destruct (auth_new_cases code) as [E|[E|[E|E]]]; rewrite E in Hk;
    try discriminate; apply Ok_inj in Hk; subst k; reflexivity.
Qed.

Theorem auth_new_no_panic : forall code, auth_new code <> Panic.
Proof. intros code. destruct (auth_new_cases code) as [E|[E|[E|E]]]; rewrite E; discriminate. Qed.

Lemma land_192_cases : forall alg,
  Z.land alg 192 = 0 \/ Z.land alg 192 = 64 \/ Z.land alg 192 = 128 \/ Z.land alg 192 = 192.
Proof.
  intros alg. change 192 with (Z.land 255 192). rewrite Z.land_assoc.
  change 255 with (Z.ones 8). rewrite Z.land_ones by lia. change (Z.land (Z.ones 8) 192) with 192.
  pose proof (Z.mod_pos_bound alg (2 ^ 8) ltac:(reflexivity)) as Hb. change (2 ^ 8) with 256 in *.
  set (x := alg mod 256) in *. clearbody x.
  assert (Hall : forall y, 0 <= y < 256 ->
            ((Z.land y 192 =? 0) || (Z.land y 192 =? 64) || (Z.land y 192 =? 128) || (Z.land y 192 =? 192)) = true).
  { apply (BufLemmas.byte_forall
             (fun y => (Z.land y 192 =? 0) || (Z.land y 192 =? 64) || (Z.land y 192 =? 128) || (Z.land y 192 =? 192))).
    vm_compute. reflexivity. }
  specialize (Hall x Hb). rewrite !orb_true_iff, !Z.eqb_eq in Hall. tauto.
Qed.

Section AsKeyType.
  Variables (k : auth_key) (alg : Z) (key eid : bytes).
  Let a := ak_alg k.
  Let t := Z.land alg 192.

  Theorem as_key_type_noauth : has_auth a = false -> as_key_type k alg key eid = Ok k.
  Proof. intros Ha. unfold as_key_type. fold a. rewrite Ha. reflexivity. Qed.

  Theorem as_key_type_password : has_auth a = true -> t = 0 -> key <> [] ->
    as_key_type k alg key eid =
    Ok {| ak_alg := a; ak_key := localize_key (alg_H a) (password_to_key (alg_H a) key) eid |}.
  Proof.
    intros Ha Ht Hkey. unfold as_key_type, KT_TYPE_MASK, KT_PASSWORD. fold a. fold t. rewrite Ha, Ht. cbn [negb].
    assert (Hl : (len key =? 0) = false).
    { apply Z.eqb_neq. intros E. apply Hkey. apply len_zero_nil. exact E. }
    cbv zeta. rewrite Hl. cbn [Z.eqb negb andb].
    rewrite alg_p2m_spec by assumption. cbn [bind]. rewrite alg_localize_spec by assumption. cbn [bind].
    rewrite localize_key_alg_len, Z.eqb_refl. reflexivity.
  Qed.

  Theorem as_key_type_password_empty : has_auth a = true -> t = 0 -> key = [] ->
    as_key_type k alg key eid = Err InvalidKey.
  Proof.
    intros Ha Ht Hkey. unfold as_key_type, KT_TYPE_MASK, KT_PASSWORD, KT_MASTER, KT_LOCALIZED.
    fold a. fold t. rewrite Ha, Ht, Hkey. reflexivity.
  Qed.

  Theorem as_key_type_master : has_auth a = true -> t = 64 -> len key = key_size a ->
    as_key_type k alg key eid = Ok {| ak_alg := a; ak_key := localize_key (alg_H a) key eid |}.
  Proof.
    intros Ha Ht Hkey. unfold as_key_type, KT_TYPE_MASK, KT_PASSWORD, KT_MASTER. fold a. fold t.
    rewrite Ha, Ht, Hkey, Z.eqb_refl. cbn [negb Z.eqb andb]. cbv zeta.
    rewrite alg_localize_spec by assumption. cbn [bind].
    rewrite localize_key_alg_len, Z.eqb_refl. reflexivity.
  Qed.

  Theorem as_key_type_localized : has_auth a = true -> t = 128 -> len key = key_size a ->
    as_key_type k alg key eid = Ok {| ak_alg := a; ak_key := key |}.
  Proof.
    intros Ha Ht Hkey. unfold as_key_type, KT_TYPE_MASK, KT_PASSWORD, KT_MASTER, KT_LOCALIZED. fold a. fold t.
    rewrite Ha, Ht, Hkey, Z.eqb_refl. reflexivity.
  Qed.

  Theorem as_key_type_bad_length : has_auth a = true -> (t = 64 \/ t = 128) -> len key <> key_size a ->
    as_key_type k alg key eid = Err InvalidKey.
  Proof.
    intros Ha Ht Hkey. unfold as_key_type, KT_TYPE_MASK, KT_PASSWORD, KT_MASTER, KT_LOCALIZED. fold a. fold t.
    apply Z.eqb_neq in Hkey. rewrite Ha. cbv zeta. rewrite Hkey.
    destruct Ht as [-> | ->]; reflexivity.
  Qed.

  Theorem as_key_type_bad_type : has_auth a = true -> t <> 0 -> t <> 64 -> t <> 128 ->
    as_key_type k alg key eid = Err InvalidKey.
  Proof.
    intros Ha H0 H1 H2. unfold as_key_type, KT_TYPE_MASK, KT_PASSWORD, KT_MASTER, KT_LOCALIZED. fold a. fold t.
    apply Z.eqb_neq in H0, H1, H2. rewrite Ha. cbv zeta. rewrite H0, H1, H2. reflexivity.
  Qed.

  Theorem as_key_type_192 : has_auth a = true -> t = 192 -> as_key_type k alg key eid = Err InvalidKey.
  Proof. intros Ha Ht. apply as_key_type_bad_type; [exact Ha|lia|lia|lia]. Qed.

  (* the decision table *)
  Theorem as_key_type_spec :
    (has_auth a = false -> as_key_type k alg key eid = Ok k) /\
    (has_auth a = true ->
       (t = 0 -> key <> [] ->
        as_key_type k alg key eid =
        Ok {| ak_alg := a; ak_key := localize_key (alg_H a) (password_to_key (alg_H a) key) eid |}) /\
       (t = 0 -> key = [] -> as_key_type k alg key eid = Err InvalidKey) /\
       (t = 64 -> len key = key_size a ->
        as_key_type k alg key eid = Ok {| ak_alg := a; ak_key := localize_key (alg_H a) key eid |}) /\
       (t = 128 -> len key = key_size a -> as_key_type k alg key eid = Ok {| ak_alg := a; ak_key := key |}) /\
       ((t = 64 \/ t = 128) -> len key <> key_size a -> as_key_type k alg key eid = Err InvalidKey) /\
       (t = 192 -> as_key_type k alg key eid = Err InvalidKey)).
  Proof.
    split; [apply as_key_type_noauth|]. intros Ha.
    split; [apply as_key_type_password; exact Ha|].
    split; [apply as_key_type_password_empty; exact Ha|].
    split; [apply as_key_type_master; exact Ha|].
    split; [apply as_key_type_localized; exact Ha|].
    split; [apply as_key_type_bad_length; exact Ha|apply as_key_type_192; exact Ha].
  Qed.

  (* the result key has the size of the algorithm *)
  Theorem as_key_type_key_size : forall k',
    (has_auth a = false -> len (ak_key k) = key_size a) ->
    as_key_type k alg key eid = Ok k' -> ak_alg k' = a /\ len (ak_key k') = key_size a.
  Proof.
    intros k' Hk0 Hr. destruct (has_auth a) eqn:Ha.
    - destruct (land_192_cases alg) as [Ht|[Ht|[Ht|Ht]]]; fold t in Ht.
      + destruct key as [|x r] eqn:Ek.
        * rewrite <- Ek in Hr. rewrite as_key_type_password_empty in Hr by assumption. discriminate.
        * rewrite <- Ek in Hr. rewrite as_key_type_password in Hr by (try assumption; rewrite Ek; discriminate).
          apply Ok_inj in Hr. subst k'. cbn [ak_alg ak_key]. split; [reflexivity|apply localize_key_alg_len].
      + destruct (Z.eq_dec (len key) (key_size a)) as [El|El].
        * rewrite as_key_type_master in Hr by assumption. apply Ok_inj in Hr. subst k'. cbn [ak_alg ak_key].
          split; [reflexivity|apply localize_key_alg_len].
        * rewrite as_key_type_bad_length in Hr by (try assumption; left; assumption). discriminate.
      + destruct (Z.eq_dec (len key) (key_size a)) as [El|El].
        * rewrite as_key_type_localized in Hr by assumption. apply Ok_inj in Hr. subst k'. cbn [ak_alg ak_key].
          split; [reflexivity|exact El].
        * rewrite as_key_type_bad_length in Hr by (try assumption; right; assumption). discriminate.
      + rewrite as_key_type_192 in Hr by assumption. discriminate.
    - rewrite as_key_type_noauth in Hr by exact Ha. apply Ok_inj in Hr. subst k'.
      split; [reflexivity|apply Hk0; reflexivity].
  Qed.

  (* no precondition at all is needed: as_key_type never panics *)
  Theorem as_key_type_no_panic_gen : as_key_type k alg key eid <> Panic.
  Proof.
    destruct (has_auth a) eqn:Ha.
    - destruct (land_192_cases alg) as [Ht|[Ht|[Ht|Ht]]]; fold t in Ht.
      + destruct key as [|x r] eqn:Ek.
        * rewrite <- Ek. rewrite as_key_type_password_empty by assumption. discriminate.
        * rewrite <- Ek. rewrite as_key_type_password by (try assumption; rewrite Ek; discriminate). discriminate.
      + destruct (Z.eq_dec (len key) (key_size a)) as [El|El].
        * rewrite as_key_type_master by assumption. discriminate.
        * rewrite as_key_type_bad_length by (try assumption; left; assumption). discriminate.
      + destruct (Z.eq_dec (len key) (key_size a)) as [El|El].
        * rewrite as_key_type_localized by assumption. discriminate.
        * rewrite as_key_type_bad_length by (try assumption; right; assumption). discriminate.
      + rewrite as_key_type_192 by assumption. discriminate.
    - rewrite as_key_type_noauth by exact Ha. discriminate.
  Qed.
End AsKeyType.

Theorem as_key_type_no_panic : forall k alg key eid,
  (ak_alg k = ANoAuth \/ len (ak_key k) = key_size (ak_alg k)) -> as_key_type k alg key eid <> Panic.
Proof. intros k alg key eid _. apply as_key_type_no_panic_gen. Qed.

(* ---- B8: the functions exposed to Python ---- *)

Theorem get_master_key_spec : forall alg pw,
  (forall e, auth_new alg = Err e -> get_master_key alg pw = PyDecodeError) /\
  (forall k, auth_new alg = Ok k ->
     (pw = [] -> get_master_key alg pw = PyValueError) /\
     (pw <> [] -> has_auth (ak_alg k) = true ->
      get_master_key alg pw = PyOk (password_to_key (alg_H (ak_alg k)) pw)) /\
     (pw <> [] -> has_auth (ak_alg k) = false -> get_master_key alg pw = PyOk [])) /\
  get_master_key alg pw <> PyPanic.
Proof.
  intros alg pw. unfold get_master_key.
  destruct (auth_new alg) as [k|e|] eqn:En; [| |exfalso; exact (auth_new_no_panic alg En)].
  - split; [intros e He; discriminate|]. 
    assert (Hcases : (pw = [] -> (len pw =? 0) = true) /\ (pw <> [] -> (len pw =? 0) = false)).
    { split; [intros ->; reflexivity|]. intros Hne. apply Z.eqb_neq. intros E. apply Hne, len_zero_nil, E. }
    destruct Hcases as (Hc1 & Hc2).
    split.
    + intros k' Hk'. apply Ok_inj in Hk'. subst k'. split; [|split].
      * intros Hpw. rewrite (Hc1 Hpw). reflexivity.
      * intros Hpw Ha. rewrite (Hc2 Hpw). rewrite alg_p2m_spec by assumption. reflexivity.
      * intros Hpw Ha. rewrite (Hc2 Hpw). destruct (ak_alg k); try discriminate. reflexivity.
    + destruct (len pw =? 0) eqn:E0; [discriminate|].
      assert (Hpw : pw <> []) by (intros ->; discriminate).
      destruct (has_auth (ak_alg k)) eqn:Ha.
      * rewrite alg_p2m_spec by assumption. discriminate.
      * destruct (ak_alg k); discriminate.
  - split; [intros e' _; reflexivity|]. split; [intros k Hk; discriminate|discriminate].
Qed.

Theorem get_localized_key_spec : forall alg master eid,
  (forall e, auth_new alg = Err e -> get_localized_key alg master eid = PyDecodeError) /\
  (forall k, auth_new alg = Ok k ->
     (len master <> key_size (ak_alg k) -> get_localized_key alg master eid = PyValueError) /\
     (len master = key_size (ak_alg k) -> has_auth (ak_alg k) = true ->
      get_localized_key alg master eid = PyOk (localize_key (alg_H (ak_alg k)) master eid)) /\
     (len master = key_size (ak_alg k) -> has_auth (ak_alg k) = false ->
      get_localized_key alg master eid = PyOk [])) /\
  get_localized_key alg master eid <> PyPanic.
Proof.
  intros alg master eid. unfold get_localized_key.
  destruct (auth_new alg) as [k|e|] eqn:En; [| |exfalso; exact (auth_new_no_panic alg En)].
  - split; [intros e He; discriminate|]. split.
    + intros k' Hk'. apply Ok_inj in Hk'. subst k'. split; [|split].
      * intros Hl. apply Z.eqb_neq in Hl. rewrite Hl. reflexivity.
      * intros Hl Ha. rewrite Hl, Z.eqb_refl. cbn [negb]. rewrite alg_localize_spec by assumption. reflexivity.
      * intros Hl Ha. rewrite Hl, Z.eqb_refl. cbn [negb]. destruct (ak_alg k); try discriminate. reflexivity.
    + destruct (len master =? key_size (ak_alg k)); cbn [negb]; [|discriminate].
      destruct (has_auth (ak_alg k)) eqn:Ha.
      * rewrite alg_localize_spec by assumption. discriminate.
      * destruct (ak_alg k); discriminate.
  - split; [intros e' _; reflexivity|]. split; [intros k Hk; discriminate|discriminate].
Qed.

(* ------------------------------------------------------------------ *)
(* the extra hypothesis 12 <= KS of sign_is_hmac is needed: a toy streaming digest with 8-octet output
   satisfies the section hypotheses (KS = 8), and sign panics (slice d2[0..12] of an 8-octet digest) *)
Example sign_needs_12_le_KS :
  let upd := fun s a : bytes => s ++ a in
  let fin := fun s : bytes => firstn 8 (s ++ repeat 0 8%nat) in
  (forall s a b, upd (upd s a) b = upd s (a ++ b)) /\
  (forall s, len (fin s) = 8) /\
  0 <= 8 <= 64 /\
  sign bytes [] upd fin 8 12 (repeat 1 8%nat) (repeat 0 12%nat) 0 = Panic.
Proof.
  cbv zeta. split; [|split; [|split]].
  - intros s a b. symmetry. apply app_assoc.
  - intros s. unfold len. rewrite firstn_length, app_length, repeat_length. lia.
  - lia.
  - vm_compute. reflexivity.
Qed.

(* ------------------------------------------------------------------ *)
(* closed finite checks: the reference HMAC-96 of Spec/Rfc3414.v on the unit-test vectors of
   src/auth/mod.rs (test_md5_sign, test_sha1_sign: master key "user10key" / "user20key" localized,
   119-octet message, offset 58) *)
Definition test_eid : bytes := [128; 0; 31; 136; 4; 50; 55; 103; 83; 56; 54; 116; 100].
Definition test_msg (u : Z) : bytes :=
  [48; 119; 2; 1; 3; 48; 16; 2; 4; 31; 120; 150; 153; 2; 2; 5; 220; 4; 1; 1; 2; 1; 3; 4;
   47; 48; 45; 4; 13; 128; 0; 31; 136; 4; 50; 55; 103; 83; 56; 54; 116; 100; 2; 1; 0; 2;
   1; 0; 4; 6; 117; 115; 101; 114; u; 48; 4; 12; 0; 0; 0; 0; 0; 0; 0; 0; 0; 0; 0; 0; 4;
   0; 48; 47; 4; 13; 128; 0; 31; 136; 4; 50; 55; 103; 83; 56; 54; 116; 100; 4; 0; 160; 28;
   2; 4; 80; 85; 225; 64; 2; 1; 0; 2; 1; 0; 48; 14; 48; 12; 6; 8; 43; 6; 1; 2; 1; 1; 4; 0;
   5; 0].

Example md5_sign_vector :
  let key := localize_key MD5.md5 [117; 115; 101; 114; 49; 48; 107; 101; 121] test_eid in
  hmac96 MD5.md5 key (test_msg 49) = [18; 138; 173; 156; 223; 188; 26; 178; 137; 113; 25; 22] /\
  alg_sign {| ak_alg := AMd5; ak_key := key |} (test_msg 49) 58 =
  Ok (firstn 58 (test_msg 49) ++ [18; 138; 173; 156; 223; 188; 26; 178; 137; 113; 25; 22] ++ skipn 70 (test_msg 49)).
Proof. vm_compute. split; reflexivity. Qed.

Example sha1_sign_vector :
  let key := localize_key SHA1.sha1 [117; 115; 101; 114; 50; 48; 107; 101; 121] test_eid in
  hmac96 SHA1.sha1 key (test_msg 50) = [8; 126; 173; 253; 67; 91; 150; 217; 19; 212; 52; 193] /\
  alg_sign {| ak_alg := ASha1; ak_key := key |} (test_msg 50) 58 =
  Ok (firstn 58 (test_msg 50) ++ [8; 126; 173; 253; 67; 91; 150; 217; 19; 212; 52; 193] ++ skipn 70 (test_msg 50)).
Proof. vm_compute. split; reflexivity. Qed.

(* ------------------------------------------------------------------ *)
(* Print Assumptions (observed with coqc 8.16.1): each prints "Closed under the global context"
     sign_is_hmac sign_length sign_frame sign_panic password_to_master_spec password_to_master_empty
     localize_spec as_password_spec md5_sign_is_hmac sha1_sign_is_hmac alg_sign_noauth alg_sign_is_hmac
     alg_sign_length md5_p2m_spec sha1_p2m_spec md5_localize_spec sha1_localize_spec alg_p2m_spec
     alg_localize_spec auth_new_spec auth_new_key_size as_key_type_spec as_key_type_key_size
     as_key_type_no_panic as_key_type_no_panic_gen get_master_key_spec get_localized_key_spec
     sign_needs_12_le_KS md5_sign_vector sha1_sign_vector *)

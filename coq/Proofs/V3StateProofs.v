(* SNMPv3 socket and session state machine (Model/V3.v, Model/Session.v):
   C10 / C04 for v3   what the receive path accepts, the receive loop,
   C13                engine discovery, time synchronisation, key localisation, SnmpSession.refresh(). *)
From Coq Require Import ZArith List Bool Lia.
From GS Require Import Model.Base Gen.Constants Model.Ber Model.Pdu Model.Buffer Model.Exc Gen.ErrorMap
  Model.Ops Model.Auth Model.Priv Model.V3 Model.Emit Model.Session Spec.X690.
From GS Require Import Proofs.BaseLemmas Proofs.OpsLemmas Proofs.BufLemmas Proofs.BufferProofs Proofs.IntEncProofs
  Proofs.EncodeProofs Proofs.MsgDecodeProofs Proofs.RoundTrip Proofs.EmitProofs.
Import ListNotations.
Open Scope Z_scope.

(* ================================================================== *)
(* A. what unwrap_pdu accepts                                          *)
(* ================================================================== *)

Definition accepts (s : v3sock) (m : v3msg) (sc : scoped) : Prop :=
  (m_data m = Plaintext sc \/
   exists ct, m_data m = Encrypted ct /\ priv_decrypt (privk s) ct (m_usm m) = Ok sc) /\
  all_eqb (user_name s) (u_user_name (m_usm m)) = true /\
  (len (engine_id s) = 0 \/ all_eqb (u_engine_id (m_usm m)) (engine_id s) = true) /\
  msg_id s = m_msg_id m /\
  pdu_check (s_pdu sc) (request_id s) = true.

(* the three stages of v3_unwrap, named *)
Definition opened (s : v3sock) (m : v3msg) : option scoped :=
  match m_data m with
  | Plaintext x => Some x
  | Encrypted ct => match priv_decrypt (privk s) ct (m_usm m) with Ok x => Some x | _ => None end
  end.

Definition v3_checks (s : v3sock) (m : v3msg) (sc : scoped) : bool :=
  all_eqb (user_name s) (u_user_name (m_usm m))
  && ((len (engine_id s) =? 0) || all_eqb (u_engine_id (m_usm m)) (engine_id s))
  && (msg_id s =? m_msg_id m)
  && pdu_check (s_pdu sc) (request_id s).

(* the socket after a message has been accepted *)
Definition adopt (s : v3sock) (m : v3msg) : v3sock :=
  {| engine_id := if len (engine_id s) =? 0 then u_engine_id (m_usm m) else engine_id s;
     engine_boots := u_engine_boots (m_usm m); engine_time := u_engine_time (m_usm m);
     user_name := user_name s; auth := auth s; privk := privk s; msg_id := msg_id s;
     request_id := request_id s |}.

Lemma v3_unwrap_eq : forall s m,
  v3_unwrap s m =
  match opened s m with
  | None => (s, None)
  | Some sc => if v3_checks s m sc then (adopt s m, Some (s_pdu sc)) else (s, None)
  end.
Proof. reflexivity. Qed.

Lemma opened_some : forall s m sc,
  opened s m = Some sc <->
  (m_data m = Plaintext sc \/
   exists ct, m_data m = Encrypted ct /\ priv_decrypt (privk s) ct (m_usm m) = Ok sc).
Proof.
  intros s m sc. unfold opened. destruct (m_data m) as [x|ct]; split.
  - intros H. left. congruence.
  - intros [H|(ct & H & _)]; congruence.
  - intros H. right. exists ct. split; [reflexivity|].
    destruct (priv_decrypt (privk s) ct (m_usm m)) as [x|e|]; congruence.
  - intros [H|(ct' & H & Hd)]; [discriminate H|]. inversion H; subst ct'. rewrite Hd. reflexivity.
Qed.

Lemma v3_checks_true : forall s m sc,
  v3_checks s m sc = true <->
  all_eqb (user_name s) (u_user_name (m_usm m)) = true /\
  (len (engine_id s) = 0 \/ all_eqb (u_engine_id (m_usm m)) (engine_id s) = true) /\
  msg_id s = m_msg_id m /\
  pdu_check (s_pdu sc) (request_id s) = true.
Proof.
  intros s m sc. unfold v3_checks. rewrite !andb_true_iff, orb_true_iff, !Z.eqb_eq. tauto.
Qed.

Lemma accepts_iff : forall s m sc, accepts s m sc <-> opened s m = Some sc /\ v3_checks s m sc = true.
Proof. intros s m sc. unfold accepts. rewrite opened_some, v3_checks_true. tauto. Qed.

(* A1: the complete acceptance condition *)
Theorem v3_unwrap_accept_char : forall s m p,
  snd (v3_unwrap s m) = Some p <-> exists sc, accepts s m sc /\ p = s_pdu sc.
Proof.
  intros s m p. rewrite v3_unwrap_eq. split.
  - intros H. destruct (opened s m) as [sc|] eqn:Eo; [|discriminate H].
    destruct (v3_checks s m sc) eqn:Ec; cbn [snd] in H; [|discriminate H].
    exists sc. split; [apply accepts_iff; split; assumption|congruence].
  - intros (sc & Ha & ->). apply accepts_iff in Ha. destruct Ha as [Eo Ec].
    rewrite Eo, Ec. reflexivity.
Qed.

(* the full result, state included *)
Theorem v3_unwrap_some : forall s m s' p,
  v3_unwrap s m = (s', Some p) <-> (exists sc, accepts s m sc /\ p = s_pdu sc) /\ s' = adopt s m.
Proof.
  intros s m s' p. rewrite v3_unwrap_eq. split.
  - intros H. destruct (opened s m) as [sc|] eqn:Eo; [|discriminate H].
    destruct (v3_checks s m sc) eqn:Ec; [|discriminate H].
    inversion H; subst. split; [|reflexivity]. exists sc. split; [apply accepts_iff; auto|reflexivity].
  - intros [(sc & Ha & ->) ->]. apply accepts_iff in Ha. destruct Ha as [Eo Ec]. rewrite Eo, Ec. reflexivity.
Qed.

Theorem v3_unwrap_none_keeps_state : forall s m s', v3_unwrap s m = (s', None) -> s' = s.
Proof.
  intros s m s' H. rewrite v3_unwrap_eq in H. destruct (opened s m) as [sc|]; [|congruence].
  destruct (v3_checks s m sc); [discriminate H|congruence].
Qed.

(* neither the auth flag, nor the priv flag, nor the reportable flag, nor msgAuthenticationParameters
   take part in the decision (plaintext data): changing them changes nothing *)
Theorem v3_unwrap_ignores_auth : forall s m fa fp fr ap sc,
  m_data m = Plaintext sc ->
  snd (v3_unwrap s {| m_msg_id := m_msg_id m; m_flag_auth := fa; m_flag_priv := fp; m_flag_report := fr;
                      m_usm := {| u_engine_id := u_engine_id (m_usm m); u_engine_boots := u_engine_boots (m_usm m);
                                  u_engine_time := u_engine_time (m_usm m); u_user_name := u_user_name (m_usm m);
                                  u_auth_params := ap; u_privacy_params := u_privacy_params (m_usm m) |};
                      m_data := m_data m |}) = snd (v3_unwrap s m).
Proof.
  intros s m fa fp fr ap sc Hd. rewrite !v3_unwrap_eq. unfold opened. cbn [m_data]. rewrite Hd.
  unfold v3_checks. cbn [m_usm m_msg_id u_user_name u_engine_id].
  destruct (all_eqb (user_name s) (u_user_name (m_usm m)) &&
            ((len (engine_id s) =? 0) || all_eqb (u_engine_id (m_usm m)) (engine_id s)) &&
            (msg_id s =? m_msg_id m) && pdu_check (s_pdu sc) (request_id s)); reflexivity.
Qed.

(* A2: the known finding C10, as theorems with concrete witnesses *)
Definition c10_sock : v3sock :=
  {| engine_id := [128; 0; 31; 136; 4]; engine_boots := 1; engine_time := 100; user_name := [117; 49];
     auth := {| ak_alg := ASha1; ak_key := [1; 2; 3; 4; 5; 6; 7; 8; 9; 10; 11; 12; 13; 14; 15; 16; 17; 18; 19; 20] |};
     privk := {| pk_alg := PNoPriv; pk_key := []; pk_pre_iv := []; pk_salt := 0 |};
     msg_id := 77; request_id := 1234 |}.
Definition c10_resp : getresponse :=
  {| gr_request_id := 1234; gr_error_status := 0; gr_error_index := 0;
     gr_vars := [ {| vb_oid := [43; 6; 1; 2; 1; 1; 5; 0]; vb_value := VOctetString [101; 118; 105; 108] |} ] |}.
Definition c10_msg (flag_auth : bool) (auth_params : bytes) : v3msg :=
  {| m_msg_id := 77; m_flag_auth := flag_auth; m_flag_priv := false; m_flag_report := false;
     m_usm := {| u_engine_id := [128; 0; 31; 136; 4]; u_engine_boots := 1; u_engine_time := 101;
                 u_user_name := [117; 49]; u_auth_params := auth_params; u_privacy_params := [] |};
     m_data := Plaintext {| s_engine_id := [128; 0; 31; 136; 4]; s_pdu := PGetResponse c10_resp |} |}.

Theorem C10_refuted :
  (exists s m r, has_auth (ak_alg (auth s)) = true /\ m_flag_auth m = false /\ u_auth_params (m_usm m) = [] /\
                 snd (v3_unwrap s m) = Some (PGetResponse r)) /\
  (exists s m r, has_auth (ak_alg (auth s)) = true /\ m_flag_auth m = true /\
                 u_auth_params (m_usm m) = [0; 0; 0; 0; 0; 0; 0; 0; 0; 0; 0; 0] /\
                 snd (v3_unwrap s m) = Some (PGetResponse r)).
Proof.
  split.
  - exists c10_sock, (c10_msg false []), c10_resp. repeat split; vm_compute; reflexivity.
  - exists c10_sock, (c10_msg true [0; 0; 0; 0; 0; 0; 0; 0; 0; 0; 0; 0]), c10_resp.
    repeat split; vm_compute; reflexivity.
Qed.

(* the unauthenticated reply also moves the socket's notion of the engine time *)
Example C10_refuted_time :
  engine_time (fst (v3_unwrap c10_sock (c10_msg false []))) = 101.
Proof. vm_compute. reflexivity. Qed.

Lemma pdu_check_true : forall p rid,
  pdu_check p rid = true <-> (pdu_request_id p = Some rid \/ exists raw, p = PReport raw).
Proof.
  intros p rid. unfold pdu_check. destruct p as [g|g|r|b|raw]; cbn [pdu_request_id]; rewrite ?Z.eqb_eq; split;
    try (intros H; left; congruence);
    try (intros [H|[raw' H]]; [congruence|discriminate H]).
  - intros _. right. exists raw. reflexivity.
  - intros _. reflexivity.
Qed.

(* A3: everything the receive path checks is enforced *)
Theorem C10_modulo_known : forall s m p,
  snd (v3_unwrap s m) = Some p ->
  all_eqb (user_name s) (u_user_name (m_usm m)) = true /\
  (len (engine_id s) = 0 \/ all_eqb (u_engine_id (m_usm m)) (engine_id s) = true) /\
  msg_id s = m_msg_id m /\
  (pdu_request_id p = Some (request_id s) \/ exists raw, p = PReport raw) /\
  (forall ct, m_data m = Encrypted ct ->
     exists sc, priv_decrypt (privk s) ct (m_usm m) = Ok sc /\ p = s_pdu sc) /\
  (forall sc, m_data m = Plaintext sc -> p = s_pdu sc).
Proof.
  intros s m p H. apply v3_unwrap_accept_char in H. destruct H as (sc & (Hd & Hu & He & Hm & Hc) & ->).
  split; [exact Hu|]. split; [exact He|]. split; [exact Hm|]. split; [apply pdu_check_true; exact Hc|].
  split.
  - intros ct Hct. destruct Hd as [Hd|(ct' & Hd & Hdec)]; [congruence|].
    assert (ct' = ct) by congruence. subst ct'. exists sc. split; [exact Hdec|reflexivity].
  - intros sc' Hp. destruct Hd as [Hd|(ct' & Hd & _)]; congruence.
Qed.

(* equalities instead of all_eqb *)
Corollary C10_modulo_known_eq : forall s m p,
  snd (v3_unwrap s m) = Some p ->
  u_user_name (m_usm m) = user_name s /\
  (engine_id s = [] \/ u_engine_id (m_usm m) = engine_id s) /\
  m_msg_id m = msg_id s /\
  (pdu_request_id p = Some (request_id s) \/ exists raw, p = PReport raw).
Proof.
  intros s m p H. destruct (C10_modulo_known s m p H) as (Hu & He & Hm & Hr & _).
  apply all_eqb_eq in Hu. split; [congruence|]. split.
  - destruct He as [He|He]; [left; apply len_zero_nil; exact He|right; apply all_eqb_eq; exact He].
  - split; [congruence|exact Hr].
Qed.

Corollary v3_never_wrong_request : forall s m r,
  snd (v3_unwrap s m) = Some (PGetResponse r) -> gr_request_id r = request_id s.
Proof.
  intros s m r H. destruct (C10_modulo_known s m _ H) as (_ & _ & _ & [Hr|[raw Hr]] & _); [|discriminate Hr].
  cbn [pdu_request_id] in Hr. congruence.
Qed.

(* ================================================================== *)
(* A4. the receive loop                                                *)
(* ================================================================== *)

Definition v3_skippable (s : v3sock) (d : bytes) (s' : v3sock) : Prop :=
  exists m, v3_decode d = Ok m /\ v3_unwrap_panics s m = false /\ v3_unwrap s m = (s', None).
(* "d is skippable at s" *)
Definition v3_skips (s : v3sock) (d : bytes) : Prop := exists s', v3_skippable s d s'.

Lemma v3_skippable_state : forall s d s', v3_skippable s d s' -> s' = s.
Proof. intros s d s' (m & _ & _ & Hu). eapply v3_unwrap_none_keeps_state; eassumption. Qed.

Lemma v3_skips_iff : forall s d, v3_skips s d <-> v3_skippable s d s.
Proof.
  intros s d. split; [|intros H; exists s; exact H].
  intros [s' H]. pose proof (v3_skippable_state _ _ _ H). subst s'. exact H.
Qed.

Theorem v3_recv_loop_skips : forall s pre ds,
  Forall (v3_skips s) pre -> v3_recv_loop s (pre ++ ds) = v3_recv_loop s ds.
Proof.
  intros s pre ds H. induction H as [|d pre Hd _ IH]; [reflexivity|].
  apply v3_skips_iff in Hd. destruct Hd as (m & Hdec & Hp & Hu).
  cbn [app v3_recv_loop]. rewrite Hdec, Hp, Hu. exact IH.
Qed.

Theorem v3_recv_loop_delivered : forall s ds s' p rest,
  v3_recv_loop s ds = (s', Delivered p rest) ->
  exists pre d m, ds = pre ++ d :: rest /\ Forall (v3_skips s) pre /\
                  v3_decode d = Ok m /\ v3_unwrap_panics s m = false /\ v3_unwrap s m = (s', Some p).
Proof.
  intros s ds. induction ds as [|d0 ds IH]; intros s' p rest H; cbn [v3_recv_loop] in H; [discriminate H|].
  destruct (v3_decode d0) as [m|e|] eqn:Ed; try discriminate H.
  destruct (v3_unwrap_panics s m) eqn:Ep; [discriminate H|].
  destruct (v3_unwrap s m) as [s1 [p0|]] eqn:Eu.
  - inversion H; subst. exists [], d0, m. repeat split; auto.
  - pose proof (v3_unwrap_none_keeps_state _ _ _ Eu). subst s1.
    destruct (IH _ _ _ H) as (pre & d & m' & -> & Hpre & Hd & Hp & Hu).
    exists (d0 :: pre), d, m'. split; [reflexivity|]. split; [|auto].
    constructor; [|exact Hpre]. exists s, m. auto.
Qed.

(* converse: a message the socket accepts, behind any number of skipped datagrams, is delivered *)
Corollary v3_recv_loop_later_reply : forall s pre d m s' p rest,
  Forall (v3_skips s) pre -> v3_decode d = Ok m -> v3_unwrap_panics s m = false ->
  v3_unwrap s m = (s', Some p) ->
  v3_recv_loop s (pre ++ d :: rest) = (s', Delivered p rest).
Proof.
  intros s pre d m s' p rest Hpre Hd Hp Hu. rewrite v3_recv_loop_skips by exact Hpre.
  cbn [v3_recv_loop]. rewrite Hd, Hp, Hu. reflexivity.
Qed.

Theorem v3_recv_loop_failed : forall s ds s' e rest,
  v3_recv_loop s ds = (s', Failed e rest) ->
  s' = s /\
  exists pre d er, ds = pre ++ d :: rest /\ Forall (v3_skips s) pre /\
                   v3_decode d = Err er /\ e = err_to_exc er.
Proof.
  intros s ds. induction ds as [|d0 ds IH]; intros s' e rest H; cbn [v3_recv_loop] in H; [discriminate H|].
  destruct (v3_decode d0) as [m|er|] eqn:Ed; try discriminate H.
  - destruct (v3_unwrap_panics s m) eqn:Ep; [discriminate H|].
    destruct (v3_unwrap s m) as [s1 [p0|]] eqn:Eu; [discriminate H|].
    pose proof (v3_unwrap_none_keeps_state _ _ _ Eu). subst s1.
    destruct (IH _ _ _ H) as (Hs & pre & d & er & -> & Hpre & Hd & He). split; [exact Hs|].
    exists (d0 :: pre), d, er. split; [reflexivity|]. split; [|auto].
    constructor; [|exact Hpre]. exists s, m. auto.
  - inversion H; subst. split; [reflexivity|]. exists [], d0, er. repeat split; auto.
Qed.

Theorem v3_recv_loop_timeout : forall s ds,
  snd (v3_recv_loop s ds) = TimedOut <-> Forall (v3_skips s) ds.
Proof.
  intros s ds. split.
  - induction ds as [|d0 ds IH]; intros H; [constructor|]. cbn [v3_recv_loop] in H.
    destruct (v3_decode d0) as [m|er|] eqn:Ed; try discriminate H.
    destruct (v3_unwrap_panics s m) eqn:Ep; [discriminate H|].
    destruct (v3_unwrap s m) as [s1 [p0|]] eqn:Eu; [discriminate H|].
    pose proof (v3_unwrap_none_keeps_state _ _ _ Eu). subst s1.
    constructor; [exists s, m; auto|apply IH; exact H].
  - intros H. rewrite <- (app_nil_r ds). rewrite v3_recv_loop_skips by exact H. reflexivity.
Qed.

Corollary v3_recv_loop_timeout_state : forall s ds s',
  v3_recv_loop s ds = (s', TimedOut) -> s' = s /\ Forall (v3_skips s) ds.
Proof.
  intros s ds s' H. assert (Hf : Forall (v3_skips s) ds).
  { apply v3_recv_loop_timeout. rewrite H. reflexivity. }
  split; [|exact Hf]. rewrite <- (app_nil_r ds) in H. rewrite v3_recv_loop_skips in H by exact Hf.
  cbn [v3_recv_loop] in H. congruence.
Qed.

(* the receive path never changes the keys *)
Lemma v3_unwrap_privk : forall s m, privk (fst (v3_unwrap s m)) = privk s.
Proof.
  intros s m. rewrite v3_unwrap_eq. destruct (opened s m) as [sc|]; [|reflexivity].
  destruct (v3_checks s m sc); reflexivity.
Qed.

Theorem v3_recv_loop_no_crash : forall ds s,
  (forall d, In d ds -> wfb d) ->
  (forall ct u, priv_decrypt (privk s) ct u <> Panic) ->
  snd (v3_recv_loop s ds) <> Crashed.
Proof.
  induction ds as [|d rest IH]; intros s Hw Hp; cbn [v3_recv_loop]; [discriminate|].
  pose proof (v3_decode_no_panic d (Hw d (or_introl eq_refl))) as Hd.
  destruct (v3_decode d) as [m|e|]; [|cbn [snd]; discriminate|contradiction].
  assert (Hnp : v3_unwrap_panics s m = false).
  { unfold v3_unwrap_panics. destruct (m_data m) as [x|ct]; [reflexivity|].
    pose proof (Hp ct (m_usm m)) as Hq. destruct (priv_decrypt (privk s) ct (m_usm m)); congruence. }
  rewrite Hnp. pose proof (v3_unwrap_privk s m) as Hk.
  destruct (v3_unwrap s m) as [s1 [p0|]]; [cbn [snd]; discriminate|]. cbn [fst] in Hk.
  apply IH; [intros d' Hin; apply Hw; right; exact Hin|rewrite Hk; exact Hp].
Qed.

(* whatever the loop delivers satisfies everything the receive path checks *)
Corollary v3_recv_loop_delivered_checked : forall s ds s' p rest,
  v3_recv_loop s ds = (s', Delivered p rest) ->
  exists pre d m, ds = pre ++ d :: rest /\ Forall (v3_skips s) pre /\ v3_decode d = Ok m /\
    u_user_name (m_usm m) = user_name s /\
    (engine_id s = [] \/ u_engine_id (m_usm m) = engine_id s) /\
    m_msg_id m = msg_id s /\
    (pdu_request_id p = Some (request_id s) \/ exists raw, p = PReport raw) /\
    s' = adopt s m.
Proof.
  intros s ds s' p rest H. destruct (v3_recv_loop_delivered _ _ _ _ _ H) as (pre & d & m & Hds & Hpre & Hd & _ & Hu).
  exists pre, d, m. split; [exact Hds|]. split; [exact Hpre|]. split; [exact Hd|].
  assert (Hs : snd (v3_unwrap s m) = Some p) by (rewrite Hu; reflexivity).
  destruct (C10_modulo_known_eq _ _ _ Hs) as (H1 & H2 & H3 & H4).
  apply v3_unwrap_some in Hu. destruct Hu as [_ ->]. auto 10.
Qed.

(* ================================================================== *)
(* B5. engine discovery: the engine id is adopted once                 *)
(* ================================================================== *)

Lemma engine_id_adopt : forall s m,
  engine_id (adopt s m) = match engine_id s with [] => u_engine_id (m_usm m) | _ :: _ => engine_id s end.
Proof.
  intros s m. unfold adopt. cbn [engine_id]. destruct (engine_id s) as [|x l] eqn:E; [reflexivity|].
  destruct (len (x :: l) =? 0) eqn:El; [|reflexivity].
  apply Z.eqb_eq in El. apply len_zero_nil in El. discriminate El.
Qed.

Theorem engine_id_adopt_once : forall s m s' o,
  v3_unwrap s m = (s', o) ->
  (engine_id s <> [] -> engine_id s' = engine_id s) /\
  (engine_id s = [] -> o = None -> engine_id s' = []) /\
  (engine_id s = [] -> o <> None -> engine_id s' = u_engine_id (m_usm m)).
Proof.
  intros s m s' o H. destruct o as [p|].
  - apply v3_unwrap_some in H. destruct H as [_ ->]. rewrite engine_id_adopt.
    destruct (engine_id s) as [|x l]; repeat split; intros; try reflexivity; try congruence.
  - apply v3_unwrap_none_keeps_state in H. subst s'.
    repeat split; intros; try reflexivity; try congruence.
Qed.

(* the state components of the receive path *)
Lemma v3_unwrap_state : forall s m,
  let s' := fst (v3_unwrap s m) in
  user_name s' = user_name s /\ auth s' = auth s /\ privk s' = privk s /\
  msg_id s' = msg_id s /\ request_id s' = request_id s.
Proof.
  intros s m. cbv zeta. rewrite v3_unwrap_eq. destruct (opened s m) as [sc|]; [|cbn [fst]; tauto].
  destruct (v3_checks s m sc); cbn [fst adopt user_name auth privk msg_id request_id]; tauto.
Qed.

(* ---- any history of sends, receives and request-id updates ---- *)
Inductive v3_event :=
| EvSend (p : pdu) (rnd : Z)
| EvRecv (m : v3msg)
| EvSetRequestId (rid : Z).

Definition v3_step (s : v3sock) (e : v3_event) : v3sock :=
  match e with
  | EvSend p rnd => fst (v3_push_pdu s p rnd)
  | EvRecv m => fst (v3_unwrap s m)
  | EvSetRequestId rid => with_request_id s rid
  end.
Definition v3_run (s : v3sock) (evs : list v3_event) : v3sock := fold_left v3_step evs s.

Lemma v3_run_app : forall s a b, v3_run s (a ++ b) = v3_run (v3_run s a) b.
Proof. intros s a b. unfold v3_run. apply fold_left_app. Qed.

Lemma v3_step_engine_id : forall s e, engine_id s <> [] -> engine_id (v3_step s e) = engine_id s.
Proof.
  intros s e Hne. destruct e as [p rnd|m|rid]; cbn [v3_step].
  - pose proof (v3_push_pdu_state s p rnd) as H. cbv zeta in H. tauto.
  - destruct (v3_unwrap s m) as [s' o] eqn:E. cbn [fst].
    destruct (engine_id_adopt_once _ _ _ _ E) as [H _]. auto.
  - reflexivity.
Qed.

Theorem engine_id_stable : forall evs s, engine_id s <> [] -> engine_id (v3_run s evs) = engine_id s.
Proof.
  induction evs as [|e evs IH]; intros s Hne; [reflexivity|]. unfold v3_run. cbn [fold_left]. fold (v3_run (v3_step s e) evs).
  pose proof (v3_step_engine_id s e Hne) as He. rewrite IH by congruence. exact He.
Qed.

(* in full: wherever the history is cut, a non-empty engine id is the one the socket ends with *)
Corollary engine_id_adopt_once_run : forall pre post s,
  engine_id (v3_run s pre) <> [] -> engine_id (v3_run s (pre ++ post)) = engine_id (v3_run s pre).
Proof. intros pre post s H. rewrite v3_run_app. apply engine_id_stable. exact H. Qed.

(* while no engine id is known, only an accepted message can provide one, and it provides its own *)
Lemma v3_step_engine_id_void : forall s e, engine_id s = [] ->
  engine_id (v3_step s e) = [] \/
  exists m p, e = EvRecv m /\ snd (v3_unwrap s m) = Some p /\ engine_id (v3_step s e) = u_engine_id (m_usm m).
Proof.
  intros s e Hv. destruct e as [p rnd|m|rid]; cbn [v3_step].
  - left. pose proof (v3_push_pdu_state s p rnd) as H. cbv zeta in H. destruct H as [H _]. congruence.
  - destruct (v3_unwrap s m) as [s' [p|]] eqn:E; cbn [fst].
    + right. exists m, p. split; [reflexivity|]. rewrite E. split; [reflexivity|]. cbn [fst].
      destruct (engine_id_adopt_once _ _ _ _ E) as (_ & _ & H). apply H; [exact Hv|discriminate].
    + left. destruct (engine_id_adopt_once _ _ _ _ E) as (_ & H & _). auto.
  - left. exact Hv.
Qed.

(* identity and keys are never changed by sending or receiving (only set_keys changes them) *)
Definition same_identity (s s' : v3sock) : Prop :=
  user_name s' = user_name s /\ auth s' = auth s /\
  pk_alg (privk s') = pk_alg (privk s) /\ pk_key (privk s') = pk_key (privk s) /\
  pk_pre_iv (privk s') = pk_pre_iv (privk s).

Lemma v3_step_identity : forall s e, same_identity s (v3_step s e).
Proof.
  intros s e. unfold same_identity. destruct e as [p rnd|m|rid]; cbn [v3_step].
  - pose proof (v3_push_pdu_state s p rnd) as H. cbv zeta in H. tauto.
  - pose proof (v3_unwrap_state s m) as H. cbv zeta in H. destruct H as (H1 & H2 & H3 & _).
    rewrite H1, H2, H3. tauto.
  - cbn [with_request_id user_name auth privk]. tauto.
Qed.

Theorem identity_stable : forall evs s, same_identity s (v3_run s evs).
Proof.
  induction evs as [|e evs IH]; intros s; [unfold same_identity; cbn; tauto|].
  unfold v3_run. cbn [fold_left]. fold (v3_run (v3_step s e) evs).
  pose proof (v3_step_identity s e) as H1. pose proof (IH (v3_step s e)) as H2.
  unfold same_identity in *. destruct H1 as (A1 & A2 & A3 & A4 & A5). destruct H2 as (B1 & B2 & B3 & B4 & B5).
  repeat split; congruence.
Qed.

(* when the session has no privacy the whole key state is constant *)
Lemma v3_step_privk_nopriv : forall s e, has_priv (pk_alg (privk s)) = false -> privk (v3_step s e) = privk s.
Proof.
  intros s e Hp. destruct e as [p rnd|m|rid]; cbn [v3_step].
  - unfold v3_push_pdu. rewrite Hp. reflexivity.
  - pose proof (v3_unwrap_state s m) as H. cbv zeta in H. tauto.
  - reflexivity.
Qed.

(* ================================================================== *)
(* B6. time synchronisation                                            *)
(* ================================================================== *)

Definition accepted (s : v3sock) (m : v3msg) : bool :=
  match snd (v3_unwrap s m) with Some _ => true | None => false end.

(* (boots, time) of the most recent accepted message, computed along the history *)
Fixpoint last_accepted (s : v3sock) (evs : list v3_event) (cur : Z * Z) : Z * Z :=
  match evs with
  | [] => cur
  | e :: r =>
    last_accepted (v3_step s e) r
      match e with
      | EvRecv m => if accepted s m then (u_engine_boots (m_usm m), u_engine_time (m_usm m)) else cur
      | _ => cur
      end
  end.

Lemma v3_step_time : forall s e,
  (engine_boots (v3_step s e), engine_time (v3_step s e)) =
  match e with
  | EvRecv m => if accepted s m then (u_engine_boots (m_usm m), u_engine_time (m_usm m))
                else (engine_boots s, engine_time s)
  | _ => (engine_boots s, engine_time s)
  end.
Proof.
  intros s e. destruct e as [p rnd|m|rid]; cbn [v3_step].
  - pose proof (v3_push_pdu_state s p rnd) as H. cbv zeta in H. destruct H as (_ & H1 & H2 & _). congruence.
  - unfold accepted. destruct (v3_unwrap s m) as [s' [p|]] eqn:E; cbn [fst snd].
    + apply v3_unwrap_some in E. destruct E as [_ ->]. reflexivity.
    + apply v3_unwrap_none_keeps_state in E. subst s'. reflexivity.
  - reflexivity.
Qed.

Theorem time_follows : forall evs s,
  (engine_boots (v3_run s evs), engine_time (v3_run s evs)) =
  last_accepted s evs (engine_boots s, engine_time s).
Proof.
  induction evs as [|e evs IH]; intros s; [reflexivity|].
  unfold v3_run. cbn [fold_left last_accepted]. fold (v3_run (v3_step s e) evs).
  rewrite IH, v3_step_time. destruct e as [p rnd|m|rid]; reflexivity.
Qed.

(* explicit form: the last accepted message of the history, if any *)
Definition is_accepted_recv (s : v3sock) (e : v3_event) : bool :=
  match e with EvRecv m => accepted s m | _ => false end.

Fixpoint none_accepted (s : v3sock) (evs : list v3_event) : Prop :=
  match evs with
  | [] => True
  | e :: r => is_accepted_recv s e = false /\ none_accepted (v3_step s e) r
  end.

Lemma last_accepted_none : forall evs s cur, none_accepted s evs -> last_accepted s evs cur = cur.
Proof.
  induction evs as [|e evs IH]; intros s cur H; [reflexivity|]. cbn [none_accepted] in H. destruct H as [H1 H2].
  cbn [last_accepted]. rewrite IH by exact H2. destruct e as [p rnd|m|rid]; try reflexivity.
  cbn [is_accepted_recv] in H1. rewrite H1. reflexivity.
Qed.

Lemma last_accepted_app : forall a s b cur,
  last_accepted s (a ++ b) cur = last_accepted (v3_run s a) b (last_accepted s a cur).
Proof.
  induction a as [|e a IH]; intros s b cur; [reflexivity|].
  cbn [app last_accepted]. rewrite IH. reflexivity.
Qed.

Corollary time_of_last_accepted : forall pre m post s,
  accepted (v3_run s pre) m = true ->
  none_accepted (v3_run s (pre ++ [EvRecv m])) post ->
  engine_boots (v3_run s (pre ++ EvRecv m :: post)) = u_engine_boots (m_usm m) /\
  engine_time (v3_run s (pre ++ EvRecv m :: post)) = u_engine_time (m_usm m).
Proof.
  intros pre m post s Ha Hn. pose proof (time_follows (pre ++ EvRecv m :: post) s) as H.
  rewrite last_accepted_app in H. cbn [last_accepted] in H. rewrite Ha in H.
  rewrite v3_run_app in Hn. cbn [v3_run fold_left] in Hn. fold (v3_run s pre) in Hn.
  rewrite last_accepted_none in H by exact Hn. split; congruence.
Qed.

Corollary time_initial_if_none_accepted : forall evs s,
  none_accepted s evs ->
  engine_boots (v3_run s evs) = engine_boots s /\ engine_time (v3_run s evs) = engine_time s.
Proof.
  intros evs s Hn. pose proof (time_follows evs s) as H. rewrite last_accepted_none in H by exact Hn.
  split; congruence.
Qed.

(* ================================================================== *)
(* B8. set_keys: keys are localised to the engine id the socket holds  *)
(* ================================================================== *)

Theorem relocalize : forall s user aalg akey palg pkey seed s',
  v3_set_keys s user aalg akey palg pkey seed = Ok s' ->
  engine_id s' = engine_id s /\ engine_boots s' = engine_boots s /\ engine_time s' = engine_time s /\
  user_name s' = user /\ msg_id s' = msg_id s /\ request_id s' = request_id s /\
  install_keys aalg akey palg pkey (engine_id s) seed = Ok (auth s', privk s').
Proof.
  intros s user aalg akey palg pkey seed s' H. unfold v3_set_keys in H.
  destruct (install_keys aalg akey palg pkey (engine_id s) seed) as [[a p]|e|]; cbn [bind] in H; try discriminate H.
  inversion H; subst s'. repeat split.
Qed.

Lemma v3_set_keys_ok : forall s user aalg akey palg pkey seed a p,
  install_keys aalg akey palg pkey (engine_id s) seed = Ok (a, p) ->
  v3_set_keys s user aalg akey palg pkey seed =
  Ok {| engine_id := engine_id s; engine_boots := engine_boots s; engine_time := engine_time s; user_name := user;
        auth := a; privk := p; msg_id := msg_id s; request_id := request_id s |}.
Proof. intros s user aalg akey palg pkey seed a p H. unfold v3_set_keys. rewrite H. reflexivity. Qed.

(* set_keys as a transition: accepted = [v3_set_keys]; refused = only the user name is replaced, both keys (hence the cipher,
   its salt counter and the digest key), the engine id, the clock and the ids are what they were *)
Theorem set_keys_st_accepted : forall s user aalg akey palg pkey seed s',
  v3_set_keys_st s user aalg akey palg pkey seed = (s', Ok tt) <-> v3_set_keys s user aalg akey palg pkey seed = Ok s'.
Proof.
  intros s user aalg akey palg pkey seed s'. unfold v3_set_keys_st.
  destruct (v3_set_keys s user aalg akey palg pkey seed) as [s0|e|]; (split; intros H; inversion H; subst; reflexivity).
Qed.

Theorem set_keys_st_refused : forall s user aalg akey palg pkey seed s' e,
  v3_set_keys_st s user aalg akey palg pkey seed = (s', Err e) ->
  install_keys aalg akey palg pkey (engine_id s) seed = Err e /\ privk s' = privk s /\ auth s' = auth s /\ user_name s' = user /\ engine_id s' = engine_id s /\ engine_boots s' = engine_boots s /\ engine_time s' = engine_time s /\ msg_id s' = msg_id s /\ request_id s' = request_id s.
Proof.
  intros s user aalg akey palg pkey seed s' e H. unfold v3_set_keys_st, v3_set_keys in H.
  destruct (install_keys aalg akey palg pkey (engine_id s) seed) as [[a p]|e0|]; cbn [bind] in H; inversion H; subst.
  repeat split.
Qed.

Theorem set_keys_st_refused_when : forall s user aalg akey palg pkey seed e,
  install_keys aalg akey palg pkey (engine_id s) seed = Err e ->
  v3_set_keys_st s user aalg akey palg pkey seed = (with_user s user, Err e).
Proof. intros s user aalg akey palg pkey seed e H. unfold v3_set_keys_st, v3_set_keys. rewrite H. reflexivity. Qed.

(* the same for `new` *)
Theorem v3_new_spec : forall eid user aalg akey palg pkey seed s,
  v3_new eid user aalg akey palg pkey seed = Ok s ->
  engine_id s = eid /\ engine_boots s = 0 /\ engine_time s = 0 /\ user_name s = user /\
  msg_id s = 0 /\ request_id s = 0 /\
  install_keys aalg akey palg pkey eid seed = Ok (auth s, privk s).
Proof.
  intros eid user aalg akey palg pkey seed s H. unfold v3_new in H.
  destruct (install_keys aalg akey palg pkey eid seed) as [[a p]|e|]; cbn [bind] in H; try discriminate H.
  inversion H; subst s. repeat split.
Qed.

(* ================================================================== *)
(* B7. what an outgoing message is stamped with                        *)
(* ================================================================== *)

Theorem stamp : forall s p rnd s' dg,
  v3_push_pdu s p rnd = (s', Ok dg) ->
  exists pp d,
    let m := v3_message s p (next_id rnd) pp d in
    v3_finish s m = Ok dg /\
    m_msg_id m = next_id rnd /\
    m_usm m = {| u_engine_id := engine_id s; u_engine_boots := engine_boots s; u_engine_time := engine_time s;
                 u_user_name := user_name s; u_auth_params := placeholder (ak_alg (auth s));
                 u_privacy_params := pp |} /\
    m_flag_auth m = has_auth (ak_alg (auth s)) /\ m_flag_priv m = has_priv (pk_alg (privk s)) /\
    m_flag_report m = is_probe p /\ m_data m = d /\
    (if has_priv (pk_alg (privk s))
     then exists k' ct, priv_encrypt (privk s) {| s_engine_id := engine_id s; s_pdu := p |}
                                     (engine_boots s) (engine_time s) = (k', Ok (ct, pp)) /\
                        d = Encrypted ct /\ s' = with_priv_msgid s k' (next_id rnd)
     else pp = [] /\ d = Plaintext {| s_engine_id := engine_id s; s_pdu := p |} /\
          s' = with_priv_msgid s (privk s) (next_id rnd)).
Proof.
  intros s p rnd s' dg H. unfold v3_push_pdu in H. destruct (has_priv (pk_alg (privk s))) eqn:Ep.
  - destruct (priv_encrypt (privk s) {| s_engine_id := engine_id s; s_pdu := p |} (engine_boots s) (engine_time s))
      as [k' [[ct pp]|e|]] eqn:Ee; try discriminate H. injection H as Hs Hf.
    exists pp, (Encrypted ct). cbv zeta. split; [exact Hf|]. do 3 (split; [reflexivity|]).
    split; [exact Ep|]. do 2 (split; [reflexivity|]).
    exists k', ct. split; [reflexivity|]. split; [reflexivity|congruence].
  - injection H as Hs Hf. exists [], (Plaintext {| s_engine_id := engine_id s; s_pdu := p |}). cbv zeta.
    split; [exact Hf|]. do 3 (split; [reflexivity|]). split; [exact Ep|]. do 2 (split; [reflexivity|]).
    split; [reflexivity|]. split; [reflexivity|congruence].
Qed.

Lemma req_ok_ids : forall r, req_ok r -> req_ids r.
Proof. intros [id os|id os|id nr mr os] H; exact H. Qed.

Lemma testbit_probe : forall b : bool,
  testbit (if b then 4 else 0) 1 = false /\ testbit (if b then 4 else 0) 2 = false /\
  testbit (if b then 4 else 0) 4 = b.
Proof. intros [|]; repeat split. Qed.

(* noAuthNoPriv: the datagram is the reference encoding of the stamped message, and decoding it gives the
   stamped fields back *)
Theorem stamp_noauth : forall s p rnd s' dg,
  has_auth (ak_alg (auth s)) = false -> has_priv (pk_alg (privk s)) = false ->
  in_range (engine_boots s) -> in_range (engine_time s) ->
  (forall r, req_of_pdu p = Some r -> req_ok r) ->
  v3_push_pdu s p rnd = (s', Ok dg) ->
  exists r, req_of_pdu p = Some r /\
    dg = enc_v3_of (v3_message s p (next_id rnd) [] (Plaintext {| s_engine_id := engine_id s; s_pdu := p |}))
                   (enc_scoped (engine_id s) r) /\
    dg = enc_v3 (next_id rnd) V3_MAX_SIZE (if is_probe p then 4 else 0) (v3_plain_usm s) (enc_scoped (engine_id s) r) /\
    v3_decode dg =
      Ok {| m_msg_id := next_id rnd; m_flag_auth := false; m_flag_priv := false; m_flag_report := is_probe p;
            m_usm := {| u_engine_id := engine_id s; u_engine_boots := engine_boots s;
                        u_engine_time := engine_time s; u_user_name := user_name s;
                        u_auth_params := []; u_privacy_params := [] |};
            m_data := Plaintext {| s_engine_id := engine_id s; s_pdu := p |} |} /\
    s' = with_priv_msgid s (privk s) (next_id rnd).
Proof.
  intros s p rnd s' dg Ha Hp Hb Ht Hints H.
  destruct (req_of_pdu p) as [r|] eqn:Er.
  - pose proof (Hints r eq_refl) as Hok. exists r. split; [reflexivity|].
    rewrite (v3_push_pdu_plain s p rnd r Ha Hp Hb Ht Er Hok) in H.
    match type of H with (_, if ?c then _ else _) = _ => destruct c eqn:El end; [|discriminate H].
    injection H as Hs Hd. apply Z.leb_le in El. unfold BUF_MAX_SIZE in El.
    assert (HE : enc_v3_of (v3_message s p (next_id rnd) [] (Plaintext {| s_engine_id := engine_id s; s_pdu := p |}))
                           (enc_scoped (engine_id s) r) =
                 enc_v3 (next_id rnd) V3_MAX_SIZE (if is_probe p then 4 else 0) (v3_plain_usm s)
                        (enc_scoped (engine_id s) r)).
    { unfold enc_v3_of. rewrite v3_message_flags, Ha, Hp. unfold v3_message. cbn [m_msg_id m_usm].
      unfold usm_fields_of, v3_plain_usm. cbn [u_engine_id u_engine_boots u_engine_time u_user_name u_auth_params
        u_privacy_params]. apply no_auth_alg in Ha. rewrite Ha. reflexivity. }
    split; [congruence|]. split; [congruence|]. split; [|congruence].
    rewrite <- Hd.
    rewrite v3_decode_enc_v3_plain;
      [|apply next_id_in_range|unfold i64, V3_MAX_SIZE; lia|exact Hb|exact Ht|apply req_ok_ids; exact Hok|lia].
    destruct (testbit_probe (is_probe p)) as (T1 & T2 & T4). rewrite T1, T2, T4.
    rewrite (pdu_of_req_of_pdu p r Er). reflexivity.
  - exfalso. unfold v3_push_pdu in H. rewrite Hp in H. injection H as _ Hf. unfold v3_finish in Hf.
    rewrite (push_v3_not_implemented empty_buffer
               (v3_message s p (next_id rnd) [] (Plaintext {| s_engine_id := engine_id s; s_pdu := p |}))
               {| s_engine_id := engine_id s; s_pdu := p |} eq_refl Er) in Hf.
    discriminate Hf.
Qed.

(* the range hypotheses are needed: with an engine-boots value outside the i64 range (which the Rust
   field cannot hold) the model's INTEGER encoder and the reference disagree *)
Example stamp_needs_in_range :
  let s := {| engine_id := [1]; engine_boots := 2 ^ 79; engine_time := 0; user_name := [];
              auth := {| ak_alg := ANoAuth; ak_key := [] |};
              privk := {| pk_alg := PNoPriv; pk_key := []; pk_pre_iv := []; pk_salt := 0 |};
              msg_id := 0; request_id := 0 |} in
  let p := PGetRequest {| g_request_id := 1; g_vars := [] |} in
  match snd (v3_push_pdu s p 5) with
  | Ok dg => len dg = 69 /\ len (enc_v3 5 V3_MAX_SIZE 4 (v3_plain_usm s) (enc_scoped [1] (RGet 1 []))) = 68
  | _ => False
  end.
Proof. vm_compute. split; reflexivity. Qed.

(* ================================================================== *)
(* B9. SnmpSession.__init__ and refresh()                              *)
(* ================================================================== *)

(* the socket of a session created without an engine id: no engine id, empty user name, noAuthNoPriv *)
Definition default_sock : v3sock :=
  {| engine_id := []; engine_boots := 0; engine_time := 0; user_name := [];
     auth := {| ak_alg := ANoAuth; ak_key := [] |};
     privk := {| pk_alg := PNoPriv; pk_key := []; pk_pre_iv := []; pk_salt := 0 |};
     msg_id := 0; request_id := 0 |}.

Theorem session_new_discover : forall u seed,
  session_new [] u seed = Ok {| ps_sock := default_sock; ps_to_refresh := true; ps_deferred := Some u |}.
Proof. reflexivity. Qed.

Theorem session_new_given : forall e u seed ps, e <> [] ->
  session_new e u seed = Ok ps ->
  engine_id (ps_sock ps) = e /\ user_name (ps_sock ps) = usr_name u /\
  engine_boots (ps_sock ps) = 0 /\ engine_time (ps_sock ps) = 0 /\
  ps_deferred ps = None /\ ps_to_refresh ps = require_auth u /\
  install_keys (user_auth_alg u) (user_auth_key u) (user_priv_alg u) (user_priv_key u) e seed =
    Ok (auth (ps_sock ps), privk (ps_sock ps)).
Proof.
  intros e u seed ps Hne H. destruct e as [|x e]; [contradiction|]. cbn [session_new] in H.
  destruct (v3_new (x :: e) (usr_name u) (user_auth_alg u) (user_auth_key u) (user_priv_alg u) (user_priv_key u) seed)
    as [s| |] eqn:En; cbn [bind] in H; try discriminate H.
  inversion H; subst ps. cbn [ps_sock ps_deferred ps_to_refresh].
  destruct (v3_new_spec _ _ _ _ _ _ _ _ En) as (H1 & H2 & H3 & H4 & _ & _ & H7). auto 10.
Qed.

(* (b) nothing to refresh *)
Theorem refresh_noop : forall ps io1 io2 seed, ps_to_refresh ps = false ->
  py_refresh ps io1 io2 seed = {| rr_session := ps; rr_sent := []; rr_raised := None; rr_crashed := false |}.
Proof. intros ps io1 io2 seed H. unfold py_refresh. rewrite H. reflexivity. Qed.

(* ---- one probe ---- *)
(* the probe sent [d], and after only skippable datagrams the message [m] arrived and was accepted,
   which left the socket in state [s2] *)
Definition probe_accepts (s : v3sock) (io : probe_io) (d : bytes) (m : v3msg) (s2 : v3sock) : Prop :=
  exists s1 pre dgm rest p,
    v3_send s CRefresh (io_rnd_req io) (io_rnd_msg io) = (s1, Ok d) /\
    io_arrivals io = pre ++ dgm :: rest /\ Forall (v3_skips s1) pre /\ v3_decode dgm = Ok m /\
    v3_unwrap_panics s1 m = false /\ v3_unwrap s1 m = (s2, Some p).

Theorem sock_refresh_ok_iff : forall s io s2 d,
  sock_refresh s io = StepOk s2 d <-> exists m, probe_accepts s io d m s2.
Proof.
  intros s io s2 d. unfold sock_refresh, probe_accepts. split.
  - intros H. destruct (v3_send s CRefresh (io_rnd_req io) (io_rnd_msg io)) as [s1 [d0|e|]] eqn:Es; try discriminate H.
    destruct (v3_recv_loop s1 (io_arrivals io)) as [s2' [p rest|e rest| |]] eqn:Er; try discriminate H.
    inversion H; subst s2' d0.
    destruct (v3_recv_loop_delivered _ _ _ _ _ Er) as (pre & dgm & m & Hio & Hpre & Hd & Hp & Hu).
    exists m, s1, pre, dgm, rest, p. auto 10.
  - intros (m & s1 & pre & dgm & rest & p & Hs & Hio & Hpre & Hd & Hp & Hu). rewrite Hs, Hio.
    rewrite (v3_recv_loop_later_reply s1 pre dgm m s2 p rest Hpre Hd Hp Hu). reflexivity.
Qed.

(* everything that is known about the socket after a successful probe *)
Theorem probe_accepts_state : forall s io d m s2, probe_accepts s io d m s2 ->
  engine_id s2 = match engine_id s with [] => u_engine_id (m_usm m) | _ :: _ => engine_id s end /\
  engine_boots s2 = u_engine_boots (m_usm m) /\ engine_time s2 = u_engine_time (m_usm m) /\
  user_name s2 = user_name s /\ auth s2 = auth s /\
  pk_alg (privk s2) = pk_alg (privk s) /\ pk_key (privk s2) = pk_key (privk s) /\
  pk_pre_iv (privk s2) = pk_pre_iv (privk s) /\
  request_id s2 = next_id (io_rnd_req io) /\ msg_id s2 = next_id (io_rnd_msg io) /\
  (* what the accepted message had to match *)
  u_user_name (m_usm m) = user_name s /\
  (engine_id s = [] \/ u_engine_id (m_usm m) = engine_id s) /\
  m_msg_id m = next_id (io_rnd_msg io).
Proof.
  intros s io d m s2 (s1 & pre & dgm & rest & p & Hs & Hio & Hpre & Hd & Hp & Hu).
  destruct (v3_send_state _ _ _ _ _ _ Hs) as (S1 & S2 & S3 & S4 & S5 & S6 & S7 & S8 & S9 & S10 & _).
  specialize (S10 d eq_refl).
  assert (Hsnd : snd (v3_unwrap s1 m) = Some p) by (rewrite Hu; reflexivity).
  destruct (C10_modulo_known_eq _ _ _ Hsnd) as (C1 & C2 & C3 & _).
  apply v3_unwrap_some in Hu. destruct Hu as [_ ->].
  rewrite engine_id_adopt. cbn [adopt engine_boots engine_time user_name auth privk request_id msg_id].
  rewrite S2 in *. repeat split; try congruence.
Qed.

(* noAuthNoPriv socket: the probe on the wire is the reference discovery message *)
Corollary probe_plain_datagram : forall s io d m s2, probe_accepts s io d m s2 ->
  has_auth (ak_alg (auth s)) = false -> has_priv (pk_alg (privk s)) = false ->
  in_range (engine_boots s) -> in_range (engine_time s) ->
  d = enc_v3 (next_id (io_rnd_msg io)) V3_MAX_SIZE 4
             {| uf_engine_id := engine_id s; uf_boots := engine_boots s; uf_time := engine_time s;
                uf_user := user_name s; uf_auth := []; uf_priv := [] |}
             (enc_scoped (engine_id s) (RGet (next_id (io_rnd_req io)) [])).
Proof.
  intros s io d m s2 (s1 & pre & dgm & rest & p & Hs & _) Ha Hp Hb Ht.
  assert (Hmr : call_bulk_ok CRefresh) by (intros it Hit; discriminate Hit).
  destruct (v3_send_spec _ _ _ _ _ _ Ha Hp Hb Ht Hmr Hs) as (pd & rq & _ & _ & Hcr & Hd & _).
  cbn [call_req] in Hcr. subst rq. exact Hd.
Qed.

(* (c) discovery: a refresh with a deferred user that ends without crash and without exception *)
Theorem refresh_discovery : forall ps io1 io2 seed u r,
  ps_to_refresh ps = true -> ps_deferred ps = Some u -> engine_id (ps_sock ps) = [] ->
  py_refresh ps io1 io2 seed = r -> rr_crashed r = false -> rr_raised r = None ->
  exists d1 d2 m1 m2 sA sB sC a k,
    rr_sent r = [d1; d2] /\
    (* first probe, as the default user: any engine id is accepted and adopted *)
    probe_accepts (ps_sock ps) io1 d1 m1 sA /\
    engine_id sA = u_engine_id (m_usm m1) /\
    (* the deferred user's keys are localised to that engine id *)
    install_keys (user_auth_alg u) (user_auth_key u) (user_priv_alg u) (user_priv_key u)
                 (u_engine_id (m_usm m1)) seed = Ok (a, k) /\
    sB = {| engine_id := u_engine_id (m_usm m1); engine_boots := u_engine_boots (m_usm m1);
            engine_time := u_engine_time (m_usm m1); user_name := usr_name u; auth := a; privk := k;
            msg_id := next_id (io_rnd_msg io1); request_id := next_id (io_rnd_req io1) |} /\
    (* second probe, as that user *)
    probe_accepts sB io2 d2 m2 sC /\
    rr_session r = {| ps_sock := sC; ps_to_refresh := require_auth u; ps_deferred := None |} /\
    engine_id sC = match u_engine_id (m_usm m1) with [] => u_engine_id (m_usm m2) | _ :: _ => u_engine_id (m_usm m1) end /\
    user_name sC = usr_name u /\ auth sC = a /\
    pk_alg (privk sC) = pk_alg k /\ pk_key (privk sC) = pk_key k /\ pk_pre_iv (privk sC) = pk_pre_iv k /\
    engine_boots sC = u_engine_boots (m_usm m2) /\ engine_time sC = u_engine_time (m_usm m2).
Proof.
  intros ps io1 io2 seed u r Hto Hdef Heid Hr Hcr Hra. subst r. unfold py_refresh in *.
  rewrite Hto, Hdef in *. cbn [negb] in *.
  destruct (sock_refresh (ps_sock ps) io1) as [sA d1|sA od e|] eqn:E1;
    [|cbn [rr_raised] in Hra; discriminate Hra|cbn [rr_crashed] in Hcr; discriminate Hcr].
  destruct (v3_set_keys sA (usr_name u) (user_auth_alg u) (user_auth_key u) (user_priv_alg u) (user_priv_key u) seed)
    as [sB|e|] eqn:E2; [|cbn [rr_raised] in Hra; discriminate Hra|cbn [rr_crashed] in Hcr; discriminate Hcr].
  cbn [ps_sock ps_to_refresh ps_deferred] in *.
  destruct (sock_refresh sB io2) as [sC d2|sC od e|] eqn:E3;
    [|cbn [rr_raised] in Hra; discriminate Hra|cbn [rr_crashed] in Hcr; discriminate Hcr].
  apply sock_refresh_ok_iff in E1. destruct E1 as [m1 P1].
  apply sock_refresh_ok_iff in E3. destruct E3 as [m2 P2].
  destruct (probe_accepts_state _ _ _ _ _ P1) as (A1 & A2 & A3 & A4 & A5 & A6 & A7 & A8 & A9 & A10 & _).
  rewrite Heid in A1.
  destruct (relocalize _ _ _ _ _ _ _ _ E2) as (R1 & R2 & R3 & R4 & R5 & R6 & R7).
  destruct (probe_accepts_state _ _ _ _ _ P2) as (B1 & B2 & B3 & B4 & B5 & B6 & B7 & B8 & _).
  exists d1, d2, m1, m2, sA, sB, sC, (auth sB), (privk sB).
  split; [reflexivity|]. split; [exact P1|]. split; [exact A1|].
  split; [rewrite <- A1; exact R7|].
  split; [destruct sB; cbn in *; congruence|].
  split; [exact P2|]. split; [reflexivity|].
  split; [rewrite B1, R1, A1; reflexivity|].
  repeat split; congruence.
Qed.

(* the converse: two accepted probes and a successful key installation make a successful refresh *)
Theorem refresh_discovery_run : forall ps io1 io2 seed u d1 d2 m1 m2 sA sB sC,
  ps_to_refresh ps = true -> ps_deferred ps = Some u ->
  probe_accepts (ps_sock ps) io1 d1 m1 sA ->
  v3_set_keys sA (usr_name u) (user_auth_alg u) (user_auth_key u) (user_priv_alg u) (user_priv_key u) seed = Ok sB ->
  probe_accepts sB io2 d2 m2 sC ->
  py_refresh ps io1 io2 seed =
  {| rr_session := {| ps_sock := sC; ps_to_refresh := require_auth u; ps_deferred := None |};
     rr_sent := [d1; d2]; rr_raised := None; rr_crashed := false |}.
Proof.
  intros ps io1 io2 seed u d1 d2 m1 m2 sA sB sC Hto Hdef P1 Hk P2. unfold py_refresh. rewrite Hto, Hdef. cbn [negb].
  assert (E1 : sock_refresh (ps_sock ps) io1 = StepOk sA d1) by (apply sock_refresh_ok_iff; exists m1; exact P1).
  assert (E3 : sock_refresh sB io2 = StepOk sC d2) by (apply sock_refresh_ok_iff; exists m2; exact P2).
  rewrite E1, Hk. cbn [ps_sock ps_to_refresh ps_deferred]. rewrite E3. reflexivity.
Qed.

(* a session with a given engine id and an authenticated user: one probe, for the time *)
Theorem refresh_timesync : forall ps io1 io2 seed r,
  ps_to_refresh ps = true -> ps_deferred ps = None ->
  py_refresh ps io1 io2 seed = r -> rr_crashed r = false -> rr_raised r = None ->
  exists d m sC,
    rr_sent r = [d] /\ probe_accepts (ps_sock ps) io2 d m sC /\
    rr_session r = {| ps_sock := sC; ps_to_refresh := true; ps_deferred := None |} /\
    engine_boots sC = u_engine_boots (m_usm m) /\ engine_time sC = u_engine_time (m_usm m) /\
    (engine_id (ps_sock ps) <> [] -> engine_id sC = engine_id (ps_sock ps)).
Proof.
  intros ps io1 io2 seed r Hto Hdef Hr Hcr Hra. subst r. unfold py_refresh in *. rewrite Hto, Hdef in *. cbn [negb] in *.
  destruct (sock_refresh (ps_sock ps) io2) as [sC d|sC od e|] eqn:E;
    [|cbn [rr_raised] in Hra; discriminate Hra|cbn [rr_crashed] in Hcr; discriminate Hcr].
  apply sock_refresh_ok_iff in E. destruct E as [m P].
  destruct (probe_accepts_state _ _ _ _ _ P) as (B1 & B2 & B3 & _).
  exists d, m, sC. repeat split; try assumption.
  intros Hne. rewrite B1. destruct (engine_id (ps_sock ps)); [contradiction|reflexivity].
Qed.

(* a failed first probe leaves the session ready to try the discovery again *)
Theorem refresh_discovery_failed_probe : forall ps io1 io2 seed u s od e,
  ps_to_refresh ps = true -> ps_deferred ps = Some u ->
  sock_refresh (ps_sock ps) io1 = StepRaise s od e ->
  py_refresh ps io1 io2 seed =
  {| rr_session := {| ps_sock := s; ps_to_refresh := true; ps_deferred := Some u |};
     rr_sent := match od with Some x => [x] | None => [] end; rr_raised := Some e; rr_crashed := false |} /\
  engine_id s = engine_id (ps_sock ps) /\ user_name s = user_name (ps_sock ps) /\ auth s = auth (ps_sock ps).
Proof.
  intros ps io1 io2 seed u s od e Hto Hdef E. split.
  - unfold py_refresh. rewrite Hto, Hdef, E. reflexivity.
  - unfold sock_refresh in E.
    destruct (v3_send (ps_sock ps) CRefresh (io_rnd_req io1) (io_rnd_msg io1)) as [s1 [d0|e0|]] eqn:Es; try discriminate E.
    + destruct (v3_send_state _ _ _ _ _ _ Es) as (_ & S2 & _ & _ & S5 & S6 & _).
      destruct (v3_recv_loop s1 (io_arrivals io1)) as [s2 [p rest|e1 rest| |]] eqn:Er; try discriminate E.
      * inversion E; subst. destruct (v3_recv_loop_failed _ _ _ _ _ Er) as [-> _]. auto.
      * inversion E; subst. destruct (v3_recv_loop_timeout_state _ _ _ Er) as [-> _]. auto.
    + inversion E; subst. destruct (v3_send_state _ _ _ _ _ _ Es) as (_ & S2 & _ & _ & S5 & S6 & _). auto.
Qed.

(* a deferred user whose keys the socket refuses: the probe was answered, the exception is the mapped refusal, and the session
   is left as after the probe but for the user name - still to be refreshed, the user still deferred, no key changed *)
Theorem refresh_discovery_refused_keys : forall ps io1 io2 seed u s d e,
  ps_to_refresh ps = true -> ps_deferred ps = Some u ->
  sock_refresh (ps_sock ps) io1 = StepOk s d ->
  v3_set_keys_st s (usr_name u) (user_auth_alg u) (user_auth_key u) (user_priv_alg u) (user_priv_key u) seed = (with_user s (usr_name u), Err e) ->
  py_refresh ps io1 io2 seed =
  {| rr_session := {| ps_sock := with_user s (usr_name u); ps_to_refresh := true; ps_deferred := Some u |};
     rr_sent := [d]; rr_raised := Some (err_to_exc e); rr_crashed := false |} /\ auth (with_user s (usr_name u)) = auth s /\ privk (with_user s (usr_name u)) = privk s /\ engine_id (with_user s (usr_name u)) = engine_id s.
Proof.
  intros ps io1 io2 seed u s d e Hto Hdef E K. split; [|repeat split].
  unfold py_refresh. rewrite Hto, Hdef, E. cbn [negb]. unfold v3_set_keys_st in K.
  destruct (v3_set_keys s (usr_name u) (user_auth_alg u) (user_auth_key u) (user_priv_alg u) (user_priv_key u) seed) as [s0|e0|];
    inversion K; subst. reflexivity.
Qed.

(* the four parts together *)
Theorem refresh_protocol :
  (forall u seed, session_new [] u seed =
                  Ok {| ps_sock := default_sock; ps_to_refresh := true; ps_deferred := Some u |}) /\
  (forall e u seed ps, e <> [] -> session_new e u seed = Ok ps ->
     engine_id (ps_sock ps) = e /\ ps_deferred ps = None /\ ps_to_refresh ps = require_auth u /\
     install_keys (user_auth_alg u) (user_auth_key u) (user_priv_alg u) (user_priv_key u) e seed =
       Ok (auth (ps_sock ps), privk (ps_sock ps))) /\
  (forall ps io1 io2 seed, ps_to_refresh ps = false ->
     py_refresh ps io1 io2 seed = {| rr_session := ps; rr_sent := []; rr_raised := None; rr_crashed := false |}) /\
  (forall ps io1 io2 seed u r,
     ps_to_refresh ps = true -> ps_deferred ps = Some u -> engine_id (ps_sock ps) = [] ->
     py_refresh ps io1 io2 seed = r -> rr_crashed r = false -> rr_raised r = None ->
     exists d1 d2 m1 m2 sA sB sC a k,
       rr_sent r = [d1; d2] /\ probe_accepts (ps_sock ps) io1 d1 m1 sA /\
       install_keys (user_auth_alg u) (user_auth_key u) (user_priv_alg u) (user_priv_key u)
                    (u_engine_id (m_usm m1)) seed = Ok (a, k) /\
       probe_accepts sB io2 d2 m2 sC /\ engine_id sB = u_engine_id (m_usm m1) /\
       rr_session r = {| ps_sock := sC; ps_to_refresh := require_auth u; ps_deferred := None |} /\
       (u_engine_id (m_usm m1) <> [] -> engine_id sC = u_engine_id (m_usm m1)) /\
       user_name sC = usr_name u /\ auth sC = a /\
       pk_alg (privk sC) = pk_alg k /\ pk_key (privk sC) = pk_key k /\ pk_pre_iv (privk sC) = pk_pre_iv k /\
       engine_boots sC = u_engine_boots (m_usm m2) /\ engine_time sC = u_engine_time (m_usm m2)).
Proof.
  split; [exact session_new_discover|]. split.
  { intros e u seed ps Hne H. destruct (session_new_given e u seed ps Hne H) as (H1 & _ & _ & _ & H5 & H6 & H7). auto. }
  split; [exact refresh_noop|].
  intros ps io1 io2 seed u r Hto Hdef Heid Hr Hcr Hra.
  destruct (refresh_discovery ps io1 io2 seed u r Hto Hdef Heid Hr Hcr Hra)
    as (d1 & d2 & m1 & m2 & sA & sB & sC & a & k & H1 & H2 & H3 & H4 & H5 & H6 & H7 & H8 & H9).
  exists d1, d2, m1, m2, sA, sB, sC, a, k.
  split; [exact H1|]. split; [exact H2|]. split; [exact H4|]. split; [exact H6|].
  split; [subst sB; reflexivity|]. split; [exact H7|]. split; [|exact H9].
  intros Hne. rewrite H8. destruct (u_engine_id (m_usm m1)); [contradiction|reflexivity].
Qed.

(* ================================================================== *)
(* The range hypotheses on engine boots / time hold in every reachable *)
(* state: the values come from decoded INTEGERs                        *)
(* ================================================================== *)

Definition times_ok (s : v3sock) : Prop := in_range (engine_boots s) /\ in_range (engine_time s).

Lemma int_from_ber_in_range : forall x rest v, wfb x -> int_from_ber x = Ok (rest, v) -> in_range v.
Proof.
  intros x rest v Hw H. pose proof (int_from_ber_range _ _ _ Hw H) as Hr. unfold in_range.
  change (2 ^ 63) with 9223372036854775808. lia.
Qed.

Lemma usm_decode_times : forall i u, wfb i -> usm_decode i = Ok u ->
  in_range (u_engine_boots u) /\ in_range (u_engine_time u).
Proof.
  intros i u Hw H. unfold usm_decode in H.
  inv_bind_pair H t0 env E0. destruct (sequence_from_ber_wfb _ _ _ Hw E0) as [Hwenv _].
  destruct t0 as [|b0 t0]; [|discriminate H].
  inv_bind_pair H t1 eid E1. destruct (octetstring_from_ber_wfb _ _ _ Hwenv E1) as [_ Hw1].
  inv_bind_pair H t2 eb E2. pose proof (int_from_ber_tail _ _ _ Hw1 E2) as Hw2.
  inv_bind_pair H t3 et E3.
  inv_bind_pair H t4 un E4. inv_bind_pair H t5 ap E5. inv_bind_pair H t6 pp E6.
  apply Ok_inj in H. subst u. cbn [u_engine_boots u_engine_time].
  split; [exact (int_from_ber_in_range _ _ _ Hw1 E2)|exact (int_from_ber_in_range _ _ _ Hw2 E3)].
Qed.

Theorem v3_decode_times : forall i m, wfb i -> v3_decode i = Ok m ->
  in_range (u_engine_boots (m_usm m)) /\ in_range (u_engine_time (m_usm m)) /\ in_range (m_msg_id m).
Proof.
  intros i m Hw H. unfold v3_decode in H.
  inv_bind_pair H t0 env E0. destruct (sequence_from_ber_wfb _ _ _ Hw E0) as [Hwenv _].
  destruct t0 as [|b0 t0]; [|discriminate H].
  inv_bind_pair H t1 vc E1. pose proof (int_from_ber_tail _ _ _ Hwenv E1) as Hw1. inv_if H Ev.
  inv_bind_pair H sp_tail genv E2. destruct (sequence_from_ber_wfb _ _ _ Hw1 E2) as [Hwgenv Hwsp].
  inv_bind_pair H t3 mid E3. inv_bind_pair H t4 mms E4. inv_bind_pair H t5 fd E5. inv_if H Efd.
  inv_bind H flags Ef. inv_bind_pair H t6 sm E6. inv_if H Esm.
  inv_bind_pair H t7 sp E7. destruct (octetstring_from_ber_wfb _ _ _ Hwsp E7) as [Hwspar Hw7].
  inv_bind H u Eu. inv_bind H d Ed. apply Ok_inj in H. subst m. cbn [m_usm m_msg_id].
  destruct (usm_decode_times _ _ Hwspar Eu) as [Hb Ht].
  split; [exact Hb|]. split; [exact Ht|]. exact (int_from_ber_in_range _ _ _ Hwgenv E3).
Qed.

Lemma v3_new_times_ok : forall eid user aalg akey palg pkey seed s,
  v3_new eid user aalg akey palg pkey seed = Ok s -> times_ok s.
Proof.
  intros eid user aalg akey palg pkey seed s H. destruct (v3_new_spec _ _ _ _ _ _ _ _ H) as (_ & H2 & H3 & _).
  unfold times_ok. rewrite H2, H3. split; apply in_range_small; lia.
Qed.

Lemma v3_set_keys_times_ok : forall s user aalg akey palg pkey seed s',
  v3_set_keys s user aalg akey palg pkey seed = Ok s' -> times_ok s -> times_ok s'.
Proof.
  intros s user aalg akey palg pkey seed s' H [Hb Ht]. destruct (relocalize _ _ _ _ _ _ _ _ H) as (_ & H2 & H3 & _).
  unfold times_ok. rewrite H2, H3. split; assumption.
Qed.

Lemma v3_send_times_ok : forall s c r1 r2, times_ok s -> times_ok (fst (v3_send s c r1 r2)).
Proof.
  intros s c r1 r2 [Hb Ht]. destruct (v3_send s c r1 r2) as [s' res] eqn:E. cbn [fst].
  destruct (v3_send_state _ _ _ _ _ _ E) as (_ & _ & H2 & H3 & _). unfold times_ok. rewrite H2, H3. split; assumption.
Qed.

Lemma v3_unwrap_times_ok : forall s d m, wfb d -> v3_decode d = Ok m -> times_ok s -> times_ok (fst (v3_unwrap s m)).
Proof.
  intros s d m Hw Hd Hs. destruct (v3_unwrap s m) as [s' [p|]] eqn:E; cbn [fst].
  - apply v3_unwrap_some in E. destruct E as [_ ->]. destruct (v3_decode_times _ _ Hw Hd) as (Hb & Ht & _).
    split; assumption.
  - apply v3_unwrap_none_keeps_state in E. subst s'. exact Hs.
Qed.

Theorem v3_recv_loop_times_ok : forall ds s, (forall d, In d ds -> wfb d) -> times_ok s ->
  times_ok (fst (v3_recv_loop s ds)).
Proof.
  induction ds as [|d rest IH]; intros s Hw Hs; cbn [v3_recv_loop]; [exact Hs|].
  destruct (v3_decode d) as [m|e|] eqn:Ed; [|exact Hs|exact Hs].
  destruct (v3_unwrap_panics s m); [exact Hs|].
  pose proof (v3_unwrap_times_ok s d m (Hw d (or_introl eq_refl)) Ed Hs) as Hu.
  destruct (v3_unwrap s m) as [s' [p|]] eqn:Eu; cbn [fst] in *; [exact Hu|].
  apply IH; [intros d' Hin; apply Hw; right; exact Hin|exact Hu].
Qed.

(* so every socket state a session goes through, started by `new` and driven by sends, set_keys and the
   receive loop on real octets, satisfies the range hypotheses of stamp_noauth / v3_send_spec *)
Theorem sock_refresh_times_ok : forall s io, (forall d, In d (io_arrivals io) -> wfb d) -> times_ok s ->
  match sock_refresh s io with
  | StepOk s' _ | StepRaise s' _ _ => times_ok s'
  | StepCrash => True
  end.
Proof.
  intros s io Hw Hs. unfold sock_refresh.
  pose proof (v3_send_times_ok s CRefresh (io_rnd_req io) (io_rnd_msg io) Hs) as H1.
  destruct (v3_send s CRefresh (io_rnd_req io) (io_rnd_msg io)) as [s1 [d|e|]]; cbn [fst] in H1; [|exact H1|exact I].
  pose proof (v3_recv_loop_times_ok (io_arrivals io) s1 Hw H1) as H2.
  destruct (v3_recv_loop s1 (io_arrivals io)) as [s2 [p rest|e rest| |]]; cbn [fst] in H2; try exact H2. exact I.
Qed.

(* ================================================================== *)
(* every exception out of the v3 receive loop is SnmpDecodeError       *)
(* ================================================================== *)

Ltac derr_pair H a b := let p := fresh "p" in derr_bind H p; eauto with derr; destruct p as [a b].

Lemma usm_decode_derr : forall i e, usm_decode i = Err e -> derr e.
Proof.
  intros i e H. unfold usm_decode in H.
  derr_pair H xtl xenv. destruct xtl; [|derr_auto H].
  derr_pair H t1 x1. derr_pair H t2 x2. derr_pair H t3 x3. derr_pair H t4 x4. derr_pair H t5 x5. derr_pair H t6 x6.
  derr_auto H.
Qed.

Lemma scoped_decode_derr : forall i e, scoped_decode i = Err e -> derr e.
Proof.
  intros i e H. unfold scoped_decode in H.
  derr_pair H t1 x1. derr_pair H t2 x2. derr_pair H t3 x3. derr_auto H.
Qed.

Lemma msgdata_decode_derr : forall i e, msgdata_decode i = Err e -> derr e.
Proof.
  intros i e H. unfold msgdata_decode in H. destruct i as [|t r]; [derr_auto H|].
  destruct (t =? TAG_OCTET_STRING).
  - derr_pair H t1 x1. derr_auto H.
  - derr_bind H sc; [derr_auto H|]. eapply scoped_decode_derr; eassumption.
Qed.

Theorem v3_decode_derr : forall i e, v3_decode i = Err e -> err_to_exc e = EDecode.
Proof.
  intros i e H. change (derr e). unfold v3_decode in H.
  derr_pair H xtl xenv. destruct xtl; [|derr_auto H].
  derr_pair H t1 vc.
  match type of H with (if ?c then _ else _) = _ => destruct c end; [derr_auto H|].
  derr_pair H sp genv. derr_pair H t3 mid. derr_pair H t4 mms. derr_pair H t5 fd.
  match type of H with (if ?c then _ else _) = _ => destruct c end; [derr_auto H|].
  derr_bind H fl; eauto with derr.
  derr_pair H t6 sm.
  match type of H with (if ?c then _ else _) = _ => destruct c end; [derr_auto H|].
  derr_pair H t7 spar.
  derr_bind H u; [|eapply usm_decode_derr; eassumption].
  derr_bind H d; [derr_auto H|eapply msgdata_decode_derr; eassumption].
Qed.

Corollary v3_recv_loop_failed_decode : forall s ds s' e rest,
  v3_recv_loop s ds = (s', Failed e rest) -> e = EDecode.
Proof.
  intros s ds s' e rest H. destruct (v3_recv_loop_failed _ _ _ _ _ H) as (_ & pre & d & er & _ & _ & Hd & ->).
  eapply v3_decode_derr. exact Hd.
Qed.

(* a delivered response always answers the request of the socket, under the session's user, engine and
   message id *)
Corollary v3_never_wrong_request_loop : forall s ds s' r rest,
  v3_recv_loop s ds = (s', Delivered (PGetResponse r) rest) -> gr_request_id r = request_id s.
Proof.
  intros s ds s' r rest H.
  destruct (v3_recv_loop_delivered_checked _ _ _ _ _ H) as (pre & d & m & _ & _ & _ & _ & _ & _ & [Hr|[raw Hr]] & _);
    [|discriminate Hr].
  cbn [pdu_request_id] in Hr. congruence.
Qed.

(* ------------------------------------------------------------------ *)
(* Print Assumptions (observed with coqc 8.16.1): each prints "Closed under the global context"
     v3_unwrap_accept_char v3_unwrap_some v3_unwrap_ignores_auth C10_refuted C10_modulo_known
     C10_modulo_known_eq v3_unwrap_none_keeps_state v3_recv_loop_skips v3_recv_loop_delivered
     v3_recv_loop_later_reply v3_recv_loop_failed v3_recv_loop_failed_decode v3_recv_loop_timeout
     v3_recv_loop_no_crash v3_recv_loop_delivered_checked v3_never_wrong_request_loop
     engine_id_adopt_once engine_id_stable identity_stable time_follows time_of_last_accepted
     stamp stamp_noauth relocalize session_new_discover session_new_given refresh_noop
     sock_refresh_ok_iff probe_accepts_state refresh_discovery refresh_discovery_run refresh_timesync
     refresh_discovery_failed_probe refresh_protocol v3_decode_times v3_recv_loop_times_ok
     sock_refresh_times_ok v3_decode_derr *)

(* (A) Header round trip: parse_header on tag :: length octets ++ content ++ rest, for every legal
   definite length form, and the from_ber / option_from_ber wrappers on top of it. *)
From GS Require Import Model.Base Gen.Constants Model.Ber Spec.X690 Proofs.RtLemmas.
From Coq Require Import ZArith List Bool Lia.
Import ListNotations.
Open Scope Z_scope.
Open Scope bool_scope.

(* header of an element whose single identifier octet is [tag] and whose content has [n] octets *)
Definition hdr_of (tag n : Z) : hdr :=
  {| h_class := Z.shiftr tag 6; h_constructed := Z.testbit tag 5; h_tag := Z.land tag 31; h_length := n |}.

(* every legal definite form of the length octets (X.690 8.1.3.3 - 8.1.3.5): short form, or long form
   with 1..126 subsequent octets (not necessarily minimal; leading zero octets allowed) whose
   unsigned value fits the decoder's 64-bit usize *)
Inductive len_octets : Z -> bytes -> Prop :=
| LO_short n : 0 <= n < 128 -> len_octets n [n]
| LO_long be : wfb be -> 1 <= len be <= 126 -> uval be < 2 ^ 64 ->
               len_octets (uval be) ((128 + len be) :: be).

(* the form requested in the task: up to 8 subsequent octets never overflow *)
Lemma len_octets_long8 be : wfb be -> (1 <= length be <= 8)%nat -> len_octets (uval be) ((128 + len be) :: be).
Proof.
  intros Hw Hl. apply LO_long; [exact Hw|unfold len; lia|].
  pose proof (uval_bound be Hw) as Hu.
  assert (256 ^ Z.of_nat (length be) <= 256 ^ 8) by (apply Z.pow_le_mono_r; lia).
  change (256 ^ 8) with (2 ^ 64) in *. lia.
Qed.

Lemma len_octets_nonempty n lo : len_octets n lo -> lo <> [].
Proof. destruct 1; discriminate. Qed.

Lemma len_octets_nonneg n lo : len_octets n lo -> 0 <= n.
Proof. destruct 1 as [n Hn|be Hw Hk Hu]; [lia|]. pose proof (uval_bound be Hw). lia. Qed.

Lemma enc_len_len_octets n : 0 <= n < 65536 -> len_octets n (enc_len n).
Proof.
  intros Hn. unfold enc_len.
  destruct (Z.ltb_spec n 128); [apply LO_short; lia|].
  destruct (Z.ltb_spec n 256).
  - replace n with (uval [n]) at 1
      by (cbn [uval length]; change (Z.of_nat 0) with 0; rewrite Z.pow_0_r; lia).
    apply (len_octets_long8 [n]); [|cbn; lia]. apply wfb_cons. split; [lia|apply wfb_nil].
  - pose proof (Z.div_mod n 256 ltac:(lia)) as Hdm. pose proof (Z.mod_pos_bound n 256 ltac:(lia)) as Hm.
    assert (Hq : 0 <= n / 256 < 256) by (split; [apply Z.div_pos; lia|apply Z.div_lt_upper_bound; lia]).
    replace n with (uval [n / 256; n mod 256]) at 1.
    + apply (len_octets_long8 [n / 256; n mod 256]); [|cbn; lia].
      apply wfb_cons. split; [lia|]. apply wfb_cons. split; [lia|apply wfb_nil].
    + cbn [uval length]. change (Z.of_nat 1) with 1. change (Z.of_nat 0) with 0.
      rewrite Z.pow_1_r, Z.pow_0_r. lia.
Qed.

(* ---- bit facts, checked over all 256 octets ---- *)
Lemma len_octet_bits n : 0 <= n < 256 ->
  (if n <? 128 then Z.land n 128 =? 0
   else negb (Z.land n 128 =? 0) && (Z.land n 127 =? n - 128)) = true.
Proof. apply (byte_cases (fun n => if n <? 128 then Z.land n 128 =? 0
   else negb (Z.land n 128 =? 0) && (Z.land n 127 =? n - 128))). vm_compute. reflexivity. Qed.

Lemma id_octet_bits t : 0 <= t < 256 ->
  ((Z.land (Z.shiftr t 6) 3 =? Z.shiftr t 6) && Bool.eqb (Z.land (Z.shiftr t 5) 1 =? 1) (Z.testbit t 5)) = true.
Proof. apply (byte_cases (fun t => (Z.land (Z.shiftr t 6) 3 =? Z.shiftr t 6)
   && Bool.eqb (Z.land (Z.shiftr t 5) 1 =? 1) (Z.testbit t 5))). vm_compute. reflexivity. Qed.

Lemma id_octet_hdr tag n : 0 <= tag < 256 ->
  {| h_class := Z.land (Z.shiftr tag 6) 3; h_constructed := Z.land (Z.shiftr tag 5) 1 =? 1;
     h_tag := Z.land tag 31; h_length := n |} = hdr_of tag n.
Proof.
  intros Ht. pose proof (id_octet_bits tag Ht) as H. apply andb_true_iff in H. destruct H as [H1 H2].
  apply Z.eqb_eq in H1. apply Bool.eqb_prop in H2. unfold hdr_of. rewrite H1, H2. reflexivity.
Qed.

(* ---- the long-form length loop: no wrap for values below 2^64 ---- *)
Lemma len_loop_spec : forall be ln rest, 0 <= ln < 2 ^ 64 ->
  len_loop (length be) ln (be ++ rest) =
  Ok ((ln * 256 ^ Z.of_nat (length be) + uval be) mod 2 ^ 64, rest).
Proof.
  induction be as [|b be IH]; intros ln rest Hln; cbn [length len_loop app uval].
  - change (Z.of_nat 0) with 0. rewrite Z.pow_0_r, Z.mod_small by lia. f_equal. f_equal. lia.
  - unfold wrap64. change 18446744073709551616 with (2 ^ 64).
    rewrite IH by (apply Z.mod_pos_bound; lia).
    f_equal. f_equal. rewrite Z.shiftl_mul_pow2 by lia. change (2 ^ 8) with 256.
    rewrite Nat2Z.inj_succ, Z.pow_succ_r by lia.
    rewrite <- Z.add_mod_idemp_l by lia. rewrite Z.mul_mod_idemp_l by lia.
    rewrite Z.add_mod_idemp_l by lia. f_equal. ring.
Qed.

(* ---- A2: every legal definite length form ---- *)
Theorem parse_header_any_len : forall tag lo c s,
  0 <= tag < 256 -> Z.land tag 31 <> 31 -> len_octets (len c) lo ->
  parse_header (tag :: lo ++ c ++ s) = Ok (c ++ s, hdr_of tag (len c)).
Proof.
  intros tag lo c s Htag H31 Hlo.
  apply Z.eqb_neq in H31.
  remember (len c) as n eqn:En.
  assert (Hfit : len (c ++ s) <? n = false).
  { rewrite len_app, <- En. pose proof (len_nonneg s). apply Z.ltb_ge. lia. }
  destruct Hlo as [n Hn|be Hw Hk Hu].
  - cbn [app]. unfold parse_header. rewrite H31. cbn [bind].
    pose proof (len_octet_bits n ltac:(lia)) as Hb.
    destruct (Z.ltb_spec n 128); [|lia]. rewrite Hb. cbn [bind]. rewrite Hfit.
    rewrite id_octet_hdr by exact Htag. reflexivity.
  - cbn [app]. unfold parse_header. rewrite H31. cbn [bind].
    pose proof (len_octet_bits (128 + len be) ltac:(lia)) as Hb.
    destruct (Z.ltb_spec (128 + len be) 128); [lia|].
    apply andb_true_iff in Hb. destruct Hb as [Hb1 Hb2]. apply negb_true_iff in Hb1. apply Z.eqb_eq in Hb2.
    rewrite Hb1, Hb2. replace (128 + len be - 128) with (len be) by lia.
    unfold len at 1. rewrite Nat2Z.id. rewrite len_loop_spec by lia.
    rewrite Z.mul_0_l, Z.add_0_l. pose proof (uval_bound be Hw). rewrite Z.mod_small by lia.
    cbn [bind]. rewrite Hfit.
    rewrite id_octet_hdr by exact Htag. reflexivity.
Qed.

(* ---- A1: the reference (minimal) length form ---- *)
Theorem parse_header_tlv : forall tag c s,
  0 <= tag < 256 -> Z.land tag 31 <> 31 -> len c < 65536 -> wfb c ->
  parse_header (tlv tag c ++ s) =
  Ok (c ++ s, {| h_class := Z.shiftr tag 6; h_constructed := Z.testbit tag 5;
                 h_tag := Z.land tag 31; h_length := len c |}).
Proof.
  intros tag c s Htag H31 Hlen _. unfold tlv. cbn [app]. rewrite <- app_assoc.
  apply parse_header_any_len; [exact Htag|exact H31|].
  apply enc_len_len_octets. pose proof (len_nonneg c). lia.
Qed.

(* the content octets need not be well formed for the header to parse *)
Lemma parse_header_tlv_nowf tag c s :
  0 <= tag < 256 -> Z.land tag 31 <> 31 -> len c < 65536 ->
  parse_header (tlv tag c ++ s) = Ok (c ++ s, hdr_of tag (len c)).
Proof.
  intros Htag H31 Hlen. unfold tlv. cbn [app]. rewrite <- app_assoc.
  apply parse_header_any_len; [exact Htag|exact H31|].
  apply enc_len_len_octets. pose proof (len_nonneg c). lia.
Qed.

(* ---- the identifier octets used by SNMP, with literal class / constructed / tag numbers ---- *)
Definition mk_hdr (cl : Z) (co : bool) (t n : Z) : hdr :=
  {| h_class := cl; h_constructed := co; h_tag := t; h_length := n |}.

Definition snmp_id_table : list (Z * (Z * bool * Z)) :=
  [ (1, (0, false, 1)); (2, (0, false, 2)); (4, (0, false, 4)); (5, (0, false, 5)); (6, (0, false, 6));
    (7, (0, false, 7)); (9, (0, false, 9)); (13, (0, false, 13)); (48, (0, true, 16));
    (160, (2, true, 0)); (161, (2, true, 1)); (162, (2, true, 2)); (165, (2, true, 5)); (168, (2, true, 8));
    (64, (1, false, 0)); (65, (1, false, 1)); (66, (1, false, 2)); (67, (1, false, 3));
    (68, (1, false, 4)); (69, (1, false, 5)); (70, (1, false, 6)); (71, (1, false, 7));
    (128, (2, false, 0)); (129, (2, false, 1)); (130, (2, false, 2)) ].

Lemma snmp_id_table_ok :
  forallb (fun '(tag, (cl, co, t)) =>
    (0 <=? tag) && (tag <? 256) && negb (Z.land tag 31 =? 31) && (Z.shiftr tag 6 =? cl)
    && Bool.eqb (Z.testbit tag 5) co && (Z.land tag 31 =? t)) snmp_id_table = true.
Proof. vm_compute. reflexivity. Qed.

Theorem parse_header_snmp_any_len : forall tag cl co t lo c s,
  In (tag, (cl, co, t)) snmp_id_table -> len_octets (len c) lo ->
  parse_header (tag :: lo ++ c ++ s) = Ok (c ++ s, mk_hdr cl co t (len c)).
Proof.
  intros tag cl co t lo c s Hin Hlo.
  pose proof snmp_id_table_ok as H. rewrite forallb_forall in H. specialize (H _ Hin). cbn beta iota in H.
  repeat (apply andb_true_iff in H; let H' := fresh "H" in destruct H as [H H']).
  rewrite parse_header_any_len; [|lia|apply Z.eqb_neq, negb_true_iff; assumption|exact Hlo].
  unfold hdr_of, mk_hdr. repeat match goal with
    | Hx : (_ =? _) = true |- _ => apply Z.eqb_eq in Hx
    | Hx : Bool.eqb _ _ = true |- _ => apply Bool.eqb_prop in Hx end.
  congruence.
Qed.

Theorem parse_header_snmp_tlv : forall tag cl co t c s,
  In (tag, (cl, co, t)) snmp_id_table -> len c < 65536 ->
  parse_header (tlv tag c ++ s) = Ok (c ++ s, mk_hdr cl co t (len c)).
Proof.
  intros tag cl co t c s Hin Hlen. unfold tlv. cbn [app]. rewrite <- app_assoc.
  apply parse_header_snmp_any_len; [exact Hin|].
  apply enc_len_len_octets. pose proof (len_nonneg c). lia.
Qed.

(* literal corollaries (one per identifier octet) *)
Ltac snmp_tag := intros; apply parse_header_snmp_tlv; [cbn [snmp_id_table In]; tauto|assumption].
Corollary parse_header_tlv_2 c s : len c < 65536 -> parse_header (tlv 2 c ++ s) = Ok (c ++ s, mk_hdr 0 false 2 (len c)).
Proof. snmp_tag. Qed.
Corollary parse_header_tlv_4 c s : len c < 65536 -> parse_header (tlv 4 c ++ s) = Ok (c ++ s, mk_hdr 0 false 4 (len c)).
Proof. snmp_tag. Qed.
Corollary parse_header_tlv_5 c s : len c < 65536 -> parse_header (tlv 5 c ++ s) = Ok (c ++ s, mk_hdr 0 false 5 (len c)).
Proof. snmp_tag. Qed.
Corollary parse_header_tlv_6 c s : len c < 65536 -> parse_header (tlv 6 c ++ s) = Ok (c ++ s, mk_hdr 0 false 6 (len c)).
Proof. snmp_tag. Qed.
Corollary parse_header_tlv_48 c s : len c < 65536 -> parse_header (tlv 48 c ++ s) = Ok (c ++ s, mk_hdr 0 true 16 (len c)).
Proof. snmp_tag. Qed.
Corollary parse_header_tlv_160 c s : len c < 65536 -> parse_header (tlv 160 c ++ s) = Ok (c ++ s, mk_hdr 2 true 0 (len c)).
Proof. snmp_tag. Qed.
Corollary parse_header_tlv_161 c s : len c < 65536 -> parse_header (tlv 161 c ++ s) = Ok (c ++ s, mk_hdr 2 true 1 (len c)).
Proof. snmp_tag. Qed.
Corollary parse_header_tlv_162 c s : len c < 65536 -> parse_header (tlv 162 c ++ s) = Ok (c ++ s, mk_hdr 2 true 2 (len c)).
Proof. snmp_tag. Qed.
Corollary parse_header_tlv_165 c s : len c < 65536 -> parse_header (tlv 165 c ++ s) = Ok (c ++ s, mk_hdr 2 true 5 (len c)).
Proof. snmp_tag. Qed.
Corollary parse_header_tlv_168 c s : len c < 65536 -> parse_header (tlv 168 c ++ s) = Ok (c ++ s, mk_hdr 2 true 8 (len c)).
Proof. snmp_tag. Qed.
Corollary parse_header_tlv_64 c s : len c < 65536 -> parse_header (tlv 64 c ++ s) = Ok (c ++ s, mk_hdr 1 false 0 (len c)).
Proof. snmp_tag. Qed.
Corollary parse_header_tlv_65 c s : len c < 65536 -> parse_header (tlv 65 c ++ s) = Ok (c ++ s, mk_hdr 1 false 1 (len c)).
Proof. snmp_tag. Qed.
Corollary parse_header_tlv_66 c s : len c < 65536 -> parse_header (tlv 66 c ++ s) = Ok (c ++ s, mk_hdr 1 false 2 (len c)).
Proof. snmp_tag. Qed.
Corollary parse_header_tlv_67 c s : len c < 65536 -> parse_header (tlv 67 c ++ s) = Ok (c ++ s, mk_hdr 1 false 3 (len c)).
Proof. snmp_tag. Qed.
Corollary parse_header_tlv_68 c s : len c < 65536 -> parse_header (tlv 68 c ++ s) = Ok (c ++ s, mk_hdr 1 false 4 (len c)).
Proof. snmp_tag. Qed.
Corollary parse_header_tlv_69 c s : len c < 65536 -> parse_header (tlv 69 c ++ s) = Ok (c ++ s, mk_hdr 1 false 5 (len c)).
Proof. snmp_tag. Qed.
Corollary parse_header_tlv_70 c s : len c < 65536 -> parse_header (tlv 70 c ++ s) = Ok (c ++ s, mk_hdr 1 false 6 (len c)).
Proof. snmp_tag. Qed.
Corollary parse_header_tlv_71 c s : len c < 65536 -> parse_header (tlv 71 c ++ s) = Ok (c ++ s, mk_hdr 1 false 7 (len c)).
Proof. snmp_tag. Qed.
Corollary parse_header_tlv_128 c s : len c < 65536 -> parse_header (tlv 128 c ++ s) = Ok (c ++ s, mk_hdr 2 false 0 (len c)).
Proof. snmp_tag. Qed.
Corollary parse_header_tlv_129 c s : len c < 65536 -> parse_header (tlv 129 c ++ s) = Ok (c ++ s, mk_hdr 2 false 1 (len c)).
Proof. snmp_tag. Qed.
Corollary parse_header_tlv_130 c s : len c < 65536 -> parse_header (tlv 130 c ++ s) = Ok (c ++ s, mk_hdr 2 false 2 (len c)).
Proof. snmp_tag. Qed.

(* ---- from_ber and option_from_ber on top of the header ---- *)
Lemma len_tag_lo_ge2 tag lo c s n : len_octets n lo -> 2 <= len (tag :: lo ++ c ++ s).
Proof.
  intros Hlo. rewrite len_cons, len_app. pose proof (len_nonneg (c ++ s)).
  destruct Hlo as [m Hm|be Hw Hk Hu]; rewrite len_cons; [rewrite len_nil|]; lia.
Qed.

Theorem from_ber_any_len : forall {A} (t : Z) (ap ac : bool) (dec : bytes -> hdr -> res A) tag lo c s v,
  0 <= tag < 256 -> Z.land tag 31 <> 31 -> Z.land tag 31 = t ->
  (if Z.testbit tag 5 then ac else ap) = true ->
  len_octets (len c) lo ->
  dec (c ++ s) (hdr_of tag (len c)) = Ok v ->
  from_ber t ap ac dec (tag :: lo ++ c ++ s) = Ok (s, v).
Proof.
  intros A t ap ac dec tag lo c s v Htag H31 Ht Hpc Hlo Hdec.
  unfold from_ber. pose proof (len_tag_lo_ge2 tag lo c s _ Hlo) as H2.
  destruct (Z.ltb_spec (len (tag :: lo ++ c ++ s)) 2); [lia|].
  rewrite parse_header_any_len by assumption. cbn [bind].
  change (h_tag (hdr_of tag (len c))) with (Z.land tag 31).
  change (h_constructed (hdr_of tag (len c))) with (Z.testbit tag 5).
  change (h_length (hdr_of tag (len c))) with (len c).
  rewrite Ht, Z.eqb_refl. cbn [negb orb].
  assert (Hc : (Z.testbit tag 5 && negb ac) || (negb (Z.testbit tag 5) && negb ap) = false).
  { destruct (Z.testbit tag 5); rewrite Hpc; reflexivity. }
  rewrite Hc. rewrite slice_from_app. cbn [bind]. rewrite Hdec. reflexivity.
Qed.

Theorem from_ber_tlv : forall {A} (t : Z) (ap ac : bool) (dec : bytes -> hdr -> res A) tag c s v,
  0 <= tag < 256 -> Z.land tag 31 <> 31 -> Z.land tag 31 = t ->
  (if Z.testbit tag 5 then ac else ap) = true ->
  len c < 65536 ->
  dec (c ++ s) (hdr_of tag (len c)) = Ok v ->
  from_ber t ap ac dec (tlv tag c ++ s) = Ok (s, v).
Proof.
  intros A t ap ac dec tag c s v Htag H31 Ht Hpc Hlen Hdec.
  unfold tlv. cbn [app]. rewrite <- app_assoc.
  apply from_ber_any_len; try assumption.
  apply enc_len_len_octets. pose proof (len_nonneg c). lia.
Qed.

Lemma decode_slice_app c s h : h_length h = len c -> decode_slice (c ++ s) h = Ok c.
Proof. intros Hh. unfold decode_slice. rewrite Hh. apply slice_to_app. Qed.

(* OCTET STRING, OBJECT IDENTIFIER, SEQUENCE: the content comes back as is *)
Theorem octetstring_from_ber_enc b s : len b < 65536 -> octetstring_from_ber (enc_octets b ++ s) = Ok (s, b).
Proof.
  intros Hl. unfold octetstring_from_ber, enc_octets, TAG_OCTET_STRING.
  apply from_ber_tlv; try reflexivity; try lia; try discriminate.
  apply decode_slice_app. reflexivity.
Qed.

Theorem oid_from_ber_enc b s : len b < 65536 -> oid_from_ber (enc_oid b ++ s) = Ok (s, b).
Proof.
  intros Hl. unfold oid_from_ber, enc_oid, TAG_OBJECT_ID.
  apply from_ber_tlv; try reflexivity; try lia; try discriminate.
  apply decode_slice_app. reflexivity.
Qed.

Theorem sequence_from_ber_tlv b s : len b < 65536 -> sequence_from_ber (tlv 48 b ++ s) = Ok (s, b).
Proof.
  intros Hl. unfold sequence_from_ber, TAG_SEQUENCE.
  apply from_ber_tlv; try reflexivity; try lia; try discriminate.
  apply decode_slice_app. reflexivity.
Qed.

Theorem null_from_ber_enc s : null_from_ber (enc_null ++ s) = Ok (s, tt).
Proof.
  change enc_null with (tlv 5 []). unfold null_from_ber, TAG_NULL.
  apply from_ber_tlv; try reflexivity; try lia; try discriminate.
Qed.

(* SnmpOption: constructed context (or universal) element; needs at least 3 octets in all *)
Theorem option_from_ber_tlv tag c s :
  0 <= tag < 256 -> Z.land tag 31 <> 31 -> Z.testbit tag 5 = true ->
  Z.shiftr tag 6 = 2 \/ Z.shiftr tag 6 = 0 ->
  len c < 65536 -> 1 <= len c + len s ->
  option_from_ber (tlv tag c ++ s) = Ok (s, (Z.land tag 31, c)).
Proof.
  intros Htag H31 Hc Hcl Hlen Hne.
  unfold option_from_ber.
  assert (H3 : 3 <= len (tlv tag c ++ s)).
  { unfold tlv. cbn [app]. rewrite <- app_assoc, len_cons, len_app, len_app.
    assert (1 <= len (enc_len (len c))).
    { unfold enc_len. destruct (len c <? 128); [|destruct (len c <? 256)]; repeat rewrite len_cons; rewrite len_nil; lia. }
    lia. }
  destruct (Z.ltb_spec (len (tlv tag c ++ s)) 3); [lia|].
  rewrite parse_header_tlv_nowf by assumption. cbn [bind].
  unfold hdr_of. cbn [h_constructed h_class h_tag h_length].
  rewrite Hc. cbn [negb orb].
  assert (Hcl' : negb (Z.shiftr tag 6 =? 2) && negb (Z.shiftr tag 6 =? 0) = false).
  { destruct Hcl as [E|E]; rewrite E; reflexivity. }
  rewrite Hcl'. rewrite slice_from_app, slice_to_app. reflexivity.
Qed.

(* Print Assumptions parse_header_tlv.            Closed under the global context *)
(* Print Assumptions parse_header_any_len.        Closed under the global context *)
(* Print Assumptions parse_header_snmp_any_len.   Closed under the global context *)
(* Print Assumptions from_ber_any_len.            Closed under the global context *)
(* Print Assumptions option_from_ber_tlv.         Closed under the global context *)

(* PDU and message layer (Model.Pdu): the fuel of the varbind loops is sufficient,
   no panic is reachable on real octets, trailing octets are rejected, and the
   decoded structures are well formed. *)
From GS Require Import Model.Base Gen.Constants Model.Ber Model.Pdu
  Proofs.BaseLemmas Proofs.HeaderProofs Proofs.DecodeProofs.
From Coq Require Import ZArith List Bool Lia.
Import ListNotations.
Open Scope Z_scope.

(* ------------------------------------------------------------------ *)
(** * Framing facts for the typed [*_from_ber] instances *)

Lemma from_ber_tail_wfb : forall A tag p k (d : bytes -> hdr -> res A) x rest v,
  wfb x -> from_ber tag p k d x = Ok (rest, v) -> wfb rest.
Proof. intros A tag p k d x rest v Hw H. eapply from_ber_rest in H; [tauto|assumption]. Qed.

Lemma int_from_ber_tail : forall x rest v, wfb x -> int_from_ber x = Ok (rest, v) -> wfb rest.
Proof. intros x rest v Hw H. eapply from_ber_tail_wfb; eassumption. Qed.

Lemma null_from_ber_tail : forall x rest v, wfb x -> null_from_ber x = Ok (rest, v) -> wfb rest.
Proof. intros x rest v Hw H. eapply from_ber_tail_wfb; eassumption. Qed.

Lemma octetstring_from_ber_wfb : forall x rest v, wfb x -> octetstring_from_ber x = Ok (rest, v) -> wfb v /\ wfb rest.
Proof. intros x rest v Hw H. eapply from_ber_slice_wfb; eassumption. Qed.

Lemma oid_from_ber_wfb : forall x rest v, wfb x -> oid_from_ber x = Ok (rest, v) -> wfb v /\ wfb rest.
Proof. intros x rest v Hw H. eapply from_ber_slice_wfb; eassumption. Qed.

Lemma reloid_from_ber_wfb : forall x rest v, wfb x -> reloid_from_ber x = Ok (rest, v) -> wfb v /\ wfb rest.
Proof. intros x rest v Hw H. eapply from_ber_slice_wfb; eassumption. Qed.

Lemma sequence_from_ber_wfb : forall x rest v, wfb x -> sequence_from_ber x = Ok (rest, v) -> wfb v /\ wfb rest.
Proof. intros x rest v Hw H. eapply from_ber_slice_wfb; eassumption. Qed.

Lemma sequence_from_ber_shrinks : forall x rest v, sequence_from_ber x = Ok (rest, v) ->
  (length rest < length x)%nat /\ len rest + len v + 2 <= len x.
Proof.
  intros x rest v H. apply from_ber_slice_split in H. destruct H as (pre & -> & Hpre & _).
  rewrite !len_app. split; [|lia].
  apply len_length_lt. rewrite !len_app. pose proof (len_nonneg v). lia.
Qed.

Lemma int_from_ber_app : forall x s rest v, int_from_ber x = Ok (rest, v) ->
  int_from_ber (x ++ s) = Ok (rest ++ s, v).
Proof. intros x s rest v H. apply from_ber_app_gen; [apply decode_int_local|assumption]. Qed.

Lemma null_from_ber_app : forall x s rest v, null_from_ber x = Ok (rest, v) ->
  null_from_ber (x ++ s) = Ok (rest ++ s, v).
Proof. intros x s rest v H. apply from_ber_app_gen; [apply decode_null_local|assumption]. Qed.

Lemma octetstring_from_ber_app : forall x s rest v, octetstring_from_ber x = Ok (rest, v) ->
  octetstring_from_ber (x ++ s) = Ok (rest ++ s, v).
Proof. intros x s rest v H. apply from_ber_app_gen; [apply decode_slice_local|assumption]. Qed.

Lemma oid_from_ber_app : forall x s rest v, oid_from_ber x = Ok (rest, v) ->
  oid_from_ber (x ++ s) = Ok (rest ++ s, v).
Proof. intros x s rest v H. apply from_ber_app_gen; [apply decode_slice_local|assumption]. Qed.

Lemma sequence_from_ber_app : forall x s rest v, sequence_from_ber x = Ok (rest, v) ->
  sequence_from_ber (x ++ s) = Ok (rest ++ s, v).
Proof. intros x s rest v H. apply from_ber_app_gen; [apply decode_slice_local|assumption]. Qed.

Lemma int_from_ber_range : forall x rest v, wfb x -> int_from_ber x = Ok (rest, v) ->
  -9223372036854775808 <= v < 9223372036854775808.
Proof.
  intros x rest v Hw H. apply from_ber_inv in H. destruct H as (c & h & Hp & Hn & _ & Hd & _).
  destruct (parse_header_fits x c h Hw Hp) as (_ & Hwc & _).
  eapply decode_int_range; eassumption.
Qed.

(* ------------------------------------------------------------------ *)
(** * (C.12) The varbind loops: fuel is sufficient, no panic *)

(* the name-decoding step inside the response loop *)
Definition resp_oid_step (vs : bytes) (t0 : Z) (acc : list varbind) : res (bytes * bytes) :=
  if t0 =? TAG_OBJECT_ID then oid_from_ber vs
  else if t0 =? TAG_RELATIVE_OID then
    match acc with
    | [] => Err UnexpectedTag
    | prev :: _ =>
      '(t, r_oid) <- reloid_from_ber vs ;;
      oid <- try_normalize r_oid (vb_oid prev) ;;
      Ok (t, oid)
    end
  else Err UnexpectedTag.

Lemma resp_vars_unfold : forall fuel b v acc,
  resp_vars (S fuel) (b :: v) acc =
  ('(rest, vs) <- sequence_from_ber (b :: v) ;;
   match vs with
   | [] => Err Incomplete
   | t0 :: _ =>
     '(tail, oid) <- resp_oid_step vs t0 acc ;;
     '(_, val) <- value_from_ber tail ;;
     resp_vars fuel rest ({| vb_oid := oid; vb_value := val |} :: acc)
   end).
Proof. reflexivity. Qed.

Lemma resp_oid_step_no_panic : forall vs t0 acc, wfb vs -> resp_oid_step vs t0 acc <> Panic.
Proof.
  intros vs t0 acc Hw. unfold resp_oid_step.
  destruct (t0 =? TAG_OBJECT_ID); [apply oid_from_ber_no_panic; assumption|].
  destruct (t0 =? TAG_RELATIVE_OID); [|discriminate].
  destruct acc as [|prev acc']; [discriminate|].
  apply bind_no_panic; [apply reloid_from_ber_no_panic; assumption|].
  intros [t r_oid] _. beta_goal.
  apply bind_no_panic; [apply try_normalize_no_panic_gen|]. intros oid _. discriminate.
Qed.

Lemma resp_oid_step_wfb : forall vs t0 acc tail oid, wfb vs ->
  Forall (fun vb => wfb (vb_oid vb)) acc ->
  resp_oid_step vs t0 acc = Ok (tail, oid) -> wfb tail /\ wfb oid.
Proof.
  intros vs t0 acc tail oid Hw Hacc H. unfold resp_oid_step in H.
  destruct (t0 =? TAG_OBJECT_ID).
  - apply oid_from_ber_wfb in H; tauto.
  - destruct (t0 =? TAG_RELATIVE_OID); [|discriminate H].
    destruct acc as [|prev acc']; [discriminate H|].
    inv_bind_pair H t r_oid Er. inv_bind H o En. apply Ok_inj in H. inversion H; subst.
    apply reloid_from_ber_wfb in Er; [|assumption]. destruct Er as [Hr Ht].
    split; [assumption|]. inversion Hacc; subst.
    eapply try_normalize_wfb; [| |exact En]; assumption.
Qed.

Theorem resp_vars_no_panic : forall fuel v acc, wfb v -> (length v <= fuel)%nat ->
  Forall (fun vb => wfb (vb_oid vb)) acc -> resp_vars fuel v acc <> Panic.
Proof.
  induction fuel as [|fuel IH]; intros v acc Hw Hf Hacc.
  - destruct v; [discriminate|cbn [length] in Hf; lia].
  - destruct v as [|b v]; [discriminate|]. rewrite resp_vars_unfold.
    apply bind_no_panic; [apply sequence_from_ber_no_panic; assumption|].
    intros [rest vs] Hs. beta_goal.
    destruct (sequence_from_ber_wfb _ _ _ Hw Hs) as [Hwvs Hwrest].
    apply sequence_from_ber_shrinks in Hs. destruct Hs as [Hlt _].
    destruct vs as [|t0 vs']; [discriminate|].
    apply bind_no_panic; [apply resp_oid_step_no_panic; assumption|].
    intros [tail oid] Ho. beta_goal.
    destruct (resp_oid_step_wfb _ _ _ _ _ Hwvs Hacc Ho) as [Hwt Hwo].
    apply bind_no_panic; [apply value_from_ber_no_panic; assumption|].
    intros [x val] _. beta_goal.
    apply IH; [assumption|lia|]. constructor; [exact Hwo|assumption].
Qed.

Lemma parse_var_no_panic : forall i, wfb i -> parse_var i <> Panic.
Proof.
  intros i Hw. unfold parse_var.
  apply bind_no_panic; [apply sequence_from_ber_no_panic; assumption|].
  intros [rest vs] Hs. beta_goal. destruct (sequence_from_ber_wfb _ _ _ Hw Hs) as [Hwvs Hwrest].
  apply bind_no_panic; [apply oid_from_ber_no_panic; assumption|].
  intros [tail oid] Ho. beta_goal. destruct (oid_from_ber_wfb _ _ _ Hwvs Ho) as [Hwo Hwt].
  apply bind_no_panic; [apply null_from_ber_no_panic; assumption|].
  intros [x y] _. discriminate.
Qed.

Lemma parse_var_inv : forall i rest oid, parse_var i = Ok (rest, oid) ->
  (length rest < length i)%nat /\ (wfb i -> wfb rest /\ wfb oid) /\
  exists vs tail, sequence_from_ber i = Ok (rest, vs) /\ oid_from_ber vs = Ok (tail, oid).
Proof.
  intros i rest oid H. unfold parse_var in H.
  inv_bind_pair H rest' vs Es. inv_bind_pair H tl0 o Eo. inv_bind_pair H x y En.
  apply Ok_inj in H. inversion H; subst.
  split; [apply sequence_from_ber_shrinks in Es; tauto|]. split.
  - intros Hw. destruct (sequence_from_ber_wfb _ _ _ Hw Es) as [Hwvs Hwrest].
    destruct (oid_from_ber_wfb _ _ _ Hwvs Eo) as [Hwo _]. split; assumption.
  - eauto.
Qed.

Theorem req_vars_no_panic : forall fuel v acc, wfb v -> (length v <= fuel)%nat ->
  req_vars fuel v acc <> Panic.
Proof.
  induction fuel as [|fuel IH]; intros v acc Hw Hf.
  - destruct v; [discriminate|cbn [length] in Hf; lia].
  - destruct v as [|b v]; [discriminate|]. cbn [req_vars].
    apply bind_no_panic; [apply parse_var_no_panic; assumption|].
    intros [rest oid] Hp. beta_goal. apply parse_var_inv in Hp. destruct Hp as (Hlt & Hwf & _).
    destruct (Hwf Hw) as [Hwrest _]. apply IH; [assumption|lia].
Qed.

(* ------------------------------------------------------------------ *)
(** * (C.12) No panic at the PDU and message layers *)

(* one [int_from_ber] step of a no-panic proof: leaves the continuation with
   the tail known to be wfb *)
Ltac np_int t x H Hwt :=
  apply bind_no_panic; [apply int_from_ber_no_panic; assumption|];
  intros [t x] H; beta_goal;
  assert (wfb t) as Hwt by (eapply int_from_ber_tail; [|exact H]; assumption).

Ltac np_slice lem lemw t x H Hwx Hwt :=
  apply bind_no_panic; [apply lem; assumption|];
  intros [t x] H; beta_goal;
  assert (wfb x /\ wfb t) as [Hwx Hwt] by (eapply lemw; [|exact H]; assumption).

Ltac np_seq t x H Hwx Hwt := np_slice sequence_from_ber_no_panic sequence_from_ber_wfb t x H Hwx Hwt.
Ltac np_os t x H Hwx Hwt := np_slice octetstring_from_ber_no_panic octetstring_from_ber_wfb t x H Hwx Hwt.

Theorem getresponse_decode_no_panic : forall i, wfb i -> getresponse_decode i <> Panic.
Proof.
  intros i Hw. unfold getresponse_decode.
  np_int t1 rid H1 Hw1. np_int t2 es H2 Hw2. np_int t3 ei H3 Hw3. np_seq t4 vb H4 Hwvb Hw4.
  destruct t4; [|discriminate].
  apply bind_no_panic; [|intros vars _; discriminate].
  apply resp_vars_no_panic; [assumption|lia|constructor].
Qed.

Theorem get_decode_no_panic : forall i, wfb i -> get_decode i <> Panic.
Proof.
  intros i Hw. unfold get_decode.
  np_int t1 rid H1 Hw1. np_int t2 es H2 Hw2. destruct (negb (es =? 0)); [discriminate|].
  np_int t3 ei H3 Hw3. destruct (negb (ei =? 0)); [discriminate|].
  np_seq t4 vb H4 Hwvb Hw4. destruct t4; [|discriminate].
  apply bind_no_panic; [|intros vars _; discriminate].
  apply req_vars_no_panic; [assumption|lia].
Qed.

Theorem getbulk_decode_no_panic : forall i, wfb i -> getbulk_decode i <> Panic.
Proof.
  intros i Hw. unfold getbulk_decode.
  np_int t1 rid H1 Hw1. np_int t2 nr H2 Hw2. np_int t3 mr H3 Hw3. np_seq t4 vb H4 Hwvb Hw4.
  destruct t4; [|discriminate].
  apply bind_no_panic; [|intros vars _; discriminate].
  apply req_vars_no_panic; [assumption|lia].
Qed.

Theorem pdu_decode_no_panic : forall i, wfb i -> pdu_decode i <> Panic.
Proof.
  intros i Hw. unfold pdu_decode.
  apply bind_no_panic; [apply option_from_ber_no_panic; assumption|].
  intros [rest [tag v]] Ho. beta_goal.
  destruct (option_from_ber_wfb _ _ _ _ Hw Ho) as (Hwv & _ & _).
  destruct (tag =? PDU_GET_REQUEST).
  { apply bind_no_panic; [apply get_decode_no_panic; assumption|intros g _; discriminate]. }
  destruct (tag =? PDU_GETNEXT_REQUEST).
  { apply bind_no_panic; [apply get_decode_no_panic; assumption|intros g _; discriminate]. }
  destruct (tag =? PDU_GET_RESPONSE).
  { apply bind_no_panic; [apply getresponse_decode_no_panic; assumption|intros g _; discriminate]. }
  destruct (tag =? PDU_GET_BULK_REQUEST).
  { apply bind_no_panic; [apply getbulk_decode_no_panic; assumption|intros g _; discriminate]. }
  destruct (tag =? PDU_REPORT); discriminate.
Qed.

Theorem cmsg_decode_no_panic : forall version i, wfb i -> cmsg_decode version i <> Panic.
Proof.
  intros version i Hw. unfold cmsg_decode.
  np_seq t0 env H0 Hwenv Hw0. destruct t0; [|discriminate].
  np_int t1 vc H1 Hw1. destruct (negb (as_u8 vc =? version)); [discriminate|].
  np_os t2 com H2 Hwcom Hw2.
  apply bind_no_panic; [apply pdu_decode_no_panic; assumption|intros p _; discriminate].
Qed.

Theorem v1_decode_no_panic : forall i, wfb i -> v1_decode i <> Panic.
Proof. intros i Hw. apply cmsg_decode_no_panic. assumption. Qed.

Theorem v2c_decode_no_panic : forall i, wfb i -> v2c_decode i <> Panic.
Proof. intros i Hw. apply cmsg_decode_no_panic. assumption. Qed.

Theorem usm_decode_no_panic : forall i, wfb i -> usm_decode i <> Panic.
Proof.
  intros i Hw. unfold usm_decode.
  np_seq t0 env H0 Hwenv Hw0. destruct t0; [|discriminate].
  np_os t1 eid H1 Hweid Hw1. np_int t2 eb H2 Hw2. np_int t3 et H3 Hw3.
  np_os t4 un H4 Hwun Hw4. np_os t5 ap H5 Hwap Hw5. np_os t6 pp H6 Hwpp Hw6.
  discriminate.
Qed.

Theorem scoped_decode_no_panic : forall i, wfb i -> scoped_decode i <> Panic.
Proof.
  intros i Hw. unfold scoped_decode.
  np_seq t0 env H0 Hwenv Hw0. np_os t1 eid H1 Hweid Hw1. np_os t2 cn H2 Hwcn Hw2.
  apply bind_no_panic; [apply pdu_decode_no_panic; assumption|intros p _; discriminate].
Qed.

Theorem msgdata_decode_no_panic : forall i, wfb i -> msgdata_decode i <> Panic.
Proof.
  intros i Hw. unfold msgdata_decode. destruct i as [|t r]; [discriminate|].
  destruct (t =? TAG_OCTET_STRING).
  - np_os t1 os H1 Hwos Hw1. discriminate.
  - apply bind_no_panic; [apply scoped_decode_no_panic; assumption|intros s _; discriminate].
Qed.

Theorem v3_decode_no_panic : forall i, wfb i -> v3_decode i <> Panic.
Proof.
  intros i Hw. unfold v3_decode.
  np_seq t0 env H0 Hwenv Hw0. destruct t0; [|discriminate].
  np_int t1 vc H1 Hw1. destruct (negb (as_u8 vc =? SNMP_V3)); [discriminate|].
  np_seq sp_tail genv H2 Hwgenv Hwsp.
  np_int t3 mid H3 Hw3. np_int t4 mms H4 Hw4. np_os t5 fd H5 Hwfd Hw5.
  destruct (len fd =? 1) eqn:Efd; cbn [negb]; [|discriminate]. apply Z.eqb_eq in Efd.
  apply bind_no_panic; [apply idx_no_panic; apply len_ge_length; cbn; lia|]. intros flags _.
  np_int t6 sm H6 Hw6. destruct (negb (as_u8 sm =? USM_MODEL)); [discriminate|].
  np_os t7 sp H7 Hwspar Hw7.
  apply bind_no_panic; [apply usm_decode_no_panic; assumption|]. intros u _.
  apply bind_no_panic; [apply msgdata_decode_no_panic; assumption|]. intros d _. discriminate.
Qed.

(* ------------------------------------------------------------------ *)
(** * (C.13) Trailing octets are rejected *)

Lemma nonempty_cons : forall (s : bytes), s <> [] -> exists b r, s = b :: r.
Proof. intros [|b r] H; [congruence|eauto]. Qed.

(* The [wfb] hypotheses of the requested statements are not needed; the general
   forms are proved first. *)
Theorem cmsg_decode_trailing_gen : forall ver x s m,
  cmsg_decode ver x = Ok m -> s <> [] -> cmsg_decode ver (x ++ s) = Err TrailingData.
Proof.
  intros ver x s m H Hs. unfold cmsg_decode in *.
  inv_bind_pair H t0 env E0. destruct t0 as [|b0 t0]; [|discriminate H].
  rewrite (sequence_from_ber_app _ s _ _ E0). cbn [bind app].
  destruct (nonempty_cons s Hs) as (b & r & ->). reflexivity.
Qed.

Theorem cmsg_decode_trailing : forall ver x s m, wfb x ->
  cmsg_decode ver x = Ok m -> s <> [] -> wfb s -> cmsg_decode ver (x ++ s) = Err TrailingData.
Proof. intros ver x s m _ H Hs _. eapply cmsg_decode_trailing_gen; eassumption. Qed.

Theorem usm_decode_trailing_gen : forall x s m,
  usm_decode x = Ok m -> s <> [] -> usm_decode (x ++ s) = Err TrailingData.
Proof.
  intros x s m H Hs. unfold usm_decode in *.
  inv_bind_pair H t0 env E0. destruct t0 as [|b0 t0]; [|discriminate H].
  rewrite (sequence_from_ber_app _ s _ _ E0). cbn [bind app].
  destruct (nonempty_cons s Hs) as (b & r & ->). reflexivity.
Qed.

Theorem usm_decode_trailing : forall x s m, wfb x ->
  usm_decode x = Ok m -> s <> [] -> wfb s -> usm_decode (x ++ s) = Err TrailingData.
Proof. intros x s m _ H Hs _. eapply usm_decode_trailing_gen; eassumption. Qed.

Theorem v3_decode_trailing_gen : forall x s m,
  v3_decode x = Ok m -> s <> [] -> v3_decode (x ++ s) = Err TrailingData.
Proof.
  intros x s m H Hs. unfold v3_decode in *.
  inv_bind_pair H t0 env E0. destruct t0 as [|b0 t0]; [|discriminate H].
  rewrite (sequence_from_ber_app _ s _ _ E0). cbn [bind app].
  destruct (nonempty_cons s Hs) as (b & r & ->). reflexivity.
Qed.

Theorem v3_decode_trailing : forall x s m, wfb x ->
  v3_decode x = Ok m -> s <> [] -> wfb s -> v3_decode (x ++ s) = Err TrailingData.
Proof. intros x s m _ H Hs _. eapply v3_decode_trailing_gen; eassumption. Qed.

Theorem v1_decode_trailing : forall x s m, v1_decode x = Ok m -> s <> [] -> v1_decode (x ++ s) = Err TrailingData.
Proof. intros x s m. apply cmsg_decode_trailing_gen. Qed.

Theorem v2c_decode_trailing : forall x s m, v2c_decode x = Ok m -> s <> [] -> v2c_decode (x ++ s) = Err TrailingData.
Proof. intros x s m. apply cmsg_decode_trailing_gen. Qed.

(* Scope of the theorems above: only octets after the OUTER SEQUENCE are rejected.
   Octets after the PDU but inside the envelope are silently accepted (pdu_decode
   drops the rest returned by option_from_ber, as the Rust code does). *)
Example cmsg_inner_trailing_accepted :
  let pdu0 := [160; 11; 2; 1; 1; 2; 1; 0; 2; 1; 0; 48; 0] in
  let body := [2; 1; 1; 4; 0] ++ pdu0 in
  cmsg_decode 1 (48 :: len (body ++ [5; 0]) :: body ++ [5; 0]) = cmsg_decode 1 (48 :: len body :: body) /\
  is_ok (cmsg_decode 1 (48 :: len body :: body)) = true /\
  cmsg_decode 1 ((48 :: len body :: body) ++ [5; 0]) = Err TrailingData.
Proof. vm_compute. repeat split. Qed.

(* octets after the varbind SEQUENCE inside a PDU body *)
Theorem getresponse_decode_trailing : forall x s r,
  getresponse_decode x = Ok r -> s <> [] -> getresponse_decode (x ++ s) = Err TrailingData.
Proof.
  intros x s r H Hs. unfold getresponse_decode in *.
  inv_bind_pair H t1 rid E1. inv_bind_pair H t2 es E2. inv_bind_pair H t3 ei E3.
  inv_bind_pair H t4 vb E4. destruct t4 as [|b4 t4]; [|discriminate H].
  rewrite (int_from_ber_app _ s _ _ E1). cbn [bind].
  rewrite (int_from_ber_app _ s _ _ E2). cbn [bind].
  rewrite (int_from_ber_app _ s _ _ E3). cbn [bind].
  rewrite (sequence_from_ber_app _ s _ _ E4). cbn [bind app].
  destruct (nonempty_cons s Hs) as (b & r' & ->). reflexivity.
Qed.

Theorem get_decode_trailing : forall x s r,
  get_decode x = Ok r -> s <> [] -> get_decode (x ++ s) = Err TrailingData.
Proof.
  intros x s r H Hs. unfold get_decode in *.
  inv_bind_pair H t1 rid E1. inv_bind_pair H t2 es E2. inv_if H Ees.
  inv_bind_pair H t3 ei E3. inv_if H Eei.
  inv_bind_pair H t4 vb E4. destruct t4 as [|b4 t4]; [|discriminate H].
  rewrite (int_from_ber_app _ s _ _ E1). cbn [bind].
  rewrite (int_from_ber_app _ s _ _ E2). cbn [bind]. rewrite Ees.
  rewrite (int_from_ber_app _ s _ _ E3). cbn [bind]. rewrite Eei.
  rewrite (sequence_from_ber_app _ s _ _ E4). cbn [bind app].
  destruct (nonempty_cons s Hs) as (b & r' & ->). reflexivity.
Qed.

Theorem getbulk_decode_trailing : forall x s r,
  getbulk_decode x = Ok r -> s <> [] -> getbulk_decode (x ++ s) = Err TrailingData.
Proof.
  intros x s r H Hs. unfold getbulk_decode in *.
  inv_bind_pair H t1 rid E1. inv_bind_pair H t2 nr E2. inv_bind_pair H t3 mr E3.
  inv_bind_pair H t4 vb E4. destruct t4 as [|b4 t4]; [|discriminate H].
  rewrite (int_from_ber_app _ s _ _ E1). cbn [bind].
  rewrite (int_from_ber_app _ s _ _ E2). cbn [bind].
  rewrite (int_from_ber_app _ s _ _ E3). cbn [bind].
  rewrite (sequence_from_ber_app _ s _ _ E4). cbn [bind app].
  destruct (nonempty_cons s Hs) as (b & r' & ->). reflexivity.
Qed.

(* ------------------------------------------------------------------ *)
(** * (C.14) Decoded structures are well formed *)

Definition varbind_wf (vb : varbind) : Prop := wfb (vb_oid vb) /\ value_wf (vb_value vb).

Definition pdu_wf (p : pdu) : Prop :=
  match p with
  | PGetRequest g | PGetNextRequest g => Forall wfb (g_vars g)
  | PGetResponse r => Forall varbind_wf (gr_vars r)
  | PGetBulkRequest b => Forall wfb (gb_vars b)
  | PReport raw => wfb raw
  end.

Definition cmsg_wf (m : cmsg) : Prop := wfb (cm_community m) /\ pdu_wf (cm_pdu m).

Definition usm_wf (u : usm) : Prop :=
  wfb (u_engine_id u) /\ wfb (u_user_name u) /\ wfb (u_auth_params u) /\ wfb (u_privacy_params u).

Definition scoped_wf (s : scoped) : Prop := wfb (s_engine_id s) /\ pdu_wf (s_pdu s).

Definition msgdata_wf (d : msgdata) : Prop :=
  match d with Plaintext s => scoped_wf s | Encrypted ct => wfb ct end.

Definition v3msg_wf (m : v3msg) : Prop := usm_wf (m_usm m) /\ msgdata_wf (m_data m).

Lemma varbind_wf_oids : forall acc, Forall varbind_wf acc -> Forall (fun vb => wfb (vb_oid vb)) acc.
Proof. intros acc H. eapply Forall_impl; [|exact H]. intros vb [Ho _]. exact Ho. Qed.

Lemma resp_vars_nil : forall fuel acc, resp_vars fuel [] acc = Ok (rev acc).
Proof. intros [|fuel] acc; reflexivity. Qed.

Lemma req_vars_nil : forall fuel acc, req_vars fuel [] acc = Ok (rev acc).
Proof. intros [|fuel] acc; reflexivity. Qed.

Theorem resp_vars_wf : forall fuel v acc r, wfb v -> Forall varbind_wf acc ->
  resp_vars fuel v acc = Ok r -> Forall varbind_wf r.
Proof.
  induction fuel as [|fuel IH]; intros v acc r Hw Hacc H.
  - destruct v; [|discriminate H]. apply Ok_inj in H. subst r. apply Forall_rev. assumption.
  - destruct v as [|b v].
    + rewrite resp_vars_nil in H. apply Ok_inj in H. subst r. apply Forall_rev. assumption.
    + rewrite resp_vars_unfold in H. inv_bind_pair H rest vs Es.
      destruct (sequence_from_ber_wfb _ _ _ Hw Es) as [Hwvs Hwrest].
      destruct vs as [|t0 vs']; [discriminate H|].
      inv_bind_pair H tl0 oid Eo.
      destruct (resp_oid_step_wfb _ _ _ _ _ Hwvs (varbind_wf_oids _ Hacc) Eo) as [Hwt Hwo].
      inv_bind_pair H x val Ev.
      eapply IH; [exact Hwrest| |exact H].
      constructor; [|assumption]. split; [exact Hwo|].
      eapply value_from_ber_wf; [exact Hwt|exact Ev].
Qed.

Theorem req_vars_wf : forall fuel v acc r, wfb v -> Forall wfb acc ->
  req_vars fuel v acc = Ok r -> Forall wfb r.
Proof.
  induction fuel as [|fuel IH]; intros v acc r Hw Hacc H.
  - destruct v; [|discriminate H]. apply Ok_inj in H. subst r. apply Forall_rev. assumption.
  - destruct v as [|b v].
    + rewrite req_vars_nil in H. apply Ok_inj in H. subst r. apply Forall_rev. assumption.
    + cbn [req_vars] in H. inv_bind_pair H rest oid Ep.
      apply parse_var_inv in Ep. destruct Ep as (_ & Hwf & _). destruct (Hwf Hw) as [Hwrest Hwo].
      eapply IH; [exact Hwrest| |exact H]. constructor; assumption.
Qed.

Theorem getresponse_decode_wf : forall i r, wfb i -> getresponse_decode i = Ok r ->
  Forall varbind_wf (gr_vars r).
Proof.
  intros i r Hw H. unfold getresponse_decode in H.
  inv_bind_pair H t1 rid E1. pose proof (int_from_ber_tail _ _ _ Hw E1) as Hw1.
  inv_bind_pair H t2 es E2. pose proof (int_from_ber_tail _ _ _ Hw1 E2) as Hw2.
  inv_bind_pair H t3 ei E3. pose proof (int_from_ber_tail _ _ _ Hw2 E3) as Hw3.
  inv_bind_pair H t4 vb E4. destruct (sequence_from_ber_wfb _ _ _ Hw3 E4) as [Hwvb _].
  destruct t4 as [|b4 t4]; [|discriminate H].
  inv_bind H vars Ev. apply Ok_inj in H. subst r. cbn [gr_vars].
  eapply resp_vars_wf; [exact Hwvb|constructor|exact Ev].
Qed.

Theorem get_decode_wf : forall i r, wfb i -> get_decode i = Ok r -> Forall wfb (g_vars r).
Proof.
  intros i r Hw H. unfold get_decode in H.
  inv_bind_pair H t1 rid E1. pose proof (int_from_ber_tail _ _ _ Hw E1) as Hw1.
  inv_bind_pair H t2 es E2. pose proof (int_from_ber_tail _ _ _ Hw1 E2) as Hw2. inv_if H Ees.
  inv_bind_pair H t3 ei E3. pose proof (int_from_ber_tail _ _ _ Hw2 E3) as Hw3. inv_if H Eei.
  inv_bind_pair H t4 vb E4. destruct (sequence_from_ber_wfb _ _ _ Hw3 E4) as [Hwvb _].
  destruct t4 as [|b4 t4]; [|discriminate H].
  inv_bind H vars Ev. apply Ok_inj in H. subst r. cbn [g_vars].
  eapply req_vars_wf; [exact Hwvb|constructor|exact Ev].
Qed.

Theorem getbulk_decode_wf : forall i r, wfb i -> getbulk_decode i = Ok r -> Forall wfb (gb_vars r).
Proof.
  intros i r Hw H. unfold getbulk_decode in H.
  inv_bind_pair H t1 rid E1. pose proof (int_from_ber_tail _ _ _ Hw E1) as Hw1.
  inv_bind_pair H t2 nr E2. pose proof (int_from_ber_tail _ _ _ Hw1 E2) as Hw2.
  inv_bind_pair H t3 mr E3. pose proof (int_from_ber_tail _ _ _ Hw2 E3) as Hw3.
  inv_bind_pair H t4 vb E4. destruct (sequence_from_ber_wfb _ _ _ Hw3 E4) as [Hwvb _].
  destruct t4 as [|b4 t4]; [|discriminate H].
  inv_bind H vars Ev. apply Ok_inj in H. subst r. cbn [gb_vars].
  eapply req_vars_wf; [exact Hwvb|constructor|exact Ev].
Qed.

Theorem pdu_decode_wf : forall i p, wfb i -> pdu_decode i = Ok p -> pdu_wf p.
Proof.
  intros i p Hw H. unfold pdu_decode in H.
  inv_bind_pair H rest opt Eo. destruct opt as [tag v].
  destruct (option_from_ber_wfb _ _ _ _ Hw Eo) as (Hwv & _ & _).
  destruct (tag =? PDU_GET_REQUEST).
  { inv_bind H g Eg. apply Ok_inj in H. subst p. cbn [pdu_wf]. eapply get_decode_wf; [|eassumption]; assumption. }
  destruct (tag =? PDU_GETNEXT_REQUEST).
  { inv_bind H g Eg. apply Ok_inj in H. subst p. cbn [pdu_wf]. eapply get_decode_wf; [|eassumption]; assumption. }
  destruct (tag =? PDU_GET_RESPONSE).
  { inv_bind H g Eg. apply Ok_inj in H. subst p. cbn [pdu_wf]. eapply getresponse_decode_wf; [|eassumption]; assumption. }
  destruct (tag =? PDU_GET_BULK_REQUEST).
  { inv_bind H g Eg. apply Ok_inj in H. subst p. cbn [pdu_wf]. eapply getbulk_decode_wf; [|eassumption]; assumption. }
  destruct (tag =? PDU_REPORT); [|discriminate H].
  apply Ok_inj in H. subst p. cbn [pdu_wf]. assumption.
Qed.

Theorem cmsg_decode_wf : forall ver i m, wfb i -> cmsg_decode ver i = Ok m ->
  wfb (cm_community m) /\ pdu_wf (cm_pdu m).
Proof.
  intros ver i m Hw H. unfold cmsg_decode in H.
  inv_bind_pair H t0 env E0. destruct (sequence_from_ber_wfb _ _ _ Hw E0) as [Hwenv _].
  destruct t0 as [|b0 t0]; [|discriminate H].
  inv_bind_pair H t1 vc E1. pose proof (int_from_ber_tail _ _ _ Hwenv E1) as Hw1. inv_if H Ev.
  inv_bind_pair H t2 com E2. destruct (octetstring_from_ber_wfb _ _ _ Hw1 E2) as [Hwcom Hw2].
  inv_bind H p Ep. apply Ok_inj in H. subst m. cbn [cm_community cm_pdu].
  split; [assumption|]. eapply pdu_decode_wf; [|eassumption]; assumption.
Qed.

Theorem usm_decode_wf : forall i u, wfb i -> usm_decode i = Ok u -> usm_wf u.
Proof.
  intros i u Hw H. unfold usm_decode in H.
  inv_bind_pair H t0 env E0. destruct (sequence_from_ber_wfb _ _ _ Hw E0) as [Hwenv _].
  destruct t0 as [|b0 t0]; [|discriminate H].
  inv_bind_pair H t1 eid E1. destruct (octetstring_from_ber_wfb _ _ _ Hwenv E1) as [Hweid Hw1].
  inv_bind_pair H t2 eb E2. pose proof (int_from_ber_tail _ _ _ Hw1 E2) as Hw2.
  inv_bind_pair H t3 et E3. pose proof (int_from_ber_tail _ _ _ Hw2 E3) as Hw3.
  inv_bind_pair H t4 un E4. destruct (octetstring_from_ber_wfb _ _ _ Hw3 E4) as [Hwun Hw4].
  inv_bind_pair H t5 ap E5. destruct (octetstring_from_ber_wfb _ _ _ Hw4 E5) as [Hwap Hw5].
  inv_bind_pair H t6 pp E6. destruct (octetstring_from_ber_wfb _ _ _ Hw5 E6) as [Hwpp Hw6].
  apply Ok_inj in H. subst u. unfold usm_wf. cbn [u_engine_id u_user_name u_auth_params u_privacy_params].
  repeat split; assumption.
Qed.

Theorem scoped_decode_wf : forall i s, wfb i -> scoped_decode i = Ok s -> scoped_wf s.
Proof.
  intros i s Hw H. unfold scoped_decode in H.
  inv_bind_pair H t0 env E0. destruct (sequence_from_ber_wfb _ _ _ Hw E0) as [Hwenv _].
  inv_bind_pair H t1 eid E1. destruct (octetstring_from_ber_wfb _ _ _ Hwenv E1) as [Hweid Hw1].
  inv_bind_pair H t2 cn E2. destruct (octetstring_from_ber_wfb _ _ _ Hw1 E2) as [Hwcn Hw2].
  inv_bind H p Ep. apply Ok_inj in H. subst s. unfold scoped_wf. cbn [s_engine_id s_pdu].
  split; [assumption|]. eapply pdu_decode_wf; [|eassumption]; assumption.
Qed.

Theorem msgdata_decode_wf : forall i d, wfb i -> msgdata_decode i = Ok d -> msgdata_wf d.
Proof.
  intros i d Hw H. unfold msgdata_decode in H. destruct i as [|t r]; [discriminate H|].
  destruct (t =? TAG_OCTET_STRING).
  - inv_bind_pair H t1 os E1. destruct (octetstring_from_ber_wfb _ _ _ Hw E1) as [Hwos _].
    apply Ok_inj in H. subst d. exact Hwos.
  - inv_bind H s Es. apply Ok_inj in H. subst d. cbn [msgdata_wf]. eapply scoped_decode_wf; [|eassumption]; assumption.
Qed.

Theorem v3_decode_wf : forall i m, wfb i -> v3_decode i = Ok m -> v3msg_wf m.
Proof.
  intros i m Hw H. unfold v3_decode in H.
  inv_bind_pair H t0 env E0. destruct (sequence_from_ber_wfb _ _ _ Hw E0) as [Hwenv _].
  destruct t0 as [|b0 t0]; [|discriminate H].
  inv_bind_pair H t1 vc E1. pose proof (int_from_ber_tail _ _ _ Hwenv E1) as Hw1. inv_if H Ev.
  inv_bind_pair H sp_tail genv E2. destruct (sequence_from_ber_wfb _ _ _ Hw1 E2) as [Hwgenv Hwsp].
  inv_bind_pair H t3 mid E3. inv_bind_pair H t4 mms E4. inv_bind_pair H t5 fd E5. inv_if H Efd.
  inv_bind H flags Ef. inv_bind_pair H t6 sm E6. inv_if H Esm.
  inv_bind_pair H t7 sp E7. destruct (octetstring_from_ber_wfb _ _ _ Hwsp E7) as [Hwspar Hw7].
  inv_bind H u Eu. inv_bind H d Ed. apply Ok_inj in H. subst m.
  unfold v3msg_wf. cbn [m_usm m_data]. split.
  - eapply usm_decode_wf; [|eassumption]; assumption.
  - eapply msgdata_decode_wf; [|eassumption]; assumption.
Qed.

(* The model's [Panic] outcomes at this layer, for the record: the fuel of the
   varbind loops (never exhausted, resp_vars_no_panic / req_vars_no_panic) and the
   index [flags_data[0]] in v3_decode (guarded by the length check). *)

(* ------------------------------------------------------------------ *)
(* Print Assumptions observed for every theorem below: "Closed under the global context"
   resp_vars_no_panic req_vars_no_panic getresponse_decode_no_panic get_decode_no_panic
   getbulk_decode_no_panic pdu_decode_no_panic cmsg_decode_no_panic v1_decode_no_panic
   v2c_decode_no_panic usm_decode_no_panic scoped_decode_no_panic msgdata_decode_no_panic
   v3_decode_no_panic
   cmsg_decode_trailing cmsg_decode_trailing_gen usm_decode_trailing usm_decode_trailing_gen
   v3_decode_trailing v3_decode_trailing_gen v1_decode_trailing v2c_decode_trailing
   getresponse_decode_trailing get_decode_trailing getbulk_decode_trailing
   resp_vars_wf req_vars_wf getresponse_decode_wf get_decode_wf getbulk_decode_wf
   pdu_decode_wf cmsg_decode_wf usm_decode_wf scoped_decode_wf msgdata_decode_wf v3_decode_wf
   int_from_ber_range *)

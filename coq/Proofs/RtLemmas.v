(* General lemmas used by the round-trip proofs: lengths, takez/dropz on a known prefix,
   unsigned / two's complement big-endian values, finite checks over octets. *)
From GS Require Import Model.Base Gen.Constants Model.Ber Spec.X690.
From Coq Require Import ZArith List Bool Lia.
Import ListNotations.
Open Scope Z_scope.
Open Scope bool_scope.

(* ---- inversion of the result monad ---- *)
Lemma bind_ok_inv {A B} (e : res A) (k : A -> res B) v :
  bind e k = Ok v -> exists a, e = Ok a /\ k a = Ok v.
Proof. destruct e as [a| |]; cbn [bind]; intros H; try discriminate. exists a. split; [reflexivity|exact H]. Qed.

Ltac inv_bind H :=
  let a := fresh "a" in let E := fresh "E" in
  apply bind_ok_inv in H; destruct H as (a & E & H).

(* ---- lengths ---- *)
Lemma len_nil : len [] = 0.
Proof. reflexivity. Qed.

Lemma len_cons x l : len (x :: l) = 1 + len l.
Proof. unfold len. cbn [length]. rewrite Nat2Z.inj_succ. lia. Qed.

Lemma len_app a b : len (a ++ b) = len a + len b.
Proof. unfold len. rewrite app_length, Nat2Z.inj_add. reflexivity. Qed.

Lemma len_nonneg l : 0 <= len l.
Proof. unfold len. lia. Qed.

Lemma len_0_nil l : len l = 0 -> l = [].
Proof. destruct l; [reflexivity|]. rewrite len_cons. pose proof (len_nonneg l). lia. Qed.

(* ---- wfb ---- *)
Lemma wfb_nil : wfb [].
Proof. constructor. Qed.

Lemma wfb_cons x l : wfb (x :: l) <-> 0 <= x < 256 /\ wfb l.
Proof.
  unfold wfb. split.
  - intros H. inversion H; subst. split; assumption.
  - intros [H1 H2]. constructor; assumption.
Qed.

Lemma wfb_app a b : wfb (a ++ b) <-> wfb a /\ wfb b.
Proof. unfold wfb. apply Forall_app. Qed.

(* ---- takez / dropz on a known prefix ---- *)
Lemma takez_nonpos n l : n <= 0 -> takez n l = [].
Proof. intros Hn. destruct l as [|x r]; cbn [takez]; [reflexivity|]. destruct (Z.leb_spec n 0); [reflexivity|lia]. Qed.

Lemma dropz_nonpos n l : n <= 0 -> dropz n l = l.
Proof. intros Hn. destruct l as [|x r]; cbn [dropz]; [reflexivity|]. destruct (Z.leb_spec n 0); [reflexivity|lia]. Qed.

Lemma takez_app_len c s : takez (len c) (c ++ s) = c.
Proof.
  induction c as [|x c IH]; cbn [app].
  - apply takez_nonpos. rewrite len_nil. lia.
  - cbn [takez]. rewrite len_cons. pose proof (len_nonneg c) as Hc.
    destruct (Z.leb_spec (1 + len c) 0); [lia|].
    replace (1 + len c - 1) with (len c) by lia. rewrite IH. reflexivity.
Qed.

Lemma dropz_app_len c s : dropz (len c) (c ++ s) = s.
Proof.
  induction c as [|x c IH]; cbn [app].
  - apply dropz_nonpos. rewrite len_nil. lia.
  - cbn [dropz]. rewrite len_cons. pose proof (len_nonneg c) as Hc.
    destruct (Z.leb_spec (1 + len c) 0); [lia|].
    replace (1 + len c - 1) with (len c) by lia. exact IH.
Qed.

Lemma takez_len c : takez (len c) c = c.
Proof. rewrite <- (app_nil_r c) at 2. apply takez_app_len. Qed.

Lemma dropz_len c : dropz (len c) c = [].
Proof. rewrite <- (app_nil_r c) at 2. apply dropz_app_len. Qed.

Lemma takez_firstn n l : 0 <= n -> takez n l = firstn (Z.to_nat n) l.
Proof.
  revert n. induction l as [|x r IH]; intros n Hn; cbn [takez].
  - rewrite firstn_nil. reflexivity.
  - destruct (Z.leb_spec n 0).
    + replace n with 0 by lia. reflexivity.
    + replace (Z.to_nat n) with (S (Z.to_nat (n - 1))) by lia. cbn [firstn]. rewrite IH by lia. reflexivity.
Qed.

Lemma dropz_skipn n l : 0 <= n -> dropz n l = skipn (Z.to_nat n) l.
Proof.
  revert n. induction l as [|x r IH]; intros n Hn; cbn [dropz].
  - rewrite skipn_nil. reflexivity.
  - destruct (Z.leb_spec n 0).
    + replace n with 0 by lia. reflexivity.
    + replace (Z.to_nat n) with (S (Z.to_nat (n - 1))) by lia. cbn [skipn]. rewrite IH by lia. reflexivity.
Qed.

Lemma slice_to_app c s : slice_to (c ++ s) (len c) = Ok c.
Proof.
  unfold slice_to. rewrite len_app. pose proof (len_nonneg c). pose proof (len_nonneg s).
  destruct (Z.ltb_spec (len c) 0); [lia|]. destruct (Z.ltb_spec (len c + len s) (len c)); [lia|].
  cbn [orb]. rewrite takez_app_len. reflexivity.
Qed.

Lemma slice_from_app c s : slice_from (c ++ s) (len c) = Ok s.
Proof.
  unfold slice_from. rewrite len_app. pose proof (len_nonneg c). pose proof (len_nonneg s).
  destruct (Z.ltb_spec (len c) 0); [lia|]. destruct (Z.ltb_spec (len c + len s) (len c)); [lia|].
  cbn [orb]. rewrite dropz_app_len. reflexivity.
Qed.

Lemma slice_to_all c : slice_to c (len c) = Ok c.
Proof. rewrite <- (app_nil_r c) at 1. apply slice_to_app. Qed.

Lemma slice_from_all c : slice_from c (len c) = Ok [].
Proof. rewrite <- (app_nil_r c) at 1. apply slice_from_app. Qed.

(* ---- finite checks over octets ---- *)
Lemma byte_cases (P : Z -> bool) :
  forallb P (map Z.of_nat (seq 0 256)) = true -> forall b, 0 <= b < 256 -> P b = true.
Proof.
  intros H b Hb. rewrite forallb_forall in H. apply H.
  apply in_map_iff. exists (Z.to_nat b). split; [lia|]. apply in_seq. lia.
Qed.

(* ---- unsigned big-endian value ---- *)
Lemma pow256_pos n : 0 < 256 ^ Z.of_nat n.
Proof. apply Z.pow_pos_nonneg; lia. Qed.

Lemma uval_app a b : uval (a ++ b) = uval a * 256 ^ Z.of_nat (length b) + uval b.
Proof.
  induction a as [|x a IH]; cbn [app uval length]; [lia|].
  rewrite IH, app_length, Nat2Z.inj_add, Z.pow_add_r by lia. ring.
Qed.

Lemma uval_snoc a x : uval (a ++ [x]) = uval a * 256 + x.
Proof.
  rewrite uval_app. cbn [uval length]. change (Z.of_nat 1) with 1. change (Z.of_nat 0) with 0.
  rewrite Z.pow_1_r, Z.pow_0_r. ring.
Qed.

Lemma uval_bound bs : wfb bs -> 0 <= uval bs < 256 ^ Z.of_nat (length bs).
Proof.
  induction 1 as [|b r Hb _ IH]; cbn [uval length].
  - change (Z.of_nat 0) with 0. rewrite Z.pow_0_r. lia.
  - rewrite Nat2Z.inj_succ, Z.pow_succ_r by lia. nia.
Qed.

Lemma uval_cons b r : uval (b :: r) = b * 256 ^ Z.of_nat (length r) + uval r.
Proof. reflexivity. Qed.

(* ---- two's complement value ---- *)
Lemma sval_cons b r :
  sval (b :: r) = if b <? 128 then uval (b :: r) else uval (b :: r) - 256 ^ Z.of_nat (length (b :: r)).
Proof. reflexivity. Qed.

Lemma sval_snoc bs x : bs <> [] -> sval (bs ++ [x]) = sval bs * 256 + x.
Proof.
  destruct bs as [|b r]; [congruence|]; intros _.
  assert (Hu : uval ((b :: r) ++ [x]) = uval (b :: r) * 256 + x) by apply uval_snoc.
  assert (Hl : 256 ^ Z.of_nat (length ((b :: r) ++ [x])) = 256 ^ Z.of_nat (length (b :: r)) * 256).
  { rewrite app_length, Nat2Z.inj_add, Z.pow_add_r by lia. reflexivity. }
  unfold sval. change ((b :: r) ++ [x]) with (b :: (r ++ [x])) in *.
  rewrite Hu, Hl. destruct (b <? 128); ring.
Qed.

Lemma sval_bound bs : wfb bs -> bs <> [] ->
  - 2 ^ (8 * len bs - 1) <= sval bs < 2 ^ (8 * len bs - 1).
Proof.
  intros Hw Hne. destruct bs as [|b r]; [congruence|].
  apply wfb_cons in Hw. destruct Hw as [Hb Hr]. pose proof (uval_bound r Hr) as Hu.
  rewrite sval_cons, uval_cons. rewrite len_cons. unfold len. cbn [length]. rewrite Nat2Z.inj_succ.
  set (n := Z.of_nat (length r)) in *. assert (Hn : 0 <= n) by lia.
  replace (8 * (1 + n) - 1) with (7 + 8 * n) by lia.
  rewrite Z.pow_add_r by lia. rewrite Z.pow_succ_r by lia.
  replace (2 ^ (8 * n)) with (256 ^ n) by (change 256 with (2 ^ 8); rewrite <- Z.pow_mul_r by lia; reflexivity).
  change (2 ^ 7) with 128. pose proof (Z.pow_pos_nonneg 256 n ltac:(lia) Hn).
  destruct (Z.ltb_spec b 128); nia.
Qed.

(* ---- a pure power fact ---- *)
Lemma pow256_as_2 n : 0 <= n -> 256 ^ n = 2 ^ (8 * n).
Proof. intros Hn. change 256 with (2 ^ 8). rewrite <- Z.pow_mul_r by lia. reflexivity. Qed.

(* BER element decoders (Model.Ber): locality, framing (app / rest), totality,
   relative OID normalisation, well-formedness of decoded values. *)
From GS Require Import Model.Base Gen.Constants Model.Ber Proofs.BaseLemmas Proofs.HeaderProofs.
From Coq Require Import ZArith List Bool Lia.
Import ListNotations.
Open Scope Z_scope.

Ltac beta_goal := cbv beta iota zeta.

Lemma len_ge_length : forall (l : bytes) k, Z.of_nat k < len l -> (k < length l)%nat.
Proof. intros l k H. unfold len in H. lia. Qed.

(* ------------------------------------------------------------------ *)
(** * (B) Locality of the element decoders *)

Definition decodes_locally {A} (d : bytes -> hdr -> res A) : Prop :=
  forall c s h, 0 <= h_length h <= len c -> d (c ++ s) h = d c h.

Lemma decode_bool_local : decodes_locally decode_bool.
Proof.
  intros c s h H. unfold decode_bool. destruct (h_length h =? 1) eqn:E; cbn [negb]; [|reflexivity].
  apply Z.eqb_eq in E. rewrite idx_app by (apply len_ge_length; cbn; lia). reflexivity.
Qed.

Lemma decode_null_local : decodes_locally decode_null.
Proof. intros c s h H. reflexivity. Qed.

Lemma decode_int_local : decodes_locally decode_int.
Proof.
  intros c s h H. unfold decode_int. destruct (h_length h =? 0) eqn:E; [reflexivity|].
  apply Z.eqb_neq in E. rewrite takez_app by lia.
  rewrite idx_app by (apply len_ge_length; cbn; lia). reflexivity.
Qed.

Lemma decode_u32_local : decodes_locally decode_u32.
Proof. intros c s h H. unfold decode_u32. rewrite takez_app by lia. reflexivity. Qed.

Lemma decode_u64_local : decodes_locally decode_u64.
Proof. intros c s h H. unfold decode_u64. rewrite takez_app by lia. reflexivity. Qed.

Lemma decode_slice_local : decodes_locally decode_slice.
Proof. intros c s h H. unfold decode_slice. apply slice_to_app. assumption. Qed.

Lemma decode_ip_local : decodes_locally decode_ip.
Proof.
  intros c s h H. unfold decode_ip. destruct (h_length h =? 4) eqn:E; cbn [negb]; [|reflexivity].
  apply Z.eqb_eq in E.
  rewrite !idx_app by (apply len_ge_length; cbn; lia). reflexivity.
Qed.

Lemma decode_real_local : decodes_locally decode_real.
Proof.
  intros c s h H. unfold decode_real. destruct (h_length h =? 0); [reflexivity|].
  rewrite slice_to_app by assumption. reflexivity.
Qed.

(* ------------------------------------------------------------------ *)
(** * from_ber: inversion, framing *)

Lemma from_ber_inv : forall A tag p k (d : bytes -> hdr -> res A) x rest v,
  from_ber tag p k d x = Ok (rest, v) ->
  exists c h, parse_header x = Ok (c, h) /\ 0 <= h_length h <= len c /\
              rest = dropz (h_length h) c /\ d c h = Ok v /\ h_tag h = tag /\
              (h_constructed h = true -> k = true) /\ (h_constructed h = false -> p = true).
Proof.
  intros A tag p k d x rest v H. unfold from_ber in H.
  destruct (len x <? 2); [discriminate H|].
  destruct (parse_header x) as [[c h]| |] eqn:Ep; cbn [bind] in H; try discriminate H.
  destruct (negb (h_tag h =? tag) || (h_constructed h && negb k) || (negb (h_constructed h) && negb p)) eqn:Ec;
    [discriminate H|].
  destruct (slice_from c (h_length h)) as [r| |] eqn:Es; cbn [bind] in H; try discriminate H.
  destruct (d c h) as [v'| |] eqn:Ed; cbn [bind] in H; try discriminate H.
  inversion H; subst. apply slice_from_inv in Es. destruct Es as [Hn ->].
  assert (h_tag h = tag /\ (h_constructed h = true -> k = true) /\ (h_constructed h = false -> p = true)) as Hc.
  { destruct (h_tag h =? tag) eqn:Et; [apply Z.eqb_eq in Et|discriminate Ec].
    split; [assumption|]. cbn [negb orb] in Ec.
    split; intros Hc; rewrite Hc in Ec; [destruct k|destruct p]; try reflexivity; discriminate Ec. }
  exists c, h. split; [reflexivity|]. split; [assumption|]. split; [reflexivity|]. split; [assumption|]. exact Hc.
Qed.

(* B.6 without the (unneeded) [wfb] hypothesis *)
Lemma from_ber_app_gen : forall A tag p k (d : bytes -> hdr -> res A) x s rest v,
  decodes_locally d -> from_ber tag p k d x = Ok (rest, v) ->
  from_ber tag p k d (x ++ s) = Ok (rest ++ s, v).
Proof.
  intros A tag p k d x s rest v Hd H. unfold from_ber in *.
  destruct (len x <? 2) eqn:E2; [discriminate H|]. apply Z.ltb_ge in E2.
  assert (len (x ++ s) <? 2 = false) as ->.
  { apply Z.ltb_ge. rewrite len_app. pose proof (len_nonneg s). lia. }
  destruct (parse_header x) as [[c h]| |] eqn:Ep; cbn [bind] in H; try discriminate H.
  rewrite (parse_header_app _ s _ _ Ep). cbn [bind].
  destruct (negb (h_tag h =? tag) || (h_constructed h && negb k) || (negb (h_constructed h) && negb p));
    [discriminate H|].
  destruct (slice_from c (h_length h)) as [r| |] eqn:Es; cbn [bind] in H; try discriminate H.
  apply slice_from_inv in Es. destruct Es as [Hn ->].
  rewrite slice_from_app by assumption. cbn [bind]. rewrite Hd by assumption.
  destruct (d c h) as [v'| |]; cbn [bind] in *; try discriminate H.
  inversion H; subst. reflexivity.
Qed.

(* B.6 *)
Theorem from_ber_app : forall A tag p k (d : bytes -> hdr -> res A) x s rest v,
  decodes_locally d -> wfb x -> from_ber tag p k d x = Ok (rest, v) ->
  from_ber tag p k d (x ++ s) = Ok (rest ++ s, v).
Proof. intros A tag p k d x s rest v Hd _ H. apply from_ber_app_gen; assumption. Qed.

Lemma from_ber_rest_gen : forall A tag p k (d : bytes -> hdr -> res A) x rest v,
  from_ber tag p k d x = Ok (rest, v) ->
  len rest + 2 <= len x /\ exists used, x = used ++ rest.
Proof.
  intros A tag p k d x rest v H. apply from_ber_inv in H.
  destruct H as (c & h & Hp & Hn & -> & _).
  apply parse_header_suffix in Hp. destruct Hp as (_ & Hlen & pre & -> & _).
  split.
  - pose proof (len_dropz_le (h_length h) c). lia.
  - exists (pre ++ takez (h_length h) c). rewrite <- app_assoc, takez_dropz. reflexivity.
Qed.

(* B.7 *)
Theorem from_ber_rest : forall A tag p k (d : bytes -> hdr -> res A) x rest v,
  wfb x -> from_ber tag p k d x = Ok (rest, v) ->
  wfb rest /\ len rest + 2 <= len x /\ exists used, x = used ++ rest.
Proof.
  intros A tag p k d x rest v Hw H. apply from_ber_rest_gen in H.
  destruct H as (Hlen & used & Hu). split; [|split; [assumption|eauto]].
  rewrite Hu in Hw. eapply wfb_app_r; eassumption.
Qed.

(* ------------------------------------------------------------------ *)
(** * value_from_ber *)

(* the tag dispatch of SnmpValue::from_ber as a decoder of the content octets *)
Definition value_decode (tail : bytes) (h : hdr) : res value :=
  if h_constructed h then Err UnsupportedTag else
  let t := h_tag h in
  if h_class h =? 0 then
    if t =? TAG_BOOL then b <- decode_bool tail h ;; Ok (VBool b)
    else if t =? TAG_INT then z <- decode_int tail h ;; Ok (VInt z)
    else if t =? TAG_OCTET_STRING then b <- decode_slice tail h ;; Ok (VOctetString b)
    else if t =? TAG_NULL then _ <- decode_null tail h ;; Ok VNull
    else if t =? TAG_OBJECT_ID then b <- decode_slice tail h ;; Ok (VOid b)
    else if t =? TAG_OBJECT_DESCRIPTOR then b <- decode_slice tail h ;; Ok (VObjectDescriptor b)
    else if t =? TAG_REAL then r <- decode_real tail h ;; Ok (VReal r)
    else Err UnsupportedTag
  else if h_class h =? 1 then
    if t =? TAG_APP_IPADDRESS then '(abc, d) <- decode_ip tail h ;;
                                   let '(ab, c) := abc in let '(a, b) := ab in Ok (VIpAddress a b c d)
    else if t =? TAG_APP_COUNTER32 then z <- decode_u32 tail h ;; Ok (VCounter32 z)
    else if t =? TAG_APP_GAUGE32 then z <- decode_u32 tail h ;; Ok (VGauge32 z)
    else if t =? TAG_APP_TIMETICKS then z <- decode_u32 tail h ;; Ok (VTimeTicks z)
    else if t =? TAG_APP_OPAQUE then b <- decode_slice tail h ;; Ok (VOpaque b)
    else if t =? TAG_APP_COUNTER64 then z <- decode_u64 tail h ;; Ok (VCounter64 z)
    else if t =? TAG_APP_UINTEGER32 then z <- decode_u32 tail h ;; Ok (VUInteger32 z)
    else Err UnsupportedTag
  else if h_class h =? 2 then
    if t =? TAG_CTX_NO_SUCH_OBJECT then Ok VNoSuchObject
    else if t =? TAG_CTX_NO_SUCH_INSTANCE then Ok VNoSuchInstance
    else if t =? TAG_CTX_END_OF_MIB_VIEW then Ok VEndOfMibView
    else Err UnsupportedTag
  else Err UnsupportedTag.

Lemma value_from_ber_unfold : forall i,
  value_from_ber i =
  ('(tail, h) <- parse_header i ;;
   v <- value_decode tail h ;;
   rest <- slice_from tail (h_length h) ;;
   Ok (rest, v)).
Proof. reflexivity. Qed.

Lemma value_decode_local : decodes_locally value_decode.
Proof.
  intros c s h H. unfold value_decode.
  rewrite (decode_bool_local c s h H), (decode_int_local c s h H), (decode_slice_local c s h H),
          (decode_null_local c s h H), (decode_real_local c s h H), (decode_ip_local c s h H),
          (decode_u32_local c s h H), (decode_u64_local c s h H).
  reflexivity.
Qed.

Lemma value_from_ber_inv : forall x rest v, value_from_ber x = Ok (rest, v) ->
  exists c h, parse_header x = Ok (c, h) /\ 0 <= h_length h <= len c /\
              rest = dropz (h_length h) c /\ value_decode c h = Ok v.
Proof.
  intros x rest v H. rewrite value_from_ber_unfold in H.
  destruct (parse_header x) as [[c h]| |] eqn:Ep; cbn [bind] in H; try discriminate H.
  destruct (value_decode c h) as [v'| |] eqn:Ed; cbn [bind] in H; try discriminate H.
  destruct (slice_from c (h_length h)) as [r| |] eqn:Es; cbn [bind] in H; try discriminate H.
  inversion H; subst. apply slice_from_inv in Es. destruct Es as [Hn ->].
  exists c, h. repeat split; try assumption; lia.
Qed.

Lemma value_from_ber_app_gen : forall x s rest v,
  value_from_ber x = Ok (rest, v) -> value_from_ber (x ++ s) = Ok (rest ++ s, v).
Proof.
  intros x s rest v H. apply value_from_ber_inv in H.
  destruct H as (c & h & Hp & Hn & -> & Hd).
  rewrite value_from_ber_unfold. rewrite (parse_header_app _ s _ _ Hp). cbn [bind].
  rewrite value_decode_local by assumption. rewrite Hd. cbn [bind].
  rewrite slice_from_app by assumption. reflexivity.
Qed.

(* B.8 *)
Theorem value_from_ber_app : forall x s rest v, wfb x ->
  value_from_ber x = Ok (rest, v) -> value_from_ber (x ++ s) = Ok (rest ++ s, v).
Proof. intros x s rest v _ H. apply value_from_ber_app_gen. assumption. Qed.

Lemma value_from_ber_rest_gen : forall x rest v, value_from_ber x = Ok (rest, v) ->
  len rest + 2 <= len x /\ exists used, x = used ++ rest.
Proof.
  intros x rest v H. apply value_from_ber_inv in H.
  destruct H as (c & h & Hp & Hn & -> & _).
  apply parse_header_suffix in Hp. destruct Hp as (_ & Hlen & pre & -> & _).
  split.
  - pose proof (len_dropz_le (h_length h) c). lia.
  - exists (pre ++ takez (h_length h) c). rewrite <- app_assoc, takez_dropz. reflexivity.
Qed.

Theorem value_from_ber_rest : forall x rest v, wfb x -> value_from_ber x = Ok (rest, v) ->
  wfb rest /\ len rest + 2 <= len x /\ exists used, x = used ++ rest.
Proof.
  intros x rest v Hw H. apply value_from_ber_rest_gen in H.
  destruct H as (Hlen & used & Hu). split; [|split; [assumption|eauto]].
  rewrite Hu in Hw. eapply wfb_app_r; eassumption.
Qed.

(* ------------------------------------------------------------------ *)
(** * option_from_ber *)

Lemma option_from_ber_inv : forall x rest t v, option_from_ber x = Ok (rest, (t, v)) ->
  exists c h, parse_header x = Ok (c, h) /\ 0 <= h_length h <= len c /\ 3 <= len x /\
              rest = dropz (h_length h) c /\ v = takez (h_length h) c /\ t = h_tag h /\
              h_constructed h = true /\ (h_class h = 2 \/ h_class h = 0).
Proof.
  intros x rest t v H. unfold option_from_ber in H.
  destruct (len x <? 3) eqn:E3; [discriminate H|]. apply Z.ltb_ge in E3.
  destruct (parse_header x) as [[c h]| |] eqn:Ep; cbn [bind] in H; try discriminate H.
  destruct (negb (h_constructed h) || (negb (h_class h =? 2) && negb (h_class h =? 0))) eqn:Ec;
    [discriminate H|].
  destruct (slice_from c (h_length h)) as [r| |] eqn:Es; cbn [bind] in H; try discriminate H.
  destruct (slice_to c (h_length h)) as [w| |] eqn:Et; cbn [bind] in H; try discriminate H.
  inversion H; subst. apply slice_from_inv in Es. destruct Es as [Hn ->].
  apply slice_to_inv in Et. destruct Et as [_ ->].
  apply orb_false_elim in Ec. destruct Ec as [Ec1 Ec2].
  apply negb_false_iff in Ec1.
  assert (h_class h = 2 \/ h_class h = 0) as Hcl.
  { destruct (h_class h =? 2) eqn:E2; [left; apply Z.eqb_eq; assumption|].
    destruct (h_class h =? 0) eqn:E0; [right; apply Z.eqb_eq; assumption|discriminate Ec2]. }
  exists c, h. repeat (split; [first [reflexivity|assumption]|]). exact Hcl.
Qed.

Lemma option_from_ber_app_gen : forall x s rest v,
  option_from_ber x = Ok (rest, v) -> option_from_ber (x ++ s) = Ok (rest ++ s, v).
Proof.
  intros x s rest [t v] H. pose proof H as H'. apply option_from_ber_inv in H'.
  destruct H' as (c & h & Hp & Hn & H3 & -> & -> & -> & Hc & Hcl).
  unfold option_from_ber in *.
  assert (len (x ++ s) <? 3 = false) as ->.
  { apply Z.ltb_ge. rewrite len_app. pose proof (len_nonneg s). lia. }
  destruct (len x <? 3); [discriminate H|].
  rewrite (parse_header_app _ s _ _ Hp). rewrite Hp in H. cbn [bind] in *.
  destruct (negb (h_constructed h) || (negb (h_class h =? 2) && negb (h_class h =? 0)));
    [discriminate H|].
  rewrite slice_from_app by assumption. cbn [bind].
  rewrite slice_to_app by assumption. rewrite slice_to_ok by assumption. reflexivity.
Qed.

Theorem option_from_ber_app : forall x s rest v, wfb x ->
  option_from_ber x = Ok (rest, v) -> option_from_ber (x ++ s) = Ok (rest ++ s, v).
Proof. intros x s rest v _ H. apply option_from_ber_app_gen. assumption. Qed.

Lemma option_from_ber_rest_gen : forall x rest v, option_from_ber x = Ok (rest, v) ->
  len rest + 2 <= len x /\ exists used, x = used ++ rest.
Proof.
  intros x rest [t v] H. apply option_from_ber_inv in H.
  destruct H as (c & h & Hp & Hn & _ & -> & _).
  apply parse_header_suffix in Hp. destruct Hp as (_ & Hlen & pre & -> & _).
  split.
  - pose proof (len_dropz_le (h_length h) c). lia.
  - exists (pre ++ takez (h_length h) c). rewrite <- app_assoc, takez_dropz. reflexivity.
Qed.

Theorem option_from_ber_rest : forall x rest v, wfb x -> option_from_ber x = Ok (rest, v) ->
  wfb rest /\ len rest + 2 <= len x /\ exists used, x = used ++ rest.
Proof.
  intros x rest v Hw H. apply option_from_ber_rest_gen in H.
  destruct H as (Hlen & used & Hu). split; [|split; [assumption|eauto]].
  rewrite Hu in Hw. eapply wfb_app_r; eassumption.
Qed.

(* ------------------------------------------------------------------ *)
(** * (B.9) Totality: no Rust panic is reachable *)

(* Core statements: the decoders do not panic when the declared length fits the
   content (which is what parse_header guarantees). *)

Lemma decode_bool_no_panic_fit : forall c h, 0 <= h_length h <= len c -> decode_bool c h <> Panic.
Proof.
  intros c h H. unfold decode_bool. destruct (h_length h =? 1) eqn:E; cbn [negb]; [|discriminate].
  apply Z.eqb_eq in E. apply bind_no_panic; [|discriminate].
  apply idx_no_panic. apply len_ge_length. cbn. lia.
Qed.

Lemma decode_null_no_panic_fit : forall c h, decode_null c h <> Panic.
Proof. intros c h. unfold decode_null. destruct (negb (h_length h =? 0)); discriminate. Qed.

Lemma decode_int_no_panic_fit : forall c h, 0 <= h_length h <= len c -> decode_int c h <> Panic.
Proof.
  intros c h H. unfold decode_int. destruct (h_length h =? 0) eqn:E; [discriminate|].
  apply Z.eqb_neq in E. apply bind_no_panic.
  - apply idx_no_panic. apply len_ge_length. cbn. lia.
  - intros b0 _. destruct ((Z.land b0 128 =? 0) || (8 <=? h_length h)); discriminate.
Qed.

Lemma decode_u32_no_panic_fit : forall c h, decode_u32 c h <> Panic.
Proof. intros c h. discriminate. Qed.

Lemma decode_u64_no_panic_fit : forall c h, decode_u64 c h <> Panic.
Proof. intros c h. discriminate. Qed.

Lemma decode_slice_no_panic_fit : forall c h, 0 <= h_length h <= len c -> decode_slice c h <> Panic.
Proof. intros c h H. unfold decode_slice. apply slice_to_no_panic. assumption. Qed.

Lemma decode_ip_no_panic_fit : forall c h, 0 <= h_length h <= len c -> decode_ip c h <> Panic.
Proof.
  intros c h H. unfold decode_ip. destruct (h_length h =? 4) eqn:E; cbn [negb]; [|discriminate].
  apply Z.eqb_eq in E.
  repeat (apply bind_no_panic; [apply idx_no_panic; apply len_ge_length; cbn; lia|intros ? _]).
  discriminate.
Qed.

(* REAL: the exponent index [i[e_start]] is in range because the guard
   [len i < e_end] has been passed with [e_len >= 1]; for the long exponent form
   this uses that the exponent-length octet is a real octet (>= 0). *)
Lemma decode_real_no_panic_fit : forall c h, wfb c -> 0 <= h_length h <= len c -> decode_real c h <> Panic.
Proof.
  intros c h Hw H. unfold decode_real. destruct (h_length h =? 0) eqn:E; [discriminate|].
  apply Z.eqb_neq in E. rewrite slice_to_ok by assumption. cbn [bind].
  assert (len (takez (h_length h) c) = h_length h) as Hl by (apply len_takez; assumption).
  assert (wfb (takez (h_length h) c)) as Hwi by (apply wfb_takez; assumption).
  remember (takez (h_length h) c) as i eqn:Hi. clear Hi.
  destruct i as [|f r]; [rewrite len_nil in Hl; lia|].
  rewrite idx_0_cons. cbn [bind].
  destruct (testbit f 128).
  - apply bind_no_panic.
    + destruct (Z.land f 3 =? 3); [|discriminate]. destruct (nth_error (f :: r) 1); discriminate.
    + intros [e_start e_len] Hes. beta_goal.
      destruct ((e_len =? 0) || (len (f :: r) <? e_start + e_len) || (16 <? len (f :: r) - (e_start + e_len))) eqn:G;
        [discriminate|].
      apply orb_false_elim in G. destruct G as [G _]. apply orb_false_elim in G. destruct G as [G0 G1].
      apply Z.eqb_neq in G0. apply Z.ltb_ge in G1.
      assert (0 <= e_start /\ e_start < len (f :: r)) as Hs.
      { destruct (Z.land f 3 =? 3).
        - destruct (nth_error (f :: r) 1) as [b|] eqn:Eb; [|discriminate Hes].
          inversion Hes; subst. pose proof (wfb_nth_error _ _ _ Hwi Eb). lia.
        - inversion Hes; subst. pose proof (land_3_range f). lia. }
      apply bind_no_panic.
      * apply idx_no_panic. apply len_ge_length. lia.
      * intros e0 _.
        destruct (negb ((Z.land f 48 =? 0) || (Z.land f 48 =? 16) || (Z.land f 48 =? 32))); discriminate.
  - destruct (Z.land f 192 =? 0).
    + beta_goal. destruct (Z.land f 63 =? 1).
      * destruct (parse_i32 (dropz 1 (f :: r))); discriminate.
      * destruct ((Z.land f 63 =? 2) || (Z.land f 63 =? 3)); [|discriminate].
        destruct (is_rust_float (dropz 1 (f :: r))); discriminate.
    + destruct (f =? 64); [discriminate|]. destruct (f =? 65); [discriminate|].
      destruct (f =? 66); [discriminate|]. destruct (f =? 67); discriminate.
Qed.

(* Requested form: "as the library calls it", i.e. on the content and header
   returned by parse_header on real octets. *)
Lemma parse_header_fit : forall i c h, wfb i -> parse_header i = Ok (c, h) ->
  0 <= h_length h <= len c /\ wfb c.
Proof. intros i c h Hw Hp. destruct (parse_header_fits i c h Hw Hp) as (H1 & H2 & _). split; assumption. Qed.

Theorem decode_bool_no_panic : forall i c h, wfb i -> parse_header i = Ok (c, h) -> decode_bool c h <> Panic.
Proof. intros i c h Hw Hp. apply decode_bool_no_panic_fit. eapply parse_header_fit; eassumption. Qed.

Theorem decode_null_no_panic : forall i c h, wfb i -> parse_header i = Ok (c, h) -> decode_null c h <> Panic.
Proof. intros i c h _ _. apply decode_null_no_panic_fit. Qed.

Theorem decode_int_no_panic : forall i c h, wfb i -> parse_header i = Ok (c, h) -> decode_int c h <> Panic.
Proof. intros i c h Hw Hp. apply decode_int_no_panic_fit. eapply parse_header_fit; eassumption. Qed.

Theorem decode_u32_no_panic : forall i c h, wfb i -> parse_header i = Ok (c, h) -> decode_u32 c h <> Panic.
Proof. intros i c h _ _. apply decode_u32_no_panic_fit. Qed.

Theorem decode_u64_no_panic : forall i c h, wfb i -> parse_header i = Ok (c, h) -> decode_u64 c h <> Panic.
Proof. intros i c h _ _. apply decode_u64_no_panic_fit. Qed.

Theorem decode_slice_no_panic : forall i c h, wfb i -> parse_header i = Ok (c, h) -> decode_slice c h <> Panic.
Proof. intros i c h Hw Hp. apply decode_slice_no_panic_fit. eapply parse_header_fit; eassumption. Qed.

Theorem decode_ip_no_panic : forall i c h, wfb i -> parse_header i = Ok (c, h) -> decode_ip c h <> Panic.
Proof. intros i c h Hw Hp. apply decode_ip_no_panic_fit. eapply parse_header_fit; eassumption. Qed.

Theorem decode_real_no_panic : forall i c h, wfb i -> parse_header i = Ok (c, h) -> decode_real c h <> Panic.
Proof.
  intros i c h Hw Hp. destruct (parse_header_fit i c h Hw Hp) as [Hn Hwc].
  apply decode_real_no_panic_fit; assumption.
Qed.

(* [wfb] cannot be dropped: on a "negative octet" the short-form length is negative
   and the slice panics; and the REAL exponent index can run past the content. *)
Example from_ber_panics_without_wfb : from_ber 4 true false decode_slice [4; -256] = Panic.
Proof. vm_compute. reflexivity. Qed.

Example decode_real_panics_without_wfb :
  decode_real [131; -5] {| h_class := 0; h_constructed := false; h_tag := 9; h_length := 2 |} = Panic.
Proof. vm_compute. reflexivity. Qed.

Theorem from_ber_no_panic : forall A tag p k (d : bytes -> hdr -> res A) i,
  (forall c h, 0 <= h_length h <= len c -> wfb c -> d c h <> Panic) ->
  wfb i -> from_ber tag p k d i <> Panic.
Proof.
  intros A tag p k d i Hd Hw. unfold from_ber. destruct (len i <? 2); [discriminate|].
  apply bind_no_panic; [apply parse_header_no_panic|].
  intros [c h] Hp. beta_goal. destruct (parse_header_fits i c h Hw Hp) as (Hn & Hwc & _).
  destruct (negb (h_tag h =? tag) || (h_constructed h && negb k) || (negb (h_constructed h) && negb p));
    [discriminate|].
  apply bind_no_panic; [apply slice_from_no_panic; assumption|]. intros rest _.
  apply bind_no_panic; [apply Hd; assumption|]. intros v _. discriminate.
Qed.

Ltac fb_np lem :=
  intros i Hw; apply from_ber_no_panic; [intros c h Hn Hwc; apply lem; assumption|assumption].

Theorem int_from_ber_no_panic : forall i, wfb i -> int_from_ber i <> Panic.
Proof. fb_np decode_int_no_panic_fit. Qed.
Theorem null_from_ber_no_panic : forall i, wfb i -> null_from_ber i <> Panic.
Proof. fb_np decode_null_no_panic_fit. Qed.
Theorem oid_from_ber_no_panic : forall i, wfb i -> oid_from_ber i <> Panic.
Proof. fb_np decode_slice_no_panic_fit. Qed.
Theorem octetstring_from_ber_no_panic : forall i, wfb i -> octetstring_from_ber i <> Panic.
Proof. fb_np decode_slice_no_panic_fit. Qed.
Theorem reloid_from_ber_no_panic : forall i, wfb i -> reloid_from_ber i <> Panic.
Proof. fb_np decode_slice_no_panic_fit. Qed.
Theorem sequence_from_ber_no_panic : forall i, wfb i -> sequence_from_ber i <> Panic.
Proof. fb_np decode_slice_no_panic_fit. Qed.
Theorem bool_from_ber_no_panic : forall i, wfb i -> bool_from_ber i <> Panic.
Proof. fb_np decode_bool_no_panic_fit. Qed.
Theorem real_from_ber_no_panic : forall i, wfb i -> real_from_ber i <> Panic.
Proof. fb_np decode_real_no_panic_fit. Qed.
Theorem ip_from_ber_no_panic : forall i, wfb i -> ip_from_ber i <> Panic.
Proof. fb_np decode_ip_no_panic_fit. Qed.
Theorem counter32_from_ber_no_panic : forall i, wfb i -> counter32_from_ber i <> Panic.
Proof. fb_np decode_u32_no_panic_fit. Qed.
Theorem gauge32_from_ber_no_panic : forall i, wfb i -> gauge32_from_ber i <> Panic.
Proof. fb_np decode_u32_no_panic_fit. Qed.
Theorem timeticks_from_ber_no_panic : forall i, wfb i -> timeticks_from_ber i <> Panic.
Proof. fb_np decode_u32_no_panic_fit. Qed.
Theorem uinteger32_from_ber_no_panic : forall i, wfb i -> uinteger32_from_ber i <> Panic.
Proof. fb_np decode_u32_no_panic_fit. Qed.
Theorem counter64_from_ber_no_panic : forall i, wfb i -> counter64_from_ber i <> Panic.
Proof. fb_np decode_u64_no_panic_fit. Qed.
Theorem opaque_from_ber_no_panic : forall i, wfb i -> opaque_from_ber i <> Panic.
Proof. fb_np decode_slice_no_panic_fit. Qed.
Theorem objectdescriptor_from_ber_no_panic : forall i, wfb i -> objectdescriptor_from_ber i <> Panic.
Proof. fb_np decode_slice_no_panic_fit. Qed.

Lemma value_decode_no_panic_fit : forall c h, wfb c -> 0 <= h_length h <= len c -> value_decode c h <> Panic.
Proof.
  intros c h Hw Hn. unfold value_decode. beta_goal.
  pose proof (decode_bool_no_panic_fit c h Hn) as Hbool.
  pose proof (decode_null_no_panic_fit c h) as Hnull.
  pose proof (decode_int_no_panic_fit c h Hn) as Hint.
  pose proof (decode_slice_no_panic_fit c h Hn) as Hslice.
  pose proof (decode_ip_no_panic_fit c h Hn) as Hip.
  pose proof (decode_real_no_panic_fit c h Hw Hn) as Hreal.
  repeat match goal with
  | |- (if ?b then _ else _) <> Panic => destruct b
  | |- Err _ <> Panic => discriminate
  | |- Ok _ <> Panic => discriminate
  | |- bind _ _ <> Panic => apply bind_no_panic; [first [assumption|discriminate]|intros ? _; beta_goal]
  | |- (let '(_, _) := ?x in _) <> Panic => destruct x
  end.
Qed.

Theorem value_from_ber_no_panic : forall i, wfb i -> value_from_ber i <> Panic.
Proof.
  intros i Hw. rewrite value_from_ber_unfold.
  apply bind_no_panic; [apply parse_header_no_panic|].
  intros [c h] Hp. beta_goal. destruct (parse_header_fits i c h Hw Hp) as (Hn & Hwc & _).
  apply bind_no_panic; [apply value_decode_no_panic_fit; assumption|]. intros v _.
  apply bind_no_panic; [apply slice_from_no_panic; assumption|]. intros rest _. discriminate.
Qed.

Theorem option_from_ber_no_panic : forall i, wfb i -> option_from_ber i <> Panic.
Proof.
  intros i Hw. unfold option_from_ber. destruct (len i <? 3); [discriminate|].
  apply bind_no_panic; [apply parse_header_no_panic|].
  intros [c h] Hp. beta_goal. destruct (parse_header_fits i c h Hw Hp) as (Hn & Hwc & _).
  destruct (negb (h_constructed h) || (negb (h_class h =? 2) && negb (h_class h =? 0))); [discriminate|].
  apply bind_no_panic; [apply slice_from_no_panic; assumption|]. intros rest _.
  apply bind_no_panic; [apply slice_to_no_panic; assumption|]. intros v _. discriminate.
Qed.

(* ------------------------------------------------------------------ *)
(** * (B.10) Relative OID normalisation *)

Lemma find_sub_range : forall d total left start offset o,
  0 <= start -> 0 <= offset -> find_sub d total left start offset = Some o -> 0 <= o < total.
Proof.
  induction d as [|c r IH]; intros total left start offset o Hs Ho H; cbn [find_sub] in H; [discriminate H|].
  destruct (left =? 0).
  - destruct (start <? total) eqn:E; [|discriminate H]. apply Z.ltb_lt in E. inversion H; subst. lia.
  - destruct (Z.land c 128 =? 0); refine (IH _ _ _ _ _ _ _ H); lia.
Qed.

Lemma find_subelement_range : forall d n o, find_subelement d n = Some o -> 0 <= o < len d.
Proof. intros d n o H. unfold find_subelement in H. eapply find_sub_range; try eassumption; lia. Qed.

Lemma slice_from_1_cons : forall a l, slice_from (a :: l) 1 = Ok l.
Proof.
  intros a l. pose proof (len_nonneg l). rewrite slice_from_ok by (rewrite len_cons; lia).
  rewrite dropz_cons_pos by lia. rewrite dropz_nonpos by lia. reflexivity.
Qed.

Lemma slice_from_2_cons : forall a b l, slice_from (a :: b :: l) 2 = Ok l.
Proof.
  intros a b l. pose proof (len_nonneg l). rewrite slice_from_ok by (rewrite !len_cons; lia).
  rewrite dropz_cons_pos by lia. rewrite dropz_cons_pos by lia. rewrite dropz_nonpos by lia. reflexivity.
Qed.

(* The three possible outcomes of try_normalize on a non-empty base OID. *)
Lemma try_normalize_cases : forall rel a0 oid1,
  try_normalize rel (a0 :: oid1) = Err InvalidData \/
  (exists n, 0 <= n <= len (a0 :: oid1) /\
             try_normalize rel (a0 :: oid1) = Ok (takez n (a0 :: oid1) ++ rel)) \/
  (exists a b r2, rel = a :: b :: r2 /\ a * 40 + b <= 255 /\
                  try_normalize rel (a0 :: oid1) = Ok ((a * 40 + b) :: r2)).
Proof.
  intros rel a0 oid1. unfold try_normalize. beta_goal.
  match goal with |- context [if ?g then Err InvalidData else _] => destruct g eqn:G end;
    [left; reflexivity|right].
  unfold normalize. rewrite slice_from_1_cons. cbn [bind]. beta_goal.
  destruct (subelements rel <? subelements oid1 + 2 - 2) eqn:C.
  - left.
    match goal with |- context [slice_to _ ?o] => set (offset := o) end.
    assert (0 <= offset <= len (a0 :: oid1)) as Ho.
    { subst offset. rewrite len_cons. pose proof (len_nonneg oid1).
      destruct (find_subelement oid1 (subelements oid1 + 2 - subelements rel - 2)) as [o|] eqn:F; [|lia].
      apply find_subelement_range in F. lia. }
    exists offset. split; [assumption|]. rewrite slice_to_ok by assumption. reflexivity.
  - right. apply Z.ltb_ge in C.
    assert (subelements oid1 <=? subelements rel = true) as Hle by (apply Z.leb_le; lia).
    rewrite Hle in G. cbn [andb] in G. apply orb_false_elim in G. destruct G as [G1 G2].
    destruct rel as [|a [|b r2]]; try discriminate G2.
    apply Z.ltb_ge in G2. exists a, b, r2. split; [reflexivity|]. split; [assumption|].
    assert (len (a :: b :: r2) <? 1 = false) as ->.
    { apply Z.ltb_ge. rewrite !len_cons. pose proof (len_nonneg r2). lia. }
    rewrite idx_0_cons. cbn [bind]. rewrite idx_S_cons, idx_0_cons. cbn [bind].
    assert (255 <? a * 40 + b = false) as -> by (apply Z.ltb_ge; assumption).
    rewrite slice_from_2_cons. reflexivity.
Qed.

(* The guard of try_normalize is sufficient even without [wfb] *)
Lemma try_normalize_no_panic_gen : forall rel oid, try_normalize rel oid <> Panic.
Proof.
  intros rel [|a0 oid1]; [discriminate|].
  destruct (try_normalize_cases rel a0 oid1) as [H|[(n & _ & H)|(a & b & r2 & _ & _ & H)]];
    rewrite H; discriminate.
Qed.

Theorem try_normalize_no_panic : forall rel oid, wfb rel -> wfb oid -> try_normalize rel oid <> Panic.
Proof. intros rel oid _ _. apply try_normalize_no_panic_gen. Qed.

(* whereas normalize alone can panic *)
Example normalize_can_panic : normalize [] [43] = Panic /\ normalize [7; 200] [43] = Panic.
Proof. split; vm_compute; reflexivity. Qed.

Theorem try_normalize_wfb : forall rel oid r, wfb rel -> wfb oid ->
  try_normalize rel oid = Ok r -> wfb r.
Proof.
  intros rel [|a0 oid1] r Hr Ho H; [discriminate H|].
  destruct (try_normalize_cases rel a0 oid1) as [E|[(n & _ & E)|(a & b & r2 & Hrel & Hab & E)]];
    rewrite E in H.
  - discriminate H.
  - assert (takez n (a0 :: oid1) ++ rel = r) as <- by congruence.
    apply wfb_app_intro; [apply wfb_takez|]; assumption.
  - assert ((a * 40 + b) :: r2 = r) as <- by congruence. subst rel.
    apply wfb_cons in Hr. destruct Hr as [Ha Hr]. apply wfb_cons in Hr. destruct Hr as [Hb Hr].
    apply wfb_cons. split; [lia|assumption].
Qed.

(* ------------------------------------------------------------------ *)
(** * (B.11) Decoded values are well formed *)

Lemma fold_be_range : forall (wrap : Z -> Z) lo hi l,
  lo <= 0 -> 256 <= hi -> (forall z, lo <= wrap z < hi) -> wfb l -> lo <= fold_be wrap l < hi.
Proof.
  intros wrap lo hi l Hlo Hhi Hwr Hw. destruct l as [|x r]; cbn [fold_be]; [lia|].
  apply wfb_cons in Hw. destruct Hw as [Hx _].
  assert (forall r x, lo <= x < hi -> lo <= fold_left (fun acc b => wrap (acc * 256 + b)) r x < hi) as Hf.
  { clear - Hwr. induction r as [|b r IH]; intros x Hx; cbn [fold_left]; [assumption|]. apply IH. apply Hwr. }
  apply Hf. lia.
Qed.

Lemma swrap64_range : forall z, -9223372036854775808 <= swrap64 z < 9223372036854775808.
Proof.
  intros z. unfold swrap64. beta_goal.
  pose proof (Z.mod_pos_bound z 18446744073709551616 ltac:(lia)) as Hm.
  destruct (z mod 18446744073709551616 <? 9223372036854775808) eqn:E;
    [apply Z.ltb_lt in E|apply Z.ltb_ge in E]; lia.
Qed.

Lemma swrap64_small : forall z, 0 <= z < 9223372036854775808 -> swrap64 z = z.
Proof.
  intros z H. unfold swrap64. beta_goal. rewrite Z.mod_small by lia.
  destruct (z <? 9223372036854775808) eqn:E; [reflexivity|]. apply Z.ltb_ge in E. lia.
Qed.

Lemma pow256_le_7 : forall k, 0 <= k <= 7 -> 0 < 256 ^ k <= 72057594037927936.
Proof.
  intros k H. split; [apply Z.pow_pos_nonneg; lia|].
  change 72057594037927936 with (256 ^ 7). apply Z.pow_le_mono_r; lia.
Qed.

(* with at most seven octets the i64 accumulator never wraps *)
Lemma fold_swrap_nowrap : forall r x k, wfb r -> 0 <= k -> 0 <= x < 256 ^ k -> k + len r <= 7 ->
  0 <= fold_left (fun acc b => swrap64 (acc * 256 + b)) r x < 256 ^ (k + len r).
Proof.
  induction r as [|b r IH]; intros x k Hw Hk Hx Hlen; cbn [fold_left].
  - rewrite len_nil, Z.add_0_r. assumption.
  - apply wfb_cons in Hw. destruct Hw as [Hb Hw]. rewrite len_cons in *. pose proof (len_nonneg r).
    assert (256 ^ (k + 1) = 256 ^ k * 256) as Hp by (rewrite Z.pow_add_r by lia; reflexivity).
    pose proof (pow256_le_7 (k + 1) ltac:(lia)) as H7.
    assert (0 <= x * 256 + b < 256 ^ (k + 1)) as Hn by (rewrite Hp; nia).
    rewrite swrap64_small by lia.
    replace (k + (len r + 1)) with ((k + 1) + len r) by lia.
    apply IH; try assumption; lia.
Qed.

Lemma fold_be_swrap_small : forall l, wfb l -> 1 <= len l <= 7 -> 0 <= fold_be swrap64 l < 256 ^ len l.
Proof.
  intros l Hw Hl. destruct l as [|x r]; [rewrite len_nil in Hl; lia|]. cbn [fold_be].
  apply wfb_cons in Hw. destruct Hw as [Hx Hw]. rewrite len_cons in *.
  replace (len r + 1) with (1 + len r) by lia.
  apply fold_swrap_nowrap; try assumption; try (change (256 ^ 1) with 256); lia.
Qed.

Theorem decode_u32_range : forall c h v, wfb c -> decode_u32 c h = Ok v -> 0 <= v < 4294967296.
Proof.
  intros c h v Hw H. unfold decode_u32 in H. inversion H; subst.
  apply fold_be_range; [lia|lia|apply wrap32_range|apply wfb_takez; assumption].
Qed.

Theorem decode_u64_range : forall c h v, wfb c -> decode_u64 c h = Ok v -> 0 <= v < 18446744073709551616.
Proof.
  intros c h v Hw H. unfold decode_u64 in H. inversion H; subst.
  apply fold_be_range; [lia|lia|apply wrap64_range|apply wfb_takez; assumption].
Qed.

Theorem decode_int_range : forall c h v, wfb c -> 0 <= h_length h <= len c -> decode_int c h = Ok v ->
  -9223372036854775808 <= v < 9223372036854775808.
Proof.
  intros c h v Hw Hn H. unfold decode_int in H. destruct (h_length h =? 0) eqn:E0.
  - inversion H; subst. lia.
  - apply Z.eqb_neq in E0.
    destruct (idx c 0) as [b0| |]; cbn [bind] in H; try discriminate H.
    assert (wfb (takez (h_length h) c)) as Hwt by (apply wfb_takez; assumption).
    pose proof (fold_be_range swrap64 (-9223372036854775808) 9223372036854775808 (takez (h_length h) c) ltac:(lia) ltac:(lia) swrap64_range Hwt) as Hr.
    destruct ((Z.land b0 128 =? 0) || (8 <=? h_length h)) eqn:G; apply Ok_inj in H; subst v; [assumption|].
    apply orb_false_elim in G. destruct G as [_ G]. apply Z.leb_gt in G.
    rewrite Z.shiftl_1_l.
    assert (len (takez (h_length h) c) = h_length h) as Hl by (apply len_takez; assumption).
    pose proof (fold_be_swrap_small _ Hwt ltac:(lia)) as Hs. rewrite Hl in Hs.
    assert (2 ^ (8 * h_length h) <= 2 ^ 56) as Hp by (apply Z.pow_le_mono_r; lia).
    change (2 ^ 56) with 72057594037927936 in Hp.
    assert (0 < 2 ^ (8 * h_length h)) by (apply Z.pow_pos_nonneg; lia).
    assert (2 ^ (8 * h_length h) = 256 ^ h_length h) as Hpw by (rewrite Z.pow_mul_r by lia; reflexivity).
    lia.
Qed.

Theorem decode_ip_range : forall c h a b c' d, wfb c -> decode_ip c h = Ok (a, b, c', d) ->
  0 <= a < 256 /\ 0 <= b < 256 /\ 0 <= c' < 256 /\ 0 <= d < 256.
Proof.
  intros c h a b c' d Hw H. unfold decode_ip in H.
  destruct (negb (h_length h =? 4)); [discriminate H|].
  destruct (idx c 0) as [x0| |] eqn:E0; cbn [bind] in H; try discriminate H.
  destruct (idx c 1) as [x1| |] eqn:E1; cbn [bind] in H; try discriminate H.
  destruct (idx c 2) as [x2| |] eqn:E2; cbn [bind] in H; try discriminate H.
  destruct (idx c 3) as [x3| |] eqn:E3; cbn [bind] in H; try discriminate H.
  inversion H; subst. repeat split; eapply idx_wfb; eassumption.
Qed.

Theorem decode_slice_wf : forall c h v, wfb c -> decode_slice c h = Ok v ->
  wfb v /\ len v = h_length h /\ v = takez (h_length h) c.
Proof.
  intros c h v Hw H. unfold decode_slice in H. pose proof (slice_to_wfb _ _ _ Hw H) as [H1 H2].
  apply slice_to_inv in H. destruct H as [_ H]. repeat split; assumption.
Qed.

(* A decoded OCTET STRING / OID / SEQUENCE body splits the input exactly:
   header, content, rest.  Its length is the declared length. *)
Theorem from_ber_slice_split : forall tag p k x rest v,
  from_ber tag p k decode_slice x = Ok (rest, v) ->
  exists pre, x = pre ++ v ++ rest /\ 2 <= len pre /\
  exists c h, parse_header x = Ok (c, h) /\ c = v ++ rest /\ len v = h_length h.
Proof.
  intros tag p k x rest v H. apply from_ber_inv in H.
  destruct H as (c & h & Hp & Hn & -> & Hd & _).
  unfold decode_slice in Hd. apply slice_to_inv in Hd. destruct Hd as [_ ->].
  pose proof Hp as Hs. apply parse_header_suffix in Hs. destruct Hs as (_ & _ & pre & -> & Hpre).
  exists pre. rewrite takez_dropz. split; [reflexivity|]. split; [assumption|].
  exists c, h. split; [assumption|]. split; [reflexivity|apply len_takez; assumption].
Qed.

Theorem from_ber_slice_wfb : forall tag p k x rest v, wfb x ->
  from_ber tag p k decode_slice x = Ok (rest, v) -> wfb v /\ wfb rest.
Proof.
  intros tag p k x rest v Hw H. apply from_ber_slice_split in H. destruct H as (pre & -> & _).
  apply wfb_app_r in Hw. apply wfb_app in Hw. assumption.
Qed.

(* --- REAL --- *)
Definition real_wf (r : real) : Prop :=
  match r with
  | RBin _ m e => 0 <= m /\ -4000 <= e <= 4000
  | RInt v => -2147483648 <= v <= 2147483647
  | RDec t => wfb t
  | _ => True
  end.

Lemma fold_lor_nonneg : forall l acc, wfb l -> 0 <= acc ->
  0 <= fold_left (fun a x => Z.lor (Z.shiftl a 8) x) l acc.
Proof.
  induction l as [|b r IH]; intros acc Hw Ha; cbn [fold_left]; [assumption|].
  apply wfb_cons in Hw. destruct Hw as [Hb Hw]. apply IH; [assumption|].
  apply Z.lor_nonneg. split; [apply Z.shiftl_nonneg; assumption|lia].
Qed.

Lemma parse_i32_range : forall l v, parse_i32 l = Some v -> -2147483648 <= v <= 2147483647.
Proof.
  intros l v H. unfold parse_i32 in H.
  match type of H with (let '(_, _) := ?m in _) = _ => destruct m as [neg ds] end.
  destruct ds as [|d0 ds']; [discriminate H|].
  destruct (all_digits (d0 :: ds')); [|discriminate H]. beta_goal.
  match type of H with (if ?g then _ else _) = _ => destruct g eqn:G end; [|discriminate H].
  inversion H; subst. apply andb_true_iff in G. destruct G as [G1 G2].
  apply Z.leb_le in G1. apply Z.leb_le in G2. lia.
Qed.

Theorem decode_real_wf : forall c h r, wfb c -> 0 <= h_length h <= len c -> decode_real c h = Ok r -> real_wf r.
Proof.
  intros c h r Hw Hn H. unfold decode_real in H.
  destruct (h_length h =? 0); [inversion H; exact I|].
  rewrite slice_to_ok in H by assumption. cbn [bind] in H.
  assert (wfb (takez (h_length h) c)) as Hwi by (apply wfb_takez; assumption).
  remember (takez (h_length h) c) as i eqn:Hi. clear Hi.
  destruct (idx i 0) as [f| |]; cbn [bind] in H; try discriminate H.
  destruct (testbit f 128).
  - match type of H with bind ?e _ = _ => destruct e as [[e_start e_len]| |] end; cbn [bind] in H; try discriminate H.
    cbv beta iota zeta in H.
    match type of H with (if ?g then _ else _) = _ => destruct g end; [discriminate H|].
    match type of H with bind ?e _ = _ => destruct e as [e0| |] end; cbn [bind] in H; try discriminate H.
    match type of H with (if ?g then _ else _) = _ => destruct g end; [discriminate H|].
    inversion H; subst. cbn [real_wf]. split; [apply fold_lor_nonneg; [apply wfb_dropz; assumption|lia]|lia].
  - destruct (Z.land f 192 =? 0).
    + cbv beta iota zeta in H. destruct (Z.land f 63 =? 1).
      * destruct (parse_i32 (dropz 1 i)) as [v|] eqn:Ep; [|discriminate H].
        inversion H; subst. cbn [real_wf]. eapply parse_i32_range; eassumption.
      * destruct ((Z.land f 63 =? 2) || (Z.land f 63 =? 3)); [|discriminate H].
        destruct (is_rust_float (dropz 1 i)); [|discriminate H].
        inversion H; subst. cbn [real_wf]. apply wfb_dropz. assumption.
    + destruct (f =? 64); [inversion H; exact I|]. destruct (f =? 65); [inversion H; exact I|].
      destruct (f =? 66); [inversion H; exact I|]. destruct (f =? 67); [inversion H; exact I|discriminate H].
Qed.

(* --- SnmpValue --- *)
Definition value_wf (v : value) : Prop :=
  match v with
  | VOctetString b | VOid b | VObjectDescriptor b | VOpaque b => wfb b
  | VInt z => -9223372036854775808 <= z < 9223372036854775808
  | VCounter32 z | VGauge32 z | VTimeTicks z | VUInteger32 z => 0 <= z < 4294967296
  | VCounter64 z => 0 <= z < 18446744073709551616
  | VIpAddress a b c d => 0 <= a < 256 /\ 0 <= b < 256 /\ 0 <= c < 256 /\ 0 <= d < 256
  | VReal r => real_wf r
  | VBool _ | VNull | VNoSuchObject | VNoSuchInstance | VEndOfMibView => True
  end.

Lemma value_decode_wf : forall c h v, wfb c -> 0 <= h_length h <= len c ->
  value_decode c h = Ok v -> value_wf v.
Proof.
  intros c h v Hw Hn H. unfold value_decode in H. cbv beta iota zeta in H.
  repeat match type of H with
  | (if ?b then _ else _) = Ok _ => destruct b
  | Err _ = Ok _ => discriminate H
  | bind ?e _ = Ok _ => let E := fresh "E" in destruct e eqn:E; cbn [bind] in H; try discriminate H
  | (let '(_, _) := ?x in _) = Ok _ => destruct x
  | Ok _ = Ok _ => inversion H; subst; clear H
  end; cbn [value_wf]; try exact I.
  - eapply decode_int_range; eassumption.
  - eapply decode_slice_wf; eassumption.
  - eapply decode_slice_wf; eassumption.
  - eapply decode_slice_wf; eassumption.
  - eapply decode_real_wf; eassumption.
  - eapply decode_ip_range; eassumption.
  - eapply decode_u32_range; eassumption.
  - eapply decode_u32_range; eassumption.
  - eapply decode_u32_range; eassumption.
  - eapply decode_slice_wf; eassumption.
  - eapply decode_u64_range; eassumption.
  - eapply decode_u32_range; eassumption.
Qed.

Theorem value_from_ber_wf : forall x rest v, wfb x -> value_from_ber x = Ok (rest, v) -> value_wf v.
Proof.
  intros x rest v Hw H. apply value_from_ber_inv in H. destruct H as (c & h & Hp & Hn & _ & Hd).
  destruct (parse_header_fits x c h Hw Hp) as (_ & Hwc & _).
  eapply value_decode_wf; eassumption.
Qed.

Theorem option_from_ber_wfb : forall x rest t v, wfb x -> option_from_ber x = Ok (rest, (t, v)) ->
  wfb v /\ wfb rest /\ 0 <= t < 256.
Proof.
  intros x rest t v Hw H. apply option_from_ber_inv in H.
  destruct H as (c & h & Hp & Hn & _ & -> & -> & -> & _).
  destruct (parse_header_fits x c h Hw Hp) as (_ & Hwc & _).
  split; [apply wfb_takez; assumption|]. split; [apply wfb_dropz; assumption|].
  eapply parse_header_fields_gen; eassumption.
Qed.

(* ------------------------------------------------------------------ *)
(* Print Assumptions observed for every theorem below: "Closed under the global context"
   decode_bool_local decode_null_local decode_int_local decode_u32_local decode_u64_local
   decode_slice_local decode_ip_local decode_real_local
   from_ber_app from_ber_app_gen from_ber_rest value_from_ber_app value_from_ber_rest
   option_from_ber_app option_from_ber_rest
   decode_bool_no_panic decode_null_no_panic decode_int_no_panic decode_u32_no_panic
   decode_u64_no_panic decode_slice_no_panic decode_ip_no_panic decode_real_no_panic
   from_ber_no_panic int_from_ber_no_panic null_from_ber_no_panic oid_from_ber_no_panic
   octetstring_from_ber_no_panic reloid_from_ber_no_panic sequence_from_ber_no_panic
   bool_from_ber_no_panic real_from_ber_no_panic ip_from_ber_no_panic
   counter32_from_ber_no_panic gauge32_from_ber_no_panic timeticks_from_ber_no_panic
   uinteger32_from_ber_no_panic counter64_from_ber_no_panic opaque_from_ber_no_panic
   objectdescriptor_from_ber_no_panic value_from_ber_no_panic option_from_ber_no_panic
   try_normalize_no_panic try_normalize_no_panic_gen try_normalize_wfb
   decode_u32_range decode_u64_range decode_int_range decode_ip_range decode_slice_wf
   from_ber_slice_split from_ber_slice_wfb decode_real_wf value_from_ber_wf option_from_ber_wfb *)

(* C05: the walks of Model/Walk.v against the reference agent of Spec/Agent.v over a finite MIB return
   exactly the subtree below the base OID, in order.
   Part 1: base-128 encoding lemmas (enc_subs against subids / is_after / starts_with).
   Part 2: order lemmas on sub-identifier lists (the subtree is a contiguous interval).
   Part 3: the GETNEXT walk.  Part 4: the GETBULK walk and fetch. *)
From Coq Require Import ZArith List Bool Lia Sorted.
From GS Require Import Model.Base Gen.Constants Model.Ber Model.Pdu Model.OidText Model.Exc Gen.ErrorMap Model.Ops
  Model.Walk Spec.X690 Spec.Agent.
From GS Require Import Proofs.OpsLemmas Proofs.OpsProofs Proofs.WalkAnyAgent.
From GS Require Proofs.OidLemmas.
Import ListNotations.
Open Scope Z_scope.

(* ================================================================== *)
(* Part 1: encoding lemmas                                             *)
(* ================================================================== *)

Definition sub_ok (x : Z) : Prop := 0 <= x < 4294967296.
Definition subs_ok (l : list Z) : Prop := Forall sub_ok l.

(* ---------- auxiliary definitions ---------- *)

(* the continuation (high) octets of a sub-identifier *)
Definition hid (f : nat) (s : Z) : bytes := base128_from f s false [].
(* one decoder step *)
Definition dstep (b c : Z) : Z := wrap64 (Z.lor (b * 128) (Z.land c 127)).
(* continuation octet *)
Definition hib (b : Z) : Prop := 128 <= b < 256.

(* ---------- unfolding the encoder ---------- *)

Lemma base128_from_S : forall f s last acc,
  base128_from (S f) s last acc =
  if s <? 128 then (s mod 128 + (if last then 0 else 128)) :: acc
  else base128_from f (s / 128) false ((s mod 128 + (if last then 0 else 128)) :: acc).
Proof. reflexivity. Qed.

Lemma base128_from_acc : forall f s last acc,
  base128_from f s last acc = base128_from f s last [] ++ acc.
Proof.
  induction f as [|f IH]; intros s last acc.
  - reflexivity.
  - rewrite !base128_from_S. destruct (s <? 128).
    + reflexivity.
    + rewrite (IH (s / 128) false (_ :: acc)).
      rewrite (IH (s / 128) false [_]).
      rewrite <- app_assoc. reflexivity.
Qed.

Lemma hid_0 : forall s, hid 0 s = [].
Proof. reflexivity. Qed.

Lemma hid_S : forall f s,
  hid (S f) s = if s <? 128 then [s mod 128 + 128] else hid f (s / 128) ++ [s mod 128 + 128].
Proof.
  intros f s. unfold hid. rewrite base128_from_S.
  destruct (s <? 128); [reflexivity|].
  rewrite base128_from_acc. reflexivity.
Qed.

Lemma base128_unfold : forall s,
  base128 s = if s <? 128 then [s mod 128] else hid 9 (s / 128) ++ [s mod 128].
Proof.
  intros s. unfold base128. change 10%nat with (S 9%nat).
  rewrite base128_from_S. rewrite Z.add_0_r.
  destruct (s <? 128); [reflexivity|].
  rewrite base128_from_acc. reflexivity.
Qed.

Lemma hid_range : forall f s, Forall hib (hid f s).
Proof.
  induction f as [|f IH]; intros s.
  - rewrite hid_0. constructor.
  - rewrite hid_S.
    assert (Hd : hib (s mod 128 + 128)).
    { unfold hib. pose proof (Z.mod_pos_bound s 128). lia. }
    destruct (s <? 128).
    + constructor; [exact Hd|constructor].
    + apply Forall_app. split; [apply IH|]. constructor; [exact Hd|constructor].
Qed.

(* every code word is  high octets ++ [low octet] *)
Lemma base128_cw : forall x, exists hi lo,
  base128 x = hi ++ [lo] /\ Forall hib hi /\ 0 <= lo < 128.
Proof.
  intros x. rewrite base128_unfold.
  pose proof (Z.mod_pos_bound x 128) as Hm.
  destruct (x <? 128).
  - exists [], (x mod 128). split; [reflexivity|]. split; [constructor|lia].
  - exists (hid 9 (x / 128)), (x mod 128). split; [reflexivity|]. split; [apply hid_range|lia].
Qed.

Lemma base128_nonempty : forall x, base128 x <> [].
Proof.
  intros x. destruct (base128_cw x) as [hi [lo [E _]]]. rewrite E.
  intro H. apply app_eq_nil in H. destruct H as [_ H]. discriminate H.
Qed.

(* ---------- octet bit facts ---------- *)

Lemma byte_bit : forall c, 0 <= c < 256 -> (Z.land c 128 =? 0) = (c <? 128).
Proof.
  assert (H : forallb (fun c => Bool.eqb (Z.land c 128 =? 0) (c <? 128))
                (map Z.of_nat (seq 0 256)) = true) by (vm_compute; reflexivity).
  intros c Hc. rewrite forallb_forall in H.
  apply eqb_prop. apply H.
  apply in_map_iff. exists (Z.to_nat c). split; [lia|].
  apply in_seq. lia.
Qed.

Lemma land_127 : forall c, Z.land c 127 = c mod 128.
Proof.
  intros c. change 127 with (Z.ones 7). rewrite Z.land_ones by lia. reflexivity.
Qed.

Lemma lor_shift : forall b lo, 0 <= lo < 128 -> Z.lor (b * 128) lo = b * 128 + lo.
Proof.
  intros b lo Hlo.
  assert (H0 : Z.land (b * 128) lo = 0).
  { change 128 with (2 ^ 7). rewrite <- Z.shiftl_mul_pow2 by lia.
    apply Z.bits_inj'. intros n Hn. rewrite Z.land_spec, Z.bits_0.
    destruct (Z.lt_ge_cases n 7) as [Hlt|Hge].
    - rewrite Z.shiftl_spec_low by lia. reflexivity.
    - replace lo with (lo mod 2 ^ 7) by (apply Z.mod_small; change (2 ^ 7) with 128; lia).
      rewrite Z.mod_pow2_bits_high by lia. apply andb_false_r. }
  rewrite <- Z.lxor_lor by exact H0.
  symmetry. apply Z.add_nocarry_lxor. exact H0.
Qed.

Lemma dstep_val : forall b c, 0 <= b -> b * 128 + c mod 128 < 18446744073709551616 ->
  dstep b c = b * 128 + c mod 128.
Proof.
  intros b c Hb Hlt. unfold dstep. rewrite land_127.
  pose proof (Z.mod_pos_bound c 128) as Hm.
  rewrite lor_shift by lia.
  unfold wrap64. apply Z.mod_small. lia.
Qed.

(* ---------- the decoder on a code word ---------- *)

Lemma subids_cons : forall c r b,
  subids (c :: r) b = if Z.land c 128 =? 0 then dstep b c :: subids r 0 else subids r (dstep b c).
Proof. reflexivity. Qed.

Lemma subids_hi : forall hi t b, Forall hib hi ->
  subids (hi ++ t) b = subids t (fold_left dstep hi b).
Proof.
  induction hi as [|h hi IH]; intros t b Hhi.
  - reflexivity.
  - inversion Hhi as [|h' hi' Hh Hrest]; subst.
    unfold hib in Hh.
    rewrite <- app_comm_cons. rewrite subids_cons.
    rewrite byte_bit by lia.
    replace (h <? 128) with false by (symmetry; apply Z.ltb_ge; lia).
    rewrite IH by exact Hrest. reflexivity.
Qed.

Lemma fold_hid : forall f s, 0 <= s < 128 ^ Z.of_nat f -> s < 18446744073709551616 ->
  fold_left dstep (hid f s) 0 = s.
Proof.
  induction f as [|f IH]; intros s Hs H64.
  - rewrite hid_0. change (128 ^ Z.of_nat 0) with 1 in Hs. cbn [fold_left]. lia.
  - rewrite Nat2Z.inj_succ, Z.pow_succ_r in Hs by lia.
    assert (HP : 0 < 128 ^ Z.of_nat f) by (apply Z.pow_pos_nonneg; lia).
    set (P := 128 ^ Z.of_nat f) in *.
    rewrite hid_S. destruct (s <? 128) eqn:E.
    + apply Z.ltb_lt in E. cbn [fold_left].
      rewrite dstep_val; [|lia|].
      * Z.div_mod_to_equations. lia.
      * Z.div_mod_to_equations. lia.
    + apply Z.ltb_ge in E.
      rewrite fold_left_app. cbn [fold_left].
      rewrite IH.
      * rewrite dstep_val.
        -- Z.div_mod_to_equations. lia.
        -- Z.div_mod_to_equations. lia.
        -- Z.div_mod_to_equations. lia.
      * fold P. Z.div_mod_to_equations. lia.
      * Z.div_mod_to_equations. lia.
Qed.

Lemma subids_base128_app : forall x t, sub_ok x -> subids (base128 x ++ t) 0 = x :: subids t 0.
Proof.
  intros x t [Hx0 Hx1]. rewrite base128_unfold.
  pose proof (Z.mod_pos_bound x 128) as Hm.
  destruct (x <? 128) eqn:E.
  - apply Z.ltb_lt in E. cbn [app]. rewrite subids_cons.
    rewrite byte_bit by lia.
    replace (x mod 128 <? 128) with true by (symmetry; apply Z.ltb_lt; lia).
    rewrite dstep_val.
    + f_equal. Z.div_mod_to_equations. lia.
    + lia.
    + Z.div_mod_to_equations. lia.
  - apply Z.ltb_ge in E.
    rewrite <- app_assoc. rewrite subids_hi by apply hid_range.
    rewrite fold_hid.
    + cbn [app]. rewrite subids_cons.
      rewrite byte_bit by lia.
      replace (x mod 128 <? 128) with true by (symmetry; apply Z.ltb_lt; lia).
      rewrite dstep_val.
      * f_equal. Z.div_mod_to_equations. lia.
      * Z.div_mod_to_equations. lia.
      * Z.div_mod_to_equations. lia.
    + change (128 ^ Z.of_nat 9) with 9223372036854775808.
      Z.div_mod_to_equations. lia.
    + Z.div_mod_to_equations. lia.
Qed.

Lemma enc_subs_nil : enc_subs [] = [].
Proof. reflexivity. Qed.

Lemma enc_subs_cons : forall x r, enc_subs (x :: r) = base128 x ++ enc_subs r.
Proof. reflexivity. Qed.

Lemma subids_enc_subs : forall l, subs_ok l -> subids (enc_subs l) 0 = l.
Proof.
  induction l as [|x l IH]; intros Hl.
  - reflexivity.
  - inversion Hl as [|x' l' Hx Hrest]; subst.
    rewrite enc_subs_cons. rewrite subids_base128_app by exact Hx.
    rewrite IH by exact Hrest. reflexivity.
Qed.

Lemma enc_subs_nonempty : forall l, l <> [] -> enc_subs l <> [].
Proof.
  intros l Hl. destruct l as [|x r]; [congruence|].
  rewrite enc_subs_cons. intro H. apply app_eq_nil in H. destruct H as [H _].
  exact (base128_nonempty x H).
Qed.

Lemma enc_subs_inj : forall a b, subs_ok a -> subs_ok b -> enc_subs a = enc_subs b -> a = b.
Proof.
  intros a b Ha Hb H.
  rewrite <- (subids_enc_subs a Ha), <- (subids_enc_subs b Hb). rewrite H. reflexivity.
Qed.

Lemma base128_inj : forall x y, sub_ok x -> sub_ok y -> base128 x = base128 y -> x = y.
Proof.
  intros x y Hx Hy H.
  pose proof (subids_base128_app x [] Hx) as Ex.
  pose proof (subids_base128_app y [] Hy) as Ey.
  rewrite H in Ex. rewrite Ex in Ey. inversion Ey. reflexivity.
Qed.

(* ---------- order ---------- *)

Lemma list_gt_subs_lt : forall a b, list_gt a b = subs_lt b a.
Proof.
  induction a as [|x a IH]; intros b; destruct b as [|y b]; try reflexivity.
  cbn [list_gt subs_lt]. rewrite IH. reflexivity.
Qed.

Lemma is_after_enc_subs : forall a b, subs_ok a -> subs_ok b ->
  is_after (enc_subs a) (enc_subs b) = subs_lt b a.
Proof.
  intros a b Ha Hb. unfold is_after.
  rewrite (subids_enc_subs a Ha), (subids_enc_subs b Hb).
  apply list_gt_subs_lt.
Qed.

(* ---------- prefix-code property ---------- *)

Lemma starts_with_cons : forall y l x p,
  starts_with (y :: l) (x :: p) = (x =? y) && starts_with l p.
Proof. reflexivity. Qed.

Lemma starts_with_same_app : forall c t u, starts_with (c ++ t) (c ++ u) = starts_with t u.
Proof.
  induction c as [|h c IH]; intros t u.
  - reflexivity.
  - rewrite <- !app_comm_cons. rewrite starts_with_cons. rewrite Z.eqb_refl. rewrite IH. reflexivity.
Qed.

Lemma cw_prefix : forall hi1 lo1 hi2 lo2 t u,
  Forall hib hi1 -> Forall hib hi2 -> 0 <= lo1 < 128 -> 0 <= lo2 < 128 ->
  starts_with ((hi1 ++ [lo1]) ++ t) ((hi2 ++ [lo2]) ++ u) = true ->
  hi1 ++ [lo1] = hi2 ++ [lo2] /\ starts_with t u = true.
Proof.
  induction hi1 as [|h1 hi1 IH]; intros lo1 hi2 lo2 t u H1 H2 Hl1 Hl2 Hsw;
    destruct hi2 as [|h2 hi2]; cbn [app] in Hsw; rewrite starts_with_cons in Hsw;
    apply andb_true_iff in Hsw; destruct Hsw as [Heq Hrest]; apply Z.eqb_eq in Heq.
  - subst. split; [reflexivity|exact Hrest].
  - inversion H2 as [|a b Hh2 Hr2]; subst. unfold hib in Hh2. lia.
  - inversion H1 as [|a b Hh1 Hr1]; subst. unfold hib in Hh1. lia.
  - inversion H1 as [|a b Hh1 Hr1]; subst. inversion H2 as [|a' b' Hh2 Hr2]; subst.
    destruct (IH lo1 hi2 lo2 t u Hr1 Hr2 Hl1 Hl2 Hrest) as [E Ht].
    split; [|exact Ht]. cbn [app]. rewrite E. reflexivity.
Qed.

Lemma starts_with_base128_app : forall x y t u, sub_ok x -> sub_ok y ->
  starts_with (base128 x ++ t) (base128 y ++ u) = (y =? x) && starts_with t u.
Proof.
  intros x y t u Hx Hy.
  destruct (y =? x) eqn:E.
  - apply Z.eqb_eq in E. subst y. rewrite starts_with_same_app. reflexivity.
  - cbn [andb]. apply Z.eqb_neq in E.
    destruct (starts_with (base128 x ++ t) (base128 y ++ u)) eqn:S; [|reflexivity].
    exfalso. apply E.
    destruct (base128_cw x) as [hi1 [lo1 [E1 [F1 L1]]]].
    destruct (base128_cw y) as [hi2 [lo2 [E2 [F2 L2]]]].
    rewrite E1, E2 in S.
    destruct (cw_prefix hi1 lo1 hi2 lo2 t u F1 F2 L1 L2 S) as [Ecw _].
    symmetry. apply base128_inj; [exact Hx|exact Hy|]. rewrite E1, E2. exact Ecw.
Qed.

Lemma starts_with_enc_subs : forall k p, subs_ok k -> subs_ok p ->
  starts_with (enc_subs k) (enc_subs p) = subs_prefix p k.
Proof.
  intros k p. revert k.
  induction p as [|y p IH]; intros k Hk Hp.
  - rewrite enc_subs_nil. rewrite starts_with_nil. reflexivity.
  - inversion Hp as [|y' p' Hy Hp']; subst.
    destruct k as [|x k].
    + rewrite enc_subs_nil, enc_subs_cons. cbn [subs_prefix].
      destruct (base128 y ++ enc_subs p) as [|c r] eqn:E; [|reflexivity].
      apply app_eq_nil in E. destruct E as [E _]. exfalso. exact (base128_nonempty y E).
    + inversion Hk as [|x' k' Hx Hk']; subst.
      rewrite !enc_subs_cons. rewrite starts_with_base128_app by assumption.
      rewrite IH by assumption. reflexivity.
Qed.

Lemma enc_subs_first_byte : forall x r, 0 <= x < 128 -> enc_subs (x :: r) = x :: enc_subs r.
Proof.
  intros x r Hx. rewrite enc_subs_cons. rewrite base128_unfold.
  replace (x <? 128) with true by (symmetry; apply Z.ltb_lt; lia).
  rewrite Z.mod_small by lia. reflexivity.
Qed.

(* ================================================================== *)
(* Part 2: the order on sub-identifier lists                           *)
(* ================================================================== *)

Lemma subs_lt_gt : forall a b, subs_lt a b = list_gt b a.
Proof. intros. symmetry. apply list_gt_subs_lt. Qed.

Lemma subs_lt_irrefl : forall a, subs_lt a a = false.
Proof. intros a. rewrite subs_lt_gt. apply list_gt_irrefl. Qed.

Lemma subs_lt_trans : forall a b c, subs_lt a b = true -> subs_lt b c = true -> subs_lt a c = true.
Proof. intros a b c. rewrite !subs_lt_gt. intros H1 H2. eapply list_gt_trans; eauto. Qed.

Lemma subs_lt_cons : forall x a y b,
  subs_lt (x :: a) (y :: b) = (x <? y) || ((x =? y) && subs_lt a b).
Proof.
  intros x a y b. cbn [subs_lt]. destruct (x <? y) eqn:E1; [reflexivity|]. cbn [orb].
  destruct (y <? x) eqn:E2.
  - assert (x =? y = false) as -> by (apply Z.eqb_neq; apply Z.ltb_lt in E2; lia). reflexivity.
  - assert (x =? y = true) as -> by (apply Z.eqb_eq; apply Z.ltb_ge in E1, E2; lia). reflexivity.
Qed.

Lemma subs_prefix_lt_or_eq : forall a b, subs_prefix a b = true -> subs_lt a b = true \/ a = b.
Proof.
  induction a as [|x a IH]; intros [|y b] H; cbn [subs_prefix] in H; try discriminate; auto.
  apply andb_true_iff in H. destruct H as [E P]. apply Z.eqb_eq in E. subst.
  destruct (IH _ P) as [L|L]; [left|right; congruence].
  rewrite subs_lt_cons, Z.eqb_refl, L. apply orb_true_r.
Qed.

Lemma subs_prefix_same_length : forall a b, subs_prefix a b = true -> length a = length b -> a = b.
Proof.
  induction a as [|x a IH]; intros [|y b] H Hl; cbn [subs_prefix length] in *; try discriminate; auto.
  apply andb_true_iff in H. destruct H as [E P]. apply Z.eqb_eq in E. subst. f_equal. apply IH; auto.
Qed.

Lemma subs_prefix_refl : forall a, subs_prefix a a = true.
Proof. induction a as [|x a IH]; cbn [subs_prefix]; [reflexivity|]. rewrite Z.eqb_refl. exact IH. Qed.

(* strictly below base = has base as a prefix and comes after it *)
Lemma in_subtree_spec : forall base o, in_subtree base o = subs_prefix base o && subs_lt base o.
Proof.
  intros base o. unfold in_subtree. destruct (subs_prefix base o) eqn:P; [|reflexivity]. cbn [andb].
  destruct (Nat.eqb (length o) (length base)) eqn:E.
  - apply Nat.eqb_eq in E. symmetry in E. pose proof (subs_prefix_same_length _ _ P E). subst.
    rewrite subs_lt_irrefl. reflexivity.
  - apply Nat.eqb_neq in E. destruct (subs_prefix_lt_or_eq _ _ P) as [L|L]; [rewrite L; reflexivity|].
    subst. contradiction.
Qed.

(* the subtree is an interval: once past it, nothing is inside any more *)
Lemma subtree_contiguous : forall base x y,
  subs_lt base x = true -> subs_prefix base x = false -> subs_lt x y = true -> subs_prefix base y = false.
Proof.
  induction base as [|b base IH]; intros [|x0 x] [|y0 y] Hbx Hp Hxy; try discriminate; try reflexivity.
  rewrite subs_lt_cons in Hbx, Hxy. cbn [subs_prefix] in *.
  apply orb_true_iff in Hbx. apply orb_true_iff in Hxy.
  destruct (b =? x0) eqn:E0.
  - apply Z.eqb_eq in E0. subst. cbn [andb] in Hp. rewrite Z.ltb_irrefl in Hbx.
    destruct Hbx as [Hbx|Hbx]; [discriminate|]. cbn [andb] in Hbx.
    destruct Hxy as [Hxy|Hxy].
    + apply Z.ltb_lt in Hxy. assert (x0 =? y0 = false) as -> by (apply Z.eqb_neq; lia). reflexivity.
    + apply andb_true_iff in Hxy. destruct Hxy as [E L]. rewrite E. cbn [andb]. eapply IH; eauto.
  - destruct Hbx as [Hbx|Hbx]; [|rewrite andb_false_l in Hbx; discriminate].
    apply Z.ltb_lt in Hbx.
    destruct Hxy as [Hxy|Hxy].
    + apply Z.ltb_lt in Hxy. assert (b =? y0 = false) as -> by (apply Z.eqb_neq; lia). reflexivity.
    + apply andb_true_iff in Hxy. destruct Hxy as [E _]. apply Z.eqb_eq in E. subst.
      assert (b =? y0 = false) as -> by (apply Z.eqb_neq; lia). reflexivity.
Qed.

(* ================================================================== *)
(* Part 3: the GETNEXT walk over a MIB                                 *)
(* ================================================================== *)

Definition entry_ok (kv : subs * value) : Prop :=
  subs_ok (fst kv) /\ fst kv <> [] /\ is_data_value (snd kv) = true /\ exists x, value_to_py (snd kv) = Ok x.

Definition mib_sorted (m : mib) : Prop := StronglySorted (fun x y => subs_lt (fst x) (fst y) = true) m.
Definition mib_ok (m : mib) : Prop := mib_sorted m /\ Forall entry_ok m.

(* the requested hypothesis (sub-identifiers in 0..2^32-1, first below 120, non-empty key, convertible data
   value) implies entry_ok; the bound on the first sub-identifier is not needed by the proofs *)
Definition entry_ok_strict (kv : subs * value) : Prop :=
  subs_ok (fst kv) /\ (exists x r, fst kv = x :: r /\ x < 120) /\
  is_data_value (snd kv) = true /\ exists x, value_to_py (snd kv) = Ok x.
Lemma entry_ok_strict_ok : forall kv, entry_ok_strict kv -> entry_ok kv.
Proof.
  intros kv (H1 & (x & r & Hk & _) & H3 & H4). split; [exact H1|]. split; [rewrite Hk; discriminate|]. auto.
Qed.

Definition to_item (kv : subs * value) : item :=
  {| it_oid := enc_subs (fst kv);
     it_key := match text_of_oid (enc_subs (fst kv)) with Ok t => t | _ => [] end;
     it_value := match value_to_py (snd kv) with Ok x => x | _ => PvNone end |}.

(* the reference agents, on the wire representation of the requested OID *)
Definition mib_agent_next (v1 : bool) (m : mib) : agent := fun _ o => agent_getnext v1 m (subids o 0).
Definition mib_agent_bulk (m : mib) (max_rep cap : nat) (pad : nat -> nat) : agent :=
  fun n o => agent_getbulk m (subids o 0) max_rep cap (pad n).

(* take while inside the subtree *)
Fixpoint tw (base : subs) (l : mib) : mib :=
  match l with [] => [] | e :: r => if subs_prefix base (fst e) then e :: tw base r else [] end.

(* a MIB name (sub-identifiers within 0..2^32-1) is rendered: the renderer refuses only larger sub-identifiers *)
Lemma print_rest_mono : forall l b b' t, b <= b' -> print_rest l b' = Ok t -> exists t', print_rest l b = Ok t'.
Proof.
  induction l as [|c r IH]; intros b b' t Hb H; cbn [print_rest] in *.
  - eexists; reflexivity.
  - destruct (Z.ltb_spec 4294967295 (b' * 128 + Z.land c 127)) as [|Hle]; [discriminate|].
    destruct (Z.ltb_spec 4294967295 (b * 128 + Z.land c 127)) as [Hgt|_]; [lia|].
    destruct (Z.land c 128 =? 0).
    + destruct (print_rest r 0) as [u|e|]; cbn [bind] in *; try discriminate. eexists; reflexivity.
    + apply (IH _ (b' * 128 + Z.land c 127) t); [lia | exact H].
Qed.

Lemma print_rest_enc_subs : forall l, subs_ok l -> exists t, print_rest (enc_subs l) 0 = Ok t.
Proof.
  induction l as [|x r IH]; intros Hl.
  - eexists; reflexivity.
  - inversion Hl as [|? ? Hx Hr]; subst. unfold sub_ok in Hx. rewrite enc_subs_cons.
    rewrite OidLemmas.print_rest_base128 by lia. destruct (IH Hr) as [u Hu]. rewrite Hu. cbn [bind]. eexists; reflexivity.
Qed.

Lemma text_of_oid_enc_subs : forall k, subs_ok k -> k <> [] -> exists t, text_of_oid (enc_subs k) = Ok t.
Proof.
  intros k Hk Hne. destruct (print_rest_enc_subs k Hk) as [t Ht].
  destruct (enc_subs k) as [|c X] eqn:E; [exfalso; eapply enc_subs_nonempty; eauto|].
  cbn [text_of_oid]. cbn [print_rest] in Ht.
  destruct (4294967295 <? 0 * 128 + Z.land c 127); [discriminate|].
  assert (exists u, print_rest X 0 = Ok u) as [u Hu].
  { destruct (Z.land c 128 =? 0).
    - destruct (print_rest X 0) as [u|e|]; cbn [bind] in Ht; try discriminate. eexists; reflexivity.
    - apply (print_rest_mono X 0 (0 * 128 + Z.land c 127) t); [|exact Ht].
      assert (0 <= Z.land c 127) by (apply Z.land_nonneg; right; lia). lia. }
  rewrite Hu. cbn [bind]. eexists; reflexivity.
Qed.

Lemma convert_vb : forall k v, subs_ok k -> k <> [] -> (exists x, value_to_py v = Ok x) ->
  convert (vb k v) = Return (to_item (k, v)).
Proof.
  intros k v Hok Hk [x Hx]. unfold convert, to_item, mk_item. cbn [vb vb_oid vb_value fst snd].
  destruct (text_of_oid_enc_subs k Hok Hk) as [t Ht]. rewrite Ht, Hx. reflexivity.
Qed.

Lemma accepted_enc : forall base cur k, subs_ok base -> subs_ok cur -> subs_ok k ->
  accepted (enc_subs base) (enc_subs cur) (enc_subs k) = subs_prefix base k && subs_lt cur k.
Proof.
  intros base cur k Hb Hc Hk. unfold accepted.
  rewrite starts_with_enc_subs, is_after_enc_subs by assumption. reflexivity.
Qed.

Lemma mib_next_split : forall pre post cur,
  Forall (fun kv => subs_lt cur (fst kv) = false) pre ->
  Forall (fun kv => subs_lt cur (fst kv) = true) post ->
  mib_next (pre ++ post) cur = match post with [] => None | kv :: _ => Some kv end.
Proof.
  induction pre as [|[k v] pre IH]; intros post cur Hpre Hpost.
  - cbn [app]. destruct post as [|[k v] post]; [reflexivity|]. inversion Hpost; subst. cbn [mib_next fst] in *.
    rewrite H1. reflexivity.
  - inversion Hpre; subst. cbn [app mib_next fst] in *. rewrite H1. apply IH; assumption.
Qed.

Lemma mib_after_split : forall pre post cur,
  Forall (fun kv => subs_lt cur (fst kv) = false) pre ->
  Forall (fun kv => subs_lt cur (fst kv) = true) post ->
  mib_after (pre ++ post) cur = post.
Proof.
  induction pre as [|[k v] pre IH]; intros post cur Hpre Hpost.
  - cbn [app]. destruct post as [|[k v] post]; [reflexivity|]. inversion Hpost; subst. cbn [mib_after fst] in *.
    rewrite H1. reflexivity.
  - inversion Hpre; subst. cbn [app mib_after fst] in *. rewrite H1. apply IH; assumption.
Qed.

Lemma sorted_app_r : forall pre m, mib_sorted (pre ++ m) -> mib_sorted m.
Proof. induction pre as [|p pre IH]; cbn [app]; [auto|]. intros m H. inversion H; subst. auto. Qed.

(* moving the first entry of post to the end of pre keeps the split invariant *)
Lemma split_advance : forall pre k v post cur,
  mib_sorted (pre ++ (k, v) :: post) ->
  Forall (fun kv => subs_lt cur (fst kv) = false) pre ->
  subs_lt cur k = true ->
  Forall (fun kv => subs_lt k (fst kv) = false) (pre ++ [(k, v)]) /\
  Forall (fun kv => subs_lt k (fst kv) = true) post.
Proof.
  intros pre k v post cur Hs Hpre Hck. split.
  - apply Forall_app. split.
    + rewrite Forall_forall in *. intros x Hx. specialize (Hpre x Hx).
      destruct (subs_lt k (fst x)) eqn:E; [|reflexivity].
      assert (subs_lt cur (fst x) = true) by (eapply subs_lt_trans; eauto). congruence.
    + constructor; [apply subs_lt_irrefl|constructor].
  - apply sorted_app_r in Hs. inversion Hs; subst. assumption.
Qed.

Section GetNext.
Variables (v1 : bool) (base : subs).
Hypothesis Hbase : subs_ok base.

Lemma next_suffix : forall post fuel pre cur n,
  mib_ok (pre ++ post) -> subs_ok cur ->
  Forall (fun kv => subs_lt cur (fst kv) = false) pre ->
  Forall (fun kv => subs_lt cur (fst kv) = true) post ->
  (length post < fuel)%nat ->
  gwalk next_verdict fuel (mib_agent_next v1 (pre ++ post)) n (enc_subs base) (enc_subs cur) =
  {| yielded := map to_item (tw base post);
     requested := enc_subs cur :: map (fun kv => enc_subs (fst kv)) (tw base post);
     ended := Stopped |}.
Proof.
  induction post as [|[k v] post IH]; intros fuel pre cur n Hok Hcur Hpre Hpost Hf;
    (destruct fuel as [|fuel]; [cbn [length] in Hf; lia|]); cbn [gwalk tw].
  - unfold mib_agent_next at 1. rewrite subids_enc_subs by assumption.
    unfold agent_getnext. rewrite mib_next_split by assumption.
    assert (Hacc : accepted (enc_subs base) (enc_subs cur) (enc_subs cur) = false).
    { unfold accepted. rewrite is_after_irrefl. apply andb_false_r. }
    destruct v1; cbn [next_verdict mk_response gr_vars vb vb_oid]; rewrite Hacc; reflexivity.
  - unfold mib_agent_next at 1. rewrite subids_enc_subs by assumption.
    unfold agent_getnext. rewrite mib_next_split by assumption.
    destruct Hok as [Hs Hall].
    assert (Hkv : entry_ok (k, v)).
    { rewrite Forall_forall in Hall. apply Hall. apply in_or_app. right. left. reflexivity. }
    destruct Hkv as (Hk1 & Hk2 & Hk3 & Hk4). cbn [fst snd] in *.
    inversion Hpost as [|? ? Hck Hpost']; subst. cbn [fst] in Hck.
    cbn [next_verdict mk_response gr_vars vb vb_oid vb_value].
    rewrite accepted_enc by assumption. rewrite Hck, andb_true_r.
    destruct (subs_prefix base k) eqn:Ep; [|reflexivity].
    rewrite Hk3. change {| vb_oid := enc_subs k; vb_value := v |} with (vb k v).
    rewrite (convert_vb k v Hk1 Hk2 Hk4).
    destruct (split_advance pre k v post cur Hs Hpre Hck) as [Hpre2 Hpost2].
    replace (pre ++ (k, v) :: post) with ((pre ++ [(k, v)]) ++ post) by (rewrite <- app_assoc; reflexivity).
    unfold last_oid. cbn [map last to_item it_oid fst].
    rewrite (IH fuel (pre ++ [(k, v)]) k (S n)).
    + reflexivity.
    + rewrite <- app_assoc. split; assumption.
    + exact Hk1.
    + exact Hpre2.
    + exact Hpost2.
    + cbn [length] in Hf. lia.
Qed.
End GetNext.

(* take-while = filter on a sorted list whose entries all come after base *)
Lemma all_outside : forall (m : mib) base x, subs_lt base x = true -> subs_prefix base x = false ->
  Forall (fun e => subs_lt x (fst e) = true) m -> filter (fun e => subs_prefix base (fst e)) m = [].
Proof.
  induction m as [|e m IH]; intros base x Hbx Hp Hall; cbn [filter]; [reflexivity|].
  inversion Hall; subst. rewrite (subtree_contiguous base x (fst e) Hbx Hp H1). eauto.
Qed.

Lemma tw_is_filter : forall (m : mib) base, mib_sorted m -> Forall (fun e => subs_lt base (fst e) = true) m ->
  tw base m = filter (fun e => subs_prefix base (fst e)) m.
Proof.
  induction m as [|e m IH]; intros base Hs Hgt; cbn [tw filter]; [reflexivity|].
  inversion Hs as [|? ? Hs' Hall]; subst. inversion Hgt as [|? ? He Hgt']; subst.
  destruct (subs_prefix base (fst e)) eqn:Ep; [rewrite IH by auto; reflexivity|].
  symmetry. eapply all_outside; eauto.
Qed.

Lemma split_at : forall (m : mib) cur, mib_sorted m ->
  exists pre post, m = pre ++ post /\ Forall (fun e => subs_lt cur (fst e) = false) pre /\
                   Forall (fun e => subs_lt cur (fst e) = true) post.
Proof.
  induction m as [|e m IH]; intros cur Hs; [exists [], []; repeat split; constructor|].
  inversion Hs as [|? ? Hs' Hall]; subst.
  destruct (subs_lt cur (fst e)) eqn:E.
  - exists [], (e :: m). repeat split; [constructor|]. constructor; [exact E|].
    rewrite Forall_forall in *. intros x Hx. eapply subs_lt_trans; eauto.
  - destruct (IH cur Hs') as (pre & post & -> & Hpre & Hpost).
    exists (e :: pre), post. repeat split; auto.
Qed.

(* the subtree of base is exactly the take-while of the part of the MIB after base *)
Lemma subtree_split : forall pre post base,
  mib_sorted (pre ++ post) ->
  Forall (fun e => subs_lt base (fst e) = false) pre ->
  Forall (fun e => subs_lt base (fst e) = true) post ->
  subtree (pre ++ post) base = tw base post.
Proof.
  intros pre post base Hs Hpre Hpost. unfold subtree. rewrite filter_app.
  assert (filter (fun kv => in_subtree base (fst kv)) pre = []) as ->.
  { clear - Hpre. induction Hpre as [|x l Hx _ IH]; cbn [filter]; [reflexivity|].
    rewrite in_subtree_spec, Hx, andb_false_r. exact IH. }
  cbn [app]. rewrite tw_is_filter; [|eapply sorted_app_r; eauto|exact Hpost].
  clear - Hpost. induction Hpost as [|x l Hx _ IH]; cbn [filter]; [reflexivity|].
  rewrite in_subtree_spec, Hx, andb_true_r. rewrite IH. reflexivity.
Qed.

(* C05 for GETNEXT: v1 = true is the SNMPv1 agent (noSuchName, request echoed), v1 = false the v2c/v3 agent
   (endOfMibView) *)
Theorem C05_getnext : forall (v1 : bool) (m : mib) (base : subs) (fuel : nat) (it0 : getiter),
  mib_ok m -> subs_ok base -> fresh_iter it0 (enc_subs base) ->
  (fuel > length m)%nat ->
  let w := walk_next fuel (mib_agent_next v1 m) 0 it0 [] [] in
  yielded w = map to_item (subtree m base) /\
  requested w = enc_subs base :: map (fun kv => enc_subs (fst kv)) (subtree m base) /\
  ended w = Stopped.
Proof.
  intros v1 m base fuel it0 Hok Hb Hfresh Hf w. subst w.
  rewrite walk_next_fresh. destruct Hfresh as [-> ->].
  destruct Hok as [Hs Hall].
  destruct (split_at m base Hs) as (pre & post & -> & Hpre & Hpost).
  rewrite (next_suffix v1 base Hb post fuel pre base 0); try assumption.
  - rewrite subtree_split by assumption. cbn [yielded requested ended]. auto.
  - split; assumption.
  - rewrite app_length in Hf. lia.
Qed.

(* ================================================================== *)
(* Part 4: the GETBULK walk over a MIB, and fetch                      *)
(* ================================================================== *)

Definition vb_of (kv : subs * value) : varbind := vb (fst kv) (snd kv).
Definition in_pfx (base : subs) (kv : subs * value) : bool := subs_prefix base (fst kv).

Lemma tw_app_all : forall base l1 l2, forallb (in_pfx base) l1 = true -> tw base (l1 ++ l2) = l1 ++ tw base l2.
Proof.
  induction l1 as [|e l1 IH]; intros l2 H; [reflexivity|]. cbn [forallb] in H. apply andb_true_iff in H.
  destruct H as [He Hl]. unfold in_pfx in He. cbn [app tw]. rewrite He, IH by exact Hl. reflexivity.
Qed.

Lemma tw_app_stop : forall base l1 l2, forallb (in_pfx base) l1 = false -> tw base (l1 ++ l2) = tw base l1.
Proof.
  induction l1 as [|e l1 IH]; intros l2 H; [discriminate|]. cbn [forallb] in H. cbn [app tw].
  unfold in_pfx in H at 1. destruct (subs_prefix base (fst e)); [|reflexivity].
  cbn [andb] in H. rewrite IH by exact H. reflexivity.
Qed.

Lemma tw_all : forall base l, forallb (in_pfx base) l = true -> tw base l = l.
Proof. intros base l H. rewrite <- (app_nil_r l) at 1. rewrite tw_app_all by exact H. cbn. apply app_nil_r. Qed.

Lemma data_vars_app : forall l1 l2, data_vars (l1 ++ l2) = data_vars l1 ++ data_vars l2.
Proof. intros. unfold data_vars. apply filter_app. Qed.

Lemma data_vars_mib : forall l : mib, Forall entry_ok l -> data_vars (map vb_of l) = map vb_of l.
Proof.
  induction 1 as [|kv l (_ & _ & Hd & _) _ IH]; [reflexivity|].
  cbn [map]. rewrite data_vars_cons. cbn [vb_of vb vb_value]. rewrite Hd. fold (vb_of kv). rewrite IH. reflexivity.
Qed.

Lemma data_vars_eomv : forall n k, data_vars (repeat_eomv n k) = [].
Proof. induction n as [|n IH]; intros k; [reflexivity|]. cbn [repeat_eomv]. rewrite data_vars_cons. cbn. apply IH. Qed.

Lemma last_map : forall (A B : Type) (f : A -> B) (l : list A) (d : A), last (map f l) (f d) = f (last l d).
Proof.
  intros A B f l. induction l as [|x l IH]; intros d; [reflexivity|]. cbn [map]. rewrite !last_cons. apply IH.
Qed.

Lemma last_Forall : forall (A : Type) (P : A -> Prop) (l : list A) (d : A), Forall P l -> P d -> P (last l d).
Proof.
  intros A P l. induction l as [|x l IH]; intros d Hl Hd; [exact Hd|]. rewrite last_cons.
  inversion Hl; subst. apply IH; assumption.
Qed.

Lemma last_oid_mib : forall (l : mib) cur,
  last_oid (map to_item l) (enc_subs cur) = enc_subs (last (map fst l) cur).
Proof.
  intros l cur. unfold last_oid. rewrite map_map. cbn [to_item it_oid].
  rewrite <- (map_map fst enc_subs). apply last_map.
Qed.

(* moving a whole chunk from post to pre keeps the split invariant *)
Lemma split_advance_many : forall succ pre post cur,
  mib_sorted (pre ++ succ ++ post) ->
  Forall (fun kv => subs_lt cur (fst kv) = false) pre ->
  Forall (fun kv => subs_lt cur (fst kv) = true) (succ ++ post) ->
  Forall (fun kv => subs_lt (last (map fst succ) cur) (fst kv) = false) (pre ++ succ) /\
  Forall (fun kv => subs_lt (last (map fst succ) cur) (fst kv) = true) post.
Proof.
  induction succ as [|[k v] succ IH]; intros pre post cur Hs Hpre Hpost.
  - cbn [map last app] in *. rewrite app_nil_r. auto.
  - cbn [map fst]. rewrite last_cons. cbn [app] in Hpost, Hs. inversion Hpost as [|? ? Hck Hpost']; subst.
    cbn [fst] in Hck.
    destruct (split_advance pre k v (succ ++ post) cur Hs Hpre Hck) as [Hpre2 Hpost2].
    replace (pre ++ (k, v) :: succ) with ((pre ++ [(k, v)]) ++ succ) by (rewrite <- app_assoc; reflexivity).
    apply IH; [|exact Hpre2|exact Hpost2]. rewrite <- app_assoc. exact Hs.
Qed.

Section GetBulk.
Variables (base : subs) (max_rep cap : nat) (pad : nat -> nat).
Hypothesis Hbase : subs_ok base.
Hypothesis Hmr : (1 <= max_rep)%nat.
Hypothesis Hcap : (1 <= cap)%nat.

(* the scan of a run of consecutive MIB entries that all come after cur *)
Lemma scan_mib : forall (l : mib) cur,
  Forall entry_ok l -> mib_sorted l -> subs_ok cur ->
  Forall (fun kv => subs_lt cur (fst kv) = true) l ->
  bulk_scan (enc_subs base) (enc_subs cur) (map vb_of l) =
  (map to_item (tw base l), if forallb (in_pfx base) l then SEnd else SOut).
Proof.
  induction l as [|[k v] l IH]; intros cur Hok Hs Hcur Hgt; [reflexivity|].
  inversion Hok as [|? ? (Hk1 & Hk2 & Hk3 & Hk4) Hok']; subst. cbn [fst snd] in *.
  inversion Hs as [|? ? Hs' Hall]; subst. inversion Hgt as [|? ? Hck Hgt']; subst. cbn [fst] in Hck.
  cbn [map bulk_scan tw forallb]. unfold in_pfx at 1. cbn [fst].
  change (vb_of (k, v)) with (vb k v). change (vb_oid (vb k v)) with (enc_subs k).
  rewrite accepted_enc by assumption. rewrite Hck, andb_true_r.
  destruct (subs_prefix base k) eqn:Ep; [|reflexivity].
  rewrite (convert_vb k v Hk1 Hk2 Hk4). rewrite (IH k Hok' Hs' Hk1 Hall). cbn [andb map]. reflexivity.
Qed.

Lemma skipn_shorter : forall (A : Type) (l : list A) n, (1 <= n)%nat -> l <> [] ->
  (length (skipn n l) < length l)%nat.
Proof. intros A l n Hn Hl. rewrite skipn_length. destruct l; [contradiction|]. cbn [length]. lia. Qed.

Lemma bulk_suffix : forall fuel post pre cur n,
  mib_ok (pre ++ post) -> subs_ok cur ->
  Forall (fun kv => subs_lt cur (fst kv) = false) pre ->
  Forall (fun kv => subs_lt cur (fst kv) = true) post ->
  (length post < fuel)%nat ->
  exists rq,
  gwalk bulk_verdict fuel (mib_agent_bulk (pre ++ post) max_rep cap pad) n (enc_subs base) (enc_subs cur) =
  {| yielded := map to_item (tw base post); requested := rq; ended := Stopped |}.
Proof.
  induction fuel as [|fuel IH]; intros post pre cur n Hok Hcur Hpre Hpost Hf; [lia|].
  cbn [gwalk]. unfold mib_agent_bulk at 1. rewrite subids_enc_subs by assumption.
  unfold agent_getbulk. rewrite mib_after_split by assumption.
  set (N := Nat.min max_rep cap). assert (HN : (1 <= N)%nat) by (unfold N; lia).
  set (succ := firstn N post).
  destruct Hok as [Hs Hall].
  assert (Hpost_ok : Forall entry_ok post) by (apply Forall_app in Hall; apply Hall).
  assert (Hsplit : post = succ ++ skipn N post) by (unfold succ; symmetry; apply firstn_skipn).
  assert (Hsucc_ok : Forall entry_ok succ).
  { rewrite Hsplit in Hpost_ok. apply Forall_app in Hpost_ok. apply Hpost_ok. }
  assert (Hs_post : mib_sorted post) by (eapply sorted_app_r; eauto).
  assert (Hs_succ : mib_sorted succ).
  { rewrite Hsplit in Hs_post. clear - Hs_post. induction succ as [|e l IHl]; [constructor|].
    cbn [app] in Hs_post. inversion Hs_post; subst. constructor; [apply IHl; assumption|].
    apply Forall_app in H2. apply H2. }
  assert (Hgt_succ : Forall (fun kv => subs_lt cur (fst kv) = true) succ).
  { rewrite Hsplit in Hpost. apply Forall_app in Hpost. apply Hpost. }
  cbn [bulk_verdict mk_response gr_vars].
  fold vb_of. rewrite data_vars_app, (data_vars_mib _ Hsucc_ok).
  assert (Hpadz : forall k, data_vars (if (length succ <? N)%nat
                                       then repeat_eomv (S (Nat.min (pad n) (N - length succ - 1))) k else []) = []).
  { intros k. destruct (length succ <? N)%nat; [apply data_vars_eomv|reflexivity]. }
  rewrite Hpadz, app_nil_r. rewrite (scan_mib succ cur Hsucc_ok Hs_succ Hcur Hgt_succ).
  destruct (forallb (in_pfx base) succ) eqn:Eall.
  - rewrite (tw_all _ _ Eall).
    assert (Hdec : succ = [] \/ succ <> []) by (destruct succ; [left; reflexivity|right; discriminate]).
    destruct Hdec as [Esucc|Hne].
    + (* the MIB has ended *)
      assert (Hnil : post = []).
      { destruct post as [|x post']; [reflexivity|]. unfold succ in Esucc. destruct N; [lia|]. discriminate. }
      rewrite Esucc. cbn [map]. rewrite Hnil. cbn [tw map]. eexists. reflexivity.
    + assert (Hmatch : match map to_item succ with [] => Halt [] Stopped | _ :: _ => Go (map to_item succ) end
                       = Go (map to_item succ)).
      { destruct succ; [contradiction|reflexivity]. }
      rewrite Hmatch. rewrite last_oid_mib.
      set (cur' := last (map fst succ) cur).
      assert (Hs3 : mib_sorted (pre ++ succ ++ skipn N post)) by (rewrite <- Hsplit; exact Hs).
      assert (Hpost3 : Forall (fun kv => subs_lt cur (fst kv) = true) (succ ++ skipn N post))
        by (rewrite <- Hsplit; exact Hpost).
      destruct (split_advance_many succ pre (skipn N post) cur Hs3 Hpre Hpost3) as [Hpre' Hpost'].
      fold cur' in Hpre', Hpost'.
      assert (Hcur' : subs_ok cur').
      { unfold cur'. apply last_Forall; [|exact Hcur]. apply Forall_forall. intros x Hx.
        apply in_map_iff in Hx. destruct Hx as (kv & <- & Hkv). rewrite Forall_forall in Hsucc_ok.
        apply (Hsucc_ok kv Hkv). }
      assert (Hm : pre ++ post = (pre ++ succ) ++ skipn N post).
      { rewrite <- app_assoc, <- Hsplit. reflexivity. }
      assert (Hlen : (length (skipn N post) < fuel)%nat).
      { assert (Hpne : post <> []) by (intros ->; unfold succ in Hne; rewrite firstn_nil in Hne; contradiction).
        pose proof (skipn_shorter _ post N HN Hpne). lia. }
      destruct (IH (skipn N post) (pre ++ succ) cur' (S n)) as [rq IHeq]; try assumption.
      { rewrite <- Hm. split; assumption. }
      rewrite <- Hm in IHeq. rewrite IHeq. cbn [yielded requested ended].
      eexists. f_equal. rewrite Hsplit at 2. rewrite (tw_app_all _ _ _ Eall), map_app. reflexivity.
  - assert (Hmatch : forall c, match c with [] => Halt c Stopped | _ :: _ => Halt c Stopped end = Halt c Stopped).
    { intros c. destruct c; reflexivity. }
    assert (Htw : tw base post = tw base succ) by (rewrite Hsplit; apply tw_app_stop; exact Eall).
    rewrite Hmatch, Htw. eexists. reflexivity.
Qed.
End GetBulk.

Theorem C05_getbulk : forall (m : mib) (base : subs) (max_rep cap : nat) (pad : nat -> nat) (fuel : nat) (it0 : getiter),
  mib_ok m -> subs_ok base -> fresh_iter it0 (enc_subs base) ->
  (1 <= max_rep)%nat -> (1 <= cap)%nat ->
  (fuel > length m)%nat ->
  let w := walk_bulk fuel (mib_agent_bulk m max_rep cap pad) 0 it0 [] [] in
  yielded w = map to_item (subtree m base) /\ ended w = Stopped.
Proof.
  intros m base max_rep cap pad fuel it0 Hok Hb Hfresh Hmr Hcap Hf w. subst w.
  rewrite walk_bulk_fresh. destruct Hfresh as [-> ->].
  destruct Hok as [Hs Hall].
  destruct (split_at m base Hs) as (pre & post & -> & Hpre & Hpost).
  destruct (bulk_suffix base max_rep cap pad Hb Hmr Hcap fuel post pre base 0) as [rq Heq]; try assumption.
  - split; assumption.
  - rewrite app_length in Hf. lia.
  - rewrite Heq, subtree_split by assumption. cbn [yielded ended]. auto.
Qed.

(* ---- getnext walk = getbulk walk = fetch, for every version and either setting of allow_bulk ---- *)

Definition v1_of (v : version) : bool := match v with V1 => true | _ => false end.
(* the agent a session talks to: it answers GETBULK when the session sends GETBULK, GETNEXT otherwise *)
Definition session_agent (m : mib) (v : version) (allow_bulk : bool) (max_rep cap : nat) (pad : nat -> nat) : agent :=
  if session_allow_bulk v allow_bulk then mib_agent_bulk m max_rep cap pad else mib_agent_next (v1_of v) m.

Lemma getiter_new_ok : forall text o mr, oid_of_text text = Ok o ->
  exists it, getiter_new text mr = Return it /\ fresh_iter it o.
Proof.
  intros text o mr H. unfold getiter_new. rewrite H. eexists. split; [reflexivity|]. split; reflexivity.
Qed.

Lemma getnext_walk_mib : forall m base base_text fuel v1,
  mib_ok m -> subs_ok base -> oid_of_text base_text = Ok (enc_subs base) -> (fuel > length m)%nat ->
  exists w, getnext_walk fuel (mib_agent_next v1 m) base_text = Return w /\
            yielded w = map to_item (subtree m base) /\ ended w = Stopped.
Proof.
  intros m base base_text fuel v1 Hok Hb Ht Hf. unfold getnext_walk.
  destruct (getiter_new_ok base_text _ None Ht) as (it & -> & Hfresh).
  eexists. split; [reflexivity|].
  destruct (C05_getnext v1 m base fuel it Hok Hb Hfresh Hf) as (H1 & _ & H3). auto.
Qed.

Lemma getbulk_walk_mib : forall m base base_text fuel max_rep cap pad mr,
  mib_ok m -> subs_ok base -> oid_of_text base_text = Ok (enc_subs base) -> (fuel > length m)%nat ->
  (1 <= max_rep)%nat -> (1 <= cap)%nat ->
  exists w, getbulk_walk fuel (mib_agent_bulk m max_rep cap pad) base_text mr = Return w /\
            yielded w = map to_item (subtree m base) /\ ended w = Stopped.
Proof.
  intros m base base_text fuel max_rep cap pad mr Hok Hb Ht Hf Hmr Hcap. unfold getbulk_walk.
  destruct (getiter_new_ok base_text _ (Some mr) Ht) as (it & -> & Hfresh).
  eexists. split; [reflexivity|].
  apply (C05_getbulk m base max_rep cap pad fuel it Hok Hb Hfresh Hmr Hcap Hf).
Qed.

Theorem C05_same : forall (m : mib) (base : subs) (base_text : bytes) (fuel : nat),
  mib_ok m -> subs_ok base -> oid_of_text base_text = Ok (enc_subs base) -> (fuel > length m)%nat ->
  forall (v1 : bool) (max_rep cap : nat) (pad : nat -> nat) (mr dmr : Z) (v : version) (allow_bulk : bool),
  (1 <= max_rep)%nat -> (1 <= cap)%nat ->
  exists w1 w2 w3,
    getnext_walk fuel (mib_agent_next v1 m) base_text = Return w1 /\
    getbulk_walk fuel (mib_agent_bulk m max_rep cap pad) base_text mr = Return w2 /\
    fetch_walk fuel (session_agent m v allow_bulk max_rep cap pad) v allow_bulk dmr base_text = Return w3 /\
    yielded w1 = map to_item (subtree m base) /\ yielded w2 = yielded w1 /\ yielded w3 = yielded w1 /\
    ended w1 = Stopped /\ ended w2 = Stopped /\ ended w3 = Stopped.
Proof.
  intros m base base_text fuel Hok Hb Ht Hf v1 max_rep cap pad mr dmr v allow_bulk Hmr Hcap.
  destruct (getnext_walk_mib m base base_text fuel v1 Hok Hb Ht Hf) as (w1 & E1 & Y1 & S1).
  destruct (getbulk_walk_mib m base base_text fuel max_rep cap pad mr Hok Hb Ht Hf Hmr Hcap) as (w2 & E2 & Y2 & S2).
  assert (H3 : exists w3, fetch_walk fuel (session_agent m v allow_bulk max_rep cap pad) v allow_bulk dmr base_text
                          = Return w3 /\ yielded w3 = map to_item (subtree m base) /\ ended w3 = Stopped).
  { unfold fetch_walk, session_agent. destruct (session_allow_bulk v allow_bulk).
    - apply getbulk_walk_mib; assumption.
    - apply getnext_walk_mib; assumption. }
  destruct H3 as (w3 & E3 & Y3 & S3).
  exists w1, w2, w3. rewrite Y1, Y2, Y3. repeat split; assumption.
Qed.

(* SNMPv1 sessions never use GETBULK *)
Lemma v1_session_never_bulk : forall allow_bulk, session_allow_bulk V1 allow_bulk = false.
Proof. reflexivity. Qed.

(* ================================================================== *)
(* A concrete instance (closed finite checks): the hypotheses are satisfiable and the walks compute *)
(* ================================================================== *)

Definition ex_mib : mib :=
  [ ([43; 6; 1; 2; 1; 1; 1; 0], VOctetString [72; 105]);
    ([43; 6; 1; 2; 1; 1; 3; 0], VTimeTicks 4711);
    ([43; 6; 1; 4; 1; 300; 1], VInt (-5));
    ([43; 6; 1; 4; 1; 300; 2; 70000], VOid [43; 6; 1]);
    ([43; 6; 1; 4; 1; 301], VCounter64 18446744073709551615) ].
Definition ex_base : subs := [43; 6; 1; 4; 1; 300].
Definition ex_iter : getiter :=
  {| start_oid := enc_subs ex_base; next_oid := enc_subs ex_base; max_repetitions := 0 |}.

Lemma ex_mib_ok : mib_ok ex_mib.
Proof.
  split.
  - unfold mib_sorted, ex_mib. repeat (constructor; [|repeat (constructor; [reflexivity|]); constructor]). constructor.
  - unfold ex_mib. repeat (constructor; [
      split; [repeat (constructor; [unfold sub_ok; lia|]); constructor|];
      split; [discriminate|]; split; [reflexivity|]; eexists; reflexivity |]). constructor.
Qed.
Lemma ex_base_ok : subs_ok ex_base.
Proof. unfold ex_base. repeat (constructor; [unfold sub_ok; lia|]). constructor. Qed.

Example ex_subtree : map fst (subtree ex_mib ex_base) = [[43; 6; 1; 4; 1; 300; 1]; [43; 6; 1; 4; 1; 300; 2; 70000]].
Proof. vm_compute. reflexivity. Qed.

Example ex_getnext_walk :
  let w := walk_next 6 (mib_agent_next false ex_mib) 0 ex_iter [] [] in
  map it_key (yielded w) =
    [ [49; 46; 51; 46; 54; 46; 49; 46; 52; 46; 49; 46; 51; 48; 48; 46; 49];                       (* 1.3.6.1.4.1.300.1 *)
      [49; 46; 51; 46; 54; 46; 49; 46; 52; 46; 49; 46; 51; 48; 48; 46; 50; 46; 55; 48; 48; 48; 48] ] (* ...300.2.70000 *)
  /\ map it_value (yielded w) = [PvInt (-5); PvStr [49; 46; 51; 46; 54; 46; 49]]
  /\ ended w = Stopped /\ length (requested w) = 3%nat.
Proof. vm_compute. repeat split; reflexivity. Qed.

Example ex_getbulk_walk :
  yielded (walk_bulk 6 (mib_agent_bulk ex_mib 2 10 (fun n => n)) 0 ex_iter [] []) =
  yielded (walk_next 6 (mib_agent_next true ex_mib) 0 ex_iter [] []).
Proof. vm_compute. reflexivity. Qed.

(* ------------------------------------------------------------------ *)
(* Assumptions (observed with Coq 8.16.1: every line prints "Closed under the global context") *)
(* ------------------------------------------------------------------ *)
Print Assumptions subids_enc_subs.
Print Assumptions starts_with_enc_subs.
Print Assumptions is_after_enc_subs.
Print Assumptions subtree_contiguous.
Print Assumptions C05_getnext.
Print Assumptions C05_getbulk.
Print Assumptions C05_same.

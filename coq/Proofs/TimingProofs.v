(* C18: one deadline per call for both clients; the re-arming loop of the pinned commit did not have one. *)
From GS Require Import Model.Base Model.Timing.
From Coq Require Import ZifyBool Sorted.

Lemma deadline_wait_le : forall arr D now, now <= D -> fst (deadline_wait D now arr) <= D.
Proof.
  induction arr as [|[t ok] r IH]; intros D now H; cbn [deadline_wait fst]; [lia|].
  destruct (Z.max t now <=? D) eqn:E; [|cbn; lia].
  destruct ok; [cbn; lia|]. apply IH. lia.
Qed.

Theorem async_deadline : forall T t0 arr, 0 <= T -> fst (async_wait T t0 arr) <= t0 + T.
Proof. intros. apply deadline_wait_le. lia. Qed.
Theorem sync_deadline : forall T t0 arr, 0 <= T -> fst (sync_wait T t0 arr) <= t0 + T.
Proof. intros. apply deadline_wait_le. lia. Qed.

(* a matching reply that arrives by the deadline after only non-matching datagrams is delivered, at its arrival time *)
Theorem deadline_delivers : forall pre D now t post,
  Forall (fun a => snd a = false) pre -> Forall (fun a => now <= fst a <= t) pre -> now <= t <= D ->
  StronglySorted (fun a b => fst a <= fst b) (pre ++ [(t, true)]) ->
  deadline_wait D now (pre ++ (t, true) :: post) = (t, true).
Proof.
  induction pre as [|[u ok] pre IH]; intros D now t post Hf Hr Ht Hs; cbn [app deadline_wait].
  - assert (Z.max t now = t) as -> by lia. assert (t <=? D = true) as -> by lia. reflexivity.
  - inversion Hf as [|? ? Hok Hf']; subst. cbn in Hok; subst ok.
    inversion Hr as [|? ? Hu Hr']; subst. cbn [fst] in Hu.
    assert (Z.max u now = u) as -> by lia. assert (u <=? D = true) as -> by lia.
    cbn [app] in Hs. inversion Hs as [|? ? Hs' Hall]; subst.
    apply IH; try assumption; [|lia].
    rewrite Forall_forall in *. intros a Ha. specialize (Hr' a Ha).
    assert (In a (pre ++ [(t, true)])) as Hin by (apply in_or_app; left; exact Ha).
    specialize (Hall a Hin). cbn [fst] in Hall. lia.
Qed.

(* the sync loop returns no later than one timeout after the last datagram it read *)
Lemma rearming_wait_bound : forall arr T now, 0 <= T ->
  fst (rearming_wait T now arr) <= now + T * (Z.of_nat (length arr) + 1).
Proof.
  induction arr as [|[t ok] r IH]; intros T now HT; cbn [rearming_wait length]; [cbn; lia|].
  destruct (Z.max t now <=? now + T) eqn:E; [|cbn [fst]; nia].
  destruct ok; [cbn [fst]; nia|].
  specialize (IH T (Z.max t now) HT). nia.
Qed.

(* without stray datagrams the re-arming loop kept its deadline *)
Theorem rearming_deadline_without_strays : forall arr T t0, 0 <= T ->
  Forall (fun a => snd a = true) arr -> fst (rearming_wait T t0 arr) <= t0 + T.
Proof.
  intros arr T t0 HT H. destruct arr as [|[t ok] r]; cbn [rearming_wait]; [cbn; lia|].
  inversion H as [|? ? Hok _]; subst. cbn in Hok; subst ok.
  destruct (Z.max t t0 <=? t0 + T) eqn:E; cbn [fst]; lia.
Qed.

(* ... but every stray re-arms the timeout: k strays spaced gap <= T apart keep the call waiting until
   t0 + k*gap + T, far beyond the session timeout (the known finding of C18) *)
Lemma rearming_wait_strays : forall k T now gap, 0 <= gap <= T ->
  rearming_wait T now (strays k now gap) = (now + Z.of_nat k * gap + T, false).
Proof.
  induction k as [|k IH]; intros T now gap H; cbn [strays rearming_wait].
  - f_equal. lia.
  - assert (Z.max (now + gap) now = now + gap) as -> by lia.
    assert (now + gap <=? now + T = true) as -> by lia.
    rewrite IH by lia. f_equal. lia.
Qed.

Theorem rearming_deadline_refuted : forall T t0 (k : nat), 0 < T ->
  exists arr, Forall (fun a => snd a = false) arr /\ fst (rearming_wait T t0 arr) = t0 + Z.of_nat k * T + T.
Proof.
  intros T t0 k HT. exists (strays k t0 T). split.
  - generalize t0. induction k as [|k IH]; intros u; cbn [strays]; constructor; [reflexivity|apply IH].
  - rewrite rearming_wait_strays by lia. reflexivity.
Qed.

(* the same schedule against the async client: it returns at its single deadline *)
Theorem deadline_with_strays : forall k T t0 gap, 0 <= gap -> 0 <= T ->
  fst (sync_wait T t0 (strays k t0 gap)) <= t0 + T /\ fst (async_wait T t0 (strays k t0 gap)) <= t0 + T.
Proof. intros. split; apply deadline_wait_le; lia. Qed.

(* a matching reply that arrives by the deadline after only non-matching datagrams is delivered (both clients) *)
Theorem sync_delivers : forall pre T t0 t post,
  Forall (fun a => snd a = false) pre -> Forall (fun a => t0 <= fst a <= t) pre -> t0 <= t <= t0 + T ->
  StronglySorted (fun a b => fst a <= fst b) (pre ++ [(t, true)]) ->
  sync_wait T t0 (pre ++ (t, true) :: post) = (t, true) /\ async_wait T t0 (pre ++ (t, true) :: post) = (t, true).
Proof. intros. split; apply deadline_delivers; assumption. Qed.

Example rearming_refuted_example : rearming_wait 400 0 (strays 6 0 250) = (1900, false) /\ sync_wait 400 0 (strays 6 0 250) = (400, false).
Proof. split; reflexivity. Qed.

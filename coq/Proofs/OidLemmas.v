(* Auxiliary lemmas for the OID text theorems (C08) and the OID order theorems (C05/C06):
   bit arithmetic, base-128 sub-identifiers, decimal rendering, splitting at dots. *)
From GS Require Import Model.Base Gen.Constants Model.Ber Model.OidText Spec.X690.
Local Ltac Zify.zify_post_hook ::= Z.div_mod_to_equations.

(* ---------- bit arithmetic ---------- *)

Lemma land_127 : forall x, Z.land x 127 = x mod 128.
Proof. intro x. change 127 with (Z.ones 7). rewrite Z.land_ones by lia. reflexivity. Qed.

Lemma land_shift_low : forall b x, 0 <= x < 128 -> Z.land (b * 128) x = 0.
Proof.
  intros b x Hx. apply Z.bits_inj'. intros n Hn.
  rewrite Z.land_spec, Z.bits_0.
  destruct (Z.ltb_spec n 7) as [Hlt|Hge].
  - change 128 with (2 ^ 7). rewrite Z.mul_pow2_bits_low by lia. reflexivity.
  - rewrite <- (Z.mod_small x (2 ^ 7)) by (change (2 ^ 7) with 128; lia).
    rewrite Z.mod_pow2_bits_high by lia. apply andb_false_r.
Qed.

Lemma lor_shift : forall b x, 0 <= x < 128 -> Z.lor (b * 128) x = b * 128 + x.
Proof.
  intros b x Hx. pose proof (land_shift_low b x Hx) as H0.
  rewrite (Z.add_nocarry_lxor _ _ H0). symmetry. apply Z.lxor_lor. exact H0.
Qed.

Lemma lor_128 : forall x, 0 <= x < 128 -> Z.lor x 128 = x + 128.
Proof.
  intros x Hx. rewrite Z.lor_comm. change 128 with (1 * 128) at 1.
  rewrite lor_shift by exact Hx. lia.
Qed.

(* bit 8 of an octet *)
Lemma land_128_cases : forall c,
  (Z.land c 128 = 0 /\ (c / 128) mod 2 = 0) \/ (Z.land c 128 = 128 /\ (c / 128) mod 2 = 1).
Proof.
  intro c.
  assert (Hb : Z.land c 128 = if Z.testbit c 7 then 128 else 0).
  { apply Z.bits_inj'. intros n Hn. rewrite Z.land_spec.
    change 128 with (2 ^ 7) at 1. rewrite Z.pow2_bits_eqb by lia.
    destruct (Z.eqb_spec 7 n) as [<-|Hne].
    - destruct (Z.testbit c 7) eqn:E; [reflexivity | ].
      rewrite Z.bits_0. reflexivity.
    - rewrite andb_false_r. destruct (Z.testbit c 7).
      + change 128 with (2 ^ 7). rewrite Z.pow2_bits_eqb by lia.
        symmetry. apply Z.eqb_neq. exact Hne.
      + rewrite Z.bits_0. reflexivity. }
  destruct (Z.testbit c 7) eqn:E.
  - right. split; [exact Hb|]. apply (Z.testbit_true c 7) in E; [|lia]. exact E.
  - left. split; [exact Hb|]. apply (Z.testbit_false c 7) in E; [|lia]. exact E.
Qed.

Lemma land_128_low : forall x, 0 <= x < 128 -> Z.land x 128 = 0.
Proof. intros x Hx. destruct (land_128_cases x) as [[H _]|[_ H]]; [exact H|]. lia. Qed.

Lemma land_128_high : forall x, 0 <= x < 128 -> Z.land (x + 128) 128 = 128.
Proof. intros x Hx. destruct (land_128_cases (x + 128)) as [[_ H]|[H _]]; [|exact H]. lia. Qed.

(* ---------- base128 ---------- *)

Lemma base128_from_S : forall f s last acc,
  base128_from (S f) s last acc =
  (if s <? 128 then (s mod 128 + (if last then 0 else 128)) :: acc
   else base128_from f (s / 128) false ((s mod 128 + (if last then 0 else 128)) :: acc)).
Proof. reflexivity. Qed.

Lemma base128_small : forall s, 0 <= s < 128 -> base128 s = [s].
Proof.
  intros s Hs. unfold base128. rewrite base128_from_S.
  replace (s <? 128) with true by (symmetry; apply Z.ltb_lt; lia).
  f_equal. lia.
Qed.

Lemma base128_big : forall s, 128 <= s ->
  base128 s = base128_from 9 (s / 128) false [s mod 128].
Proof.
  intros s Hs. unfold base128. rewrite base128_from_S.
  replace (s <? 128) with false by (symmetry; apply Z.ltb_ge; lia).
  f_equal. f_equal. lia.
Qed.

Lemma base128_nonempty : forall s, base128 s <> [].
Proof.
  assert (H : forall f s last acc, acc <> [] -> base128_from f s last acc <> []).
  { induction f as [|f IH]; intros s last acc Hacc; [exact Hacc|].
    rewrite base128_from_S. destruct (s <? 128); [discriminate|]. apply IH. discriminate. }
  intro s. unfold base128. rewrite base128_from_S.
  destruct (s <? 128); [discriminate|]. apply H. discriminate.
Qed.

(* ---------- theorem 1: the five-way case split is the canonical base-128 form ---------- *)

Ltac ltb_false a b := replace (a <? b) with false by (symmetry; apply Z.ltb_ge; lia).
Ltac ltb_true a b := replace (a <? b) with true by (symmetry; apply Z.ltb_lt; lia).

Theorem enc_subid_base128 : forall s, 0 <= s <= 4294967295 -> enc_subid s = base128 s.
Proof.
  intros s Hs. unfold enc_subid.
  destruct (Z.leb_spec s 127) as [H1|H1].
  { rewrite base128_small by lia. reflexivity. }
  rewrite base128_big by lia.
  unfold wrap8. rewrite !Z.shiftr_div_pow2 by lia. rewrite !land_127.
  change (2 ^ 7) with 128. change (2 ^ 14) with 16384. change (2 ^ 21) with 2097152.
  change (2 ^ 28) with 268435456.
  destruct (Z.leb_spec s 16383) as [H2|H2].
  { rewrite base128_from_S. ltb_true (s / 128) 128.
    rewrite lor_128 by lia. f_equal; [lia|]. f_equal. lia. }
  destruct (Z.leb_spec s 2097151) as [H3|H3].
  { rewrite !base128_from_S. ltb_false (s / 128) 128. ltb_true (s / 128 / 128) 128.
    rewrite !lor_128 by lia. f_equal; [lia|]. f_equal; [lia|]. f_equal. lia. }
  destruct (Z.leb_spec s 268435455) as [H4|H4].
  { rewrite !base128_from_S. ltb_false (s / 128) 128. ltb_false (s / 128 / 128) 128.
    ltb_true (s / 128 / 128 / 128) 128.
    rewrite !lor_128 by lia. f_equal; [lia|]. f_equal; [lia|]. f_equal; [lia|]. f_equal. lia. }
  rewrite !base128_from_S. ltb_false (s / 128) 128. ltb_false (s / 128 / 128) 128.
  ltb_false (s / 128 / 128 / 128) 128. ltb_true (s / 128 / 128 / 128 / 128) 128.
  rewrite !lor_128 by lia.
  f_equal; [lia|]. f_equal; [lia|]. f_equal; [lia|]. f_equal; [lia|]. f_equal. lia.
Qed.

(* canonical content octets of a list of sub-identifiers *)
Definition enc (l : list Z) : bytes := concat (map base128 l).

(* ---------- decoding sub-identifiers: subids (is_after) and print_rest (text) ---------- *)

Lemma subids_cont : forall x b r, 0 <= x < 128 ->
  subids ((x + 128) :: r) b = subids r (wrap64 (Z.lor (b * 128) x)).
Proof.
  intros x b r Hx. cbn [subids]. rewrite land_128_high by exact Hx.
  change (128 =? 0) with false. cbv iota.
  rewrite land_127. replace ((x + 128) mod 128) with x by lia. reflexivity.
Qed.

Lemma subids_last : forall x b r, 0 <= x < 128 ->
  subids (x :: r) b = wrap64 (Z.lor (b * 128) x) :: subids r 0.
Proof.
  intros x b r Hx. cbn [subids]. rewrite land_128_low by exact Hx.
  change (0 =? 0) with true. cbv iota.
  rewrite land_127. replace (x mod 128) with x by lia. reflexivity.
Qed.

Lemma subids_base128_from : forall f s acc t,
  0 <= s < 128 ^ Z.of_nat f -> s < 18446744073709551616 ->
  subids (base128_from f s false acc ++ t) 0 = subids (acc ++ t) s.
Proof.
  induction f as [|f IH]; intros s acc t Hs H64.
  - change (128 ^ Z.of_nat 0) with 1 in Hs. replace s with 0 by lia. reflexivity.
  - rewrite base128_from_S. destruct (Z.ltb_spec s 128) as [Hlt|Hge].
    + rewrite <- app_comm_cons. rewrite subids_cont by lia.
      replace (s mod 128) with s by lia. change (0 * 128) with 0. rewrite Z.lor_0_l.
      unfold wrap64. rewrite Z.mod_small by lia. reflexivity.
    + rewrite IH.
      * rewrite <- app_comm_cons. rewrite subids_cont by lia.
        rewrite lor_shift by lia. unfold wrap64.
        replace (s / 128 * 128 + s mod 128) with s by lia.
        rewrite Z.mod_small by lia. reflexivity.
      * rewrite Nat2Z.inj_succ, Z.pow_succ_r in Hs by lia.
        assert (0 < 128 ^ Z.of_nat f) by (apply Z.pow_pos_nonneg; lia).
        split; [lia|]. apply Z.div_lt_upper_bound; lia.
      * lia.
Qed.

Lemma subids_base128 : forall s t, 0 <= s < 18446744073709551616 ->
  subids (base128 s ++ t) 0 = s :: subids t 0.
Proof.
  intros s t Hs. destruct (Z.ltb_spec s 128) as [Hlt|Hge].
  - rewrite base128_small by lia. cbn [app]. rewrite subids_last by lia.
    change (0 * 128) with 0. rewrite Z.lor_0_l. unfold wrap64. rewrite Z.mod_small by lia.
    reflexivity.
  - rewrite base128_big by lia. rewrite subids_base128_from.
    + cbn [app]. rewrite subids_last by lia. rewrite lor_shift by lia. unfold wrap64.
      replace (s / 128 * 128 + s mod 128) with s by lia.
      rewrite Z.mod_small by lia. reflexivity.
    + change (128 ^ Z.of_nat 9) with 9223372036854775808. lia.
    + lia.
Qed.

(* the renderer refuses a sub-identifier above 2^32-1; below the guard nothing wraps *)
Lemma print_rest_cont : forall x b r, 0 <= x < 128 -> b * 128 + x <= 4294967295 ->
  print_rest ((x + 128) :: r) b = print_rest r (b * 128 + x).
Proof.
  intros x b r Hx Hb. cbn [print_rest]. rewrite land_128_high by exact Hx.
  change (128 =? 0) with false. cbv iota.
  rewrite land_127. replace ((x + 128) mod 128) with x by lia.
  destruct (Z.ltb_spec 4294967295 (b * 128 + x)); [lia|reflexivity].
Qed.

Lemma print_rest_last : forall x b r, 0 <= x < 128 -> b * 128 + x <= 4294967295 ->
  print_rest (x :: r) b = (t <- print_rest r 0 ;; Ok (DOT :: dec (b * 128 + x) ++ t)).
Proof.
  intros x b r Hx Hb. cbn [print_rest]. rewrite land_128_low by exact Hx.
  change (0 =? 0) with true. cbv iota.
  rewrite land_127. replace (x mod 128) with x by lia.
  destruct (Z.ltb_spec 4294967295 (b * 128 + x)); [lia|reflexivity].
Qed.

Lemma print_rest_refuses : forall c b r, 0 <= c < 256 -> 4294967295 < b * 128 + Z.land c 127 ->
  print_rest (c :: r) b = Err InvalidData.
Proof.
  intros c b r Hc Hb. cbn [print_rest]. destruct (Z.ltb_spec 4294967295 (b * 128 + Z.land c 127)); [reflexivity|lia].
Qed.

Lemma print_rest_base128_from : forall f s acc t,
  0 <= s < 128 ^ Z.of_nat f -> s < 4294967296 ->
  print_rest (base128_from f s false acc ++ t) 0 = print_rest (acc ++ t) s.
Proof.
  induction f as [|f IH]; intros s acc t Hs H32.
  - change (128 ^ Z.of_nat 0) with 1 in Hs. replace s with 0 by lia. reflexivity.
  - rewrite base128_from_S. destruct (Z.ltb_spec s 128) as [Hlt|Hge].
    + rewrite <- app_comm_cons. replace (s mod 128) with s by lia. rewrite print_rest_cont by lia.
      change (0 * 128 + s) with s. reflexivity.
    + rewrite IH.
      * rewrite <- app_comm_cons. rewrite print_rest_cont by lia.
        replace (s / 128 * 128 + s mod 128) with s by lia. reflexivity.
      * rewrite Nat2Z.inj_succ, Z.pow_succ_r in Hs by lia.
        assert (0 < 128 ^ Z.of_nat f) by (apply Z.pow_pos_nonneg; lia).
        split; [lia|]. apply Z.div_lt_upper_bound; lia.
      * lia.
Qed.

Lemma print_rest_base128 : forall s t, 0 <= s <= 4294967295 ->
  print_rest (base128 s ++ t) 0 = (u <- print_rest t 0 ;; Ok (DOT :: dec s ++ u)).
Proof.
  intros s t Hs. destruct (Z.ltb_spec s 128) as [Hlt|Hge].
  - rewrite base128_small by lia. cbn [app]. rewrite print_rest_last by lia.
    change (0 * 128 + s) with s. reflexivity.
  - rewrite base128_big by lia. rewrite print_rest_base128_from.
    + cbn [app]. rewrite print_rest_last by lia.
      replace (s / 128 * 128 + s mod 128) with s by lia. reflexivity.
    + change (128 ^ Z.of_nat 9) with 9223372036854775808. lia.
    + lia.
Qed.

(* ---------- decimal digits ---------- *)

Definition dstep (acc b : Z) : Z := acc * 10 + (b - 48).

Lemma digits_value_eq : forall l, digits_value l = fold_left dstep l 0.
Proof. reflexivity. Qed.

Lemma fold_dstep_app : forall l a, fold_left dstep l a = a * 10 ^ Z.of_nat (length l) + fold_left dstep l 0.
Proof.
  induction l as [|c r IH]; intros a.
  - cbn [fold_left length]. change (10 ^ Z.of_nat 0) with 1. lia.
  - cbn [fold_left]. rewrite (IH (dstep a c)), (IH (dstep 0 c)). unfold dstep.
    cbn [length]. rewrite Nat2Z.inj_succ, Z.pow_succ_r by lia. ring.
Qed.

Lemma digits_value_cons : forall c r,
  digits_value (c :: r) = (c - 48) * 10 ^ Z.of_nat (length r) + digits_value r.
Proof.
  intros c r. rewrite !digits_value_eq. cbn [fold_left]. rewrite fold_dstep_app.
  unfold dstep. ring.
Qed.

Lemma all_digits_forall : forall l, all_digits l = true <-> Forall (fun c => 48 <= c <= 57) l.
Proof.
  induction l as [|c r IH]; cbn [all_digits].
  - split; [constructor | reflexivity].
  - unfold is_digit. rewrite !andb_true_iff, IH, !Z.leb_le. split.
    + intros [Hc Hr]. constructor; assumption.
    + intros H. inversion H; subst. split; assumption.
Qed.

Lemma digits_value_bounds : forall l, all_digits l = true ->
  0 <= digits_value l < 10 ^ Z.of_nat (length l).
Proof.
  induction l as [|c r IH]; intros Hd.
  - cbn. lia.
  - rewrite digits_value_cons. cbn [all_digits] in Hd. apply andb_true_iff in Hd.
    destruct Hd as [Hc Hr]. unfold is_digit in Hc. apply andb_true_iff in Hc.
    destruct Hc as [Hc1 Hc2]. apply Z.leb_le in Hc1. apply Z.leb_le in Hc2.
    specialize (IH Hr). cbn [length]. rewrite Nat2Z.inj_succ, Z.pow_succ_r by lia.
    nia.
Qed.

(* ---------- dec : decimal rendering ---------- *)

Lemma dec_loop_S : forall f z acc,
  dec_loop (S f) z acc =
  (if z <? 10 then (48 + z mod 10) :: acc else dec_loop f (z / 10) ((48 + z mod 10) :: acc)).
Proof. reflexivity. Qed.

Lemma dec_loop_value : forall f z acc, 0 <= z < 10 ^ Z.of_nat f ->
  fold_left dstep (dec_loop f z acc) 0 = fold_left dstep acc z.
Proof.
  induction f as [|f IH]; intros z acc Hz.
  - change (10 ^ Z.of_nat 0) with 1 in Hz. replace z with 0 by lia. reflexivity.
  - rewrite dec_loop_S. destruct (Z.ltb_spec z 10) as [Hlt|Hge].
    + cbn [fold_left]. f_equal. unfold dstep. lia.
    + rewrite IH.
      * cbn [fold_left]. f_equal. unfold dstep. lia.
      * rewrite Nat2Z.inj_succ, Z.pow_succ_r in Hz by lia.
        assert (0 < 10 ^ Z.of_nat f) by (apply Z.pow_pos_nonneg; lia).
        split; [lia|]. apply Z.div_lt_upper_bound; lia.
Qed.

Lemma dec_loop_digits : forall f z acc, 0 <= z ->
  all_digits (dec_loop f z acc) = all_digits acc.
Proof.
  induction f as [|f IH]; intros z acc Hz; [reflexivity|].
  assert (Hd : is_digit (48 + z mod 10) = true).
  { unfold is_digit. apply andb_true_iff. split; apply Z.leb_le; lia. }
  rewrite dec_loop_S. destruct (z <? 10).
  - cbn [all_digits]. rewrite Hd. reflexivity.
  - rewrite IH by lia. cbn [all_digits]. rewrite Hd. reflexivity.
Qed.

Lemma dec_loop_head : forall f z acc, 0 < z < 10 ^ Z.of_nat f ->
  exists d r, dec_loop f z acc = d :: r /\ 49 <= d <= 57.
Proof.
  induction f as [|f IH]; intros z acc Hz.
  - change (10 ^ Z.of_nat 0) with 1 in Hz. lia.
  - rewrite dec_loop_S. destruct (Z.ltb_spec z 10) as [Hlt|Hge].
    + exists (48 + z mod 10), acc. split; [reflexivity|]. lia.
    + apply IH.
      rewrite Nat2Z.inj_succ, Z.pow_succ_r in Hz by lia.
      assert (0 < 10 ^ Z.of_nat f) by (apply Z.pow_pos_nonneg; lia).
      split; [lia|]. apply Z.div_lt_upper_bound; lia.
Qed.

Definition DEC_MAX : Z := 1000000000000000000000000.

Lemma dec_value : forall n, 0 <= n < DEC_MAX -> digits_value (dec n) = n.
Proof.
  intros n Hn. rewrite digits_value_eq. unfold dec. rewrite dec_loop_value; [reflexivity|].
  change (10 ^ Z.of_nat 24) with DEC_MAX. exact Hn.
Qed.

Lemma dec_digits : forall n, 0 <= n -> all_digits (dec n) = true.
Proof. intros n Hn. unfold dec. rewrite dec_loop_digits by exact Hn. reflexivity. Qed.

Lemma dec_loop_nonempty : forall f z acc, acc <> [] -> dec_loop f z acc <> [].
Proof.
  induction f as [|f IH]; intros z acc Hacc; [exact Hacc|].
  rewrite dec_loop_S. destruct (z <? 10); [discriminate|]. apply IH. discriminate.
Qed.

Lemma dec_nonempty : forall n, dec n <> [].
Proof.
  intro n. unfold dec. rewrite dec_loop_S. destruct (n <? 10); [discriminate|].
  apply dec_loop_nonempty. discriminate.
Qed.

Lemma dec_zero : dec 0 = [48].
Proof. reflexivity. Qed.

(* no leading zero (and no sign) for a positive number *)
Lemma dec_head : forall n, 0 < n < DEC_MAX -> exists d r, dec n = d :: r /\ 49 <= d <= 57.
Proof. intros n Hn. unfold dec. apply dec_loop_head. change (10 ^ Z.of_nat 24) with DEC_MAX. exact Hn. Qed.

Lemma all_digits_no_dot : forall l, all_digits l = true -> ~ In DOT l.
Proof.
  intros l Hd Hin. apply all_digits_forall in Hd. rewrite Forall_forall in Hd.
  specialize (Hd _ Hin). unfold DOT in Hd. lia.
Qed.

(* ---------- splitting at dots ---------- *)

Lemma split_dot_nodot : forall p cur, ~ In DOT p -> split_dot p cur = [rev cur ++ p].
Proof.
  induction p as [|c r IH]; intros cur Hno.
  - cbn [split_dot]. rewrite app_nil_r. reflexivity.
  - cbn [split_dot]. destruct (Z.eqb_spec c DOT) as [->|Hne].
    + exfalso. apply Hno. left. reflexivity.
    + rewrite IH by (intro Hin; apply Hno; right; exact Hin).
      cbn [rev]. rewrite <- app_assoc. reflexivity.
Qed.

Lemma split_dot_app : forall p r cur, ~ In DOT p ->
  split_dot (p ++ DOT :: r) cur = (rev cur ++ p) :: split_dot r [].
Proof.
  induction p as [|c p IH]; intros r cur Hno.
  - cbn [app split_dot]. rewrite Z.eqb_refl, app_nil_r. reflexivity.
  - cbn [app split_dot]. destruct (Z.eqb_spec c DOT) as [->|Hne].
    + exfalso. apply Hno. left. reflexivity.
    + rewrite IH by (intro Hin; apply Hno; right; exact Hin).
      cbn [rev]. rewrite <- app_assoc. reflexivity.
Qed.

(* ---------- parse_u32 ---------- *)

Definition parse_digits (ds : bytes) : option Z :=
  match ds with
  | [] => None
  | _ => if all_digits ds then
           let v := digits_value ds in if v <=? 4294967295 then Some v else None
         else None
  end.

Lemma parse_u32_plus : forall r, parse_u32 (43 :: r) = parse_digits r.
Proof. reflexivity. Qed.

Lemma parse_u32_noplus : forall c r, c <> 43 -> parse_u32 (c :: r) = parse_digits (c :: r).
Proof.
  intros c r Hc. unfold parse_u32.
  destruct c as [|p|p]; try reflexivity.
  do 6 (destruct p as [p|p|]; try reflexivity).
  congruence.
Qed.

Lemma parse_u32_nil : parse_u32 [] = None.
Proof. reflexivity. Qed.

Lemma parse_digits_some : forall ds v, parse_digits ds = Some v <->
  ds <> [] /\ all_digits ds = true /\ v = digits_value ds /\ v <= 4294967295.
Proof.
  intros ds v. unfold parse_digits. destruct ds as [|c r].
  - split; [discriminate|]. intros [H _]. congruence.
  - destruct (all_digits (c :: r)).
    + cbv zeta. destruct (Z.leb_spec (digits_value (c :: r)) 4294967295) as [Hle|Hgt].
      * split.
        -- intros H. inversion H; subst. repeat split; try discriminate. exact Hle.
        -- intros (_ & _ & -> & _). reflexivity.
      * split; [discriminate|]. intros (_ & _ & -> & Hle). lia.
    + split; [discriminate|]. intros (_ & H & _). discriminate.
Qed.

(* ---------- the canonical encoding consists of octets ---------- *)

Lemma base128_from_wfb : forall f s last acc, wfb acc -> wfb (base128_from f s last acc).
Proof.
  induction f as [|f IH]; intros s last acc Hacc; [exact Hacc|].
  assert (Hd : 0 <= s mod 128 + (if last then 0 else 128) < 256) by (destruct last; lia).
  rewrite base128_from_S. destruct (s <? 128).
  - constructor; assumption.
  - apply IH. constructor; assumption.
Qed.

Lemma base128_wfb : forall s, wfb (base128 s).
Proof. intro s. unfold base128. apply base128_from_wfb. constructor. Qed.

Lemma enc_wfb : forall l, wfb (enc l).
Proof.
  induction l as [|a l IH]; [constructor|].
  unfold enc. cbn [map concat]. apply Forall_app. split; [apply base128_wfb | exact IH].
Qed.

(* Print Assumptions enc_subid_base128.   observed: Closed under the global context *)
Print Assumptions enc_subid_base128.
Print Assumptions subids_base128.
Print Assumptions print_rest_base128.
Print Assumptions dec_value.

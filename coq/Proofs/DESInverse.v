(* DES decryption inverts DES encryption.

   Decomposition:
     - bytes <-> bits round trips (the bytes -> bits -> bytes direction needs 0..255),
     - FP o IP = id and IP o FP = id on 64-bit blocks (symbolic check on 64 variables),
     - a Feistel network run with the reversed subkey list undoes itself,
       for ANY round function (no length side conditions, thanks to [xor_bits]). *)

Require Import ZArith List Bool Lia Arith.
Require Import GS.Model.Crypto.DES GS.Proofs.ByteRange.
Import ListNotations.

(* ------------------------------------------------------------------ *)
(* xor_bits *)

Lemma xor_bits_length : forall l x, length (xor_bits l x) = length l.
Proof.
  induction l as [|a l IH]; intros [|b x]; cbn [xor_bits length]; auto.
Qed.

Lemma xor_bits_cancel : forall l x, xor_bits (xor_bits l x) x = l.
Proof.
  induction l as [|a l IH]; intros [|b x]; cbn [xor_bits]; auto.
  rewrite IH. f_equal. destruct a, b; reflexivity.
Qed.

(* ------------------------------------------------------------------ *)
(* generic Feistel inverse *)

Section Feistel.
  Variable f : list bool -> list bool -> list bool.

  Lemma feistel_inverse_st : forall ks st,
    feistel f (rev ks) (snd (feistel f ks st), fst (feistel f ks st)) = (snd st, fst st).
  Proof.
    induction ks as [|k ks IH]; intros st.
    - reflexivity.
    - cbn [rev]. unfold feistel in *. cbn [fold_left].
      rewrite fold_left_app, IH. cbn [fold_left].
      unfold feistel_round. cbn [fst snd].
      rewrite xor_bits_cancel. reflexivity.
  Qed.

  Lemma feistel_inverse : forall ks L R,
    feistel f (rev ks) (snd (feistel f ks (L, R)), fst (feistel f ks (L, R))) = (R, L).
  Proof. intros. apply feistel_inverse_st. Qed.

  Lemma feistel_length_st : forall n ks st,
    length (fst st) = n -> length (snd st) = n ->
    length (fst (feistel f ks st)) = n /\ length (snd (feistel f ks st)) = n.
  Proof.
    intros n. induction ks as [|k ks IH]; intros st HL HR.
    - split; assumption.
    - unfold feistel in *. cbn [fold_left].
      apply IH; unfold feistel_round; cbn [fst snd]; [assumption|].
      rewrite xor_bits_length. assumption.
  Qed.

  Lemma feistel_length : forall n ks L R,
    length L = n -> length R = n ->
    length (fst (feistel f ks (L, R))) = n /\ length (snd (feistel f ks (L, R))) = n.
  Proof. intros. apply feistel_length_st; assumption. Qed.
End Feistel.

(* ------------------------------------------------------------------ *)
(* explicit lists of a known length *)

Tactic Notation "explode_list" ident(l) hyp(H) integer(n) :=
  do n (destruct l as [|? l]; [cbn [length] in H; discriminate H|]);
  destruct l as [|? l]; [|cbn [length] in H; discriminate H]; clear H.

(* ------------------------------------------------------------------ *)
(* IP and FP are mutually inverse *)

Lemma permute_length : forall tbl l, length (permute tbl l) = length tbl.
Proof. intros. unfold permute. apply map_length. Qed.

Lemma FP_IP : forall l, length l = 64 -> permute FP_tbl (permute IP_tbl l) = l.
Proof. intros l H. explode_list l H 64. reflexivity. Qed.

Lemma IP_FP : forall l, length l = 64 -> permute IP_tbl (permute FP_tbl l) = l.
Proof. intros l H. explode_list l H 64. reflexivity. Qed.

(* ------------------------------------------------------------------ *)
(* bytes <-> bits *)

Lemma byte_to_bits_to_byte : forall b7 b6 b5 b4 b3 b2 b1 b0,
  byte_to_bits (bits_to_byte b7 b6 b5 b4 b3 b2 b1 b0) = [b7; b6; b5; b4; b3; b2; b1; b0].
Proof. intros. destruct b7, b6, b5, b4, b3, b2, b1, b0; reflexivity. Qed.

Lemma bits_to_byte_range : forall b7 b6 b5 b4 b3 b2 b1 b0,
  byte_range (bits_to_byte b7 b6 b5 b4 b3 b2 b1 b0).
Proof.
  intros. unfold byte_range.
  destruct b7, b6, b5, b4, b3, b2, b1, b0; vm_compute; split; congruence.
Qed.

Definition byte_roundtrip_ok (x : Z) : bool :=
  Z.eqb (bits_to_byte (Z.testbit x 7) (Z.testbit x 6) (Z.testbit x 5) (Z.testbit x 4)
                      (Z.testbit x 3) (Z.testbit x 2) (Z.testbit x 1) (Z.testbit x 0)) x.

Lemma byte_roundtrip_all :
  forallb byte_roundtrip_ok (map Z.of_nat (seq 0 256)) = true.
Proof. vm_compute. reflexivity. Qed.

Lemma bits_to_byte_to_bits : forall x, byte_range x ->
  bits_to_byte (Z.testbit x 7) (Z.testbit x 6) (Z.testbit x 5) (Z.testbit x 4)
               (Z.testbit x 3) (Z.testbit x 2) (Z.testbit x 1) (Z.testbit x 0) = x.
Proof.
  intros x Hx. unfold byte_range in Hx.
  pose proof byte_roundtrip_all as H. rewrite forallb_forall in H.
  apply Z.eqb_eq. apply (H x).
  rewrite <- (Z2Nat.id x) by lia. apply in_map. apply in_seq. lia.
Qed.

Lemma bytes_to_bits_length : forall l, length (bytes_to_bits l) = 8 * length l.
Proof.
  induction l as [|x l IH]; [reflexivity|].
  unfold bytes_to_bits in *. cbn [flat_map]. rewrite app_length, IH.
  cbn [byte_to_bits length]. lia.
Qed.

Lemma bits_to_bytes_to_bits : forall l, Forall byte_range l ->
  bits_to_bytes (bytes_to_bits l) = l.
Proof.
  intros l H. induction H as [|x l Hx _ IH]; [reflexivity|].
  unfold bytes_to_bits in *. cbn [flat_map byte_to_bits app bits_to_bytes].
  rewrite IH, bits_to_byte_to_bits by assumption. reflexivity.
Qed.

Lemma bytes_to_bits_to_bytes_64 : forall l, length l = 64 ->
  bytes_to_bits (bits_to_bytes l) = l.
Proof.
  intros l H. explode_list l H 64.
  unfold bytes_to_bits. cbn [bits_to_bytes flat_map].
  rewrite !byte_to_bits_to_byte. reflexivity.
Qed.

Lemma bits_to_bytes_range_64 : forall l, length l = 64 ->
  Forall byte_range (bits_to_bytes l).
Proof.
  intros l H. explode_list l H 64. cbn [bits_to_bytes].
  repeat constructor; apply bits_to_byte_range.
Qed.

Lemma bits_to_bytes_length_64 : forall l, length l = 64 ->
  length (bits_to_bytes l) = 8.
Proof. intros l H. explode_list l H 64. reflexivity. Qed.

(* ------------------------------------------------------------------ *)
(* the core permutation/Feistel sandwich *)

Lemma des_core_length : forall ks blk, length (des_core ks blk) = 64.
Proof. intros. unfold des_core. apply permute_length. Qed.

Lemma des_core_inverse : forall ks blk, length blk = 64 ->
  des_core (rev ks) (des_core ks blk) = blk.
Proof.
  intros ks blk Hblk. unfold des_core.
  set (x := permute IP_tbl blk).
  assert (Hx : length x = 64) by apply permute_length.
  set (st := feistel des_f ks (firstn 32 x, skipn 32 x)).
  destruct (feistel_length des_f 32 ks (firstn 32 x) (skipn 32 x)) as [HL HR].
  { rewrite firstn_length. lia. }
  { rewrite skipn_length. lia. }
  fold st in HL, HR.
  rewrite IP_FP by (rewrite app_length; lia).
  replace (firstn 32 (snd st ++ fst st)) with (snd st).
  2:{ rewrite firstn_app, HR, Nat.sub_diag, <- HR, firstn_all. cbn [firstn].
      symmetry. apply app_nil_r. }
  replace (skipn 32 (snd st ++ fst st)) with (fst st).
  2:{ rewrite skipn_app, HR, Nat.sub_diag, <- HR, skipn_all. reflexivity. }
  unfold st. rewrite feistel_inverse. cbn [fst snd].
  rewrite firstn_skipn. apply FP_IP. assumption.
Qed.

(* ------------------------------------------------------------------ *)
(* block-level theorems *)

Theorem des_decrypt_encrypt_with : forall ks b,
  length b = 8 -> Forall byte_range b ->
  des_decrypt_with ks (des_encrypt_with ks b) = b.
Proof.
  intros ks b Hlen Hr. unfold des_decrypt_with, des_encrypt_with.
  rewrite bytes_to_bits_to_bytes_64 by apply des_core_length.
  rewrite des_core_inverse by (rewrite bytes_to_bits_length; lia).
  apply bits_to_bytes_to_bits. assumption.
Qed.

Theorem des_encrypt_decrypt_with : forall ks b,
  length b = 8 -> Forall byte_range b ->
  des_encrypt_with ks (des_decrypt_with ks b) = b.
Proof.
  intros ks b Hlen Hr. unfold des_decrypt_with, des_encrypt_with.
  rewrite bytes_to_bits_to_bytes_64 by apply des_core_length.
  rewrite <- (rev_involutive ks) at 1.
  rewrite des_core_inverse by (rewrite bytes_to_bits_length; lia).
  apply bits_to_bytes_to_bits. assumption.
Qed.

(* The requested statement.  [length k = 8] is not actually needed. *)
Theorem des_decrypt_encrypt_block : forall k b,
  length k = 8 -> length b = 8 -> Forall (fun x => (0 <= x < 256)%Z) b ->
  des_decrypt_block k (des_encrypt_block k b) = b.
Proof.
  intros k b _ Hb Hr. unfold des_decrypt_block, des_encrypt_block.
  apply des_decrypt_encrypt_with; assumption.
Qed.

Theorem des_encrypt_decrypt_block : forall k b,
  length b = 8 -> Forall (fun x => (0 <= x < 256)%Z) b ->
  des_encrypt_block k (des_decrypt_block k b) = b.
Proof.
  intros k b Hb Hr. unfold des_decrypt_block, des_encrypt_block.
  apply des_encrypt_decrypt_with; assumption.
Qed.

(* output shape, for any key and any input *)
Theorem des_encrypt_block_length : forall k b, length (des_encrypt_block k b) = 8.
Proof.
  intros. unfold des_encrypt_block, des_encrypt_with.
  apply bits_to_bytes_length_64, des_core_length.
Qed.

Theorem des_decrypt_block_length : forall k b, length (des_decrypt_block k b) = 8.
Proof.
  intros. unfold des_decrypt_block, des_decrypt_with.
  apply bits_to_bytes_length_64, des_core_length.
Qed.

Theorem des_encrypt_block_range : forall k b,
  Forall (fun x => (0 <= x < 256)%Z) (des_encrypt_block k b).
Proof.
  intros. unfold des_encrypt_block, des_encrypt_with.
  apply bits_to_bytes_range_64, des_core_length.
Qed.

Theorem des_decrypt_block_range : forall k b,
  Forall (fun x => (0 <= x < 256)%Z) (des_decrypt_block k b).
Proof.
  intros. unfold des_decrypt_block, des_decrypt_with.
  apply bits_to_bytes_range_64, des_core_length.
Qed.

(* Proofs about the rate limiter.  The model [Gen.Policer] is regenerated from
   /repo/src/gufo/snmp/policer.py by tools/py2coq.py on every run. *)
From Coq Require Import ZArith List Lia Bool ZifyBool.
From GS Require Import Gen.Policer Model.PolicerRun.
Import ListNotations.
Open Scope Z_scope.

Definition Inv (st : pstate) (r : Z) : Prop :=
  match _prev st with Some p => p <= r < p + _delta st | None => False end.

Lemma sleep_of_pos d : 0 < d -> sleep_of (Some d) = d.
Proof.
  intros H. unfold sleep_of.
  assert (d =? 0 = false) as -> by (apply Z.eqb_neq; lia).
  assert (0 <? d = true) as -> by (apply Z.ltb_lt; lia). reflexivity.
Qed.

(* One call preserves the invariant.  The proof does not follow the shape of the
   generated code: it splits on whatever conditionals the generated [get_timeout]
   contains and closes each leaf arithmetically, so behaviour-preserving rewrites
   of policer.py are still accepted. *)
Ltac break_ifs :=
  repeat match goal with
  | |- context [if ?c then _ else _] => destruct c eqn:?
  end.

Lemma step_inv st r g st' r' :
  0 < _delta st -> Inv st r -> release st (r + Z.abs g) = (st', r') ->
  Inv st' r' /\ _delta st' = _delta st /\
  (exists p p', _prev st = Some p /\ _prev st' = Some p' /\ p + _delta st <= p') /\
  0 <= r' - (r + Z.abs g) <= _delta st.
Proof.
  intros Hd HI. unfold release, get_timeout, sleep_of, Inv in *.
  destruct (_prev st) as [p|] eqn:Hp; [|contradiction].
  set (ts := r + Z.abs g) in *. assert (Hts: r <= ts) by (unfold ts; lia).
  set (d := _delta st) in *.
  pose proof (Z.div_mod (ts - p) d ltac:(lia)) as Hdm.
  pose proof (Z.mod_pos_bound (ts - p) d Hd) as Hmb.
  assert (Hq : d <= ts - p -> 1 <= (ts - p) / d) by (intros; apply Z.div_le_lower_bound; lia).
  break_ifs; intros H; inversion H; subst st' r'; clear H; cbn [_prev _delta];
    (split; [|split; [|split]]);
    try (eexists; eexists; split; [reflexivity|split; [reflexivity|]]);
    try reflexivity; try lia; try nia.
Qed.

(* releases paired with [_prev] after each call *)
Fixpoint runp (st : pstate) (last : Z) (gaps : list Z) : list (Z * Z) :=
  match gaps with
  | [] => []
  | g :: gs => let ts := last + Z.abs g in
               let (st', r) := release st ts in
               match _prev st' with
               | Some p => (p, r) :: runp st' r gs
               | None => []
               end
  end.

Lemma runp_run : forall gs st r, 0 < _delta st -> Inv st r ->
  map snd (runp st r gs) = run st r gs.
Proof.
  induction gs as [|g gs IH]; intros st r Hd HI; cbn; [reflexivity|].
  destruct (release st (r + Z.abs g)) as [st' r'] eqn:E.
  destruct (step_inv _ _ _ _ _ Hd HI E) as (HI' & Hdd & (p & p' & Hp & Hp' & Hpp) & _).
  rewrite Hp'. cbn. f_equal. apply IH; [lia|assumption].
Qed.

Lemma runp_spec : forall gs st r, 0 < _delta st -> Inv st r ->
  forall p0, _prev st = Some p0 ->
  let l := runp st r gs in
  length l = length gs /\
  forall i pi ri, nth_error l i = Some (pi, ri) ->
    pi <= ri < pi + _delta st /\ p0 + _delta st * (Z.of_nat i + 1) <= pi.
Proof.
  induction gs as [|g gs IH]; intros st r Hd HI p0 Hp0; cbn.
  - split; [reflexivity|]. intros [|i] ? ? H; discriminate.
  - destruct (release st (r + Z.abs g)) as [st' r'] eqn:E.
    destruct (step_inv _ _ _ _ _ Hd HI E) as (HI' & Hdd & (p & p' & Hp & Hp' & Hpp) & _).
    rewrite Hp'. rewrite Hp in Hp0; inversion Hp0; subst p0.
    assert (Hd' : 0 < _delta st') by lia.
    destruct (IH st' r' Hd' HI' p' Hp') as [Hlen Hnth]. cbn. split; [now rewrite Hlen|].
    intros [|i] pi ri H; cbn in H.
    + inversion H; subst. unfold Inv in HI'. rewrite Hp' in HI'. rewrite Hdd in HI'. split; lia.
    + destruct (Hnth i pi ri H) as [A B]. rewrite Hdd in *. split; [lia|]. nia.
Qed.

Lemma window_p : forall gs st r p0, 0 < _delta st -> Inv st r -> _prev st = Some p0 ->
  forall i j pi ri pj rj, (i < j)%nat ->
  nth_error (runp st r gs) i = Some (pi, ri) -> nth_error (runp st r gs) j = Some (pj, rj) ->
  rj - ri > (Z.of_nat j - Z.of_nat i - 1) * _delta st.
Proof.
  induction gs as [|g gs IH]; intros st r p0 Hd HI Hp0 i j pi ri pj rj Hij Hi Hj.
  - destruct i; discriminate.
  - cbn in Hi, Hj. destruct (release st (r + Z.abs g)) as [st' r'] eqn:E.
    destruct (step_inv _ _ _ _ _ Hd HI E) as (HI' & Hdd & (p & p' & Hp & Hp' & Hpp) & _).
    rewrite Hp' in Hi, Hj. assert (Hd' : 0 < _delta st') by lia.
    destruct i as [|i]; destruct j as [|j]; try lia; cbn in Hi, Hj.
    + inversion Hi; subst pi ri.
      destruct (runp_spec gs st' r' Hd' HI' p' Hp') as [_ Hn].
      destruct (Hn j pj rj Hj) as [A B]. unfold Inv in HI'. rewrite Hp' in HI'.
      rewrite Hdd in *. nia.
    + rewrite <- Hdd. replace (Z.of_nat (S j) - Z.of_nat (S i) - 1) with (Z.of_nat j - Z.of_nat i - 1) by lia.
      eapply IH; eauto. lia.
Qed.

Lemma nth_error_map_snd {A B} (l : list (A * B)) i b :
  nth_error (map snd l) i = Some b -> exists a, nth_error l i = Some (a, b).
Proof.
  revert i; induction l as [|[a' b'] l IH]; intros [|i] H; cbn in *; try discriminate.
  - inversion H; subst. eauto.
  - apply IH; assumption.
Qed.

(* first call of a fresh policer *)
Lemma first_call q t0 :
  0 < q ->
  release {| _prev := None; _delta := q |} t0 = ({| _prev := Some t0; _delta := q |}, t0).
Proof. intros Hq. unfold release, get_timeout, sleep_of; cbn [_prev _delta]. now rewrite Z.add_0_r. Qed.

Lemma init_some b q st : init b q = Some st -> b = false /\ q <> 0 /\ st = {| _prev := None; _delta := q |}.
Proof.
  unfold init. destruct b; [discriminate|]. destruct (q =? 0) eqn:E; [discriminate|].
  apply Z.eqb_neq in E. intros H; inversion H; auto.
Qed.

(* ---- the three statements, for every interval and every history ---- *)

Theorem ctor_refuses :
  (forall q, init true q = None) /\ (forall b, init b 0 = None) /\
  (forall b q st, init b q = Some st -> 0 <= q -> _prev st = None /\ _delta st = q /\ 0 < q).
Proof.
  split; [reflexivity|]. split; [intros []; reflexivity|].
  intros b q st H Hq. apply init_some in H. destruct H as (_ & Hn & ->). cbn [_prev _delta]. repeat split; lia.
Qed.

Theorem window_bound q st0 t0 gaps :
  init false q = Some st0 -> 0 <= q ->
  forall i j ri rj, (i < j)%nat ->
  nth_error (history st0 t0 gaps) i = Some ri ->
  nth_error (history st0 t0 gaps) j = Some rj ->
  rj - ri > (Z.of_nat j - Z.of_nat i - 1) * q.
Proof.
  intros Hi Hq i j ri rj Hij Hni Hnj.
  apply init_some in Hi. destruct Hi as (_ & Hn & ->). assert (Hq' : 0 < q) by lia.
  unfold history in *. rewrite (first_call q t0 Hq') in *.
  set (st1 := {| _prev := Some t0; _delta := q |}) in *.
  assert (HI : Inv st1 t0) by (unfold Inv; cbn; lia).
  assert (Hd : 0 < _delta st1) by (cbn; lia).
  rewrite <- (runp_run gaps st1 t0 Hd HI) in *.
  destruct j as [|j]; [lia|]. cbn in Hnj.
  apply nth_error_map_snd in Hnj. destruct Hnj as [pj Hnj].
  destruct i as [|i]; cbn in Hni.
  - inversion Hni; subst ri.
    destruct (runp_spec gaps st1 t0 Hd HI t0 eq_refl) as [_ Hs].
    destruct (Hs j pj rj Hnj) as [A B]. cbn in A, B. nia.
  - apply nth_error_map_snd in Hni. destruct Hni as [pi Hni].
    pose proof (window_p gaps st1 t0 t0 Hd HI eq_refl i j pi ri pj rj ltac:(lia) Hni Hnj) as W.
    cbn in W. lia.
Qed.

Lemma sleeps_bound : forall gs st r, 0 < _delta st -> Inv st r ->
  Forall (fun s => 0 <= s <= _delta st) (sleeps st r gs).
Proof.
  induction gs as [|g gs IH]; intros st r Hd HI; cbn; [constructor|].
  destruct (release st (r + Z.abs g)) as [st' r'] eqn:E.
  destruct (step_inv _ _ _ _ _ Hd HI E) as (HI' & Hdd & _ & Hs).
  constructor; [lia|]. rewrite <- Hdd. apply IH; [lia|assumption].
Qed.

Theorem delay_bound q st0 t0 gaps :
  init false q = Some st0 -> 0 <= q ->
  Forall (fun s => 0 <= s <= q) (history_sleeps st0 t0 gaps).
Proof.
  intros Hi Hq. apply init_some in Hi. destruct Hi as (_ & Hn & ->). assert (Hq' : 0 < q) by lia.
  unfold history_sleeps. rewrite (first_call q t0 Hq').
  constructor; [lia|].
  apply (sleeps_bound gaps {| _prev := Some t0; _delta := q |} t0); [cbn; lia|unfold Inv; cbn; lia].
Qed.

(* non-vacuity: a concrete history (interval 10, calls in a burst, then idle) *)
Example history_example :
  init false 10 = Some {| _prev := None; _delta := 10 |} /\
  history {| _prev := None; _delta := 10 |} 100 [0; 0; 3; 25; 10; 0] = [100; 110; 120; 130; 155; 165; 170] /\
  history_sleeps {| _prev := None; _delta := 10 |} 100 [0; 0; 3; 25; 10; 0] = [0; 10; 10; 7; 0; 0; 5].
Proof. repeat split; reflexivity. Qed.

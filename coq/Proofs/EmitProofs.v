(* C03: the request that goes on the wire is exactly what the caller asked for.
   PyOp::from_python (call_pdu), the request-id generator (next_id), the pooled buffers and
   send_request for community sessions (c_send) and for v3 sessions (v3_send), and the Python-level
   choice between GetNext and GetBulk. *)
From Coq Require Import ZArith List Bool Lia.
From GS Require Import Model.Base Gen.Constants Model.Ber Model.Pdu Model.Buffer Model.OidText Model.Exc Gen.ErrorMap
  Model.Ops Model.Auth Model.Priv Model.V3 Model.Emit Model.Walk Spec.X690.
From GS Require Import Proofs.BufLemmas Proofs.BufferProofs Proofs.IntEncProofs Proofs.EncodeProofs
  Proofs.OidTextProofs Proofs.RoundTrip.
Import ListNotations.
Open Scope Z_scope.

(* ================================================================== *)
(* C11: request ids                                                    *)
(* ================================================================== *)

Theorem next_id_range : forall rnd, 0 <= next_id rnd <= 2147483647.
Proof.
  intros rnd. unfold next_id, MAX_REQUEST_ID. change 2147483647 with (Z.ones 31).
  rewrite Z.land_ones by lia. change (Z.ones 31) with 2147483647. change (2 ^ 31) with 2147483648.
  pose proof (Z.mod_pos_bound rnd 2147483648 ltac:(lia)). lia.
Qed.

Lemma next_id_in_range : forall rnd, in_range (next_id rnd).
Proof. intros rnd. apply in_range_small. pose proof (next_id_range rnd). lia. Qed.

(* an id already in 0 .. 2^31-1 is kept as it is *)
Lemma next_id_small : forall rnd, 0 <= rnd <= 2147483647 -> next_id rnd = rnd.
Proof.
  intros rnd H. unfold next_id, MAX_REQUEST_ID. change 2147483647 with (Z.ones 31).
  rewrite Z.land_ones by lia. change (2 ^ 31) with 2147483648. apply Z.mod_small. lia.
Qed.

(* ================================================================== *)
(* C10 (call_pdu_spec): from_python                                    *)
(* ================================================================== *)

Definition parses (t o : bytes) : Prop := oid_of_text t = Ok o.

(* the request denoted by a call *)
Definition call_req (c : call) (rid : Z) (r : req) : Prop :=
  match c with
  | CGet t => exists o, parses t o /\ r = RGet rid [o]
  | CGetMany ts => exists os, Forall2 parses ts os /\ r = RGet rid os
  | CGetNext it => r = RGetNext rid [next_oid it]
  | CGetBulk it => r = RGetBulk rid 0 (max_repetitions it) [next_oid it]
  | CRefresh => r = RGet rid []
  end.
(* the OID texts of a call *)
Definition call_text (c : call) (t : bytes) : Prop :=
  match c with CGet t' => t = t' | CGetMany ts => In t ts | _ => False end.

Lemma parse_oids_ok : forall ts os, parse_oids ts = Ok os <-> Forall2 parses ts os.
Proof.
  induction ts as [|t r IH]; intros os; cbn [parse_oids]; split.
  - intros H. inversion H. constructor.
  - intros H. inversion H. reflexivity.
  - intros H. destruct (oid_of_text t) as [o|e|] eqn:Eo; cbn [bind] in H; try discriminate H.
    destruct (parse_oids r) as [os'|e|] eqn:Er; cbn [bind] in H; try discriminate H.
    inversion H; subst os. constructor; [exact Eo|]. apply IH. reflexivity.
  - intros H. inversion H as [|? o ? os' Ho Hr]; subst. unfold parses in Ho. rewrite Ho. cbn [bind].
    apply IH in Hr. rewrite Hr. reflexivity.
Qed.

Lemma parse_oids_err : forall ts e, parse_oids ts = Err e ->
  e = InvalidData /\ exists t, In t ts /\ oid_of_text t = Err InvalidData.
Proof.
  induction ts as [|t r IH]; intros e H; cbn [parse_oids] in H; [discriminate H|].
  destruct (oid_of_text t) as [o|e'|] eqn:Eo; cbn [bind] in H; try discriminate H.
  - destruct (parse_oids r) as [os'|e'|] eqn:Er; cbn [bind] in H; try discriminate H.
    inversion H; subst e'. destruct (IH e eq_refl) as (He & t' & Hin & Ht').
    split; [exact He|]. exists t'. split; [right; exact Hin|exact Ht'].
  - inversion H; subst e'. destruct (C08_refuse t) as [_ Hr]. pose proof (Hr e Eo). subst e.
    split; [reflexivity|]. exists t. split; [left; reflexivity|exact Eo].
Qed.

Lemma parse_oids_no_panic : forall ts, parse_oids ts <> Panic.
Proof.
  induction ts as [|t r IH]; cbn [parse_oids]; [discriminate|].
  destruct (C08_refuse t) as [Hp _]. destruct (oid_of_text t) as [o|e|]; cbn [bind]; [|discriminate|contradiction].
  destruct (parse_oids r) as [os|e|]; cbn [bind]; [discriminate|discriminate|contradiction].
Qed.

(* same length, same order *)
Lemma Forall2_parses_length : forall ts os, Forall2 parses ts os -> length ts = length os.
Proof. intros ts os H. induction H; cbn [length]; congruence. Qed.

Lemma Forall2_parses_nth : forall ts os, Forall2 parses ts os ->
  forall k t, nth_error ts k = Some t -> exists o, nth_error os k = Some o /\ oid_of_text t = Ok o.
Proof.
  intros ts os H. induction H as [|t0 o0 ts os H0 _ IH]; intros k t Hk.
  - destruct k; discriminate Hk.
  - destruct k as [|k]; cbn [nth_error] in *.
    + inversion Hk; subst. exists o0. split; [reflexivity|exact H0].
    + apply IH. exact Hk.
Qed.

Lemma Forall2_parses_fun : forall ts os1 os2, Forall2 parses ts os1 -> Forall2 parses ts os2 -> os1 = os2.
Proof.
  intros ts os1 os2 H1 H2. apply parse_oids_ok in H1. apply parse_oids_ok in H2. congruence.
Qed.

Lemma pdu_of_req_of_pdu : forall p r, req_of_pdu p = Some r -> pdu_of_req r = p.
Proof.
  intros p r H. destruct p as [g|g|resp|g|raw]; cbn [req_of_pdu] in H; try discriminate H;
    inversion H; subst r; destruct g; reflexivity.
Qed.

Lemma req_of_pdu_of_req : forall r, req_of_pdu (pdu_of_req r) = Some r.
Proof. intros [id os|id os|id nr mr os]; reflexivity. Qed.

Theorem call_pdu_spec : forall c rid,
  (forall p, call_pdu c rid = Ok p ->
     exists r, req_of_pdu p = Some r /\ call_req c rid r /\ p = pdu_of_req r) /\
  (forall e, call_pdu c rid = Err e ->
     e = InvalidData /\ exists t, call_text c t /\ oid_of_text t = Err InvalidData) /\
  call_pdu c rid <> Panic.
Proof.
  intros c rid. destruct c as [t|ts|it|it|]; cbn [call_pdu call_req call_text].
  - destruct (C08_refuse t) as [Hp Hr]. destruct (oid_of_text t) as [o|e|] eqn:Eo; cbn [bind].
    + split; [|split; [intros e H; discriminate H|discriminate]].
      intros p H. inversion H; subst p. exists (RGet rid [o]). split; [reflexivity|].
      split; [exists o; split; [exact Eo|reflexivity]|reflexivity].
    + split; [intros p H; discriminate H|]. split; [|discriminate].
      intros e' H. inversion H; subst e'. pose proof (Hr e eq_refl). subst e.
      split; [reflexivity|]. exists t. split; [reflexivity|exact Eo].
    + contradiction.
  - pose proof (parse_oids_no_panic ts) as Hp. destruct (parse_oids ts) as [os|e|] eqn:Eo; cbn [bind].
    + split; [|split; [intros e H; discriminate H|discriminate]].
      intros p H. inversion H; subst p. exists (RGet rid os). split; [reflexivity|].
      split; [exists os; split; [apply parse_oids_ok; exact Eo|reflexivity]|reflexivity].
    + split; [intros p H; discriminate H|]. split; [|discriminate].
      intros e' H. inversion H; subst e'. exact (parse_oids_err ts e Eo).
    + contradiction.
  - split; [|split; [intros e H; discriminate H|discriminate]].
    intros p H. inversion H; subst p. eexists. split; [reflexivity|]. split; reflexivity.
  - split; [|split; [intros e H; discriminate H|discriminate]].
    intros p H. inversion H; subst p. eexists. split; [reflexivity|]. split; reflexivity.
  - split; [|split; [intros e H; discriminate H|discriminate]].
    intros p H. inversion H; subst p. eexists. split; [reflexivity|]. split; reflexivity.
Qed.

(* completeness: every call whose OID texts parse yields exactly that request *)
Theorem call_pdu_complete : forall c rid r, call_req c rid r -> call_pdu c rid = Ok (pdu_of_req r).
Proof.
  intros c rid r H. destruct c as [t|ts|it|it|]; cbn [call_req] in H; cbn [call_pdu].
  - destruct H as (o & Ho & ->). unfold parses in Ho. rewrite Ho. reflexivity.
  - destruct H as (os & Ho & ->). apply parse_oids_ok in Ho. rewrite Ho. reflexivity.
  - subst r. reflexivity.
  - subst r. reflexivity.
  - subst r. reflexivity.
Qed.

(* the request is a function of the call *)
Lemma call_req_fun : forall c rid r1 r2, call_req c rid r1 -> call_req c rid r2 -> r1 = r2.
Proof.
  intros c rid r1 r2 H1 H2. apply call_pdu_complete in H1. apply call_pdu_complete in H2.
  rewrite H1 in H2. assert (H3 : pdu_of_req r1 = pdu_of_req r2) by congruence.
  apply (f_equal req_of_pdu) in H3. rewrite !req_of_pdu_of_req in H3. congruence.
Qed.

(* the INTEGER fields of the request are in the i64 range *)
Lemma call_req_ok : forall c rid r, call_req c rid r -> in_range rid ->
  (forall it, c = CGetBulk it -> in_range (max_repetitions it)) -> req_ok r.
Proof.
  intros c rid r H Hrid Hmr. destruct c as [t|ts|it|it|]; cbn [call_req] in H.
  - destruct H as (o & _ & ->). exact Hrid.
  - destruct H as (os & _ & ->). exact Hrid.
  - subst r. exact Hrid.
  - subst r. cbn [req_ok]. split; [exact Hrid|]. split; [apply in_range_small; lia|apply Hmr; reflexivity].
  - subst r. exact Hrid.
Qed.

(* ================================================================== *)
(* C12: the buffer pool and send_request of community sessions         *)
(* ================================================================== *)

Lemma pool_inv_nil : pool_inv [].
Proof. constructor. Qed.

Lemma release_inv : forall p b, pool_inv p -> pool_inv (release p b).
Proof. intros p b H. unfold release. constructor; [reflexivity|exact H]. Qed.

Lemma acquire_inv : forall p b p', pool_inv p -> acquire p = (b, p') -> data b = [] /\ pool_inv p'.
Proof.
  intros p b p' H Ha. unfold acquire in Ha. destruct p as [|b0 r].
  - inversion Ha; subst. split; [reflexivity|constructor].
  - inversion Ha; subst. inversion H; subst. split; assumption.
Qed.

(* acquire / release in any order, with any buffers handed back *)
Inductive pool_op := PoolAcquire | PoolRelease (b : buffer).
Definition pool_step (p : pool) (o : pool_op) : pool :=
  match o with PoolAcquire => snd (acquire p) | PoolRelease b => release p b end.

Theorem pool_inv_always : forall ops p, pool_inv p -> pool_inv (fold_left pool_step ops p).
Proof.
  induction ops as [|o ops IH]; intros p H; cbn [fold_left]; [exact H|]. apply IH.
  destruct o as [|b]; cbn [pool_step].
  - destruct (acquire p) as [b p'] eqn:Ea. cbn [snd]. eapply acquire_inv; eassumption.
  - apply release_inv. exact H.
Qed.

Corollary pool_inv_from_empty : forall ops, pool_inv (fold_left pool_step ops []).
Proof. intros ops. apply pool_inv_always. apply pool_inv_nil. Qed.

(* every buffer handed out is empty *)
Corollary acquire_fresh : forall ops b p', acquire (fold_left pool_step ops []) = (b, p') -> data b = [].
Proof. intros ops b p' H. eapply acquire_inv; [apply pool_inv_from_empty|exact H]. Qed.

(* what a message pushed into an empty buffer gives *)
Lemma emits_fresh : forall b s bm, data b = [] ->
  (len s <= BUF_MAX_SIZE -> emits b s bm = Ok {| data := s; bookmark := bm |}) /\
  (BUF_MAX_SIZE < len s -> emits b s bm = Err OutOfBuffer).
Proof.
  intros b s bm Hd. assert (Hp : pos b = BUF_MAX_SIZE).
  { unfold pos, blen. rewrite Hd, len_nil. lia. }
  split; intros H.
  - rewrite emits_ok by lia. unfold grow. rewrite Hd, app_nil_r. reflexivity.
  - apply emits_err. lia.
Qed.

Definition call_bulk_ok (c : call) : Prop := forall it, c = CGetBulk it -> in_range (max_repetitions it).

Theorem c_send_spec : forall ver comm p c rnd rid p' r,
  0 <= ver < 128 -> pool_inv p -> call_bulk_ok c ->
  c_send ver comm p c rnd = (rid, p', r) ->
  rid = next_id rnd /\ pool_inv p' /\
  (forall pd rq, call_pdu c rid = Ok pd -> req_of_pdu pd = Some rq ->
     (len (enc_cmsg ver comm rq) <= BUF_MAX_SIZE -> r = Ok (enc_cmsg ver comm rq)) /\
     (BUF_MAX_SIZE < len (enc_cmsg ver comm rq) -> r = Err OutOfBuffer)) /\
  (forall e, call_pdu c rid = Err e -> r = Err InvalidData /\ p' = p) /\
  r <> Panic.
Proof.
  intros ver comm p c rnd rid p' r Hver Hp Hmr H. unfold c_send in H.
  destruct (call_pdu_spec c (next_id rnd)) as (Hok & Herr & Hnp).
  destruct (call_pdu c (next_id rnd)) as [pd|e|] eqn:Ec; [| |contradiction].
  - destruct (Hok pd eq_refl) as (rq & Hrq & Hcr & _).
    assert (Hrok : req_ok rq) by (eapply call_req_ok; [exact Hcr|apply next_id_in_range|exact Hmr]).
    destruct (acquire p) as [b p1] eqn:Ea. destruct (acquire_inv _ _ _ Hp Ea) as [Hb Hp1].
    assert (Hb0 : blen b = 0) by (unfold blen; rewrite Hb; apply len_nil).
    rewrite (push_cmsg_emits_rec ver b comm pd rq Hb0 Hver Hrq Hrok) in H.
    destruct (emits_fresh b (enc_cmsg ver comm rq) (bookmark b) Hb) as [Hfit Hover].
    destruct (Z_le_gt_dec (len (enc_cmsg ver comm rq)) BUF_MAX_SIZE) as [Hl|Hl].
    + rewrite (Hfit Hl) in H. cbn [data] in H. inversion H; subst. rewrite Ec. split; [reflexivity|].
      split; [apply release_inv; exact Hp1|]. split; [|split; [intros e He; discriminate He|discriminate]].
      intros pd' rq' Hpd' Hrq'. inversion Hpd'; subst pd'. assert (rq' = rq) by congruence. subst rq'.
      split; [reflexivity|lia].
    + rewrite (Hover ltac:(lia)) in H. inversion H; subst. rewrite Ec. split; [reflexivity|].
      split; [apply release_inv; exact Hp1|]. split; [|split; [intros e He; discriminate He|discriminate]].
      intros pd' rq' Hpd' Hrq'. inversion Hpd'; subst pd'. assert (rq' = rq) by congruence. subst rq'.
      split; [lia|reflexivity].
  - inversion H; subst. rewrite Ec. split; [reflexivity|]. split; [exact Hp|].
    split; [intros pd rq Hpd; discriminate Hpd|]. split; [|discriminate].
    intros e' He'. inversion He'; subst e'. destruct (Herr e eq_refl) as [-> _]. split; reflexivity.
Qed.

(* the same in equational form *)
Corollary c_send_result : forall ver comm p c rnd,
  0 <= ver < 128 -> pool_inv p -> call_bulk_ok c ->
  snd (c_send ver comm p c rnd) =
  match call_pdu c (next_id rnd) with
  | Ok pd => match req_of_pdu pd with
             | Some rq => if len (enc_cmsg ver comm rq) <=? BUF_MAX_SIZE then Ok (enc_cmsg ver comm rq)
                          else Err OutOfBuffer
             | None => Err NotImplemented
             end
  | Err _ => Err InvalidData
  | Panic => Panic
  end.
Proof.
  intros ver comm p c rnd Hver Hp Hmr.
  destruct (c_send ver comm p c rnd) as [[rid p'] r] eqn:E. cbn [snd].
  destruct (c_send_spec _ _ _ _ _ _ _ _ Hver Hp Hmr E) as (-> & _ & Hok & Herr & Hnp).
  destruct (call_pdu_spec c (next_id rnd)) as (Hs & _ & Hcp).
  destruct (call_pdu c (next_id rnd)) as [pd|e|] eqn:Ec; [| |contradiction].
  - destruct (Hs pd eq_refl) as (rq & Hrq & _). rewrite Hrq. destruct (Hok pd rq eq_refl Hrq) as [H1 H2].
    destruct (len (enc_cmsg ver comm rq) <=? BUF_MAX_SIZE) eqn:El.
    + apply H1. apply Z.leb_le. exact El.
    + apply H2. apply Z.leb_gt. exact El.
  - destruct (Herr e eq_refl) as [-> _]. reflexivity.
Qed.

(* history independence: what is sent does not depend on what the pool went through *)
Theorem c_send_history_independent : forall ver comm c rnd p1 p2,
  0 <= ver < 128 -> call_bulk_ok c -> pool_inv p1 -> pool_inv p2 ->
  snd (c_send ver comm p1 c rnd) = snd (c_send ver comm p2 c rnd) /\
  fst (fst (c_send ver comm p1 c rnd)) = fst (fst (c_send ver comm p2 c rnd)).
Proof.
  intros ver comm c rnd p1 p2 Hver Hmr H1 H2. split.
  - rewrite !c_send_result by assumption. reflexivity.
  - unfold c_send. destruct (call_pdu c (next_id rnd)); [|reflexivity|reflexivity].
    destruct (acquire p1) as [b1 q1]. destruct (acquire p2) as [b2 q2].
    destruct (push_cmsg ver b1 _); destruct (push_cmsg ver b2 _); reflexivity.
Qed.

(* a whole session: any sequence of calls from the empty pool *)
Fixpoint c_session (ver : Z) (comm : bytes) (p : pool) (calls : list (call * Z)) : list (res bytes) :=
  match calls with
  | [] => []
  | (c, rnd) :: rest => let '(_, p', r) := c_send ver comm p c rnd in r :: c_session ver comm p' rest
  end.

Theorem c_session_spec : forall ver comm calls p,
  0 <= ver < 128 -> pool_inv p -> Forall (fun cr => call_bulk_ok (fst cr)) calls ->
  c_session ver comm p calls = map (fun cr => snd (c_send ver comm [] (fst cr) (snd cr))) calls.
Proof.
  intros ver comm calls. induction calls as [|[c rnd] rest IH]; intros p Hver Hp Hall; [reflexivity|].
  inversion Hall as [|? ? Hc Hrest]; subst. cbn [fst] in Hc. cbn [c_session map fst snd].
  destruct (c_send ver comm p c rnd) as [[rid p'] r] eqn:E.
  destruct (c_send_spec _ _ _ _ _ _ _ _ Hver Hp Hc E) as (_ & Hp' & _).
  f_equal.
  - destruct (c_send_history_independent ver comm c rnd p [] Hver Hc Hp pool_inv_nil) as [Hs _].
    rewrite E in Hs. exact Hs.
  - apply IH; assumption.
Qed.

(* ================================================================== *)
(* C14: GetNext or GetBulk                                             *)
(* ================================================================== *)

Theorem fetch_policy : forall v allow, session_allow_bulk v allow = true <-> v <> V1 /\ allow = true.
Proof.
  intros v allow. destruct v; cbn [session_allow_bulk]; split.
  - intros H. discriminate H.
  - intros [H _]. contradiction.
  - intros H. split; [discriminate|exact H].
  - intros [_ H]. exact H.
  - intros H. split; [discriminate|exact H].
  - intros [_ H]. exact H.
Qed.

Theorem effective_max_rep_spec : forall requested dflt,
  (requested = None \/ requested = Some 0 -> effective_max_rep requested dflt = dflt) /\
  (forall m, requested = Some m -> m <> 0 -> effective_max_rep requested dflt = m).
Proof.
  intros requested dflt. split.
  - intros [->| ->]; reflexivity.
  - intros m -> Hm. cbn [effective_max_rep]. destruct (m =? 0) eqn:E; [apply Z.eqb_eq in E; contradiction|reflexivity].
Qed.

Corollary fetch_walk_policy : forall fuel a v allow mr base,
  fetch_walk fuel a v allow mr base =
  match v with
  | V1 => getnext_walk fuel a base
  | _ => if allow then getbulk_walk fuel a base mr else getnext_walk fuel a base
  end.
Proof. intros fuel a v allow mr base. unfold fetch_walk. destruct v; reflexivity. Qed.

(* ================================================================== *)
(* C13: send_request of v3 sessions                                    *)
(* ================================================================== *)

Lemma no_auth_alg : forall a, has_auth a = false -> a = ANoAuth.
Proof. intros [| |] H; [reflexivity|discriminate H|discriminate H]. Qed.

Lemma no_priv_alg : forall a, has_priv a = false -> a = PNoPriv.
Proof. intros [| |] H; [reflexivity|discriminate H|discriminate H]. Qed.

(* encrypting advances the salt only: algorithm, key and pre-IV stay *)
Lemma priv_encrypt_key : forall k sc boots time,
  pk_alg (fst (priv_encrypt k sc boots time)) = pk_alg k /\
  pk_key (fst (priv_encrypt k sc boots time)) = pk_key k /\
  pk_pre_iv (fst (priv_encrypt k sc boots time)) = pk_pre_iv k.
Proof.
  intros k sc boots time. unfold priv_encrypt. destruct (pk_alg k) eqn:E; cbn [fst pk_alg pk_key pk_pre_iv]; auto.
Qed.

(* push_pdu touches the salt and the message id, nothing else *)
Theorem v3_push_pdu_state : forall s p rnd,
  let s' := fst (v3_push_pdu s p rnd) in
  engine_id s' = engine_id s /\ engine_boots s' = engine_boots s /\ engine_time s' = engine_time s /\
  user_name s' = user_name s /\ auth s' = auth s /\ request_id s' = request_id s /\
  pk_alg (privk s') = pk_alg (privk s) /\ pk_key (privk s') = pk_key (privk s) /\
  pk_pre_iv (privk s') = pk_pre_iv (privk s).
Proof.
  intros s p rnd. cbv zeta. unfold v3_push_pdu.
  destruct (has_priv (pk_alg (privk s))).
  - pose proof (priv_encrypt_key (privk s) {| s_engine_id := engine_id s; s_pdu := p |} (engine_boots s) (engine_time s))
      as Hk.
    destruct (priv_encrypt (privk s) {| s_engine_id := engine_id s; s_pdu := p |} (engine_boots s) (engine_time s))
      as [k' [[ct pp]|e|]]; cbn [fst] in *; cbn [with_priv_msgid engine_id engine_boots engine_time user_name auth
      request_id privk]; tauto.
  - cbn [fst with_priv_msgid engine_id engine_boots engine_time user_name auth request_id privk]. tauto.
Qed.

(* a datagram was produced only if the message id was drawn *)
Lemma v3_push_pdu_msg_id : forall s p rnd s' dg, v3_push_pdu s p rnd = (s', Ok dg) -> msg_id s' = next_id rnd.
Proof.
  intros s p rnd s' dg H. unfold v3_push_pdu in H. destruct (has_priv (pk_alg (privk s))).
  - destruct (priv_encrypt (privk s) _ (engine_boots s) (engine_time s)) as [k' [[ct pp]|e|]];
      inversion H; subst; try reflexivity.
  - inversion H; subst. reflexivity.
Qed.

(* the reportable flag: a GetRequest without varbinds *)
Definition is_probe (p : pdu) : bool :=
  match p with PGetRequest g => match g_vars g with [] => true | _ => false end | _ => false end.

Lemma v3_message_fields : forall s p mid pp d,
  m_msg_id (v3_message s p mid pp d) = mid /\
  m_flag_auth (v3_message s p mid pp d) = has_auth (ak_alg (auth s)) /\
  m_flag_priv (v3_message s p mid pp d) = has_priv (pk_alg (privk s)) /\
  m_flag_report (v3_message s p mid pp d) = is_probe p /\
  m_usm (v3_message s p mid pp d) =
    {| u_engine_id := engine_id s; u_engine_boots := engine_boots s; u_engine_time := engine_time s;
       u_user_name := user_name s; u_auth_params := placeholder (ak_alg (auth s)); u_privacy_params := pp |} /\
  m_data (v3_message s p mid pp d) = d.
Proof. intros s p mid pp d. repeat split. Qed.

Lemma v3_message_flags : forall s p mid pp d,
  flags_octet (v3_message s p mid pp d) =
  (if has_auth (ak_alg (auth s)) then 1 else 0) + (if has_priv (pk_alg (privk s)) then 2 else 0)
  + (if is_probe p then 4 else 0).
Proof. reflexivity. Qed.

Definition v3_plain_usm (s : v3sock) : usm_fields :=
  {| uf_engine_id := engine_id s; uf_boots := engine_boots s; uf_time := engine_time s;
     uf_user := user_name s; uf_auth := []; uf_priv := [] |}.

(* noAuthNoPriv: the datagram is the reference encoding, or OutOfBuffer when it does not fit *)
Theorem v3_push_pdu_plain : forall s p rnd r,
  has_auth (ak_alg (auth s)) = false -> has_priv (pk_alg (privk s)) = false ->
  in_range (engine_boots s) -> in_range (engine_time s) ->
  req_of_pdu p = Some r -> req_ok r ->
  let E := enc_v3 (next_id rnd) V3_MAX_SIZE (if is_probe p then 4 else 0) (v3_plain_usm s)
                  (enc_scoped (engine_id s) r) in
  v3_push_pdu s p rnd =
  (with_priv_msgid s (privk s) (next_id rnd), if len E <=? BUF_MAX_SIZE then Ok E else Err OutOfBuffer).
Proof.
  intros s p rnd r Ha Hp Hb Ht Hr Hok E. unfold v3_push_pdu. rewrite Hp. f_equal.
  set (sc := {| s_engine_id := engine_id s; s_pdu := p |}).
  set (m := v3_message s p (next_id rnd) [] (Plaintext sc)).
  assert (HE : enc_v3_of m (enc_scoped (engine_id s) r) = E).
  { unfold enc_v3_of, E. subst m. rewrite v3_message_flags, Ha, Hp. unfold v3_message. cbn [m_msg_id m_usm].
    unfold usm_fields_of, v3_plain_usm. cbn [u_engine_id u_engine_boots u_engine_time u_user_name u_auth_params
      u_privacy_params]. apply no_auth_alg in Ha. rewrite Ha. reflexivity. }
  assert (Hm : v3_ok m).
  { unfold v3_ok. subst m. cbn [v3_message m_msg_id m_usm u_engine_boots u_engine_time].
    split; [apply next_id_in_range|]. split; assumption. }
  assert (Hd : msgdata_spec (m_data m) (enc_scoped (engine_id s) r)).
  { subst m. cbn [v3_message m_data msgdata_spec]. exists r. subst sc. cbn [s_pdu s_engine_id]. auto. }
  unfold v3_finish. rewrite (push_v3_emits_bm empty_buffer m _ eq_refl Hm Hd). rewrite HE.
  destruct (emits_fresh empty_buffer E (v3_bookmark empty_buffer m (enc_scoped (engine_id s) r)) eq_refl) as [Hfit Hover].
  destruct (len E <=? BUF_MAX_SIZE) eqn:El.
  - apply Z.leb_le in El. rewrite (Hfit El). cbn [bind data]. unfold alg_sign.
    apply no_auth_alg in Ha. rewrite Ha. reflexivity.
  - apply Z.leb_gt in El. rewrite (Hover El). reflexivity.
Qed.

(* calls whose PDU is a GetRequest without varbinds: refresh, and get_many of nothing *)
Definition call_reportable (c : call) : bool :=
  match c with CRefresh => true | CGetMany [] => true | _ => false end.

Lemma call_pdu_probe : forall c rid pd, call_pdu c rid = Ok pd -> is_probe pd = call_reportable c.
Proof.
  intros c rid pd H. destruct c as [t|ts|it|it|]; cbn [call_pdu] in H.
  - destruct (oid_of_text t); cbn [bind] in H; try discriminate H. inversion H. reflexivity.
  - destruct (parse_oids ts) as [os|e|] eqn:Eo; cbn [bind] in H; try discriminate H. inversion H.
    apply parse_oids_ok in Eo. apply Forall2_parses_length in Eo.
    cbn [is_probe g_vars call_reportable]. destruct ts; destruct os; try discriminate Eo; reflexivity.
  - inversion H. reflexivity.
  - inversion H. reflexivity.
  - inversion H. reflexivity.
Qed.

(* v3_send: the socket's request id is always replaced, whatever happens next *)
Theorem v3_send_state : forall s c rnd_req rnd_msg s' res,
  v3_send s c rnd_req rnd_msg = (s', res) ->
  request_id s' = next_id rnd_req /\
  engine_id s' = engine_id s /\ engine_boots s' = engine_boots s /\ engine_time s' = engine_time s /\
  user_name s' = user_name s /\ auth s' = auth s /\
  pk_alg (privk s') = pk_alg (privk s) /\ pk_key (privk s') = pk_key (privk s) /\
  pk_pre_iv (privk s') = pk_pre_iv (privk s) /\
  (forall dg, res = Ok dg -> msg_id s' = next_id rnd_msg) /\
  (call_pdu c (next_id rnd_req) <> Ok (match call_pdu c (next_id rnd_req) with Ok pd => pd | _ => PReport [] end) ->
   s' = with_request_id s (next_id rnd_req)).
Proof.
  intros s c rnd_req rnd_msg s' res H. unfold v3_send in H.
  destruct (call_pdu c (next_id rnd_req)) as [pd|e|] eqn:Ec.
  - pose proof (v3_push_pdu_state (with_request_id s (next_id rnd_req)) pd rnd_msg) as Hs. cbv zeta in Hs.
    rewrite H in Hs. cbn [fst] in Hs. cbn [with_request_id engine_id engine_boots engine_time user_name auth
      request_id privk] in Hs.
    destruct Hs as (H1 & H2 & H3 & H4 & H5 & H6 & H7 & H8 & H9).
    repeat (split; [assumption|]). split.
    + intros dg ->. eapply v3_push_pdu_msg_id. exact H.
    + intros Hn. exfalso. apply Hn. reflexivity.
  - inversion H; subst. cbn [with_request_id engine_id engine_boots engine_time user_name auth request_id privk].
    repeat (split; [reflexivity|]). split; [intros dg Hdg; discriminate Hdg|reflexivity].
  - inversion H; subst. cbn [with_request_id engine_id engine_boots engine_time user_name auth request_id privk].
    repeat (split; [reflexivity|]). split; [intros dg Hdg; discriminate Hdg|reflexivity].
Qed.

(* when from_python refuses the call nothing but the request id changes and nothing is sent *)
Corollary v3_send_refused : forall s c rnd_req rnd_msg e,
  call_pdu c (next_id rnd_req) = Err e ->
  v3_send s c rnd_req rnd_msg = (with_request_id s (next_id rnd_req), Err InvalidData).
Proof.
  intros s c rnd_req rnd_msg e H. unfold v3_send. rewrite H.
  destruct (call_pdu_spec c (next_id rnd_req)) as (_ & He & _). destruct (He e H) as [-> _]. reflexivity.
Qed.

(* noAuthNoPriv sessions: exactly the reference message *)
Theorem v3_send_spec : forall s c rnd_req rnd_msg s' dg,
  has_auth (ak_alg (auth s)) = false -> has_priv (pk_alg (privk s)) = false ->
  in_range (engine_boots s) -> in_range (engine_time s) -> call_bulk_ok c ->
  v3_send s c rnd_req rnd_msg = (s', Ok dg) ->
  exists pd rq,
    call_pdu c (next_id rnd_req) = Ok pd /\ req_of_pdu pd = Some rq /\ call_req c (next_id rnd_req) rq /\
    dg = enc_v3 (next_id rnd_msg) V3_MAX_SIZE (if call_reportable c then 4 else 0)
                {| uf_engine_id := engine_id s; uf_boots := engine_boots s; uf_time := engine_time s;
                   uf_user := user_name s; uf_auth := []; uf_priv := [] |}
                (enc_scoped (engine_id s) rq) /\
    len dg <= BUF_MAX_SIZE /\
    request_id s' = next_id rnd_req /\ msg_id s' = next_id rnd_msg /\
    s' = {| engine_id := engine_id s; engine_boots := engine_boots s; engine_time := engine_time s;
            user_name := user_name s; auth := auth s; privk := privk s;
            msg_id := next_id rnd_msg; request_id := next_id rnd_req |}.
Proof.
  intros s c rnd_req rnd_msg s' dg Ha Hp Hb Ht Hmr H. unfold v3_send in H.
  destruct (call_pdu_spec c (next_id rnd_req)) as (Hok & _ & _).
  destruct (call_pdu c (next_id rnd_req)) as [pd|e|] eqn:Ec; [|inversion H|inversion H].
  destruct (Hok pd eq_refl) as (rq & Hrq & Hcr & _).
  assert (Hrok : req_ok rq) by (eapply call_req_ok; [exact Hcr|apply next_id_in_range|exact Hmr]).
  rewrite (v3_push_pdu_plain (with_request_id s (next_id rnd_req)) pd rnd_msg rq Ha Hp Hb Ht Hrq Hrok) in H.
  rewrite (call_pdu_probe _ _ _ Ec) in H.
  change (v3_plain_usm (with_request_id s (next_id rnd_req))) with (v3_plain_usm s) in H.
  change (engine_id (with_request_id s (next_id rnd_req))) with (engine_id s) in H.
  unfold v3_plain_usm in H.
  match type of H with (_, if ?c then _ else _) = _ => destruct c eqn:El end; [|inversion H].
  inversion H; subst. apply Z.leb_le in El.
  exists pd, rq. repeat (split; [assumption || reflexivity|]). reflexivity.
Qed.

(* and it fails with OutOfBuffer exactly when that message does not fit the buffer *)
Theorem v3_send_plain_result : forall s c rnd_req rnd_msg pd rq,
  has_auth (ak_alg (auth s)) = false -> has_priv (pk_alg (privk s)) = false ->
  in_range (engine_boots s) -> in_range (engine_time s) -> call_bulk_ok c ->
  call_pdu c (next_id rnd_req) = Ok pd -> req_of_pdu pd = Some rq ->
  let E := enc_v3 (next_id rnd_msg) V3_MAX_SIZE (if call_reportable c then 4 else 0) (v3_plain_usm s)
                  (enc_scoped (engine_id s) rq) in
  snd (v3_send s c rnd_req rnd_msg) = if len E <=? BUF_MAX_SIZE then Ok E else Err OutOfBuffer.
Proof.
  intros s c rnd_req rnd_msg pd rq Ha Hp Hb Ht Hmr Ec Hrq E. unfold v3_send. rewrite Ec.
  destruct (call_pdu_spec c (next_id rnd_req)) as (Hok & _ & _).
  destruct (Hok pd Ec) as (rq' & Hrq' & Hcr & _). assert (rq' = rq) by congruence. subst rq'.
  assert (Hrok : req_ok rq) by (eapply call_req_ok; [exact Hcr|apply next_id_in_range|exact Hmr]).
  rewrite (v3_push_pdu_plain (with_request_id s (next_id rnd_req)) pd rnd_msg rq Ha Hp Hb Ht Hrq Hrok).
  rewrite (call_pdu_probe _ _ _ Ec). reflexivity.
Qed.

(* sessions with authentication and / or privacy: what does not depend on the cryptography.
   The message that is serialised carries the socket's engine id, boots, time and user name, the drawn
   message id, the flag bits of the session, and the reportable bit exactly for refresh *)
Theorem v3_send_message : forall s c rnd_req rnd_msg s' dg,
  v3_send s c rnd_req rnd_msg = (s', Ok dg) ->
  exists pd pp d,
    call_pdu c (next_id rnd_req) = Ok pd /\
    let s1 := with_request_id s (next_id rnd_req) in
    let m := v3_message s1 pd (next_id rnd_msg) pp d in
    v3_finish s1 m = Ok dg /\
    flags_octet m = (if has_auth (ak_alg (auth s)) then 1 else 0) + (if has_priv (pk_alg (privk s)) then 2 else 0)
                    + (if call_reportable c then 4 else 0) /\
    m_msg_id m = next_id rnd_msg /\
    u_engine_id (m_usm m) = engine_id s /\ u_engine_boots (m_usm m) = engine_boots s /\
    u_engine_time (m_usm m) = engine_time s /\ u_user_name (m_usm m) = user_name s /\
    (if has_priv (pk_alg (privk s))
     then exists k' ct, priv_encrypt (privk s) {| s_engine_id := engine_id s; s_pdu := pd |}
                                     (engine_boots s) (engine_time s) = (k', Ok (ct, pp)) /\ d = Encrypted ct
     else pp = [] /\ d = Plaintext {| s_engine_id := engine_id s; s_pdu := pd |}) /\
    request_id s' = next_id rnd_req /\ msg_id s' = next_id rnd_msg.
Proof.
  intros s c rnd_req rnd_msg s' dg H. pose proof H as H0. unfold v3_send in H.
  destruct (call_pdu c (next_id rnd_req)) as [pd|e|] eqn:Ec; [|inversion H|inversion H].
  destruct (v3_send_state _ _ _ _ _ _ H0) as (Hrid & _ & _ & _ & _ & _ & _ & _ & _ & Hmid & _).
  specialize (Hmid dg eq_refl).
  unfold v3_push_pdu in H.
  change (privk (with_request_id s (next_id rnd_req))) with (privk s) in H.
  change (engine_id (with_request_id s (next_id rnd_req))) with (engine_id s) in H.
  change (engine_boots (with_request_id s (next_id rnd_req))) with (engine_boots s) in H.
  change (engine_time (with_request_id s (next_id rnd_req))) with (engine_time s) in H.
  destruct (has_priv (pk_alg (privk s))) eqn:Ep.
  - destruct (priv_encrypt (privk s) {| s_engine_id := engine_id s; s_pdu := pd |} (engine_boots s) (engine_time s))
      as [k' [[ct pp]|e|]] eqn:Ee; try discriminate H; injection H as Hs Hf.
    exists pd, pp, (Encrypted ct). split; [reflexivity|]. cbv zeta. split; [exact Hf|].
    split; [rewrite v3_message_flags, (call_pdu_probe _ _ _ Ec); cbn [with_request_id auth privk]; rewrite Ep; reflexivity|].
    repeat (split; [reflexivity|]). split; [exists k', ct; split; [exact Ee|reflexivity]|]. split; assumption.
  - injection H as Hs Hf.
    exists pd, [], (Plaintext {| s_engine_id := engine_id s; s_pdu := pd |}). split; [reflexivity|]. cbv zeta.
    split; [exact Hf|].
    split; [rewrite v3_message_flags, (call_pdu_probe _ _ _ Ec); cbn [with_request_id auth privk]; rewrite Ep; reflexivity|].
    repeat (split; [reflexivity|]). split; [split; reflexivity|]. split; assumption.
Qed.

(* ------------------------------------------------------------------ *)
(* concrete checks (closed, finite): the model, run, agrees with the statements *)

Example c_send_example :
  (* "1.3.6.1.2.1.1.3.0" through a pool that has seen use *)
  let t := [49; 46; 51; 46; 54; 46; 49; 46; 50; 46; 49; 46; 49; 46; 51; 46; 48] in
  let dirty := {| data := [1; 2; 3]; bookmark := 17 |} in
  snd (c_send 1 [112; 117; 98] (release [] dirty) (CGet t) 305419896) =
  Ok (enc_cmsg 1 [112; 117; 98] (RGet 305419896 [[43; 6; 1; 2; 1; 1; 3; 0]])).
Proof. vm_compute. reflexivity. Qed.

(* the pool invariant is needed: a buffer put back without reset corrupts the next message *)
Example c_send_needs_pool_inv :
  let dirty := {| data := [1; 2; 3]; bookmark := 0 |} in
  snd (c_send 1 [] [dirty] CRefresh 1) <> snd (c_send 1 [] [] CRefresh 1).
Proof. vm_compute. discriminate. Qed.

(* get_many of an empty list is a GetRequest without varbinds: in a v3 session it goes out with the
   reportable flag, like refresh *)
Example getmany_empty_is_probe : call_pdu (CGetMany []) 7 = call_pdu CRefresh 7.
Proof. reflexivity. Qed.

(* Print Assumptions (observed with coqc 8.16.1): each prints "Closed under the global context"
     next_id_range call_pdu_spec call_pdu_complete c_send_spec c_send_result c_send_history_independent
     c_session_spec pool_inv_always fetch_policy effective_max_rep_spec v3_push_pdu_state v3_push_pdu_plain
     v3_send_state v3_send_spec v3_send_plain_result v3_send_message *)

(* GS.Proofs.HashStream
   The streaming laws for the MD5 and SHA-1 models: feeding a message in
   pieces through [update] is the same as feeding it in one piece.

   The generic section proves everything once for the shared streaming
   layer of HashCommon.v; the md5_* / sha1_* statements at the end are
   the instances that clients should use. *)
From Coq Require Import ZArith List Lia.
From GS Require Import Model.Crypto.HashCommon Model.Crypto.MD5 Model.Crypto.SHA1.
Import ListNotations.
Open Scope Z_scope.

(* ------------------------------------------------------------------ *)
(* Generic streaming layer                                              *)
(* ------------------------------------------------------------------ *)

Section StreamProofs.
  Variable H : Type.
  Variable compress : H -> list Z -> H.

  (* well-formed state: the cached length is right and the pending block
     is a proper partial block *)
  Definition hs_wf (s : hstate H) : Prop :=
    hs_plen s = Z.of_nat (length (hs_pend s)) /\ (length (hs_pend s) < 64)%nat.

  Lemma hs_wf_start : forall iv : H, hs_wf (hs_start iv).
  Proof.
    intro iv. unfold hs_wf, hs_start. cbn [hs_plen hs_pend length].
    split; [reflexivity | lia].
  Qed.

  Lemma hs_feed_wf : forall s b, hs_wf s -> hs_wf (hs_feed compress s b).
  Proof.
    intros s b [Hp Hl]. unfold hs_feed.
    destruct (hs_plen s =? 63) eqn:E.
    - unfold hs_wf. cbn [hs_plen hs_pend length]. split; [reflexivity | lia].
    - apply Z.eqb_neq in E. unfold hs_wf. cbn [hs_plen hs_pend length].
      rewrite Nat2Z.inj_succ. split; lia.
  Qed.

  Lemma hs_update_nil : forall s, hs_update compress s [] = s.
  Proof. reflexivity. Qed.

  Lemma hs_update_cons : forall s b l,
    hs_update compress s (b :: l) = hs_update compress (hs_feed compress s b) l.
  Proof. reflexivity. Qed.

  Lemma hs_update_wf : forall l s, hs_wf s -> hs_wf (hs_update compress s l).
  Proof.
    induction l as [|b l IH]; intros s Hs.
    - exact Hs.
    - rewrite hs_update_cons. apply IH. apply hs_feed_wf. exact Hs.
  Qed.

  (* The streaming law.  With the byte-at-a-time definition of [update]
     it holds for every state, well-formed or not. *)
  Lemma hs_update_app : forall s a b,
    hs_update compress (hs_update compress s a) b = hs_update compress s (a ++ b).
  Proof.
    intros s a b. unfold hs_update. symmetry. apply fold_left_app.
  Qed.

  Lemma hs_update_chunks : forall chunks s,
    fold_left (hs_update compress) chunks s = hs_update compress s (concat chunks).
  Proof.
    induction chunks as [|c cs IH]; intro s.
    - reflexivity.
    - cbn [fold_left concat]. rewrite IH. apply hs_update_app.
  Qed.

  Lemma hs_feed_total : forall s b,
    hs_total (hs_feed compress s b) = hs_total s + 1.
  Proof.
    intros s b. unfold hs_feed. destruct (hs_plen s =? 63); reflexivity.
  Qed.

  Lemma hs_update_total : forall l s,
    hs_total (hs_update compress s l) = hs_total s + Z.of_nat (length l).
  Proof.
    induction l as [|b l IH]; intro s.
    - cbn [length]. rewrite hs_update_nil. lia.
    - rewrite hs_update_cons, IH, hs_feed_total.
      cbn [length]. rewrite Nat2Z.inj_succ. lia.
  Qed.

  (* --- what [update] does, block by block --- *)

  (* as long as the block does not fill up, bytes are only buffered *)
  Lemma hs_update_short : forall l s,
    hs_wf s -> (length (hs_pend s) + length l < 64)%nat ->
    hs_update compress s l =
    mk_hstate (hs_h s) (hs_total s + Z.of_nat (length l))
              (hs_plen s + Z.of_nat (length l)) (rev l ++ hs_pend s).
  Proof.
    induction l as [|b l IH]; intros s Hwf Hlen.
    - rewrite hs_update_nil. destruct s as [h t p q].
      cbn [hs_h hs_total hs_plen hs_pend length rev app].
      change (Z.of_nat 0) with 0. rewrite !Z.add_0_r. reflexivity.
    - rewrite hs_update_cons.
      assert (Hwf' := hs_feed_wf s b Hwf).
      destruct Hwf as [Hp Hl]. cbn [length] in Hlen.
      assert (E : hs_plen s =? 63 = false) by (apply Z.eqb_neq; lia).
      assert (F : hs_feed compress s b =
                  mk_hstate (hs_h s) (hs_total s + 1) (hs_plen s + 1) (b :: hs_pend s)).
      { unfold hs_feed. rewrite E. reflexivity. }
      rewrite IH.
      + rewrite F. cbn [hs_h hs_total hs_plen hs_pend length rev].
        rewrite Nat2Z.inj_succ. rewrite <- app_assoc. cbn [app].
        f_equal; lia.
      + exact Hwf'.
      + rewrite F. cbn [hs_pend length]. lia.
  Qed.

  (* when the input completes the pending block exactly, that block (the
     buffered bytes in arrival order followed by the input) is compressed *)
  Lemma hs_update_fill : forall l s,
    hs_wf s -> (length (hs_pend s) + length l = 64)%nat ->
    hs_update compress s l =
    mk_hstate (compress (hs_h s) (rev (hs_pend s) ++ l))
              (hs_total s + Z.of_nat (length l)) 0 [].
  Proof.
    intros l s Hwf Hlen.
    destruct (exists_last (l := l)) as [l' [b El]].
    { intro E. subst l. destruct Hwf as [_ Hl]. cbn [length] in Hlen. lia. }
    subst l. rewrite app_length in Hlen. cbn [length] in Hlen.
    rewrite <- hs_update_app.
    rewrite (hs_update_short l' s Hwf) by lia.
    rewrite hs_update_cons, hs_update_nil.
    destruct Hwf as [Hp Hl].
    unfold hs_feed. cbn [hs_h hs_total hs_plen hs_pend].
    assert (E : hs_plen s + Z.of_nat (length l') =? 63 = true) by (apply Z.eqb_eq; lia).
    rewrite E. rewrite rev_append_rev, app_nil_r. cbn [rev].
    rewrite rev_app_distr, rev_involutive, <- app_assoc.
    rewrite app_length. cbn [length]. rewrite Nat2Z.inj_add.
    change (Z.of_nat 1) with 1. rewrite Z.add_assoc. reflexivity.
  Qed.

  (* in particular a whole block fed to an empty buffer is compressed as is *)
  Lemma hs_update_block : forall blk s,
    hs_wf s -> hs_pend s = [] -> length blk = 64%nat ->
    hs_update compress s blk =
    mk_hstate (compress (hs_h s) blk) (hs_total s + 64) 0 [].
  Proof.
    intros blk s Hwf Hp Hb.
    rewrite hs_update_fill by (auto; rewrite Hp, Hb; reflexivity).
    rewrite Hp, Hb. reflexivity.
  Qed.
End StreamProofs.

Arguments hs_wf {H}.

(* ------------------------------------------------------------------ *)
(* Bytes of the digests                                                 *)
(* ------------------------------------------------------------------ *)

Definition is_byte (b : Z) : Prop := 0 <= b < 256.

Lemma land_255_byte : forall x, is_byte (Z.land x 255).
Proof.
  intro x. unfold is_byte. change 255 with (Z.ones 8).
  rewrite Z.land_ones by lia. apply Z.mod_pos_bound. reflexivity.
Qed.

Lemma le_bytes_bytes : forall w, Forall is_byte (le_bytes w).
Proof. intro w. unfold le_bytes. repeat constructor; apply land_255_byte. Qed.

Lemma be_bytes_bytes : forall w, Forall is_byte (be_bytes w).
Proof. intro w. unfold be_bytes. repeat constructor; apply land_255_byte. Qed.

(* ------------------------------------------------------------------ *)
(* MD5                                                                  *)
(* ------------------------------------------------------------------ *)

Definition md5_wf (s : md5_state) : Prop := hs_wf s.

Theorem md5_wf_init : md5_wf md5_init.
Proof. apply hs_wf_start. Qed.

Theorem md5_update_wf : forall s l, md5_wf s -> md5_wf (md5_update s l).
Proof. intros s l. apply hs_update_wf. Qed.

(* holds for every state; [md5_update_app_wf] is the same statement with
   the (unneeded) well-formedness premise *)
Theorem md5_update_app : forall s a b,
  md5_update (md5_update s a) b = md5_update s (a ++ b).
Proof. intros. apply hs_update_app. Qed.

Theorem md5_update_app_wf : forall s a b, md5_wf s ->
  md5_update (md5_update s a) b = md5_update s (a ++ b).
Proof. intros s a b _. apply md5_update_app. Qed.

Theorem md5_update_chunks : forall chunks s,
  fold_left md5_update chunks s = md5_update s (concat chunks).
Proof. intros. apply hs_update_chunks. Qed.

Theorem md5_stream : forall chunks,
  md5_final (fold_left md5_update chunks md5_init) = md5 (concat chunks).
Proof. intro chunks. unfold md5. rewrite md5_update_chunks. reflexivity. Qed.

Theorem md5_update_total : forall s l,
  hs_total (md5_update s l) = hs_total s + Z.of_nat (length l).
Proof. intros. apply hs_update_total. Qed.

Theorem md5_update_block : forall s blk,
  md5_wf s -> hs_pend s = [] -> length blk = 64%nat ->
  md5_update s blk = mk_hstate (md5_compress (hs_h s) blk) (hs_total s + 64) 0 [].
Proof. intros. apply hs_update_block; assumption. Qed.

Theorem md5_final_length : forall s, length (md5_final s) = 16%nat.
Proof.
  intro s. unfold md5_final.
  destruct (hs_finish md5_compress (le64_bytes (8 * hs_total s)) s) as [[[a b] c] d].
  reflexivity.
Qed.

Theorem md5_final_bytes : forall s, Forall is_byte (md5_final s).
Proof.
  intro s. unfold md5_final.
  destruct (hs_finish md5_compress (le64_bytes (8 * hs_total s)) s) as [[[a b] c] d].
  repeat (apply Forall_app; split); apply le_bytes_bytes.
Qed.

(* ------------------------------------------------------------------ *)
(* SHA-1                                                                *)
(* ------------------------------------------------------------------ *)

Definition sha1_wf (s : sha1_state) : Prop := hs_wf s.

Theorem sha1_wf_init : sha1_wf sha1_init.
Proof. apply hs_wf_start. Qed.

Theorem sha1_update_wf : forall s l, sha1_wf s -> sha1_wf (sha1_update s l).
Proof. intros s l. apply hs_update_wf. Qed.

Theorem sha1_update_app : forall s a b,
  sha1_update (sha1_update s a) b = sha1_update s (a ++ b).
Proof. intros. apply hs_update_app. Qed.

Theorem sha1_update_app_wf : forall s a b, sha1_wf s ->
  sha1_update (sha1_update s a) b = sha1_update s (a ++ b).
Proof. intros s a b _. apply sha1_update_app. Qed.

Theorem sha1_update_chunks : forall chunks s,
  fold_left sha1_update chunks s = sha1_update s (concat chunks).
Proof. intros. apply hs_update_chunks. Qed.

Theorem sha1_stream : forall chunks,
  sha1_final (fold_left sha1_update chunks sha1_init) = sha1 (concat chunks).
Proof. intro chunks. unfold sha1. rewrite sha1_update_chunks. reflexivity. Qed.

Theorem sha1_update_total : forall s l,
  hs_total (sha1_update s l) = hs_total s + Z.of_nat (length l).
Proof. intros. apply hs_update_total. Qed.

Theorem sha1_update_block : forall s blk,
  sha1_wf s -> hs_pend s = [] -> length blk = 64%nat ->
  sha1_update s blk = mk_hstate (sha1_compress (hs_h s) blk) (hs_total s + 64) 0 [].
Proof. intros. apply hs_update_block; assumption. Qed.

Theorem sha1_final_length : forall s, length (sha1_final s) = 20%nat.
Proof.
  intro s. unfold sha1_final.
  destruct (hs_finish sha1_compress (be64_bytes (8 * hs_total s)) s) as [[[[a b] c] d] e].
  reflexivity.
Qed.

Theorem sha1_final_bytes : forall s, Forall is_byte (sha1_final s).
Proof.
  intro s. unfold sha1_final.
  destruct (hs_finish sha1_compress (be64_bytes (8 * hs_total s)) s) as [[[[a b] c] d] e].
  repeat (apply Forall_app; split); apply be_bytes_bytes.
Qed.

Print Assumptions md5_update_app.
Print Assumptions md5_update_wf.
Print Assumptions md5_stream.
Print Assumptions md5_update_block.
Print Assumptions sha1_update_app.
Print Assumptions sha1_update_wf.
Print Assumptions sha1_stream.
Print Assumptions sha1_update_block.

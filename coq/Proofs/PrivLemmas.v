(* Helper lemmas for the privacy proofs (C11, C14): big-endian words, zero padding, xor of octet strings,
   the RFC 3414 / RFC 3826 IVs, octet ranges through CBC / CFB decryption and the AES-128 forward cipher,
   installed key states, the padded plaintext of Model/Priv.v. *)
From GS Require Import Model.Base Gen.Constants Model.Ber Model.Pdu Model.Buffer Model.Priv
  Spec.X690 Spec.Rfc3414.
From GS Require Model.Crypto.DES Model.Crypto.AES Model.Crypto.Modes.
From GS Require Import Proofs.ByteRange Proofs.ModesProofs Proofs.DESInverse Proofs.AESProps
  Proofs.CipherRoundTrips.
From GS Require Import Proofs.BufferProofs Proofs.IntEncProofs Proofs.EncodeProofs Proofs.RoundTrip.
From GS Require Import Proofs.BaseLemmas.
From Coq Require Import ZArith List Bool Lia Arith.
Import ListNotations.
Open Scope Z_scope.
Open Scope bool_scope.

(* ------------------------------------------------------------------ *)
(** * nat / Z bookkeeping *)

Lemma len_eq_length : forall (l : bytes) n, len l = Z.of_nat n <-> length l = n.
Proof. intros l n. unfold len. lia. Qed.

Lemma len_8_length : forall l : bytes, len l = 8 -> length l = 8%nat.
Proof. intros l H. unfold len in H. lia. Qed.

Lemma len_16_length : forall l : bytes, len l = 16 -> length l = 16%nat.
Proof. intros l H. unfold len in H. lia. Qed.

Lemma nat_mod_of_Z : forall n m : nat, (0 < m)%nat -> Z.of_nat n mod Z.of_nat m = 0 -> Nat.modulo n m = 0%nat.
Proof.
  intros n m Hm H. apply Nat2Z.inj. rewrite Nat2Z.inj_mod. exact H.
Qed.

Lemma wfb_byte_range : forall l, wfb l <-> Forall byte_range l.
Proof. intros l. unfold wfb, byte_range. reflexivity. Qed.

(* ------------------------------------------------------------------ *)
(** * big-endian words: the model agrees with the reference, lengths, ranges, injectivity *)

Lemma be32_eq_spec : forall v, be32 v = be32_spec v.
Proof.
  intros v. unfold be32, be32_spec. rewrite !Z.shiftr_div_pow2 by lia.
  change (2 ^ 24) with 16777216. change (2 ^ 16) with 65536. change (2 ^ 8) with 256. reflexivity.
Qed.

Lemma be64_eq_spec : forall v, be64 v = be64_spec v.
Proof.
  intros v. unfold be64, be64_spec. rewrite !be32_eq_spec. rewrite Z.shiftr_div_pow2 by lia.
  change (2 ^ 32) with 4294967296. reflexivity.
Qed.

Lemma be32_length : forall v, length (be32 v) = 4%nat.
Proof. reflexivity. Qed.

Lemma be64_length : forall v, length (be64 v) = 8%nat.
Proof. reflexivity. Qed.

Lemma len_be32 : forall v, len (be32 v) = 4.
Proof. reflexivity. Qed.

Lemma len_be64 : forall v, len (be64 v) = 8.
Proof. reflexivity. Qed.

Lemma wfb_be32 : forall v, wfb (be32 v).
Proof.
  intros v. unfold be32. repeat (apply wfb_cons; split; [apply Z.mod_pos_bound; lia|]). apply wfb_nil.
Qed.

Lemma wfb_be64 : forall v, wfb (be64 v).
Proof. intros v. unfold be64. apply wfb_app_intro; apply wfb_be32. Qed.

(* the 32-bit word only depends on the low 32 bits *)
Lemma be32_wrap32 : forall v, be32 (wrap32 v) = be32 v.
Proof.
  intros v. rewrite !be32_eq_spec. unfold be32_spec, wrap32.
  assert (H : forall d, 0 < d -> (4294967296 mod (d * 256)) = 0 ->
              (v mod 4294967296) / d mod 256 = v / d mod 256).
  { intros d Hd Hdiv. apply Z.mod_divide in Hdiv; [|lia]. destruct Hdiv as [q Hq].
    assert (Hq0 : 0 < q) by nia.
    rewrite Hq.
    replace (q * (d * 256)) with (d * (256 * q)) by ring.
    rewrite Z.rem_mul_r by lia.
    replace (v mod d + d * (v / d mod (256 * q))) with (v mod d + (v / d mod (256 * q)) * d) by ring.
    rewrite Z.div_add by lia. rewrite (Z.div_small (v mod d) d) by (apply Z.mod_pos_bound; lia).
    rewrite Z.add_0_l. rewrite Z.rem_mul_r by lia.
    rewrite Z.mul_comm, Z.mod_add by lia. apply Z.mod_mod. lia. }
  f_equal; [apply H; [lia|reflexivity]|].
  f_equal; [apply H; [lia|reflexivity]|].
  f_equal; [apply H; [lia|reflexivity]|].
  f_equal. replace 4294967296 with (256 * 16777216) by reflexivity.
  rewrite Z.rem_mul_r by lia. rewrite Z.mul_comm, Z.mod_add by lia. apply Z.mod_mod. lia.
Qed.

Lemma be32_spec_wrap32 : forall v, be32_spec (wrap32 v) = be32_spec v.
Proof. intros v. rewrite <- !be32_eq_spec. apply be32_wrap32. Qed.

(* value of a big-endian 4-octet word *)
Definition word_val (l : bytes) : Z :=
  match l with [a; b; c; d] => ((a * 256 + b) * 256 + c) * 256 + d | _ => 0 end.

Lemma word_val_be32 : forall v, 0 <= v < 4294967296 -> word_val (be32 v) = v.
Proof.
  intros v Hv. rewrite be32_eq_spec. unfold be32_spec, word_val.
  Z.div_mod_to_equations. lia.
Qed.

Lemma be32_inj : forall a b, 0 <= a < 4294967296 -> 0 <= b < 4294967296 -> be32 a = be32 b -> a = b.
Proof.
  intros a b Ha Hb H. rewrite <- (word_val_be32 a Ha), <- (word_val_be32 b Hb), H. reflexivity.
Qed.

Lemma app_inv_length : forall (a b c d : bytes), length a = length c -> a ++ b = c ++ d -> a = c /\ b = d.
Proof.
  induction a as [|x a IH]; intros b c d Hl H; destruct c as [|y c]; cbn [length] in Hl; try discriminate.
  - split; [reflexivity|exact H].
  - cbn [app] in H. inversion H; subst. destruct (IH b c d) as [-> ->]; [lia|assumption|]. split; reflexivity.
Qed.

Lemma be64_inj : forall a b, 0 <= a < 18446744073709551616 -> 0 <= b < 18446744073709551616 ->
  be64 a = be64 b -> a = b.
Proof.
  intros a b Ha Hb H. unfold be64 in H.
  apply app_inv_length in H; [|reflexivity]. destruct H as [Hh Hl].
  apply be32_inj in Hh; [|apply Z.mod_pos_bound; lia|apply Z.mod_pos_bound; lia].
  apply be32_inj in Hl; [|apply Z.mod_pos_bound; lia|apply Z.mod_pos_bound; lia].
  rewrite !Z.shiftr_div_pow2 in Hh by lia. change (2 ^ 32) with 4294967296 in Hh.
  rewrite (Z.mod_small (a / 4294967296)) in Hh by (split; [apply Z.div_pos; lia|apply Z.div_lt_upper_bound; lia]).
  rewrite (Z.mod_small (b / 4294967296)) in Hh by (split; [apply Z.div_pos; lia|apply Z.div_lt_upper_bound; lia]).
  rewrite (Z.div_mod a 4294967296), (Z.div_mod b 4294967296) by lia. rewrite Hh, Hl. reflexivity.
Qed.

(* ------------------------------------------------------------------ *)
(** * zero padding *)

Lemma zeros_length : forall n, length (zeros n) = n.
Proof. induction n as [|n IH]; cbn [zeros length]; congruence. Qed.

Lemma len_zeros : forall n, len (zeros n) = Z.of_nat n.
Proof. intros n. unfold len. rewrite zeros_length. reflexivity. Qed.

Lemma wfb_zeros : forall n, wfb (zeros n).
Proof. induction n as [|n IH]; cbn [zeros]; [apply wfb_nil|]. apply wfb_cons. split; [lia|exact IH]. Qed.

Lemma zeros_eq_zero_bytes : forall n, zeros n = zero_bytes n.
Proof. induction n as [|n IH]; cbn [zeros zero_bytes]; congruence. Qed.

Lemma firstn_zeros : forall n m, (n <= m)%nat -> firstn n (zeros m) = zeros n.
Proof.
  induction n as [|n IH]; intros m H; [reflexivity|].
  destruct m as [|m]; [lia|]. cbn [zeros firstn]. rewrite IH by lia. reflexivity.
Qed.

Lemma takez_zeros : forall p m, 0 <= p <= Z.of_nat m -> takez p (zeros m) = zeros (Z.to_nat p).
Proof. intros p m H. rewrite takez_firstn by lia. apply firstn_zeros. lia. Qed.

(* ------------------------------------------------------------------ *)
(** * xor of octet strings and the RFC IVs *)

Lemma xor_bytes_eq_map : forall a b,
  Modes.xor_bytes a b = map (fun p => Z.lxor (fst p) (snd p)) (combine a b).
Proof.
  induction a as [|x a IH]; intros [|y b]; cbn [Modes.xor_bytes combine map fst snd]; try reflexivity.
  rewrite IH. reflexivity.
Qed.

Lemma wfb_xor_bytes : forall a b, wfb a -> wfb b -> wfb (Modes.xor_bytes a b).
Proof.
  intros a b Ha Hb. apply wfb_byte_range. apply xor_bytes_Forall.
  - exact lxor_byte_range.
  - apply wfb_byte_range. exact Ha.
  - apply wfb_byte_range. exact Hb.
Qed.

(* only the pre-IV part of the localized key matters for the IV *)
Lemma des_pre_iv_app : forall key pre rest, length key = 8%nat -> length pre = 8%nat ->
  des_pre_iv (key ++ pre ++ rest) = pre.
Proof.
  intros key pre rest Hk Hp. unfold des_pre_iv.
  rewrite skipn_app, skipn_all2 by lia. rewrite Hk. cbn [Nat.sub app].
  change (skipn 0 (pre ++ rest)) with (pre ++ rest).
  rewrite firstn_app, firstn_all2 by lia. rewrite Hp. cbn [Nat.sub firstn]. apply app_nil_r.
Qed.

Lemma des_iv_model : forall key pre pp, length key = 8%nat -> length pre = 8%nat ->
  des_iv (key ++ pre) pp = Modes.xor_bytes pp pre.
Proof.
  intros key pre pp Hk Hp. unfold des_iv. rewrite <- (app_nil_r pre) at 1.
  rewrite des_pre_iv_app by assumption. symmetry. apply xor_bytes_eq_map.
Qed.

(* the IV of a key state installed from [localized] is the RFC 3414 IV of [localized] *)
Lemma des_iv_localized : forall localized pp, (16 <= length localized)%nat ->
  des_iv (des_key localized ++ des_pre_iv localized) pp = des_iv localized pp.
Proof.
  intros localized pp Hl. unfold des_iv. f_equal. f_equal.
  assert (Hk : length (des_key localized) = 8%nat) by (unfold des_key; rewrite firstn_length; lia).
  assert (Hp : length (des_pre_iv localized) = 8%nat)
    by (unfold des_pre_iv; rewrite firstn_length, skipn_length; lia).
  rewrite <- (app_nil_r (des_pre_iv localized)) at 1.
  apply des_pre_iv_app; assumption.
Qed.

Lemma aes_iv_model : forall boots time salt,
  be32 (wrap32 boots) ++ be32 (wrap32 time) ++ salt = aes_iv (wrap32 boots) (wrap32 time) salt.
Proof. intros. unfold aes_iv. rewrite !be32_eq_spec. reflexivity. Qed.

Lemma aes_iv_wrap : forall boots time salt, aes_iv (wrap32 boots) (wrap32 time) salt = aes_iv boots time salt.
Proof. intros. unfold aes_iv. rewrite !be32_spec_wrap32. reflexivity. Qed.

Lemma des_salt_model : forall boots counter, be32 boots ++ be32 counter = des_salt boots counter.
Proof. intros. unfold des_salt. rewrite !be32_eq_spec. reflexivity. Qed.

(* ------------------------------------------------------------------ *)
(** * installed key states *)

(* a key state produced by [priv_as_localized] from a localized key made of octets *)
Definition installed (k : priv_key) : Prop :=
  match pk_alg k with
  | PNoPriv => True
  | PDes => len (pk_key k) = 8 /\ len (pk_pre_iv k) = 8 /\ 0 <= pk_salt k < 4294967296 /\
            wfb (pk_key k) /\ wfb (pk_pre_iv k)
  | PAes => len (pk_key k) = 16 /\ 0 <= pk_salt k < 18446744073709551616 /\ wfb (pk_key k)
  end.

Theorem priv_as_localized_installed : forall k key seed k',
  wfb key -> 16 <= len key -> priv_as_localized k key seed = Ok k' ->
  installed k' /\ pk_alg k' = pk_alg k.
Proof.
  intros k key seed k' Hw Hl H. unfold priv_as_localized in H.
  unfold DES_KEY_LENGTH, DES_ENC_KEY_LENGTH, AES_KEY_LENGTH in H.
  destruct (pk_alg k) eqn:Ea.
  - inversion H; subst k'. unfold installed. rewrite Ea. split; [exact I|reflexivity].
  - destruct (len key <? 16) eqn:E; [discriminate|]. inversion H; subst k'. clear H.
    unfold installed. cbn [pk_alg pk_key pk_pre_iv pk_salt]. split; [|reflexivity].
    split; [apply len_takez; lia|].
    split; [rewrite len_takez; [reflexivity|rewrite len_dropz by lia; lia]|].
    split; [unfold wrap32; apply Z.mod_pos_bound; lia|].
    split; [apply wfb_takez; exact Hw|apply wfb_takez, wfb_dropz; exact Hw].
  - destruct (len key <? 16) eqn:E; [discriminate|]. inversion H; subst k'. clear H.
    unfold installed. cbn [pk_alg pk_key pk_pre_iv pk_salt]. split; [|reflexivity].
    split; [apply len_takez; lia|].
    split; [unfold wrap64; apply Z.mod_pos_bound; lia|apply wfb_takez; exact Hw].
Qed.

(* it always succeeds on such a key, and the key material is the RFC one *)
Theorem priv_as_localized_ok : forall k key seed,
  16 <= len key -> exists k', priv_as_localized k key seed = Ok k'.
Proof.
  intros k key seed Hl. unfold priv_as_localized. unfold DES_KEY_LENGTH, AES_KEY_LENGTH.
  destruct (pk_alg k); [eauto| |]; destruct (len key <? 16) eqn:E; try lia; eauto.
Qed.

Theorem priv_as_localized_key_material : forall k key seed k',
  priv_as_localized k key seed = Ok k' ->
  match pk_alg k with
  | PNoPriv => k' = k
  | PDes => pk_key k' = des_key key /\ pk_pre_iv k' = des_pre_iv key /\ pk_salt k' = wrap32 seed
  | PAes => pk_key k' = aes_key key /\ pk_salt k' = wrap64 seed
  end.
Proof.
  intros k key seed k' H. unfold priv_as_localized in H.
  unfold DES_KEY_LENGTH, DES_ENC_KEY_LENGTH, AES_KEY_LENGTH in H.
  destruct (pk_alg k).
  - congruence.
  - destruct (len key <? 16); [discriminate|]. inversion H; subst k'. cbn [pk_key pk_pre_iv pk_salt].
    change (16 - 8) with 8. rewrite !takez_firstn, dropz_skipn by lia. repeat split; reflexivity.
  - destruct (len key <? 16); [discriminate|]. inversion H; subst k'. cbn [pk_key pk_pre_iv pk_salt].
    rewrite takez_firstn by lia. split; reflexivity.
Qed.

Lemma installed_des : forall k, installed k -> pk_alg k = PDes ->
  length (pk_key k) = 8%nat /\ length (pk_pre_iv k) = 8%nat /\ 0 <= pk_salt k < 4294967296 /\
  wfb (pk_key k) /\ wfb (pk_pre_iv k).
Proof.
  intros k Hi Ha. unfold installed in Hi. rewrite Ha in Hi. destruct Hi as (H1 & H2 & H3 & H4 & H5).
  repeat split; try assumption; try lia; apply len_8_length; assumption.
Qed.

Lemma installed_aes : forall k, installed k -> pk_alg k = PAes ->
  length (pk_key k) = 16%nat /\ 0 <= pk_salt k < 18446744073709551616 /\ wfb (pk_key k).
Proof.
  intros k Hi Ha. unfold installed in Hi. rewrite Ha in Hi. destruct Hi as (H1 & H2 & H3).
  repeat split; try assumption; try lia. apply len_16_length; assumption.
Qed.

(* ------------------------------------------------------------------ *)
(** * the padded plaintext *)

(* number of padding octets that bring [n] up to a multiple of [block] *)
Definition pad_len (block n : Z) : Z := (block - n mod block) mod block.

Lemma pad_len_range : forall block n, 0 < block -> 0 <= pad_len block n < block.
Proof. intros block n Hb. unfold pad_len. apply Z.mod_pos_bound. exact Hb. Qed.

Lemma pad_len_multiple : forall block n, 0 < block -> (n + pad_len block n) mod block = 0.
Proof.
  intros block n Hb. unfold pad_len. rewrite Zplus_mod_idemp_r.
  replace (n + (block - n mod block)) with (n - n mod block + 1 * block) by ring.
  rewrite Z.mod_add by lia. rewrite Zminus_mod_idemp_r. replace (n - n) with 0 by ring. apply Z.mod_0_l. lia.
Qed.

Lemma pad_len_cases : forall block n, 0 < block ->
  (if 0 <? n mod block then n + block - n mod block else n) = n + pad_len block n.
Proof.
  intros block n Hb. unfold pad_len. pose proof (Z.mod_pos_bound n block Hb) as Hm.
  destruct (0 <? n mod block) eqn:E.
  - apply Z.ltb_lt in E. rewrite (Z.mod_small (block - n mod block)) by lia. ring.
  - apply Z.ltb_ge in E. assert (H0 : n mod block = 0) by lia. rewrite H0, Z.sub_0_r, Z.mod_same by lia. ring.
Qed.

Lemma takez_app_plus : forall l s p, 0 <= p -> takez (len l + p) (l ++ s) = l ++ takez p s.
Proof.
  intros l s p Hp. pose proof (len_nonneg l) as Hl.
  rewrite !takez_firstn by lia. rewrite firstn_app.
  rewrite firstn_all2 by (unfold len; lia). f_equal. f_equal. unfold len. lia.
Qed.

Theorem padded_plaintext_spec : forall block s r,
  req_of_pdu (s_pdu s) = Some r -> req_ok r -> block = 8 \/ block = 16 ->
  len (enc_scoped (s_engine_id s) r) + block <= BUF_MAX_SIZE ->
  padded_plaintext block s =
  Ok (enc_scoped (s_engine_id s) r ++ zeros (Z.to_nat (pad_len block (len (enc_scoped (s_engine_id s) r))))).
Proof.
  intros block s r Hp Hr Hb Hfit. unfold padded_plaintext.
  set (e := enc_scoped (s_engine_id s) r) in *. set (z := zeros (Z.to_nat block)).
  assert (Hb0 : 0 < block <= 16) by (destruct Hb; subst block; lia).
  assert (Hz : len z = block) by (unfold z; rewrite len_zeros; lia).
  assert (Hpos0 : pos empty_buffer = BUF_MAX_SIZE) by reflexivity.
  pose proof (len_nonneg e) as He.
  rewrite push_emits. rewrite emits_ok by (rewrite Hpos0, Hz; unfold BUF_MAX_SIZE; lia). cbn [bind].
  rewrite (push_scoped_emits _ s r); [|apply Inv_grow; rewrite Hpos0, Hz; unfold BUF_MAX_SIZE; lia|exact Hp|exact Hr].
  fold e. rewrite emits_ok by (rewrite pos_grow, Hpos0, Hz; lia). cbn [bind]. cbv zeta.
  rewrite !blen_grow. change (blen empty_buffer) with 0. rewrite Hz.
  replace (len e + (block + 0) - block) with (len e) by ring.
  rewrite pad_len_cases by lia.
  pose proof (pad_len_range block (len e) (proj1 Hb0)) as Hpad.
  rewrite !data_grow. change (data empty_buffer) with (@nil Z). rewrite app_nil_r.
  rewrite slice_to_ok by (rewrite len_app, Hz; lia).
  rewrite takez_app_plus by lia. unfold z. rewrite takez_zeros by lia. reflexivity.
Qed.

Theorem padded_plaintext_out_of_buffer : forall block s r,
  req_of_pdu (s_pdu s) = Some r -> req_ok r -> block = 8 \/ block = 16 ->
  BUF_MAX_SIZE < len (enc_scoped (s_engine_id s) r) + block ->
  padded_plaintext block s = Err OutOfBuffer.
Proof.
  intros block s r Hp Hr Hb Hfit. unfold padded_plaintext.
  set (e := enc_scoped (s_engine_id s) r) in *. set (z := zeros (Z.to_nat block)).
  assert (Hb0 : 0 < block <= 16) by (destruct Hb; subst block; lia).
  assert (Hz : len z = block) by (unfold z; rewrite len_zeros; lia).
  assert (Hpos0 : pos empty_buffer = BUF_MAX_SIZE) by reflexivity.
  rewrite push_emits. rewrite emits_ok by (rewrite Hpos0, Hz; unfold BUF_MAX_SIZE; lia). cbn [bind].
  rewrite (push_scoped_emits _ s r); [|apply Inv_grow; rewrite Hpos0, Hz; unfold BUF_MAX_SIZE; lia|exact Hp|exact Hr].
  fold e. rewrite emits_err by (rewrite pos_grow, Hpos0, Hz; lia). reflexivity.
Qed.

(* converse: the result is never anything else (in particular never a panic) *)
Theorem padded_plaintext_cases : forall block s r,
  req_of_pdu (s_pdu s) = Some r -> req_ok r -> block = 8 \/ block = 16 ->
  forall res, padded_plaintext block s = res ->
  (res = Err OutOfBuffer /\ BUF_MAX_SIZE < len (enc_scoped (s_engine_id s) r) + block) \/
  (res = Ok (enc_scoped (s_engine_id s) r ++
             zeros (Z.to_nat (pad_len block (len (enc_scoped (s_engine_id s) r))))) /\
   len (enc_scoped (s_engine_id s) r) + block <= BUF_MAX_SIZE).
Proof.
  intros block s r Hp Hr Hb res H.
  destruct (Z_le_gt_dec (len (enc_scoped (s_engine_id s) r) + block) BUF_MAX_SIZE) as [Hf|Hf].
  - right. rewrite (padded_plaintext_spec block s r Hp Hr Hb Hf) in H. split; [congruence|exact Hf].
  - left. rewrite (padded_plaintext_out_of_buffer block s r Hp Hr Hb) in H by lia. split; [congruence|lia].
Qed.

(* ------------------------------------------------------------------ *)
(** * the reference scoped PDU is made of octets *)

Lemma wfb_tlv_total : forall tag c, 0 <= tag < 256 -> len (tlv tag c) < 65536 -> wfb c -> wfb (tlv tag c).
Proof.
  intros tag c Ht Hl Hc. apply wfb_tlv; [exact Ht| |exact Hc]. pose proof (len_tlv_gt tag c). lia.
Qed.

Lemma wfb_enc_int : forall v, in_range v -> wfb (enc_int v).
Proof.
  intros v Hv. unfold enc_int. destruct (min_twos_sval v Hv) as (_ & Hw & Hl).
  apply wfb_tlv; [lia|unfold len; lia|exact Hw].
Qed.

Lemma wfb_concat_map : forall (A : Type) (f : A -> bytes) l,
  (forall x, In x l -> wfb (f x)) -> wfb (concat (map f l)).
Proof.
  intros A f l. induction l as [|y l IH]; intros H; cbn [map concat]; [apply wfb_nil|].
  apply wfb_app_intro; [apply H; left; reflexivity|]. apply IH. intros x Hx. apply H. right. exact Hx.
Qed.

Lemma wfb_enc_varbinds : forall oids, Forall wfb oids -> len (enc_varbinds oids) < 65536 ->
  wfb (enc_varbinds oids).
Proof.
  intros oids Hw Hl. unfold enc_varbinds in *. apply wfb_tlv_total; [lia|exact Hl|].
  pose proof (len_tlv_gt 48 (concat (map enc_varbind oids))) as Hc.
  apply wfb_concat_map. intros o Ho.
  pose proof (len_concat_in enc_varbind oids o Ho) as Hle.
  rewrite Forall_forall in Hw. specialize (Hw o Ho).
  unfold enc_varbind in *. apply wfb_tlv_total; [lia|lia|].
  pose proof (len_tlv_gt 48 (enc_oid o ++ enc_null)) as Hv. rewrite BufLemmas.len_app in Hv.
  change (len enc_null) with 2 in Hv.
  apply wfb_app_intro.
  - unfold enc_oid in *. apply wfb_tlv_total; [lia|lia|exact Hw].
  - unfold enc_null. apply wfb_cons. split; [lia|]. apply wfb_cons. split; [lia|apply wfb_nil].
Qed.

Lemma wfb_enc_req : forall r, req_ok r -> Forall wfb (req_oids r) -> len (enc_req r) < 65536 -> wfb (enc_req r).
Proof.
  intros r Hr Hw Hl. assert (H0 : in_range 0) by (unfold in_range; lia).
  destruct r as [id oids|id oids|id nr mr oids]; cbn [req_ok req_oids enc_req] in *;
    (apply wfb_tlv_total; [lia|exact Hl|]);
    match type of Hl with len (tlv ?t ?c) < _ => pose proof (len_tlv_gt t c) as Hc end;
    rewrite !BufLemmas.len_app in Hc;
    repeat match goal with |- context [enc_int ?v] =>
      lazymatch goal with H : 0 <= len (enc_int v) |- _ => fail | _ => pose proof (len_nonneg (enc_int v)) end end.
  - repeat apply wfb_app_intro; try (apply wfb_enc_int; assumption). apply wfb_enc_varbinds; [exact Hw|lia].
  - repeat apply wfb_app_intro; try (apply wfb_enc_int; assumption). apply wfb_enc_varbinds; [exact Hw|lia].
  - destruct Hr as (Hid & Hnr & Hmr).
    repeat apply wfb_app_intro; try (apply wfb_enc_int; assumption). apply wfb_enc_varbinds; [exact Hw|lia].
Qed.

Theorem wfb_enc_scoped : forall ctx r, wfb ctx -> req_ok r -> Forall wfb (req_oids r) ->
  len (enc_scoped ctx r) < 65536 -> wfb (enc_scoped ctx r).
Proof.
  intros ctx r Hctx Hr Hw Hl. unfold enc_scoped in *. apply wfb_tlv_total; [lia|exact Hl|].
  pose proof (len_tlv_gt 48 (enc_octets ctx ++ enc_octets [] ++ enc_req r)) as Hc.
  rewrite !BufLemmas.len_app in Hc.
  pose proof (len_nonneg (enc_octets ctx)). pose proof (len_nonneg (enc_octets [])).
  pose proof (len_nonneg (enc_req r)).
  apply wfb_app_intro; [|apply wfb_app_intro].
  - unfold enc_octets in *. apply wfb_tlv_total; [lia|lia|exact Hctx].
  - unfold enc_octets. apply wfb_tlv; [lia|rewrite len_nil; lia|apply wfb_nil].
  - apply wfb_enc_req; [exact Hr|exact Hw|lia].
Qed.

(* ------------------------------------------------------------------ *)
(** * octet ranges through CBC / CFB decryption *)

Lemma cbc_decrypt_aux_wfb : forall (D : list Z -> list Z) bs fuel prev ct,
  (forall b, wfb (D b)) -> wfb prev -> wfb ct -> wfb (Modes.cbc_decrypt_aux D bs fuel prev ct).
Proof.
  intros D bs fuel. induction fuel as [|fuel IH]; intros prev ct HD Hp Hc; cbn [Modes.cbc_decrypt_aux].
  - apply wfb_nil.
  - destruct ct as [|c0 ct']; [apply wfb_nil|]. cbv zeta. apply wfb_app_intro.
    + apply wfb_xor_bytes; [apply HD|exact Hp].
    + apply IH; [exact HD|apply wfb_firstn; exact Hc|apply wfb_skipn; exact Hc].
Qed.

Lemma cbc_decrypt_wfb : forall (D : list Z -> list Z) bs iv ct,
  (forall b, wfb (D b)) -> wfb iv -> wfb ct -> wfb (Modes.cbc_decrypt D bs iv ct).
Proof. intros. unfold Modes.cbc_decrypt. apply cbc_decrypt_aux_wfb; assumption. Qed.

Lemma cfb_decrypt_aux_wfb : forall (E : list Z -> list Z) bs fuel prev ct,
  (forall b, wfb (E b)) -> wfb ct -> wfb (Modes.cfb_decrypt_aux E bs fuel prev ct).
Proof.
  intros E bs fuel. induction fuel as [|fuel IH]; intros prev ct HE Hc; cbn [Modes.cfb_decrypt_aux].
  - apply wfb_nil.
  - destruct ct as [|c0 ct']; [apply wfb_nil|]. cbv zeta. apply wfb_app_intro.
    + apply wfb_xor_bytes; [apply wfb_firstn; exact Hc|apply HE].
    + apply IH; [exact HE|apply wfb_skipn; exact Hc].
Qed.

Lemma cfb_decrypt_wfb : forall (E : list Z -> list Z) bs iv ct,
  (forall b, wfb (E b)) -> wfb ct -> wfb (Modes.cfb_decrypt E bs iv ct).
Proof. intros. unfold Modes.cfb_decrypt. apply cfb_decrypt_aux_wfb; assumption. Qed.

(* ------------------------------------------------------------------ *)
(** * the AES-128 forward cipher outputs octets, whatever the input block, when the key is made of octets *)

Lemma aes_sbox_range : Forall byte_range AES.aes_sbox.
Proof.
  apply Forall_forall. intros x Hx.
  assert (H : forallb (fun x => (0 <=? x) && (x <? 256)) AES.aes_sbox = true) by (vm_compute; reflexivity).
  rewrite forallb_forall in H. specialize (H x Hx). unfold byte_range. lia.
Qed.

Lemma sub_byte_range : forall x, byte_range (AES.sub_byte x).
Proof.
  intros x. unfold AES.sub_byte.
  destruct (lt_dec (Z.to_nat x) (length AES.aes_sbox)) as [Hlt|Hge].
  - pose proof aes_sbox_range as H. rewrite Forall_forall in H. apply H. apply nth_In. exact Hlt.
  - rewrite nth_overflow by lia. unfold byte_range. lia.
Qed.

Lemma xtime_range : forall x, byte_range x -> byte_range (AES.xtime x).
Proof.
  intros x Hx.
  assert (H : (0 <=? AES.xtime x) && (AES.xtime x <? 256) = true).
  { apply (BufLemmas.byte_forall (fun x => (0 <=? AES.xtime x) && (AES.xtime x <? 256))); [|exact Hx].
    vm_compute. reflexivity. }
  unfold byte_range. lia.
Qed.

Lemma wfb_xor_list : forall a b, wfb a -> wfb b -> wfb (AES.xor_list a b).
Proof.
  induction a as [|x a IH]; intros [|y b] Ha Hb; cbn [AES.xor_list]; try apply wfb_nil.
  apply wfb_cons in Ha. apply wfb_cons in Hb. destruct Ha as [Hx Ha]. destruct Hb as [Hy Hb].
  apply wfb_cons. split; [apply lxor_byte_range; assumption|apply IH; assumption].
Qed.

Lemma wfb_sub_bytes : forall s, wfb (AES.sub_bytes s).
Proof.
  intros s. unfold AES.sub_bytes. induction s as [|x s IH]; cbn [map]; [apply wfb_nil|].
  apply wfb_cons. split; [apply sub_byte_range|exact IH].
Qed.

Lemma nth_wfb : forall s i, wfb s -> byte_range (nth i s 0).
Proof.
  intros s i Hs. destruct (lt_dec i (length s)) as [Hlt|Hge].
  - eapply wfb_In; [exact Hs|]. apply nth_In. exact Hlt.
  - rewrite nth_overflow by lia. unfold byte_range. lia.
Qed.

Lemma wfb_shift_rows : forall s, wfb s -> wfb (AES.shift_rows s).
Proof.
  intros s Hs. unfold AES.shift_rows. generalize AES.shift_rows_tbl as tbl.
  induction tbl as [|i tbl IH]; cbn [map]; [apply wfb_nil|].
  apply wfb_cons. split; [apply nth_wfb; exact Hs|exact IH].
Qed.

Lemma wfb_mix_column : forall a0 a1 a2 a3, byte_range a0 -> byte_range a1 -> byte_range a2 -> byte_range a3 ->
  wfb (AES.mix_column a0 a1 a2 a3).
Proof.
  intros a0 a1 a2 a3 H0 H1 H2 H3. unfold AES.mix_column.
  pose proof (xtime_range a0 H0). pose proof (xtime_range a1 H1).
  pose proof (xtime_range a2 H2). pose proof (xtime_range a3 H3).
  repeat (apply wfb_cons; split; [repeat apply lxor_byte_range; assumption|]). apply wfb_nil.
Qed.

Lemma wfb_mix_columns_n : forall n s, (length s <= n)%nat -> wfb s -> wfb (AES.mix_columns s).
Proof.
  induction n as [|n IH]; intros s Hn Hs.
  - destruct s; [apply wfb_nil|cbn [length] in Hn; lia].
  - destruct s as [|a0 [|a1 [|a2 [|a3 rest]]]]; cbn [AES.mix_columns]; try apply wfb_nil.
    apply wfb_cons in Hs. destruct Hs as [H0 Hs]. apply wfb_cons in Hs. destruct Hs as [H1 Hs].
    apply wfb_cons in Hs. destruct Hs as [H2 Hs]. apply wfb_cons in Hs. destruct Hs as [H3 Hs].
    apply wfb_app_intro; [apply wfb_mix_column; assumption|]. apply IH; [cbn [length] in Hn; lia|exact Hs].
Qed.

Lemma wfb_mix_columns : forall s, wfb s -> wfb (AES.mix_columns s).
Proof. intros s Hs. apply (wfb_mix_columns_n (length s)); [lia|exact Hs]. Qed.

Lemma wfb_next_round_key : forall rc rk, byte_range rc -> wfb rk -> wfb (AES.next_round_key rc rk).
Proof.
  intros rc rk Hrc Hrk. unfold AES.next_round_key. cbv zeta.
  set (w0 := firstn 4 rk). set (w1 := firstn 4 (skipn 4 rk)). set (w2 := firstn 4 (skipn 8 rk)).
  set (w3 := firstn 4 (skipn 12 rk)).
  assert (Hw0 : wfb w0) by (apply wfb_firstn; exact Hrk).
  assert (Hw1 : wfb w1) by (apply wfb_firstn, wfb_skipn; exact Hrk).
  assert (Hw2 : wfb w2) by (apply wfb_firstn, wfb_skipn; exact Hrk).
  assert (Hw3 : wfb w3) by (apply wfb_firstn, wfb_skipn; exact Hrk).
  set (t := match w3 with
            | [b0; b1; b2; b3] => [Z.lxor (AES.sub_byte b1) rc; AES.sub_byte b2; AES.sub_byte b3; AES.sub_byte b0]
            | _ => [] end).
  assert (Ht : wfb t).
  { unfold t. destruct w3 as [|b0 [|b1 [|b2 [|b3 [|b4 r]]]]]; try apply wfb_nil.
    repeat (apply wfb_cons; split; [try apply lxor_byte_range; try apply sub_byte_range; assumption|]).
    apply wfb_nil. }
  assert (H0 : wfb (AES.xor_list w0 t)) by (apply wfb_xor_list; assumption).
  assert (H1 : wfb (AES.xor_list w1 (AES.xor_list w0 t))) by (apply wfb_xor_list; assumption).
  assert (H2 : wfb (AES.xor_list w2 (AES.xor_list w1 (AES.xor_list w0 t)))) by (apply wfb_xor_list; assumption).
  repeat apply wfb_app_intro; try assumption. apply wfb_xor_list; assumption.
Qed.

Lemma wfb_expand_aux : forall rcs rk, Forall byte_range rcs -> wfb rk -> Forall wfb (AES.expand_aux rcs rk).
Proof.
  induction rcs as [|rc rcs IH]; intros rk Hrcs Hrk; cbn [AES.expand_aux]; [constructor|].
  inversion Hrcs as [|? ? Hrc Hrest]; subst. cbv zeta.
  assert (Hn : wfb (AES.next_round_key rc rk)) by (apply wfb_next_round_key; assumption).
  constructor; [exact Hn|apply IH; assumption].
Qed.

Lemma aes_rcon_range : Forall byte_range AES.aes_rcon.
Proof. unfold AES.aes_rcon, byte_range. repeat constructor; lia. Qed.

Lemma wfb_aes_round : forall s rk, wfb rk -> wfb (AES.aes_round s rk).
Proof.
  intros s rk Hrk. unfold AES.aes_round, AES.add_round_key.
  apply wfb_xor_list; [|exact Hrk]. apply wfb_mix_columns, wfb_shift_rows, wfb_sub_bytes.
Qed.

Lemma wfb_aes_final_round : forall s rk, wfb rk -> wfb (AES.aes_final_round s rk).
Proof.
  intros s rk Hrk. unfold AES.aes_final_round, AES.add_round_key.
  apply wfb_xor_list; [|exact Hrk]. apply wfb_shift_rows, wfb_sub_bytes.
Qed.

Lemma wfb_aes_rounds : forall rks s, rks <> [] -> Forall wfb rks -> wfb (AES.aes_rounds s rks).
Proof.
  induction rks as [|rk rks IH]; intros s Hne Hk; [congruence|].
  inversion Hk as [|? ? Hrk Hrks]; subst.
  destruct rks as [|rk' rks'].
  - cbn [AES.aes_rounds]. apply wfb_aes_final_round. exact Hrk.
  - change (AES.aes_rounds s (rk :: rk' :: rks')) with (AES.aes_rounds (AES.aes_round s rk) (rk' :: rks')).
    apply IH; [discriminate|exact Hrks].
Qed.

Theorem aes128_encrypt_block_wfb : forall key block, wfb key -> wfb (AES.aes128_encrypt_block key block).
Proof.
  intros key block Hk. unfold AES.aes128_encrypt_block, AES.aes128_round_keys, AES.aes128_encrypt_with.
  apply wfb_aes_rounds.
  - unfold AES.aes_rcon. cbn [AES.expand_aux]. discriminate.
  - apply wfb_expand_aux; [exact aes_rcon_range|exact Hk].
Qed.

Lemma des_decrypt_block_wfb : forall key block, wfb (DES.des_decrypt_block key block).
Proof. intros. apply des_decrypt_block_range. Qed.

Lemma des_encrypt_block_wfb : forall key block, wfb (DES.des_encrypt_block key block).
Proof. intros. apply des_encrypt_block_range. Qed.

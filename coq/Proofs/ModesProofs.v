(* Round-trip and length theorems for the CBC and CFB modes, for all inputs
   (no bound on the text length). *)

Require Import ZArith List Lia Arith.
Require Import GS.Model.Crypto.Modes GS.Proofs.ByteRange.
Import ListNotations.

(* ------------------------------------------------------------------ *)
(* xor_bytes *)

Lemma xor_bytes_length : forall a b,
  length (xor_bytes a b) = Nat.min (length a) (length b).
Proof.
  induction a as [|x a IH]; intros [|y b]; cbn [xor_bytes length Nat.min]; auto.
Qed.

Lemma xor_bytes_length_le : forall a b,
  length a <= length b -> length (xor_bytes a b) = length a.
Proof. intros a b H. rewrite xor_bytes_length. lia. Qed.

(* xor is an involution for all integers, so no 0..255 range is needed *)
Lemma lxor_cancel_r : forall a b : Z, Z.lxor (Z.lxor a b) b = a.
Proof.
  intros a b. rewrite Z.lxor_assoc, Z.lxor_nilpotent, Z.lxor_0_r. reflexivity.
Qed.

Lemma xor_bytes_cancel : forall a b,
  length a <= length b -> xor_bytes (xor_bytes a b) b = a.
Proof.
  induction a as [|x a IH]; intros [|y b] H; cbn [xor_bytes length] in *; auto.
  - lia.
  - rewrite lxor_cancel_r, IH by lia. reflexivity.
Qed.

Lemma xor_bytes_nil_l : forall b, xor_bytes [] b = [].
Proof. reflexivity. Qed.

Lemma xor_bytes_nil_r : forall a, xor_bytes a [] = [].
Proof. destruct a; reflexivity. Qed.

Lemma xor_bytes_comm : forall a b, xor_bytes a b = xor_bytes b a.
Proof.
  induction a as [|x a IH]; intros [|y b]; cbn [xor_bytes]; auto.
  rewrite Z.lxor_comm, IH. reflexivity.
Qed.

(* ------------------------------------------------------------------ *)
(* list helpers *)

Lemma firstn_app_exact : forall (A : Type) (a b : list A) n,
  length a = n -> firstn n (a ++ b) = a.
Proof.
  intros A a b n H. subst n. rewrite firstn_app, Nat.sub_diag, firstn_all.
  cbn [firstn]. apply app_nil_r.
Qed.

Lemma skipn_app_exact : forall (A : Type) (a b : list A) n,
  length a = n -> skipn n (a ++ b) = b.
Proof.
  intros A a b n H. subst n. rewrite skipn_app, Nat.sub_diag, skipn_all.
  reflexivity.
Qed.

(* "length is a multiple of bs": the two formulations *)
Lemma mod_0_iff_multiple : forall n bs, bs > 0 ->
  (Nat.modulo n bs = 0 <-> exists k, n = k * bs).
Proof.
  intros n bs Hbs. rewrite Nat.mod_divides by lia. split; intros [k Hk]; exists k; lia.
Qed.

(* "pt is a concatenation of blocks of length bs" *)
Lemma concat_blocks_length : forall (A : Type) (blocks : list (list A)) bs,
  Forall (fun b => length b = bs) blocks ->
  length (concat blocks) = length blocks * bs.
Proof.
  intros A blocks bs H. induction H as [|b bl Hb _ IH]; cbn [concat length Nat.mul]; auto.
  rewrite app_length, IH, Hb. reflexivity.
Qed.

Lemma multiple_concat_blocks : forall (A : Type) k bs (l : list A),
  length l = k * bs ->
  exists blocks, l = concat blocks /\ length blocks = k /\
                 Forall (fun b => length b = bs) blocks.
Proof.
  intros A k bs. induction k as [|k IH]; intros l H.
  - exists []. destruct l; [|discriminate]. repeat split; constructor.
  - destruct (IH (skipn bs l)) as [bl [H1 [H2 H3]]].
    { rewrite skipn_length. lia. }
    exists (firstn bs l :: bl). repeat split.
    + cbn [concat]. rewrite <- H1. symmetry. apply firstn_skipn.
    + cbn [length]. congruence.
    + constructor; auto. rewrite firstn_length. lia.
Qed.

Lemma mod_0_iff_concat_blocks : forall (A : Type) bs (l : list A), bs > 0 ->
  (Nat.modulo (length l) bs = 0 <->
   exists blocks, l = concat blocks /\ Forall (fun b => length b = bs) blocks).
Proof.
  intros A bs l Hbs. rewrite mod_0_iff_multiple by assumption. split.
  - intros [k Hk]. destruct (multiple_concat_blocks A k bs l Hk) as [bl [H1 [_ H3]]].
    exists bl. auto.
  - intros [bl [H1 H2]]. exists (length bl). subst l. apply concat_blocks_length. assumption.
Qed.

(* ------------------------------------------------------------------ *)
(* Forall helpers *)

Lemma Forall_firstn : forall (A : Type) (P : A -> Prop) n l,
  Forall P l -> Forall P (firstn n l).
Proof.
  intros A P n. induction n as [|n IH]; intros l H; cbn [firstn]; [constructor|].
  destruct H; constructor; auto.
Qed.

Lemma Forall_skipn : forall (A : Type) (P : A -> Prop) n l,
  Forall P l -> Forall P (skipn n l).
Proof.
  intros A P n. induction n as [|n IH]; intros l H; cbn [skipn]; [assumption|].
  destruct H; [constructor|auto].
Qed.

Lemma xor_bytes_Forall : forall (P : Z -> Prop),
  (forall a b, P a -> P b -> P (Z.lxor a b)) ->
  forall a b, Forall P a -> Forall P b -> Forall P (xor_bytes a b).
Proof.
  intros P HP a b Ha. revert b. induction Ha as [|x a Hx Ha IH]; intros b Hb.
  - constructor.
  - destruct Hb as [|y b Hy Hb]; cbn [xor_bytes]; constructor; auto.
Qed.

(* ------------------------------------------------------------------ *)
(* CBC *)

(* Generic statement: [P] is an invariant of the bytes flowing through the mode
   (closed under xor).  Instantiated below with [fun _ => True] (block functions
   that invert each other on every input) and with [byte_range] (block functions
   such as DES that invert each other on byte strings only). *)
Section CBC_gen.
  Variables (E D : list Z -> list Z) (bs : nat) (P : Z -> Prop).
  Hypothesis Hbs : bs > 0.
  Hypothesis HP_xor : forall a b, P a -> P b -> P (Z.lxor a b).
  Hypothesis HE_len : forall b, length b = bs -> Forall P b -> length (E b) = bs.
  Hypothesis HE_P : forall b, length b = bs -> Forall P b -> Forall P (E b).

  Lemma cbc_encrypt_aux_length_gen : forall k fuel prev pt,
    length pt = k * bs -> length pt <= fuel -> length prev = bs ->
    Forall P prev -> Forall P pt ->
    length (cbc_encrypt_aux E bs fuel prev pt) = length pt.
  Proof.
    induction k as [|k IH]; intros fuel prev pt Hlen Hfuel Hprev HPprev HPpt.
    - destruct pt; [|discriminate]. destruct fuel; reflexivity.
    - destruct fuel as [|fuel]; [cbn [Nat.mul] in Hlen; lia|].
      destruct pt as [|z pt']; [cbn [Nat.mul length] in Hlen; lia|].
      cbn [cbc_encrypt_aux]. set (pt := z :: pt') in *.
      assert (Hf : length (firstn bs pt) = bs) by (rewrite firstn_length; lia).
      assert (Hx : length (xor_bytes (firstn bs pt) prev) = bs)
        by (rewrite xor_bytes_length; lia).
      assert (HPx : Forall P (xor_bytes (firstn bs pt) prev))
        by (apply xor_bytes_Forall; auto using Forall_firstn).
      assert (Hs : length (skipn bs pt) = k * bs) by (rewrite skipn_length; lia).
      rewrite app_length, IH, HE_len; auto using Forall_skipn; try lia.
  Qed.

  Hypothesis HDE : forall b, length b = bs -> Forall P b -> D (E b) = b.

  Lemma cbc_decrypt_encrypt_aux_gen : forall k f1 f2 prev pt,
    length pt = k * bs -> length pt <= f1 -> length pt <= f2 -> length prev = bs ->
    Forall P prev -> Forall P pt ->
    cbc_decrypt_aux D bs f2 prev (cbc_encrypt_aux E bs f1 prev pt) = pt.
  Proof.
    induction k as [|k IH]; intros f1 f2 prev pt Hlen Hf1 Hf2 Hprev HPprev HPpt.
    - destruct pt; [|discriminate]. destruct f1, f2; reflexivity.
    - destruct f1 as [|f1]; [cbn [Nat.mul] in Hlen; lia|].
      destruct f2 as [|f2]; [cbn [Nat.mul] in Hlen; lia|].
      destruct pt as [|z pt']; [cbn [Nat.mul length] in Hlen; lia|].
      cbn [cbc_encrypt_aux]. set (pt := z :: pt') in *.
      assert (Hf : length (firstn bs pt) = bs) by (rewrite firstn_length; lia).
      assert (Hx : length (xor_bytes (firstn bs pt) prev) = bs)
        by (rewrite xor_bytes_length; lia).
      assert (HPx : Forall P (xor_bytes (firstn bs pt) prev))
        by (apply xor_bytes_Forall; auto using Forall_firstn).
      assert (Hs : length (skipn bs pt) = k * bs) by (rewrite skipn_length; lia).
      set (c := E (xor_bytes (firstn bs pt) prev)).
      assert (Hc : length c = bs) by (apply HE_len; assumption).
      assert (HPc : Forall P c) by (apply HE_P; assumption).
      set (rest := cbc_encrypt_aux E bs f1 c (skipn bs pt)).
      destruct (c ++ rest) as [|y cr] eqn:Hcr.
      { apply (f_equal (@length Z)) in Hcr. rewrite app_length in Hcr.
        cbn [length] in Hcr. lia. }
      cbn [cbc_decrypt_aux]. rewrite <- Hcr.
      rewrite firstn_app_exact, skipn_app_exact by assumption.
      unfold c at 1. rewrite HDE by assumption.
      rewrite xor_bytes_cancel by lia.
      unfold rest. rewrite IH; auto using Forall_skipn; try lia.
      apply firstn_skipn.
  Qed.

  Theorem cbc_encrypt_length_gen : forall iv pt,
    length iv = bs -> Forall P iv -> Forall P pt -> Nat.modulo (length pt) bs = 0 ->
    length (cbc_encrypt E bs iv pt) = length pt.
  Proof.
    intros iv pt Hiv HPiv HPpt Hmod. apply mod_0_iff_multiple in Hmod; [|assumption].
    destruct Hmod as [k Hk]. unfold cbc_encrypt.
    apply cbc_encrypt_aux_length_gen with (k := k); auto.
  Qed.

  Theorem cbc_decrypt_encrypt_gen : forall iv pt,
    length iv = bs -> Forall P iv -> Forall P pt -> Nat.modulo (length pt) bs = 0 ->
    cbc_decrypt D bs iv (cbc_encrypt E bs iv pt) = pt.
  Proof.
    intros iv pt Hiv HPiv HPpt Hmod. unfold cbc_decrypt.
    rewrite cbc_encrypt_length_gen by assumption. unfold cbc_encrypt.
    apply mod_0_iff_multiple in Hmod; [|assumption]. destruct Hmod as [k Hk].
    apply cbc_decrypt_encrypt_aux_gen with (k := k); auto.
  Qed.
End CBC_gen.

Lemma Forall_True : forall (l : list Z), Forall (fun _ => True) l.
Proof. induction l; constructor; auto. Qed.

(* Block functions that are inverse on every block of the right length. *)
Section CBC.
  Variables (E D : list Z -> list Z) (bs : nat).
  Hypothesis Hbs : bs > 0.
  Hypothesis HE_len : forall b, length b = bs -> length (E b) = bs.

  Theorem cbc_encrypt_length : forall iv pt,
    length iv = bs -> Nat.modulo (length pt) bs = 0 ->
    length (cbc_encrypt E bs iv pt) = length pt.
  Proof.
    intros iv pt Hiv Hmod.
    apply (cbc_encrypt_length_gen E bs (fun _ => True)); auto using Forall_True.
  Qed.

  Hypothesis HDE : forall b, length b = bs -> D (E b) = b.

  Theorem cbc_decrypt_encrypt : forall iv pt,
    length iv = bs -> Nat.modulo (length pt) bs = 0 ->
    cbc_decrypt D bs iv (cbc_encrypt E bs iv pt) = pt.
  Proof.
    intros iv pt Hiv Hmod.
    apply (cbc_decrypt_encrypt_gen E D bs (fun _ => True)); auto using Forall_True.
  Qed.

  (* the same, with the plaintext given as a concatenation of blocks *)
  Corollary cbc_decrypt_encrypt_blocks : forall iv blocks,
    length iv = bs -> Forall (fun b => length b = bs) blocks ->
    cbc_decrypt D bs iv (cbc_encrypt E bs iv (concat blocks)) = concat blocks.
  Proof.
    intros iv blocks Hiv Hb. apply cbc_decrypt_encrypt; auto.
    apply mod_0_iff_concat_blocks; eauto.
  Qed.
End CBC.

(* Block functions that are inverse on byte strings (all elements in 0..255) only. *)
Section CBC_bytes.
  Variables (E D : list Z -> list Z) (bs : nat).
  Hypothesis Hbs : bs > 0.
  Hypothesis HE_len : forall b, length b = bs -> Forall byte_range b -> length (E b) = bs.
  Hypothesis HE_range : forall b, length b = bs -> Forall byte_range b -> Forall byte_range (E b).

  Theorem cbc_encrypt_length_bytes : forall iv pt,
    length iv = bs -> Forall byte_range iv -> Forall byte_range pt ->
    Nat.modulo (length pt) bs = 0 ->
    length (cbc_encrypt E bs iv pt) = length pt.
  Proof.
    intros. apply (cbc_encrypt_length_gen E bs byte_range); auto using lxor_byte_range.
  Qed.

  Hypothesis HDE : forall b, length b = bs -> Forall byte_range b -> D (E b) = b.

  Theorem cbc_decrypt_encrypt_bytes : forall iv pt,
    length iv = bs -> Forall byte_range iv -> Forall byte_range pt ->
    Nat.modulo (length pt) bs = 0 ->
    cbc_decrypt D bs iv (cbc_encrypt E bs iv pt) = pt.
  Proof.
    intros. apply (cbc_decrypt_encrypt_gen E D bs byte_range); auto using lxor_byte_range.
  Qed.
End CBC_bytes.

(* ------------------------------------------------------------------ *)
(* CFB *)

Section CFB.
  Variables (E : list Z -> list Z) (bs : nat).
  Hypothesis Hbs : bs > 0.
  Hypothesis HE_len : forall b, length b = bs -> length (E b) = bs.

  Lemma cfb_encrypt_aux_nil : forall fuel prev, cfb_encrypt_aux E bs fuel prev [] = [].
  Proof. destruct fuel; reflexivity. Qed.

  Lemma cfb_decrypt_aux_nil : forall fuel prev, cfb_decrypt_aux E bs fuel prev [] = [].
  Proof. destruct fuel; reflexivity. Qed.

  Lemma cfb_encrypt_aux_length : forall fuel prev pt,
    length pt <= fuel -> length prev = bs ->
    length (cfb_encrypt_aux E bs fuel prev pt) = length pt.
  Proof.
    induction fuel as [|fuel IH]; intros prev pt Hfuel Hprev.
    - destruct pt; [reflexivity|cbn [length] in Hfuel; lia].
    - destruct pt as [|z pt']; [reflexivity|].
      cbn [cfb_encrypt_aux]. set (pt := z :: pt') in *.
      assert (HEp : length (E prev) = bs) by auto.
      assert (Hc : length (xor_bytes (firstn bs pt) (E prev)) = length (firstn bs pt)).
      { apply xor_bytes_length_le. rewrite firstn_length. lia. }
      rewrite app_length, Hc.
      destruct (le_lt_dec bs (length pt)) as [Hge|Hlt].
      + rewrite IH.
        * rewrite firstn_length, skipn_length. lia.
        * rewrite skipn_length. subst pt. cbn [length] in *. lia.
        * rewrite Hc, firstn_length. lia.
      + rewrite skipn_all2 by lia. rewrite cfb_encrypt_aux_nil.
        rewrite firstn_all2 by lia. cbn [length]. lia.
  Qed.

  Theorem cfb_encrypt_length : forall iv pt,
    length iv = bs -> length (cfb_encrypt E bs iv pt) = length pt.
  Proof.
    intros iv pt Hiv. unfold cfb_encrypt. apply cfb_encrypt_aux_length; auto.
  Qed.

  Lemma cfb_decrypt_encrypt_aux : forall f1 f2 prev pt,
    length pt <= f1 -> length pt <= f2 -> length prev = bs ->
    cfb_decrypt_aux E bs f2 prev (cfb_encrypt_aux E bs f1 prev pt) = pt.
  Proof.
    induction f1 as [|f1 IH]; intros f2 prev pt Hf1 Hf2 Hprev.
    - destruct pt; [|cbn [length] in Hf1; lia]. destruct f2; reflexivity.
    - destruct pt as [|z pt']; [destruct f2; reflexivity|].
      destruct f2 as [|f2]; [cbn [length] in Hf2; lia|].
      cbn [cfb_encrypt_aux]. set (pt := z :: pt') in *.
      assert (Hpt : length pt = S (length pt')) by reflexivity.
      assert (HEp : length (E prev) = bs) by auto.
      set (c := xor_bytes (firstn bs pt) (E prev)).
      assert (Hc : length c = length (firstn bs pt)).
      { apply xor_bytes_length_le. rewrite firstn_length. lia. }
      set (rest := cfb_encrypt_aux E bs f1 c (skipn bs pt)).
      assert (Hne : c ++ rest <> []).
      { intro Hnil. apply (f_equal (@length Z)) in Hnil.
        rewrite app_length, Hc, firstn_length in Hnil. cbn [length] in Hnil. lia. }
      destruct (c ++ rest) as [|y cr] eqn:Hcr; [congruence|].
      cbn [cfb_decrypt_aux]. rewrite <- Hcr.
      destruct (le_lt_dec bs (length pt)) as [Hge|Hlt].
      + assert (Hcb : length c = bs) by (rewrite Hc, firstn_length; lia).
        rewrite firstn_app_exact, skipn_app_exact by assumption.
        unfold c at 1. rewrite xor_bytes_cancel by (rewrite firstn_length; lia).
        unfold rest. rewrite IH; auto.
        * apply firstn_skipn.
        * rewrite skipn_length. lia.
        * rewrite skipn_length. lia.
      + assert (Hrest : rest = []).
        { unfold rest. rewrite skipn_all2 by lia. apply cfb_encrypt_aux_nil. }
        rewrite Hrest, app_nil_r.
        assert (Hcl : length c = length pt) by (rewrite Hc, firstn_all2; lia).
        rewrite firstn_all2 by lia. rewrite skipn_all2 by lia.
        rewrite cfb_decrypt_aux_nil, app_nil_r.
        unfold c. rewrite firstn_all2 by lia.
        apply xor_bytes_cancel. lia.
  Qed.

  Theorem cfb_decrypt_encrypt : forall iv pt,
    length iv = bs ->
    cfb_decrypt E bs iv (cfb_encrypt E bs iv pt) = pt.
  Proof.
    intros iv pt Hiv. unfold cfb_decrypt.
    rewrite cfb_encrypt_length by assumption. unfold cfb_encrypt.
    apply cfb_decrypt_encrypt_aux; auto.
  Qed.
End CFB.

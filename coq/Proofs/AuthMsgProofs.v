(* C09 at the message level: what v3_finish / v3_push_pdu (Model/V3.v, src/socket/v3.rs push_pdu) put on
   the wire is the reference encoding of the message with msgAuthenticationParameters replaced by the
   RFC 2104 HMAC-96 of that very encoding (field zeroed) under the session's localized key. *)
From GS Require Import Model.Base Gen.Constants Model.Ber Model.Pdu Model.Buffer Model.Auth Model.Priv Model.V3
  Spec.X690 Spec.Rfc3414 Proofs.BufferProofs Proofs.IntEncProofs Proofs.EncodeProofs Proofs.BaseLemmas
  Proofs.AuthProofs.
From GS Require Model.Crypto.MD5 Model.Crypto.SHA1.
From Coq Require Import ZArith List Bool Lia.
Import ListNotations.
Open Scope Z_scope.

(* ------------------------------------------------------------------ *)
(* the placeholder and the flag octet *)

Lemma placeholder_auth : forall a, has_auth a = true -> placeholder a = zero_bytes 12.
Proof.
  intros a Ha. unfold placeholder.
  destruct a; cbn [has_auth sign_size] in *; [discriminate| |];
    unfold MD5_SIGN_SIZE, SHA1_SIGN_SIZE; apply const_bytes_zero.
Qed.

Lemma placeholder_noauth : placeholder ANoAuth = [].
Proof. reflexivity. Qed.

Lemma len_zero_bytes_12 : len (zero_bytes 12) = 12.
Proof. reflexivity. Qed.

Lemma flags_auth_bit : forall m, testbit (flags_octet m) FLAG_AUTH = m_flag_auth m.
Proof.
  intros m. unfold testbit, flags_octet, FLAG_AUTH, FLAG_PRIV, FLAG_REPORT.
  destruct (m_flag_auth m), (m_flag_priv m), (m_flag_report m); reflexivity.
Qed.

(* fields of the message built by push_pdu *)
Lemma v3_message_usm_auth : forall s p mid pp d,
  u_auth_params (m_usm (v3_message s p mid pp d)) = placeholder (ak_alg (auth s)).
Proof. reflexivity. Qed.

Lemma v3_message_usm_priv : forall s p mid pp d,
  u_privacy_params (m_usm (v3_message s p mid pp d)) = pp.
Proof. reflexivity. Qed.

Lemma v3_message_data : forall s p mid pp d, m_data (v3_message s p mid pp d) = d.
Proof. reflexivity. Qed.

Lemma v3_message_flag_auth : forall s p mid pp d,
  m_flag_auth (v3_message s p mid pp d) = has_auth (ak_alg (auth s)).
Proof. reflexivity. Qed.

Lemma v3_message_ok : forall s p mid pp d,
  in_range (engine_boots s) -> in_range (engine_time s) -> in_range mid ->
  v3_ok (v3_message s p mid pp d).
Proof. intros s p mid pp d Hb Ht Hm. unfold v3_ok. cbn. auto. Qed.

(* ------------------------------------------------------------------ *)
(* session with authentication *)

Theorem v3_finish_auth : forall s p mid pp d D dg,
  has_auth (ak_alg (auth s)) = true ->
  len (ak_key (auth s)) = key_size (ak_alg (auth s)) ->
  in_range (engine_boots s) -> in_range (engine_time s) -> in_range mid ->
  msgdata_spec d D ->
  v3_finish s (v3_message s p mid pp d) = Ok dg ->
  let m := v3_message s p mid pp d in
  let E := enc_v3_of m D in
  let mac := hmac96 (alg_H (ak_alg (auth s))) (ak_key (auth s)) E in
  let post := enc_octets pp ++ D in
  (exists pre, E = pre ++ zero_bytes 12 ++ post /\ dg = pre ++ mac ++ post) /\
  len dg = len E /\
  len mac = 12 /\
  testbit (flags_octet m) FLAG_AUTH = true.
Proof.
  intros s p mid pp d D dg Ha Hk Hboots Htime Hmid Hd Hfin. cbv zeta.
  set (m := v3_message s p mid pp d) in *.
  unfold v3_finish in Hfin. inv_bind Hfin bf Epush.
  assert (Hok : v3_ok m) by (apply v3_message_ok; assumption).
  assert (Hph : u_auth_params (m_usm m) = zero_bytes 12).
  { unfold m. rewrite v3_message_usm_auth. apply placeholder_auth. exact Ha. }
  assert (Hpp : u_privacy_params (m_usm m) = pp) by reflexivity.
  destruct (push_v3_bookmark empty_buffer m D bf) as (pre & Hdata & HE & Hbm);
    [reflexivity|exact Hok|exact Hd|rewrite Hph; discriminate|rewrite Hph; reflexivity|exact Epush|].
  rewrite Hph, Hpp in Hdata.
  assert (Hmac : len (hmac96 (alg_H (ak_alg (auth s))) (ak_key (auth s)) (enc_v3_of m D)) = 12)
    by (apply hmac96_alg_len; exact Ha).
  rewrite Hbm in Hfin.
  rewrite alg_sign_is_hmac in Hfin;
    [|exact Ha|exact Hk|apply len_nonneg|rewrite Hdata, !len_app, len_zero_bytes_12;
                                         pose proof (len_nonneg (enc_octets pp)); pose proof (len_nonneg D); lia].
  apply Ok_inj in Hfin. rewrite HE in Hfin.
  assert (HE' : enc_v3_of m D = pre ++ zero_bytes 12 ++ enc_octets pp ++ D) by (rewrite <- HE; exact Hdata).
  clear Hdata HE Hbm Epush.
  set (E := enc_v3_of m D) in *.
  set (mac := hmac96 (alg_H (ak_alg (auth s))) (ak_key (auth s)) E) in *.
  set (post := enc_octets pp ++ D) in *.
  rewrite HE' in Hfin. rewrite takez_app_exact in Hfin.
  replace (len pre + 12) with (len (pre ++ zero_bytes 12)) in Hfin by (rewrite len_app, len_zero_bytes_12; reflexivity).
  rewrite (app_assoc pre (zero_bytes 12)) in Hfin. rewrite dropz_app_exact in Hfin.
  split; [|split; [|split]].
  - exists pre. split; [exact HE'|]. symmetry. exact Hfin.
  - rewrite <- Hfin, HE'. rewrite !len_app, Hmac, len_zero_bytes_12. reflexivity.
  - exact Hmac.
  - rewrite flags_auth_bit. unfold m. rewrite v3_message_flag_auth. exact Ha.
Qed.

(* the same with the MAC located by takez / dropz *)
Corollary v3_finish_auth_window : forall s p mid pp d D dg,
  has_auth (ak_alg (auth s)) = true ->
  len (ak_key (auth s)) = key_size (ak_alg (auth s)) ->
  in_range (engine_boots s) -> in_range (engine_time s) -> in_range mid ->
  msgdata_spec d D ->
  v3_finish s (v3_message s p mid pp d) = Ok dg ->
  let m := v3_message s p mid pp d in
  let E := enc_v3_of m D in
  exists off, 0 <= off /\ off + 12 <= len E /\
    takez off dg = takez off E /\
    dropz (off + 12) dg = dropz (off + 12) E /\
    takez 12 (dropz off E) = zero_bytes 12 /\
    takez 12 (dropz off dg) = hmac96 (alg_H (ak_alg (auth s))) (ak_key (auth s)) E.
Proof.
  intros s p mid pp d D dg Ha Hk Hboots Htime Hmid Hd Hfin. cbv zeta.
  destruct (v3_finish_auth s p mid pp d D dg Ha Hk Hboots Htime Hmid Hd Hfin) as ((pre & HE & Hdg) & _ & Hmac & _).
  cbv zeta in *. exists (len pre).
  set (mac := hmac96 _ _ _) in *. set (E := enc_v3_of _ _) in *.
  assert (Hz : len (zero_bytes 12) = 12) by reflexivity.
  split; [apply len_nonneg|]. split.
  { rewrite HE, !len_app, Hz. pose proof (len_nonneg (enc_octets pp)). pose proof (len_nonneg D). lia. }
  rewrite HE, Hdg. rewrite !takez_app_exact, !dropz_app_exact.
  split; [reflexivity|]. split.
  { replace (len pre + 12) with (len (pre ++ mac)) at 1 by (rewrite len_app; lia).
    replace (len pre + 12) with (len (pre ++ zero_bytes 12)) by (rewrite len_app; lia).
    rewrite (app_assoc pre mac), (app_assoc pre (zero_bytes 12)), !dropz_app_exact. reflexivity. }
  split.
  - rewrite <- Hz at 1. apply takez_app_exact.
  - rewrite <- Hmac at 1. apply takez_app_exact.
Qed.

(* ------------------------------------------------------------------ *)
(* session without authentication *)

Theorem v3_finish_noauth : forall s p mid pp d D dg,
  has_auth (ak_alg (auth s)) = false ->
  in_range (engine_boots s) -> in_range (engine_time s) -> in_range mid ->
  msgdata_spec d D ->
  v3_finish s (v3_message s p mid pp d) = Ok dg ->
  let m := v3_message s p mid pp d in
  dg = enc_v3_of m D /\
  u_auth_params (m_usm m) = [] /\
  testbit (flags_octet m) FLAG_AUTH = false.
Proof.
  intros s p mid pp d D dg Ha Hboots Htime Hmid Hd Hfin. cbv zeta.
  set (m := v3_message s p mid pp d) in *.
  assert (Hna : ak_alg (auth s) = ANoAuth) by (destruct (ak_alg (auth s)); [reflexivity|discriminate|discriminate]).
  unfold v3_finish in Hfin. inv_bind Hfin bf Epush.
  assert (Hok : v3_ok m) by (apply v3_message_ok; assumption).
  rewrite (push_v3_emits_bm empty_buffer m D) in Epush by (try reflexivity; assumption).
  apply emits_ok_inv in Epush. destruct Epush as (-> & _ & _).
  unfold alg_sign in Hfin. rewrite Hna in Hfin. apply Ok_inj in Hfin.
  rewrite data_grow in Hfin. cbn [empty_buffer data] in Hfin. rewrite app_nil_r in Hfin.
  split; [symmetry; exact Hfin|]. split.
  - unfold m. rewrite v3_message_usm_auth, Hna. reflexivity.
  - rewrite flags_auth_bit. unfold m. rewrite v3_message_flag_auth. exact Ha.
Qed.

(* ------------------------------------------------------------------ *)
(* MD5 and SHA-1 corollaries *)

Corollary v3_finish_md5 : forall s p mid pp d D dg,
  ak_alg (auth s) = AMd5 -> len (ak_key (auth s)) = 16 ->
  in_range (engine_boots s) -> in_range (engine_time s) -> in_range mid ->
  msgdata_spec d D ->
  v3_finish s (v3_message s p mid pp d) = Ok dg ->
  let m := v3_message s p mid pp d in
  let E := enc_v3_of m D in
  let mac := hmac96 MD5.md5 (ak_key (auth s)) E in
  let post := enc_octets pp ++ D in
  (exists pre, E = pre ++ zero_bytes 12 ++ post /\ dg = pre ++ mac ++ post) /\
  len dg = len E /\ len mac = 12 /\ testbit (flags_octet m) FLAG_AUTH = true.
Proof.
  intros s p mid pp d D dg Halg Hk Hboots Htime Hmid Hd Hfin.
  assert (Ha : has_auth (ak_alg (auth s)) = true) by (rewrite Halg; reflexivity).
  assert (Hk' : len (ak_key (auth s)) = key_size (ak_alg (auth s))) by (rewrite Halg; exact Hk).
  pose proof (v3_finish_auth s p mid pp d D dg Ha Hk' Hboots Htime Hmid Hd Hfin) as Hmain.
  rewrite Halg, alg_H_md5 in Hmain. exact Hmain.
Qed.

Corollary v3_finish_sha1 : forall s p mid pp d D dg,
  ak_alg (auth s) = ASha1 -> len (ak_key (auth s)) = 20 ->
  in_range (engine_boots s) -> in_range (engine_time s) -> in_range mid ->
  msgdata_spec d D ->
  v3_finish s (v3_message s p mid pp d) = Ok dg ->
  let m := v3_message s p mid pp d in
  let E := enc_v3_of m D in
  let mac := hmac96 SHA1.sha1 (ak_key (auth s)) E in
  let post := enc_octets pp ++ D in
  (exists pre, E = pre ++ zero_bytes 12 ++ post /\ dg = pre ++ mac ++ post) /\
  len dg = len E /\ len mac = 12 /\ testbit (flags_octet m) FLAG_AUTH = true.
Proof.
  intros s p mid pp d D dg Halg Hk Hboots Htime Hmid Hd Hfin.
  assert (Ha : has_auth (ak_alg (auth s)) = true) by (rewrite Halg; reflexivity).
  assert (Hk' : len (ak_key (auth s)) = key_size (ak_alg (auth s))) by (rewrite Halg; exact Hk).
  pose proof (v3_finish_auth s p mid pp d D dg Ha Hk' Hboots Htime Hmid Hd Hfin) as Hmain.
  rewrite Halg, alg_H_sha1 in Hmain. exact Hmain.
Qed.

(* ------------------------------------------------------------------ *)
(* push_pdu: the datagram handed to the socket *)

Lemma next_id_in_range : forall rnd, in_range (next_id rnd).
Proof.
  intros rnd. unfold next_id, MAX_REQUEST_ID. change 2147483647 with (Z.ones 31).
  rewrite Z.land_ones by lia. pose proof (Z.mod_pos_bound rnd (2 ^ 31) ltac:(reflexivity)) as Hb.
  apply in_range_small. change (2 ^ 31) with 2147483648 in *. lia.
Qed.

(* the message push_pdu serialises: which message, and that its msgData octets are well defined *)
Lemma v3_push_pdu_message : forall s p rnd dg,
  (forall r, req_of_pdu p = Some r -> req_ok r) ->
  snd (v3_push_pdu s p rnd) = Ok dg ->
  exists pp d D,
    msgdata_spec d D /\
    v3_finish s (v3_message s p (next_id rnd) pp d) = Ok dg /\
    ((has_priv (pk_alg (privk s)) = false /\ pp = [] /\
      d = Plaintext {| s_engine_id := engine_id s; s_pdu := p |}) \/
     (has_priv (pk_alg (privk s)) = true /\ exists ct,
      d = Encrypted ct /\
      snd (priv_encrypt (privk s) {| s_engine_id := engine_id s; s_pdu := p |} (engine_boots s) (engine_time s))
      = Ok (ct, pp))).
Proof.
  intros s p rnd dg Hreq Hpush. unfold v3_push_pdu in Hpush. cbv zeta in Hpush.
  destruct (has_priv (pk_alg (privk s))) eqn:Hp.
  - destruct (priv_encrypt (privk s) {| s_engine_id := engine_id s; s_pdu := p |} (engine_boots s) (engine_time s))
      as [k' [[ct pp]|e|]] eqn:Eenc; cbn [snd] in Hpush; try discriminate.
    exists pp, (Encrypted ct), (enc_octets ct). split; [reflexivity|]. split; [exact Hpush|].
    right. split; [reflexivity|]. exists ct. split; reflexivity.
  - cbn [snd] in Hpush.
    destruct (req_of_pdu p) as [r|] eqn:Er.
    + exists [], (Plaintext {| s_engine_id := engine_id s; s_pdu := p |}), (enc_scoped (engine_id s) r).
      split.
      * cbn [msgdata_spec s_pdu s_engine_id]. exists r. split; [exact Er|]. split; [apply Hreq; reflexivity|reflexivity].
      * split; [exact Hpush|]. left. repeat split.
    + exfalso. unfold v3_finish in Hpush.
      rewrite (push_v3_not_implemented empty_buffer _ {| s_engine_id := engine_id s; s_pdu := p |}) in Hpush;
        [discriminate|reflexivity|exact Er].
Qed.

Theorem v3_push_pdu_auth : forall s p rnd dg,
  has_auth (ak_alg (auth s)) = true ->
  len (ak_key (auth s)) = key_size (ak_alg (auth s)) ->
  in_range (engine_boots s) -> in_range (engine_time s) ->
  (forall r, req_of_pdu p = Some r -> req_ok r) ->
  snd (v3_push_pdu s p rnd) = Ok dg ->
  exists pp d D,
    msgdata_spec d D /\
    let m := v3_message s p (next_id rnd) pp d in
    let E := enc_v3_of m D in
    let mac := hmac96 (alg_H (ak_alg (auth s))) (ak_key (auth s)) E in
    let post := enc_octets pp ++ D in
    (exists pre, E = pre ++ zero_bytes 12 ++ post /\ dg = pre ++ mac ++ post) /\
    len dg = len E /\ len mac = 12 /\ testbit (flags_octet m) FLAG_AUTH = true.
Proof.
  intros s p rnd dg Ha Hk Hboots Htime Hreq Hpush.
  destruct (v3_push_pdu_message s p rnd dg Hreq Hpush) as (pp & d & D & Hd & Hfin & _).
  exists pp, d, D. split; [exact Hd|].
  exact (v3_finish_auth s p (next_id rnd) pp d D dg Ha Hk Hboots Htime (next_id_in_range rnd) Hd Hfin).
Qed.

Theorem v3_push_pdu_noauth : forall s p rnd dg,
  has_auth (ak_alg (auth s)) = false ->
  in_range (engine_boots s) -> in_range (engine_time s) ->
  (forall r, req_of_pdu p = Some r -> req_ok r) ->
  snd (v3_push_pdu s p rnd) = Ok dg ->
  exists pp d D,
    msgdata_spec d D /\
    let m := v3_message s p (next_id rnd) pp d in
    dg = enc_v3_of m D /\ u_auth_params (m_usm m) = [] /\ testbit (flags_octet m) FLAG_AUTH = false.
Proof.
  intros s p rnd dg Ha Hboots Htime Hreq Hpush.
  destruct (v3_push_pdu_message s p rnd dg Hreq Hpush) as (pp & d & D & Hd & Hfin & _).
  exists pp, d, D. split; [exact Hd|].
  exact (v3_finish_noauth s p (next_id rnd) pp d D dg Ha Hboots Htime (next_id_in_range rnd) Hd Hfin).
Qed.

(* v3_finish never panics on such a session: signing cannot run outside the datagram *)
Theorem v3_finish_no_panic : forall s p mid pp d D,
  (has_auth (ak_alg (auth s)) = true -> len (ak_key (auth s)) = key_size (ak_alg (auth s))) ->
  in_range (engine_boots s) -> in_range (engine_time s) -> in_range mid ->
  msgdata_spec d D ->
  v3_finish s (v3_message s p mid pp d) <> Panic.
Proof.
  intros s p mid pp d D Hk Hboots Htime Hmid Hd.
  set (m := v3_message s p mid pp d).
  assert (Hok : v3_ok m) by (apply v3_message_ok; assumption).
  unfold v3_finish. fold m.
  destruct (push_v3 empty_buffer m) as [bf| |] eqn:Epush; cbn [bind].
  - destruct (has_auth (ak_alg (auth s))) eqn:Ha.
    + assert (Hph : u_auth_params (m_usm m) = zero_bytes 12).
      { unfold m. rewrite v3_message_usm_auth. apply placeholder_auth. exact Ha. }
      destruct (push_v3_bookmark empty_buffer m D bf) as (pre & Hdata & HE & Hbm);
        [reflexivity|exact Hok|exact Hd|rewrite Hph; discriminate|rewrite Hph; reflexivity|exact Epush|].
      rewrite Hph in Hdata. rewrite Hbm.
      rewrite alg_sign_is_hmac;
        [discriminate|exact Ha|apply Hk; reflexivity|apply len_nonneg|].
      rewrite Hdata, !len_app, len_zero_bytes_12.
      pose proof (len_nonneg (enc_octets (u_privacy_params (m_usm m)))). pose proof (len_nonneg D). lia.
    + assert (Hna : ak_alg (auth s) = ANoAuth)
        by (destruct (ak_alg (auth s)); [reflexivity|discriminate|discriminate]).
      unfold alg_sign. rewrite Hna. discriminate.
  - discriminate.
  - rewrite (push_v3_emits_bm empty_buffer m D) in Epush by (try reflexivity; assumption).
    exfalso. exact (emits_not_panic _ _ _ Epush).
Qed.

(* ------------------------------------------------------------------ *)
(* Print Assumptions (observed with coqc 8.16.1): each prints "Closed under the global context"
     v3_finish_auth v3_finish_auth_window v3_finish_noauth v3_finish_md5 v3_finish_sha1
     v3_push_pdu_message v3_push_pdu_auth v3_push_pdu_noauth v3_finish_no_panic *)

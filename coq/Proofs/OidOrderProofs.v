(* Order and prefix on OIDs (used by the walk theorems, C05/C06): on canonical encodings
   [is_after] is the lexicographic order of the sub-identifier lists and [starts_with] is the
   sub-identifier prefix relation; on arbitrary octet strings [is_after] is a strict order. *)
From GS Require Import Model.Base Gen.Constants Model.Ber Model.OidText Spec.X690 Proofs.OidLemmas.
Local Ltac Zify.zify_post_hook ::= Z.div_mod_to_equations.

(* sub-identifiers that fit the u64 accumulator of [subidentifiers]; every u32 value does *)
Definition sub64 (a : Z) : Prop := 0 <= a < 18446744073709551616.
Definition sub32 (a : Z) : Prop := 0 <= a <= 4294967295.

Lemma sub32_sub64 : forall l, Forall sub32 l -> Forall sub64 l.
Proof.
  intros l H. eapply Forall_impl; [|exact H]. unfold sub32, sub64. intros a Ha. lia.
Qed.

(* lexicographic order on lists, a proper prefix is smaller *)
Inductive lex_lt : list Z -> list Z -> Prop :=
| lex_nil : forall y l, lex_lt [] (y :: l)
| lex_head : forall x y a b, x < y -> lex_lt (x :: a) (y :: b)
| lex_tail : forall x a b, lex_lt a b -> lex_lt (x :: a) (x :: b).

Definition is_prefix (p l : list Z) : Prop := exists q, l = p ++ q.

(* ---------- decoding the canonical encoding ---------- *)

Lemma enc_cons : forall a l, enc (a :: l) = base128 a ++ enc l.
Proof. reflexivity. Qed.

Lemma enc_app : forall a b, enc (a ++ b) = enc a ++ enc b.
Proof. intros a b. unfold enc. rewrite map_app, concat_app. reflexivity. Qed.

Theorem subids_enc_app : forall l t, Forall sub64 l -> subids (enc l ++ t) 0 = l ++ subids t 0.
Proof.
  induction l as [|a l IH]; intros t Hl; [reflexivity|].
  inversion Hl as [|? ? Ha Hl']; subst. rewrite enc_cons, <- app_assoc.
  rewrite subids_base128 by exact Ha. rewrite (IH t Hl'). reflexivity.
Qed.

Theorem subids_enc : forall l, Forall sub64 l -> subids (enc l) 0 = l.
Proof.
  intros l Hl. rewrite <- (app_nil_r (enc l)). rewrite subids_enc_app by exact Hl.
  cbn [subids]. apply app_nil_r.
Qed.

(* no canonical sub-identifier encoding is a proper prefix of another: the last octet of a
   sub-identifier has bit 8 clear and all the others have it set, so the decoder stops at the
   same place *)
Theorem base128_prefix_free : forall a a' x y, sub64 a -> sub64 a' ->
  base128 a ++ x = base128 a' ++ y -> a = a' /\ x = y.
Proof.
  intros a a' x y Ha Ha' H.
  assert (E : subids (base128 a ++ x) 0 = subids (base128 a' ++ y) 0) by (rewrite H; reflexivity).
  rewrite !subids_base128 in E by assumption.
  assert (a = a') by congruence. subst a'. split; [reflexivity|].
  apply app_inv_head in H. exact H.
Qed.

Theorem enc_inj : forall a b, Forall sub64 a -> Forall sub64 b -> enc a = enc b -> a = b.
Proof.
  intros a b Ha Hb H. rewrite <- (subids_enc a Ha), <- (subids_enc b Hb), H. reflexivity.
Qed.

(* ---------- list_gt is the lexicographic order ---------- *)

Theorem list_gt_lex : forall a b, list_gt a b = true <-> lex_lt b a.
Proof.
  induction a as [|x a IH]; intros b.
  - cbn [list_gt]. split; [discriminate|]. intro H. inversion H.
  - destruct b as [|y b]; cbn [list_gt].
    + split; [intros _; constructor | reflexivity].
    + destruct (Z.ltb_spec y x) as [Hyx|Hyx].
      * split; [intros _; apply lex_head; exact Hyx | reflexivity].
      * destruct (Z.ltb_spec x y) as [Hxy|Hxy].
        -- split; [discriminate|]. intro H. inversion H; subst; lia.
        -- assert (x = y) by lia. subst y. rewrite IH. split.
           ++ intro H. apply lex_tail. exact H.
           ++ intro H. inversion H; subst; [lia | assumption].
Qed.

Lemma lex_lt_irrefl : forall a, ~ lex_lt a a.
Proof.
  induction a as [|x a IH]; intro H; inversion H; subst; [lia | exact (IH H1)].
Qed.

Lemma lex_lt_trans : forall a b c, lex_lt a b -> lex_lt b c -> lex_lt a c.
Proof.
  intros a b c Hab. revert c. induction Hab as [y l|x y a b Hxy|x a b Hab IH]; intros c Hbc.
  - inversion Hbc; subst; constructor.
  - inversion Hbc; subst.
    + apply lex_head. lia.
    + apply lex_head. exact Hxy.
  - inversion Hbc; subst.
    + apply lex_head. assumption.
    + apply lex_tail. apply IH. assumption.
Qed.

Lemma lex_lt_asym : forall a b, lex_lt a b -> ~ lex_lt b a.
Proof. intros a b H1 H2. exact (lex_lt_irrefl a (lex_lt_trans _ _ _ H1 H2)). Qed.

Lemma lex_lt_total : forall a b, lex_lt a b \/ a = b \/ lex_lt b a.
Proof.
  induction a as [|x a IH]; intros b.
  - destruct b; [right; left; reflexivity | left; constructor].
  - destruct b as [|y b]; [right; right; constructor|].
    destruct (Z.lt_trichotomy x y) as [H|[H|H]].
    + left. apply lex_head. exact H.
    + subst y. destruct (IH b) as [H|[H|H]].
      * left. apply lex_tail. exact H.
      * right. left. congruence.
      * right. right. apply lex_tail. exact H.
    + right. right. apply lex_head. exact H.
Qed.

(* a proper extension comes after its prefix *)
Lemma lex_lt_prefix : forall p q, q <> [] -> lex_lt p (p ++ q).
Proof.
  induction p as [|x p IH]; intros q Hq.
  - destruct q; [congruence | constructor].
  - cbn [app]. apply lex_tail. apply IH. exact Hq.
Qed.

(* ---------- is_after ---------- *)

Theorem is_after_enc : forall a b, Forall sub64 a -> Forall sub64 b ->
  (is_after (enc a) (enc b) = true <-> lex_lt b a).
Proof.
  intros a b Ha Hb. unfold is_after. rewrite (subids_enc a Ha), (subids_enc b Hb).
  apply list_gt_lex.
Qed.

Corollary is_after_enc32 : forall a b, Forall sub32 a -> Forall sub32 b ->
  (is_after (enc a) (enc b) = true <-> lex_lt b a).
Proof. intros a b Ha Hb. apply is_after_enc; apply sub32_sub64; assumption. Qed.

Theorem is_after_irrefl : forall a, is_after a a = false.
Proof.
  intro a. destruct (is_after a a) eqn:E; [|reflexivity].
  unfold is_after in E. apply list_gt_lex in E. exfalso. exact (lex_lt_irrefl _ E).
Qed.

Theorem is_after_trans : forall a b c,
  is_after a b = true -> is_after b c = true -> is_after a c = true.
Proof.
  unfold is_after. intros a b c Hab Hbc. apply list_gt_lex in Hab. apply list_gt_lex in Hbc.
  apply list_gt_lex. exact (lex_lt_trans _ _ _ Hbc Hab).
Qed.

Theorem is_after_asym : forall a b, is_after a b = true -> is_after b a = false.
Proof.
  intros a b Hab. destruct (is_after b a) eqn:E; [|reflexivity].
  pose proof (is_after_trans _ _ _ Hab E) as H. rewrite is_after_irrefl in H. discriminate.
Qed.

Theorem is_after_neq : forall a b, is_after a b = true -> a <> b.
Proof. intros a b H ->. rewrite is_after_irrefl in H. discriminate. Qed.

(* on canonical encodings the order is total *)
Theorem is_after_enc_total : forall a b, Forall sub64 a -> Forall sub64 b ->
  is_after (enc a) (enc b) = true \/ a = b \/ is_after (enc b) (enc a) = true.
Proof.
  intros a b Ha Hb. destruct (lex_lt_total a b) as [H|[H|H]].
  - right. right. apply is_after_enc; assumption.
  - right. left. exact H.
  - left. apply is_after_enc; assumption.
Qed.

(* ---------- starts_with ---------- *)

Lemma starts_with_app : forall l p, starts_with l p = true <-> exists q, l = p ++ q.
Proof.
  intros l p. revert l. induction p as [|x p IH]; intros l.
  - split; [intros _; exists l; reflexivity | intros _; destruct l; reflexivity].
  - destruct l as [|y l]; cbn [starts_with].
    + split; [discriminate|]. intros [q H]. discriminate.
    + rewrite andb_true_iff, Z.eqb_eq, IH. split.
      * intros [-> [q ->]]. exists q. reflexivity.
      * intros [q H]. cbn [app] in H. inversion H; subst. split; [reflexivity|].
        exists q. reflexivity.
Qed.

Theorem starts_with_enc : forall l p, Forall sub64 l -> Forall sub64 p ->
  (starts_with (enc l) (enc p) = true <-> is_prefix p l).
Proof.
  intros l p Hl Hp. rewrite starts_with_app. unfold is_prefix. split.
  - intros [z Hz]. exists (subids z 0).
    rewrite <- (subids_enc l Hl), Hz. apply subids_enc_app. exact Hp.
  - intros [q ->]. exists (enc q). apply enc_app.
Qed.

Corollary starts_with_enc32 : forall l p, Forall sub32 l -> Forall sub32 p ->
  (starts_with (enc l) (enc p) = true <-> is_prefix p l).
Proof. intros l p Hl Hp. apply starts_with_enc; apply sub32_sub64; assumption. Qed.

(* an OID strictly inside the subtree of p comes after p *)
Corollary is_after_proper_prefix : forall p q, Forall sub64 p -> Forall sub64 q -> q <> [] ->
  is_after (enc (p ++ q)) (enc p) = true.
Proof.
  intros p q Hp Hq Hne. apply is_after_enc.
  - apply Forall_app. split; assumption.
  - exact Hp.
  - apply lex_lt_prefix. exact Hne.
Qed.

(* bridge to the arcs of Spec/X690: the first sub-identifier packs the first two arcs *)
Lemma oid_content_enc : forall a b r, oid_content (a :: b :: r) = enc ((40 * a + b) :: r).
Proof. reflexivity. Qed.

(* on arbitrary octet strings is_after is a strict order but not a total one: a dangling
   continuation octet (non-canonical content) is ignored by the comparison *)
Example is_after_not_total :
  [43; 6] <> [43; 6; 129] /\ is_after [43; 6] [43; 6; 129] = false /\
  is_after [43; 6; 129] [43; 6] = false.
Proof. split; [discriminate|]. vm_compute. split; reflexivity. Qed.

(* ---------- assumptions (observed: every line prints "Closed under the global context") ---------- *)
Print Assumptions subids_enc_app.
Print Assumptions subids_enc.
Print Assumptions base128_prefix_free.
Print Assumptions enc_inj.
Print Assumptions list_gt_lex.
Print Assumptions is_after_enc.
Print Assumptions is_after_enc32.
Print Assumptions is_after_irrefl.
Print Assumptions is_after_trans.
Print Assumptions is_after_asym.
Print Assumptions is_after_neq.
Print Assumptions is_after_enc_total.
Print Assumptions starts_with_enc.
Print Assumptions starts_with_enc32.
Print Assumptions is_after_proper_prefix.

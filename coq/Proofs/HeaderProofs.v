(* The BER header parser (Model.Ber.parse_header, src/ber/header.rs):
   totality, the content fits the input, independence of what follows,
   the only error is Incomplete, field ranges. *)
From GS Require Import Model.Base Gen.Constants Model.Ber Proofs.BaseLemmas.
From Coq Require Import ZArith List Bool Lia.
Import ListNotations.
Open Scope Z_scope.

(* ------------------------------------------------------------------ *)
(** * Bit-mask facts *)

Lemma land_ones_range : forall a n, 0 <= n -> 0 <= Z.land a (Z.ones n) < 2 ^ n.
Proof. intros a n Hn. rewrite Z.land_ones by assumption. apply Z.mod_pos_bound. apply Z.pow_pos_nonneg; lia. Qed.

Lemma land_3_range : forall a, 0 <= Z.land a 3 <= 3.
Proof. intros a. pose proof (land_ones_range a 2 ltac:(lia)) as H. change (Z.ones 2) with 3 in H. change (2 ^ 2) with 4 in H. lia. Qed.

Lemma land_31_range : forall a, 0 <= Z.land a 31 < 32.
Proof. intros a. pose proof (land_ones_range a 5 ltac:(lia)) as H. change (Z.ones 5) with 31 in H. change (2 ^ 5) with 32 in H. lia. Qed.

Lemma land_127_range : forall a, 0 <= Z.land a 127 < 128.
Proof. intros a. pose proof (land_ones_range a 7 ltac:(lia)) as H. change (Z.ones 7) with 127 in H. change (2 ^ 7) with 128 in H. lia. Qed.

Lemma wrap8_range : forall z, 0 <= wrap8 z < 256.
Proof. intros z. unfold wrap8. apply Z.mod_pos_bound. lia. Qed.

Lemma wrap32_range : forall z, 0 <= wrap32 z < 4294967296.
Proof. intros z. unfold wrap32. apply Z.mod_pos_bound. lia. Qed.

Lemma wrap64_range : forall z, 0 <= wrap64 z < 18446744073709551616.
Proof. intros z. unfold wrap64. apply Z.mod_pos_bound. lia. Qed.

(* bit 7 clear in an octet means the octet is below 128 *)
Lemma land_128_small : forall n, 0 <= n < 256 -> Z.land n 128 = 0 -> n < 128.
Proof.
  intros n Hn H0. destruct (Z.lt_ge_cases n 128) as [Hlt|Hge]; [assumption|exfalso].
  assert (Z.testbit (Z.land n 128) 7 = true) as Hb.
  { rewrite Z.land_spec. change (Z.testbit 128 7) with true. rewrite andb_true_r.
    apply Z.testbit_true; [lia|]. change (2 ^ 7) with 128.
    assert (n / 128 = 1) as -> by (symmetry; apply Z.div_unique with (n - 128); lia).
    reflexivity. }
  rewrite H0 in Hb. discriminate Hb.
Qed.

(* ------------------------------------------------------------------ *)
(** * The two loops *)

Lemma tag_loop_no_panic : forall l n, tag_loop n l <> Panic.
Proof.
  induction l as [|t r IH]; intros n; cbn [tag_loop]; [discriminate|].
  destruct (Z.land t 128 =? 0); [discriminate|apply IH].
Qed.

Lemma tag_loop_err : forall l n e, tag_loop n l = Err e -> e = Incomplete.
Proof.
  induction l as [|t r IH]; intros n e H; cbn [tag_loop] in H.
  - inversion H. reflexivity.
  - destruct (Z.land t 128 =? 0); [discriminate H|eapply IH; eassumption].
Qed.

Lemma tag_loop_ok : forall l n t r, tag_loop n l = Ok (t, r) ->
  0 <= t < 256 /\ exists pre, l = pre ++ r /\ 1 <= len pre.
Proof.
  induction l as [|b l' IH]; intros n t r H; cbn [tag_loop] in H; [discriminate H|].
  destruct (Z.land b 128 =? 0).
  - inversion H; subst. split; [apply wrap8_range|].
    exists [b]. split; [reflexivity|]. rewrite len_cons, len_nil. lia.
  - apply IH in H. destruct H as (Ht & pre & -> & Hp). split; [assumption|].
    exists (b :: pre). split; [reflexivity|]. rewrite len_cons. lia.
Qed.

Lemma tag_loop_app : forall l n t r s, tag_loop n l = Ok (t, r) -> tag_loop n (l ++ s) = Ok (t, r ++ s).
Proof.
  induction l as [|b l' IH]; intros n t r s H; cbn [tag_loop] in H; [discriminate H|].
  cbn [app tag_loop]. destruct (Z.land b 128 =? 0).
  - inversion H; subst. reflexivity.
  - apply IH. assumption.
Qed.

Lemma len_loop_no_panic : forall k ln l, len_loop k ln l <> Panic.
Proof.
  induction k as [|k IH]; intros ln l; cbn [len_loop]; [discriminate|].
  destruct l as [|b r]; [discriminate|apply IH].
Qed.

Lemma len_loop_err : forall k ln l e, len_loop k ln l = Err e -> e = Incomplete.
Proof.
  induction k as [|k IH]; intros ln l e H; cbn [len_loop] in H; [discriminate H|].
  destruct l as [|b r]; [inversion H; reflexivity|eapply IH; eassumption].
Qed.

Lemma len_loop_ok : forall k ln l v r, 0 <= ln -> len_loop k ln l = Ok (v, r) ->
  0 <= v /\ exists pre, l = pre ++ r /\ length pre = k.
Proof.
  induction k as [|k IH]; intros ln l v r Hln H; cbn [len_loop] in H.
  - inversion H; subst. split; [assumption|]. exists []. split; reflexivity.
  - destruct l as [|b l']; [discriminate H|].
    apply IH in H; [|apply wrap64_range].
    destruct H as (Hv & pre & -> & Hp). split; [assumption|].
    exists (b :: pre). split; [reflexivity|]. cbn [length]. lia.
Qed.

Lemma len_loop_app : forall k ln l v r s, len_loop k ln l = Ok (v, r) -> len_loop k ln (l ++ s) = Ok (v, r ++ s).
Proof.
  induction k as [|k IH]; intros ln l v r s H; cbn [len_loop] in H.
  - inversion H; subst. reflexivity.
  - destruct l as [|b l']; [discriminate H|]. cbn [app len_loop]. apply IH. assumption.
Qed.

(* ------------------------------------------------------------------ *)
(** * The two steps of parse_header *)

Definition hdr_tag_step (id : Z) (r1 : bytes) : res (Z * bytes) :=
  if Z.land id 31 =? 31 then tag_loop 0 r1 else Ok (Z.land id 31, r1).

Definition hdr_len_step (n : Z) (r3 : bytes) : res (Z * bytes) :=
  if Z.land n 128 =? 0 then Ok (n, r3) else len_loop (Z.to_nat (Z.land n 127)) 0 r3.

Definition hdr_mk (id tag length : Z) : hdr :=
  {| h_class := Z.land (Z.shiftr id 6) 3;
     h_constructed := Z.land (Z.shiftr id 5) 1 =? 1;
     h_tag := tag; h_length := length |}.

Lemma parse_header_unfold : forall id b1 r,
  parse_header (id :: b1 :: r) =
  ('(tag, r2) <- hdr_tag_step id (b1 :: r) ;;
   match r2 with
   | [] => Err Incomplete
   | n :: r3 =>
     '(length, r4) <- hdr_len_step n r3 ;;
     if len r4 <? length then Err Incomplete else Ok (r4, hdr_mk id tag length)
   end).
Proof. reflexivity. Qed.

Lemma parse_header_short : forall i, len i < 2 -> parse_header i = Err Incomplete.
Proof.
  intros [|id [|b1 r]] H; try reflexivity.
  rewrite !len_cons in H. pose proof (len_nonneg r). lia.
Qed.

Lemma hdr_tag_step_no_panic : forall id r1, hdr_tag_step id r1 <> Panic.
Proof. intros id r1. unfold hdr_tag_step. destruct (Z.land id 31 =? 31); [apply tag_loop_no_panic|discriminate]. Qed.

Lemma hdr_tag_step_err : forall id r1 e, hdr_tag_step id r1 = Err e -> e = Incomplete.
Proof.
  intros id r1 e H. unfold hdr_tag_step in H.
  destruct (Z.land id 31 =? 31); [eapply tag_loop_err; eassumption|discriminate H].
Qed.

Lemma hdr_tag_step_ok : forall id r1 t r, hdr_tag_step id r1 = Ok (t, r) ->
  0 <= t < 256 /\ exists pre, r1 = pre ++ r.
Proof.
  intros id r1 t r H. unfold hdr_tag_step in H. destruct (Z.land id 31 =? 31).
  - apply tag_loop_ok in H. destruct H as (Ht & pre & Hp & _). split; [assumption|eauto].
  - inversion H; subst. pose proof (land_31_range id). split; [lia|]. exists []. reflexivity.
Qed.

Lemma hdr_tag_step_app : forall id r1 t r s, hdr_tag_step id r1 = Ok (t, r) ->
  hdr_tag_step id (r1 ++ s) = Ok (t, r ++ s).
Proof.
  intros id r1 t r s H. unfold hdr_tag_step in *. destruct (Z.land id 31 =? 31).
  - apply tag_loop_app. assumption.
  - inversion H; subst. reflexivity.
Qed.

Lemma hdr_len_step_no_panic : forall n r3, hdr_len_step n r3 <> Panic.
Proof. intros n r3. unfold hdr_len_step. destruct (Z.land n 128 =? 0); [discriminate|apply len_loop_no_panic]. Qed.

Lemma hdr_len_step_err : forall n r3 e, hdr_len_step n r3 = Err e -> e = Incomplete.
Proof.
  intros n r3 e H. unfold hdr_len_step in H.
  destruct (Z.land n 128 =? 0); [discriminate H|eapply len_loop_err; eassumption].
Qed.

Lemma hdr_len_step_ok : forall n r3 v r, hdr_len_step n r3 = Ok (v, r) ->
  (0 <= n < 256 -> 0 <= v) /\ exists pre, r3 = pre ++ r.
Proof.
  intros n r3 v r H. unfold hdr_len_step in H. destruct (Z.land n 128 =? 0) eqn:E.
  - inversion H; subst. split; [lia|]. exists []. reflexivity.
  - apply len_loop_ok in H; [|lia]. destruct H as (Hv & pre & Hp & _). split; [intros _; assumption|eauto].
Qed.

Lemma hdr_len_step_app : forall n r3 v r s, hdr_len_step n r3 = Ok (v, r) ->
  hdr_len_step n (r3 ++ s) = Ok (v, r ++ s).
Proof.
  intros n r3 v r s H. unfold hdr_len_step in *. destruct (Z.land n 128 =? 0).
  - inversion H; subst. reflexivity.
  - apply len_loop_app. assumption.
Qed.

(* ------------------------------------------------------------------ *)
(** * Inversion of a successful parse *)

Lemma parse_header_inv : forall i c h, parse_header i = Ok (c, h) ->
  exists id b1 r tag n r3 length,
    i = id :: b1 :: r /\
    hdr_tag_step id (b1 :: r) = Ok (tag, n :: r3) /\
    hdr_len_step n r3 = Ok (length, c) /\
    length <= len c /\
    h = hdr_mk id tag length.
Proof.
  intros i c h H. destruct i as [|id [|b1 r]]; try discriminate H.
  rewrite parse_header_unfold in H.
  destruct (hdr_tag_step id (b1 :: r)) as [[tag r2]| |] eqn:Et; cbn [bind] in H; try discriminate H.
  destruct r2 as [|n r3]; [discriminate H|].
  destruct (hdr_len_step n r3) as [[length r4]| |] eqn:El; cbn [bind] in H; try discriminate H.
  destruct (len r4 <? length) eqn:Ec; [discriminate H|]. apply Z.ltb_ge in Ec.
  inversion H; subst. exists id, b1, r, tag, n, r3, length. repeat split; assumption.
Qed.

(* ------------------------------------------------------------------ *)
(** * Requested theorems (A) *)

(* A.1 *)
Theorem parse_header_no_panic : forall i, parse_header i <> Panic.
Proof.
  intros i. destruct i as [|id [|b1 r]]; try discriminate.
  rewrite parse_header_unfold.
  apply bind_no_panic; [apply hdr_tag_step_no_panic|].
  intros [tag r2] _. destruct r2 as [|n r3]; [discriminate|].
  apply bind_no_panic; [apply hdr_len_step_no_panic|].
  intros [length r4] _. destruct (len r4 <? length); discriminate.
Qed.

(* A.4 *)
Theorem parse_header_err_incomplete : forall i e, parse_header i = Err e -> e = Incomplete.
Proof.
  intros i e H. destruct i as [|id [|b1 r]]; try (inversion H; reflexivity).
  rewrite parse_header_unfold in H.
  apply bind_err_inv in H. destruct H as [H|([tag r2] & _ & H)]; [eapply hdr_tag_step_err; eassumption|].
  destruct r2 as [|n r3]; [inversion H; reflexivity|].
  apply bind_err_inv in H. destruct H as [H|([length r4] & _ & H)]; [eapply hdr_len_step_err; eassumption|].
  destruct (len r4 <? length); [inversion H; reflexivity|discriminate H].
Qed.

(* The structural part of A.2 does not need [wfb]: the content is a suffix of the
   input, at least two octets were consumed, and the declared length fits. *)
Lemma parse_header_suffix : forall i c h, parse_header i = Ok (c, h) ->
  h_length h <= len c /\ len c + 2 <= len i /\ exists pre, i = pre ++ c /\ 2 <= len pre.
Proof.
  intros i c h H. apply parse_header_inv in H.
  destruct H as (id & b1 & r & tag & n & r3 & length & -> & Ht & Hl & Hfit & ->).
  apply hdr_tag_step_ok in Ht. destruct Ht as (_ & pre1 & Hp1).
  apply hdr_len_step_ok in Hl. destruct Hl as (_ & pre2 & Hp2).
  assert (id :: b1 :: r = (id :: pre1 ++ n :: pre2) ++ c) as Happ.
  { rewrite Hp1, Hp2. cbn [app]. rewrite <- app_assoc. reflexivity. }
  assert (2 <= len (id :: pre1 ++ n :: pre2)) as Hpre.
  { rewrite len_cons, len_app, len_cons. pose proof (len_nonneg pre1). pose proof (len_nonneg pre2). lia. }
  split; [exact Hfit|]. split.
  - rewrite Happ, len_app. lia.
  - eexists. split; eassumption.
Qed.

Lemma parse_header_length_nonneg : forall i c h, wfb i -> parse_header i = Ok (c, h) -> 0 <= h_length h.
Proof.
  intros i c h Hw H. apply parse_header_inv in H.
  destruct H as (id & b1 & r & tag & n & r3 & length & -> & Ht & Hl & Hfit & ->).
  cbn [hdr_mk h_length].
  pose proof Ht as Ht'. apply hdr_tag_step_ok in Ht'. destruct Ht' as (_ & pre1 & Hp1).
  apply hdr_len_step_ok in Hl. destruct Hl as (Hv & _). apply Hv.
  apply wfb_cons in Hw. destruct Hw as [_ Hw]. rewrite Hp1 in Hw.
  apply wfb_app_r in Hw. apply wfb_cons in Hw. tauto.
Qed.

(* A.2 *)
Theorem parse_header_fits : forall i c h, wfb i -> parse_header i = Ok (c, h) ->
  0 <= h_length h <= len c /\ wfb c /\ len c + 2 <= len i /\ exists pre, i = pre ++ c.
Proof.
  intros i c h Hw H. pose proof (parse_header_length_nonneg i c h Hw H) as Hnn.
  apply parse_header_suffix in H. destruct H as (Hfit & Hlen & pre & Hp & _).
  split; [lia|]. split; [|split; [assumption|eauto]].
  rewrite Hp in Hw. eapply wfb_app_r; eassumption.
Qed.

(* A.3 *)
Theorem parse_header_app : forall x s c h, parse_header x = Ok (c, h) ->
  parse_header (x ++ s) = Ok (c ++ s, h).
Proof.
  intros x s c h H. apply parse_header_inv in H.
  destruct H as (id & b1 & r & tag & n & r3 & length & -> & Ht & Hl & Hfit & ->).
  change ((id :: b1 :: r) ++ s) with (id :: b1 :: (r ++ s)). rewrite parse_header_unfold.
  change (b1 :: r ++ s) with ((b1 :: r) ++ s).
  rewrite (hdr_tag_step_app _ _ _ _ s Ht). cbn [bind app].
  rewrite (hdr_len_step_app _ _ _ _ s Hl). cbn [bind].
  pose proof (len_nonneg s).
  destruct (len (c ++ s) <? length) eqn:Ec; [|reflexivity].
  apply Z.ltb_lt in Ec. rewrite len_app in Ec. lia.
Qed.

(* A.5 (no [wfb] needed; the requested statement follows) *)
Lemma parse_header_fields_gen : forall i c h, parse_header i = Ok (c, h) ->
  0 <= h_class h <= 3 /\ 0 <= h_tag h < 256.
Proof.
  intros i c h H. apply parse_header_inv in H.
  destruct H as (id & b1 & r & tag & n & r3 & length & -> & Ht & Hl & Hfit & ->).
  cbn [hdr_mk h_class h_tag]. split; [apply land_3_range|].
  apply hdr_tag_step_ok in Ht. tauto.
Qed.

Theorem parse_header_fields : forall i c h, wfb i -> parse_header i = Ok (c, h) ->
  0 <= h_class h <= 3 /\ 0 <= h_tag h < 256.
Proof. intros i c h _ H. eapply parse_header_fields_gen; eassumption. Qed.

(* A short definite-form length octet gives a length below 128 *)
Lemma hdr_len_step_short : forall n r3, 0 <= n < 256 -> Z.land n 128 = 0 ->
  hdr_len_step n r3 = Ok (n, r3) /\ n < 128.
Proof.
  intros n r3 Hn H0. unfold hdr_len_step. rewrite H0. cbn [Z.eqb]. split; [reflexivity|].
  apply land_128_small; assumption.
Qed.

(* Sanity: the declared length that overruns the input is rejected. *)
Example parse_header_overrun_example : parse_header [4; 3; 1; 2] = Err Incomplete.
Proof. reflexivity. Qed.

(* Print Assumptions observed (all): Closed under the global context
   parse_header_no_panic, parse_header_fits, parse_header_app,
   parse_header_err_incomplete, parse_header_fields *)

(* C06: the GETNEXT and GETBULK walks of Model/Walk.v against an ARBITRARY agent.
   Method: both iterators are shown equal to one generic walk [gwalk] driven by a pure "verdict" on each
   reply (which items the reply contributes and whether the walk goes on); every property is then proved
   once for [gwalk] from the soundness of the verdict. *)
From Coq Require Import ZArith List Bool Lia Sorted.
From GS Require Import Model.Base Gen.Constants Model.Ber Model.Pdu Model.OidText Model.Exc Gen.ErrorMap Model.Ops
  Model.Walk.
From GS Require Import Proofs.OpsLemmas Proofs.OpsProofs.
Import ListNotations.
Open Scope Z_scope.

(* ------------------------------------------------------------------ *)
(* Verdicts                                                            *)
(* ------------------------------------------------------------------ *)

Inductive verdict :=
| Go (chunk : list item)                  (* the reply contributes [chunk] and the walk continues *)
| Halt (chunk : list item) (e : ending).  (* the reply contributes [chunk] and the walk ends with [e] *)

Definition accepted (base prev o : bytes) : bool := starts_with o base && is_after o prev.

Definition mk_item (vb : varbind) (k : bytes) (v : pv) : item :=
  {| it_oid := vb_oid vb; it_key := k; it_value := v |}.

(* key and value conversion of one varbind, in the order of the Rust code *)
Definition convert (vb : varbind) : outcome item :=
  obind (lift (text_of_oid (vb_oid vb))) (fun k =>
  obind (lift (value_to_py (vb_value vb))) (fun v => Return (mk_item vb k v))).

Definition ending_of_exc (e : exc) : ending :=
  match e with EStopAsyncIteration => Stopped | _ => Raised e end.

Definition next_verdict (base prev : bytes) (p : pdu) : verdict :=
  match p with
  | PGetResponse r =>
    match gr_vars r with
    | [] => Halt [] Stopped
    | [vb] =>
      if accepted base prev (vb_oid vb) then
        if is_data_value (vb_value vb) then
          match convert vb with
          | Return i => Go [i]
          | Raise e => Halt [] (ending_of_exc e)
          | Crash => Halt [] CrashedW
          end
        else Halt [] Stopped
      else Halt [] Stopped
    | _ => Halt [] (Raised EDecode)
    end
  | PReport _ => Halt [] (Raised EAuth)
  | _ => Halt [] (Raised EDecode)
  end.

Inductive scan_end := SEnd | SOut | SFail (e : ending).

(* scan of the data-valued varbinds of a GETBULK reply *)
Fixpoint bulk_scan (base prev : bytes) (dvs : list varbind) : list item * scan_end :=
  match dvs with
  | [] => ([], SEnd)
  | vb :: r =>
    if accepted base prev (vb_oid vb) then
      match convert vb with
      | Return i => let '(l, e) := bulk_scan base (vb_oid vb) r in (i :: l, e)
      | Raise e => ([], SFail (ending_of_exc e))
      | Crash => ([], SFail CrashedW)
      end
    else ([], SOut)
  end.

Definition bulk_verdict (base prev : bytes) (p : pdu) : verdict :=
  match p with
  | PGetResponse r =>
    match bulk_scan base prev (data_vars (gr_vars r)) with
    | ([], SEnd) => Halt [] Stopped
    | (c, SEnd) => Go c
    | (c, SOut) => Halt c Stopped
    | (_, SFail e) => Halt [] e
    end
  | PReport _ => Halt [] (Raised EAuth)
  | _ => Halt [] (Raised EDecode)
  end.

(* ------------------------------------------------------------------ *)
(* The generic walk                                                    *)
(* ------------------------------------------------------------------ *)

Definition last_oid (c : list item) (prev : bytes) : bytes := last (map it_oid c) prev.

Fixpoint gwalk (V : bytes -> bytes -> pdu -> verdict) (fuel : nat) (a : agent) (n : nat) (base prev : bytes) : walk :=
  match fuel with
  | O => {| yielded := []; requested := []; ended := OutOfFuel |}
  | S f =>
    match V base prev (a n prev) with
    | Go c => let w := gwalk V f a (S n) base (last_oid c prev) in
              {| yielded := c ++ yielded w; requested := prev :: requested w; ended := ended w |}
    | Halt c e => {| yielded := c; requested := [prev]; ended := e |}
    end
  end.

Definition prepend (ys : list item) (rq : list bytes) (w : walk) : walk :=
  {| yielded := ys ++ yielded w; requested := rq ++ requested w; ended := ended w |}.

Lemma last_cons : forall (A : Type) (l : list A) (x d : A), last (x :: l) d = last l x.
Proof.
  intros A l. induction l as [|y l IH]; intros x d; [reflexivity|].
  change (last (x :: y :: l) d) with (last (y :: l) d). rewrite (IH y d), (IH y x). reflexivity.
Qed.

Lemma ending_of_err : forall e, ending_of_exc (err_to_exc e) = Raised (err_to_exc e).
Proof. intros e. destruct e; reflexivity. Qed.

Lemma convert_data_no_crash : forall vb, is_data_value (vb_value vb) = true -> convert vb <> Crash.
Proof.
  intros vb Hd. unfold convert.
  pose proof (text_of_oid_no_panic (vb_oid vb)) as Ht. pose proof (value_to_py_no_panic _ Hd) as Hv.
  destruct (text_of_oid (vb_oid vb)) as [k|e|]; cbn [lift obind]; [|discriminate|contradiction].
  destruct (value_to_py (vb_value vb)) as [v|e|]; cbn [lift obind]; [discriminate|discriminate|contradiction].
Qed.

Lemma convert_return : forall vb i, convert vb = Return i ->
  it_oid i = vb_oid vb /\ text_of_oid (vb_oid vb) = Ok (it_key i) /\ value_to_py (vb_value vb) = Ok (it_value i).
Proof.
  intros vb i H. unfold convert in H.
  destruct (text_of_oid (vb_oid vb)) as [k|e|]; cbn [lift obind] in H; try discriminate.
  destruct (value_to_py (vb_value vb)) as [v|e|]; cbn [lift obind] in H; try discriminate.
  inversion H; subst. cbn. auto.
Qed.

Lemma convert_raise : forall vb e, convert vb = Raise e -> exists er, e = err_to_exc er.
Proof.
  intros vb e H. unfold convert in H.
  destruct (text_of_oid (vb_oid vb)) as [k|er|]; cbn [lift obind] in H; try discriminate.
  - destruct (value_to_py (vb_value vb)) as [v|er|]; cbn [lift obind] in H; try discriminate.
    inversion H. eauto.
  - inversion H. eauto.
Qed.

(* ------------------------------------------------------------------ *)
(* walk_next = gwalk next_verdict                                      *)
(* ------------------------------------------------------------------ *)

Lemma getnext_single : forall r vb it,
  gr_vars r = [vb] ->
  getnext_to_python (PGetResponse r) it =
  let '(it', ok) := set_next_oid it (vb_oid vb) in
  if negb ok then (it', Raise EStopAsyncIteration)
  else if is_data_value (vb_value vb)
       then (it', obind (lift (text_of_oid (vb_oid vb))) (fun k =>
                  obind (lift (value_to_py (vb_value vb))) (fun x => Return (k, x))))
       else (it', Raise EStopAsyncIteration).
Proof.
  intros r vb it H. cbn [getnext_to_python]. rewrite H.
  destruct (set_next_oid it (vb_oid vb)) as [it' ok]. destruct ok; cbn [negb]; [|reflexivity].
  destruct (vb_value vb); reflexivity.
Qed.

Theorem walk_next_gwalk : forall fuel a n it ys rq,
  walk_next fuel a n it ys rq =
  prepend (rev ys) (rev rq) (gwalk next_verdict fuel a n (start_oid it) (next_oid it)).
Proof.
  induction fuel as [|f IH]; intros a n it ys rq.
  - cbn [walk_next gwalk]. unfold prepend. cbn. rewrite !app_nil_r. reflexivity.
  - destruct it as [base prev mr]. cbn [walk_next gwalk start_oid next_oid].
    destruct (a n prev) as [g|g|r|b|raw] eqn:Ep;
      try (cbn [getnext_to_python next_verdict]; unfold prepend; cbn; rewrite ?app_nil_r; reflexivity).
    cbn [next_verdict]. destruct (gr_vars r) as [|vb [|vb2 rest]] eqn:Ev.
    + cbn [getnext_to_python]. rewrite Ev. unfold prepend. cbn. rewrite ?app_nil_r. reflexivity.
    + rewrite (getnext_single r vb _ Ev). rewrite set_next_oid_eq. cbn [start_oid next_oid max_repetitions].
      fold (accepted base prev (vb_oid vb)). destruct (accepted base prev (vb_oid vb)) eqn:Ea; cbn [negb].
      * destruct (is_data_value (vb_value vb)) eqn:Ed.
        -- unfold convert.
           destruct (text_of_oid (vb_oid vb)) as [k|e|]; cbn [lift obind].
           ++ destruct (value_to_py (vb_value vb)) as [v|e|]; cbn [lift obind].
              ** rewrite IH. cbn [start_oid next_oid]. unfold prepend, last_oid. cbn.
                 rewrite <- !app_assoc. reflexivity.
              ** rewrite ending_of_err. destruct e; unfold prepend; cbn; rewrite ?app_nil_r; reflexivity.
              ** unfold prepend; cbn; rewrite ?app_nil_r; reflexivity.
           ++ rewrite ending_of_err. destruct e; unfold prepend; cbn; rewrite ?app_nil_r; reflexivity.
           ++ unfold prepend; cbn; rewrite ?app_nil_r; reflexivity.
        -- unfold prepend; cbn; rewrite ?app_nil_r; reflexivity.
      * unfold prepend; cbn; rewrite ?app_nil_r; reflexivity.
    + cbn [getnext_to_python]. rewrite Ev. unfold prepend. cbn. rewrite ?app_nil_r. reflexivity.
Qed.

Corollary walk_next_fresh : forall fuel a n it,
  walk_next fuel a n it [] [] = gwalk next_verdict fuel a n (start_oid it) (next_oid it).
Proof.
  intros. rewrite walk_next_gwalk. unfold prepend. cbn.
  destruct (gwalk next_verdict fuel a n (start_oid it) (next_oid it)); reflexivity.
Qed.

(* ------------------------------------------------------------------ *)
(* walk_bulk = gwalk bulk_verdict                                      *)
(* ------------------------------------------------------------------ *)

Definition some_of (i : item) : option (bytes * pv) := Some (it_key i, it_value i).

Definition mk_iter (base prev : bytes) (mr : Z) : getiter :=
  {| start_oid := base; next_oid := prev; max_repetitions := mr |}.

Lemma data_vars_cons : forall vb r,
  data_vars (vb :: r) = if is_data_value (vb_value vb) then vb :: data_vars r else data_vars r.
Proof. reflexivity. Qed.

(* what getbulk_fold computes, in terms of the scan *)
Lemma getbulk_fold_scan : forall vars base prev mr acc,
  match bulk_scan base prev (data_vars vars) with
  | (c, SEnd) => getbulk_fold vars (mk_iter base prev mr) acc =
                 (mk_iter base (last_oid c prev) mr, Return (rev acc ++ map some_of c))
  | (c, SOut) => getbulk_fold vars (mk_iter base prev mr) acc =
                 (mk_iter base (last_oid c prev) mr, Return (rev acc ++ map some_of c ++ [None]))
  | (c, SFail en) => exists it' o, getbulk_fold vars (mk_iter base prev mr) acc = (it', o) /\
                     match o with
                     | Return _ => False
                     | Raise x => en = ending_of_exc x
                     | Crash => en = CrashedW
                     end
  end.
Proof.
  induction vars as [|vb r IH]; intros base prev mr acc.
  - cbn. rewrite app_nil_r. reflexivity.
  - rewrite data_vars_cons. cbn [getbulk_fold].
    destruct (is_data_value (vb_value vb)) eqn:Ed; [|apply IH].
    cbn [bulk_scan]. rewrite set_next_oid_eq. unfold mk_iter. cbn [start_oid next_oid max_repetitions].
    fold (accepted base prev (vb_oid vb)). destruct (accepted base prev (vb_oid vb)) eqn:Ea; cbn [negb].
    + unfold convert.
      destruct (text_of_oid (vb_oid vb)) as [k|e|]; cbn [lift obind].
      * destruct (value_to_py (vb_value vb)) as [v|e|]; cbn [lift obind].
        -- specialize (IH base (vb_oid vb) mr (Some (k, v) :: acc)). unfold mk_iter in IH.
           destruct (bulk_scan base (vb_oid vb) (data_vars r)) as [l e].
           unfold last_oid in *. cbn [map]. rewrite last_cons. cbn [mk_item it_oid].
           destruct e as [| |en].
           ++ rewrite IH. cbn [rev]. rewrite <- app_assoc. reflexivity.
           ++ rewrite IH. cbn [rev]. rewrite <- app_assoc. reflexivity.
           ++ exact IH.
        -- eexists. eexists. split; [reflexivity|]. reflexivity.
        -- eexists. eexists. split; [reflexivity|]. reflexivity.
      * eexists. eexists. split; [reflexivity|]. reflexivity.
      * eexists. eexists. split; [reflexivity|]. reflexivity.
    + cbn [rev map app last_oid last]. unfold last_oid. cbn. reflexivity.
Qed.

(* the accepted items are built from a prefix of the data-valued varbinds *)
Definition item_of_vb (vb : varbind) (i : item) : Prop :=
  it_oid i = vb_oid vb /\ text_of_oid (vb_oid vb) = Ok (it_key i) /\ value_to_py (vb_value vb) = Ok (it_value i).

Lemma bulk_scan_prefix : forall dvs base prev,
  exists cvbs rest, dvs = cvbs ++ rest /\ Forall2 item_of_vb cvbs (fst (bulk_scan base prev dvs)).
Proof.
  induction dvs as [|vb r IH]; intros base prev.
  - exists [], []. split; [reflexivity|constructor].
  - cbn [bulk_scan]. destruct (accepted base prev (vb_oid vb)).
    + destruct (convert vb) as [i|e|] eqn:Ec.
      * destruct (IH base (vb_oid vb)) as (cvbs & rest & Hr & HF).
        destruct (bulk_scan base (vb_oid vb) r) as [l e]. cbn [fst] in *.
        exists (vb :: cvbs), rest. split; [rewrite Hr; reflexivity|]. constructor; [|exact HF].
        apply convert_return. exact Ec.
      * exists [], (vb :: r). split; [reflexivity|constructor].
      * exists [], (vb :: r). split; [reflexivity|constructor].
    + exists [], (vb :: r). split; [reflexivity|constructor].
Qed.

Lemma Forall2_item_oids : forall cvbs c, Forall2 item_of_vb cvbs c -> map vb_oid cvbs = map it_oid c.
Proof.
  induction 1 as [|vb i cvbs c [Ho _] _ IH]; [reflexivity|]. cbn [map]. rewrite Ho, IH. reflexivity.
Qed.

Lemma drain_items : forall c tail os ys,
  drain (map some_of c ++ tail) (map it_oid c ++ os) ys = drain tail os (rev c ++ ys).
Proof.
  induction c as [|i c IH]; intros tail os ys; [reflexivity|].
  cbn [map app drain some_of]. rewrite IH. cbn [rev]. rewrite <- app_assoc. destruct i. reflexivity.
Qed.

Lemma drain_nil : forall os ys, drain [] os ys = (ys, false).
Proof. reflexivity. Qed.
Lemma drain_none : forall os ys, drain [None] os ys = (ys, true).
Proof. reflexivity. Qed.

Lemma map_some_of_nil : forall c, map some_of c = [] -> c = [].
Proof. destruct c; [reflexivity|discriminate]. Qed.

Theorem walk_bulk_gwalk : forall fuel a n it ys rq,
  walk_bulk fuel a n it ys rq =
  prepend (rev ys) (rev rq) (gwalk bulk_verdict fuel a n (start_oid it) (next_oid it)).
Proof.
  induction fuel as [|f IH]; intros a n it ys rq.
  - cbn [walk_bulk gwalk]. unfold prepend. cbn. rewrite !app_nil_r. reflexivity.
  - destruct it as [base prev mr]. cbn [walk_bulk gwalk start_oid next_oid].
    destruct (a n prev) as [g|g|r|b|raw] eqn:Ep;
      try (cbn [getbulk_to_python bulk_verdict]; unfold prepend; cbn; rewrite ?app_nil_r; reflexivity).
    cbn [bulk_verdict getbulk_to_python].
    pose proof (getbulk_fold_scan (gr_vars r) base prev mr []) as HS.
    destruct (bulk_scan_prefix (data_vars (gr_vars r)) base prev) as (cvbs & rest & Hdv & HF).
    assert (Hoids : data_oids (PGetResponse r) = map it_oid (fst (bulk_scan base prev (data_vars (gr_vars r)))) ++ map vb_oid rest).
    { cbn [data_oids]. fold (data_vars (gr_vars r)). rewrite Hdv at 1. rewrite map_app.
      rewrite (Forall2_item_oids _ _ HF). reflexivity. }
    destruct (gr_vars r) as [|vb0 vars0] eqn:Ev.
    + cbn. unfold prepend. cbn. rewrite ?app_nil_r. reflexivity.
    + rewrite <- Ev in *. clear Ev vb0 vars0.
      fold (mk_iter base prev mr).
      destruct (bulk_scan base prev (data_vars (gr_vars r))) as [c e]. cbn [fst] in Hoids.
      destruct e as [| |en].
      * rewrite HS. cbn [rev app].
        destruct c as [|i c].
        -- cbn [map]. unfold prepend. cbn. rewrite ?app_nil_r. reflexivity.
        -- cbn [map]. rewrite Hoids.
           change (some_of i :: map some_of c) with (map some_of (i :: c)).
           rewrite <- (app_nil_r (map some_of (i :: c))). rewrite drain_items, drain_nil.
           cbn [map some_of app]. rewrite IH. unfold mk_iter. cbn [start_oid next_oid].
           unfold prepend. cbn [yielded requested ended].
           rewrite rev_app_distr, rev_involutive. cbn [rev]. rewrite <- !app_assoc. reflexivity.
      * rewrite HS. cbn [rev app].
        assert (Hne : map some_of c ++ [None] <> []) by (destruct c; discriminate).
        destruct (map some_of c ++ [None]) as [|x l] eqn:El; [contradiction|]. rewrite <- El.
        rewrite Hoids, drain_items, drain_none. unfold prepend. cbn [yielded requested ended].
        rewrite rev_app_distr, rev_involutive. cbn [rev]. rewrite ?app_nil_r. 
        destruct c; reflexivity.
      * destruct HS as (it' & o & HS & Ho). rewrite HS.
        destruct o as [l|x|]; [contradiction| |]; subst en.
        -- destruct c; destruct x; unfold prepend; cbn; rewrite ?app_nil_r; reflexivity.
        -- destruct c; unfold prepend; cbn; rewrite ?app_nil_r; reflexivity.
Qed.

Corollary walk_bulk_fresh : forall fuel a n it,
  walk_bulk fuel a n it [] [] = gwalk bulk_verdict fuel a n (start_oid it) (next_oid it).
Proof.
  intros. rewrite walk_bulk_gwalk. unfold prepend. cbn.
  destruct (gwalk bulk_verdict fuel a n (start_oid it) (next_oid it)); reflexivity.
Qed.

(* ------------------------------------------------------------------ *)
(* Soundness of the verdicts                                           *)
(* ------------------------------------------------------------------ *)

Definition reply_data_vars (p : pdu) : list varbind :=
  match p with PGetResponse r => data_vars (gr_vars r) | _ => [] end.
Definition reply_oids (p : pdu) : list bytes :=
  match p with PGetResponse r => map vb_oid (gr_vars r) | _ => [] end.

(* each element is after the previous one, the first is after [prev] *)
Fixpoint chain_after (prev : bytes) (l : list bytes) : Prop :=
  match l with [] => True | x :: r => is_after x prev = true /\ chain_after x r end.

Definition good_chunk (base prev : bytes) (p : pdu) (c : list item) : Prop :=
  Forall (fun i => starts_with (it_oid i) base = true) c /\
  chain_after prev (map it_oid c) /\
  exists cvbs rest, reply_data_vars p = cvbs ++ rest /\ Forall2 item_of_vb cvbs c.

Definition sound (V : bytes -> bytes -> pdu -> verdict) : Prop :=
  forall base prev p,
  match V base prev p with
  | Go c => c <> [] /\ good_chunk base prev p c
  | Halt c e => good_chunk base prev p c /\ e <> OutOfFuel /\ e <> CrashedW
  end.

Lemma good_chunk_nil : forall base prev p, good_chunk base prev p [].
Proof.
  intros. split; [constructor|]. split; [exact I|]. exists [], (reply_data_vars p). split; [reflexivity|constructor].
Qed.

Lemma ending_of_exc_ok : forall e, ending_of_exc e <> OutOfFuel /\ ending_of_exc e <> CrashedW.
Proof. intros e. destruct e; cbn; split; discriminate. Qed.

Lemma data_vars_all_data : forall vars, Forall (fun vb => is_data_value (vb_value vb) = true) (data_vars vars).
Proof. intros vars. apply Forall_forall. intros vb H. apply filter_In in H. apply H. Qed.

Lemma data_vars_single : forall vb, is_data_value (vb_value vb) = true -> data_vars [vb] = [vb].
Proof. intros vb H. unfold data_vars. cbn [filter]. rewrite H. reflexivity. Qed.

Theorem next_verdict_sound : sound next_verdict.
Proof.
  intros base prev p. unfold next_verdict.
  assert (Hh : forall e, e <> OutOfFuel -> e <> CrashedW ->
               good_chunk base prev p [] /\ e <> OutOfFuel /\ e <> CrashedW).
  { intros e H1 H2. split; [apply good_chunk_nil|auto]. }
  destruct p as [g|g|r|b|raw]; try (apply Hh; discriminate).
  destruct (gr_vars r) as [|vb [|vb2 rest]] eqn:Ev; try (apply Hh; discriminate).
  destruct (accepted base prev (vb_oid vb)) eqn:Ea; [|apply Hh; discriminate].
  destruct (is_data_value (vb_value vb)) eqn:Ed; [|apply Hh; discriminate].
  destruct (convert vb) as [i|e|] eqn:Ec.
  - split; [discriminate|]. pose proof (convert_return _ _ Ec) as Hi.
    unfold accepted in Ea. apply andb_true_iff in Ea. destruct Ea as [Ea1 Ea2].
    destruct Hi as [Ho Hi]. split; [|split].
    + constructor; [rewrite Ho; exact Ea1|constructor].
    + cbn [map chain_after]. rewrite Ho. auto.
    + exists [vb], []. cbn [reply_data_vars]. rewrite Ev, (data_vars_single _ Ed). split; [reflexivity|].
      constructor; [|constructor]. split; [exact Ho|exact Hi].
  - apply Hh; apply ending_of_exc_ok.
  - exfalso. eapply convert_data_no_crash; eauto.
Qed.

Lemma bulk_scan_good : forall dvs base prev,
  Forall (fun vb => is_data_value (vb_value vb) = true) dvs ->
  Forall (fun i => starts_with (it_oid i) base = true) (fst (bulk_scan base prev dvs)) /\
  chain_after prev (map it_oid (fst (bulk_scan base prev dvs))) /\
  (forall en, snd (bulk_scan base prev dvs) = SFail en -> en <> OutOfFuel /\ en <> CrashedW).
Proof.
  induction dvs as [|vb r IH]; intros base prev Hd.
  - cbn. repeat split; try constructor; discriminate.
  - inversion Hd as [|? ? Hvb Hr]; subst. cbn [bulk_scan].
    destruct (accepted base prev (vb_oid vb)) eqn:Ea.
    + destruct (convert vb) as [i|e|] eqn:Ec.
      * destruct (IH base (vb_oid vb) Hr) as (H1 & H2 & H3).
        destruct (bulk_scan base (vb_oid vb) r) as [l e]. cbn [fst snd] in *.
        destruct (convert_return _ _ Ec) as [Ho _].
        unfold accepted in Ea. apply andb_true_iff in Ea. destruct Ea as [Ea1 Ea2].
        split; [constructor; [rewrite Ho; exact Ea1|exact H1]|]. split; [|exact H3].
        cbn [map chain_after]. rewrite Ho. auto.
      * cbn [fst snd map chain_after]. split; [constructor|]. split; [exact I|].
        intros en' Hen. inversion Hen; subst. apply ending_of_exc_ok.
      * exfalso. eapply convert_data_no_crash; eauto.
    + cbn. repeat split; try constructor; discriminate.
Qed.

Theorem bulk_verdict_sound : sound bulk_verdict.
Proof.
  intros base prev p. unfold bulk_verdict.
  assert (Hh : forall e, e <> OutOfFuel -> e <> CrashedW ->
               good_chunk base prev p [] /\ e <> OutOfFuel /\ e <> CrashedW).
  { intros e H1 H2. split; [apply good_chunk_nil|auto]. }
  destruct p as [g|g|r|b|raw]; try (apply Hh; discriminate).
  destruct (bulk_scan_good (data_vars (gr_vars r)) base prev (data_vars_all_data _)) as (H1 & H2 & H3).
  destruct (bulk_scan_prefix (data_vars (gr_vars r)) base prev) as (cvbs & rest & Hdv & HF).
  destruct (bulk_scan base prev (data_vars (gr_vars r))) as [c e]. cbn [fst snd] in *.
  assert (Hg : good_chunk base prev (PGetResponse r) c).
  { split; [exact H1|]. split; [exact H2|]. exists cvbs, rest. split; [exact Hdv|exact HF]. }
  destruct e as [| |en].
  - destruct c as [|i c]; [apply Hh; discriminate|]. split; [discriminate|exact Hg].
  - destruct c; (split; [exact Hg|split; discriminate]).
  - destruct c; apply Hh; apply (H3 en eq_refl).
Qed.

(* ------------------------------------------------------------------ *)
(* Generic properties of gwalk                                         *)
(* ------------------------------------------------------------------ *)

Lemma chain_after_app : forall l1 l2 prev,
  chain_after prev (l1 ++ l2) <-> chain_after prev l1 /\ chain_after (last l1 prev) l2.
Proof.
  induction l1 as [|x l1 IH]; intros l2 prev.
  - cbn. tauto.
  - cbn [app chain_after]. rewrite last_cons, IH. tauto.
Qed.

Lemma chain_after_all : forall l prev, chain_after prev l -> Forall (fun x => is_after x prev = true) l.
Proof.
  induction l as [|x l IH]; intros prev H; [constructor|]. destruct H as [Hx Hl].
  constructor; [exact Hx|]. apply IH in Hl. rewrite Forall_forall in *. intros y Hy.
  eapply is_after_trans; [apply Hl; exact Hy|exact Hx].
Qed.

Lemma chain_after_sorted : forall l prev, chain_after prev l ->
  StronglySorted (fun x y => is_after y x = true) l.
Proof.
  induction l as [|x l IH]; intros prev H; [constructor|]. destruct H as [Hx Hl].
  constructor; [eapply IH; exact Hl|]. apply chain_after_all. exact Hl.
Qed.

Lemma chain_after_nodup : forall l prev, chain_after prev l -> NoDup l /\ ~ In prev l.
Proof.
  induction l as [|x l IH]; intros prev H; [split; [constructor|intros []]|].
  pose proof (chain_after_all _ _ H) as Hall. destruct H as [Hx Hl].
  destruct (IH _ Hl) as [Hnd Hnin]. split.
  - constructor; assumption.
  - intros Hin. rewrite Forall_forall in Hall. specialize (Hall prev Hin).
    rewrite is_after_irrefl in Hall. discriminate.
Qed.

Lemma chain_after_consecutive : forall l prev k x y,
  chain_after prev l -> nth_error l k = Some x -> nth_error l (S k) = Some y -> is_after y x = true.
Proof.
  induction l as [|z l IH]; intros prev k x y H Hx Hy; [destruct k; discriminate|].
  destruct H as [Hz Hl]. destruct k as [|k].
  - cbn in Hx. inversion Hx; subst. destruct l as [|z' l]; [discriminate|]. cbn in Hy. inversion Hy; subst.
    apply Hl.
  - cbn [nth_error] in Hx. change (nth_error (z :: l) (S (S k))) with (nth_error l (S k)) in Hy.
    eapply IH; eauto.
Qed.

Section Generic.
Variable V : bytes -> bytes -> pdu -> verdict.
Hypothesis Vsound : sound V.

Lemma gwalk_contained : forall fuel a n base prev,
  Forall (fun i => starts_with (it_oid i) base = true) (yielded (gwalk V fuel a n base prev)).
Proof.
  induction fuel as [|f IH]; intros a n base prev; cbn [gwalk]; [constructor|].
  pose proof (Vsound base prev (a n prev)) as Hs.
  destruct (V base prev (a n prev)) as [c|c e]; cbn [yielded].
  - apply Forall_app. split; [apply Hs|apply IH].
  - apply Hs.
Qed.

Lemma gwalk_chain : forall fuel a n base prev,
  chain_after prev (map it_oid (yielded (gwalk V fuel a n base prev))).
Proof.
  induction fuel as [|f IH]; intros a n base prev; cbn [gwalk]; [exact I|].
  pose proof (Vsound base prev (a n prev)) as Hs.
  destruct (V base prev (a n prev)) as [c|c e]; cbn [yielded].
  - rewrite map_app. apply chain_after_app. split; [apply Hs|apply IH].
  - apply Hs.
Qed.

Lemma gwalk_no_crash : forall fuel a n base prev, ended (gwalk V fuel a n base prev) <> CrashedW.
Proof.
  induction fuel as [|f IH]; intros a n base prev; cbn [gwalk]; [discriminate|].
  pose proof (Vsound base prev (a n prev)) as Hs.
  destruct (V base prev (a n prev)) as [c|c e]; cbn [ended]; [apply IH|apply Hs].
Qed.

Lemma gwalk_out_of_fuel : forall fuel a n base prev,
  ended (gwalk V fuel a n base prev) = OutOfFuel ->
  (fuel <= length (yielded (gwalk V fuel a n base prev)))%nat /\
  length (requested (gwalk V fuel a n base prev)) = fuel.
Proof.
  induction fuel as [|f IH]; intros a n base prev; cbn [gwalk]; [cbn; lia|].
  pose proof (Vsound base prev (a n prev)) as Hs.
  destruct (V base prev (a n prev)) as [c|c e]; cbn [ended yielded requested].
  - intros H. destruct (IH _ _ _ _ H) as [H1 H2]. destruct Hs as [Hne _].
    rewrite app_length. cbn [length]. destruct c; [contradiction|]. cbn [length]. lia.
  - intros H. exfalso. destruct Hs as (_ & Hs & _). apply Hs. exact H.
Qed.

Lemma gwalk_requests : forall fuel a n base prev,
  ended (gwalk V fuel a n base prev) <> OutOfFuel ->
  (1 <= length (requested (gwalk V fuel a n base prev)) <= fuel)%nat.
Proof.
  induction fuel as [|f IH]; intros a n base prev; cbn [gwalk]; [cbn; congruence|].
  destruct (V base prev (a n prev)) as [c|c e]; cbn [ended requested length].
  - intros H. specialize (IH _ _ _ _ H). lia.
  - intros _. lia.
Qed.

(* every yielded OID occurs among the varbind OIDs of some reply *)
Lemma good_chunk_oids : forall base prev p c, good_chunk base prev p c ->
  forall i, In i c -> In (it_oid i) (reply_oids p).
Proof.
  intros base prev p c (_ & _ & cvbs & rest & Hdv & HF) i Hi.
  assert (Hin : In (it_oid i) (map vb_oid cvbs)).
  { rewrite (Forall2_item_oids _ _ HF). apply in_map. exact Hi. }
  destruct p as [g|g|r|b|raw]; cbn [reply_data_vars] in Hdv;
    try (destruct cvbs; [destruct Hin|discriminate]).
  cbn [reply_oids]. apply in_map_iff in Hin. destruct Hin as (vb & Ho & Hvb).
  apply in_map_iff. exists vb. split; [exact Ho|].
  assert (In vb (data_vars (gr_vars r))) as Hd by (rewrite Hdv; apply in_or_app; left; exact Hvb).
  apply filter_In in Hd. apply Hd.
Qed.

Lemma gwalk_oids_from_replies : forall (U : list bytes) a,
  (forall n o, Forall (fun x => In x U) (reply_oids (a n o))) ->
  forall fuel n base prev, Forall (fun i => In (it_oid i) U) (yielded (gwalk V fuel a n base prev)).
Proof.
  intros U a HU. induction fuel as [|f IH]; intros n base prev; cbn [gwalk]; [constructor|].
  pose proof (Vsound base prev (a n prev)) as Hs.
  assert (Hc : forall c, good_chunk base prev (a n prev) c -> Forall (fun i => In (it_oid i) U) c).
  { intros c Hg. apply Forall_forall. intros i Hi. specialize (HU n prev). rewrite Forall_forall in HU.
    apply HU. eapply good_chunk_oids; eauto. }
  destruct (V base prev (a n prev)) as [c|c e]; cbn [yielded].
  - apply Forall_app. split; [apply Hc; apply Hs|apply IH].
  - apply Hc. apply Hs.
Qed.

Lemma gwalk_nodup : forall fuel a n base prev,
  NoDup (map it_oid (yielded (gwalk V fuel a n base prev))) /\
  ~ In prev (map it_oid (yielded (gwalk V fuel a n base prev))).
Proof. intros. eapply chain_after_nodup. apply gwalk_chain. Qed.

(* the walk cannot loop *)
Lemma gwalk_terminates : forall (U : list bytes) a fuel n base prev,
  (forall n o, Forall (fun x => In x U) (reply_oids (a n o))) ->
  (fuel > length U)%nat ->
  ended (gwalk V fuel a n base prev) <> OutOfFuel.
Proof.
  intros U a fuel n base prev HU Hf Hend.
  destruct (gwalk_out_of_fuel _ _ _ _ _ Hend) as [Hlen _].
  destruct (gwalk_nodup fuel a n base prev) as [Hnd _].
  pose proof (gwalk_oids_from_replies U a HU fuel n base prev) as Hin.
  assert (Hincl : incl (map it_oid (yielded (gwalk V fuel a n base prev))) U).
  { intros x Hx. apply in_map_iff in Hx. destruct Hx as (i & <- & Hi).
    rewrite Forall_forall in Hin. apply Hin. exact Hi. }
  pose proof (NoDup_incl_length Hnd Hincl) as Hle. rewrite map_length in Hle. lia.
Qed.

Lemma gwalk_requests_le : forall fuel a n base prev,
  (length (requested (gwalk V fuel a n base prev)) <= S (length (yielded (gwalk V fuel a n base prev))))%nat.
Proof.
  induction fuel as [|f IH]; intros a n base prev; cbn [gwalk]; [cbn; lia|].
  pose proof (Vsound base prev (a n prev)) as Hs.
  destruct (V base prev (a n prev)) as [c|c e]; cbn [yielded requested length].
  - destruct Hs as [Hne _]. rewrite app_length. specialize (IH a (S n) base (last_oid c prev)).
    destruct c; [contradiction|]. cbn [length]. lia.
  - lia.
Qed.

(* with at most length U + 1 requests, whatever the fuel *)
Lemma gwalk_request_bound : forall (U : list bytes) a fuel n base prev,
  (forall n o, Forall (fun x => In x U) (reply_oids (a n o))) ->
  (length (requested (gwalk V fuel a n base prev)) <= length U + 1)%nat.
Proof.
  intros U a fuel n base prev HU.
  destruct (gwalk_nodup fuel a n base prev) as [Hnd _].
  pose proof (gwalk_oids_from_replies U a HU fuel n base prev) as Hin.
  assert (Hincl : incl (map it_oid (yielded (gwalk V fuel a n base prev))) U).
  { intros x Hx. apply in_map_iff in Hx. destruct Hx as (i & <- & Hi).
    rewrite Forall_forall in Hin. apply Hin. exact Hi. }
  pose proof (NoDup_incl_length Hnd Hincl) as Hle. rewrite map_length in Hle.
  pose proof (gwalk_requests_le fuel a n base prev). lia.
Qed.
End Generic.

(* ------------------------------------------------------------------ *)
(* C06, first part: containment, strict increase, no crash, termination *)
(* ------------------------------------------------------------------ *)

(* the iterator context produced by getiter_new: start_oid = next_oid = base *)
Definition fresh_iter (it0 : getiter) (base : bytes) : Prop := start_oid it0 = base /\ next_oid it0 = base.

Lemma getiter_new_fresh : forall text mr it,
  getiter_new text mr = Return it -> fresh_iter it (start_oid it) /\ oid_of_text text = Ok (start_oid it).
Proof.
  intros text mr it H. destruct (getiter_new_spec _ _ _ H) as (H1 & H2 & _). split; [split; auto|exact H1].
Qed.

Definition increasing (base : bytes) (l : list bytes) : Prop :=
  (forall x, nth_error l 0 = Some x -> is_after x base = true) /\
  (forall k x y, nth_error l k = Some x -> nth_error l (S k) = Some y -> is_after y x = true).

Lemma chain_after_increasing : forall base l, chain_after base l -> increasing base l.
Proof.
  intros base l H. split.
  - intros x Hx. destruct l as [|z l]; [discriminate|]. inversion Hx; subst. apply H.
  - intros k x y. apply chain_after_consecutive with (prev := base). exact H.
Qed.

Section TopLevel.
Variables (fuel : nat) (a : agent) (it0 : getiter) (base : bytes).
Hypothesis Hfresh : fresh_iter it0 base.

Let wn := walk_next fuel a 0 it0 [] [].
Let wb := walk_bulk fuel a 0 it0 [] [].

Lemma wn_eq : wn = gwalk next_verdict fuel a 0 base base.
Proof. unfold wn. rewrite walk_next_fresh. destruct Hfresh as [-> ->]. reflexivity. Qed.
Lemma wb_eq : wb = gwalk bulk_verdict fuel a 0 base base.
Proof. unfold wb. rewrite walk_bulk_fresh. destruct Hfresh as [-> ->]. reflexivity. Qed.

Theorem walk_next_contained : Forall (fun i => starts_with (it_oid i) base = true) (yielded wn).
Proof. rewrite wn_eq. apply gwalk_contained. exact next_verdict_sound. Qed.
Theorem walk_bulk_contained : Forall (fun i => starts_with (it_oid i) base = true) (yielded wb).
Proof. rewrite wb_eq. apply gwalk_contained. exact bulk_verdict_sound. Qed.

Theorem walk_next_increasing :
  increasing base (map it_oid (yielded wn)) /\
  StronglySorted (fun x y => is_after y x = true) (map it_oid (yielded wn)) /\
  Forall (fun x => is_after x base = true) (map it_oid (yielded wn)) /\
  NoDup (map it_oid (yielded wn)).
Proof.
  rewrite wn_eq. pose proof (gwalk_chain _ next_verdict_sound fuel a 0 base base) as H.
  split; [apply chain_after_increasing; exact H|].
  split; [eapply chain_after_sorted; exact H|].
  split; [apply chain_after_all; exact H|]. eapply chain_after_nodup; exact H.
Qed.
Theorem walk_bulk_increasing :
  increasing base (map it_oid (yielded wb)) /\
  StronglySorted (fun x y => is_after y x = true) (map it_oid (yielded wb)) /\
  Forall (fun x => is_after x base = true) (map it_oid (yielded wb)) /\
  NoDup (map it_oid (yielded wb)).
Proof.
  rewrite wb_eq. pose proof (gwalk_chain _ bulk_verdict_sound fuel a 0 base base) as H.
  split; [apply chain_after_increasing; exact H|].
  split; [eapply chain_after_sorted; exact H|].
  split; [apply chain_after_all; exact H|]. eapply chain_after_nodup; exact H.
Qed.

Theorem walk_next_no_crash : ended wn <> CrashedW.
Proof. rewrite wn_eq. apply gwalk_no_crash. exact next_verdict_sound. Qed.
Theorem walk_bulk_no_crash : ended wb <> CrashedW.
Proof. rewrite wb_eq. apply gwalk_no_crash. exact bulk_verdict_sound. Qed.

Theorem walk_next_terminates : forall U : list bytes,
  (forall n o, Forall (fun x => In x U) (reply_oids (a n o))) ->
  (fuel > length U)%nat -> ended wn <> OutOfFuel.
Proof. intros U HU Hf. rewrite wn_eq. eapply gwalk_terminates; eauto. exact next_verdict_sound. Qed.
Theorem walk_bulk_terminates : forall U : list bytes,
  (forall n o, Forall (fun x => In x U) (reply_oids (a n o))) ->
  (fuel > length U)%nat -> ended wb <> OutOfFuel.
Proof. intros U HU Hf. rewrite wb_eq. eapply gwalk_terminates; eauto. exact bulk_verdict_sound. Qed.

(* at most length U + 1 requests are made, whatever the fuel *)
Theorem walk_next_request_bound : forall U : list bytes,
  (forall n o, Forall (fun x => In x U) (reply_oids (a n o))) ->
  (length (requested wn) <= length U + 1)%nat.
Proof. intros U HU. rewrite wn_eq. eapply gwalk_request_bound; eauto. exact next_verdict_sound. Qed.
Theorem walk_bulk_request_bound : forall U : list bytes,
  (forall n o, Forall (fun x => In x U) (reply_oids (a n o))) ->
  (length (requested wb) <= length U + 1)%nat.
Proof. intros U HU. rewrite wb_eq. eapply gwalk_request_bound; eauto. exact bulk_verdict_sound. Qed.
End TopLevel.

(* ------------------------------------------------------------------ *)
(* C06, second part: follow-up requests, order, where the walk stops    *)
(* ------------------------------------------------------------------ *)

(* --- GETNEXT --- *)

(* the reply ends a GETNEXT walk normally: no varbind, or the single varbind is outside the subtree, or not
   after the previous OID, or its value is NULL / noSuchObject / noSuchInstance / endOfMibView *)
Definition next_stop (base prev : bytes) (p : pdu) : bool :=
  match p with
  | PGetResponse r =>
    match gr_vars r with
    | [] => true
    | [vb] => negb (starts_with (vb_oid vb) base) || negb (is_after (vb_oid vb) prev) ||
              negb (is_data_value (vb_value vb))
    | _ => false
    end
  | _ => false
  end.

Lemma next_verdict_go : forall base prev p c, next_verdict base prev p = Go c ->
  exists r vb i, p = PGetResponse r /\ gr_vars r = [vb] /\ c = [i] /\ item_of_vb vb i /\
                 is_data_value (vb_value vb) = true /\ accepted base prev (vb_oid vb) = true.
Proof.
  intros base prev p c H. unfold next_verdict in H. destruct p as [g|g|r|b|raw]; try discriminate.
  destruct (gr_vars r) as [|vb [|vb2 rest]] eqn:Ev; try discriminate.
  destruct (accepted base prev (vb_oid vb)) eqn:Ea; [|discriminate].
  destruct (is_data_value (vb_value vb)) eqn:Ed; [|discriminate].
  destruct (convert vb) as [i|e|] eqn:Ec; try discriminate. inversion H; subst.
  exists r, vb, i. repeat split; auto; apply (convert_return _ _ Ec).
Qed.

Lemma next_verdict_halt : forall base prev p c e, next_verdict base prev p = Halt c e ->
  c = [] /\ (e = Stopped <-> next_stop base prev p = true).
Proof.
  intros base prev p c e H. unfold next_verdict in H. unfold next_stop.
  destruct p as [g|g|r|b|raw]; try (inversion H; subst; split; [reflexivity|split; discriminate]).
  destruct (gr_vars r) as [|vb [|vb2 rest]] eqn:Ev;
    try (inversion H; subst; split; [reflexivity|split; try discriminate; reflexivity]).
  unfold accepted in H.
  destruct (starts_with (vb_oid vb) base); cbn [andb negb orb] in *;
    [|inversion H; subst; split; [reflexivity|split; reflexivity]].
  destruct (is_after (vb_oid vb) prev); cbn [andb negb orb] in *;
    [|inversion H; subst; split; [reflexivity|split; reflexivity]].
  destruct (is_data_value (vb_value vb)) eqn:Ed; cbn [negb];
    [|inversion H; subst; split; [reflexivity|split; reflexivity]].
  destruct (convert vb) as [i|x|] eqn:Ec; try discriminate.
  - destruct (convert_raise _ _ Ec) as [er ->]. rewrite ending_of_err in H. inversion H; subst.
    split; [reflexivity|split; discriminate].
  - inversion H; subst. split; [reflexivity|split; discriminate].
Qed.

Lemma next_verdict_go_not_stop : forall base prev p c, next_verdict base prev p = Go c ->
  next_stop base prev p = false.
Proof.
  intros base prev p c H. destruct (next_verdict_go _ _ _ _ H) as (r & vb & i & -> & Ev & _ & _ & Hd & Ha).
  unfold next_stop. rewrite Ev. unfold accepted in Ha. apply andb_true_iff in Ha. destruct Ha as [-> ->].
  rewrite Hd. reflexivity.
Qed.

Lemma gwalk_next_props : forall fuel a n base prev,
  let w := gwalk next_verdict fuel a n base prev in
  (exists tail, prev :: map it_oid (yielded w) = requested w ++ tail /\ (ended w <> OutOfFuel -> tail = [])) /\
  (forall k i, nth_error (yielded w) k = Some i ->
     exists o r vb, nth_error (requested w) k = Some o /\ a (n + k)%nat o = PGetResponse r /\
                    gr_vars r = [vb] /\ item_of_vb vb i /\ is_data_value (vb_value vb) = true) /\
  (forall k o, nth_error (requested w) k = Some o ->
     (next_stop base o (a (n + k)%nat o) = true <-> ended w = Stopped /\ k = length (yielded w))).
Proof.
  induction fuel as [|f IH]; intros a n base prev; cbn [gwalk].
  - cbn. split; [exists [prev]; split; [reflexivity|congruence]|].
    split; intros k x H; destruct k; discriminate.
  - destruct (next_verdict base prev (a n prev)) as [c|c e] eqn:EV.
    + pose proof (next_verdict_go_not_stop _ _ _ _ EV) as Hns.
      destruct (next_verdict_go _ _ _ _ EV) as (r & vb & i & Hp & Ev & -> & Hi & Hd & Ha).
      destruct (IH a (S n) base (last_oid [i] prev)) as (H1 & H2 & H3).
      unfold last_oid in *. cbn [map last] in *. cbn [yielded requested ended app].
      split; [|split].
      * destruct H1 as (tail & Ht & He). exists tail. split; [|exact He]. cbn [map app]. rewrite Ht. reflexivity.
      * intros k i' Hk. destruct k as [|k].
        -- cbn in Hk. inversion Hk; subst. exists prev, r, vb. rewrite Nat.add_0_r.
           split; [reflexivity|]. split; [exact Hp|]. split; [exact Ev|]. split; [exact Hi|exact Hd].
        -- cbn [nth_error] in Hk. destruct (H2 k i' Hk) as (o & r' & vb' & Ho & Hr' & Hrest).
           exists o, r', vb'. rewrite Nat.add_succ_r. cbn [nth_error]. auto.
      * intros k o Hk. destruct k as [|k].
        -- cbn in Hk. inversion Hk; subst. rewrite Nat.add_0_r, Hns. cbn [length]. split; [discriminate|].
           intros [_ H]. discriminate.
        -- cbn [nth_error] in Hk. rewrite Nat.add_succ_r. rewrite (H3 k o Hk). cbn [length].
           split; intros [Hs Hl]; split; auto; lia.
    + destruct (next_verdict_halt _ _ _ _ _ EV) as [-> He]. cbn [yielded requested ended map length].
      split; [exists []; split; [reflexivity|reflexivity]|].
      split.
      * intros k i Hk. destruct k; discriminate.
      * intros k o Hk. destruct k as [|k]; [|destruct k; discriminate]. cbn in Hk. inversion Hk; subst.
        rewrite Nat.add_0_r. rewrite <- He. split; [auto|]. intros [H _]. exact H.
Qed.

Lemma firstn_app_exact : forall (A : Type) (l t : list A), firstn (length l) (l ++ t) = l.
Proof. intros. rewrite firstn_app, Nat.sub_diag, firstn_all. cbn. apply app_nil_r. Qed.

Section TopLevelNext.
Variables (fuel : nat) (a : agent) (it0 : getiter) (base : bytes).
Hypothesis Hfresh : fresh_iter it0 base.
Let wn := walk_next fuel a 0 it0 [] [].

(* every request after the first carries the OID of the item yielded just before *)
Theorem walk_next_followup :
  requested wn = firstn (length (requested wn)) (base :: map it_oid (yielded wn)) /\
  (ended wn <> OutOfFuel ->
   requested wn = base :: map it_oid (yielded wn) /\ length (requested wn) = (length (yielded wn) + 1)%nat).
Proof.
  unfold wn. rewrite (wn_eq fuel a it0 base Hfresh).
  destruct (gwalk_next_props fuel a 0 base base) as ((tail & Ht & He) & _ & _).
  split.
  - rewrite Ht. symmetry. apply firstn_app_exact.
  - intros Hne. rewrite (He Hne), app_nil_r in Ht. rewrite <- Ht. split; [reflexivity|].
    cbn [length]. rewrite map_length. lia.
Qed.

(* the k-th item comes from the single varbind of the k-th reply *)
Theorem walk_next_order : forall k i, nth_error (yielded wn) k = Some i ->
  exists o r vb, nth_error (requested wn) k = Some o /\ a k o = PGetResponse r /\ gr_vars r = [vb] /\
                 it_oid i = vb_oid vb /\ text_of_oid (vb_oid vb) = Ok (it_key i) /\
                 value_to_py (vb_value vb) = Ok (it_value i) /\ is_data_value (vb_value vb) = true.
Proof.
  unfold wn. rewrite (wn_eq fuel a it0 base Hfresh). intros k i Hk.
  destruct (gwalk_next_props fuel a 0 base base) as (_ & H2 & _).
  destruct (H2 k i Hk) as (o & r & vb & Ho & Hr & Hv & (Hi1 & Hi2 & Hi3) & Hd).
  exists o, r, vb. cbn [Nat.add] in Hr. repeat split; auto.
Qed.

(* the walk ends normally exactly at the first reply that satisfies next_stop (w.r.t. the OID just requested,
   which is the previous item's OID or base) *)
Theorem walk_next_stops : forall k o, nth_error (requested wn) k = Some o ->
  (next_stop base o (a k o) = true <-> ended wn = Stopped /\ k = length (yielded wn)).
Proof.
  unfold wn. rewrite (wn_eq fuel a it0 base Hfresh). intros k o Hk.
  destruct (gwalk_next_props fuel a 0 base base) as (_ & _ & H3). apply (H3 k o Hk).
Qed.

Corollary walk_next_stopped_last : ended wn = Stopped ->
  exists o, nth_error (requested wn) (length (yielded wn)) = Some o /\
            next_stop base o (a (length (yielded wn)) o) = true.
Proof.
  intros Hs. destruct walk_next_followup as [_ Hf].
  assert (Hne : ended wn <> OutOfFuel) by (rewrite Hs; discriminate).
  destruct (Hf Hne) as [Hr Hl].
  destruct (nth_error (requested wn) (length (yielded wn))) as [o|] eqn:Eo.
  - exists o. split; [reflexivity|]. apply (walk_next_stops _ _ Eo). auto.
  - apply nth_error_None in Eo. lia.
Qed.
End TopLevelNext.

(* --- generic structure: the walk is a sequence of chunks, one per request --- *)

Lemma last_oid_app : forall c1 c2 prev, last_oid (c1 ++ c2) prev = last_oid c2 (last_oid c1 prev).
Proof.
  unfold last_oid. induction c1 as [|i c1 IH]; intros c2 prev; [reflexivity|].
  cbn [app map]. rewrite !last_cons. apply IH.
Qed.

Lemma gwalk_requested_nil : forall V fuel a n base prev,
  requested (gwalk V fuel a n base prev) = [] -> ended (gwalk V fuel a n base prev) = OutOfFuel.
Proof.
  intros V fuel a n base prev. destruct fuel as [|f]; cbn [gwalk]; [reflexivity|].
  destruct (V base prev (a n prev)); cbn [requested]; discriminate.
Qed.

(* chunk k is what the verdict on reply k contributes; request k carries the last OID yielded before it (or the
   start OID); the walk ends at the first Halt verdict *)
Lemma gwalk_trace : forall V fuel a n base prev,
  let w := gwalk V fuel a n base prev in
  exists chunks : list (list item),
    yielded w = concat chunks /\ length chunks = length (requested w) /\
    forall k c, nth_error chunks k = Some c ->
      let o := last_oid (concat (firstn k chunks)) prev in
      nth_error (requested w) k = Some o /\
      match V base o (a (n + k)%nat o) with
      | Go c' => c' = c /\ (S k = length chunks -> ended w = OutOfFuel)
      | Halt c' e => c' = c /\ S k = length chunks /\ ended w = e
      end.
Proof.
  intros V. induction fuel as [|f IH]; intros a n base prev; cbn [gwalk].
  - exists []. cbn. split; [reflexivity|]. split; [reflexivity|]. intros k c H. destruct k; discriminate.
  - destruct (V base prev (a n prev)) as [c0|c0 e] eqn:EV.
    + destruct (IH a (S n) base (last_oid c0 prev)) as (chunks & Hy & Hl & Hk).
      exists (c0 :: chunks). cbn [yielded requested ended concat length].
      split; [rewrite Hy; reflexivity|]. split; [rewrite Hl; reflexivity|].
      intros k c Hc. destruct k as [|k].
      * cbn in Hc. inversion Hc; subst c0. cbn [firstn concat nth_error]. change (last_oid [] prev) with prev.
        split; [reflexivity|]. rewrite Nat.add_0_r, EV. split; [reflexivity|].
        intros Hlen. apply gwalk_requested_nil. destruct chunks; [|discriminate].
        cbn [length] in Hl. destruct (requested (gwalk V f a (S n) base (last_oid c prev))); [reflexivity|discriminate].
      * cbn [nth_error] in Hc. specialize (Hk k c Hc). cbn zeta in Hk. destruct Hk as [Hr Hv].
        cbn [firstn concat nth_error]. rewrite last_oid_app. split; [exact Hr|].
        rewrite Nat.add_succ_r. change (S n + k)%nat with (S (n + k)) in Hv.
        destruct (V base (last_oid (concat (firstn k chunks)) (last_oid c0 prev))
                    (a (S (n + k)) (last_oid (concat (firstn k chunks)) (last_oid c0 prev)))) as [c'|c' e'].
        -- destruct Hv as [Hv1 Hv2]. split; [exact Hv1|]. intros Hlen. apply Hv2. lia.
        -- destruct Hv as (Hv1 & Hv2 & Hv3). split; [exact Hv1|]. split; [lia|exact Hv3].
    + exists [c0]. cbn [yielded requested ended concat length app]. rewrite app_nil_r.
      split; [reflexivity|]. split; [reflexivity|]. intros k c Hc.
      destruct k as [|k]; [|destruct k; discriminate]. cbn in Hc. inversion Hc; subst c0.
      cbn [firstn concat nth_error]. change (last_oid [] prev) with prev. split; [reflexivity|].
      rewrite Nat.add_0_r, EV. auto.
Qed.

(* --- GETBULK --- *)

Lemma bulk_scan_end : forall dvs base prev c e,
  bulk_scan base prev dvs = (c, e) ->
  match e with
  | SEnd => Forall2 item_of_vb dvs c
  | SOut => exists cvbs vb rest, dvs = cvbs ++ vb :: rest /\ Forall2 item_of_vb cvbs c /\
                                 accepted base (last_oid c prev) (vb_oid vb) = false
  | SFail en => exists cvbs vb rest x, dvs = cvbs ++ vb :: rest /\ Forall2 item_of_vb cvbs c /\
                                 accepted base (last_oid c prev) (vb_oid vb) = true /\
                                 convert vb = x /\
                                 match x with Return _ => False | Raise y => en = ending_of_exc y | Crash => en = CrashedW end
  end.
Proof.
  induction dvs as [|vb r IH]; intros base prev c e H; cbn [bulk_scan] in H.
  - inversion H; subst. constructor.
  - destruct (accepted base prev (vb_oid vb)) eqn:Ea.
    + destruct (convert vb) as [i|y|] eqn:Ec.
      * destruct (bulk_scan base (vb_oid vb) r) as [l e'] eqn:Es. inversion H; subst.
        specialize (IH _ _ _ _ Es). pose proof (convert_return _ _ Ec) as Hi.
        assert (Hlast : last_oid (i :: l) prev = last_oid l (vb_oid vb)).
        { unfold last_oid. cbn [map]. rewrite last_cons. destruct Hi as [-> _]. reflexivity. }
        rewrite Hlast. destruct e.
        -- constructor; assumption.
        -- destruct IH as (cvbs & vb' & rest & -> & HF & Hna). exists (vb :: cvbs), vb', rest.
           split; [reflexivity|]. split; [constructor; assumption|exact Hna].
        -- destruct IH as (cvbs & vb' & rest & x & -> & HF & Hacc & Hx). exists (vb :: cvbs), vb', rest, x.
           split; [reflexivity|]. split; [constructor; assumption|]. auto.
      * inversion H; subst. exists [], vb, r, (Raise y). unfold last_oid. cbn [map last].
        split; [reflexivity|]. split; [constructor|]. split; [exact Ea|]. split; [exact Ec|reflexivity].
      * inversion H; subst. exists [], vb, r, Crash. unfold last_oid. cbn [map last].
        split; [reflexivity|]. split; [constructor|]. split; [exact Ea|]. split; [exact Ec|reflexivity].
    + inversion H; subst. exists [], vb, r. unfold last_oid. cbn [map last].
      split; [reflexivity|]. split; [constructor|exact Ea].
Qed.

(* a reply that lets the GETBULK walk go on: a response all of whose data-valued varbinds (at least one) are
   accepted, in order, and convert *)
Lemma bulk_verdict_go : forall base prev p c, bulk_verdict base prev p = Go c ->
  c <> [] /\ exists r, p = PGetResponse r /\ Forall2 item_of_vb (data_vars (gr_vars r)) c.
Proof.
  intros base prev p c H. unfold bulk_verdict in H. destruct p as [g|g|r|b|raw]; try discriminate.
  destruct (bulk_scan base prev (data_vars (gr_vars r))) as [c' e] eqn:Es.
  pose proof (bulk_scan_end _ _ _ _ _ Es) as He.
  destruct e as [| |en]; [|destruct c'; discriminate|destruct c'; discriminate].
  destruct c' as [|i c']; [discriminate|]. inversion H; subst.
  split; [discriminate|]. exists r. auto.
Qed.

(* a reply that ends the GETBULK walk normally: a response without any data-valued varbind, or whose first
   data-valued varbind that is not yielded is outside the subtree or not after the OID before it *)
Lemma bulk_verdict_stopped : forall base prev p c, bulk_verdict base prev p = Halt c Stopped ->
  exists r, p = PGetResponse r /\
    ((data_vars (gr_vars r) = [] /\ c = []) \/
     exists cvbs vb rest, data_vars (gr_vars r) = cvbs ++ vb :: rest /\ Forall2 item_of_vb cvbs c /\
                          accepted base (last_oid c prev) (vb_oid vb) = false).
Proof.
  intros base prev p c H. unfold bulk_verdict in H. destruct p as [g|g|r|b|raw]; try discriminate.
  exists r. split; [reflexivity|].
  destruct (bulk_scan base prev (data_vars (gr_vars r))) as [c' e] eqn:Es.
  pose proof (bulk_scan_end _ _ _ _ _ Es) as He.
  destruct e as [| |en].
  - destruct c' as [|i c']; [|discriminate]. inversion H; subst. left. inversion He; subst. auto.
  - assert (c' = c) by (destruct c'; inversion H; reflexivity). subst c'. right. exact He.
  - exfalso. destruct He as (cvbs & vb & rest & x & Hd & _ & _ & Hx & Hm).
    assert (Hen : en = Stopped) by (destruct c'; inversion H; reflexivity). subst en.
    destruct x as [i|y|]; [contradiction| |discriminate].
    destruct (convert_raise _ _ Hx) as [er ->]. rewrite ending_of_err in Hm. discriminate.
Qed.

(* conversely *)
Lemma bulk_verdict_no_data : forall base prev r, data_vars (gr_vars r) = [] ->
  bulk_verdict base prev (PGetResponse r) = Halt [] Stopped.
Proof. intros base prev r H. unfold bulk_verdict. rewrite H. reflexivity. Qed.

Lemma bulk_verdict_first_rejected : forall base prev r vb rest,
  data_vars (gr_vars r) = vb :: rest -> accepted base prev (vb_oid vb) = false ->
  bulk_verdict base prev (PGetResponse r) = Halt [] Stopped.
Proof. intros base prev r vb rest H Ha. unfold bulk_verdict. rewrite H. cbn [bulk_scan]. rewrite Ha. reflexivity. Qed.

(* a failing reply contributes nothing *)
Lemma bulk_verdict_halt_other : forall base prev p c e, bulk_verdict base prev p = Halt c e ->
  e <> Stopped -> c = [].
Proof.
  intros base prev p c e H Hne. unfold bulk_verdict in H.
  destruct p as [g|g|r|b|raw]; try (inversion H; reflexivity).
  destruct (bulk_scan base prev (data_vars (gr_vars r))) as [c' e'].
  destruct e' as [| |en]; destruct c'; inversion H; subst; try reflexivity; contradiction.
Qed.

Section TopLevelBulk.
Variables (fuel : nat) (a : agent) (it0 : getiter) (base : bytes).
Hypothesis Hfresh : fresh_iter it0 base.
Let wb := walk_bulk fuel a 0 it0 [] [].

(* the structure of a GETBULK walk: one chunk of items per request;
   followup: request k carries the OID of the last item yielded before it (base when there is none);
   order:    chunk k is built, in order, from a prefix of the data-valued varbinds of reply k
             (all of them when the walk goes on);
   stops:    the walk ends at the first reply whose verdict is Halt *)
Theorem walk_bulk_structure :
  exists chunks : list (list item),
    yielded wb = concat chunks /\ length chunks = length (requested wb) /\
    forall k c, nth_error chunks k = Some c ->
      let o := last_oid (concat (firstn k chunks)) base in
      nth_error (requested wb) k = Some o /\
      (exists cvbs rest, reply_data_vars (a k o) = cvbs ++ rest /\ Forall2 item_of_vb cvbs c) /\
      match bulk_verdict base o (a k o) with
      | Go c' => c' = c /\ c <> [] /\ (S k = length chunks -> ended wb = OutOfFuel) /\
                 exists r, a k o = PGetResponse r /\ Forall2 item_of_vb (data_vars (gr_vars r)) c
      | Halt c' e => c' = c /\ S k = length chunks /\ ended wb = e
      end.
Proof.
  unfold wb. rewrite (wb_eq fuel a it0 base Hfresh).
  destruct (gwalk_trace bulk_verdict fuel a 0 base base) as (chunks & Hy & Hl & Hk).
  exists chunks. split; [exact Hy|]. split; [exact Hl|]. intros k c Hc.
  specialize (Hk k c Hc). cbn zeta in *. set (o := last_oid (concat (firstn k chunks)) base) in *.
  cbn [Nat.add] in Hk. destruct Hk as [Hr Hv].
  split; [exact Hr|].
  pose proof (bulk_verdict_sound base o (a k o)) as Hs.
  destruct (bulk_verdict base o (a k o)) as [c'|c' e] eqn:EV.
  - destruct Hv as [-> Hv2]. destruct Hs as [Hne (_ & _ & Hpre)]. split; [exact Hpre|].
    split; [reflexivity|]. split; [exact Hne|]. split; [exact Hv2|].
    destruct (bulk_verdict_go _ _ _ _ EV) as (_ & r & Hp & HF). exists r. auto.
  - destruct Hv as (-> & Hv2 & Hv3). destruct Hs as [(_ & _ & Hpre) _]. split; [exact Hpre|]. auto.
Qed.

(* when the walk ends normally: the last reply has no data-valued varbind, or its first data-valued varbind
   that was not yielded is outside the subtree or not after the OID yielded before it *)
Theorem walk_bulk_stops : ended wb = Stopped ->
  exists chunks c o r,
    yielded wb = concat chunks /\ length chunks = length (requested wb) /\
    nth_error chunks (length chunks - 1) = Some c /\
    o = last_oid (concat (firstn (length chunks - 1) chunks)) base /\
    nth_error (requested wb) (length chunks - 1) = Some o /\
    a (length chunks - 1)%nat o = PGetResponse r /\
    ((data_vars (gr_vars r) = [] /\ c = []) \/
     exists cvbs vb rest, data_vars (gr_vars r) = cvbs ++ vb :: rest /\ Forall2 item_of_vb cvbs c /\
                          accepted base (last_oid c o) (vb_oid vb) = false).
Proof.
  intros Hs. destruct walk_bulk_structure as (chunks & Hy & Hl & Hk).
  assert (Hne : chunks <> []).
  { intros ->. cbn [length] in Hl. unfold wb in *. rewrite (wb_eq fuel a it0 base Hfresh) in *.
    destruct (requested (gwalk bulk_verdict fuel a 0 base base)) eqn:Er; [|discriminate].
    apply gwalk_requested_nil in Er. congruence. }
  destruct (nth_error chunks (length chunks - 1)) as [c|] eqn:Ec.
  2:{ apply nth_error_None in Ec. destruct chunks; [contradiction|]. cbn [length] in Ec. lia. }
  specialize (Hk _ c Ec). cbn zeta in Hk. destruct Hk as (Hr & _ & Hv).
  set (o := last_oid (concat (firstn (length chunks - 1) chunks)) base) in *.
  assert (Hlast : S (length chunks - 1) = length chunks) by (destruct chunks; [contradiction|cbn [length]; lia]).
  destruct (bulk_verdict base o (a (length chunks - 1)%nat o)) as [c'|c' e] eqn:EV.
  - destruct Hv as (_ & _ & Hv & _). specialize (Hv Hlast). congruence.
  - destruct Hv as (-> & _ & He). rewrite Hs in He. subst e.
    destruct (bulk_verdict_stopped _ _ _ _ EV) as (r & Hp & Hcase).
    exists chunks, c, o, r. repeat split; auto.
Qed.
End TopLevelBulk.

(* --- GETBULK: follow-up and order restated with data_oids --- *)

Lemma data_oids_reply : forall p, data_oids p = map vb_oid (reply_data_vars p).
Proof. intros p. destruct p; reflexivity. Qed.

Section TopLevelBulk2.
Variables (fuel : nat) (a : agent) (it0 : getiter) (base : bytes).
Hypothesis Hfresh : fresh_iter it0 base.
Let wb := walk_bulk fuel a 0 it0 [] [].

(* each request carries the OID of the last item yielded before it, or base when nothing was yielded yet *)
Theorem walk_bulk_followup :
  exists chunks : list (list item),
    yielded wb = concat chunks /\ length chunks = length (requested wb) /\
    forall k o, nth_error (requested wb) k = Some o ->
                o = last (map it_oid (concat (firstn k chunks))) base.
Proof.
  destruct (walk_bulk_structure fuel a it0 base Hfresh) as (chunks & Hy & Hl & Hk). fold wb in Hy, Hl, Hk.
  exists chunks. split; [exact Hy|]. split; [exact Hl|]. intros k o Ho.
  destruct (nth_error chunks k) as [c|] eqn:Ec.
  - destruct (Hk k c Ec) as [Hr _]. rewrite Hr in Ho. inversion Ho. reflexivity.
  - apply nth_error_None in Ec. assert (nth_error (requested wb) k <> None) by congruence.
    apply nth_error_Some in H. lia.
Qed.

(* the yielded OIDs are, chunk by chunk, prefixes of the data OIDs of the successive replies *)
Theorem walk_bulk_order :
  exists chunks : list (list item),
    yielded wb = concat chunks /\ length chunks = length (requested wb) /\
    forall k c, nth_error chunks k = Some c ->
      exists o suffix, nth_error (requested wb) k = Some o /\
                       data_oids (a k o) = map it_oid c ++ suffix /\
                       exists cvbs, Forall2 item_of_vb cvbs c /\ exists rest, reply_data_vars (a k o) = cvbs ++ rest.
Proof.
  destruct (walk_bulk_structure fuel a it0 base Hfresh) as (chunks & Hy & Hl & Hk). fold wb in Hy, Hl, Hk.
  exists chunks. split; [exact Hy|]. split; [exact Hl|]. intros k c Ec.
  destruct (Hk k c Ec) as (Hr & (cvbs & rest & Hd & HF) & _).
  eexists. exists (map vb_oid rest). split; [exact Hr|]. split.
  - rewrite data_oids_reply, Hd, map_app, (Forall2_item_oids _ _ HF). reflexivity.
  - exists cvbs. split; [exact HF|]. exists rest. exact Hd.
Qed.
End TopLevelBulk2.

(* ------------------------------------------------------------------ *)
(* C06 summary, under the requested names (both iterators at once)     *)
(* ------------------------------------------------------------------ *)

Section Summary.
Variables (fuel : nat) (a : agent) (it0 : getiter) (base : bytes).
Hypothesis Hfresh : fresh_iter it0 base.
Let wn := walk_next fuel a 0 it0 [] [].
Let wb := walk_bulk fuel a 0 it0 [] [].

Theorem walk_contained :
  Forall (fun i => starts_with (it_oid i) base = true) (yielded wn) /\
  Forall (fun i => starts_with (it_oid i) base = true) (yielded wb).
Proof.
  split; [apply (walk_next_contained fuel a it0 base Hfresh)|apply (walk_bulk_contained fuel a it0 base Hfresh)].
Qed.

Theorem walk_increasing :
  (increasing base (map it_oid (yielded wn)) /\ NoDup (map it_oid (yielded wn))) /\
  (increasing base (map it_oid (yielded wb)) /\ NoDup (map it_oid (yielded wb))).
Proof.
  destruct (walk_next_increasing fuel a it0 base Hfresh) as (H1 & _ & _ & H2).
  destruct (walk_bulk_increasing fuel a it0 base Hfresh) as (H3 & _ & _ & H4). auto.
Qed.

Theorem walk_no_crash : ended wn <> CrashedW /\ ended wb <> CrashedW.
Proof.
  split; [apply (walk_next_no_crash fuel a it0 base Hfresh)|apply (walk_bulk_no_crash fuel a it0 base Hfresh)].
Qed.

Theorem walk_terminates : forall U : list bytes,
  (forall n o, Forall (fun x => In x U) (reply_oids (a n o))) ->
  (fuel > length U)%nat -> ended wn <> OutOfFuel /\ ended wb <> OutOfFuel.
Proof.
  intros U HU Hf. split.
  - apply (walk_next_terminates fuel a it0 base Hfresh U HU Hf).
  - apply (walk_bulk_terminates fuel a it0 base Hfresh U HU Hf).
Qed.
End Summary.

(* ------------------------------------------------------------------ *)
(* Assumptions (observed with Coq 8.16.1: every line prints "Closed under the global context") *)
(* ------------------------------------------------------------------ *)
Print Assumptions walk_next_gwalk.
Print Assumptions walk_bulk_gwalk.
Print Assumptions walk_contained.
Print Assumptions walk_increasing.
Print Assumptions walk_no_crash.
Print Assumptions walk_terminates.
Print Assumptions walk_next_request_bound.
Print Assumptions walk_bulk_request_bound.
Print Assumptions walk_next_followup.
Print Assumptions walk_next_order.
Print Assumptions walk_next_stops.
Print Assumptions walk_next_stopped_last.
Print Assumptions walk_bulk_structure.
Print Assumptions walk_bulk_stops.
Print Assumptions walk_bulk_followup.
Print Assumptions walk_bulk_order.
Print Assumptions getiter_new_fresh.

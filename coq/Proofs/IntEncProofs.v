(* C15: INTEGER.  Facts about the reference encoding of Spec/X690.v (value, well-formedness, length,
   minimality) and the proof that push_int (src/ber/int.rs push_ber) emits exactly that encoding. *)
From GS Require Import Model.Base Gen.Constants Model.Ber Model.Pdu Model.Buffer Spec.X690
  Proofs.BufLemmas Proofs.BufferProofs.
From Coq Require Import ZifyBool.

Definition in_range (v : Z) : Prop := - 2 ^ 63 <= v < 2 ^ 63.

(* v is representable in n octets of two's complement *)
Definition fits (n : nat) (v : Z) : Prop := - 2 ^ (8 * Z.of_nat n - 1) <= v < 2 ^ (8 * Z.of_nat n - 1).
Definition fitsb (n : nat) (v : Z) : bool :=
  (- 2 ^ (8 * Z.of_nat n - 1) <=? v) && (v <? 2 ^ (8 * Z.of_nat n - 1)).

Lemma fitsb_fits : forall n v, fitsb n v = true <-> fits n v.
Proof. intros n v. unfold fitsb, fits. rewrite andb_true_iff, Z.leb_le, Z.ltb_lt. reflexivity. Qed.

Lemma pow_fits : forall k, 2 ^ (8 * Z.of_nat (S k) - 1) = 128 * 256 ^ Z.of_nat k.
Proof.
  intros k. rewrite Nat2Z.inj_succ.
  replace (8 * Z.succ (Z.of_nat k) - 1) with (7 + 8 * Z.of_nat k) by lia.
  rewrite Z.pow_add_r by lia. rewrite Z.pow_mul_r by lia. reflexivity.
Qed.

Lemma pow256_pos : forall k, 0 < 256 ^ Z.of_nat k.
Proof. intros k. apply Z.pow_pos_nonneg; lia. Qed.

Lemma pow256_S : forall k, 256 ^ Z.of_nat (S k) = 256 * 256 ^ Z.of_nat k.
Proof. intros k. rewrite Nat2Z.inj_succ, Z.pow_succ_r by lia. reflexivity. Qed.

Lemma fits_S_iff : forall k v, fits (S k) v <-> - (128 * 256 ^ Z.of_nat k) <= v < 128 * 256 ^ Z.of_nat k.
Proof. intros k v. unfold fits. rewrite pow_fits. reflexivity. Qed.

Lemma fits_1 : forall v, fits 1 v <-> -128 <= v < 128.
Proof. intros v. rewrite fits_S_iff. change (256 ^ Z.of_nat 0) with 1. lia. Qed.

Lemma fits_8 : forall v, fits 8 v <-> in_range v.
Proof. intros v. unfold fits, in_range. change (8 * Z.of_nat 8 - 1) with 63. reflexivity. Qed.

Lemma fits_div : forall n v, (1 <= n)%nat -> (fits (S n) v <-> fits n (v / 256)).
Proof.
  intros n v Hn. destruct n as [|k]; [lia|]. rewrite !fits_S_iff, pow256_S.
  pose proof (pow256_pos k) as HP. set (P := 256 ^ Z.of_nat k) in *.
  pose proof (Z.div_mod v 256 ltac:(lia)) as Hdm. pose proof (Z.mod_pos_bound v 256 ltac:(lia)) as Hm.
  lia.
Qed.

Lemma fits_mono : forall n v, (1 <= n)%nat -> fits n v -> fits (S n) v.
Proof.
  intros n v Hn. destruct n as [|k]; [lia|]. rewrite !fits_S_iff, pow256_S.
  pose proof (pow256_pos k) as HP. set (P := 256 ^ Z.of_nat k) in *. lia.
Qed.

Lemma fitsb_div : forall n v, (1 <= n)%nat -> fitsb (S n) v = fitsb n (v / 256).
Proof.
  intros n v Hn. apply Bool.eq_iff_eq_true. rewrite !fitsb_fits. apply fits_div. exact Hn.
Qed.

Lemma in_range_div : forall v, in_range v -> in_range (v / 256).
Proof.
  intros v. rewrite <- !fits_8. intros H.
  apply fits_mono; [lia|]. apply (proj1 (fits_div 7 v ltac:(lia))). exact H.
Qed.

(* ------------------------------------------------------------------ *)
(* min_octets *)

Lemma mof_unfold : forall f n v,
  min_octets_from (S f) n v = if fitsb n v then n else min_octets_from f (S n) v.
Proof. reflexivity. Qed.

Lemma mof_spec : forall f n v,
  (n <= min_octets_from f n v <= n + f)%nat /\
  (forall m, (n <= m < min_octets_from f n v)%nat -> ~ fits m v) /\
  ((min_octets_from f n v < n + f)%nat -> fits (min_octets_from f n v) v).
Proof.
  induction f as [|f IH]; intros n v.
  - cbn [min_octets_from]. split; [lia|]. split; [intros m Hm; lia|intros Hlt; lia].
  - rewrite mof_unfold. destruct (fitsb n v) eqn:E.
    + apply fitsb_fits in E. split; [lia|]. split; [intros m Hm; lia|intros _; exact E].
    + destruct (IH (S n) v) as (H1 & H2 & H3). split; [lia|]. split.
      * intros m Hm. destruct (Nat.eq_dec m n) as [->|Hne].
        -- intros Hc. apply fitsb_fits in Hc. congruence.
        -- apply H2. lia.
      * intros Hlt. apply H3. lia.
Qed.

Lemma mof_S : forall f n v, (1 <= n)%nat ->
  min_octets_from f (S n) v = S (min_octets_from f n (v / 256)).
Proof.
  induction f as [|f IH]; intros n v Hn; [reflexivity|].
  rewrite !mof_unfold. rewrite fitsb_div by exact Hn.
  destruct (fitsb n (v / 256)); [reflexivity|]. apply IH. lia.
Qed.

Lemma mof_fuel : forall f n w, fits (n + f) w -> min_octets_from (S f) n w = min_octets_from f n w.
Proof.
  induction f as [|f IH]; intros n w H.
  - rewrite mof_unfold. cbn [min_octets_from]. rewrite Nat.add_0_r in H.
    apply fitsb_fits in H. rewrite H. reflexivity.
  - rewrite (mof_unfold (S f) n w), (mof_unfold f n w). destruct (fitsb n w); [reflexivity|].
    apply IH. replace (S n + f)%nat with (n + S f)%nat by lia. exact H.
Qed.

Lemma min_octets_spec : forall v, in_range v ->
  (1 <= min_octets v <= 8)%nat /\ fits (min_octets v) v /\
  (forall m, (1 <= m < min_octets v)%nat -> ~ fits m v).
Proof.
  intros v Hv. unfold min_octets. destruct (mof_spec 9 1 v) as (H1 & H2 & H3).
  apply fits_8 in Hv.
  assert (Hle : (min_octets_from 9 1 v <= 8)%nat).
  { destruct (le_lt_dec (min_octets_from 9 1 v) 8) as [Hle|Hgt]; [exact Hle|].
    exfalso. apply (H2 8%nat); [lia|exact Hv]. }
  split; [lia|]. split; [apply H3; lia|exact H2].
Qed.

Lemma min_octets_small : forall v, -128 <= v < 128 -> min_octets v = 1%nat.
Proof.
  intros v Hv. unfold min_octets. rewrite mof_unfold.
  apply fits_1 in Hv. apply fitsb_fits in Hv. rewrite Hv. reflexivity.
Qed.

Lemma min_octets_step : forall v, in_range v -> ~ (-128 <= v < 128) ->
  min_octets v = S (min_octets (v / 256)).
Proof.
  intros v Hv Hn. unfold min_octets. rewrite mof_unfold.
  destruct (fitsb 1 v) eqn:E; [apply fitsb_fits, fits_1 in E; contradiction|].
  rewrite mof_S by lia. f_equal. symmetry. apply mof_fuel.
  apply in_range_div in Hv. apply fits_8 in Hv.
  change (1 + 8)%nat with 9%nat. apply fits_mono; [lia|exact Hv].
Qed.

(* ------------------------------------------------------------------ *)
(* be_bytes, uval, sval *)

Lemma be_bytes_S : forall n v, be_bytes (S n) v = be_bytes n (v / 256) ++ [v mod 256].
Proof. reflexivity. Qed.

Lemma be_bytes_length : forall n v, length (be_bytes n v) = n.
Proof.
  induction n as [|n IH]; intros v; [reflexivity|].
  rewrite be_bytes_S, app_length, IH. cbn [length]. lia.
Qed.

Lemma min_twos_small : forall v, -128 <= v < 128 -> min_twos v = [v mod 256].
Proof. intros v Hv. unfold min_twos. rewrite min_octets_small by exact Hv. reflexivity. Qed.

Lemma min_twos_step : forall v, in_range v -> ~ (-128 <= v < 128) ->
  min_twos v = min_twos (v / 256) ++ [v mod 256].
Proof.
  intros v Hv Hn. unfold min_twos. rewrite (min_octets_step v Hv Hn). apply be_bytes_S.
Qed.

Lemma uval_app : forall a b, uval (a ++ b) = uval a * 256 ^ Z.of_nat (length b) + uval b.
Proof.
  induction a as [|x a IH]; intros b; cbn [app uval length]; [lia|].
  rewrite IH, app_length, Nat2Z.inj_add, Z.pow_add_r by lia. ring.
Qed.

Lemma uval_bound : forall bs, wfb bs -> 0 <= uval bs < 256 ^ Z.of_nat (length bs).
Proof.
  induction bs as [|b r IH]; intros H.
  - cbn [uval length]. change (256 ^ Z.of_nat 0) with 1. lia.
  - apply wfb_cons in H. destruct H as [Hb Hr]. specialize (IH Hr).
    cbn [uval]. change (length (b :: r)) with (S (length r)). rewrite pow256_S.
    pose proof (pow256_pos (length r)). nia.
Qed.

Lemma sval_snoc : forall bs x, bs <> [] -> sval (bs ++ [x]) = sval bs * 256 + x.
Proof.
  intros bs x Hne. destruct bs as [|b r]; [congruence|].
  assert (Hu : uval ((b :: r) ++ [x]) = uval (b :: r) * 256 + x).
  { rewrite uval_app. cbn [length uval]. change (Z.of_nat 1) with 1. change (Z.of_nat 0) with 0.
    rewrite Z.pow_1_r, Z.pow_0_r. ring. }
  assert (Hl : 256 ^ Z.of_nat (length ((b :: r) ++ [x])) = 256 ^ Z.of_nat (length (b :: r)) * 256).
  { rewrite app_length, Nat2Z.inj_add, Z.pow_add_r by lia. reflexivity. }
  unfold sval. change ((b :: r) ++ [x]) with (b :: (r ++ [x])) in *.
  rewrite Hu, Hl. destruct (b <? 128); ring.
Qed.

Lemma sval_single : forall m, 0 <= m < 256 -> sval [m] = if m <? 128 then m else m - 256.
Proof.
  intros m Hm. unfold sval. cbn [uval length]. change (Z.of_nat 0) with 0. change (Z.of_nat 1) with 1.
  rewrite Z.pow_0_r, Z.pow_1_r. destruct (m <? 128); lia.
Qed.

(* every non-empty well-formed octet string of length n denotes a value that fits n octets *)
Lemma sval_range : forall bs, wfb bs -> bs <> [] -> fits (length bs) (sval bs).
Proof.
  intros bs Hw Hne. destruct bs as [|b r]; [congruence|].
  apply wfb_cons in Hw. destruct Hw as [Hb Hr]. pose proof (uval_bound r Hr) as Hu.
  change (length (b :: r)) with (S (length r)). apply fits_S_iff.
  unfold sval. cbn [uval]. change (length (b :: r)) with (S (length r)). rewrite pow256_S.
  pose proof (pow256_pos (length r)) as HP. set (P := 256 ^ Z.of_nat (length r)) in *.
  destruct (b <? 128) eqn:E; nia.
Qed.

Lemma be_bytes_spec : forall n v, fits (S n) v ->
  sval (be_bytes (S n) v) = v /\ wfb (be_bytes (S n) v).
Proof.
  induction n as [|n IH]; intros v Hv.
  - apply (proj1 (fits_1 v)) in Hv. rewrite be_bytes_S. cbn [be_bytes app].
    pose proof (Z.mod_pos_bound v 256 ltac:(lia)) as Hm. pose proof (Z.div_mod v 256 ltac:(lia)) as Hdm.
    split.
    + rewrite sval_single by exact Hm. destruct (v mod 256 <? 128) eqn:E; lia.
    + apply wfb_cons. split; [exact Hm|apply wfb_nil].
  - rewrite be_bytes_S. apply (proj1 (fits_div (S n) v ltac:(lia))) in Hv. destruct (IH (v / 256) Hv) as [Hs Hw].
    pose proof (Z.mod_pos_bound v 256 ltac:(lia)) as Hm. pose proof (Z.div_mod v 256 ltac:(lia)) as Hdm.
    split.
    + rewrite sval_snoc.
      * rewrite Hs. lia.
      * intros Hc. pose proof (be_bytes_length (S n) (v / 256)) as Hl. rewrite Hc in Hl. discriminate.
    + apply wfb_app. split; [exact Hw|]. apply wfb_cons. split; [exact Hm|apply wfb_nil].
Qed.

Lemma min_twos_length : forall v, length (min_twos v) = min_octets v.
Proof. intros v. unfold min_twos. apply be_bytes_length. Qed.

(* the reference encoding denotes v, is made of octets, and has 1..8 octets *)
Theorem min_twos_sval : forall v, - 2 ^ 63 <= v < 2 ^ 63 ->
  sval (min_twos v) = v /\ wfb (min_twos v) /\ (1 <= length (min_twos v) <= 8)%nat.
Proof.
  intros v Hv. destruct (min_octets_spec v Hv) as (Hr & Hf & _).
  rewrite min_twos_length. unfold min_twos.
  destruct (min_octets v) as [|k]; [lia|].
  destruct (be_bytes_spec k v Hf) as [Hs Hw]. split; [exact Hs|]. split; [exact Hw|lia].
Qed.

(* ... and no shorter octet string denotes v *)
Theorem min_twos_minimal : forall v bs, - 2 ^ 63 <= v < 2 ^ 63 ->
  wfb bs -> bs <> [] -> sval bs = v -> (length (min_twos v) <= length bs)%nat.
Proof.
  intros v bs Hv Hw Hne Hs. destruct (min_octets_spec v Hv) as (Hr & _ & Hmin).
  rewrite min_twos_length.
  destruct (le_lt_dec (min_octets v) (length bs)) as [Hle|Hgt]; [exact Hle|].
  exfalso. apply (Hmin (length bs)).
  - destruct bs; [congruence|]. cbn [length] in *. lia.
  - rewrite <- Hs. apply sval_range; assumption.
Qed.

(* a well-formed encoding of minimal length is unique: it is min_twos *)
Lemma len_min_twos : forall v, in_range v -> 1 <= len (min_twos v) <= 8.
Proof. intros v Hv. destruct (min_twos_sval v Hv) as (_ & _ & H). unfold len. lia. Qed.

(* ------------------------------------------------------------------ *)
(* the loops of push_ber for i64 *)

Lemma int_pos_loop_S : forall f b left,
  int_pos_loop (S f) b left =
  (b <- push_u8 b (Z.land left 255) ;;
   if left <? 255 then (if Z.land left 128 =? 128 then push_u8 b 0 else Ok b)
   else int_pos_loop f b (Z.shiftr left 8)).
Proof. reflexivity. Qed.

Lemma int_neg_loop_S : forall f b left,
  int_neg_loop (S f) b left =
  (b <- push_u8 b (Z.land left 255) ;;
   if -128 <=? left then Ok b else int_neg_loop f b (Z.shiftr left 8)).
Proof. reflexivity. Qed.

Lemma min_twos_0 : min_twos 0 = [0].
Proof. vm_compute. reflexivity. Qed.

(* fuel S f suffices for 0 <= left < 256^f; the odd-looking stop test yields the minimal encoding *)
Lemma int_pos_loop_emits : forall f b left, Inv b -> 0 <= left < 256 ^ Z.of_nat f -> in_range left ->
  int_pos_loop (S f) b left = emits b (min_twos left) (bookmark b).
Proof.
  induction f as [|f IH]; intros b left Hb Hl Hr;
    rewrite int_pos_loop_S, push_u8_emits, land_255, shiftr_8 by exact Hb;
    pose proof (Z.mod_pos_bound left 256 ltac:(lia)) as Hm; pose proof (Z.div_mod left 256 ltac:(lia)) as Hdm.
  - change (256 ^ Z.of_nat 0) with 1 in Hl. assert (left = 0) as -> by lia.
    change (0 <? 255) with true. cbv iota. change (Z.land 0 128 =? 128) with false. cbv iota.
    rewrite min_twos_0. apply bind_ret.
  - destruct (left <? 255) eqn:E.
    + rewrite land_128_byte by lia. destruct (128 <=? left) eqn:E2.
      * rewrite min_twos_step by (try exact Hr; lia).
        rewrite (Z.div_small left 256) by lia. rewrite min_twos_0.
        apply emits_bind. intros b1 -> Hb1 Hf. rewrite push_u8_emits by exact Hb1. reflexivity.
      * rewrite min_twos_small by lia. apply bind_ret.
    + rewrite min_twos_step by (try exact Hr; lia).
      apply emits_bind. intros b1 -> Hb1 Hf. rewrite IH.
      * reflexivity.
      * exact Hb1.
      * rewrite pow256_S in Hl. split; [apply Z.div_pos; lia|apply Z.div_lt_upper_bound; lia].
      * apply in_range_div. exact Hr.
Qed.

Lemma int_neg_loop_emits : forall f b left, Inv b -> - (128 * 256 ^ Z.of_nat f) <= left < 0 -> in_range left ->
  int_neg_loop (S f) b left = emits b (min_twos left) (bookmark b).
Proof.
  induction f as [|f IH]; intros b left Hb Hl Hr;
    rewrite int_neg_loop_S, push_u8_emits, land_255, shiftr_8 by exact Hb.
  - change (256 ^ Z.of_nat 0) with 1 in Hl.
    destruct (-128 <=? left) eqn:E; [|lia]. rewrite min_twos_small by lia. apply bind_ret.
  - destruct (-128 <=? left) eqn:E.
    + rewrite min_twos_small by lia. apply bind_ret.
    + rewrite min_twos_step by (try exact Hr; lia).
      apply emits_bind. intros b1 -> Hb1 Hf. rewrite IH.
      * reflexivity.
      * exact Hb1.
      * rewrite pow256_S in Hl. pose proof (pow256_pos f) as HP. set (P := 256 ^ Z.of_nat f) in *.
        split; [apply Z.div_le_lower_bound; lia|apply Z.div_lt_upper_bound; lia].
      * apply in_range_div. exact Hr.
Qed.

Lemma enc_int_0 : enc_int 0 = [TAG_INT; 1; 0].
Proof. vm_compute. reflexivity. Qed.

(* the fuel 10 of the model is never exhausted for 64-bit values, and the octets are the reference ones *)
Theorem push_int_emits : forall b v, Inv b -> - 2 ^ 63 <= v < 2 ^ 63 ->
  push_int b v = emits b (enc_int v) (bookmark b).
Proof.
  intros b v Hb Hv. unfold push_int.
  destruct (v =? 0) eqn:E0.
  - assert (v = 0) as -> by lia. rewrite enc_int_0. apply push_emits.
  - cbv zeta. unfold enc_int. change TAG_INT with 2.
    assert (Hp : 2 ^ 63 < 256 ^ Z.of_nat 9) by (vm_compute; reflexivity).
    assert (Hn : - (128 * 256 ^ Z.of_nat 9) < - 2 ^ 63) by (vm_compute; reflexivity).
    destruct (0 <? v) eqn:E1.
    + rewrite int_pos_loop_emits by (try exact Hb; try exact Hv; lia). apply wrap_emits.
    + rewrite int_neg_loop_emits by (try exact Hb; try exact Hv; lia). apply wrap_emits.
Qed.

Lemma push_int_not_panic : forall b v, Inv b -> in_range v -> push_int b v <> Panic.
Proof. intros b v Hb Hv. rewrite push_int_emits by assumption. apply emits_not_panic. Qed.

(* small non-negative values: the three-octet form written literally by the message encoders *)
Lemma enc_int_small : forall v, 0 <= v < 128 -> enc_int v = [2; 1; v].
Proof.
  intros v Hv. unfold enc_int. rewrite min_twos_small by lia. rewrite Z.mod_small by lia. reflexivity.
Qed.

Lemma len_enc_int : forall v, in_range v -> 3 <= len (enc_int v) <= 10.
Proof.
  intros v Hv. unfold enc_int. rewrite len_tlv. pose proof (len_min_twos v Hv) as H.
  unfold enc_len. destruct (len (min_twos v) <? 128) eqn:E; [|lia].
  change (len [len (min_twos v)]) with 1. lia.
Qed.

(* ------------------------------------------------------------------ *)
(* Print Assumptions (observed with coqc 8.16.1): each prints "Closed under the global context"
     push_int_emits min_twos_sval min_twos_minimal int_pos_loop_emits int_neg_loop_emits *)

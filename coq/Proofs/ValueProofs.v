(* (C) Response values: every legal BER encoding of each SNMP value kind is decoded to the value it
   denotes (C02); REAL facts are stated separately at the end. *)
From GS Require Import Model.Base Gen.Constants Model.Ber Spec.X690
  Proofs.RtLemmas Proofs.HeaderRt Proofs.IntDecProofs.
From Coq Require Import ZArith List Bool Lia.
Import ListNotations.
Open Scope Z_scope.
Open Scope bool_scope.

(* x encodes v: identifier octet, any legal definite length octets, content octets *)
Inductive encodes_value : bytes -> value -> Prop :=
| EV_int lo c : wfb c -> (1 <= length c <= 8)%nat -> len_octets (len c) lo ->
    encodes_value (2 :: lo ++ c) (VInt (sval c))
| EV_counter32 lo c : wfb c -> c <> [] -> uval c < 2 ^ 32 -> len_octets (len c) lo ->
    encodes_value (65 :: lo ++ c) (VCounter32 (uval c))
| EV_gauge32 lo c : wfb c -> c <> [] -> uval c < 2 ^ 32 -> len_octets (len c) lo ->
    encodes_value (66 :: lo ++ c) (VGauge32 (uval c))
| EV_timeticks lo c : wfb c -> c <> [] -> uval c < 2 ^ 32 -> len_octets (len c) lo ->
    encodes_value (67 :: lo ++ c) (VTimeTicks (uval c))
| EV_uinteger32 lo c : wfb c -> c <> [] -> uval c < 2 ^ 32 -> len_octets (len c) lo ->
    encodes_value (71 :: lo ++ c) (VUInteger32 (uval c))
| EV_counter64 lo c : wfb c -> c <> [] -> uval c < 2 ^ 64 -> len_octets (len c) lo ->
    encodes_value (70 :: lo ++ c) (VCounter64 (uval c))
| EV_octetstring lo c : wfb c -> len_octets (len c) lo ->
    encodes_value (4 :: lo ++ c) (VOctetString c)
| EV_opaque lo c : wfb c -> len_octets (len c) lo ->
    encodes_value (68 :: lo ++ c) (VOpaque c)
| EV_objectdescriptor lo c : wfb c -> len_octets (len c) lo ->
    encodes_value (7 :: lo ++ c) (VObjectDescriptor c)
| EV_ipaddress lo a b c d : wfb [a; b; c; d] -> len_octets 4 lo ->
    encodes_value (64 :: lo ++ [a; b; c; d]) (VIpAddress a b c d)
| EV_oid lo c : wfb c -> len_octets (len c) lo ->
    encodes_value (6 :: lo ++ c) (VOid c)
| EV_bool lo b : 0 <= b < 256 -> len_octets 1 lo ->
    encodes_value (1 :: lo ++ [b]) (VBool (negb (b =? 0)))
| EV_null lo : len_octets 0 lo -> encodes_value (5 :: lo) VNull
| EV_nosuchobject lo : len_octets 0 lo -> encodes_value (128 :: lo) VNoSuchObject
| EV_nosuchinstance lo : len_octets 0 lo -> encodes_value (129 :: lo) VNoSuchInstance
| EV_endofmibview lo : len_octets 0 lo -> encodes_value (130 :: lo) VEndOfMibView.

Lemma encodes_value_nonempty x v : encodes_value x v -> x <> [].
Proof. destruct 1; discriminate. Qed.

Lemma decode_ip_app a b c d s h : h_length h = 4 -> decode_ip ([a; b; c; d] ++ s) h = Ok (a, b, c, d).
Proof. intros Hh. unfold decode_ip. rewrite Hh. reflexivity. Qed.

Lemma decode_bool_app b s h : h_length h = 1 -> decode_bool ([b] ++ s) h = Ok (negb (b =? 0)).
Proof. intros Hh. unfold decode_bool. rewrite Hh. reflexivity. Qed.

Lemma decode_null_app s h : h_length h = 0 -> decode_null s h = Ok tt.
Proof. intros Hh. unfold decode_null. rewrite Hh. reflexivity. Qed.

Ltac hdr_step cl co t :=
  unfold value_from_ber; rewrite <- ?app_comm_cons; rewrite <- ?app_assoc;
  rewrite (parse_header_snmp_any_len _ cl co t) by (first [assumption | cbn [snmp_id_table In]; tauto]);
  cbn [bind mk_hdr h_constructed h_class h_tag h_length Z.eqb Pos.eqb
       TAG_BOOL TAG_INT TAG_OCTET_STRING TAG_NULL TAG_OBJECT_ID TAG_OBJECT_DESCRIPTOR TAG_REAL
       TAG_APP_IPADDRESS TAG_APP_COUNTER32 TAG_APP_GAUGE32 TAG_APP_TIMETICKS TAG_APP_OPAQUE
       TAG_APP_COUNTER64 TAG_APP_UINTEGER32 TAG_CTX_NO_SUCH_OBJECT TAG_CTX_NO_SUCH_INSTANCE
       TAG_CTX_END_OF_MIB_VIEW].

Theorem value_from_ber_encodes : forall x v s, encodes_value x v -> value_from_ber (x ++ s) = Ok (s, v).
Proof.
  intros x v s H. destruct H.
  - hdr_step 0 false 2. rewrite decode_int_sval by (assumption || reflexivity).
    cbn [bind]. rewrite slice_from_app. reflexivity.
  - hdr_step 1 false 1. rewrite decode_u32_uval by (assumption || reflexivity).
    cbn [bind]. rewrite slice_from_app. reflexivity.
  - hdr_step 1 false 2. rewrite decode_u32_uval by (assumption || reflexivity).
    cbn [bind]. rewrite slice_from_app. reflexivity.
  - hdr_step 1 false 3. rewrite decode_u32_uval by (assumption || reflexivity).
    cbn [bind]. rewrite slice_from_app. reflexivity.
  - hdr_step 1 false 7. rewrite decode_u32_uval by (assumption || reflexivity).
    cbn [bind]. rewrite slice_from_app. reflexivity.
  - hdr_step 1 false 6. rewrite decode_u64_uval by (assumption || reflexivity).
    cbn [bind]. rewrite slice_from_app. reflexivity.
  - hdr_step 0 false 4. rewrite decode_slice_app by reflexivity.
    cbn [bind]. rewrite slice_from_app. reflexivity.
  - hdr_step 1 false 4. rewrite decode_slice_app by reflexivity.
    cbn [bind]. rewrite slice_from_app. reflexivity.
  - hdr_step 0 false 7. rewrite decode_slice_app by reflexivity.
    cbn [bind]. rewrite slice_from_app. reflexivity.
  - change 4 with (len [a; b; c; d]) in H0. hdr_step 1 false 0.
    rewrite decode_ip_app by reflexivity. cbn [bind]. rewrite slice_from_app. reflexivity.
  - hdr_step 0 false 6. rewrite decode_slice_app by reflexivity.
    cbn [bind]. rewrite slice_from_app. reflexivity.
  - change 1 with (len [b]) in H0. hdr_step 0 false 1.
    rewrite decode_bool_app by reflexivity. cbn [bind]. rewrite slice_from_app. reflexivity.
  - change 0 with (len (@nil Z)) in H. change ((5 :: lo) ++ s) with (5 :: lo ++ [] ++ s).
    hdr_step 0 false 5. rewrite decode_null_app by reflexivity. cbn [bind]. rewrite slice_from_app. reflexivity.
  - change 0 with (len (@nil Z)) in H. change ((128 :: lo) ++ s) with (128 :: lo ++ [] ++ s).
    hdr_step 2 false 0. rewrite slice_from_app. reflexivity.
  - change 0 with (len (@nil Z)) in H. change ((129 :: lo) ++ s) with (129 :: lo ++ [] ++ s).
    hdr_step 2 false 1. rewrite slice_from_app. reflexivity.
  - change 0 with (len (@nil Z)) in H. change ((130 :: lo) ++ s) with (130 :: lo ++ [] ++ s).
    hdr_step 2 false 2. rewrite slice_from_app. reflexivity.
Qed.

(* the reference (minimal-length) encodings are instances *)
Lemma encodes_value_enc_int v : - 2 ^ 63 <= v < 2 ^ 63 -> encodes_value (enc_int v) (VInt v).
Proof.
  intros Hv. unfold enc_int, tlv.
  replace (VInt v) with (VInt (sval (min_twos v))) by (rewrite min_twos_sval by exact Hv; reflexivity).
  apply EV_int; [apply min_twos_wfb|apply min_twos_length; exact Hv|].
  apply enc_len_len_octets. pose proof (min_twos_len v Hv). lia.
Qed.

Lemma encodes_value_enc_octets b : wfb b -> len b < 65536 -> encodes_value (enc_octets b) (VOctetString b).
Proof.
  intros Hw Hl. unfold enc_octets, tlv. apply EV_octetstring; [exact Hw|].
  apply enc_len_len_octets. pose proof (len_nonneg b). lia.
Qed.

Lemma encodes_value_enc_oid b : wfb b -> len b < 65536 -> encodes_value (enc_oid b) (VOid b).
Proof.
  intros Hw Hl. unfold enc_oid, tlv. apply EV_oid; [exact Hw|].
  apply enc_len_len_octets. pose proof (len_nonneg b). lia.
Qed.

Lemma encodes_value_enc_null : encodes_value enc_null VNull.
Proof. apply (EV_null [0]). apply LO_short. lia. Qed.

Lemma encodes_value_unsigned_tlv c : wfb c -> c <> [] -> uval c < 2 ^ 32 -> len c < 65536 ->
  encodes_value (tlv 65 c) (VCounter32 (uval c)) /\ encodes_value (tlv 66 c) (VGauge32 (uval c)) /\
  encodes_value (tlv 67 c) (VTimeTicks (uval c)) /\ encodes_value (tlv 71 c) (VUInteger32 (uval c)).
Proof.
  intros Hw Hne Hu Hl. pose proof (len_nonneg c).
  assert (Hlo : len_octets (len c) (enc_len (len c))) by (apply enc_len_len_octets; lia).
  unfold tlv. repeat split; constructor; assumption.
Qed.

Lemma encodes_value_exceptions :
  encodes_value [128; 0] VNoSuchObject /\ encodes_value [129; 0] VNoSuchInstance /\
  encodes_value [130; 0] VEndOfMibView.
Proof. repeat split; constructor; apply LO_short; lia. Qed.

(* ================= REAL (X.690 8.5) ================= *)

(* no content octets: plus zero *)
Theorem decode_real_empty s h : h_length h = 0 -> decode_real s h = Ok RZero.
Proof. intros Hh. unfold decode_real. rewrite Hh. reflexivity. Qed.

(* decode_real reads only the first h_length octets *)
Theorem decode_real_local c s h : h_length h = len c -> decode_real (c ++ s) h = decode_real c h.
Proof.
  intros Hh. unfold decode_real. rewrite Hh.
  destruct (len c =? 0); [reflexivity|]. rewrite slice_to_app, slice_to_all. reflexivity.
Qed.

(* special values, 8.5.9 *)
Lemma decode_real_one f h : h_length h = 1 -> decode_real [f] h = decode_real [f] (mk_hdr 0 false 9 1).
Proof. intros Hh. unfold decode_real. rewrite Hh. reflexivity. Qed.

Theorem decode_real_plus_inf s h : h_length h = 1 -> decode_real ([64] ++ s) h = Ok RPlusInf.
Proof. intros Hh. rewrite decode_real_local by exact Hh. rewrite decode_real_one by exact Hh. reflexivity. Qed.
Theorem decode_real_minus_inf s h : h_length h = 1 -> decode_real ([65] ++ s) h = Ok RMinusInf.
Proof. intros Hh. rewrite decode_real_local by exact Hh. rewrite decode_real_one by exact Hh. reflexivity. Qed.
Theorem decode_real_nan s h : h_length h = 1 -> decode_real ([66] ++ s) h = Ok RNaN.
Proof. intros Hh. rewrite decode_real_local by exact Hh. rewrite decode_real_one by exact Hh. reflexivity. Qed.
Theorem decode_real_minus_zero s h : h_length h = 1 -> decode_real ([67] ++ s) h = Ok RMinusZero.
Proof. intros Hh. rewrite decode_real_local by exact Hh. rewrite decode_real_one by exact Hh. reflexivity. Qed.

(* ---- binary encoding, 8.5.7 ---- *)
Lemma sat64_small x : - 2 ^ 63 <= x < 2 ^ 63 -> sat64 x = x.
Proof. intros Hx. unfold sat64. change (2 ^ 63) with 9223372036854775808 in Hx. lia. Qed.

(* exponent octets: sign-extending fold without saturation for up to 8 octets *)
Definition exp_step (acc n : Z) : Z := sat64 (sat64 (acc * 256) + n).

Lemma exp_fold_nosat : forall r acc k, wfb r -> len r + k <= 8 -> 1 <= k ->
  - 2 ^ (8 * k - 1) <= acc < 2 ^ (8 * k - 1) ->
  fold_left exp_step r acc = acc * 256 ^ Z.of_nat (length r) + uval r.
Proof.
  induction r as [|x r IH]; intros acc k Hw Hk Hk1 Hacc; cbn [fold_left uval length].
  - change (Z.of_nat 0) with 0. rewrite Z.pow_0_r. lia.
  - apply wfb_cons in Hw. destruct Hw as [Hx Hr]. rewrite len_cons in Hk. pose proof (len_nonneg r) as Hr0.
    assert (Hrange : - 2 ^ (8 * (k + 1) - 1) <= acc * 256 + x < 2 ^ (8 * (k + 1) - 1)).
    { replace (8 * (k + 1) - 1) with (8 + (8 * k - 1)) by lia.
      rewrite Z.pow_add_r by lia. change (2 ^ 8) with 256. lia. }
    assert (Hle : 2 ^ (8 * (k + 1) - 1) <= 2 ^ 63) by (apply Z.pow_le_mono_r; lia).
    assert (Hpos : 0 < 2 ^ (8 * (k + 1) - 1)) by (apply Z.pow_pos_nonneg; lia).
    assert (Hstep : exp_step acc x = acc * 256 + x).
    { unfold exp_step. rewrite (sat64_small (acc * 256)) by lia. apply sat64_small. lia. }
    rewrite Hstep. rewrite (IH _ (k + 1)); [|exact Hr|lia|lia|exact Hrange].
    rewrite Nat2Z.inj_succ, Z.pow_succ_r by lia. ring.
Qed.

Lemma exp_fold_sval e0 r : wfb (e0 :: r) -> (length (e0 :: r) <= 8)%nat ->
  fold_left exp_step (e0 :: r) (if Z.land e0 128 =? 0 then 0 else -1) = sval (e0 :: r).
Proof.
  intros Hw Hl. pose proof Hw as Hw'. apply wfb_cons in Hw'. destruct Hw' as [Hb Hr].
  assert (Hb128 : (Z.land e0 128 =? 0) = (e0 <? 128)).
  { pose proof (len_octet_bits e0 Hb) as Hbit. destruct (Z.ltb_spec e0 128); [exact Hbit|].
    apply andb_true_iff in Hbit. destruct Hbit as [Hbit _]. apply negb_true_iff in Hbit. exact Hbit. }
  rewrite Hb128. cbn [fold_left]. rewrite sval_cons, uval_cons.
  cbn [length] in *. rewrite Nat2Z.inj_succ, Z.pow_succ_r by lia.
  destruct (Z.ltb_spec e0 128).
  - assert (Hs : exp_step 0 e0 = e0)
      by (unfold exp_step; rewrite (sat64_small (0 * 256)) by lia; rewrite sat64_small by lia; lia).
    rewrite Hs. rewrite (exp_fold_nosat r e0 1); [lia|exact Hr|unfold len; lia|lia|].
    change (2 ^ (8 * 1 - 1)) with 128. lia.
  - assert (Hs : exp_step (-1) e0 = e0 - 256)
      by (unfold exp_step; rewrite (sat64_small (-1 * 256)) by lia; rewrite sat64_small by lia; lia).
    rewrite Hs. rewrite (exp_fold_nosat r (e0 - 256) 1); [lia|exact Hr|unfold len; lia|lia|].
    change (2 ^ (8 * 1 - 1)) with 128. lia.
Qed.

(* mantissa octets: (acc << 8) | x is acc * 256 + x *)
Lemma lor_shift_octet acc x : 0 <= x < 256 -> Z.lor (Z.shiftl acc 8) x = acc * 256 + x.
Proof.
  intros Hx. rewrite Z.shiftl_mul_pow2 by lia. change (2 ^ 8) with 256.
  assert (Hland : Z.land (acc * 256) x = 0); [|rewrite <- Z.lxor_lor by exact Hland; symmetry; apply Z.add_nocarry_lxor; exact Hland].
  apply Z.bits_inj'. intros n Hn.
  rewrite Z.land_spec, Z.bits_0.
  destruct (Z_lt_le_dec n 8) as [Hlt|Hge].
  - change 256 with (2 ^ 8). rewrite Z.mul_pow2_bits_low by lia. reflexivity.
  - rewrite <- (Z.mod_small x (2 ^ 8)) by (change (2 ^ 8) with 256; lia).
    rewrite Z.mod_pow2_bits_high by lia. apply andb_false_r.
Qed.

Lemma mant_fold_uval : forall mo acc, wfb mo ->
  fold_left (fun a x => Z.lor (Z.shiftl a 8) x) mo acc = acc * 256 ^ Z.of_nat (length mo) + uval mo.
Proof.
  induction mo as [|x mo IH]; intros acc Hw; cbn [fold_left uval length].
  - change (Z.of_nat 0) with 0. rewrite Z.pow_0_r. lia.
  - apply wfb_cons in Hw. destruct Hw as [Hx Hr]. rewrite lor_shift_octet by exact Hx.
    rewrite IH by exact Hr. rewrite Nat2Z.inj_succ, Z.pow_succ_r by lia. ring.
Qed.

(* facts about the first content octet *)
Lemma real_first_octet_bits f : 0 <= f < 256 ->
  ((0 <=? Z.land f 3) && (Z.land f 3 <=? 3) && (0 <=? Z.shiftr (Z.land f 12) 2) && (Z.shiftr (Z.land f 12) 2 <=? 3)
   && ((Z.land f 48 =? 0) || (Z.land f 48 =? 16) || (Z.land f 48 =? 32) || (Z.land f 48 =? 48))) = true.
Proof.
  apply (byte_cases (fun f => (0 <=? Z.land f 3) && (Z.land f 3 <=? 3) && (0 <=? Z.shiftr (Z.land f 12) 2)
   && (Z.shiftr (Z.land f 12) 2 <=? 3)
   && ((Z.land f 48 =? 0) || (Z.land f 48 =? 16) || (Z.land f 48 =? 32) || (Z.land f 48 =? 48)))).
  vm_compute. reflexivity.
Qed.

(* multiplier of the exponent for base 2 / 8 / 16, and the binary scaling factor F *)
Definition real_base_bits (f : Z) : Z :=
  if Z.land f 48 =? 0 then 1 else if Z.land f 48 =? 16 then 3 else 4.
Definition real_scale (f : Z) : Z := Z.shiftr (Z.land f 12) 2.
Definition real_bin_result (f : Z) (eo mo : bytes) : real :=
  RBin (testbit f 64) (uval mo)
       (Z.max (-4000) (Z.min 4000 (real_base_bits f * sval eo + real_scale f))).

Lemma real_bin_tail f e0 r mo :
  0 <= f < 256 -> Z.land f 48 <> 48 -> wfb (e0 :: r) -> (length (e0 :: r) <= 8)%nat -> wfb mo ->
  (let e := fold_left (fun acc n => sat64 (sat64 (acc * 256) + n)) (e0 :: r)
                      (if Z.land e0 128 =? 0 then 0 else -1) in
   let n := fold_left (fun acc x => Z.lor (Z.shiftl acc 8) x) mo 0 in
   let scale := Z.shiftr (Z.land f 12) 2 in
   let bb := Z.land f 48 in
   if negb ((bb =? 0) || (bb =? 16) || (bb =? 32)) then Err InvalidData else
   let base_bits := if bb =? 0 then 1 else if bb =? 16 then 3 else 4 in
   let p := Z.max (-4000) (Z.min 4000 (sat64 (sat64 (base_bits * e) + scale))) in
   Ok (RBin (testbit f 64) n p)) = Ok (real_bin_result f (e0 :: r) mo).
Proof.
  intros Hf H48 Hwe Hle Hwm. cbv zeta.
  change (fold_left (fun acc n => sat64 (sat64 (acc * 256) + n))) with (fold_left exp_step).
  rewrite exp_fold_sval by assumption. rewrite mant_fold_uval by exact Hwm. rewrite Z.mul_0_l, Z.add_0_l.
  pose proof (real_first_octet_bits f Hf) as Hbits.
  repeat (apply andb_true_iff in Hbits; let H' := fresh "Hb" in destruct Hbits as [Hbits H']).
  assert (Hbb : (Z.land f 48 =? 0) || (Z.land f 48 =? 16) || (Z.land f 48 =? 32) = true).
  { destruct (Z.land f 48 =? 0), (Z.land f 48 =? 16), (Z.land f 48 =? 32); try reflexivity.
    cbn [orb] in Hb. apply Z.eqb_eq in Hb. contradiction. }
  rewrite Hbb. cbn [negb]. unfold real_bin_result, real_base_bits, real_scale.
  f_equal. f_equal. unfold sat64. lia.
Qed.

(* exponent length given by bits 2-1 of the first octet (00, 01, 10: one, two, three octets) *)
Theorem decode_real_binary : forall f eo mo s h,
  0 <= f < 256 -> testbit f 128 = true -> Z.land f 3 <> 3 -> Z.land f 48 <> 48 ->
  wfb eo -> len eo = Z.land f 3 + 1 -> wfb mo -> len mo <= 16 ->
  h_length h = len (f :: eo ++ mo) ->
  decode_real ((f :: eo ++ mo) ++ s) h = Ok (real_bin_result f eo mo).
Proof.
  intros f eo mo s h Hf H128 H3 H48 Hwe Hle Hwm Hlm Hh.
  rewrite decode_real_local by exact Hh. unfold decode_real. rewrite Hh.
  pose proof (real_first_octet_bits f Hf) as Hbits.
  repeat (apply andb_true_iff in Hbits; let H' := fresh "Hb" in destruct Hbits as [Hbits H']).
  apply Z.leb_le in Hbits. apply Z.leb_le in Hb2.
  pose proof (len_nonneg eo) as Heo0. pose proof (len_nonneg mo) as Hmo0.
  assert (Hli : len (f :: eo ++ mo) = 1 + len eo + len mo) by (rewrite len_cons, len_app; lia).
  destruct (Z.eqb_spec (len (f :: eo ++ mo)) 0) as [E0|E0]; [lia|].
  rewrite slice_to_all. cbn [bind idx nth_error]. rewrite H128.
  apply Z.eqb_neq in H3. rewrite H3. cbn [bind]. cbv zeta.
  rewrite <- Hle.
  destruct (Z.eqb_spec (len eo) 0) as [E1|E1]; [lia|].
  destruct (Z.ltb_spec (len (f :: eo ++ mo)) (1 + len eo)) as [E2|E2]; [lia|].
  destruct (Z.ltb_spec 16 (len (f :: eo ++ mo) - (1 + len eo))) as [E3|E3]; [lia|].
  cbn [orb].
  assert (Hd1 : dropz 1 (f :: eo ++ mo) = eo ++ mo) by (cbn [dropz Z.leb Z.compare]; apply dropz_nonpos; lia).
  rewrite Hd1, takez_app_len.
  assert (Hd2 : dropz (1 + len eo) (f :: eo ++ mo) = mo).
  { rewrite <- (len_cons f eo). change (f :: eo ++ mo) with ((f :: eo) ++ mo). apply dropz_app_len. }
  rewrite Hd2.
  destruct eo as [|e0 r]; [rewrite len_nil in E1; lia|].
  change (idx (f :: (e0 :: r) ++ mo) (Z.to_nat 1)) with (Ok (A := Z) e0). cbn [bind].
  apply real_bin_tail; try assumption.
  rewrite len_cons in Hle. unfold len in Hle. cbn [length]. lia.
Qed.

(* exponent length in a separate octet (bits 2-1 = 11), here for up to 8 exponent octets *)
Theorem decode_real_binary_long : forall f eo mo s h,
  0 <= f < 256 -> testbit f 128 = true -> Z.land f 3 = 3 -> Z.land f 48 <> 48 ->
  wfb eo -> 1 <= len eo <= 8 -> wfb mo -> len mo <= 16 ->
  h_length h = len (f :: len eo :: eo ++ mo) ->
  decode_real ((f :: len eo :: eo ++ mo) ++ s) h = Ok (real_bin_result f eo mo).
Proof.
  intros f eo mo s h Hf H128 H3 H48 Hwe Hle Hwm Hlm Hh.
  rewrite decode_real_local by exact Hh. unfold decode_real. rewrite Hh.
  pose proof (len_nonneg mo) as Hmo0.
  assert (Hli : len (f :: len eo :: eo ++ mo) = 2 + len eo + len mo) by (rewrite !len_cons, len_app; lia).
  destruct (Z.eqb_spec (len (f :: len eo :: eo ++ mo)) 0) as [E0|E0]; [lia|].
  rewrite slice_to_all. cbn [bind idx nth_error]. rewrite H128.
  rewrite H3. cbn [Z.eqb Pos.eqb bind]. cbv zeta.
  destruct (Z.eqb_spec (len eo) 0) as [E1|E1]; [lia|].
  destruct (Z.ltb_spec (len (f :: len eo :: eo ++ mo)) (2 + len eo)) as [E2|E2]; [lia|].
  destruct (Z.ltb_spec 16 (len (f :: len eo :: eo ++ mo) - (2 + len eo))) as [E3|E3]; [lia|].
  cbn [orb].
  assert (Hd1 : dropz 2 (f :: len eo :: eo ++ mo) = eo ++ mo)
    by (cbn [dropz Z.leb Z.compare Z.sub Z.add Z.opp Z.pos_sub Pos.pred_double]; apply dropz_nonpos; lia).
  rewrite Hd1, takez_app_len.
  assert (Hd2 : dropz (2 + len eo) (f :: len eo :: eo ++ mo) = mo).
  { replace (2 + len eo) with (len (f :: len eo :: eo)) by (rewrite !len_cons; lia).
    change (f :: len eo :: eo ++ mo) with ((f :: len eo :: eo) ++ mo). apply dropz_app_len. }
  rewrite Hd2.
  destruct eo as [|e0 r]; [rewrite len_nil in E1; lia|].
  change (idx (f :: len (e0 :: r) :: (e0 :: r) ++ mo) (Z.to_nat 2)) with (Ok (A := Z) e0). cbn [bind].
  apply real_bin_tail; try assumption.
  unfold len in Hle. lia.
Qed.

(* when the scaled exponent is within the decoder's clamp, it is returned exactly *)
Corollary decode_real_binary_exact : forall f eo mo s h,
  0 <= f < 256 -> testbit f 128 = true -> Z.land f 3 <> 3 -> Z.land f 48 <> 48 ->
  wfb eo -> len eo = Z.land f 3 + 1 -> wfb mo -> len mo <= 16 ->
  h_length h = len (f :: eo ++ mo) ->
  Z.abs (real_base_bits f * sval eo + real_scale f) <= 4000 ->
  decode_real ((f :: eo ++ mo) ++ s) h =
  Ok (RBin (testbit f 64) (uval mo) (real_base_bits f * sval eo + real_scale f)).
Proof.
  intros f eo mo s h Hf H128 H3 H48 Hwe Hle Hwm Hlm Hh Habs.
  rewrite decode_real_binary by assumption. unfold real_bin_result. f_equal. f_equal. lia.
Qed.

(* through value_from_ber: tag 9, any legal length octets *)
Theorem value_from_ber_real lo c s r : len_octets (len c) lo ->
  decode_real c (mk_hdr 0 false 9 (len c)) = Ok r ->
  value_from_ber ((9 :: lo ++ c) ++ s) = Ok (s, VReal r).
Proof.
  intros Hlo Hr. hdr_step 0 false 9.
  rewrite decode_real_local by reflexivity. rewrite Hr. cbn [bind]. rewrite slice_from_app. reflexivity.
Qed.

(* Print Assumptions value_from_ber_encodes.    Closed under the global context *)
(* Print Assumptions decode_real_local.         Closed under the global context *)
(* Print Assumptions decode_real_binary.        Closed under the global context *)
(* Print Assumptions decode_real_binary_long.   Closed under the global context *)
(* Print Assumptions value_from_ber_real.       Closed under the global context *)

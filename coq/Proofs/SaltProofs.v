(* C14: the privacy salt never repeats.  The msgPrivacyParameters of successive encryptions under one key
   state are pairwise different for as long as fewer than 2^32 (DES) / 2^64 (AES) encryptions separate them,
   whatever the requests, whether or not individual encryptions fail, and whatever is decrypted in between. *)
From GS Require Import Model.Base Gen.Constants Model.Ber Model.Pdu Model.Buffer Model.Priv Model.V3
  Spec.X690 Spec.Rfc3414.
From GS Require Model.Crypto.DES Model.Crypto.AES Model.Crypto.Modes.
From GS Require Import Proofs.BaseLemmas Proofs.PrivLemmas Proofs.PrivProofs.
From Coq Require Import ZArith List Bool Lia Arith.
Import ListNotations.
Open Scope Z_scope.
Open Scope bool_scope.

(* ------------------------------------------------------------------ *)
(** * the sequence of transmitted salts *)

(* privacy parameters produced by successive [priv_encrypt] calls, threading the key state; [None] marks a
   call that returned an error (nothing is transmitted, but the salt counter has advanced all the same) *)
Fixpoint salts (k : priv_key) (reqs : list (scoped * Z * Z)) : list (option bytes) :=
  match reqs with
  | [] => []
  | (s, boots, time) :: rest =>
      let x := priv_encrypt k s boots time in
      (match snd x with Ok (_, pp) => Some pp | _ => None end) :: salts (fst x) rest
  end.

(* the key state after the same calls *)
Fixpoint key_after (k : priv_key) (reqs : list (scoped * Z * Z)) : priv_key :=
  match reqs with
  | [] => k
  | (s, boots, time) :: rest => key_after (fst (priv_encrypt k s boots time)) rest
  end.

Lemma salts_length : forall reqs k, length (salts k reqs) = length reqs.
Proof.
  induction reqs as [|[[s boots] time] rest IH]; intros k; cbn [salts length]; [reflexivity|].
  cbv zeta. rewrite IH. reflexivity.
Qed.

(* ------------------------------------------------------------------ *)
(** * one call *)

Lemma priv_encrypt_salt_des : forall k s boots time, pk_alg k = PDes ->
  pk_salt (fst (priv_encrypt k s boots time)) = wrap32 (pk_salt k + 1).
Proof. intros k s boots time Ha. unfold priv_encrypt. rewrite Ha. reflexivity. Qed.

Lemma priv_encrypt_salt_aes : forall k s boots time, pk_alg k = PAes ->
  pk_salt (fst (priv_encrypt k s boots time)) = wrap64 (pk_salt k + 1).
Proof. intros k s boots time Ha. unfold priv_encrypt. rewrite Ha. reflexivity. Qed.

(* the transmitted privacy parameters, for any request (no hypothesis on the PDU) *)
Lemma priv_encrypt_pp_des : forall k s boots time ct pp, pk_alg k = PDes ->
  snd (priv_encrypt k s boots time) = Ok (ct, pp) -> pp = be32 (wrap32 boots) ++ be32 (pk_salt k).
Proof.
  intros k s boots time ct pp Ha H. unfold priv_encrypt in H. rewrite Ha in H. cbv zeta in H. cbn [snd] in H.
  destruct (padded_plaintext DES_BLOCK_SIZE s) as [pt|e|]; cbn [bind] in H; try discriminate H.
  apply Ok_inj in H. apply pair_equal_spec in H. destruct H as [_ Hpp]. symmetry. exact Hpp.
Qed.

Lemma priv_encrypt_pp_aes : forall k s boots time ct pp, pk_alg k = PAes ->
  snd (priv_encrypt k s boots time) = Ok (ct, pp) -> pp = be64 (pk_salt k).
Proof.
  intros k s boots time ct pp Ha H. unfold priv_encrypt in H. rewrite Ha in H. cbv zeta in H. cbn [snd] in H.
  destruct (padded_plaintext AES_BLOCK_SIZE s) as [pt|e|]; cbn [bind] in H; try discriminate H.
  apply Ok_inj in H. apply pair_equal_spec in H. destruct H as [_ Hpp].
  rewrite aes_pp_drop in Hpp. symmetry. exact Hpp.
Qed.

Lemma priv_encrypt_pp_nopriv : forall k s boots time, pk_alg k = PNoPriv ->
  priv_encrypt k s boots time = (k, Err NotImplemented).
Proof. intros k s boots time Ha. unfold priv_encrypt. rewrite Ha. reflexivity. Qed.

(* B8: eight octets of privacy parameters, for both ciphers *)
Theorem salt_len8 : forall k s boots time k' ct pp,
  priv_encrypt k s boots time = (k', Ok (ct, pp)) -> len pp = 8.
Proof.
  intros k s boots time k' ct pp H. assert (Hs : snd (priv_encrypt k s boots time) = Ok (ct, pp)) by (rewrite H; reflexivity).
  destruct (pk_alg k) eqn:Ha.
  - rewrite priv_encrypt_pp_nopriv in Hs by exact Ha. discriminate Hs.
  - rewrite (priv_encrypt_pp_des k s boots time ct pp Ha Hs). reflexivity.
  - rewrite (priv_encrypt_pp_aes k s boots time ct pp Ha Hs). reflexivity.
Qed.

(* ------------------------------------------------------------------ *)
(** * B7: the i-th salt *)

Theorem des_salts_nth : forall reqs k i pp,
  installed k -> pk_alg k = PDes ->
  nth_error (salts k reqs) i = Some (Some pp) ->
  exists s boots time, nth_error reqs i = Some (s, boots, time) /\
    pp = be32 (wrap32 boots) ++ be32 ((pk_salt k + Z.of_nat i) mod 4294967296).
Proof.
  induction reqs as [|[[s boots] time] rest IH]; intros k i pp Hi Ha H.
  - destruct i; discriminate H.
  - destruct (installed_des k Hi Ha) as (_ & _ & Hs & _ & _).
    destruct i as [|i]; cbn [salts nth_error] in H; cbv zeta in H.
    + exists s, boots, time. split; [reflexivity|].
      destruct (snd (priv_encrypt k s boots time)) as [[ct pp']|e|] eqn:E; try discriminate H.
      assert (pp' = pp) by congruence. subst pp'.
      rewrite (priv_encrypt_pp_des k s boots time ct pp Ha E).
      rewrite Z.add_0_r, Z.mod_small by lia. reflexivity.
    + specialize (IH (fst (priv_encrypt k s boots time)) i pp).
      destruct IH as (s' & boots' & time' & Hn & Hpp).
      * apply priv_encrypt_installed. exact Hi.
      * rewrite priv_encrypt_alg. exact Ha.
      * exact H.
      * exists s', boots', time'. split; [exact Hn|]. rewrite Hpp. f_equal. f_equal.
        rewrite priv_encrypt_salt_des by exact Ha. unfold wrap32.
        rewrite Zplus_mod_idemp_l. f_equal. lia.
Qed.

Theorem aes_salts_nth : forall reqs k i pp,
  installed k -> pk_alg k = PAes ->
  nth_error (salts k reqs) i = Some (Some pp) ->
  pp = be64 ((pk_salt k + Z.of_nat i) mod 18446744073709551616).
Proof.
  induction reqs as [|[[s boots] time] rest IH]; intros k i pp Hi Ha H.
  - destruct i; discriminate H.
  - destruct (installed_aes k Hi Ha) as (_ & Hs & _).
    destruct i as [|i]; cbn [salts nth_error] in H; cbv zeta in H.
    + destruct (snd (priv_encrypt k s boots time)) as [[ct pp']|e|] eqn:E; try discriminate H.
      assert (pp' = pp) by congruence. subst pp'.
      rewrite (priv_encrypt_pp_aes k s boots time ct pp Ha E).
      rewrite Z.add_0_r, Z.mod_small by lia. reflexivity.
    + rewrite (IH (fst (priv_encrypt k s boots time)) i pp).
      * f_equal. rewrite priv_encrypt_salt_aes by exact Ha. unfold wrap64.
        rewrite Zplus_mod_idemp_l. f_equal. lia.
      * apply priv_encrypt_installed. exact Hi.
      * rewrite priv_encrypt_alg. exact Ha.
      * exact H.
Qed.

(* ------------------------------------------------------------------ *)
(** * B7: no repetition *)

Lemma mod_shift_distinct : forall a d M, 0 < d < M -> a mod M <> (a + d) mod M.
Proof.
  intros a d M Hd Heq.
  assert (H : (a + d - a) mod M = 0).
  { rewrite Zminus_mod, <- Heq, Z.sub_diag. apply Z.mod_0_l. lia. }
  replace (a + d - a) with d in H by ring. rewrite Z.mod_small in H by lia. lia.
Qed.

Theorem des_salts_distinct : forall reqs k i j a b,
  installed k -> pk_alg k = PDes ->
  (i < j)%nat -> Z.of_nat j - Z.of_nat i < 4294967296 ->
  nth_error (salts k reqs) i = Some (Some a) -> nth_error (salts k reqs) j = Some (Some b) ->
  a <> b.
Proof.
  intros reqs k i j a b Hi Ha Hij Hd Hna Hnb Heq.
  destruct (des_salts_nth reqs k i a Hi Ha Hna) as (s1 & b1 & t1 & _ & Ea).
  destruct (des_salts_nth reqs k j b Hi Ha Hnb) as (s2 & b2 & t2 & _ & Eb).
  rewrite Ea, Eb in Heq. apply app_inv_length in Heq; [|reflexivity]. destruct Heq as [_ Hc].
  apply be32_inj in Hc; try (apply Z.mod_pos_bound; lia).
  apply (mod_shift_distinct (pk_salt k + Z.of_nat i) (Z.of_nat j - Z.of_nat i) 4294967296); [lia|].
  rewrite Hc. f_equal. lia.
Qed.

Theorem aes_salts_distinct : forall reqs k i j a b,
  installed k -> pk_alg k = PAes ->
  (i < j)%nat -> Z.of_nat j - Z.of_nat i < 18446744073709551616 ->
  nth_error (salts k reqs) i = Some (Some a) -> nth_error (salts k reqs) j = Some (Some b) ->
  a <> b.
Proof.
  intros reqs k i j a b Hi Ha Hij Hd Hna Hnb Heq.
  pose proof (aes_salts_nth reqs k i a Hi Ha Hna) as Ea.
  pose proof (aes_salts_nth reqs k j b Hi Ha Hnb) as Eb.
  rewrite Ea, Eb in Heq.
  apply be64_inj in Heq; try (apply Z.mod_pos_bound; lia).
  apply (mod_shift_distinct (pk_salt k + Z.of_nat i) (Z.of_nat j - Z.of_nat i) 18446744073709551616); [lia|].
  rewrite Heq. f_equal. lia.
Qed.

Lemma nopriv_salts_none : forall reqs k i a, pk_alg k = PNoPriv -> nth_error (salts k reqs) i <> Some (Some a).
Proof.
  induction reqs as [|[[s boots] time] rest IH]; intros k i a Ha Hn; [destruct i; discriminate Hn|].
  cbn [salts] in Hn. cbv zeta in Hn. rewrite (priv_encrypt_pp_nopriv k s boots time Ha) in Hn.
  cbn [fst snd] in Hn. destruct i as [|i]; cbn [nth_error] in Hn; [discriminate Hn|].
  exact (IH k i a Ha Hn).
Qed.

(* both ciphers at once: a session that sends fewer than 2^32 encrypted requests never repeats a salt *)
Corollary salts_distinct : forall reqs k i j a b,
  installed k -> (i < j)%nat -> Z.of_nat j - Z.of_nat i < 4294967296 ->
  nth_error (salts k reqs) i = Some (Some a) -> nth_error (salts k reqs) j = Some (Some b) ->
  a <> b.
Proof.
  intros reqs k i j a b Hi Hij Hd Hna Hnb. destruct (pk_alg k) eqn:Ha.
  - exfalso. exact (nopriv_salts_none reqs k i a Ha Hna).
  - eapply des_salts_distinct; eassumption.
  - eapply aes_salts_distinct; try eassumption. lia.
Qed.

(* ------------------------------------------------------------------ *)
(** * the salts consumed, including those of failed calls *)

(* the privacy parameters computed by a call, before (and whether or not) the serialisation succeeds *)
Definition priv_params (k : priv_key) (boots : Z) : bytes :=
  match pk_alg k with
  | PNoPriv => []
  | PDes => be32 (wrap32 boots) ++ be32 (pk_salt k)
  | PAes => be64 (pk_salt k)
  end.

Fixpoint salt_values (k : priv_key) (reqs : list (scoped * Z * Z)) : list bytes :=
  match reqs with
  | [] => []
  | (s, boots, time) :: rest => priv_params k boots :: salt_values (fst (priv_encrypt k s boots time)) rest
  end.

(* every transmitted salt is the consumed salt of the same call *)
Theorem salts_salt_values : forall reqs k i pp,
  nth_error (salts k reqs) i = Some (Some pp) -> nth_error (salt_values k reqs) i = Some pp.
Proof.
  induction reqs as [|[[s boots] time] rest IH]; intros k i pp H; [destruct i; discriminate H|].
  destruct i as [|i]; cbn [salts salt_values nth_error] in *; cbv zeta in H; [|apply IH; exact H].
  destruct (snd (priv_encrypt k s boots time)) as [[ct pp']|e|] eqn:E; try discriminate H.
  assert (pp' = pp) by congruence. subst pp'. f_equal. unfold priv_params. destruct (pk_alg k) eqn:Ha.
  - rewrite priv_encrypt_pp_nopriv in E by exact Ha. discriminate E.
  - symmetry. eapply priv_encrypt_pp_des; eassumption.
  - symmetry. eapply priv_encrypt_pp_aes; eassumption.
Qed.

Theorem des_salt_values_nth : forall reqs k i pp,
  installed k -> pk_alg k = PDes -> nth_error (salt_values k reqs) i = Some pp ->
  exists s boots time, nth_error reqs i = Some (s, boots, time) /\
    pp = be32 (wrap32 boots) ++ be32 ((pk_salt k + Z.of_nat i) mod 4294967296).
Proof.
  induction reqs as [|[[s boots] time] rest IH]; intros k i pp Hi Ha H; [destruct i; discriminate H|].
  destruct (installed_des k Hi Ha) as (_ & _ & Hs & _ & _).
  destruct i as [|i]; cbn [salt_values nth_error] in H.
  - exists s, boots, time. split; [reflexivity|]. unfold priv_params in H. rewrite Ha in H.
    apply (f_equal (fun o => match o with Some x => x | None => pp end)) in H. subst pp.
    rewrite Z.add_0_r, Z.mod_small by lia. reflexivity.
  - destruct (IH (fst (priv_encrypt k s boots time)) i pp) as (s' & boots' & time' & Hn & Hpp).
    + apply priv_encrypt_installed. exact Hi.
    + rewrite priv_encrypt_alg. exact Ha.
    + exact H.
    + exists s', boots', time'. split; [exact Hn|]. rewrite Hpp. f_equal. f_equal.
      rewrite priv_encrypt_salt_des by exact Ha. unfold wrap32.
      rewrite Zplus_mod_idemp_l. f_equal. lia.
Qed.

Theorem aes_salt_values_nth : forall reqs k i pp,
  installed k -> pk_alg k = PAes -> nth_error (salt_values k reqs) i = Some pp ->
  pp = be64 ((pk_salt k + Z.of_nat i) mod 18446744073709551616).
Proof.
  induction reqs as [|[[s boots] time] rest IH]; intros k i pp Hi Ha H; [destruct i; discriminate H|].
  destruct (installed_aes k Hi Ha) as (_ & Hs & _).
  destruct i as [|i]; cbn [salt_values nth_error] in H.
  - unfold priv_params in H. rewrite Ha in H.
    apply (f_equal (fun o => match o with Some x => x | None => pp end)) in H. subst pp.
    rewrite Z.add_0_r, Z.mod_small by lia. reflexivity.
  - rewrite (IH (fst (priv_encrypt k s boots time)) i pp).
    + f_equal. rewrite priv_encrypt_salt_aes by exact Ha. unfold wrap64.
      rewrite Zplus_mod_idemp_l. f_equal. lia.
    + apply priv_encrypt_installed. exact Hi.
    + rewrite priv_encrypt_alg. exact Ha.
    + exact H.
Qed.

(* no consumed salt is ever consumed again, even when the calls in between (or these two) failed *)
Theorem salt_values_distinct : forall reqs k i j a b,
  installed k -> has_priv (pk_alg k) = true ->
  (i < j)%nat -> Z.of_nat j - Z.of_nat i < 4294967296 ->
  nth_error (salt_values k reqs) i = Some a -> nth_error (salt_values k reqs) j = Some b ->
  a <> b.
Proof.
  intros reqs k i j a b Hi Hp Hij Hd Hna Hnb Heq. destruct (pk_alg k) eqn:Ha; [discriminate Hp| |].
  - destruct (des_salt_values_nth reqs k i a Hi Ha Hna) as (s1 & b1 & t1 & _ & Ea).
    destruct (des_salt_values_nth reqs k j b Hi Ha Hnb) as (s2 & b2 & t2 & _ & Eb).
    rewrite Ea, Eb in Heq. apply app_inv_length in Heq; [|reflexivity]. destruct Heq as [_ Hc].
    apply be32_inj in Hc; try (apply Z.mod_pos_bound; lia).
    apply (mod_shift_distinct (pk_salt k + Z.of_nat i) (Z.of_nat j - Z.of_nat i) 4294967296); [lia|].
    rewrite Hc. f_equal. lia.
  - pose proof (aes_salt_values_nth reqs k i a Hi Ha Hna) as Ea.
    pose proof (aes_salt_values_nth reqs k j b Hi Ha Hnb) as Eb.
    rewrite Ea, Eb in Heq. apply be64_inj in Heq; try (apply Z.mod_pos_bound; lia).
    apply (mod_shift_distinct (pk_salt k + Z.of_nat i) (Z.of_nat j - Z.of_nat i) 18446744073709551616); [lia|].
    rewrite Heq. f_equal. lia.
Qed.

(* ------------------------------------------------------------------ *)
(** * interleaving with decryptions *)

(* [priv_decrypt : priv_key -> bytes -> usm -> res scoped] takes the key state and returns none: at the level
   of the cipher there is nothing to prove.  A session is a sequence of encryptions and decryptions; its
   salts are those of its encryptions alone. *)
Inductive priv_op :=
| OpEncrypt (s : scoped) (boots time : Z)
| OpDecrypt (ct : bytes) (u : usm).

Fixpoint session_salts (k : priv_key) (ops : list priv_op) : list (option bytes) :=
  match ops with
  | [] => []
  | OpEncrypt s boots time :: rest =>
      let x := priv_encrypt k s boots time in
      (match snd x with Ok (_, pp) => Some pp | _ => None end) :: session_salts (fst x) rest
  | OpDecrypt ct u :: rest =>
      match priv_decrypt k ct u with _ => session_salts k rest end
  end.

Fixpoint encryptions (ops : list priv_op) : list (scoped * Z * Z) :=
  match ops with
  | [] => []
  | OpEncrypt s boots time :: rest => (s, boots, time) :: encryptions rest
  | OpDecrypt _ _ :: rest => encryptions rest
  end.

Theorem session_salts_eq : forall ops k, session_salts k ops = salts k (encryptions ops).
Proof.
  induction ops as [|[s boots time|ct u] rest IH]; intros k; cbn [session_salts encryptions salts].
  - reflexivity.
  - cbv zeta. rewrite IH. reflexivity.
  - destruct (priv_decrypt k ct u); apply IH.
Qed.

Corollary session_salts_distinct : forall ops k i j a b,
  installed k -> (i < j)%nat -> Z.of_nat j - Z.of_nat i < 4294967296 ->
  nth_error (session_salts k ops) i = Some (Some a) -> nth_error (session_salts k ops) j = Some (Some b) ->
  a <> b.
Proof. intros ops k i j a b. rewrite session_salts_eq. apply salts_distinct. Qed.

(* the same fact on the socket of Model/V3.v: receiving (and decrypting) a message leaves the privacy key
   state, hence the salt counter, untouched ... *)
Theorem decrypt_keeps_state : forall sk m, privk (fst (v3_unwrap sk m)) = privk sk.
Proof.
  intros sk m. unfold v3_unwrap.
  destruct (match m_data m with
            | Plaintext x => Some x
            | Encrypted ct => match priv_decrypt (privk sk) ct (m_usm m) with Ok x => Some x | _ => None end
            end) as [sc|]; [|reflexivity].
  cbv zeta.
  destruct (all_eqb (user_name sk) (u_user_name (m_usm m)) &&
            ((len (engine_id sk) =? 0) || all_eqb (u_engine_id (m_usm m)) (engine_id sk)) &&
            (msg_id sk =? m_msg_id m) && pdu_check (s_pdu sc) (request_id sk)); reflexivity.
Qed.

(* ... and sending advances it by exactly one [priv_encrypt], whatever the outcome *)
Theorem push_pdu_key_state : forall sk p rnd,
  privk (fst (v3_push_pdu sk p rnd)) =
  if has_priv (pk_alg (privk sk))
  then fst (priv_encrypt (privk sk) {| s_engine_id := engine_id sk; s_pdu := p |} (engine_boots sk) (engine_time sk))
  else privk sk.
Proof.
  intros sk p rnd. unfold v3_push_pdu. cbv zeta. destruct (has_priv (pk_alg (privk sk))); [|reflexivity].
  destruct (priv_encrypt (privk sk) {| s_engine_id := engine_id sk; s_pdu := p |} (engine_boots sk) (engine_time sk))
    as [k' [[ct pp]|e|]]; reflexivity.
Qed.

(* a socket session: pushes and receptions in any order; the encryptions it performs *)
Inductive sock_ev := EvPush (p : pdu) (rnd : Z) | EvRecv (m : v3msg).

Fixpoint sock_after (sk : v3sock) (evs : list sock_ev) : v3sock :=
  match evs with
  | [] => sk
  | EvPush p rnd :: rest => sock_after (fst (v3_push_pdu sk p rnd)) rest
  | EvRecv m :: rest => sock_after (fst (v3_unwrap sk m)) rest
  end.

Fixpoint sock_encryptions (sk : v3sock) (evs : list sock_ev) : list (scoped * Z * Z) :=
  match evs with
  | [] => []
  | EvPush p rnd :: rest =>
      ({| s_engine_id := engine_id sk; s_pdu := p |}, engine_boots sk, engine_time sk)
      :: sock_encryptions (fst (v3_push_pdu sk p rnd)) rest
  | EvRecv m :: rest => sock_encryptions (fst (v3_unwrap sk m)) rest
  end.

(* the privacy key state of the socket is threaded exactly as in [salts] *)
Theorem sock_key_state : forall evs sk, has_priv (pk_alg (privk sk)) = true ->
  privk (sock_after sk evs) = key_after (privk sk) (sock_encryptions sk evs).
Proof.
  induction evs as [|[p rnd|m] rest IH]; intros sk Hp; cbn [sock_after sock_encryptions key_after].
  - reflexivity.
  - assert (Hk : privk (fst (v3_push_pdu sk p rnd)) =
                 fst (priv_encrypt (privk sk) {| s_engine_id := engine_id sk; s_pdu := p |}
                        (engine_boots sk) (engine_time sk)))
      by (rewrite push_pdu_key_state, Hp; reflexivity).
    rewrite IH by (rewrite Hk, priv_encrypt_alg; exact Hp). rewrite Hk. reflexivity.
  - rewrite IH by (rewrite decrypt_keeps_state; exact Hp). rewrite decrypt_keeps_state. reflexivity.
Qed.

Theorem key_after_installed : forall reqs k, installed k -> installed (key_after k reqs).
Proof.
  induction reqs as [|[[s boots] time] rest IH]; intros k Hi; cbn [key_after]; [exact Hi|].
  apply IH. apply priv_encrypt_installed. exact Hi.
Qed.

(* ------------------------------------------------------------------ *)
(** * B8: the privacy flag of an outgoing message *)

Theorem priv_flag : forall sk p mid pp d,
  m_flag_priv (v3_message sk p mid pp d) = has_priv (pk_alg (privk sk)).
Proof. reflexivity. Qed.

(* ------------------------------------------------------------------ *)
(* concrete sanity check (closed, finite): three DES requests with equal boots, the second one failing
   (a response PDU cannot be serialised), counter wrapping from 2^32 - 1 *)
Example salts_example :
  let k := {| pk_alg := PDes; pk_key := [1; 2; 3; 4; 5; 6; 7; 8]; pk_pre_iv := [9; 10; 11; 12; 13; 14; 15; 16];
              pk_salt := 4294967295 |} in
  let bad := {| s_engine_id := []; s_pdu := PReport [] |} in
  salts k [(ex_scoped, 5, 0); (bad, 5, 0); (ex_scoped, 5, 0)] =
  [Some [0; 0; 0; 5; 255; 255; 255; 255]; None; Some [0; 0; 0; 5; 0; 0; 0; 1]].
Proof. vm_compute. reflexivity. Qed.

(* ------------------------------------------------------------------ *)
(* Print Assumptions (observed with coqc 8.16.1): each prints "Closed under the global context"
     salt_len8 des_salts_nth aes_salts_nth des_salts_distinct aes_salts_distinct salts_distinct
     salts_salt_values des_salt_values_nth aes_salt_values_nth salt_values_distinct
     session_salts_eq session_salts_distinct decrypt_keeps_state push_pdu_key_state sock_key_state priv_flag *)

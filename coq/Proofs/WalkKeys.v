(* C06 at the level of what the caller sees: the OID STRINGS a walk yields.  The renderer (TryFrom<&SnmpOid> for String)
   prints the decimal text of the sub-identifiers and refuses any above 2^32-1, so on the OIDs of one subtree (same first
   octet, which comes from the caller's text and is below 120) equal texts mean equal sub-identifier lists.  The walk
   accepts an OID only if its sub-identifier list is strictly greater than the previous one's; hence the strings are
   pairwise distinct, and so are their arc lists: no entry is reported twice, whatever the agent replies. *)
From Coq Require Import ZArith List Bool Lia Sorted.
From GS Require Import Model.Base Gen.Constants Model.Ber Model.Pdu Model.OidText Model.Exc Gen.ErrorMap Model.Ops
  Model.Walk Spec.X690 Spec.Agent.
From GS Require Import Proofs.OidLemmas Proofs.OidTextProofs Proofs.OpsLemmas Proofs.OpsProofs Proofs.WalkAnyAgent.
From GS Require Proofs.WalkMib.
Import ListNotations.
Open Scope Z_scope.
Ltac Zify.zify_post_hook ::= Z.div_mod_to_equations.

(* 1. what the renderer prints is the decimal text of the sub-identifiers, each within 0..2^32-1 *)
Lemma print_rest_subids : forall l b t, 0 <= b <= 4294967295 -> print_rest l b = Ok t ->
  t = concat (map (cons DOT) (map dec (subids l b))) /\ Forall arc_ok (subids l b).
Proof.
  induction l as [|c r IH]; intros b t Hb H; cbn [print_rest subids] in *.
  - inversion H; subst. split; [reflexivity|constructor].
  - assert (Hx : 0 <= Z.land c 127 < 128) by (rewrite land_127; apply Z.mod_pos_bound; lia).
    destruct (Z.ltb_spec 4294967295 (b * 128 + Z.land c 127)) as [|Hle]; [discriminate|].
    rewrite lor_shift by exact Hx.
    assert (Hw : wrap64 (b * 128 + Z.land c 127) = b * 128 + Z.land c 127) by (unfold wrap64; apply Z.mod_small; lia).
    rewrite Hw. destruct (Z.land c 128 =? 0).
    + destruct (print_rest r 0) as [u|e|] eqn:E; cbn [bind] in H; try discriminate. inversion H; subst.
      destruct (IH 0 u ltac:(lia) E) as [-> Hok]. split.
      * cbn [map concat]. rewrite <- app_comm_cons. reflexivity.
      * constructor; [unfold arc_ok; lia|exact Hok].
    + apply IH; [lia|exact H].
Qed.

(* 2. the text of an OID whose first octet is below 120 is the canonical text of its arcs *)
Lemma text_is_canonical : forall c l t, 0 <= c < 120 -> text_of_oid (c :: l) = Ok t ->
  t = canonical_text (c / 40 :: c mod 40 :: subids l 0) /\ Forall arc_ok (subids l 0).
Proof.
  intros c l t Hc H. cbn [text_of_oid] in H.
  destruct (print_rest l 0) as [u|e|] eqn:E; cbn [bind] in H; try discriminate. inversion H; subst.
  destruct (print_rest_subids l 0 u ltac:(lia) E) as [-> Hok]. split; [|exact Hok].
  unfold canonical_text. cbn [map]. rewrite join_dot_cons2, join_dot_concat. reflexivity.
Qed.

(* 3. equal texts, equal sub-identifiers *)
Lemma same_text_same_subids : forall c l1 l2 t, 0 <= c < 120 ->
  text_of_oid (c :: l1) = Ok t -> text_of_oid (c :: l2) = Ok t -> subids l1 0 = subids l2 0.
Proof.
  intros c l1 l2 t Hc H1 H2.
  destruct (text_is_canonical c l1 t Hc H1) as [E1 Hok1]. destruct (text_is_canonical c l2 t Hc H2) as [E2 Hok2].
  assert (Hv : forall ss, Forall arc_ok ss -> valid_arcs (c / 40 :: c mod 40 :: ss)).
  { intros ss Hss. unfold valid_arcs. cbn [length nth]. split; [lia|]. split; [lia|]. split; [lia|].
    constructor; [unfold arc_ok; lia|]. constructor; [unfold arc_ok; lia|exact Hss]. }
  assert (Hd : forall ss, Forall arc_ok ss -> oid_of_text (canonical_text (c / 40 :: c mod 40 :: ss)) = Ok (oid_content (c / 40 :: c mod 40 :: ss))).
  { intros ss Hss. apply C08_complete; [|apply Hv; exact Hss]. apply canonical_text_denotes; [discriminate|].
    destruct (Hv ss Hss) as (_ & _ & _ & H). exact H. }
  pose proof (Hd _ Hok1) as D1. pose proof (Hd _ Hok2) as D2. rewrite <- E1 in D1. rewrite <- E2 in D2.
  assert (D : oid_content (c / 40 :: c mod 40 :: subids l1 0) = oid_content (c / 40 :: c mod 40 :: subids l2 0)) by congruence.
  assert (Ha : 0 <= c / 40 <= 2) by lia.
  assert (Hb : 0 <= c mod 40 <= 39) by lia.
  rewrite !oid_content_valid in D by assumption. assert (D' : enc (subids l1 0) = enc (subids l2 0)) by congruence.
  apply WalkMib.enc_subs_inj; [| |exact D'].
  - clear - Hok1. induction Hok1 as [|x r Hx _ IH]; constructor; [unfold WalkMib.sub_ok; unfold arc_ok in Hx; lia|exact IH].
  - clear - Hok2. induction Hok2 as [|x r Hx _ IH]; constructor; [unfold WalkMib.sub_ok; unfold arc_ok in Hx; lia|exact IH].
Qed.

(* 4. so an OID accepted after another one of the same subtree never has its text *)
Lemma after_other_text : forall c l1 l2 t1 t2, 0 <= c < 120 ->
  text_of_oid (c :: l1) = Ok t1 -> text_of_oid (c :: l2) = Ok t2 -> is_after (c :: l2) (c :: l1) = true -> t1 <> t2.
Proof.
  intros c l1 l2 t1 t2 Hc H1 H2 Ha E. subst t2.
  pose proof (same_text_same_subids c l1 l2 t1 Hc H1 H2) as Hs.
  unfold is_after in Ha. rewrite !subids_last in Ha by lia. rewrite Hs, list_gt_irrefl in Ha. discriminate.
Qed.

(* 5. every yielded item carries the text of its OID *)
Lemma gwalk_keys : forall V, sound V -> forall fuel a n base prev,
  Forall (fun i => text_of_oid (it_oid i) = Ok (it_key i)) (yielded (gwalk V fuel a n base prev)).
Proof.
  intros V Vsound. assert (Hc : forall base prev p c, good_chunk base prev p c -> Forall (fun i => text_of_oid (it_oid i) = Ok (it_key i)) c).
  { intros base prev p c (_ & _ & cvbs & rest & _ & H2). induction H2 as [|vb i cv c' (Ho & Hk & _) _ IH]; constructor; [|exact IH].
    rewrite Ho. exact Hk. }
  induction fuel as [|f IH]; intros a n base prev; cbn [gwalk]; [constructor|].
  pose proof (Vsound base prev (a n prev)) as Hs.
  destruct (V base prev (a n prev)) as [c|c e]; cbn [yielded].
  - apply Forall_app. split; [apply (Hc base prev (a n prev)); apply Hs|apply IH].
  - apply (Hc base prev (a n prev)). apply Hs.
Qed.

(* 6. items of one subtree, each accepted after the one before, have pairwise distinct texts *)
Lemma sorted_keys_nodup : forall c rest (ys : list item), 0 <= c < 120 ->
  StronglySorted (fun x y => is_after y x = true) (map it_oid ys) ->
  Forall (fun i => starts_with (it_oid i) (c :: rest) = true) ys ->
  Forall (fun i => text_of_oid (it_oid i) = Ok (it_key i)) ys ->
  NoDup (map it_key ys).
Proof.
  intros c rest ys Hc. induction ys as [|y ys IH]; intros Hs Hb Hk; cbn [map]; [constructor|].
  cbn [map] in Hs. inversion Hs as [|? ? Hs' Hall]; subst. inversion Hb as [|? ? Hby Hb']; subst. inversion Hk as [|? ? Hky Hk']; subst.
  constructor; [|apply IH; assumption].
  intros Hin. apply in_map_iff in Hin. destruct Hin as (z & Hz & Hzin).
  rewrite Forall_forall in Hall, Hb', Hk'.
  pose proof (Hall (it_oid z) (in_map it_oid ys z Hzin)) as Haft. pose proof (Hb' z Hzin) as Hbz. pose proof (Hk' z Hzin) as Hkz.
  apply starts_with_app in Hby. destruct Hby as [ty Ety]. apply starts_with_app in Hbz. destruct Hbz as [tz Etz].
  rewrite Ety, <- app_comm_cons in Hky, Haft. rewrite Etz, <- app_comm_cons in Hkz, Haft.
  apply (after_other_text c _ _ _ _ Hc Hky Hkz Haft). symmetry. exact Hz.
Qed.

(* 7. the walks: whatever the agent replies, the OID strings handed to the caller are pairwise distinct *)
Section TopLevel.
Variables (fuel : nat) (a : agent) (it0 : getiter) (base : bytes) (c : Z) (rest : bytes).
Hypothesis Hfresh : fresh_iter it0 base.
Hypothesis Hbase : base = c :: rest.
Hypothesis Hc : 0 <= c < 120.

Theorem walk_keys_distinct :
  NoDup (map it_key (yielded (walk_next fuel a 0 it0 [] []))) /\ NoDup (map it_key (yielded (walk_bulk fuel a 0 it0 [] []))).
Proof.
  split.
  - destruct (walk_next_increasing fuel a it0 base Hfresh) as (_ & Hs & _ & _).
    pose proof (walk_next_contained fuel a it0 base Hfresh) as Hb.
    rewrite (wn_eq fuel a it0 base Hfresh) in *. rewrite Hbase in Hs, Hb |- *.
    apply (sorted_keys_nodup c rest _ Hc Hs Hb). apply gwalk_keys. exact next_verdict_sound.
  - destruct (walk_bulk_increasing fuel a it0 base Hfresh) as (_ & Hs & _ & _).
    pose proof (walk_bulk_contained fuel a it0 base Hfresh) as Hb.
    rewrite (wb_eq fuel a it0 base Hfresh) in *. rewrite Hbase in Hs, Hb |- *.
    apply (sorted_keys_nodup c rest _ Hc Hs Hb). apply gwalk_keys. exact bulk_verdict_sound.
Qed.
End TopLevel.

(* the first octet of an OID given as text is 40 * first + second < 120 *)
Lemma oid_of_text_first : forall text b, oid_of_text text = Ok b -> exists c rest, b = c :: rest /\ 0 <= c < 120.
Proof.
  intros text b H. destruct (C08_sound _ _ H) as (arcs & _ & Hv & ->).
  destruct (valid_arcs_inv _ Hv) as (x & y & r & -> & Hx & Hy & _).
  rewrite oid_content_valid by lia. exists (40 * x + y), (enc r). split; [reflexivity|lia].
Qed.

(* the same for an iterator made by the constructor from the caller's OID text *)
Theorem walk_keys_distinct_api : forall text mr it fuel a, getiter_new text mr = Return it ->
  NoDup (map it_key (yielded (walk_next fuel a 0 it [] []))) /\ NoDup (map it_key (yielded (walk_bulk fuel a 0 it [] []))).
Proof.
  intros text mr it fuel a H. destruct (getiter_new_fresh _ _ _ H) as [Hf Ht].
  destruct (oid_of_text_first _ _ Ht) as (c & rest & Hb & Hc).
  apply (walk_keys_distinct fuel a it (start_oid it) c rest Hf Hb Hc).
Qed.

(* a witness that the renderer's refusal is what makes this true: 2^32 + 1 would print as 1 *)
Example big_subid_refused : text_of_oid [43; 6; 1; 144; 128; 128; 128; 1] = Err InvalidData /\ subids [144; 128; 128; 128; 1] 0 = [4294967297].
Proof. vm_compute. split; reflexivity. Qed.

Print Assumptions walk_keys_distinct.
Print Assumptions walk_keys_distinct_api.

(* Basic facts used by the operation-level and walk-level proofs: byte-list equality, the strict order
   behind is_after, total (panic-free) conversions, GetIter.set_next_oid. *)
From Coq Require Import ZArith List Bool Lia.
From GS Require Import Model.Base Gen.Constants Model.Ber Model.Pdu Model.OidText Model.Exc Gen.ErrorMap Model.Ops.
Import ListNotations.
Open Scope Z_scope.

(* ---- all_eqb is equality ---- *)
Lemma all_eqb_refl : forall a, all_eqb a a = true.
Proof. induction a as [|x a IH]; cbn [all_eqb]; [reflexivity|]. rewrite Z.eqb_refl, IH. reflexivity. Qed.

Lemma all_eqb_eq : forall a b, all_eqb a b = true <-> a = b.
Proof.
  induction a as [|x a IH]; intros [|y b]; cbn [all_eqb]; split; intros H; try discriminate; try reflexivity.
  - apply andb_true_iff in H. destruct H as [E H]. apply Z.eqb_eq in E. apply IH in H. subst. reflexivity.
  - inversion H; subst. rewrite Z.eqb_refl. cbn. apply all_eqb_refl.
Qed.

Lemma all_eqb_neq : forall a b, all_eqb a b = false <-> a <> b.
Proof.
  intros a b. split.
  - intros H E. apply all_eqb_eq in E. congruence.
  - intros H. destruct (all_eqb a b) eqn:E; [|reflexivity]. apply all_eqb_eq in E. contradiction.
Qed.

Lemma all_eqb_sym : forall a b, all_eqb a b = all_eqb b a.
Proof.
  intros a b. destruct (all_eqb a b) eqn:E.
  - apply all_eqb_eq in E. subst. symmetry. apply all_eqb_refl.
  - symmetry. apply all_eqb_neq. apply all_eqb_neq in E. congruence.
Qed.

(* ---- list_gt (Vec<u64> comparison) is a strict order ---- *)
Lemma list_gt_irrefl : forall a, list_gt a a = false.
Proof. induction a as [|x a IH]; cbn [list_gt]; [reflexivity|]. rewrite Z.ltb_irrefl. exact IH. Qed.

Lemma list_gt_trans : forall a b c, list_gt a b = true -> list_gt b c = true -> list_gt a c = true.
Proof.
  induction a as [|x a IH]; intros [|y b] [|z c] H1 H2; cbn [list_gt] in *; try discriminate; try reflexivity.
  destruct (y <? x) eqn:E1; destruct (z <? y) eqn:E2.
  - assert (z <? x = true) as -> by (apply Z.ltb_lt; apply Z.ltb_lt in E1, E2; lia). reflexivity.
  - destruct (y <? z) eqn:E3; [discriminate|].
    assert (y = z) by (apply Z.ltb_ge in E2, E3; lia). subst. rewrite E1. reflexivity.
  - destruct (x <? y) eqn:E3; [discriminate|].
    assert (x = y) by (apply Z.ltb_ge in E1, E3; lia). subst. rewrite E2. reflexivity.
  - destruct (x <? y) eqn:E3; [discriminate|]. destruct (y <? z) eqn:E4; [discriminate|].
    assert (x = y) by (apply Z.ltb_ge in E1, E3; lia). assert (y = z) by (apply Z.ltb_ge in E2, E4; lia). subst.
    rewrite Z.ltb_irrefl. eapply IH; eauto.
Qed.

Lemma list_gt_asym : forall a b, list_gt a b = true -> list_gt b a = false.
Proof.
  intros a b H. destruct (list_gt b a) eqn:E; [|reflexivity].
  pose proof (list_gt_trans _ _ _ H E) as F. rewrite list_gt_irrefl in F. discriminate.
Qed.

Lemma list_gt_nil_l : forall b, list_gt [] b = false.
Proof. reflexivity. Qed.

Lemma is_after_irrefl : forall a, is_after a a = false.
Proof. intros a. apply list_gt_irrefl. Qed.
Lemma is_after_trans : forall a b c, is_after a b = true -> is_after b c = true -> is_after a c = true.
Proof. unfold is_after. intros a b c. apply list_gt_trans. Qed.
Lemma is_after_asym : forall a b, is_after a b = true -> is_after b a = false.
Proof. unfold is_after. intros a b. apply list_gt_asym. Qed.
Lemma is_after_neq : forall a b, is_after a b = true -> a <> b.
Proof. intros a b H E. subst. rewrite is_after_irrefl in H. discriminate. Qed.
Lemma is_after_nil_l : forall b, is_after [] b = false.
Proof. reflexivity. Qed.

(* ---- starts_with ---- *)
Lemma starts_with_refl : forall a, starts_with a a = true.
Proof. induction a as [|x a IH]; cbn [starts_with]; [reflexivity|]. rewrite Z.eqb_refl. exact IH. Qed.
Lemma starts_with_nil : forall l, starts_with l [] = true.
Proof. destruct l; reflexivity. Qed.
Lemma starts_with_app : forall p l, starts_with l p = true <-> exists t, l = p ++ t.
Proof.
  induction p as [|x p IH]; intros l.
  - rewrite starts_with_nil. split; [intros _; exists l; reflexivity|reflexivity].
  - destruct l as [|y l]; cbn [starts_with].
    + split; [discriminate|]. intros [t H]. discriminate.
    + rewrite andb_true_iff, Z.eqb_eq, IH. split.
      * intros [E [t H]]. subst. exists t. reflexivity.
      * intros [t H]. inversion H; subst. split; [reflexivity|]. exists t. reflexivity.
Qed.

(* ---- conversions never panic where the operations call them ---- *)
Lemma print_rest_no_panic : forall l b, print_rest l b <> Panic.
Proof.
  induction l as [|c r IH]; intros b; cbn [print_rest]; [discriminate|].
  destruct (4294967295 <? b * 128 + Z.land c 127); [discriminate|].
  destruct (Z.land c 128 =? 0); [|apply IH].
  specialize (IH 0). destruct (print_rest r 0); cbn [bind]; try discriminate. contradiction.
Qed.

Lemma text_of_oid_no_panic : forall o, text_of_oid o <> Panic.
Proof.
  intros [|x r]; cbn [text_of_oid]; [discriminate|].
  pose proof (print_rest_no_panic r 0) as H. destruct (print_rest r 0); cbn [bind]; try discriminate. contradiction.
Qed.

Lemma print_rest_err : forall l b e, print_rest l b = Err e -> e = InvalidData.
Proof.
  induction l as [|c r IH]; intros b e H; cbn [print_rest] in H; [discriminate|].
  destruct (4294967295 <? b * 128 + Z.land c 127); [inversion H; reflexivity|].
  destruct (Z.land c 128 =? 0); [|apply (IH _ _ H)].
  destruct (print_rest r 0) as [t|e0|] eqn:E; cbn [bind] in H; try discriminate.
  inversion H; subst. apply (IH 0 e E).
Qed.

Lemma text_of_oid_err : forall o e, text_of_oid o = Err e -> e = InvalidData.
Proof.
  intros [|x r] e H; cbn [text_of_oid] in H; [inversion H; reflexivity|].
  destruct (print_rest r 0) as [t|e0|] eqn:E; cbn [bind] in H; try discriminate.
  inversion H; subst. apply (print_rest_err r 0 e E).
Qed.

(* rendering succeeds only on a non-empty OID (and refuses sub-identifiers above 2^32-1) *)
Lemma text_of_oid_ok_nonempty : forall o t, text_of_oid o = Ok t -> o <> [].
Proof. intros [|x r] t H; [discriminate|discriminate]. Qed.

Lemma text_of_oid_nil : text_of_oid [] = Err InvalidData.
Proof. reflexivity. Qed.

Lemma value_to_py_no_panic : forall v, is_data_value v = true -> value_to_py v <> Panic.
Proof.
  intros v H. destruct v; cbn [is_data_value] in H; try discriminate; cbn [value_to_py]; try discriminate.
  destruct (text_of_oid b) eqn:E; cbn [bind]; try discriminate.
  exfalso. eapply text_of_oid_no_panic; eauto.
Qed.

Lemma value_to_py_panic_iff : forall v, value_to_py v = Panic <-> is_data_value v = false.
Proof.
  intros v. split.
  - intros H. destruct (is_data_value v) eqn:E; [|reflexivity]. exfalso. eapply value_to_py_no_panic; eauto.
  - destruct v; cbn [is_data_value]; try discriminate; reflexivity.
Qed.

Lemma lift_no_crash : forall A (r : res A), r <> Panic -> lift r <> Crash.
Proof. intros A [a|e|] H; cbn [lift]; try discriminate. contradiction. Qed.

(* ---- GetIter.set_next_oid ---- *)
Lemma set_next_oid_true : forall it o it',
  set_next_oid it o = (it', true) ->
  starts_with o (start_oid it) = true /\ is_after o (next_oid it) = true /\
  it' = {| start_oid := start_oid it; next_oid := o; max_repetitions := max_repetitions it |}.
Proof.
  intros it o it' H. unfold set_next_oid in H.
  destruct (starts_with o (start_oid it)) eqn:E1; destruct (is_after o (next_oid it)) eqn:E2;
    cbn [andb] in H; inversion H; subst. auto.
Qed.

Lemma set_next_oid_false : forall it o it',
  set_next_oid it o = (it', false) ->
  (starts_with o (start_oid it) = false \/ is_after o (next_oid it) = false) /\ it' = it.
Proof.
  intros it o it' H. unfold set_next_oid in H.
  destruct (starts_with o (start_oid it)) eqn:E1; destruct (is_after o (next_oid it)) eqn:E2;
    cbn [andb] in H; inversion H; subst; auto.
Qed.

Lemma set_next_oid_eq : forall it o,
  set_next_oid it o =
  if starts_with o (start_oid it) && is_after o (next_oid it)
  then ({| start_oid := start_oid it; next_oid := o; max_repetitions := max_repetitions it |}, true)
  else (it, false).
Proof. reflexivity. Qed.

Lemma getiter_new_spec : forall text mr it,
  getiter_new text mr = Return it ->
  oid_of_text text = Ok (start_oid it) /\ next_oid it = start_oid it /\
  max_repetitions it = match mr with Some m => m | None => 0 end.
Proof.
  intros text mr it H. unfold getiter_new in H. destruct (oid_of_text text) as [o|e|] eqn:E; inversion H; subst.
  cbn. auto.
Qed.

(* ------------------------------------------------------------------ *)
(* Every error of the receive path (cmsg_decode and everything below it) is one of the kinds that the
   error map sends to SnmpDecodeError *)
(* ------------------------------------------------------------------ *)

Definition derr (e : err) : Prop := err_to_exc e = EDecode.

Ltac derr_step H :=
  match type of H with
  | Err _ = Err _ => inversion H; subst; unfold derr; reflexivity
  | Ok _ = Err _ => discriminate H
  | Panic = Err _ => discriminate H
  | bind ?r _ = Err _ =>
      let E := fresh "E" in
      destruct r as [?|?|] eqn:E; cbn [bind] in H;
      [ | inversion H; subst; clear H; eauto | discriminate H]
  | (if ?c then _ else _) = Err _ => destruct c eqn:?
  | (let '(_, _) := ?x in _) = Err _ => destruct x
  | match ?x with _ => _ end = Err _ => destruct x eqn:?
  end.
Ltac derr_bind H x :=
  match type of H with
  | bind ?r _ = Err _ =>
      let E := fresh "E" in
      destruct r as [x|?|] eqn:E; cbn [bind] in H;
      [ | inversion H; subst; clear H; eauto | discriminate H]
  end.
Ltac derr_solve H := repeat (derr_step H); try (unfold derr; reflexivity); eauto.

Lemma tag_loop_derr : forall l n e, tag_loop n l = Err e -> derr e.
Proof.
  induction l as [|t r IH]; intros n e H; cbn [tag_loop] in H.
  - derr_solve H.
  - cbv zeta in H. destruct (Z.land t 128 =? 0); [discriminate|]. eauto.
Qed.

Lemma len_loop_derr : forall k ln l e, len_loop k ln l = Err e -> derr e.
Proof.
  induction k as [|k IH]; intros ln l e H; cbn [len_loop] in H; [discriminate|].
  destruct l as [|b r]; [derr_solve H|eauto].
Qed.

Lemma parse_header_derr : forall i e, parse_header i = Err e -> derr e.
Proof.
  intros i e H. unfold parse_header in H.
  destruct i as [|id [|x r1]]; [derr_solve H|derr_solve H|]. cbv zeta in H.
  derr_bind H p.
  - destruct p as [tag r2]. destruct r2 as [|n r3]; [derr_solve H|].
    derr_bind H q.
    + destruct q as [length r4]. derr_solve H.
    + destruct (Z.land n 128 =? 0); [discriminate|]. eapply len_loop_derr; eauto.
  - destruct (Z.land id 31 =? 31); [eapply tag_loop_derr; eauto|discriminate].
Qed.
#[global] Hint Resolve parse_header_derr : derr.

Lemma slice_from_derr : forall l n e, slice_from l n = Err e -> derr e.
Proof. intros l n e H. unfold slice_from in H. destruct ((n <? 0) || (len l <? n)); discriminate. Qed.
Lemma slice_to_derr : forall l n e, slice_to l n = Err e -> derr e.
Proof. intros l n e H. unfold slice_to in H. destruct ((n <? 0) || (len l <? n)); discriminate. Qed.
Lemma idx_derr : forall l k e, idx l k = Err e -> derr e.
Proof. intros l k e H. unfold idx in H. destruct (nth_error l k); discriminate. Qed.
#[global] Hint Resolve slice_from_derr slice_to_derr idx_derr : derr.

Ltac derr_auto H := repeat (derr_step H; eauto with derr); try (unfold derr; reflexivity); eauto with derr.

Lemma from_ber_derr : forall A tag ap ac (decode : bytes -> hdr -> res A) i e,
  (forall i h e, decode i h = Err e -> derr e) ->
  from_ber tag ap ac decode i = Err e -> derr e.
Proof.
  intros A tag ap ac decode i e Hd H. unfold from_ber in H.
  destruct (len i <? 2); [derr_auto H|].
  derr_bind H p; eauto with derr. destruct p as [tail h].
  derr_auto H.
Qed.

Lemma decode_bool_derr : forall i h e, decode_bool i h = Err e -> derr e.
Proof. intros i h e H. unfold decode_bool in H. derr_auto H. Qed.
Lemma decode_null_derr : forall i h e, decode_null i h = Err e -> derr e.
Proof. intros i h e H. unfold decode_null in H. derr_auto H. Qed.
Lemma decode_int_derr : forall i h e, decode_int i h = Err e -> derr e.
Proof. intros i h e H. unfold decode_int in H. cbv zeta in H. derr_auto H. Qed.
Lemma decode_u32_derr : forall i h e, decode_u32 i h = Err e -> derr e.
Proof. intros i h e H. discriminate. Qed.
Lemma decode_u64_derr : forall i h e, decode_u64 i h = Err e -> derr e.
Proof. intros i h e H. discriminate. Qed.
Lemma decode_slice_derr : forall i h e, decode_slice i h = Err e -> derr e.
Proof. intros i h e H. unfold decode_slice in H. eauto with derr. Qed.
Lemma decode_ip_derr : forall i h e, decode_ip i h = Err e -> derr e.
Proof. intros i h e H. unfold decode_ip in H. derr_auto H. Qed.
#[global] Hint Resolve decode_bool_derr decode_null_derr decode_int_derr decode_u32_derr decode_u64_derr
  decode_slice_derr decode_ip_derr : derr.

Lemma decode_real_derr : forall i h e, decode_real i h = Err e -> derr e.
Proof.
  intros i h e H. unfold decode_real in H. cbv zeta in H.
  destruct (h_length h =? 0); [discriminate|].
  derr_bind H b; eauto with derr. derr_bind H z; eauto with derr.
  destruct (testbit z 128).
  - derr_bind H p.
    + destruct p as [e_start e_len]. derr_auto H.
    + destruct (Z.land z 3 =? 3); [|discriminate]. destruct (nth_error b 1); [discriminate|].
      match goal with HH : Err _ = Err _ |- _ => inversion HH; subst; reflexivity end.
  - derr_auto H.
Qed.
#[global] Hint Resolve decode_real_derr : derr.

Lemma value_from_ber_derr : forall i e, value_from_ber i = Err e -> derr e.
Proof.
  intros i e H. unfold value_from_ber in H.
  derr_bind H p; eauto with derr. destruct p as [tail h]. cbv zeta in H.
  derr_bind H v; eauto with derr.
  - derr_auto H.
  - rename E0 into H. derr_auto H.
Qed.
#[global] Hint Resolve value_from_ber_derr : derr.

Lemma int_from_ber_derr : forall i e, int_from_ber i = Err e -> derr e.
Proof. intros i e. apply from_ber_derr. eauto with derr. Qed.
Lemma null_from_ber_derr : forall i e, null_from_ber i = Err e -> derr e.
Proof. intros i e. apply from_ber_derr. eauto with derr. Qed.
Lemma oid_from_ber_derr : forall i e, oid_from_ber i = Err e -> derr e.
Proof. intros i e. apply from_ber_derr. eauto with derr. Qed.
Lemma octetstring_from_ber_derr : forall i e, octetstring_from_ber i = Err e -> derr e.
Proof. intros i e. apply from_ber_derr. eauto with derr. Qed.
Lemma reloid_from_ber_derr : forall i e, reloid_from_ber i = Err e -> derr e.
Proof. intros i e. apply from_ber_derr. eauto with derr. Qed.
Lemma sequence_from_ber_derr : forall i e, sequence_from_ber i = Err e -> derr e.
Proof. intros i e. apply from_ber_derr. eauto with derr. Qed.
#[global] Hint Resolve int_from_ber_derr null_from_ber_derr oid_from_ber_derr octetstring_from_ber_derr
  reloid_from_ber_derr sequence_from_ber_derr : derr.

Lemma option_from_ber_derr : forall i e, option_from_ber i = Err e -> derr e.
Proof.
  intros i e H. unfold option_from_ber in H. destruct (len i <? 3); [derr_auto H|].
  derr_bind H p; eauto with derr. destruct p as [tail h]. derr_auto H.
Qed.

Lemma normalize_derr : forall rel oid e, normalize rel oid = Err e -> derr e.
Proof. intros rel oid e H. unfold normalize in H. cbv zeta in H. derr_auto H. Qed.
Lemma try_normalize_derr : forall rel oid e, try_normalize rel oid = Err e -> derr e.
Proof.
  intros rel oid e H. unfold try_normalize in H. destruct oid as [|x oid1]; [derr_auto H|]. cbv zeta in H.
  match type of H with (if ?c then _ else _) = _ => destruct c end; [derr_auto H|]. eapply normalize_derr; eauto.
Qed.
#[global] Hint Resolve option_from_ber_derr try_normalize_derr : derr.

Lemma resp_vars_derr : forall fuel v_tail acc e, resp_vars fuel v_tail acc = Err e -> derr e.
Proof.
  induction fuel as [|f IH]; intros v_tail acc e H; destruct v_tail as [|b0 t0]; cbn [resp_vars] in H;
    try discriminate.
  derr_bind H p; eauto with derr. destruct p as [rest vs].
  destruct vs as [|t0' vs']; [derr_auto H|].
  derr_bind H q.
  - destruct q as [tail oid]. derr_bind H w; eauto with derr. destruct w as [x v]. eauto.
  - rename E0 into H. derr_auto H.
Qed.
#[global] Hint Resolve resp_vars_derr : derr.

Lemma getresponse_decode_derr : forall i e, getresponse_decode i = Err e -> derr e.
Proof.
  intros i e H. unfold getresponse_decode in H.
  derr_bind H p1; eauto with derr. destruct p1.
  derr_bind H p2; eauto with derr. destruct p2.
  derr_bind H p3; eauto with derr. destruct p3.
  derr_bind H p4; eauto with derr. destruct p4.
  derr_auto H.
Qed.

Lemma parse_var_derr : forall i e, parse_var i = Err e -> derr e.
Proof.
  intros i e H. unfold parse_var in H.
  derr_bind H p1; eauto with derr. destruct p1.
  derr_bind H p2; eauto with derr. destruct p2.
  derr_bind H p3; eauto with derr. destruct p3. discriminate.
Qed.
#[global] Hint Resolve parse_var_derr : derr.

Lemma req_vars_derr : forall fuel v_tail acc e, req_vars fuel v_tail acc = Err e -> derr e.
Proof.
  induction fuel as [|f IH]; intros v_tail acc e H; destruct v_tail as [|b0 t0]; cbn [req_vars] in H;
    try discriminate.
  derr_bind H p; eauto with derr. destruct p. eauto.
Qed.
#[global] Hint Resolve req_vars_derr : derr.

Lemma get_decode_derr : forall i e, get_decode i = Err e -> derr e.
Proof.
  intros i e H. unfold get_decode in H.
  derr_bind H p1; eauto with derr. destruct p1.
  derr_bind H p2; eauto with derr. destruct p2.
  match type of H with (if ?c then _ else _) = _ => destruct c end; [derr_auto H|].
  derr_bind H p3; eauto with derr. destruct p3.
  match type of H with (if ?c then _ else _) = _ => destruct c end; [derr_auto H|].
  derr_bind H p4; eauto with derr. destruct p4.
  derr_auto H.
Qed.

Lemma getbulk_decode_derr : forall i e, getbulk_decode i = Err e -> derr e.
Proof.
  intros i e H. unfold getbulk_decode in H.
  derr_bind H p1; eauto with derr. destruct p1.
  derr_bind H p2; eauto with derr. destruct p2.
  derr_bind H p3; eauto with derr. destruct p3.
  derr_bind H p4; eauto with derr. destruct p4.
  derr_auto H.
Qed.
#[global] Hint Resolve getresponse_decode_derr get_decode_derr getbulk_decode_derr : derr.

Lemma pdu_decode_derr : forall i e, pdu_decode i = Err e -> derr e.
Proof.
  intros i e H. unfold pdu_decode in H.
  derr_bind H p; eauto with derr. destruct p as [x [tag v]]. derr_auto H.
Qed.
#[global] Hint Resolve pdu_decode_derr : derr.

Theorem cmsg_decode_derr : forall ver i e, cmsg_decode ver i = Err e -> err_to_exc e = EDecode.
Proof.
  intros ver i e H. change (derr e). unfold cmsg_decode in H.
  derr_bind H p1; eauto with derr. destruct p1 as [tail envelope].
  destruct tail; [|derr_auto H].
  derr_bind H p2; eauto with derr. destruct p2.
  match type of H with (if ?c then _ else _) = _ => destruct c end; [derr_auto H|].
  derr_bind H p3; eauto with derr. destruct p3.
  derr_auto H.
Qed.

(* Assumptions (observed with Coq 8.16.1: "Closed under the global context") *)
Print Assumptions cmsg_decode_derr.
Print Assumptions list_gt_trans.

(* General list / len / bind / bit lemmas used by the buffer-encoder proofs. *)
From GS Require Import Model.Base.

(* ---- len ---- *)
Lemma len_nil : len [] = 0.
Proof. reflexivity. Qed.

Lemma len_cons : forall x l, len (x :: l) = 1 + len l.
Proof. intros x l. unfold len. cbn [length]. rewrite Nat2Z.inj_succ. lia. Qed.

Lemma len_app : forall a b, len (a ++ b) = len a + len b.
Proof. intros a b. unfold len. rewrite app_length, Nat2Z.inj_add. reflexivity. Qed.

Lemma len_nonneg : forall l, 0 <= len l.
Proof. intros l. unfold len. lia. Qed.

Lemma len_length : forall l, len l = Z.of_nat (length l).
Proof. reflexivity. Qed.

Lemma len_zero_nil : forall l, len l = 0 -> l = [].
Proof. intros [|x l] H; [reflexivity|]. rewrite len_cons in H. pose proof (len_nonneg l). lia. Qed.

(* ---- bind ---- *)
Lemma bind_ok : forall {A B} (a : A) (k : A -> res B), bind (Ok a) k = k a.
Proof. reflexivity. Qed.

Lemma bind_err : forall {A B} e (k : A -> res B), bind (Err e) k = Err e.
Proof. reflexivity. Qed.

Lemma bind_ret : forall {A} (r : res A), bind r (fun a => Ok a) = r.
Proof. intros A [a|e|]; reflexivity. Qed.

Lemma bind_assoc : forall {A B C} (r : res A) (f : A -> res B) (g : B -> res C),
  bind (bind r f) g = bind r (fun a => bind (f a) g).
Proof. intros A B C [a|e|] f g; reflexivity. Qed.

(* ---- wfb ---- *)
Lemma wfb_nil : wfb [].
Proof. constructor. Qed.

Lemma wfb_cons : forall x l, wfb (x :: l) <-> 0 <= x < 256 /\ wfb l.
Proof.
  intros x l. unfold wfb. split.
  - intros H. inversion H; subst. split; assumption.
  - intros [Hx Hl]. constructor; assumption.
Qed.

Lemma wfb_app : forall a b, wfb (a ++ b) <-> wfb a /\ wfb b.
Proof. intros a b. unfold wfb. apply Forall_app. Qed.

(* ---- finite checks over one octet ---- *)
Lemma byte_forall : forall P : Z -> bool,
  forallb P (map Z.of_nat (seq 0 256)) = true -> forall x, 0 <= x < 256 -> P x = true.
Proof.
  intros P H x Hx. rewrite forallb_forall in H. apply H.
  apply in_map_iff. exists (Z.to_nat x). split; [lia|]. apply in_seq. lia.
Qed.

(* ---- masks and shifts (any Z, floor semantics) ---- *)
Lemma land_255 : forall x, Z.land x 255 = x mod 256.
Proof. intros x. change 255 with (Z.ones 8). rewrite Z.land_ones by lia. reflexivity. Qed.

Lemma shiftr_8 : forall x, Z.shiftr x 8 = x / 256.
Proof. intros x. rewrite Z.shiftr_div_pow2 by lia. reflexivity. Qed.

Lemma land_128_byte : forall x, 0 <= x < 256 -> (Z.land x 128 =? 128) = (128 <=? x).
Proof.
  intros x Hx. apply Bool.eqb_prop.
  apply (byte_forall (fun x => Bool.eqb (Z.land x 128 =? 128) (128 <=? x))); [vm_compute; reflexivity|exact Hx].
Qed.

Lemma wrap8_small : forall v, 0 <= v < 256 -> wrap8 v = v.
Proof. intros v Hv. unfold wrap8. apply Z.mod_small. exact Hv. Qed.

Lemma wrap8_mod : forall v, wrap8 v = v mod 256.
Proof. reflexivity. Qed.

Lemma wrap8_shiftr : forall v, 0 <= v < 65536 -> wrap8 (Z.shiftr v 8) = v / 256.
Proof.
  intros v Hv. rewrite shiftr_8. apply wrap8_small.
  split; [apply Z.div_pos; lia | apply Z.div_lt_upper_bound; lia].
Qed.

(* ---- takez / dropz (for completeness: Z-counted prefixes are firstn / skipn) ---- *)
Lemma takez_firstn : forall l n, 0 <= n -> takez n l = firstn (Z.to_nat n) l.
Proof.
  induction l as [|x l IH]; intros n Hn; cbn [takez].
  - rewrite firstn_nil. reflexivity.
  - destruct (n <=? 0) eqn:E.
    + apply Z.leb_le in E. replace n with 0 by lia. reflexivity.
    + apply Z.leb_gt in E. rewrite IH by lia.
      replace (Z.to_nat n) with (S (Z.to_nat (n - 1))) by lia. reflexivity.
Qed.

Lemma dropz_skipn : forall l n, 0 <= n -> dropz n l = skipn (Z.to_nat n) l.
Proof.
  induction l as [|x l IH]; intros n Hn; cbn [dropz].
  - rewrite skipn_nil. reflexivity.
  - destruct (n <=? 0) eqn:E.
    + apply Z.leb_le in E. replace n with 0 by lia. reflexivity.
    + apply Z.leb_gt in E. rewrite IH by lia.
      replace (Z.to_nat n) with (S (Z.to_nat (n - 1))) by lia. reflexivity.
Qed.

(* C11: what the privacy layer of Model/Priv.v puts on the wire is exactly the scoped PDU of Spec/X690.v
   encrypted as RFC 3414 8.1.1 (DES-CBC) / RFC 3826 3.1 (AES-128-CFB) prescribe, and decryption inverts it. *)
From GS Require Import Model.Base Gen.Constants Model.Ber Model.Pdu Model.Buffer Model.Priv Model.V3
  Spec.X690 Spec.Rfc3414.
From GS Require Model.Crypto.DES Model.Crypto.AES Model.Crypto.Modes.
From GS Require Import Proofs.ByteRange Proofs.ModesProofs Proofs.DESInverse Proofs.AESProps
  Proofs.CipherRoundTrips.
From GS Require Import Proofs.BufferProofs Proofs.IntEncProofs Proofs.EncodeProofs Proofs.RoundTrip
  Proofs.DecodeProofs Proofs.MsgDecodeProofs.
From GS Require Import Proofs.BaseLemmas Proofs.PrivLemmas.
From Coq Require Import ZArith List Bool Lia Arith.
Import ListNotations.
Open Scope Z_scope.
Open Scope bool_scope.

(* ------------------------------------------------------------------ *)
(** * installedness is preserved by encryption *)

Theorem priv_encrypt_installed : forall k s boots time,
  installed k -> installed (fst (priv_encrypt k s boots time)).
Proof.
  intros k s boots time Hi. unfold priv_encrypt, installed in *.
  destruct (pk_alg k) eqn:Ea; cbn [fst pk_alg pk_key pk_pre_iv pk_salt].
  - rewrite Ea. exact I.
  - destruct Hi as (H1 & H2 & H3 & H4 & H5). repeat split; try assumption;
      unfold wrap32; apply Z.mod_pos_bound; lia.
  - destruct Hi as (H1 & H2 & H3). repeat split; try assumption;
      unfold wrap64; apply Z.mod_pos_bound; lia.
Qed.

Theorem priv_encrypt_alg : forall k s boots time, pk_alg (fst (priv_encrypt k s boots time)) = pk_alg k.
Proof. intros k s boots time. unfold priv_encrypt. destruct (pk_alg k) eqn:Ea; cbn [fst pk_alg]; congruence. Qed.

(* ------------------------------------------------------------------ *)
(** * facts shared by the two directions *)

Lemma des_pp_length : forall boots salt, length (be32 boots ++ be32 salt) = 8%nat.
Proof. reflexivity. Qed.

Lemma des_pp_wfb : forall boots salt, wfb (be32 boots ++ be32 salt).
Proof. intros. apply wfb_app_intro; apply wfb_be32. Qed.

(* the IV computed by the encrypt path *)
Lemma des_encrypt_iv : forall key pre pp, length key = 8%nat -> length pre = 8%nat ->
  Modes.xor_bytes pp pre ++ zeros (8 - Nat.min 8 (length pre)) = des_iv (key ++ pre) pp.
Proof.
  intros key pre pp Hk Hp. rewrite Hp. cbn [Nat.min Nat.sub zeros]. rewrite app_nil_r.
  symmetry. apply des_iv_model; assumption.
Qed.

(* the IV computed by the decrypt path, for 8 octets of privacy parameters *)
Lemma des_decrypt_iv : forall key pre pp, length key = 8%nat -> length pre = 8%nat -> length pp = 8%nat ->
  Modes.xor_bytes (takez 8 pp) pre ++ zeros (8 - length (Modes.xor_bytes (takez 8 pp) pre)) =
  des_iv (key ++ pre) pp.
Proof.
  intros key pre pp Hk Hp Hpp. rewrite takez_all by (unfold len; lia).
  rewrite xor_bytes_length, Hp, Hpp. cbn [Nat.min Nat.sub zeros]. rewrite app_nil_r.
  symmetry. apply des_iv_model; assumption.
Qed.

Lemma des_iv_length : forall key pre pp, length key = 8%nat -> length pre = 8%nat -> length pp = 8%nat ->
  length (des_iv (key ++ pre) pp) = 8%nat.
Proof. intros key pre pp Hk Hp Hpp. rewrite des_iv_model by assumption. rewrite xor_bytes_length. lia. Qed.

Lemma des_iv_wfb : forall key pre pp, length key = 8%nat -> length pre = 8%nat -> wfb pre -> wfb pp ->
  wfb (des_iv (key ++ pre) pp).
Proof. intros key pre pp Hk Hp Hw Hpp. rewrite des_iv_model by assumption. apply wfb_xor_bytes; assumption. Qed.

(* the padded plaintext: length a multiple of the block, made of octets *)
Lemma padded_length_mod : forall (e : bytes) block, (0 < block)%nat ->
  Nat.modulo (length (e ++ zeros (Z.to_nat (pad_len (Z.of_nat block) (len e))))) block = 0%nat.
Proof.
  intros e block Hb. apply nat_mod_of_Z; [exact Hb|].
  pose proof (pad_len_range (Z.of_nat block) (len e)) as Hr.
  rewrite app_length, zeros_length, Nat2Z.inj_add, Z2Nat.id by lia.
  apply pad_len_multiple. lia.
Qed.

Lemma padded_len : forall (e : bytes) block, 0 < block ->
  len (e ++ zeros (Z.to_nat (pad_len block (len e)))) = len e + pad_len block (len e).
Proof.
  intros e block Hb. pose proof (pad_len_range block (len e) Hb).
  rewrite len_app, len_zeros, Z2Nat.id by lia. reflexivity.
Qed.

(* ------------------------------------------------------------------ *)
(** * A2: DES-CBC (RFC 3414 8.1.1) *)

(* shape of a successful DES encryption *)
Lemma des_encrypt_inv : forall k s r boots time k' ct pp,
  installed k -> pk_alg k = PDes -> req_of_pdu (s_pdu s) = Some r -> req_ok r ->
  priv_encrypt k s boots time = (k', Ok (ct, pp)) ->
  let e := enc_scoped (s_engine_id s) r in
  let pt := e ++ zeros (Z.to_nat (pad_len 8 (len e))) in
  k' = {| pk_alg := PDes; pk_key := pk_key k; pk_pre_iv := pk_pre_iv k; pk_salt := wrap32 (pk_salt k + 1) |} /\
  pp = be32 (wrap32 boots) ++ be32 (pk_salt k) /\
  ct = Modes.cbc_encrypt (DES.des_encrypt_block (pk_key k)) 8 (des_iv (pk_key k ++ pk_pre_iv k) pp) pt /\
  len e + 8 <= BUF_MAX_SIZE.
Proof.
  intros k s r boots time k' ct pp Hi Ha Hp Hr H e pt.
  destruct (installed_des k Hi Ha) as (Hkl & Hpl & Hs & Hkw & Hpw).
  unfold priv_encrypt in H. rewrite Ha in H. cbv zeta in H. change DES_BLOCK_SIZE with 8 in H.
  apply pair_equal_spec in H. destruct H as [Hk' Hres].
  destruct (padded_plaintext_cases 8 s r Hp Hr (or_introl eq_refl) _ eq_refl) as [[He Hf]|[He Hf]];
    rewrite He in Hres; cbn [bind] in Hres; [discriminate Hres|].
  apply Ok_inj in Hres. apply pair_equal_spec in Hres. destruct Hres as [Hct Hpp]. subst pp k'. split; [reflexivity|]. split; [reflexivity|]. split; [|exact Hf].
  rewrite <- Hct. rewrite (des_encrypt_iv (pk_key k)) by assumption. reflexivity.
Qed.

Theorem des_encrypt_spec : forall k s r boots time k' ct pp,
  installed k -> pk_alg k = PDes ->
  req_of_pdu (s_pdu s) = Some r -> req_ok r -> wfb (s_engine_id s) -> Forall wfb (req_oids r) ->
  priv_encrypt k s boots time = (k', Ok (ct, pp)) ->
  let e := enc_scoped (s_engine_id s) r in
  let p := pad_len 8 (len e) in
  pp = des_salt (wrap32 boots) (pk_salt k) /\
  len pp = 8 /\
  k' = {| pk_alg := PDes; pk_key := pk_key k; pk_pre_iv := pk_pre_iv k; pk_salt := wrap32 (pk_salt k + 1) |} /\
  0 <= p < 8 /\ (len e + p) mod 8 = 0 /\ len ct = len e + p /\
  Modes.cbc_decrypt (DES.des_decrypt_block (pk_key k)) 8 (des_iv (pk_key k ++ pk_pre_iv k) pp) ct =
  e ++ zeros (Z.to_nat p).
Proof.
  intros k s r boots time k' ct pp Hi Ha Hp Hr Hweid Hwoids H e p.
  destruct (installed_des k Hi Ha) as (Hkl & Hpl & Hs & Hkw & Hpw).
  destruct (des_encrypt_inv k s r boots time k' ct pp Hi Ha Hp Hr H) as (Hk' & Hpp & Hct & Hfit).
  fold e in Hct, Hfit. fold p in Hct.
  assert (Hppl : length pp = 8%nat) by (subst pp; reflexivity).
  assert (Hppw : wfb pp) by (subst pp; apply des_pp_wfb).
  assert (Hew : wfb e).
  { apply wfb_enc_scoped; try assumption. fold e. unfold BUF_MAX_SIZE in Hfit. lia. }
  assert (Hptw : wfb (e ++ zeros (Z.to_nat p))) by (apply wfb_app_intro; [exact Hew|apply wfb_zeros]).
  assert (Hmod : Nat.modulo (length (e ++ zeros (Z.to_nat p))) 8 = 0%nat)
    by (apply (padded_length_mod e 8); lia).
  assert (Hivl : length (des_iv (pk_key k ++ pk_pre_iv k) pp) = 8%nat) by (apply des_iv_length; assumption).
  assert (Hivw : wfb (des_iv (pk_key k ++ pk_pre_iv k) pp)) by (apply des_iv_wfb; assumption).
  split; [rewrite Hpp; apply des_salt_model|].
  split; [unfold len; rewrite Hppl; reflexivity|].
  split; [exact Hk'|].
  split; [apply pad_len_range; lia|].
  split; [apply pad_len_multiple; lia|].
  split.
  - rewrite Hct. unfold len at 1. rewrite des_cbc_encrypt_length; try assumption.
    fold (len (e ++ zeros (Z.to_nat p))). apply (padded_len e 8). lia.
  - rewrite Hct. apply des_cbc_decrypt_encrypt; assumption.
Qed.

(* ------------------------------------------------------------------ *)
(** * A3: AES-128-CFB (RFC 3826 3.1) *)

Lemma aes_pp_drop : forall a b c, dropz 8 (be32 a ++ be32 b ++ c) = c.
Proof. intros a b c. rewrite dropz_skipn by lia. reflexivity. Qed.

Lemma aes_iv_length : forall boots time salt, length salt = 8%nat -> length (aes_iv boots time salt) = 16%nat.
Proof. intros boots time salt H. unfold aes_iv, be32_spec. rewrite !app_length, H. reflexivity. Qed.

Lemma aes_encrypt_inv : forall k s r boots time k' ct pp,
  installed k -> pk_alg k = PAes -> req_of_pdu (s_pdu s) = Some r -> req_ok r ->
  priv_encrypt k s boots time = (k', Ok (ct, pp)) ->
  let e := enc_scoped (s_engine_id s) r in
  let pt := e ++ zeros (Z.to_nat (pad_len 16 (len e))) in
  k' = {| pk_alg := PAes; pk_key := pk_key k; pk_pre_iv := pk_pre_iv k; pk_salt := wrap64 (pk_salt k + 1) |} /\
  pp = be64 (pk_salt k) /\
  ct = Modes.cfb_encrypt (AES.aes128_encrypt_block (pk_key k)) 16 (aes_iv (wrap32 boots) (wrap32 time) pp) pt /\
  len e + 16 <= BUF_MAX_SIZE.
Proof.
  intros k s r boots time k' ct pp Hi Ha Hp Hr H e pt.
  unfold priv_encrypt in H. rewrite Ha in H. cbv zeta in H. change AES_BLOCK_SIZE with 16 in H.
  apply pair_equal_spec in H. destruct H as [Hk' Hres].
  destruct (padded_plaintext_cases 16 s r Hp Hr (or_intror eq_refl) _ eq_refl) as [[He Hf]|[He Hf]];
    rewrite He in Hres; cbn [bind] in Hres; [discriminate Hres|].
  apply Ok_inj in Hres. apply pair_equal_spec in Hres. destruct Hres as [Hct Hpp].
  rewrite aes_pp_drop in Hpp. subst pp k'. split; [reflexivity|]. split; [reflexivity|]. split; [|exact Hf].
  rewrite <- Hct. rewrite aes_iv_model. reflexivity.
Qed.

Theorem aes_encrypt_spec : forall k s r boots time k' ct pp,
  installed k -> pk_alg k = PAes ->
  req_of_pdu (s_pdu s) = Some r -> req_ok r ->
  priv_encrypt k s boots time = (k', Ok (ct, pp)) ->
  let e := enc_scoped (s_engine_id s) r in
  let p := pad_len 16 (len e) in
  pp = be64_spec (pk_salt k) /\
  len pp = 8 /\
  k' = {| pk_alg := PAes; pk_key := pk_key k; pk_pre_iv := pk_pre_iv k; pk_salt := wrap64 (pk_salt k + 1) |} /\
  0 <= p < 16 /\ (len e + p) mod 16 = 0 /\ len ct = len e + p /\
  Modes.cfb_decrypt (AES.aes128_encrypt_block (pk_key k)) 16 (aes_iv (wrap32 boots) (wrap32 time) pp) ct =
  e ++ zeros (Z.to_nat p).
Proof.
  intros k s r boots time k' ct pp Hi Ha Hp Hr H e p.
  destruct (installed_aes k Hi Ha) as (Hkl & Hs & Hkw).
  destruct (aes_encrypt_inv k s r boots time k' ct pp Hi Ha Hp Hr H) as (Hk' & Hpp & Hct & Hfit).
  fold e in Hct, Hfit. fold p in Hct.
  assert (Hppl : length pp = 8%nat) by (subst pp; reflexivity).
  assert (Hivl : length (aes_iv (wrap32 boots) (wrap32 time) pp) = 16%nat) by (apply aes_iv_length; exact Hppl).
  split; [rewrite Hpp; apply be64_eq_spec|].
  split; [unfold len; rewrite Hppl; reflexivity|].
  split; [exact Hk'|].
  split; [apply pad_len_range; lia|].
  split; [apply pad_len_multiple; lia|].
  split.
  - rewrite Hct. unfold len at 1. rewrite aes_cfb_encrypt_length by assumption.
    fold (len (e ++ zeros (Z.to_nat p))). apply (padded_len e 16). lia.
  - rewrite Hct. apply aes_cfb_decrypt_encrypt; assumption.
Qed.

(* ------------------------------------------------------------------ *)
(** * A4: the result depends on the key material, the salt and the arguments only *)

Theorem priv_encrypt_deterministic : forall k1 k2 s boots time,
  pk_alg k1 = pk_alg k2 -> pk_key k1 = pk_key k2 -> pk_pre_iv k1 = pk_pre_iv k2 -> pk_salt k1 = pk_salt k2 ->
  priv_encrypt k1 s boots time = priv_encrypt k2 s boots time.
Proof.
  intros [a1 key1 pre1 salt1] [a2 key2 pre2 salt2] s boots time Ha Hk Hp Hs.
  cbn [pk_alg pk_key pk_pre_iv pk_salt] in *. subst. reflexivity.
Qed.

(* ------------------------------------------------------------------ *)
(** * A5: decryption inverts encryption *)

Lemma req_ok_ids : forall r, req_ok r -> req_ids r.
Proof. intros [id oids|id oids|id nr mr oids] H; exact H. Qed.

Lemma pdu_of_req_of_pdu : forall p r, req_of_pdu p = Some r -> pdu_of_req r = p.
Proof.
  intros [g|g|resp|g|raw] r H; cbn [req_of_pdu] in H; try discriminate H;
    apply (f_equal (fun o => match o with Some x => x | None => r end)) in H; subst r;
    cbn [pdu_of_req]; destruct g; reflexivity.
Qed.

(* agent-to-client direction, DES: whatever multiple of 8 octets the agent encrypted under the RFC 3414 IV
   of the transmitted salt is recovered exactly *)
Theorem des_decrypt_exact : forall k u pt,
  installed k -> pk_alg k = PDes ->
  len (u_privacy_params u) = 8 -> wfb (u_privacy_params u) ->
  wfb pt -> len pt mod 8 = 0 -> len pt <= BUF_MAX_SIZE ->
  priv_decrypt_bytes k
    (Modes.cbc_encrypt (DES.des_encrypt_block (pk_key k)) 8
       (des_iv (pk_key k ++ pk_pre_iv k) (u_privacy_params u)) pt) u = Ok pt.
Proof.
  intros k u pt Hi Ha Hppl Hppw Hptw Hmod Hmax.
  destruct (installed_des k Hi Ha) as (Hkl & Hpl & Hs & Hkw & Hpw).
  apply len_8_length in Hppl.
  assert (Hivl : length (des_iv (pk_key k ++ pk_pre_iv k) (u_privacy_params u)) = 8%nat)
    by (apply des_iv_length; assumption).
  assert (Hivw : wfb (des_iv (pk_key k ++ pk_pre_iv k) (u_privacy_params u))) by (apply des_iv_wfb; assumption).
  assert (Hnmod : Nat.modulo (length pt) 8 = 0%nat) by (apply nat_mod_of_Z; [lia|exact Hmod]).
  unfold priv_decrypt_bytes. rewrite Ha. cbv zeta.
  rewrite (des_decrypt_iv (pk_key k)) by assumption.
  set (iv := des_iv (pk_key k ++ pk_pre_iv k) (u_privacy_params u)) in *.
  set (ct := Modes.cbc_encrypt (DES.des_encrypt_block (pk_key k)) 8 iv pt).
  assert (Hlen : len ct = len pt).
  { unfold ct, len. rewrite des_cbc_encrypt_length by assumption. reflexivity. }
  rewrite Hlen, Hmod. change (0 =? 0) with true. cbn [negb orb].
  destruct (BUF_MAX_SIZE <? len pt) eqn:E; [apply Z.ltb_lt in E; lia|].
  f_equal. unfold ct. apply des_cbc_decrypt_encrypt; assumption.
Qed.

(* agent-to-client direction, AES: any octet string (any length up to the buffer size) *)
Theorem aes_decrypt_exact : forall k u pt,
  installed k -> pk_alg k = PAes ->
  len (u_privacy_params u) = 8 -> len pt <= BUF_MAX_SIZE ->
  priv_decrypt_bytes k
    (Modes.cfb_encrypt (AES.aes128_encrypt_block (pk_key k)) 16
       (aes_iv (wrap32 (u_engine_boots u)) (wrap32 (u_engine_time u)) (u_privacy_params u)) pt) u = Ok pt.
Proof.
  intros k u pt Hi Ha Hppl Hmax.
  destruct (installed_aes k Hi Ha) as (Hkl & Hs & Hkw).
  assert (Hivl : length (aes_iv (wrap32 (u_engine_boots u)) (wrap32 (u_engine_time u)) (u_privacy_params u)) = 16%nat)
    by (apply aes_iv_length, len_8_length; exact Hppl).
  unfold priv_decrypt_bytes. rewrite Ha. rewrite Hppl. change (8 =? AES_KEY_LENGTH - 8) with true.
  cbn [negb]. cbv zeta. rewrite aes_iv_model.
  set (iv := aes_iv (wrap32 (u_engine_boots u)) (wrap32 (u_engine_time u)) (u_privacy_params u)) in *.
  set (ct := Modes.cfb_encrypt (AES.aes128_encrypt_block (pk_key k)) 16 iv pt).
  assert (Hlen : len ct = len pt).
  { unfold ct, len. rewrite aes_cfb_encrypt_length by assumption. reflexivity. }
  rewrite Hlen. destruct (BUF_MAX_SIZE <? len pt) eqn:E; [apply Z.ltb_lt in E; lia|].
  f_equal. unfold ct. apply aes_cfb_decrypt_encrypt; assumption.
Qed.

(* the same with the IV written from the unwrapped boots / time (be32_spec reduces modulo 2^32 by itself) *)
Corollary aes_decrypt_exact_rfc : forall k u pt,
  installed k -> pk_alg k = PAes ->
  len (u_privacy_params u) = 8 -> len pt <= BUF_MAX_SIZE ->
  priv_decrypt_bytes k
    (Modes.cfb_encrypt (AES.aes128_encrypt_block (pk_key k)) 16
       (aes_iv (u_engine_boots u) (u_engine_time u) (u_privacy_params u)) pt) u = Ok pt.
Proof. intros k u pt Hi Ha Hppl Hmax. rewrite <- aes_iv_wrap. apply aes_decrypt_exact; assumption. Qed.

(* the scoped PDU decoder reads one SEQUENCE and ignores whatever follows it (the padding) *)
Theorem scoped_decode_app : forall x pad rest env,
  sequence_from_ber x = Ok (rest, env) -> scoped_decode (x ++ pad) = scoped_decode x.
Proof.
  intros x pad rest env H. unfold scoped_decode. rewrite H. unfold sequence_from_ber in *.
  rewrite (from_ber_app_gen _ _ _ _ _ x pad rest env decode_slice_local H). reflexivity.
Qed.

(* in particular after the reference encoding of a request *)
Lemma scoped_decode_padded : forall s r pad,
  req_of_pdu (s_pdu s) = Some r -> req_ok r -> len (enc_scoped (s_engine_id s) r) < 65536 ->
  scoped_decode (enc_scoped (s_engine_id s) r ++ pad) = Ok {| s_engine_id := s_engine_id s; s_pdu := s_pdu s |}.
Proof.
  intros s r pad Hp Hr Hl. rewrite scoped_decode_enc_scoped_app by (try apply req_ok_ids; assumption).
  rewrite (pdu_of_req_of_pdu _ _ Hp). reflexivity.
Qed.

Theorem des_decrypt_encrypt_msg : forall k s r boots time k' ct pp u,
  installed k -> pk_alg k = PDes ->
  req_of_pdu (s_pdu s) = Some r -> req_ok r -> wfb (s_engine_id s) -> Forall wfb (req_oids r) ->
  priv_encrypt k s boots time = (k', Ok (ct, pp)) ->
  u_privacy_params u = pp ->
  priv_decrypt k' ct u = Ok {| s_engine_id := s_engine_id s; s_pdu := s_pdu s |}.
Proof.
  intros k s r boots time k' ct pp u Hi Ha Hp Hr Hweid Hwoids H Hu.
  destruct (des_encrypt_inv k s r boots time k' ct pp Hi Ha Hp Hr H) as (Hk' & Hpp & Hct & Hfit).
  set (e := enc_scoped (s_engine_id s) r) in *. set (p := pad_len 8 (len e)) in *.
  assert (Hi' : installed k').
  { pose proof (priv_encrypt_installed k s boots time Hi) as Hx. rewrite H in Hx. exact Hx. }
  assert (Ha' : pk_alg k' = PDes) by (subst k'; reflexivity).
  assert (Hkey : pk_key k' = pk_key k) by (subst k'; reflexivity).
  assert (Hpre : pk_pre_iv k' = pk_pre_iv k) by (subst k'; reflexivity).
  subst pp.
  assert (Hppl : len (u_privacy_params u) = 8) by (rewrite Hpp; reflexivity).
  assert (Hppw : wfb (u_privacy_params u)) by (rewrite Hpp; apply des_pp_wfb).
  assert (Hpr : 0 <= p < 8) by (apply pad_len_range; lia).
  assert (Hew : wfb e) by (apply wfb_enc_scoped; try assumption; fold e; unfold BUF_MAX_SIZE in Hfit; lia).
  unfold priv_decrypt. rewrite Hct. rewrite <- Hkey, <- Hpre.
  rewrite des_decrypt_exact; try assumption.
  - cbn [bind]. apply scoped_decode_padded; try assumption. fold e. unfold BUF_MAX_SIZE in Hfit. lia.
  - apply wfb_app_intro; [exact Hew|apply wfb_zeros].
  - unfold p. rewrite (padded_len e 8) by lia. apply pad_len_multiple. lia.
  - unfold p. rewrite (padded_len e 8) by lia. fold p. lia.
Qed.

Theorem aes_decrypt_encrypt_msg : forall k s r boots time k' ct pp u,
  installed k -> pk_alg k = PAes ->
  req_of_pdu (s_pdu s) = Some r -> req_ok r ->
  priv_encrypt k s boots time = (k', Ok (ct, pp)) ->
  u_privacy_params u = pp ->
  wrap32 (u_engine_boots u) = wrap32 boots -> wrap32 (u_engine_time u) = wrap32 time ->
  priv_decrypt k' ct u = Ok {| s_engine_id := s_engine_id s; s_pdu := s_pdu s |}.
Proof.
  intros k s r boots time k' ct pp u Hi Ha Hp Hr H Hu Hb Ht.
  destruct (aes_encrypt_inv k s r boots time k' ct pp Hi Ha Hp Hr H) as (Hk' & Hpp & Hct & Hfit).
  set (e := enc_scoped (s_engine_id s) r) in *. set (p := pad_len 16 (len e)) in *.
  assert (Hi' : installed k').
  { pose proof (priv_encrypt_installed k s boots time Hi) as Hx. rewrite H in Hx. exact Hx. }
  assert (Ha' : pk_alg k' = PAes) by (subst k'; reflexivity).
  assert (Hkey : pk_key k' = pk_key k) by (subst k'; reflexivity).
  subst pp.
  assert (Hppl : len (u_privacy_params u) = 8) by (rewrite Hpp; reflexivity).
  assert (Hpr : 0 <= p < 16) by (apply pad_len_range; lia).
  unfold priv_decrypt. rewrite Hct. rewrite <- Hkey, <- Hb, <- Ht.
  rewrite aes_decrypt_exact; try assumption.
  - cbn [bind]. apply scoped_decode_padded; try assumption. fold e. unfold BUF_MAX_SIZE in Hfit. lia.
  - unfold p. rewrite (padded_len e 16) by lia. fold p. lia.
Qed.

(* ------------------------------------------------------------------ *)
(** * A6: totality of the receive path *)

(* the cipher layer itself never panics, whatever the key state and the input *)
Theorem priv_decrypt_bytes_no_panic : forall k ct u, priv_decrypt_bytes k ct u <> Panic.
Proof.
  intros k ct u. unfold priv_decrypt_bytes. destruct (pk_alg k); cbv zeta.
  - discriminate.
  - destruct (negb (len ct mod 8 =? 0) || (BUF_MAX_SIZE <? len ct)); discriminate.
  - destruct (negb (len (u_privacy_params u) =? AES_KEY_LENGTH - 8)); [discriminate|].
    destruct (BUF_MAX_SIZE <? len ct); discriminate.
Qed.

(* what it hands to the BER decoder is made of octets *)
Theorem priv_decrypt_bytes_wfb : forall k ct u pt,
  installed k -> wfb ct -> (pk_alg k = PDes -> wfb (u_privacy_params u)) ->
  priv_decrypt_bytes k ct u = Ok pt -> wfb pt.
Proof.
  intros k ct u pt Hi Hct Hpp H. unfold priv_decrypt_bytes in H. destruct (pk_alg k) eqn:Ha.
  - discriminate H.
  - cbv zeta in H. destruct (installed_des k Hi Ha) as (Hkl & Hpl & Hs & Hkw & Hpw).
    destruct (negb (len ct mod 8 =? 0) || (BUF_MAX_SIZE <? len ct)); [discriminate H|].
    apply Ok_inj in H. subst pt. apply cbc_decrypt_wfb.
    + intros b. apply des_decrypt_block_wfb.
    + apply wfb_app_intro; [|apply wfb_zeros].
      apply wfb_xor_bytes; [apply wfb_takez; apply Hpp; reflexivity|exact Hpw].
    + exact Hct.
  - cbv zeta in H. destruct (installed_aes k Hi Ha) as (Hkl & Hs & Hkw).
    destruct (negb (len (u_privacy_params u) =? AES_KEY_LENGTH - 8)); [discriminate H|].
    destruct (BUF_MAX_SIZE <? len ct); [discriminate H|].
    apply Ok_inj in H. subst pt. apply cfb_decrypt_wfb.
    + intros b. apply aes128_encrypt_block_wfb. exact Hkw.
    + exact Hct.
Qed.

(* Extra hypothesis with respect to the requested statement: the received msgPrivacyParameters are octets
   (true of every usm record produced by usm_decode on a datagram: usm_decode_wf).  It is only used for DES. *)
Theorem priv_decrypt_no_panic_gen : forall k ct u,
  wfb ct -> (pk_alg k = PDes -> wfb (u_privacy_params u)) -> installed k -> priv_decrypt k ct u <> Panic.
Proof.
  intros k ct u Hct Hpp Hi. unfold priv_decrypt. apply bind_no_panic.
  - apply priv_decrypt_bytes_no_panic.
  - intros pt Hpt. apply scoped_decode_no_panic. eapply priv_decrypt_bytes_wfb; eassumption.
Qed.

Theorem priv_decrypt_no_panic : forall k ct u,
  wfb ct -> wfb (u_privacy_params u) -> installed k -> priv_decrypt k ct u <> Panic.
Proof. intros k ct u Hct Hpp Hi. apply priv_decrypt_no_panic_gen; auto. Qed.

Corollary aes_decrypt_no_panic : forall k ct u,
  wfb ct -> installed k -> pk_alg k = PAes -> priv_decrypt k ct u <> Panic.
Proof.
  intros k ct u Hct Hi Ha. apply priv_decrypt_no_panic_gen; try assumption. rewrite Ha. discriminate.
Qed.

(* the hypothesis is needed for DES: with a privacy-parameter "octet" of -90 the first plaintext block is
   [48; -256; 0; ...], a SEQUENCE header announcing -256 content octets, on which slice_from panics *)
Example priv_decrypt_needs_octet_params :
  let k := {| pk_alg := PDes; pk_key := [0;0;0;0;0;0;0;0]; pk_pre_iv := [0;0;0;0;0;0;0;0]; pk_salt := 0 |} in
  let u := {| u_engine_id := []; u_engine_boots := 0; u_engine_time := 0; u_user_name := [];
              u_auth_params := []; u_privacy_params := [188; -90; 77; 233; 193; 177; 35; 167] |} in
  priv_decrypt_bytes k [0;0;0;0;0;0;0;0] u = Ok [48; -256; 0; 0; 0; 0; 0; 0] /\
  priv_decrypt k [0;0;0;0;0;0;0;0] u = Panic.
Proof. vm_compute. split; reflexivity. Qed.

(* on the receive path of the socket: a decoded datagram never makes the decryption panic *)
Corollary v3_unwrap_no_panic : forall sk d m,
  wfb d -> v3_decode d = Ok m -> installed (privk sk) -> v3_unwrap_panics sk m = false.
Proof.
  intros sk d m Hd Hm Hi. destruct (v3_decode_wf d m Hd Hm) as [Hu Hdata].
  unfold v3_unwrap_panics. destruct (m_data m) as [sc|ct] eqn:Ed; [reflexivity|].
  cbn [msgdata_wf] in Hdata. destruct Hu as (_ & _ & _ & Hpp).
  pose proof (priv_decrypt_no_panic (privk sk) ct (m_usm m) Hdata Hpp Hi) as Hnp.
  destruct (priv_decrypt (privk sk) ct (m_usm m)); [reflexivity|reflexivity|congruence].
Qed.

(* ------------------------------------------------------------------ *)
(** * concrete sanity checks (closed, finite): the hypotheses are satisfiable and the model, run on actual
      inputs, behaves as the theorems say (salt counters about to wrap) *)

Definition ex_scoped : scoped :=
  {| s_engine_id := [128; 0; 1];
     s_pdu := PGetRequest {| g_request_id := 77; g_vars := [[43; 6; 1; 2; 1; 1; 3; 0]] |} |}.
Definition ex_req : req := RGet 77 [[43; 6; 1; 2; 1; 1; 3; 0]].
Definition ex_usm (boots time : Z) (pp : bytes) : usm :=
  {| u_engine_id := [128; 0; 1]; u_engine_boots := boots; u_engine_time := time; u_user_name := [117];
     u_auth_params := []; u_privacy_params := pp |}.

Example des_example :
  let k := {| pk_alg := PDes; pk_key := [1; 2; 3; 4; 5; 6; 7; 8]; pk_pre_iv := [9; 10; 11; 12; 13; 14; 15; 16];
              pk_salt := 4294967295 |} in
  match priv_encrypt k ex_scoped 5 1000 with
  | (k', Ok (ct, pp)) =>
      pk_salt k' = 0 /\ pp = [0; 0; 0; 5; 255; 255; 255; 255] /\ len ct = 40 /\
      Modes.cbc_decrypt (DES.des_decrypt_block (pk_key k)) 8 (des_iv (pk_key k ++ pk_pre_iv k) pp) ct =
        enc_scoped [128; 0; 1] ex_req ++ [0; 0; 0; 0] /\
      priv_decrypt k' ct (ex_usm 5 1000 pp) = Ok ex_scoped
  | _ => False
  end.
Proof. vm_compute. repeat split; reflexivity. Qed.

Example aes_example :
  let k := {| pk_alg := PAes; pk_key := [1; 2; 3; 4; 5; 6; 7; 8; 9; 10; 11; 12; 13; 14; 15; 16]; pk_pre_iv := [];
              pk_salt := 18446744073709551615 |} in
  match priv_encrypt k ex_scoped (4294967296 + 5) 1000 with
  | (k', Ok (ct, pp)) =>
      pk_salt k' = 0 /\ pp = [255; 255; 255; 255; 255; 255; 255; 255] /\ len ct = 48 /\
      Modes.cfb_decrypt (AES.aes128_encrypt_block (pk_key k)) 16 (aes_iv 5 1000 pp) ct =
        enc_scoped [128; 0; 1] ex_req ++ [0; 0; 0; 0; 0; 0; 0; 0; 0; 0; 0; 0] /\
      priv_decrypt k' ct (ex_usm 5 1000 pp) = Ok ex_scoped /\
      (* a reply whose msgPrivacyParameters is not 8 octets long is dropped, not a panic *)
      priv_decrypt k' ct (ex_usm 5 1000 [1; 2; 3]) = Err InvalidKey
  | _ => False
  end.
Proof. vm_compute. repeat split; reflexivity. Qed.

(* the octet hypotheses of des_encrypt_spec are needed: DES reads an "octet" of 256 as 0, so a context
   engine id that is not an octet string does not survive the round trip (in the Rust code every element is a u8) *)
Example des_encrypt_needs_octets :
  let k := {| pk_alg := PDes; pk_key := [1; 2; 3; 4; 5; 6; 7; 8]; pk_pre_iv := [9; 10; 11; 12; 13; 14; 15; 16];
              pk_salt := 7 |} in
  let s := {| s_engine_id := [256]; s_pdu := PGetRequest {| g_request_id := 77; g_vars := [] |} |} in
  match priv_encrypt k s 5 1000 with
  | (_, Ok (ct, pp)) =>
      nth 4 (Modes.cbc_decrypt (DES.des_decrypt_block (pk_key k)) 8 (des_iv (pk_key k ++ pk_pre_iv k) pp) ct) 0 = 0 /\
      nth 4 (enc_scoped [256] (RGet 77 [])) 0 = 256
  | _ => False
  end.
Proof. vm_compute. split; reflexivity. Qed.

(* ------------------------------------------------------------------ *)
(* Print Assumptions (observed with coqc 8.16.1): each prints "Closed under the global context"
     priv_as_localized_installed priv_encrypt_installed padded_plaintext_spec padded_plaintext_out_of_buffer
     wfb_enc_scoped aes128_encrypt_block_wfb des_encrypt_spec aes_encrypt_spec priv_encrypt_deterministic
     des_decrypt_exact aes_decrypt_exact aes_decrypt_exact_rfc scoped_decode_app des_decrypt_encrypt_msg aes_decrypt_encrypt_msg
     priv_decrypt_bytes_no_panic priv_decrypt_bytes_wfb priv_decrypt_no_panic aes_decrypt_no_panic
     v3_unwrap_no_panic *)

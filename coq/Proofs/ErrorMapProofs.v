(* Facts about the generated error map (Gen/ErrorMap.v, regenerated from src/error.rs on every run). *)
From GS Require Import Model.Base Model.Exc Gen.ErrorMap.

Lemma error_classes :
  forall e : err, In (err_to_exc e)
    [EDecode; EEncode; EAuth; ENoSuchInstance; EValue; ETimeout; EBlockingIO; EOSError; ENotImplemented] /\
  (In e [Incomplete; UnexpectedTag; InvalidTagFormat; UnknownPdu; InvalidPdu; InvalidData; UnsupportedTag; TrailingData;
         InvalidVersion; UnknownSecurityModel] -> err_to_exc e = EDecode).
Proof.
  intros e. split.
  - destruct e; cbn; tauto.
  - destruct e; cbn; intros H; try reflexivity; repeat (destruct H as [H|H]; [discriminate|]); contradiction.
Qed.

(* the SnmpError family: classes derived from gufo.snmp.SnmpError *)
Definition is_snmp_error (x : exc) : Prop := x = ESnmpError \/ exc_parent x = Some ESnmpError.
Lemma snmp_error_family :
  is_snmp_error EDecode /\ is_snmp_error EEncode /\ is_snmp_error EAuth /\ is_snmp_error ENoSuchInstance /\
  exc_parent ESnmpError = Some EException.
Proof. unfold is_snmp_error; cbn; repeat split; auto. Qed.

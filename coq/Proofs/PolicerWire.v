(* What the rate limiter means on the wire.  A request is put on the wire at some moment between its release by the
   policer and the moment the next request is asked for (the session sends, waits for the reply, hands it to the caller,
   and only then is asked again: Model/PyLayer.v, [well_policed] - one consultation per request, before its send).  So
   the datagrams of requests i < j are more than (j - i - 2) intervals apart, and any n of them take more than
   (n - 3) intervals: the long-run rate on the wire never exceeds rps.  [Gen.Policer] is regenerated on every run. *)
From Coq Require Import ZArith List Lia Bool ZifyBool.
From GS Require Import Gen.Policer Model.PolicerRun Proofs.PolicerProofs.
Import ListNotations.
Open Scope Z_scope.

(* whatever conditionals the generated [sleep_of] contains (see [break_ifs] in PolicerProofs) *)
Lemma sleep_of_nonneg o : 0 <= sleep_of o.
Proof. unfold sleep_of. destruct o as [d|]; break_ifs; lia. Qed.

(* request i+1 is released no earlier than it was asked for, which is [Z.abs g_i] after release i *)
Lemma run_next : forall gs st last i ri gi,
  nth_error (last :: run st last gs) i = Some ri -> nth_error gs i = Some gi ->
  exists r', nth_error (run st last gs) i = Some r' /\ ri + Z.abs gi <= r'.
Proof.
  induction gs as [|g gs IH]; intros st last i ri gi Hr Hg.
  - destruct i; discriminate Hg.
  - cbn [run]. unfold release. destruct (get_timeout st (last + Z.abs g)) as [st' o] eqn:E.
    destruct i as [|k].
    + cbn in Hr, Hg. inversion Hr; inversion Hg; subst. eexists. split; [reflexivity|].
      pose proof (sleep_of_nonneg o). lia.
    + cbn [nth_error] in Hr, Hg |- *. cbn [run] in Hr. unfold release in Hr. rewrite E in Hr.
      apply (IH st' _ k ri gi Hr Hg).
Qed.

Lemma history_next st0 t0 gaps i ri gi :
  nth_error (history st0 t0 gaps) i = Some ri -> nth_error gaps i = Some gi ->
  exists r', nth_error (history st0 t0 gaps) (S i) = Some r' /\ ri + Z.abs gi <= r'.
Proof.
  unfold history. destruct (release st0 t0) as [st1 r0]. intros Hr Hg. cbn [nth_error]. apply (run_next gaps st1 r0 i ri gi Hr Hg).
Qed.

(* [wi], [wj]: when the datagrams of requests i and j left *)
Theorem wire_window q st0 t0 gaps :
  init false q = Some st0 -> 0 <= q ->
  forall i j ri rj gi wi wj, (i < j)%nat ->
  nth_error (history st0 t0 gaps) i = Some ri ->
  nth_error (history st0 t0 gaps) j = Some rj ->
  nth_error gaps i = Some gi ->
  ri <= wi <= ri + Z.abs gi -> rj <= wj ->
  wj - wi > (Z.of_nat j - Z.of_nat i - 2) * q.
Proof.
  intros Hi Hq i j ri rj gi wi wj Hij Hri Hrj Hgi Hwi Hwj.
  destruct (history_next st0 t0 gaps i ri gi Hri Hgi) as (r' & Hr' & Hle).
  assert (0 < q) as Hq'.
  { destruct ctor_refuses as (_ & _ & H). destruct (H false q st0 Hi Hq) as (_ & _ & H'). exact H'. }
  destruct (Nat.eq_dec j (S i)) as [->|Hne].
  - rewrite Hr' in Hrj. inversion Hrj; subst r'. nia.
  - pose proof (window_bound q st0 t0 gaps Hi Hq (S i) j r' rj ltac:(lia) Hr' Hrj) as W. nia.
Qed.

(* non-vacuity: rps = 4 (interval 250 ms), five requests asked as fast as possible, each datagram leaving 1 ms after its release *)
Example wire_window_example :
  let q := 250000000 in
  exists st0, init false q = Some st0 /\
  history st0 0 [1000000; 1000000; 1000000; 1000000] = [0; 250000000; 500000000; 750000000; 1000000000].
Proof. eexists. split; [reflexivity|]. vm_compute. reflexivity. Qed.

(* The blocking and the asyncio client are the same function of what the socket says: on every script in which no
   socket call finds the socket busy and no timer fires (the wait loops are the subject of C18), every API call of the
   asyncio SnmpSession - send half answered at once, receive half given the blocking call's result - yields the items,
   the outcome (StopIteration read as StopAsyncIteration), the unread rest and the number of policer consultations of
   the blocking SnmpSession.  Model/PyLayer.v; used by C05 ("the same for the sync and async clients"). *)
From GS Require Import Model.Base Model.Exc Model.Walk Model.PyLayer Proofs.PyLayerProofs.
From Coq Require Import Lia.

(* a socket result that neither client turns into waiting: not BlockingIOError, not the timer; StopIteration is never
   raised by the socket classes (they raise StopAsyncIteration) *)
Definition plain_tok (t : tok) : bool :=
  match t with
  | TRet _ => true
  | TRaise EBlockingIO => false
  | TRaise EStopIteration => false
  | TRaise _ => true
  | TTimeout => false
  end.

(* the asyncio client's view of the same exchange: send_xxx() returns None, recv_xxx() gives the result *)
Fixpoint lift (s : list tok) : list tok :=
  match s with
  | [] => []
  | t :: r => TRet (SvObj 0) :: t :: lift r
  end.

Definition as_async (o : pyout) : pyout :=
  match o with
  | PRaise EStopIteration => PRaise EStopAsyncIteration
  | o' => o'
  end.

Definition with_mode (cfg : pycfg) (m : mode) : pycfg :=
  {| pc_mode := m; pc_policer := pc_policer cfg; pc_version := pc_version cfg; pc_allow_bulk := pc_allow_bulk cfg;
     pc_max_rep := pc_max_rep cfg |}.

Lemma count_police_police pol : count_police (police pol) = if pol then 1%nat else 0%nat.
Proof. destruct pol; reflexivity. Qed.

(* one exchange *)
Lemma call_same : forall pol iter m a ms mr asend arecv s,
  forallb plain_tok s = true ->
  let '(es, os, rs) := sync_call pol iter m a s in
  let '(ea, oa, ra) := a_call pol ms mr asend arecv (lift s) in
  oa = (if iter then as_async os else os) /\ ra = lift rs /\ forallb plain_tok rs = true /\
  count_police ea = count_police es /\
  (iter = false -> os <> PRaise EStopIteration).
Proof.
  intros pol iter m a ms mr asend arecv s Hs. destruct s as [|t r].
  - cbn. repeat split; try (destruct iter; reflexivity).
    + rewrite !count_police_app. reflexivity.
    + intros _ H; discriminate H.
  - cbn [forallb] in Hs. apply andb_prop in Hs. destruct Hs as [Ht Hr].
    unfold sync_call, a_call. cbn [lift a_send].
    destruct t as [v|e|]; try discriminate Ht.
    + cbn [a_recv remap_sync]. repeat split; try assumption.
      * destruct iter; reflexivity.
      * rewrite !count_police_app. cbn [count_police]. lia.
      * intros _ H; discriminate H.
    + destruct e; try discriminate Ht; cbn [a_recv remap_sync as_async];
        (repeat split; try assumption;
         [ destruct iter; reflexivity
         | rewrite !count_police_app; cbn [count_police]; lia
         | intros Hi H; try discriminate H; subst iter; discriminate H ]).
Qed.

Lemma pop_same : forall buf,
  let '(os, bs) := pop_or_stop EStopIteration buf in
  let '(oa, ba) := pop_or_stop EStopAsyncIteration buf in
  oa = as_async os /\ ba = bs.
Proof. intros [|[v|] r]; cbn; split; reflexivity. Qed.

Lemma take_reply_same : forall es ea os r,
  let '(es', os', bs, rs) := take_reply EStopIteration es os r in
  let '(ea', oa', ba, ra) := take_reply EStopAsyncIteration ea (as_async os) (lift r) in
  oa' = as_async os' /\ ba = bs /\ rs = r /\ ra = lift r /\ ea' = ea /\ es' = es.
Proof.
  intros es ea os r. destruct os as [[i|l]|e| |]; cbn [take_reply as_async].
  - repeat split.
  - destruct l as [|x l'].
    + repeat split.
    + pose proof (pop_same (x :: l')) as P.
      destruct (pop_or_stop EStopIteration (x :: l')) as [o1 b1]. destruct (pop_or_stop EStopAsyncIteration (x :: l')) as [o2 b2].
      destruct P as [-> ->]. repeat split.
  - destruct e; cbn [take_reply]; repeat split.
  - repeat split.
  - repeat split.
Qed.

(* one step of either kind of iterator *)
Lemma bulk_next_same : forall pol buf s,
  forallb plain_tok s = true ->
  let '(es, os, bs, rs) := sync_bulk_next pol buf s in
  let '(ea, oa, ba, ra) := async_bulk_next pol buf (lift s) in
  oa = as_async os /\ ba = bs /\ ra = lift rs /\ forallb plain_tok rs = true /\ count_police ea = count_police es.
Proof.
  intros pol buf s Hs. unfold sync_bulk_next, async_bulk_next. destruct buf as [|x b].
  - pose proof (call_same pol true MGetBulk ACtx MSendGetBulk MRecvGetBulk ACtx ACtx s Hs) as C.
    destruct (sync_call pol true MGetBulk ACtx s) as [[es os] rs].
    destruct (a_call pol MSendGetBulk MRecvGetBulk ACtx ACtx (lift s)) as [[ea oa] ra].
    destruct C as (-> & -> & Hp & Hc & _).
    pose proof (take_reply_same es ea os rs) as T.
    destruct (take_reply EStopIteration es os rs) as [[[es' os'] bs] rs'].
    destruct (take_reply EStopAsyncIteration ea (as_async os) (lift rs)) as [[[ea' oa'] ba] ra'].
    destruct T as (-> & -> & -> & -> & -> & ->). repeat split; assumption.
  - pose proof (pop_same (x :: b)) as P.
    destruct (pop_or_stop EStopIteration (x :: b)) as [o1 b1]. destruct (pop_or_stop EStopAsyncIteration (x :: b)) as [o2 b2].
    destruct P as [-> ->]. repeat split. exact Hs.
Qed.

Lemma next_next_same : forall pol buf s,
  forallb plain_tok s = true ->
  let '(es, os, bs, rs) := sync_next_next pol buf s in
  let '(ea, oa, ba, ra) := async_next_next pol buf (lift s) in
  oa = as_async os /\ ba = bs /\ ra = lift rs /\ forallb plain_tok rs = true /\ count_police ea = count_police es.
Proof.
  intros pol buf s Hs. unfold sync_next_next, async_next_next.
  pose proof (call_same pol true MGetNext ACtx MSendGetNext MRecvGetNext ACtx ACtx s Hs) as C.
  destruct (sync_call pol true MGetNext ACtx s) as [[es os] rs].
  destruct (a_call pol MSendGetNext MRecvGetNext ACtx ACtx (lift s)) as [[ea oa] ra].
  destruct C as (-> & -> & Hp & Hc & _). repeat split; assumption.
Qed.

(* `for item in it` / `async for item in it` *)
Definition same_step (ns na : list (option Z) -> list tok -> list ev * pyout * list (option Z) * list tok) : Prop :=
  forall buf s, forallb plain_tok s = true ->
  let '(es, os, bs, rs) := ns buf s in
  let '(ea, oa, ba, ra) := na buf (lift s) in
  oa = as_async os /\ ba = bs /\ ra = lift rs /\ forallb plain_tok rs = true /\ count_police ea = count_police es.

Lemma iterate_same : forall ns na, same_step ns na -> forall fuel buf s evs eva items,
  forallb plain_tok s = true -> count_police eva = count_police evs ->
  let rs := iterate fuel ns buf s evs items in
  let ra := iterate fuel na buf (lift s) eva items in
  r_items ra = r_items rs /\ r_end ra = as_async (r_end rs) /\ r_rest ra = lift (r_rest rs) /\
  count_police (r_events ra) = count_police (r_events rs).
Proof.
  intros ns na H fuel. induction fuel as [|f IH]; intros buf s evs eva items Hs Hc; cbn [iterate].
  - cbn. repeat split. exact Hc.
  - pose proof (H buf s Hs) as St.
    destruct (ns buf s) as [[[es os] bs] rs0]. destruct (na buf (lift s)) as [[[ea oa] ba] ra0].
    destruct St as (-> & -> & -> & Hp & Hce).
    assert (count_police (eva ++ ea) = count_police (evs ++ es)) as Hc' by (rewrite !count_police_app, Hc, Hce; reflexivity).
    destruct os as [[v|l]|e| |]; cbn [as_async].
    + apply IH; assumption.
    + cbn. repeat split. exact Hc'.
    + destruct e; cbn; repeat split; exact Hc'.
    + cbn. repeat split. exact Hc'.
    + cbn. repeat split. exact Hc'.
Qed.

(* every API call *)
Theorem sync_async_same : forall cfg fuel a s,
  forallb plain_tok s = true ->
  let rs := run_api (with_mode cfg Sync) fuel a s in
  let ra := run_api (with_mode cfg Async) fuel a (lift s) in
  r_items ra = r_items rs /\ r_end ra = as_async (r_end rs) /\ r_rest ra = lift (r_rest rs) /\
  count_police (r_events ra) = count_police (r_events rs).
Proof.
  intros cfg fuel a s Hs.
  assert (forall pol, same_step (sync_bulk_next pol) (async_bulk_next pol)) as Sb by (intros pol buf q Hq; apply bulk_next_same; exact Hq).
  assert (forall pol, same_step (sync_next_next pol) (async_next_next pol)) as Sn by (intros pol buf q Hq; apply next_next_same; exact Hq).
  assert (forall m x ms mr y z,
    let rs := single (sync_call (pc_policer cfg) false m x s) in
    let ra := single (a_call (pc_policer cfg) ms mr y z (lift s)) in
    r_items ra = r_items rs /\ r_end ra = as_async (r_end rs) /\ r_rest ra = lift (r_rest rs) /\
    count_police (r_events ra) = count_police (r_events rs)) as Sg.
  { intros m x ms mr y z. pose proof (call_same (pc_policer cfg) false m x ms mr y z s Hs) as C.
    destruct (sync_call (pc_policer cfg) false m x s) as [[es os] rs0].
    destruct (a_call (pc_policer cfg) ms mr y z (lift s)) as [[ea oa] ra0].
    destruct C as (-> & -> & _ & Hc & Hn). cbn. repeat split; try exact Hc.
    specialize (Hn eq_refl). destruct os as [v|e| |]; try reflexivity. destruct e; try reflexivity. contradiction Hn; reflexivity. }
  destruct a as [oid|oids|oid|oid req|oid]; cbn [run_api with_mode pc_mode pc_policer pc_version pc_allow_bulk pc_max_rep].
  - apply Sg.
  - apply Sg.
  - unfold walk_next_api. cbn [with_mode pc_mode pc_policer]. apply iterate_same; [apply Sn | exact Hs | reflexivity].
  - unfold walk_bulk_api. cbn [with_mode pc_mode pc_policer pc_max_rep]. apply iterate_same; [apply Sb | exact Hs | reflexivity].
  - destruct (session_allow_bulk (pc_version cfg) (pc_allow_bulk cfg)).
    + unfold walk_bulk_api. cbn [with_mode pc_mode pc_policer pc_max_rep]. apply iterate_same; [apply Sb | exact Hs | reflexivity].
    + unfold walk_next_api. cbn [with_mode pc_mode pc_policer]. apply iterate_same; [apply Sn | exact Hs | reflexivity].
Qed.

(* the premise is satisfiable and the statement says something: a GetBulk walk of two replies *)
Example sync_async_example :
  let cfg := {| pc_mode := Sync; pc_policer := true; pc_version := V2c; pc_allow_bulk := true; pc_max_rep := 10 |} in
  let s := [TRet (SvList [Some 1; Some 2]); TRet (SvList [Some 3; None])] in
  forallb plain_tok s = true /\
  r_items (run_api (with_mode cfg Async) 10 (ApiGetBulk [43] None) (lift s)) = [1; 2; 3] /\
  r_end (run_api (with_mode cfg Async) 10 (ApiGetBulk [43] None) (lift s)) = PRaise EStopAsyncIteration /\
  r_end (run_api (with_mode cfg Sync) 10 (ApiGetBulk [43] None) s) = PRaise EStopIteration.
Proof. vm_compute. repeat split. Qed.

(* ---------------------------------------------------------------- programs ---------------------------------------- *)
(* the same for programs: several iterators and single calls interleaved on one session, iterators used again after they
   raised or abandoned half-way *)
Lemma new_iter_mode cfg m a : new_iter (with_mode cfg m) a = new_iter cfg a.
Proof. destruct a; reflexivity. Qed.

Lemma next_of_same cfg bulk : same_step (next_of (with_mode cfg Sync) bulk) (next_of (with_mode cfg Async) bulk).
Proof.
  intros buf s Hs. unfold next_of. cbn [with_mode pc_mode pc_policer]. destruct bulk.
  - apply bulk_next_same; exact Hs.
  - apply next_next_same; exact Hs.
Qed.

Lemma rev_bad outs : rev (PBadScript :: map as_async outs) = map as_async (rev (PBadScript :: outs)).
Proof. rewrite map_rev. reflexivity. Qed.

Theorem prog_sync_async_same : forall cfg p its s evs eva outs,
  forallb plain_tok s = true -> count_police eva = count_police evs ->
  let '(es, os, rs) := run_prog (with_mode cfg Sync) p its s evs outs in
  let '(ea, oa, ra) := run_prog (with_mode cfg Async) p its (lift s) eva (map as_async outs) in
  oa = map as_async os /\ ra = lift rs /\ count_police ea = count_police es.
Proof.
  intros cfg p. induction p as [|c r IH]; intros its s evs eva outs Hs Hc; cbn [run_prog].
  - rewrite map_rev. repeat split. exact Hc.
  - destruct c as [a|a|i].
    + destruct a as [oid|oids|oid|oid req|oid];
        try (rewrite rev_bad; repeat split; exact Hc).
      * pose proof (sync_async_same cfg 0 (ApiGet oid) s Hs) as S. cbv zeta in S. destruct S as (_ & S2 & S3 & S4).
        rewrite S3.
        replace (r_end (run_api (with_mode cfg Async) 0 (ApiGet oid) (lift s)) :: map as_async outs)
          with (map as_async (r_end (run_api (with_mode cfg Sync) 0 (ApiGet oid) s) :: outs)) by (cbn [map]; rewrite S2; reflexivity).
        apply IH.
        -- clear - Hs. cbn [run_api with_mode pc_mode]. unfold single, sync_call. destruct s as [|t q]; [reflexivity|].
           cbn [r_rest]. cbn [forallb] in Hs. apply andb_prop in Hs. exact (proj2 Hs).
        -- rewrite !count_police_app, Hc, S4. reflexivity.
      * pose proof (sync_async_same cfg 0 (ApiGetMany oids) s Hs) as S. cbv zeta in S. destruct S as (_ & S2 & S3 & S4).
        rewrite S3.
        replace (r_end (run_api (with_mode cfg Async) 0 (ApiGetMany oids) (lift s)) :: map as_async outs)
          with (map as_async (r_end (run_api (with_mode cfg Sync) 0 (ApiGetMany oids) s) :: outs)) by (cbn [map]; rewrite S2; reflexivity).
        apply IH.
        -- clear - Hs. cbn [run_api with_mode pc_mode]. unfold single, sync_call. destruct s as [|t q]; [reflexivity|].
           cbn [r_rest]. cbn [forallb] in Hs. apply andb_prop in Hs. exact (proj2 Hs).
        -- rewrite !count_police_app, Hc, S4. reflexivity.
    + rewrite !new_iter_mode. destruct (new_iter cfg a) as [[e st]|].
      * change (PRet (SvObj 0) :: map as_async outs) with (map as_async (PRet (SvObj 0) :: outs)). apply IH; [exact Hs|].
        rewrite !count_police_app, Hc. reflexivity.
      * rewrite rev_bad. repeat split. exact Hc.
    + destruct (nth_error its i) as [st|].
      * pose proof (next_of_same cfg (it_bulk st) (it_buf st) s Hs) as N.
        destruct (next_of (with_mode cfg Sync) (it_bulk st) (it_buf st) s) as [[[es os] bs] rs0].
        destruct (next_of (with_mode cfg Async) (it_bulk st) (it_buf st) (lift s)) as [[[ea oa] ba] ra0].
        destruct N as (-> & -> & -> & Hp & Hce).
        change (as_async os :: map as_async outs) with (map as_async (os :: outs)). apply IH; [exact Hp|].
        rewrite !count_police_app, Hc, Hce. reflexivity.
      * rewrite rev_bad. repeat split. exact Hc.
Qed.

Corollary prog_sync_async_same_top : forall cfg p s,
  forallb plain_tok s = true ->
  snd (fst (run_prog (with_mode cfg Async) p [] (lift s) [] [])) = map as_async (snd (fst (run_prog (with_mode cfg Sync) p [] s [] []))) /\
  snd (run_prog (with_mode cfg Async) p [] (lift s) [] []) = lift (snd (run_prog (with_mode cfg Sync) p [] s [] [])) /\
  count_police (fst (fst (run_prog (with_mode cfg Async) p [] (lift s) [] []))) =
  count_police (fst (fst (run_prog (with_mode cfg Sync) p [] s [] []))).
Proof.
  intros cfg p s Hs. pose proof (prog_sync_async_same cfg p [] s [] [] [] Hs eq_refl) as H. cbn [map] in H.
  destruct (run_prog (with_mode cfg Sync) p [] s [] []) as [[es os] rs].
  destruct (run_prog (with_mode cfg Async) p [] (lift s) [] []) as [[ea oa] ra]. exact H.
Qed.

Example prog_sync_async_example :
  let cfg := {| pc_mode := Sync; pc_policer := true; pc_version := V2c; pc_allow_bulk := true; pc_max_rep := 10 |} in
  let s := [TRet (SvList [Some 1; Some 2]); TRet (SvObj 7); TRaise ETimeout; TRet (SvList [None])] in
  let p := [CNew (ApiGetBulk [43] None); CNext 0; CCall (ApiGet [43]); CNext 0; CNew (ApiGetNext [43]); CNext 1; CNext 0; CNext 0] in
  forallb plain_tok s = true /\
  snd (fst (run_prog (with_mode cfg Sync) p [] s [] [])) =
    [PRet (SvObj 0); PRet (SvObj 1); PRet (SvObj 7); PRet (SvObj 2); PRet (SvObj 0); PRaise ETimeout; PRaise EStopIteration; PBadScript].
Proof. vm_compute. split; reflexivity. Qed.

(* Extraction of the SNMPv3 model (auth, privacy, socket) for the correspondence checks (ExtrOcamlBasic only). *)
From Coq Require Import Extraction ExtrOcamlBasic ZArith List.
From GS Require Import Model.Base Gen.Constants Model.Ber Model.Pdu Model.Buffer Model.Exc Gen.ErrorMap Model.Ops
  Model.Auth Model.Priv Model.V3 Model.OidText Model.Emit Model.Session.
From GS Require Model.Crypto.DES Model.Crypto.AES Model.Crypto.Modes Model.Crypto.MD5 Model.Crypto.SHA1.
Extraction Language OCaml.
Extraction "../ocaml/v3_model.ml"
  auth_new as_key_type alg_p2m alg_localize alg_sign get_master_key get_localized_key key_size
  priv_new priv_as_localized priv_encrypt priv_decrypt priv_decrypt_bytes
  v3_new v3_set_keys v3_set_keys_st with_user v3_push_pdu v3_unwrap v3_recv_loop with_request_id next_id install_keys
  v3_decode scoped_decode pdu_decode push_scoped empty_buffer
  Modes.cbc_encrypt Modes.cbc_decrypt Modes.cfb_encrypt Modes.cfb_decrypt DES.des_encrypt_block DES.des_decrypt_block
  AES.aes128_encrypt_block MD5.md5 SHA1.sha1
  get_to_python err_to_exc
  session_new py_refresh user_auth_alg user_auth_key user_priv_alg user_priv_key require_auth
  Z.add Z.mul Z.sub Z.opp Z.div_eucl Z.of_nat Z.compare Z.to_nat.

(* OID text <-> BER content octets (src/ber/objectid.rs): TryFrom<&str>, TryFrom<&SnmpOid> for String,
   starts_with, is_after. Text is a list of ASCII codes. *)
From GS Require Import Model.Base Gen.Constants Model.Ber.

Definition DOT : Z := 46.

(* str::split(".") *)
Fixpoint split_dot (l : bytes) (cur : bytes) : list bytes :=
  match l with
  | [] => [rev cur]
  | c :: r => if c =? DOT then rev cur :: split_dot r [] else split_dot r (c :: cur)
  end.

(* u32::from_str : '+'? digit+ , value <= u32::MAX *)
Definition parse_u32 (p : bytes) : option Z :=
  let ds := match p with 43 :: r => r | _ => p end in
  match ds with
  | [] => None
  | _ => if all_digits ds then
           let v := digits_value ds in
           if v <=? 4294967295 then Some v else None
         else None
  end.

Definition enc_subid (s : Z) : bytes :=
  if s <=? 127 then [s]
  else if s <=? 16383 then [Z.lor (wrap8 (Z.shiftr s 7)) 128; Z.land (wrap8 s) 127]
  else if s <=? 2097151 then
    [Z.lor (wrap8 (Z.shiftr s 14)) 128; Z.lor (Z.land (wrap8 (Z.shiftr s 7)) 127) 128; Z.land (wrap8 s) 127]
  else if s <=? 268435455 then
    [Z.lor (wrap8 (Z.shiftr s 21)) 128; Z.lor (Z.land (wrap8 (Z.shiftr s 14)) 127) 128;
     Z.lor (Z.land (wrap8 (Z.shiftr s 7)) 127) 128; Z.land (wrap8 s) 127]
  else
    [Z.lor (wrap8 (Z.shiftr s 28)) 128; Z.lor (Z.land (wrap8 (Z.shiftr s 21)) 127) 128;
     Z.lor (Z.land (wrap8 (Z.shiftr s 14)) 127) 128; Z.lor (Z.land (wrap8 (Z.shiftr s 7)) 127) 128;
     Z.land (wrap8 s) 127].

Fixpoint enc_rest (parts : list bytes) : res bytes :=
  match parts with
  | [] => Ok []
  | p :: r => match parse_u32 p with
              | None => Err InvalidData
              | Some s => t <- enc_rest r ;; Ok (enc_subid s ++ t)
              end
  end.

Definition oid_of_text (s : bytes) : res bytes :=
  match split_dot s [] with
  | p1 :: rest =>
    match parse_u32 p1 with
    | None => Err InvalidData
    | Some first =>
      match rest with
      | [] => Err InvalidData
      | p2 :: rest' =>
        match parse_u32 p2 with
        | None => Err InvalidData
        | Some second =>
          if (2 <? first) || (39 <? second) then Err InvalidData else
          t <- enc_rest rest' ;; Ok (wrap8 (40 * first + second) :: t)
        end
      end
    end
  | [] => Err InvalidData
  end.

(* decimal rendering of a non-negative number *)
Fixpoint dec_loop (fuel : nat) (z : Z) (acc : bytes) : bytes :=
  match fuel with
  | O => acc
  | S f => let acc' := (48 + z mod 10) :: acc in
           if z <? 10 then acc' else dec_loop f (z / 10) acc'
  end.
Definition dec (z : Z) : bytes := dec_loop 24 z [].
Definition dec_signed (z : Z) : bytes := if z <? 0 then 45 :: dec (- z) else dec z.

(* the accumulator is a u64 guarded at 2^32-1 (RFC 2578 sub-identifier range): nothing wraps below the guard *)
Fixpoint print_rest (l : bytes) (b : Z) : res bytes :=
  match l with
  | [] => Ok []
  | c :: r => let b' := b * 128 + Z.land c 127 in
              if 4294967295 <? b' then Err InvalidData
              else if Z.land c 128 =? 0 then t <- print_rest r 0 ;; Ok (DOT :: dec b' ++ t) else print_rest r b'
  end.

Definition text_of_oid (o : bytes) : res bytes :=
  match o with
  | [] => Err InvalidData
  | first :: r => t <- print_rest r 0 ;; Ok (dec (first / 40) ++ DOT :: dec (first mod 40) ++ t)
  end.

(* subidentifiers / is_after (the order of a MIB walk) *)
Fixpoint subids (l : bytes) (b : Z) : list Z :=
  match l with
  | [] => []
  | c :: r => let b' := wrap64 (Z.lor (b * 128) (Z.land c 127)) in
              if Z.land c 128 =? 0 then b' :: subids r 0 else subids r b'
  end.
(* Vec<u64> comparison a > b *)
Fixpoint list_gt (a b : list Z) : bool :=
  match a, b with
  | [], _ => false
  | _ :: _, [] => true
  | x :: a', y :: b' => if y <? x then true else if x <? y then false else list_gt a' b'
  end.
Definition is_after (a b : bytes) : bool := list_gt (subids a 0) (subids b 0).

Definition ip_text (a b c d : Z) : bytes := dec a ++ DOT :: dec b ++ DOT :: dec c ++ DOT :: dec d.

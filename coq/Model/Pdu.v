(* PDU and message decoding: src/snmp/get.rs getbulk.rs getresponse.rs pdu.rs report.rs and src/snmp/msg *)
From GS Require Import Model.Base Gen.Constants Model.Ber.

Record varbind := { vb_oid : bytes; vb_value : value }.

Record getresponse := { gr_request_id : Z; gr_error_status : Z; gr_error_index : Z; gr_vars : list varbind }.
Record getreq := { g_request_id : Z; g_vars : list bytes }.
Record getbulk := { gb_request_id : Z; gb_non_repeaters : Z; gb_max_repetitions : Z; gb_vars : list bytes }.

Inductive pdu :=
| PGetRequest (g : getreq)
| PGetNextRequest (g : getreq)
| PGetResponse (r : getresponse)
| PGetBulkRequest (b : getbulk)
| PReport (raw : bytes).

(* the `while !v_tail.is_empty()` loops: every iteration consumes at least a header,
   so fuel = length of the varbind list octets is never exhausted (proved) *)
Fixpoint resp_vars (fuel : nat) (v_tail : bytes) (acc : list varbind) : res (list varbind) :=
  match v_tail with
  | [] => Ok (rev acc)
  | _ =>
    match fuel with
    | O => Panic
    | S fuel' =>
      '(rest, vs) <- sequence_from_ber v_tail ;;
      match vs with
      | [] => Err Incomplete
      | t0 :: _ =>
        '(tail, oid) <-
          (if t0 =? TAG_OBJECT_ID then oid_from_ber vs
           else if t0 =? TAG_RELATIVE_OID then
             match acc with
             | [] => Err UnexpectedTag
             | prev :: _ =>
               '(t, r_oid) <- reloid_from_ber vs ;;
               oid <- try_normalize r_oid (vb_oid prev) ;;
               Ok (t, oid)
             end
           else Err UnexpectedTag) ;;
        '(_, v) <- value_from_ber tail ;;
        resp_vars fuel' rest ({| vb_oid := oid; vb_value := v |} :: acc)
      end
    end
  end.

Definition getresponse_decode (i : bytes) : res getresponse :=
  '(tail, request_id) <- int_from_ber i ;;
  '(tail, error_status) <- int_from_ber tail ;;
  '(tail, error_index) <- int_from_ber tail ;;
  '(tail, vb) <- sequence_from_ber tail ;;
  match tail with
  | _ :: _ => Err TrailingData
  | [] =>
    vars <- resp_vars (length vb) vb [] ;;
    Ok {| gr_request_id := request_id; gr_error_status := error_status;
          gr_error_index := error_index; gr_vars := vars |}
  end.

Definition parse_var (i : bytes) : res (bytes * bytes) :=
  '(rest, vs) <- sequence_from_ber i ;;
  '(tail, oid) <- oid_from_ber vs ;;
  '(_, _) <- null_from_ber tail ;;
  Ok (rest, oid).

Fixpoint req_vars (fuel : nat) (v_tail : bytes) (acc : list bytes) : res (list bytes) :=
  match v_tail with
  | [] => Ok (rev acc)
  | _ =>
    match fuel with
    | O => Panic
    | S fuel' => '(rest, oid) <- parse_var v_tail ;; req_vars fuel' rest (oid :: acc)
    end
  end.

Definition get_decode (i : bytes) : res getreq :=
  '(tail, request_id) <- int_from_ber i ;;
  '(tail, error_status) <- int_from_ber tail ;;
  if negb (error_status =? 0) then Err InvalidPdu else
  '(tail, error_index) <- int_from_ber tail ;;
  if negb (error_index =? 0) then Err InvalidPdu else
  '(tail, vb) <- sequence_from_ber tail ;;
  match tail with
  | _ :: _ => Err TrailingData
  | [] => vars <- req_vars (length vb) vb [] ;; Ok {| g_request_id := request_id; g_vars := vars |}
  end.

Definition getbulk_decode (i : bytes) : res getbulk :=
  '(tail, request_id) <- int_from_ber i ;;
  '(tail, non_repeaters) <- int_from_ber tail ;;
  '(tail, max_repetitions) <- int_from_ber tail ;;
  '(tail, vb) <- sequence_from_ber tail ;;
  match tail with
  | _ :: _ => Err TrailingData
  | [] => vars <- req_vars (length vb) vb [] ;;
          Ok {| gb_request_id := request_id; gb_non_repeaters := non_repeaters;
                gb_max_repetitions := max_repetitions; gb_vars := vars |}
  end.

Definition pdu_decode (i : bytes) : res pdu :=
  '(_, opt) <- option_from_ber i ;;
  let '(tag, v) := opt in
  if tag =? PDU_GET_REQUEST then g <- get_decode v ;; Ok (PGetRequest g)
  else if tag =? PDU_GETNEXT_REQUEST then g <- get_decode v ;; Ok (PGetNextRequest g)
  else if tag =? PDU_GET_RESPONSE then r <- getresponse_decode v ;; Ok (PGetResponse r)
  else if tag =? PDU_GET_BULK_REQUEST then b <- getbulk_decode v ;; Ok (PGetBulkRequest b)
  else if tag =? PDU_REPORT then Ok (PReport v)
  else Err UnknownPdu.

Definition pdu_request_id (p : pdu) : option Z :=
  match p with
  | PGetRequest g | PGetNextRequest g => Some (g_request_id g)
  | PGetBulkRequest b => Some (gb_request_id b)
  | PGetResponse r => Some (gr_request_id r)
  | PReport _ => None
  end.
(* SnmpPdu::check *)
Definition pdu_check (p : pdu) (request_id : Z) : bool :=
  match pdu_request_id p with Some i => request_id =? i | None => true end.

(* ---- community messages (v1.rs / v2c.rs): identical but for the version number ---- *)
Record cmsg := { cm_community : bytes; cm_pdu : pdu }.

(* `let vc: u8 = v_code.into()` is `value.0 as u8` *)
Definition as_u8 (z : Z) : Z := z mod 256.

Definition cmsg_decode (version : Z) (i : bytes) : res cmsg :=
  '(tail, envelope) <- sequence_from_ber i ;;
  match tail with
  | _ :: _ => Err TrailingData
  | [] =>
    '(tail, v_code) <- int_from_ber envelope ;;
    if negb (as_u8 v_code =? version) then Err InvalidVersion else
    '(tail, community) <- octetstring_from_ber tail ;;
    p <- pdu_decode tail ;;
    Ok {| cm_community := community; cm_pdu := p |}
  end.
Definition v1_decode := cmsg_decode SNMP_V1.
Definition v2c_decode := cmsg_decode SNMP_V2C.

(* ---- v3 (msg/v3/*.rs) ---- *)
Record usm := { u_engine_id : bytes; u_engine_boots : Z; u_engine_time : Z; u_user_name : bytes;
                u_auth_params : bytes; u_privacy_params : bytes }.
Record scoped := { s_engine_id : bytes; s_pdu : pdu }.
Inductive msgdata := Plaintext (s : scoped) | Encrypted (ct : bytes).
Record v3msg := { m_msg_id : Z; m_flag_auth : bool; m_flag_priv : bool; m_flag_report : bool;
                  m_usm : usm; m_data : msgdata }.

Definition usm_decode (i : bytes) : res usm :=
  '(tail, envelope) <- sequence_from_ber i ;;
  match tail with
  | _ :: _ => Err TrailingData
  | [] =>
    '(tail, engine_id) <- octetstring_from_ber envelope ;;
    '(tail, engine_boots) <- int_from_ber tail ;;
    '(tail, engine_time) <- int_from_ber tail ;;
    '(tail, user_name) <- octetstring_from_ber tail ;;
    '(tail, auth_parameters) <- octetstring_from_ber tail ;;
    '(_, privacy_parameters) <- octetstring_from_ber tail ;;
    Ok {| u_engine_id := engine_id; u_engine_boots := engine_boots; u_engine_time := engine_time;
          u_user_name := user_name; u_auth_params := auth_parameters; u_privacy_params := privacy_parameters |}
  end.

Definition scoped_decode (i : bytes) : res scoped :=
  '(_, envelope) <- sequence_from_ber i ;;
  '(tail, engine_id) <- octetstring_from_ber envelope ;;
  '(tail, _) <- octetstring_from_ber tail ;;
  p <- pdu_decode tail ;;
  Ok {| s_engine_id := engine_id; s_pdu := p |}.

Definition msgdata_decode (i : bytes) : res msgdata :=
  match i with
  | [] => Err Incomplete
  | t :: _ => if t =? TAG_OCTET_STRING then '(_, os) <- octetstring_from_ber i ;; Ok (Encrypted os)
              else s <- scoped_decode i ;; Ok (Plaintext s)
  end.

Definition v3_decode (i : bytes) : res v3msg :=
  '(tail, envelope) <- sequence_from_ber i ;;
  match tail with
  | _ :: _ => Err TrailingData
  | [] =>
    '(tail, v_code) <- int_from_ber envelope ;;
    if negb (as_u8 v_code =? SNMP_V3) then Err InvalidVersion else
    '(sp_tail, envelope) <- sequence_from_ber tail ;;
    '(tail, msg_id) <- int_from_ber envelope ;;
    '(tail, _) <- int_from_ber tail ;;
    '(tail, flags_data) <- octetstring_from_ber tail ;;
    if negb (len flags_data =? 1) then Err InvalidPdu else
    flags <- idx flags_data 0 ;;
    '(_, security_model) <- int_from_ber tail ;;
    if negb (as_u8 security_model =? USM_MODEL) then Err UnknownSecurityModel else
    '(tail, security_parameters) <- octetstring_from_ber sp_tail ;;
    u <- usm_decode security_parameters ;;
    d <- msgdata_decode tail ;;
    Ok {| m_msg_id := msg_id; m_flag_auth := testbit flags FLAG_AUTH; m_flag_priv := testbit flags FLAG_PRIV;
          m_flag_report := testbit flags FLAG_REPORT; m_usm := u; m_data := d |}
  end.
